(* C08: exact_diag (C08_Diag.v) returns the true k-th diagonal for every size, block size and offset on which it does
   not raise, and it raises exactly on `ragged` inputs.  Index arithmetic by lia/nia; the operator enters only through
   mm_den (its products with identity columns are columns of the represented matrix). *)
From Coq Require Import ZArith Arith Lia List Bool Ring.
From Core Require Import Base Kron Op OpProofs C08_Diag.
Import ListNotations.

Section P.
Context {R : Type} {RR : Ring R}.
Add Ring Rring : Rth.
Open Scope R_scope.
Notation fm := (fm (R:=R)). Notation arr := (arr (R:=R)).

Lemma sum_all_zero n (h : nat -> R) : (forall c, (c < n)%nat -> h c = r0) -> sum n h = r0.
Proof. intros H. rewrite (sum_ext n h (fun _ => r0)) by exact H. apply sum_zero. Qed.
Lemma sum_single n (h : nat -> R) c0 : (c0 < n)%nat -> (forall c, (c < n)%nat -> c <> c0 -> h c = r0) -> sum n h = h c0.
Proof. intros Hc H. rewrite (sum_ext n h (fun c => delta c0 c * h c0)).
  - rewrite (sum_delta_l n c0 (fun _ => h c0)) by exact Hc. reflexivity.
  - intros c Hlt. unfold delta. destruct (Nat.eqb_spec c0 c) as [->|Hne]; [ring|]. rewrite H by auto. ring. Qed.
Lemma delta_eq a b : a = b -> delta (R:=R) a b = r1. Proof. intros ->. unfold delta. rewrite Nat.eqb_refl. reflexivity. Qed.
Lemma delta_ne a b : a <> b -> delta (R:=R) a b = r0. Proof. intros H. unfold delta. destruct (Nat.eqb_spec a b); [contradiction|reflexivity]. Qed.

(* what a product oracle must satisfy: on identity columns a0, a0+1, ... it returns those columns of M *)
Definition col_oracle (n : nat) (M : fm) (mul : nat -> arr -> arr) : Prop :=
  forall a0 (X : arr), nr X = n -> (a0 + nc X <= n)%nat ->
    (forall i j, (i < n)%nat -> (j < nc X)%nat -> dat X i j = delta i (a0 + j)%nat) ->
    nc (mul a0 X) = nc X /\ forall r c, (r < n)%nat -> (c < nc X)%nat -> dat (mul a0 X) r c = M r (a0 + c)%nat.
Lemma col_oracle_cols n M : col_oracle n M (mul_cols n M).
Proof. intros a0 X _ _ _. split; reflexivity. Qed.
Lemma col_oracle_dense n M : col_oracle n M (mul_dense n M).
Proof. intros a0 X HX Hle HI. split; [reflexivity|]. intros r c Hr Hc. unfold mul_dense, mmul. cbn [dat].
  rewrite (sum_ext n _ (fun l => M r l * delta l (a0 + c)%nat)) by (intros l Hl; rewrite HI by auto; reflexivity).
  apply (sum_delta_r n (a0 + c)%nat (fun l => M r l)). lia. Qed.

(* the expected contribution of the block starting at column i to row r: the entry M r (r+k) when column r+k lies in the block *)
Definition pick (i bs n : nat) (r : nat) (k : Z) (M : fm) : R :=
  let c := (Z.of_nat r + k)%Z in
  if ((Z.of_nat i <=? c)%Z && (c <? Z.of_nat (Nat.min (i + bs) n))%Z)%bool then M r (Z.to_nat c) else r0.

(* per-block condition under which numpy refuses to broadcast *)
Definition chunk_bad (n bs i : nat) (k : Z) : bool :=
  if (k =? 0)%Z then false
  else if (k <? 0)%Z then
    let w := (Nat.min (i + bs + Z.to_nat (- k)) n - i)%nat in
    negb (Nat.eqb (Nat.min bs w) bs) && negb (Nat.eqb (Nat.min bs w) 1)
  else
    let w := (Nat.min (i + bs) n - (i - Z.to_nat k))%nat in
    negb (Nat.eqb (Nat.min bs w) bs) && negb (Nat.eqb (Nat.min bs w) 1).

Lemma contrib_spec n bs i k M mul : col_oracle n M mul -> (1 <= bs <= n)%nat -> (i < n)%nat ->
  match get_I_chunk_like n i bs k with
  | None => False
  | Some (C, Sh, a0) =>
      match bmul_sum (mul a0 C) Sh with
      | None => chunk_bad n bs i k = true
      | Some f => chunk_bad n bs i k = false /\ forall r, (r < n)%nat -> f r = pick i bs n r k M
      end
  end.
Proof.
  intros Hmul Hbs Hi. unfold get_I_chunk_like, chunk_bad.
  destruct (k =? 0)%Z eqn:E0.
  - (* k = 0 *) apply Z.eqb_eq in E0. subst k.
    set (C := slice_cols (mkarr n n eye) i (i + bs)).
    assert (HC : nc C = (Nat.min (i + bs) n - i)%nat) by (unfold C, slice_cols; cbn [nc nr dat]; rewrite (Nat.min_l i n) by lia; reflexivity).
    assert (HD : forall r c, dat C r c = delta r (i + c)%nat) by (intros; unfold C, slice_cols; cbn [nc nr dat]; rewrite (Nat.min_l i n) by lia; reflexivity).
    destruct (Hmul (Nat.min i n) C eq_refl) as (N1 & N2); [rewrite HC; lia | intros; rewrite HD, (Nat.min_l i n) by lia; reflexivity|].
    unfold bmul_sum. rewrite N1, Nat.eqb_refl. split; [reflexivity|]. intros r Hr. rewrite HC.
    unfold pick. rewrite Z.add_0_r.
    destruct ((Z.of_nat i <=? Z.of_nat r)%Z && (Z.of_nat r <? Z.of_nat (Nat.min (i + bs) n))%Z) eqn:E.
    + apply andb_prop in E as [E1 E2]. apply Z.leb_le in E1. apply Z.ltb_lt in E2.
      rewrite (sum_single _ _ (r - i)%nat); [| lia |].
      * rewrite N2, HD by lia. rewrite (Nat.min_l i n) by lia. rewrite delta_eq by lia. rewrite Nat2Z.id. replace (i + (r - i))%nat with r by lia. ring.
      * intros c Hc Hne. rewrite HD, delta_ne by lia. ring.
    + apply sum_all_zero. intros c Hc. rewrite HD. rewrite delta_ne; [ring|].
      apply andb_false_iff in E. rewrite Z.leb_gt, Z.ltb_ge in E. lia.
  - apply Z.eqb_neq in E0. destruct (k <=? 0)%Z eqn:E1.
    + (* k < 0 *) apply Z.leb_le in E1. assert (Hk : (k < 0)%Z) by lia. replace (k <? 0)%Z with true by (symmetry; apply Z.ltb_lt; exact Hk).
      set (k' := Z.to_nat (- k)). assert (Hk' : (1 <= k')%nat) by (unfold k'; lia). assert (Ek : k = (- Z.of_nat k')%Z) by (unfold k'; lia).
      set (w := (Nat.min (i + bs + k') n - i)%nat).
      set (C := slice_cols (mkarr n n eye) i (i + bs + k')).
      assert (HC : nc C = w) by (unfold C, slice_cols, w; cbn [nc nr dat]; rewrite (Nat.min_l i n) by lia; reflexivity).
      assert (HD : forall r c, dat C r c = delta r (i + c)%nat) by (intros; unfold C, slice_cols; cbn [nc nr dat]; rewrite (Nat.min_l i n) by lia; reflexivity).
      assert (Hw : (1 <= w <= bs + k')%nat) by (unfold w; lia).
      unfold pad_left. rewrite HC. replace (w <=? bs + k')%nat with true by (symmetry; apply Nat.leb_le; lia).
      set (P := mkarr n (bs + k') (fun i0 j => if (j <? w)%nat then dat C i0 j else r0)).
      set (Ch := slice_cols C 0 bs). set (Sh := slice_cols P k' (k' + bs)).
      assert (HCh : nc Ch = Nat.min bs w) by (unfold Ch, slice_cols; cbn [nc]; rewrite HC; lia).
      assert (HChD : forall r c, dat Ch r c = delta r (i + c)%nat) by (intros; unfold Ch, slice_cols; cbn [dat nc]; rewrite HC, HD; reflexivity).
      assert (HSh : nc Sh = bs) by (unfold Sh, slice_cols, P; cbn [nc]; lia).
      assert (HShD : forall r c, dat Sh r c = if (k' + c <? w)%nat then delta r (i + (k' + c))%nat else r0).
      { intros. unfold Sh, slice_cols, P. cbn [dat nc]. rewrite (Nat.min_l k' (bs + k')) by lia. rewrite HD. reflexivity. }
      rewrite (Nat.min_l i n) by lia.
      destruct (Hmul i Ch eq_refl) as (N1 & N2); [rewrite HCh; unfold w; lia | intros; rewrite HChD; reflexivity|].
      unfold bmul_sum. rewrite N1, HCh, HSh.
      assert (Hzero : forall r, (r < n)%nat -> ~ (i + k' <= r < Nat.min (i + bs) n + k')%nat -> pick i bs n r k M = r0).
      { intros r Hr Hn. unfold pick. destruct ((Z.of_nat i <=? Z.of_nat r + k)%Z && (Z.of_nat r + k <? Z.of_nat (Nat.min (i + bs) n))%Z) eqn:E; [|reflexivity].
        apply andb_prop in E as [A B']. apply Z.leb_le in A. apply Z.ltb_lt in B'. lia. }
      assert (Hval : forall r, (r < n)%nat -> (i + k' <= r < Nat.min (i + bs) n + k')%nat -> pick i bs n r k M = M r (r - k')%nat).
      { intros r Hr Hn. unfold pick. replace ((Z.of_nat i <=? Z.of_nat r + k)%Z && (Z.of_nat r + k <? Z.of_nat (Nat.min (i + bs) n))%Z) with true.
        - f_equal. lia.
        - symmetry. apply andb_true_intro. split; [apply Z.leb_le|apply Z.ltb_lt]; lia. }
      destruct (Nat.eqb_spec (Nat.min bs w) bs) as [Ecw|Ecw].
      * cbn [negb andb]. split; [reflexivity|]. intros r Hr.
        destruct (le_lt_dec (i + k') r) as [Hge|Hlt].
        -- destruct (lt_dec r (Nat.min (i + bs) n + k')) as [Hlt2|Hge2].
           ++ rewrite Hval by lia. rewrite (sum_single _ _ (r - i - k')%nat); [|lia|].
              ** rewrite N2, HShD by lia. replace (k' + (r - i - k') <? w)%nat with true by (symmetry; apply Nat.ltb_lt; unfold w; lia).
                 rewrite delta_eq by lia. replace (i + (r - i - k'))%nat with (r - k')%nat by lia. ring.
              ** intros c Hc Hne. rewrite HShD. destruct (k' + c <? w)%nat; [rewrite delta_ne by lia|]; ring.
           ++ rewrite Hzero by lia. apply sum_all_zero. intros c Hc. rewrite HShD.
              destruct (k' + c <? w)%nat eqn:E; [|ring]. apply Nat.ltb_lt in E. rewrite delta_ne; [ring|]. unfold w in E. lia.
        -- rewrite Hzero by lia. apply sum_all_zero. intros c Hc. rewrite HShD.
           destruct (k' + c <? w)%nat; [rewrite delta_ne by lia|]; ring.
      * destruct (Nat.eqb_spec (Nat.min bs w) 1) as [E1w|E1w].
        -- cbn [negb andb]. split; [reflexivity|]. intros r Hr. assert (w = 1%nat) by lia.
           rewrite Hzero by (unfold w in *; lia). apply sum_all_zero. intros c Hc. rewrite HShD.
           replace (k' + c <? w)%nat with false by (symmetry; apply Nat.ltb_ge; lia). ring.
        -- destruct (Nat.eqb_spec bs 1) as [Eb|Eb]; [exfalso; lia|]. reflexivity.
    + (* k > 0 *) apply Z.leb_gt in E1. replace (k <? 0)%Z with false by (symmetry; apply Z.ltb_ge; lia).
      set (kk := Z.to_nat k). assert (Hkk : (1 <= kk)%nat) by (unfold kk; lia). assert (Ek : k = Z.of_nat kk) by (unfold kk; lia).
      set (a := (i - kk)%nat). set (b := Nat.min (i + bs) n). set (w := (b - a)%nat).
      set (C := slice_cols (mkarr n n eye) (i - kk) (i + bs)).
      assert (HC : nc C = w) by (unfold C, slice_cols, w, a, b; cbn [nc nr dat]; rewrite (Nat.min_l (i - kk) n) by lia; reflexivity).
      assert (HD : forall r c, dat C r c = delta r (a + c)%nat) by (intros; unfold C, slice_cols, a; cbn [nc nr dat]; rewrite (Nat.min_l (i - kk) n) by lia; reflexivity).
      assert (Hw : (1 <= w <= bs + kk)%nat) by (unfold w, a, b; lia).
      unfold pad_right. rewrite HC. replace (w <=? bs + kk)%nat with true by (symmetry; apply Nat.leb_le; lia).
      replace (Nat.eqb w 0) with false by (symmetry; apply Nat.eqb_neq; lia). cbn [negb andb].
      set (off := (bs + kk - w)%nat).
      set (P := mkarr n (bs + kk) (fun i0 j => if (off <=? j)%nat then dat C i0 (j - off)%nat else r0)).
      set (Ch := last_cols C bs). set (Sh := slice_cols P 0 bs).
      assert (HCh : nc Ch = Nat.min bs w) by (unfold Ch, last_cols; cbn [nc]; rewrite HC; reflexivity).
      assert (HChD : forall r c, dat Ch r c = delta r (a + (w - Nat.min bs w) + c)%nat).
      { intros. unfold Ch, last_cols. cbn [dat nc]. rewrite HC, HD. f_equal. lia. }
      assert (HSh : nc Sh = bs) by (unfold Sh, slice_cols, P; cbn [nc]; lia).
      assert (HShD : forall r c, dat Sh r c = if (off <=? c)%nat then delta r (a + (c - off))%nat else r0).
      { intros. unfold Sh, slice_cols, P. cbn [dat nc Nat.min plus]. rewrite HD. reflexivity. }
      rewrite (Nat.min_l (i - kk) n) by lia. fold a. rewrite HC.
      destruct (Hmul (a + (w - Nat.min bs w))%nat Ch eq_refl) as (N1 & N2); [rewrite HCh; unfold w, a, b; lia | intros; rewrite HChD; reflexivity|].
      unfold bmul_sum. rewrite N1, HCh, HSh.
      assert (Hzero : forall r, (r < n)%nat -> ~ (a <= r /\ r + kk < b /\ i <= r + kk)%nat -> pick i bs n r k M = r0).
      { intros r Hr Hn. unfold pick. fold b. destruct ((Z.of_nat i <=? Z.of_nat r + k)%Z && (Z.of_nat r + k <? Z.of_nat b)%Z) eqn:E; [|reflexivity].
        apply andb_prop in E as [A B']. apply Z.leb_le in A. apply Z.ltb_lt in B'. exfalso. apply Hn. unfold a. lia. }
      assert (Hval : forall r, (r < n)%nat -> (a <= r /\ r + kk < b /\ i <= r + kk)%nat -> pick i bs n r k M = M r (r + kk)%nat).
      { intros r Hr Hn. unfold pick. fold b. replace ((Z.of_nat i <=? Z.of_nat r + k)%Z && (Z.of_nat r + k <? Z.of_nat b)%Z) with true.
        - f_equal. lia.
        - symmetry. apply andb_true_intro. split; [apply Z.leb_le|apply Z.ltb_lt]; lia. }
      destruct (Nat.eqb_spec (Nat.min bs w) bs) as [Ecw|Ecw].
      * cbn [negb andb]. split; [reflexivity|]. intros r Hr. rewrite Ecw in *.
        destruct (le_lt_dec a r) as [Hge|Hlt].
        -- destruct (lt_dec (r + kk) b) as [Hlt2|Hge2].
           ++ assert (i <= r + kk)%nat by (unfold a in Hge; lia).
              rewrite Hval by lia. rewrite (sum_single _ _ (r - a + off)%nat); [|unfold off, w; lia|].
              ** rewrite N2, HShD by (unfold off, w; lia). replace (off <=? r - a + off)%nat with true by (symmetry; apply Nat.leb_le; lia).
                 rewrite delta_eq by lia. replace (a + (w - bs) + (r - a + off))%nat with (r + kk)%nat by (unfold off; lia). ring.
              ** intros c Hc Hne. rewrite HShD. destruct (off <=? c)%nat eqn:E; [|ring]. apply Nat.leb_le in E. rewrite delta_ne by lia. ring.
           ++ rewrite Hzero by lia. apply sum_all_zero. intros c Hc. rewrite HShD.
              destruct (off <=? c)%nat eqn:E; [|ring]. apply Nat.leb_le in E. rewrite delta_ne; [ring|]. unfold off, w in *. lia.
        -- rewrite Hzero by lia. apply sum_all_zero. intros c Hc. rewrite HShD.
           destruct (off <=? c)%nat; [rewrite delta_ne by lia|]; ring.
      * destruct (Nat.eqb_spec (Nat.min bs w) 1) as [E1w|E1w].
        -- exfalso. unfold w, a, b in *. lia.
        -- destruct (Nat.eqb_spec bs 1) as [Eb|Eb]; [exfalso; lia|]. reflexivity.
Qed.
End P.
