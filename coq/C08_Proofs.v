(* C08: exact_diag (C08_Diag.v) returns the true k-th diagonal for every size, block size and offset on which it does
   not raise, and it raises exactly on `ragged` inputs.  Index arithmetic by lia/nia; the operator enters only through
   mm_den (its products with identity columns are columns of the represented matrix). *)
From Coq Require Import ZArith Arith Lia List Bool Ring.
From Core Require Import Base Kron Op OpProofs C08_Diag.
Import ListNotations.

Section P.
Context {R : Type} {RR : Ring R}.
Add Ring Rring : Rth.
Open Scope R_scope.
Notation fm := (fm (R:=R)). Notation arr := (arr (R:=R)).

Lemma sum_all_zero n (h : nat -> R) : (forall c, (c < n)%nat -> h c = r0) -> sum n h = r0.
Proof. intros H. rewrite (sum_ext n h (fun _ => r0)) by exact H. apply sum_zero. Qed.
Lemma sum_single n (h : nat -> R) c0 : (c0 < n)%nat -> (forall c, (c < n)%nat -> c <> c0 -> h c = r0) -> sum n h = h c0.
Proof. intros Hc H. rewrite (sum_ext n h (fun c => delta c0 c * h c0)).
  - rewrite (sum_delta_l n c0 (fun _ => h c0)) by exact Hc. reflexivity.
  - intros c Hlt. unfold delta. destruct (Nat.eqb_spec c0 c) as [->|Hne]; [ring|]. rewrite H by auto. ring. Qed.
Lemma delta_eq a b : a = b -> delta (R:=R) a b = r1. Proof. intros ->. unfold delta. rewrite Nat.eqb_refl. reflexivity. Qed.
Lemma delta_ne a b : a <> b -> delta (R:=R) a b = r0. Proof. intros H. unfold delta. destruct (Nat.eqb_spec a b); [contradiction|reflexivity]. Qed.

(* what a product oracle must satisfy: on identity columns a0, a0+1, ... it returns those columns of M *)
Definition col_oracle (n : nat) (M : fm) (mul : nat -> arr -> arr) : Prop :=
  forall a0 (X : arr), nr X = n -> (a0 + nc X <= n)%nat ->
    (forall i j, (i < n)%nat -> (j < nc X)%nat -> dat X i j = delta i (a0 + j)%nat) ->
    nc (mul a0 X) = nc X /\ forall r c, (r < n)%nat -> (c < nc X)%nat -> dat (mul a0 X) r c = M r (a0 + c)%nat.
Lemma col_oracle_cols n M : col_oracle n M (mul_cols n M).
Proof. intros a0 X _ _ _. split; reflexivity. Qed.
Lemma col_oracle_dense n M : col_oracle n M (mul_dense n M).
Proof. intros a0 X HX Hle HI. split; [reflexivity|]. intros r c Hr Hc. unfold mul_dense, mmul. cbn [dat].
  rewrite (sum_ext n _ (fun l => M r l * delta l (a0 + c)%nat)) by (intros l Hl; rewrite HI by auto; reflexivity).
  apply (sum_delta_r n (a0 + c)%nat (fun l => M r l)). lia. Qed.

(* the expected contribution of the block starting at column i to row r: the entry M r (r+k) when column r+k lies in the block *)
Definition pick (i bs n : nat) (r : nat) (k : Z) (M : fm) : R :=
  let c := (Z.of_nat r + k)%Z in
  if ((Z.of_nat i <=? c)%Z && (c <? Z.of_nat (Nat.min (i + bs) n))%Z)%bool then M r (Z.to_nat c) else r0.

(* per-block condition under which numpy refuses to broadcast *)
Definition chunk_bad (fx : bool) (n bs i : nat) (k : Z) : bool :=
  if fx then false else
  if (k =? 0)%Z then false
  else if (k <? 0)%Z then
    let w := (Nat.min (i + bs + Z.to_nat (- k)) n - i)%nat in
    negb (Nat.eqb (Nat.min bs w) bs) && negb (Nat.eqb (Nat.min bs w) 1)
  else
    let w := (Nat.min (i + bs) n - (i - Z.to_nat k))%nat in
    negb (Nat.eqb (Nat.min bs w) bs) && negb (Nat.eqb (Nat.min bs w) 1).

Lemma contrib_spec_pinned n bs i k M mul : col_oracle n M mul -> (1 <= bs <= n)%nat -> (i < n)%nat ->
  match get_I_chunk_like false n i bs k with
  | None => False
  | Some (C, Sh, a0) =>
      match bmul_sum (mul a0 C) Sh with
      | None => chunk_bad false n bs i k = true
      | Some f => chunk_bad false n bs i k = false /\ forall r, (r < n)%nat -> f r = pick i bs n r k M
      end
  end.
Proof.
  intros Hmul Hbs Hi. unfold get_I_chunk_like, chunk_bad. cbv iota zeta.
  destruct (k =? 0)%Z eqn:E0.
  - (* k = 0 *) apply Z.eqb_eq in E0. subst k.
    set (C := slice_cols (mkarr n n eye) i (i + bs)).
    assert (HC : nc C = (Nat.min (i + bs) n - i)%nat) by (unfold C, slice_cols; cbn [nc nr dat]; rewrite (Nat.min_l i n) by lia; reflexivity).
    assert (HD : forall r c, dat C r c = delta r (i + c)%nat) by (intros; unfold C, slice_cols; cbn [nc nr dat]; rewrite (Nat.min_l i n) by lia; reflexivity).
    destruct (Hmul (Nat.min i n) C eq_refl) as (N1 & N2); [rewrite HC; lia | intros; rewrite HD, (Nat.min_l i n) by lia; reflexivity|].
    unfold bmul_sum. rewrite N1, Nat.eqb_refl. split; [reflexivity|]. intros r Hr. rewrite HC.
    unfold pick. rewrite Z.add_0_r.
    destruct ((Z.of_nat i <=? Z.of_nat r)%Z && (Z.of_nat r <? Z.of_nat (Nat.min (i + bs) n))%Z) eqn:E.
    + apply andb_prop in E as [E1 E2]. apply Z.leb_le in E1. apply Z.ltb_lt in E2.
      rewrite (sum_single _ _ (r - i)%nat); [| lia |].
      * rewrite N2, HD by lia. rewrite (Nat.min_l i n) by lia. rewrite delta_eq by lia. rewrite Nat2Z.id. replace (i + (r - i))%nat with r by lia. ring.
      * intros c Hc Hne. rewrite HD, delta_ne by lia. ring.
    + apply sum_all_zero. intros c Hc. rewrite HD. rewrite delta_ne; [ring|].
      apply andb_false_iff in E. rewrite Z.leb_gt, Z.ltb_ge in E. lia.
  - apply Z.eqb_neq in E0. destruct (k <=? 0)%Z eqn:E1.
    + (* k < 0 *) apply Z.leb_le in E1. assert (Hk : (k < 0)%Z) by lia. replace (k <? 0)%Z with true by (symmetry; apply Z.ltb_lt; exact Hk).
      set (k' := Z.to_nat (- k)). assert (Hk' : (1 <= k')%nat) by (unfold k'; lia). assert (Ek : k = (- Z.of_nat k')%Z) by (unfold k'; lia).
      set (w := (Nat.min (i + bs + k') n - i)%nat).
      set (C := slice_cols (mkarr n n eye) i (i + bs + k')).
      assert (HC : nc C = w) by (unfold C, slice_cols, w; cbn [nc nr dat]; rewrite (Nat.min_l i n) by lia; reflexivity).
      assert (HD : forall r c, dat C r c = delta r (i + c)%nat) by (intros; unfold C, slice_cols; cbn [nc nr dat]; rewrite (Nat.min_l i n) by lia; reflexivity).
      assert (Hw : (1 <= w <= bs + k')%nat) by (unfold w; lia).
      unfold pad_left. rewrite HC. replace (w <=? bs + k')%nat with true by (symmetry; apply Nat.leb_le; lia).
      set (P := mkarr n (bs + k') (fun i0 j => if (j <? w)%nat then dat C i0 j else r0)).
      set (Ch := slice_cols C 0 bs). set (Sh := slice_cols P k' (k' + bs)).
      assert (HCh : nc Ch = Nat.min bs w) by (unfold Ch, slice_cols; cbn [nc]; rewrite HC; lia).
      assert (HChD : forall r c, dat Ch r c = delta r (i + c)%nat) by (intros; unfold Ch, slice_cols; cbn [dat nc]; rewrite HC, HD; reflexivity).
      assert (HSh : nc Sh = bs) by (unfold Sh, slice_cols, P; cbn [nc]; lia).
      assert (HShD : forall r c, dat Sh r c = if (k' + c <? w)%nat then delta r (i + (k' + c))%nat else r0).
      { intros. unfold Sh, slice_cols, P. cbn [dat nc]. rewrite (Nat.min_l k' (bs + k')) by lia. rewrite HD. reflexivity. }
      rewrite (Nat.min_l i n) by lia.
      destruct (Hmul i Ch eq_refl) as (N1 & N2); [rewrite HCh; unfold w; lia | intros; rewrite HChD; reflexivity|].
      unfold bmul_sum. rewrite N1, HCh, HSh.
      assert (Hzero : forall r, (r < n)%nat -> ~ (i + k' <= r < Nat.min (i + bs) n + k')%nat -> pick i bs n r k M = r0).
      { intros r Hr Hn. unfold pick. destruct ((Z.of_nat i <=? Z.of_nat r + k)%Z && (Z.of_nat r + k <? Z.of_nat (Nat.min (i + bs) n))%Z) eqn:E; [|reflexivity].
        apply andb_prop in E as [A B']. apply Z.leb_le in A. apply Z.ltb_lt in B'. lia. }
      assert (Hval : forall r, (r < n)%nat -> (i + k' <= r < Nat.min (i + bs) n + k')%nat -> pick i bs n r k M = M r (r - k')%nat).
      { intros r Hr Hn. unfold pick. replace ((Z.of_nat i <=? Z.of_nat r + k)%Z && (Z.of_nat r + k <? Z.of_nat (Nat.min (i + bs) n))%Z) with true.
        - f_equal. lia.
        - symmetry. apply andb_true_intro. split; [apply Z.leb_le|apply Z.ltb_lt]; lia. }
      destruct (Nat.eqb_spec (Nat.min bs w) bs) as [Ecw|Ecw].
      * cbn [negb andb]. split; [reflexivity|]. intros r Hr.
        destruct (le_lt_dec (i + k') r) as [Hge|Hlt].
        -- destruct (lt_dec r (Nat.min (i + bs) n + k')) as [Hlt2|Hge2].
           ++ rewrite Hval by lia. rewrite (sum_single _ _ (r - i - k')%nat); [|lia|].
              ** rewrite N2, HShD by lia. replace (k' + (r - i - k') <? w)%nat with true by (symmetry; apply Nat.ltb_lt; unfold w; lia).
                 rewrite delta_eq by lia. replace (i + (r - i - k'))%nat with (r - k')%nat by lia. ring.
              ** intros c Hc Hne. rewrite HShD. destruct (k' + c <? w)%nat; [rewrite delta_ne by lia|]; ring.
           ++ rewrite Hzero by lia. apply sum_all_zero. intros c Hc. rewrite HShD.
              destruct (k' + c <? w)%nat eqn:E; [|ring]. apply Nat.ltb_lt in E. rewrite delta_ne; [ring|]. unfold w in E. lia.
        -- rewrite Hzero by lia. apply sum_all_zero. intros c Hc. rewrite HShD.
           destruct (k' + c <? w)%nat; [rewrite delta_ne by lia|]; ring.
      * destruct (Nat.eqb_spec (Nat.min bs w) 1) as [E1w|E1w].
        -- cbn [negb andb]. split; [reflexivity|]. intros r Hr. assert (w = 1%nat) by lia.
           rewrite Hzero by (unfold w in *; lia). apply sum_all_zero. intros c Hc. rewrite HShD.
           replace (k' + c <? w)%nat with false by (symmetry; apply Nat.ltb_ge; lia). ring.
        -- destruct (Nat.eqb_spec bs 1) as [Eb|Eb]; [exfalso; lia|]. reflexivity.
    + (* k > 0 *) apply Z.leb_gt in E1. replace (k <? 0)%Z with false by (symmetry; apply Z.ltb_ge; lia).
      set (kk := Z.to_nat k). assert (Hkk : (1 <= kk)%nat) by (unfold kk; lia). assert (Ek : k = Z.of_nat kk) by (unfold kk; lia).
      set (C := slice_cols (mkarr n n eye) (i - kk) (i + bs)).
      set (a := (i - kk)%nat). set (b := Nat.min (i + bs) n). set (w := (b - a)%nat).
      assert (HC : nc C = w) by (unfold C, slice_cols, w, a, b; cbn [nc nr dat]; rewrite (Nat.min_l (i - kk) n) by lia; reflexivity).
      assert (HD : forall r c, dat C r c = delta r (a + c)%nat) by (intros; unfold C, slice_cols, a; cbn [nc nr dat]; rewrite (Nat.min_l (i - kk) n) by lia; reflexivity).
      assert (Hw : (1 <= w <= bs + kk)%nat) by (unfold w, a, b; lia).
      unfold pad_right. rewrite HC. replace (w <=? bs + kk)%nat with true by (symmetry; apply Nat.leb_le; lia).
      replace (Nat.eqb w 0) with false by (symmetry; apply Nat.eqb_neq; lia). cbn [negb andb].
      set (off := (bs + kk - w)%nat).
      set (P := mkarr n (bs + kk) (fun i0 j => if (off <=? j)%nat then dat C i0 (j - off)%nat else r0)).
      set (Ch := last_cols C bs). set (Sh := slice_cols P 0 bs).
      assert (HCh : nc Ch = Nat.min bs w) by (unfold Ch, last_cols; cbn [nc]; rewrite HC; reflexivity).
      assert (HChD : forall r c, dat Ch r c = delta r (a + (w - Nat.min bs w) + c)%nat).
      { intros. unfold Ch, last_cols. cbn [dat nc]. rewrite HC, HD. f_equal. lia. }
      assert (HSh : nc Sh = bs) by (unfold Sh, slice_cols, P; cbn [nc]; lia).
      assert (HShD : forall r c, dat Sh r c = if (off <=? c)%nat then delta r (a + (c - off))%nat else r0).
      { intros. unfold Sh, slice_cols, P. cbn [dat nc Nat.min plus]. rewrite HD. reflexivity. }
      rewrite (Nat.min_l a n) by (unfold a; lia). rewrite ?HC.
      destruct (Hmul (a + (w - Nat.min bs w))%nat Ch eq_refl) as (N1 & N2); [rewrite HCh; unfold w, a, b; lia | intros; rewrite HChD; reflexivity|].
      unfold bmul_sum. rewrite N1, HCh, HSh.
      assert (Hzero : forall r, (r < n)%nat -> ~ (a <= r /\ r + kk < b /\ i <= r + kk)%nat -> pick i bs n r k M = r0).
      { intros r Hr Hn. unfold pick. fold b. destruct ((Z.of_nat i <=? Z.of_nat r + k)%Z && (Z.of_nat r + k <? Z.of_nat b)%Z) eqn:E; [|reflexivity].
        apply andb_prop in E as [A B']. apply Z.leb_le in A. apply Z.ltb_lt in B'. exfalso. apply Hn. unfold a. lia. }
      assert (Hval : forall r, (r < n)%nat -> (a <= r /\ r + kk < b /\ i <= r + kk)%nat -> pick i bs n r k M = M r (r + kk)%nat).
      { intros r Hr Hn. unfold pick. fold b. replace ((Z.of_nat i <=? Z.of_nat r + k)%Z && (Z.of_nat r + k <? Z.of_nat b)%Z) with true.
        - f_equal. lia.
        - symmetry. apply andb_true_intro. split; [apply Z.leb_le|apply Z.ltb_lt]; lia. }
      destruct (Nat.eqb_spec (Nat.min bs w) bs) as [Ecw|Ecw].
      * cbn [negb andb]. split; [reflexivity|]. intros r Hr. rewrite Ecw in *.
        destruct (le_lt_dec a r) as [Hge|Hlt].
        -- destruct (lt_dec (r + kk) b) as [Hlt2|Hge2].
           ++ assert (i <= r + kk)%nat by (unfold a in Hge; lia).
              rewrite Hval by lia. rewrite (sum_single _ _ (r - a + off)%nat); [|unfold off, w; lia|].
              ** rewrite N2, HShD by (unfold off, w; lia). replace (off <=? r - a + off)%nat with true by (symmetry; apply Nat.leb_le; lia).
                 rewrite delta_eq by lia. replace (a + (w - bs) + (r - a + off))%nat with (r + kk)%nat by (unfold off; lia). ring.
              ** intros c Hc Hne. rewrite HShD. destruct (off <=? c)%nat eqn:E; [|ring]. apply Nat.leb_le in E. rewrite delta_ne by lia. ring.
           ++ rewrite Hzero by lia. apply sum_all_zero. intros c Hc. rewrite HShD.
              destruct (off <=? c)%nat eqn:E; [|ring]. apply Nat.leb_le in E. rewrite delta_ne; [ring|]. unfold off, w in *. lia.
        -- rewrite Hzero by lia. apply sum_all_zero. intros c Hc. rewrite HShD.
           destruct (off <=? c)%nat; [rewrite delta_ne by lia|]; ring.
      * destruct (Nat.eqb_spec (Nat.min bs w) 1) as [E1w|E1w].
        -- exfalso. unfold w, a, b in *. lia.
        -- destruct (Nat.eqb_spec bs 1) as [Eb|Eb]; [exfalso; lia|]. reflexivity.
Qed.

(* the repaired code: the shifted chunk has the width of the chunk, no broadcasting is ever needed *)
Lemma contrib_spec_fixed n bs i k M mul : col_oracle n M mul -> (1 <= bs <= n)%nat -> (i < n)%nat ->
  match get_I_chunk_like true n i bs k with
  | None => False
  | Some (C, Sh, a0) =>
      match bmul_sum (mul a0 C) Sh with
      | None => False
      | Some f => forall r, (r < n)%nat -> f r = pick i bs n r k M
      end
  end.
Proof.
  intros Hmul Hbs Hi.
  destruct (k =? 0)%Z eqn:E0.
  - (* k = 0: the same code as before *)
    pose proof (contrib_spec_pinned n bs i k M mul Hmul Hbs Hi) as H. unfold get_I_chunk_like in *. rewrite E0 in *.
    destruct (bmul_sum _ _) as [f|]; [exact (proj2 H)|]. unfold chunk_bad in H. rewrite E0 in H. discriminate.
  - unfold get_I_chunk_like. rewrite E0. apply Z.eqb_neq in E0. destruct (k <=? 0)%Z eqn:E1.
    + (* k < 0 *) apply Z.leb_le in E1. assert (Hk : (k < 0)%Z) by lia.
      set (k' := Z.to_nat (- k)). assert (Hk' : (1 <= k')%nat) by (unfold k'; lia). assert (Ek : k = (- Z.of_nat k')%Z) by (unfold k'; lia).
      set (w := (Nat.min (i + bs + k') n - i)%nat).
      set (C := slice_cols (mkarr n n eye) i (i + bs + k')).
      assert (HC : nc C = w) by (unfold C, slice_cols, w; cbn [nc nr dat]; rewrite (Nat.min_l i n) by lia; reflexivity).
      assert (HD : forall r c, dat C r c = delta r (i + c)%nat) by (intros; unfold C, slice_cols; cbn [nc nr dat]; rewrite (Nat.min_l i n) by lia; reflexivity).
      assert (Hw : (1 <= w <= bs + k')%nat) by (unfold w; lia).
      unfold pad_left. rewrite HC. replace (w <=? bs + k')%nat with true by (symmetry; apply Nat.leb_le; lia).
      set (P := mkarr n (bs + k') (fun i0 j => if (j <? w)%nat then dat C i0 j else r0)).
      cbv zeta. set (Ch := slice_cols C 0 bs).
      assert (HCh : nc Ch = Nat.min bs w) by (unfold Ch, slice_cols; cbn [nc]; rewrite HC; lia).
      rewrite HCh. set (cw := Nat.min bs w) in *. set (Sh := slice_cols P k' (k' + cw)).
      assert (HChD : forall r c, dat Ch r c = delta r (i + c)%nat) by (intros; unfold Ch, slice_cols; cbn [dat nc]; rewrite HC, HD; reflexivity).
      assert (HSh : nc Sh = cw) by (unfold Sh, slice_cols, P; cbn [nc]; unfold cw; lia).
      assert (HShD : forall r c, dat Sh r c = if (k' + c <? w)%nat then delta r (i + (k' + c))%nat else r0).
      { intros. unfold Sh, slice_cols, P. cbn [dat nc]. rewrite (Nat.min_l k' (bs + k')) by lia. rewrite HD. reflexivity. }
      rewrite (Nat.min_l i n) by lia.
      destruct (Hmul i Ch eq_refl) as (N1 & N2); [rewrite HCh; unfold cw, w; lia | intros; rewrite HChD; reflexivity|].
      unfold bmul_sum. rewrite N1, HCh, HSh, Nat.eqb_refl. intros r Hr. unfold pick.
      destruct ((Z.of_nat i <=? Z.of_nat r + k)%Z && (Z.of_nat r + k <? Z.of_nat (Nat.min (i + bs) n))%Z) eqn:E.
      * apply andb_prop in E as [A B']. apply Z.leb_le in A. apply Z.ltb_lt in B'.
        rewrite (sum_single _ _ (r - i - k')%nat); [|unfold cw, w; lia|].
        -- rewrite N2, HShD by (unfold cw, w; lia). replace (k' + (r - i - k') <? w)%nat with true by (symmetry; apply Nat.ltb_lt; unfold w; lia).
           rewrite delta_eq by lia. replace (i + (r - i - k'))%nat with (Z.to_nat (Z.of_nat r + k)) by lia. ring.
        -- intros c Hc Hne. rewrite HShD. destruct (k' + c <? w)%nat; [rewrite delta_ne by lia|]; ring.
      * apply sum_all_zero. intros c Hc. rewrite HShD. destruct (k' + c <? w)%nat eqn:E2; [|ring]. apply Nat.ltb_lt in E2.
        rewrite delta_ne; [ring|]. apply andb_false_iff in E. rewrite Z.leb_gt, Z.ltb_ge in E. unfold cw, w in *. lia.
    + (* k > 0 *) apply Z.leb_gt in E1.
      set (kk := Z.to_nat k). assert (Hkk : (1 <= kk)%nat) by (unfold kk; lia). assert (Ek : k = Z.of_nat kk) by (unfold kk; lia).
      set (C := slice_cols (mkarr n n eye) (i - kk) (i + bs)).
      set (a := (i - kk)%nat). set (b := Nat.min (i + bs) n). set (w := (b - a)%nat).
      assert (HC : nc C = w) by (unfold C, slice_cols, w, a, b; cbn [nc nr dat]; rewrite (Nat.min_l (i - kk) n) by lia; reflexivity).
      assert (HD : forall r c, dat C r c = delta r (a + c)%nat) by (intros; unfold C, slice_cols, a; cbn [nc nr dat]; rewrite (Nat.min_l (i - kk) n) by lia; reflexivity).
      assert (Hw : (1 <= w <= bs + kk)%nat) by (unfold w, a, b; lia).
      unfold pad_right. rewrite HC. replace (w <=? bs + kk)%nat with true by (symmetry; apply Nat.leb_le; lia).
      replace (Nat.eqb w 0) with false by (symmetry; apply Nat.eqb_neq; lia). cbn [negb andb].
      set (off := (bs + kk - w)%nat).
      set (P := mkarr n (bs + kk) (fun i0 j => if (off <=? j)%nat then dat C i0 (j - off)%nat else r0)).
      cbv zeta. set (Ch := last_cols C bs).
      assert (HCh : nc Ch = Nat.min bs w) by (unfold Ch, last_cols; cbn [nc]; rewrite HC; reflexivity).
      rewrite HCh. set (cw := Nat.min bs w) in *. set (Sh := slice_cols P (bs - cw) bs).
      assert (HChD : forall r c, dat Ch r c = delta r (a + (w - cw) + c)%nat).
      { intros. unfold Ch, last_cols. cbn [dat nc]. rewrite HC, HD. fold cw. f_equal. lia. }
      assert (HSh : nc Sh = cw) by (unfold Sh, slice_cols, P; cbn [nc]; unfold cw; lia).
      assert (HShD : forall r c, dat Sh r c = if (off <=? bs - cw + c)%nat then delta r (a + (bs - cw + c - off))%nat else r0).
      { intros. unfold Sh, slice_cols, P. cbn [dat nc]. rewrite (Nat.min_l (bs - cw) (bs + kk)) by lia. rewrite HD. reflexivity. }
      rewrite (Nat.min_l a n) by (unfold a; lia). rewrite ?HC. fold cw.
      destruct (Hmul (a + (w - cw))%nat Ch eq_refl) as (N1 & N2); [rewrite HCh; unfold cw, w, a, b; lia | intros; rewrite HChD; reflexivity|].
      unfold bmul_sum. rewrite N1, HCh, HSh, Nat.eqb_refl. intros r Hr. unfold pick. fold b.
      destruct ((Z.of_nat i <=? Z.of_nat r + k)%Z && (Z.of_nat r + k <? Z.of_nat b)%Z) eqn:E.
      * apply andb_prop in E as [A B']. apply Z.leb_le in A. apply Z.ltb_lt in B'.
        assert (Hra : (a <= r)%nat) by (unfold a; lia).
        assert (Hlo : (a + (w - cw) <= r + kk)%nat) by (unfold cw, w, a, b in *; lia).
        rewrite (sum_single _ _ (r + kk - (a + (w - cw)))%nat); [|unfold cw, w, a, b in *; lia|].
        -- rewrite N2, HShD by (unfold cw, w, a, b in *; lia).
           replace (off <=? bs - cw + (r + kk - (a + (w - cw))))%nat with true by (symmetry; apply Nat.leb_le; unfold off, cw, w, a, b in *; lia).
           rewrite delta_eq by (unfold off, cw, w, a, b in *; lia).
           replace (a + (w - cw) + (r + kk - (a + (w - cw))))%nat with (Z.to_nat (Z.of_nat r + k)) by (unfold cw, w, a, b in *; lia). ring.
        -- intros c Hc Hne. rewrite HShD. destruct (off <=? bs - cw + c)%nat eqn:E2; [|ring]. apply Nat.leb_le in E2.
           rewrite delta_ne; [ring|]. unfold off, cw, w, a, b in *. lia.
      * apply sum_all_zero. intros c Hc. rewrite HShD. destruct (off <=? bs - cw + c)%nat eqn:E2; [|ring]. apply Nat.leb_le in E2.
        rewrite delta_ne; [ring|]. apply andb_false_iff in E. rewrite Z.leb_gt, Z.ltb_ge in E. unfold off, cw, w, a, b in *. lia.
Qed.
Lemma contrib_spec fx n bs i k M mul : col_oracle n M mul -> (1 <= bs <= n)%nat -> (i < n)%nat ->
  match get_I_chunk_like fx n i bs k with
  | None => False
  | Some (C, Sh, a0) =>
      match bmul_sum (mul a0 C) Sh with
      | None => chunk_bad fx n bs i k = true
      | Some f => chunk_bad fx n bs i k = false /\ forall r, (r < n)%nat -> f r = pick i bs n r k M
      end
  end.
Proof. intros Hmul Hbs Hi. destruct fx; [|apply contrib_spec_pinned; auto].
  pose proof (contrib_spec_fixed n bs i k M mul Hmul Hbs Hi) as H.
  destruct (get_I_chunk_like true n i bs k) as [[[C Sh] a0]|]; [|exact H].
  destruct (bmul_sum (mul a0 C) Sh) as [f|]; [|contradiction]. split; [reflexivity|exact H]. Qed.

(* ---------- range(0, n, bs) and the sum over the blocks *)
Lemma chunk_starts_lt fuel i0 bs n i : In i (chunk_starts fuel i0 bs n) -> (i < n)%nat.
Proof. revert i0. induction fuel as [|f IH]; intros i0; cbn [chunk_starts]; [intros []|].
  destruct (i0 <? n)%nat eqn:E; [|intros []]. apply Nat.ltb_lt in E. intros [<-|H]; [exact E|eauto]. Qed.
Lemma chunk_starts_in fuel i0 bs n i : (1 <= bs)%nat -> (n - i0 < fuel)%nat ->
  (In i (chunk_starts fuel i0 bs n) <-> exists t, i = (i0 + t * bs)%nat /\ (i < n)%nat).
Proof. intros Hbs. revert i0. induction fuel as [|f IH]; intros i0 Hf; [lia|]. cbn [chunk_starts].
  destruct (i0 <? n)%nat eqn:E.
  - apply Nat.ltb_lt in E. cbn [In]. rewrite IH by lia. split.
    + intros [<-|(t & -> & Ht)]; [exists 0%nat; lia|exists (S t); lia].
    + intros ([|t] & -> & Ht); [left; lia|right; exists t; lia].
  - apply Nat.ltb_ge in E. cbn [In]. split; [tauto|]. intros (t & -> & Ht). lia. Qed.
Lemma fold_blocks fuel i0 bs n r k (M : fm) acc : (1 <= bs)%nat -> (n - i0 < fuel)%nat ->
  fold_left (fun a i => a + pick i bs n r k M) (chunk_starts fuel i0 bs n) acc
  = acc + (if ((Z.of_nat i0 <=? Z.of_nat r + k)%Z && (Z.of_nat r + k <? Z.of_nat n)%Z)%bool then M r (Z.to_nat (Z.of_nat r + k)) else r0).
Proof. intros Hbs. revert i0 acc. induction fuel as [|f IH]; intros i0 acc Hf; [lia|]. cbn [chunk_starts].
  destruct (i0 <? n)%nat eqn:E.
  - apply Nat.ltb_lt in E. cbn [fold_left]. rewrite IH by lia. unfold pick.
    set (c := (Z.of_nat r + k)%Z). set (v := M r (Z.to_nat c)).
    destruct ((Z.of_nat i0 <=? c)%Z && (c <? Z.of_nat (Nat.min (i0 + bs) n))%Z) eqn:E1;
    destruct ((Z.of_nat (i0 + bs) <=? c)%Z && (c <? Z.of_nat n)%Z) eqn:E2;
    destruct ((Z.of_nat i0 <=? c)%Z && (c <? Z.of_nat n)%Z) eqn:E3; try ring; exfalso;
    repeat match goal with
           | H : (_ && _)%bool = true |- _ => apply andb_prop in H as [? ?]
           | H : (_ && _)%bool = false |- _ => apply andb_false_iff in H
           | H : (_ <=? _)%Z = true |- _ => apply Z.leb_le in H
           | H : (_ <? _)%Z = true |- _ => apply Z.ltb_lt in H
           end; rewrite ?Z.leb_gt, ?Z.ltb_ge in *; lia.
  - apply Nat.ltb_ge in E. cbn [fold_left].
    destruct ((Z.of_nat i0 <=? Z.of_nat r + k)%Z && (Z.of_nat r + k <? Z.of_nat n)%Z) eqn:E3; [|ring].
    apply andb_prop in E3 as [A B']. apply Z.leb_le in A. apply Z.ltb_lt in B'. lia. Qed.

Definition contrib_of (fx : bool) (n bs : nat) (mul : nat -> arr -> arr) (k : Z) (i : nat) : option (nat -> R) :=
  match get_I_chunk_like fx n i bs k with None => None | Some (C, Sh, a0) => bmul_sum (mul a0 C) Sh end.
Lemma contrib_of_spec fx n bs i k M mul : col_oracle n M mul -> (1 <= bs <= n)%nat -> (i < n)%nat ->
  match contrib_of fx n bs mul k i with
  | None => chunk_bad fx n bs i k = true
  | Some f => chunk_bad fx n bs i k = false /\ forall r, (r < n)%nat -> f r = pick i bs n r k M
  end.
Proof. intros Hmul Hbs Hi. pose proof (contrib_spec fx n bs i k M mul Hmul Hbs Hi) as Hc. unfold contrib_of.
  destruct (get_I_chunk_like fx n i bs k) as [[[C Sh] a0]|]; [exact Hc|contradiction]. Qed.
Lemma contribs_fold fx n bs k M mul l r acc : col_oracle n M mul -> (1 <= bs <= n)%nat -> (forall i, In i l -> (i < n)%nat) -> (r < n)%nat ->
  existsb (fun i => chunk_bad fx n bs i k) l = false ->
  forallb is_some (map (contrib_of fx n bs mul k) l) = true /\
  fold_left (fun a o => match o with Some f => a + f r | None => a end) (map (contrib_of fx n bs mul k) l) acc
  = fold_left (fun a i => a + pick i bs n r k M) l acc.
Proof. intros Hmul Hbs Hl Hr. revert acc. induction l as [|i l IH]; intros acc Hb; [split; reflexivity|].
  cbn [existsb] in Hb. apply orb_false_iff in Hb as [Hb1 Hb2].
  pose proof (contrib_of_spec fx n bs i k M mul Hmul Hbs (Hl i (or_introl eq_refl))) as Hc.
  cbn [map forallb fold_left]. destruct (contrib_of fx n bs mul k i) as [f|]; [|congruence]. destruct Hc as [_ Hf].
  destruct (IH (fun j Hj => Hl j (or_intror Hj)) (acc + f r) Hb2) as [I1 I2]. cbn [is_some andb]. split; [exact I1|].
  rewrite I2, Hf by exact Hr. reflexivity. Qed.
Lemma contribs_bad fx n bs k M mul l : col_oracle n M mul -> (1 <= bs <= n)%nat -> (forall i, In i l -> (i < n)%nat) ->
  existsb (fun i => chunk_bad fx n bs i k) l = true -> forallb is_some (map (contrib_of fx n bs mul k) l) = false.
Proof. intros Hmul Hbs Hl. induction l as [|i l IH]; intros Hb; [discriminate|]. cbn [existsb] in Hb. cbn [map forallb].
  pose proof (contrib_of_spec fx n bs i k M mul Hmul Hbs (Hl i (or_introl eq_refl))) as Hc.
  destruct (contrib_of fx n bs mul k i) as [f|]; [|reflexivity]. destruct Hc as [Hc _]. rewrite Hc in Hb. cbn [orb] in Hb.
  cbn [is_some andb]. apply IH; auto. intros j Hj. apply Hl. right. exact Hj. Qed.

(* ===== exact_diag: the true diagonal, or an error exactly when some block cannot be broadcast ===== *)
Theorem exact_diag_spec fx B n k (M : fm) mul : col_oracle n M mul -> (1 <= B)%nat -> (1 <= n)%nat ->
  exact_diag fx B n mul k =
    if existsb (fun i => chunk_bad fx n (Nat.min B n) i k) (chunk_starts (S n) 0 (Nat.min B n) n) then None
    else Some (true_diag n n M k).
Proof. intros Hmul HB Hn. unfold exact_diag. set (bs := Nat.min B n). assert (Hbs : (1 <= bs <= n)%nat) by (unfold bs; lia).
  set (l := chunk_starts (S n) 0 bs n). assert (Hl : forall i, In i l -> (i < n)%nat) by (intros i; apply chunk_starts_lt).
  change (map (fun i => match get_I_chunk_like fx n i bs k with None => None | Some (C, Sh, a0) => bmul_sum (mul a0 C) Sh end) l)
    with (map (contrib_of fx n bs mul k) l).
  destruct (existsb (fun i => chunk_bad fx n bs i k) l) eqn:Eb.
  - rewrite (contribs_bad fx n bs k M mul l Hmul Hbs Hl Eb). reflexivity.
  - assert (Hsome : forallb is_some (map (contrib_of fx n bs mul k) l) = true).
    { destruct (contribs_fold fx n bs k M mul l 0%nat r0 Hmul Hbs Hl ltac:(lia) Eb) as [H _]. exact H. }
    rewrite Hsome. f_equal. unfold true_diag.
    assert (Hsum : forall r, (r < n)%nat ->
       fold_left (fun a o => match o with Some f => a + f r | None => a end) (map (contrib_of fx n bs mul k) l) r0
       = if ((0 <=? Z.of_nat r + k)%Z && (Z.of_nat r + k <? Z.of_nat n)%Z)%bool then M r (Z.to_nat (Z.of_nat r + k)) else r0).
    { intros r Hr. destruct (contribs_fold fx n bs k M mul l r r0 Hmul Hbs Hl Hr Eb) as [_ ->]. unfold l.
      rewrite fold_blocks by lia. change (Z.of_nat 0) with 0%Z. ring. }
    destruct (k <=? 0)%Z eqn:Ek.
    + apply Z.leb_le in Ek. destruct (0 <=? k)%Z eqn:Ek0.
      * apply Z.leb_le in Ek0. assert (k = 0%Z) by lia. subst k. cbn [Z.abs Z.to_nat]. rewrite Nat.sub_0_r, Nat.min_id.
        apply map_ext_in. intros t Ht. apply in_seq in Ht. cbn [plus]. rewrite Hsum by lia.
        rewrite Z.add_0_r. replace ((0 <=? Z.of_nat t)%Z && (Z.of_nat t <? Z.of_nat n)%Z) with true by (symmetry; apply andb_true_intro; split; [apply Z.leb_le|apply Z.ltb_lt]; lia).
        rewrite Nat2Z.id, Nat.add_0_r. reflexivity.
      * apply Z.leb_gt in Ek0. replace (Z.to_nat (Z.abs k)) with (Z.to_nat (- k)) by lia. set (kk := Z.to_nat (- k)).
        replace (Nat.min (n - kk) n) with (n - kk)%nat by lia.
        apply map_ext_in. intros t Ht. apply in_seq in Ht. rewrite Hsum by lia.
        replace ((0 <=? Z.of_nat (kk + t) + k)%Z && (Z.of_nat (kk + t) + k <? Z.of_nat n)%Z) with true
          by (symmetry; apply andb_true_intro; split; [apply Z.leb_le|apply Z.ltb_lt]; unfold kk; lia).
        f_equal; unfold kk; lia.
    + apply Z.leb_gt in Ek. replace (0 <=? k)%Z with true by (symmetry; apply Z.leb_le; lia).
      replace (Z.to_nat (Z.abs k)) with (Z.to_nat k) by lia. set (kk := Z.to_nat k).
      replace (Nat.min n (n - kk)) with (n - kk)%nat by lia.
      apply map_ext_in. intros t Ht. apply in_seq in Ht. rewrite Hsum by lia.
      replace ((0 <=? Z.of_nat t + k)%Z && (Z.of_nat t + k <? Z.of_nat n)%Z) with true
        by (symmetry; apply andb_true_intro; split; [apply Z.leb_le|apply Z.ltb_lt]; unfold kk in *; lia).
      f_equal. unfold kk. lia.
Qed.

(* ---------- some block is bad  <->  ragged *)
Lemma bad_iff_ragged B n k : (1 <= B)%nat -> (1 <= n)%nat ->
  existsb (fun i => chunk_bad false n (Nat.min B n) i k) (chunk_starts (S n) 0 (Nat.min B n) n) = ragged B n k.
Proof. intros HB Hn. set (bs := Nat.min B n). assert (Hbs : (1 <= bs <= n)%nat) by (unfold bs; lia).
  apply eq_true_iff_eq. rewrite existsb_exists. split.
  - intros (i & Hin & Hbad). apply chunk_starts_in in Hin as (t & Hi & Hlt); [|lia|lia]. cbn [plus] in Hi.
    unfold chunk_bad in Hbad. cbv iota in Hbad. destruct (k =? 0)%Z eqn:E0; [discriminate|]. apply Z.eqb_neq in E0.
    unfold ragged. destruct (k <? 0)%Z eqn:Ek.
    + apply Z.ltb_lt in Ek. set (k' := Z.to_nat (- k)) in *. assert (1 <= k')%nat by (unfold k'; lia).
      apply andb_prop in Hbad as [H1 H2]. apply negb_true_iff in H1, H2. apply Nat.eqb_neq in H1, H2.
      assert (Hw : (i + bs > n)%nat) by lia. assert (Hr : (2 <= n - i < bs)%nat) by lia.
      assert (HBn : (B < n)%nat).
      { destruct (le_lt_dec n B) as [Hle|Hgt]; [|exact Hgt]. exfalso. assert (Ebn : bs = n) by (unfold bs; lia). destruct t as [|t']; [lia|]. rewrite Ebn in *. nia. } assert (Ebs : bs = B) by (unfold bs; lia). rewrite Ebs in *.
      assert (Emod : (n mod B = n - i)%nat). { symmetry. apply Nat.mod_unique with (q := t); lia. }
      rewrite Emod. replace (B <? n)%nat with true by (symmetry; apply Nat.ltb_lt; lia).
      replace (Nat.eqb (n - i) 0) with false by (symmetry; apply Nat.eqb_neq; lia).
      replace (2 <=? n - i)%nat with true by (symmetry; apply Nat.leb_le; lia). reflexivity.
    + apply Z.ltb_ge in Ek. set (kk := Z.to_nat k) in *. assert (1 <= kk)%nat by (unfold kk; lia).
      apply andb_prop in Hbad as [H1 H2]. apply negb_true_iff in H1, H2. apply Nat.eqb_neq in H1, H2.
      assert (Hw : (i + bs > n)%nat) by lia.
      assert (HBn : (B < n)%nat).
      { destruct (le_lt_dec n B) as [Hle|Hgt]; [|exact Hgt]. exfalso. assert (Ebn : bs = n) by (unfold bs; lia). destruct t as [|t']; [lia|]. rewrite Ebn in *. nia. } assert (Ebs : bs = B) by (unfold bs; lia). rewrite Ebs in *.
      assert (Emod : (n mod B = n - i)%nat). { symmetry. apply Nat.mod_unique with (q := t); lia. }
      rewrite Emod. replace (B <? n)%nat with true by (symmetry; apply Nat.ltb_lt; lia).
      replace (Nat.eqb (n - i) 0) with false by (symmetry; apply Nat.eqb_neq; lia).
      replace (0 <? k)%Z with true by (symmetry; apply Z.ltb_lt; lia).
      replace (k <? Z.of_nat (B - (n - i)))%Z with true; [reflexivity|].
      symmetry. apply Z.ltb_lt. unfold kk in *. lia.
  - unfold ragged. intros H. apply andb_prop in H as [H Hc]. apply andb_prop in H as [HBn Hr]. apply Nat.ltb_lt in HBn.
    apply negb_true_iff in Hr. apply Nat.eqb_neq in Hr. assert (Ebs : bs = B) by (unfold bs; lia).
    pose proof (Nat.div_mod n B ltac:(lia)) as Hdm. pose proof (Nat.mod_upper_bound n B ltac:(lia)) as Hub.
    set (rho := (n mod B)%nat) in *. set (q := (n / B)%nat) in *.
    exists (q * B)%nat. split.
    + apply chunk_starts_in; [lia|lia|]. exists q. rewrite Ebs. lia.
    + rewrite Ebs. unfold chunk_bad. cbv iota. apply orb_prop in Hc as [Hc|Hc]; apply andb_prop in Hc as [Hk Hc2].
      * apply Z.ltb_lt in Hk. apply Nat.leb_le in Hc2. replace (k =? 0)%Z with false by (symmetry; apply Z.eqb_neq; lia).
        replace (k <? 0)%Z with true by (symmetry; apply Z.ltb_lt; lia).
        replace (Nat.min (q * B + B + Z.to_nat (- k)) n - q * B)%nat with rho by lia.
        replace (Nat.min B rho) with rho by lia.
        replace (Nat.eqb rho B) with false by (symmetry; apply Nat.eqb_neq; lia).
        replace (Nat.eqb rho 1) with false by (symmetry; apply Nat.eqb_neq; lia). reflexivity.
      * apply Z.ltb_lt in Hk, Hc2. replace (k =? 0)%Z with false by (symmetry; apply Z.eqb_neq; lia).
        replace (k <? 0)%Z with false by (symmetry; apply Z.ltb_ge; lia).
        assert (Hq : (1 <= q)%nat) by nia.
        replace (Nat.min (q * B + B) n - (q * B - Z.to_nat k))%nat with (rho + Z.to_nat k)%nat by nia.
        replace (Nat.min B (rho + Z.to_nat k)) with (rho + Z.to_nat k)%nat by lia.
        replace (Nat.eqb (rho + Z.to_nat k) B) with false by (symmetry; apply Nat.eqb_neq; lia).
        replace (Nat.eqb (rho + Z.to_nat k) 1) with false by (symmetry; apply Nat.eqb_neq; lia). reflexivity.
Qed.

Lemma never_bad_fixed n bs k l : existsb (fun i => chunk_bad true n bs i k) l = false.
Proof. induction l; [reflexivity|]. cbn [existsb chunk_bad orb]. exact IHl. Qed.
(* fx = false: the pinned code; fx = true: the repaired code, which never raises *)
Theorem exact_diag_cases fx B n k (M : fm) mul : col_oracle n M mul -> (1 <= B)%nat -> (1 <= n)%nat ->
  exact_diag fx B n mul k = if (negb fx && ragged B n k)%bool then None else Some (true_diag n n M k).
Proof. intros Hmul HB Hn. rewrite (exact_diag_spec fx B n k M mul Hmul HB Hn). destruct fx.
  - rewrite never_bad_fixed. reflexivity.
  - rewrite bad_iff_ragged by assumption. reflexivity. Qed.
Lemma true_diag_length n (M : fm) k : length (true_diag n n M k) = (n - Z.to_nat (Z.abs k))%nat.
Proof. unfold true_diag. destruct (0 <=? k)%Z eqn:E; rewrite map_length, seq_length; [apply Z.leb_le in E|apply Z.leb_gt in E]; lia. Qed.
End P.

(* ---------- the faithful instance: the operator's own products *)
Section OnOps.
Context {R : Type} {RR : Ring R} {CR : CRing R}.
Add Ring Rring2 : Rth.
Open Scope R_scope.
Notation op := (op (R:=R)).
Lemma col_oracle_matmat (e : op) n : wf e = true -> shape e = (n, n) -> col_oracle n (den e) (fun _ X => matmat e X).
Proof. intros Hwf Hs a0 X HX Hle HI.
  destruct (proj1 (mm_den e Hwf) X) as (E1 & E2 & E3); [rewrite Hs; exact HX|]. cbn [spec nr nc dat] in E1, E2, E3. rewrite Hs in *. cbn [fst snd] in *.
  split; [exact E2|]. intros r c Hr Hc. rewrite E3 by (rewrite ?E1, ?E2; auto). unfold mmul.
  rewrite (sum_ext n _ (fun l => den e r l * delta l (a0 + c)%nat)) by (intros l Hl; rewrite HI by auto; reflexivity).
  apply (sum_delta_r n (a0 + c)%nat (fun l => den e r l)). lia. Qed.

(* exact_diag_correct: for ALL sizes n, block sizes B and offsets k: when the code returns, it returns the k-th diagonal of
   the represented matrix (length n - |k|, entries den e i (i+k) resp. den e (i-k) i) *)
Theorem exact_diag_correct fx (e : op) B n k d : wf e = true -> shape e = (n, n) -> (1 <= B)%nat -> (1 <= n)%nat ->
  exact_diag fx B n (fun _ X => matmat e X) k = Some d ->
  d = true_diag n n (den e) k /\ length d = (n - Z.to_nat (Z.abs k))%nat.
Proof. intros Hwf Hs HB Hn H. rewrite (exact_diag_cases fx B n k (den e) _ (col_oracle_matmat e n Hwf Hs) HB Hn) in H.
  destruct (negb fx && ragged B n k)%bool; [discriminate|]. injection H as <-. split; [reflexivity|apply true_diag_length]. Qed.
(* ... and it raises exactly on the ragged inputs *)
Theorem exact_diag_none_iff (e : op) B n k : wf e = true -> shape e = (n, n) -> (1 <= B)%nat -> (1 <= n)%nat ->
  (exact_diag false B n (fun _ X => matmat e X) k = None <-> ragged B n k = true).
Proof. intros Hwf Hs HB Hn. rewrite (exact_diag_cases false B n k (den e) _ (col_oracle_matmat e n Hwf Hs) HB Hn).
  cbn [negb andb]. destruct (ragged B n k); split; intros H; try reflexivity; discriminate. Qed.
Theorem exact_diag_total (e : op) B n k : wf e = true -> shape e = (n, n) -> (1 <= B)%nat -> (1 <= n)%nat ->
  ragged B n k = false -> exact_diag false B n (fun _ X => matmat e X) k = Some (true_diag n n (den e) k).
Proof. intros Hwf Hs HB Hn Hr. rewrite (exact_diag_cases false B n k (den e) _ (col_oracle_matmat e n Hwf Hs) HB Hn), Hr. reflexivity. Qed.
(* the repaired code returns the true diagonal for every size, block size and offset *)
Theorem exact_diag_fixed_total (e : op) B n k : wf e = true -> shape e = (n, n) -> (1 <= B)%nat -> (1 <= n)%nat ->
  exact_diag true B n (fun _ X => matmat e X) k = Some (true_diag n n (den e) k).
Proof. intros Hwf Hs HB Hn. rewrite (exact_diag_cases true B n k (den e) _ (col_oracle_matmat e n Hwf Hs) HB Hn). reflexivity. Qed.
(* no error at all when the size is a multiple of the block size or at most one block, or on the main diagonal *)
Lemma ragged_false_cases B n k : (n <= B)%nat \/ (n mod B = 0)%nat \/ k = 0%Z -> ragged B n k = false.
Proof. unfold ragged. intros [H|[H|H]].
  - replace (B <? n)%nat with false by (symmetry; apply Nat.ltb_ge; lia). reflexivity.
  - rewrite H. cbn [Nat.eqb negb]. rewrite andb_false_r. reflexivity.
  - subst k. cbn. rewrite !andb_false_r. reflexivity. Qed.
End OnOps.
