(* Property C08: Gallina model of cola/linalg/trace/diag_trace.py on the operator AST of Op.v:
   the Auto rule (exact-vs-Hutchinson choice from tolerance and size), the generic rule (Exact -> exact_diag with the
   operator's own products), the structural rules Dense, Identity, Diagonal, Sum, BlockDiag, ScalarMul, Kronecker,
   KronSum, and trace (generic: sum of diag(A,0); Kronecker: product of the factors' traces).
   Which rule applies is decided by the operator kind (plum picks the structural rule over the precedence -1 base
   cases for every algorithm object). *)
From Coq Require Import ZArith Arith Lia List Bool.
From Core Require Import Base Kron Op C08_Diag.
Import ListNotations.

Inductive alg := AExact | AAuto (tp tq : Z) | ADefault.
(* Exact(), Auto(tol = tp/tq), Auto() = the default argument (tolerance test with 1/10^6; Hutch() with its own default 3e-2) *)
Inductive derr := DAssert | DValue | DStoch | DUnmodelled.
(* DStoch: Auto selected Hutchinson (stochastic; outside this property).  DUnmodelled: generic rule on a non-square operator *)
Definition derr_eqb (a b : derr) : bool :=
  match a, b with DAssert, DAssert | DValue, DValue | DStoch, DStoch | DUnmodelled, DUnmodelled => true | _, _ => false end.
(* exact_faster = tol < 1 / sqrt(10 * prod(shape)), in exact arithmetic for tol = tp/tq > 0:  10*m*n*tp^2 < tq^2 *)
Definition auto_exact (tp tq : Z) (m n : nat) : bool := (tp * tp * 10 * Z.of_nat m * Z.of_nat n <? tq * tq)%Z.
Definition default_auto : alg := ADefault.
(* behaviours of the pinned tree that contradict the property (false = as pinned, true = repaired) *)
Record dflags := mkdflags {
  d_ragged_fixed : bool;   (* exact_diag_ragged_chunk: the shifted chunk follows the width of a ragged last block *)
  d_kron_refuse : bool;    (* kron_diag_nonsquare_factors: diag(Kronecker) asserts square factors *)
  d_bd_refuse : bool       (* blockdiag_diag_nonsquare_blocks: diag(BlockDiag) asserts square blocks *)
}.
Definition dpinned : dflags := mkdflags false false false.
Definition drepaired : dflags := mkdflags true true true.

Section Rules.
Context {R : Type} {RR : Ring R} {CR : CRing R}.
Open Scope R_scope.
Notation fm := (fm (R:=R)). Notation arr := (arr (R:=R)). Notation op := (op (R:=R)).

Fixpoint map2 (f : R -> R -> R) (a b : list R) : list R :=
  match a, b with x :: a', y :: b' => f x y :: map2 f a' b' | _, _ => [] end.
(* numpy addition of two 1-D arrays *)
Definition vadd (a b : list R) : option (list R) :=
  if Nat.eqb (length a) (length b) then Some (map2 radd a b)
  else match a, b with
       | [x], _ => Some (map (fun y => x + y) b)
       | _, [y] => Some (map (fun x => x + y) a)
       | _, _ => None
       end.
Definition zeros_k (n : nat) (k : Z) : derr + list R :=       (* xnp.zeros((n - abs(k),)) *)
  if (Z.abs k <=? Z.of_nat n)%Z then inr (rep (n - Z.to_nat (Z.abs k)) r0) else inl DValue.
(* d1[:,None,None] * d2[None,:,None] * d3[None,None,:] ... reshape(-1), and the same with + *)
Definition outer (f : R -> R -> R) (unit : R) (ds : list (list R)) : list R :=
  fold_right (fun d acc => flat_map (fun x => map (fun y => f x y) acc) d) [unit] ds.
Definition lsum (l : list R) : R := fold_left radd l r0.

Definition sqb (e : op) : bool := Nat.eqb (fst (shape e)) (snd (shape e)).
Definition generic_diag (df : dflags) (B : nat) (al : alg) (e : op) (k : Z) : derr + list R :=
  let m := fst (shape e) in let n := snd (shape e) in
  let run := if Nat.eqb m n then
               match exact_diag (d_ragged_fixed df) B m (fun _ X => matmat e X) k with Some d => inr d | None => inl DValue end
             else inl DUnmodelled in
  match al with
  | AExact => run
  | AAuto tp tq => if auto_exact tp tq m n then run
                   else if (tp * 1000 <=? tq)%Z then inl DAssert   (* Hutch(tol=tp/tq): assert tol > 1e-3 *)
                   else inl DStoch
  | ADefault => if auto_exact 1 1000000 m n then run else inl DStoch
  end.

Fixpoint diag_rule (df : dflags) (B : nat) (al : alg) (e : op) (k : Z) {struct e} : derr + list R :=
  match e with
  | Dense a => inr (true_diag (nr a) (nc a) (dat a) k)                      (* xnp.diag(A.A, diagonal=k) *)
  | Ident n => if (k =? 0)%Z then inr (rep n r1) else zeros_k n k
  | Diag n d => if (k =? 0)%Z then inr (map d (seq 0 n)) else zeros_k n k
  | Scal c n => match (if (k =? 0)%Z then inr (rep n r1) else zeros_k n k) with
                | inl er => inl er | inr d => inr (map (fun x => c * x) d) end        (* A.c * diag(I_like(A), k, alg) *)
  | Sum ms =>                                                                 (* sum(diag(M, k, alg) for M in A.Ms) *)
      (fix go (l : list op) (acc : option (list R)) {struct l} : derr + list R :=
         match l with
         | [] => match acc with Some a => inr a | None => inr [] end
         | m :: l' => match diag_rule df B al m k with
                      | inl er => inl er
                      | inr d => match acc with
                                 | None => go l' (Some d)                    (* 0 + d *)
                                 | Some a => match vadd a d with Some s => go l' (Some s) | None => inl DValue end
                                 end
                      end
         end) ms None
  | BDiag ms =>
      if (k =? 0)%Z then
        if d_bd_refuse df && negb (forallb (fun mc => sqb (fst mc)) ms) then inl DAssert else
        (fix go (l : list (op * nat)) {struct l} : derr + list R :=
           match l with
           | [] => inr []
           | (m, mu) :: l' => match diag_rule df B al m k with
                              | inl er => inl er
                              | inr d => match go l' with inl er => inl er | inr rest => inr (concat (rep mu d) ++ rest) end
                              end
           end) ms
      else inl DAssert
  | Kron ms =>
      if (k =? 0)%Z then
        if d_kron_refuse df && negb (forallb sqb ms) then inl DAssert else
        match (fix go (l : list op) {struct l} : derr + list (list R) :=
                 match l with
                 | [] => inr []
                 | m :: l' => match diag_rule df B al m k with
                              | inl er => inl er
                              | inr d => match go l' with inl er => inl er | inr ds => inr (d :: ds) end
                              end
                 end) ms with
        | inl er => inl er
        | inr ds => inr (outer rmul r1 ds)
        end
      else inl DAssert
  | KronSum ms =>
      if (k =? 0)%Z then
        match (fix go (l : list op) {struct l} : derr + list (list R) :=
                 match l with
                 | [] => inr []
                 | m :: l' => match diag_rule df B al m k with
                              | inl er => inl er
                              | inr d => match go l' with inl er => inl er | inr ds => inr (d :: ds) end
                              end
                 end) ms with
        | inl er => inl er
        | inr ds => inr (outer radd r0 ds)
        end
      else inl DAssert
  | _ => generic_diag df B al e k
  end.

(* trace(A, alg) *)
Definition generic_trace (df : dflags) (B : nat) (al : alg) (e : op) : derr + R :=
  if Nat.eqb (fst (shape e)) (snd (shape e)) then                         (* assert A.shape[0] == A.shape[1] *)
    match diag_rule df B al e 0 with inl er => inl er | inr d => inr (lsum d) end
  else inl DAssert.
Definition trace_rule (df : dflags) (B : nat) (al : alg) (e : op) : derr + R :=
  (fix tr (e : op) {struct e} : derr + R :=
     match e with
     | Kron ms =>                                                          (* product([trace(M, alg) for M in A.Ms]) *)
         (fix go (l : list op) {struct l} : derr + R :=
            match l with
            | [] => inr r1
            | m :: l' => match tr m with
                         | inl er => inl er
                         | inr t => match go l' with inl er => inl er | inr p => inr (t * p) end
                         end
            end) ms
     | _ => generic_trace df B al e
     end) e.

Definition true_trace (n : nat) (M : fm) : R := sum n (fun i => M i i).
End Rules.
