(* C15 - theorems about the Arnoldi model of C15_Model.v.
   Part 1 (no law at all: any scalar type, floats included): shapes, step bound, Hessenberg zeros, zero padding,
   first column, the padding (buffer-size independence) lemma, the spurious zero eigenvalue of arnoldi_eigs for max_iters > n.
   Part 2 (abstract field with involution + inner-product space, weak laws): Arnoldi relation by construction,
   orthonormality from modified Gram-Schmidt, non-negative sub-diagonal. *)
From Coq Require Import List Arith Bool Lia Ring Field.
From Core Require Import C14_Model C14_Proofs C15_Model.
Import ListNotations.

Lemma nth_repeat_any {T} (x d : T) n k : k < n -> nth k (repeat x n) d = x.
Proof. revert k; induction n; intros [|k] H; simpl; auto; try lia. apply IHn; lia. Qed.
Lemma nth_repeat_same {T} (x : T) n k : nth k (repeat x n) x = x.
Proof. revert k; induction n; intros [|k]; simpl; auto. Qed.

Section Struct.
Context {C V : Type} (o : kops C V) (A : V -> V) (rfix cfix afix : bool).

Lemma mgs_len qs : forall j w h, length (snd (mgs o qs j w h)) = length h.
Proof. induction qs as [|q t IH]; intros j w h; simpl; [reflexivity|]. rewrite IH. apply upd_length. Qed.
Lemma mgs_out qs : forall j w h i, (i < j \/ j + length qs <= i) -> nth i (snd (mgs o qs j w h)) o.(c0) = nth i h o.(c0).
Proof. induction qs as [|q t IH]; intros j w h i Hi; simpl; [reflexivity|].
  rewrite IH by (simpl in Hi; lia). apply nth_upd_neq. simpl in Hi. lia. Qed.

(* shape and zero-pattern invariant of the buffers after idx steps *)
Record Shape (m idx : nat) (s : @ast C V) : Prop := mk_Shape {
  S_lenQ : length (aQ s) = m + 1;
  S_lenH : length (aH s) = m;
  S_lenc : forall j, j < m -> length (nth j (aH s) []) = m + 1;
  S_Hpad : forall j i, idx <= j -> Hent o (aH s) i j = o.(c0);                    (* columns not yet written are zero *)
  S_Qpad : forall j, idx < j -> col o (aQ s) j = o.(vzero);                        (* columns not yet written are zero *)
  S_hess : forall j i, j < idx -> j + 1 < i -> Hent o (aH s) i j = o.(c0) }.       (* upper Hessenberg *)

Lemma Hent_out (H : list (list C)) i j : length H <= j -> Hent o H i j = o.(c0).
Proof. intros Hj. unfold Hent, ent. rewrite (nth_overflow H [] Hj). destruct i; reflexivity. Qed.

Lemma init_shape m v : Shape m 0 (ainit o m v).
Proof. unfold ainit. constructor; cbn [aQ aH].
  - rewrite upd_length, repeat_length. reflexivity.
  - apply repeat_length.
  - intros j Hj. rewrite nth_repeat_any by exact Hj. apply repeat_length.
  - intros j i _. unfold Hent, ent. destruct (Nat.lt_ge_cases j m) as [Hj|Hj].
    + rewrite nth_repeat_any by exact Hj. apply nth_repeat_same.
    + rewrite (nth_overflow (repeat (repeat o.(c0) (m + 1)) m) []) by (rewrite repeat_length; exact Hj). destruct i; reflexivity.
  - intros j Hj. unfold col. rewrite nth_upd_neq by lia. apply nth_repeat_same.
  - intros; lia.
Qed.

Lemma body_shape m tol idx s : idx < m -> Shape m idx s -> Shape m (S idx) (abody o A cfix afix m tol idx s).
Proof. intros Hi [lQ lH lc Hp Qp Hh]. unfold abody.
  set (r := mgs o (firstn (idx + 1) (aQ s)) 0 (A (col o (aQ s) idx)) (repeat o.(c0) (m + 1))).
  set (nr := o.(vnrm) (fst r)). set (h2 := upd (snd r) (idx + 1) nr).
  assert (lh2 : length h2 = m + 1) by (unfold h2, r; rewrite upd_length, mgs_len, repeat_length; reflexivity).
  assert (lf : length (firstn (idx + 1) (aQ s)) = idx + 1) by (rewrite firstn_length, lQ; lia).
  constructor; cbn [aQ aH].
  - rewrite upd_length. exact lQ.
  - rewrite upd_length. exact lH.
  - intros j Hj. destruct (Nat.eq_dec j idx) as [->|Hne].
    + rewrite nth_upd_eq by lia. exact lh2.
    + rewrite nth_upd_neq by lia. apply lc. exact Hj.
  - intros j i Hj. unfold Hent. rewrite nth_upd_neq by lia. apply Hp. lia.
  - intros j Hj. unfold col. rewrite nth_upd_neq by lia. apply Qp. lia.
  - intros j i Hj Hij. unfold Hent. destruct (Nat.eq_dec j idx) as [->|Hne].
    + rewrite nth_upd_eq by lia. unfold ent, h2. rewrite nth_upd_neq by lia. unfold r.
      rewrite mgs_out by (rewrite lf; lia). apply nth_repeat_same.
    + rewrite nth_upd_neq by lia. apply Hh; lia.
Qed.

Lemma aloop_le fuel m tol cap : forall idx ss, idx <= cap -> fst (aloop o A rfix cfix afix fuel m tol cap idx ss) <= cap.
Proof. induction fuel as [|f IH]; intros idx ss Hi; simpl; [exact Hi|].
  destruct (acond o rfix tol cap idx ss) eqn:E; simpl; [|exact Hi]. apply IH.
  unfold acond in E. apply andb_prop in E as [E _]. apply Nat.ltb_lt in E. lia. Qed.
Lemma aloop_ge fuel m tol cap : forall idx ss, idx <= fst (aloop o A rfix cfix afix fuel m tol cap idx ss).
Proof. induction fuel as [|f IH]; intros idx ss; simpl; [lia|].
  destruct (acond o rfix tol cap idx ss); simpl; [|lia]. specialize (IH (S idx) (map (abody o A cfix afix m tol idx) ss)). lia. Qed.
Lemma aloop_len fuel m tol cap : forall idx ss, length (snd (aloop o A rfix cfix afix fuel m tol cap idx ss)) = length ss.
Proof. induction fuel as [|f IH]; intros idx ss; simpl; [reflexivity|].
  destruct (acond o rfix tol cap idx ss); simpl; [|reflexivity]. rewrite IH. apply map_length. Qed.

Lemma aloop_shape fuel m tol cap : cap <= m -> forall idx ss, Forall (Shape m idx) ss ->
  Forall (Shape m (fst (aloop o A rfix cfix afix fuel m tol cap idx ss))) (snd (aloop o A rfix cfix afix fuel m tol cap idx ss)).
Proof. intros Hc. induction fuel as [|f IH]; intros idx ss HS; simpl; [exact HS|].
  destruct (acond o rfix tol cap idx ss) eqn:E; simpl; [|exact HS]. apply IH.
  unfold acond in E. apply andb_prop in E as [E _]. apply Nat.ltb_lt in E.
  rewrite Forall_forall in *. intros x Hx. apply in_map_iff in Hx as (s & <- & Hs). apply body_shape; [lia|auto]. Qed.

(* the first column is never touched again *)
Lemma aloop_col0 fuel m tol cap : forall idx ss,
  map (fun s => col o (aQ s) 0) (snd (aloop o A rfix cfix afix fuel m tol cap idx ss)) = map (fun s => col o (aQ s) 0) ss.
Proof. induction fuel as [|f IH]; intros idx ss; simpl; [reflexivity|].
  destruct (acond o rfix tol cap idx ss); simpl; [|reflexivity]. rewrite IH, map_map. apply map_ext.
  intros s. unfold abody; cbn [aQ]. unfold col. apply nth_upd_neq. lia. Qed.

(* everything the property says about shapes, for any scalar type, any batch *)
Theorem arnoldi_structure n vs max_iters tol :
  let res := arnoldi_batch o A rfix cfix afix n vs max_iters tol in
  let k := fst res in
  k <= Nat.min max_iters n /\ length (snd res) = length vs /\
  map (fun s => col o (aQ s) 0) (snd res) = map (fun v => o.(vdiv) v (o.(vnrm) v)) vs /\
  forall s, In s (snd res) ->
    length (aQ s) = max_iters + 1 /\ length (aH s) = max_iters /\
    (forall j, j < max_iters -> length (nth j (aH s) []) = max_iters + 1) /\
    (forall i j, j + 1 < i -> Hent o (aH s) i j = o.(c0)) /\             (* upper Hessenberg *)
    (forall i j, k <= j -> Hent o (aH s) i j = o.(c0)) /\                (* columns beyond the steps taken: zero *)
    (forall j, k < j -> col o (aQ s) j = o.(vzero)).
Proof.
  unfold arnoldi_batch. set (cap := Nat.min max_iters n). cbv zeta.
  split; [apply aloop_le; lia|]. split; [rewrite aloop_len, map_length; reflexivity|].
  split.
  { rewrite aloop_col0, map_map. apply map_ext. intros v. unfold ainit, col; cbn [aQ].
    destruct max_iters; reflexivity. }
  intros s Hs.
  assert (HS : Forall (Shape max_iters 0) (map (ainit o max_iters) vs)).
  { rewrite Forall_forall. intros x Hx. apply in_map_iff in Hx as (v & <- & _). apply init_shape. }
  pose proof (aloop_shape cap max_iters tol cap ltac:(unfold cap; lia) 0 _ HS) as HF.
  rewrite Forall_forall in HF. destruct (HF s Hs) as [lQ lH lc Hp Qp Hh].
  repeat split; auto.
  intros i j Hij. destruct (Nat.lt_ge_cases j (fst (aloop o A rfix cfix afix cap max_iters tol cap 0 (map (ainit o max_iters) vs)))).
  - apply Hh; auto.
  - apply Hp; auto.
Qed.

(* flag arnoldi_padding at the level of the model: for max_iters > n the square matrix H[:-1] that arnoldi_eigs hands to eig
   has a zero last column, i.e. e_{max_iters-1} is an eigenvector for the eigenvalue 0 - whatever the operator is *)
Theorem arnoldi_eigs_zero_column n vs max_iters tol : n < max_iters ->
  forall s, In s (snd (arnoldi_batch o A rfix cfix afix n vs max_iters tol)) -> forall i, eigs_matrix o s i (max_iters - 1) = o.(c0).
Proof. intros Hn s Hs i. destruct (arnoldi_structure n vs max_iters tol) as (Hk & _ & _ & Hall).
  destruct (Hall s Hs) as (_ & _ & _ & _ & Hp & _). apply Hp. lia. Qed.
End Struct.

(* ---------- the padding lemma: the run with buffers sized by max_iters is the run with buffers sized by
   cap = min(max_iters, n), padded with zero rows / columns (no law needed: holds for floats as well) ---------- *)
Lemma upd_app_l {T} (l l' : list T) k x : k < length l -> upd (l ++ l') k x = upd l k x ++ l'.
Proof. revert k; induction l as [|h t IH]; intros [|k] H; simpl in *; try lia; auto. rewrite IH by lia. reflexivity. Qed.
Lemma map_repeat' {T U} (f : T -> U) x n : map f (repeat x n) = repeat (f x) n.
Proof. induction n; simpl; [reflexivity|rewrite IHn; reflexivity]. Qed.
Lemma upd_map {T U} (f : T -> U) (l : list T) k x : upd (map f l) k (f x) = map f (upd l k x).
Proof. revert k; induction l as [|h t IH]; intros [|k]; simpl; auto. rewrite IH. reflexivity. Qed.

Section Padding.
Context {C V : Type} (o : kops C V) (A : V -> V) (rfix cfix afix : bool).

Lemma mgs_app qs z : forall j w h, j + length qs <= length h ->
  mgs o qs j w (h ++ z) = (fst (mgs o qs j w h), snd (mgs o qs j w h) ++ z).
Proof. induction qs as [|q t IH]; intros j w h Hl; simpl; [reflexivity|]. simpl in Hl.
  rewrite upd_app_l by lia.
  assert (E : ent o (upd h j (o.(vdot) q w) ++ z) j = ent o (upd h j (o.(vdot) q w)) j).
  { unfold ent. apply app_nth1. rewrite upd_length. lia. }
  rewrite E. apply IH. rewrite upd_length. lia. Qed.

Variables (cap d : nat).
Definition padc (c : list C) : list C := c ++ repeat o.(c0) d.
(* s_big is s_small with d zero columns appended to Q, d zero rows and d zero columns appended to H *)
Definition Padded (ss sb : @ast C V) : Prop :=
  aQ sb = aQ ss ++ repeat o.(vzero) d /\
  aH sb = map padc (aH ss) ++ repeat (repeat o.(c0) (cap + d + 1)) d /\
  anorm sb = anorm ss.

Lemma body_padded tol idx ss sb : idx < cap -> Shape o cap idx ss -> Padded ss sb ->
  Padded (abody o A cfix afix cap tol idx ss) (abody o A cfix afix (cap + d) tol idx sb).
Proof. intros Hi [lQ lH lc _ _ _] (EQ & EH & EN). unfold abody.
  assert (Ecol : col o (aQ sb) idx = col o (aQ ss) idx) by (unfold col; rewrite EQ; apply app_nth1; lia).
  assert (Ef : firstn (idx + 1) (aQ sb) = firstn (idx + 1) (aQ ss)).
  { rewrite EQ, firstn_app. replace (idx + 1 - length (aQ ss)) with 0 by lia. simpl. apply app_nil_r. }
  rewrite Ecol, Ef.
  replace (repeat o.(c0) (cap + d + 1)) with (repeat o.(c0) (cap + 1) ++ repeat o.(c0) d)
    by (rewrite <- repeat_app; f_equal; lia).
  rewrite mgs_app by (rewrite firstn_length, repeat_length, lQ; lia).
  cbn [fst snd].
  set (r := mgs o (firstn (idx + 1) (aQ ss)) 0 (A (col o (aQ ss) idx)) (repeat o.(c0) (cap + 1))).
  assert (lr : length (snd r) = cap + 1) by (unfold r; rewrite mgs_len, repeat_length; reflexivity).
  set (nr := o.(vnrm) (fst r)).
  assert (EH' : upd (aH sb) idx (upd (snd r ++ repeat o.(c0) d) (idx + 1) nr)
                = map padc (upd (aH ss) idx (upd (snd r) (idx + 1) nr)) ++ repeat (repeat o.(c0) (cap + d + 1)) d).
  { rewrite EH. rewrite upd_app_l by (rewrite map_length; lia).
    rewrite (upd_app_l (snd r)) by lia. fold (padc (upd (snd r) (idx + 1) nr)).
    rewrite upd_map. reflexivity. }
  rewrite EH'.
  (* the threshold reads H[0,0] and H[1,0]: inside the unpadded part *)
  set (Hs := upd (aH ss) idx (upd (snd r) (idx + 1) nr)).
  assert (lHs : length Hs = cap) by (unfold Hs; rewrite upd_length; exact lH).
  assert (lc0 : length (nth 0 Hs []) = cap + 1).
  { unfold Hs. destruct (Nat.eq_dec idx 0) as [->|Hne].
    - rewrite nth_upd_eq by lia. rewrite upd_length. exact lr.
    - rewrite nth_upd_neq by lia. apply lc. lia. }
  assert (Eh : forall i, i < cap + 1 -> Hent o (map padc Hs ++ repeat (repeat o.(c0) (cap + d + 1)) d) i 0 = Hent o Hs i 0).
  { intros i Hi'. unfold Hent. rewrite app_nth1 by (rewrite map_length; lia).
    rewrite (nth_indep _ [] (padc [])) by (rewrite map_length; lia). rewrite map_nth.
    unfold padc, ent. apply app_nth1. lia. }
  assert (Eth : athr o afix tol (map padc Hs ++ repeat (repeat o.(c0) (cap + d + 1)) d) = athr o afix tol Hs).
  { unfold athr. rewrite !Eh by lia. reflexivity. }
  rewrite Eth.
  repeat split; cbn [aQ aH anorm].
  rewrite EQ. apply upd_app_l. lia.
Qed.

Lemma Hent_padded ss sb i j : Shape o cap 0 ss \/ True -> (forall j, j < cap -> length (nth j (aH ss) []) = cap + 1) -> length (aH ss) = cap ->
  Padded ss sb -> i < cap + 1 -> j < cap -> Hent o (aH sb) i j = Hent o (aH ss) i j.
Proof. intros _ lc lH (EQ & EH & EN) Hi Hj. unfold Hent. rewrite EH. rewrite app_nth1 by (rewrite map_length; lia).
  rewrite (nth_indep _ [] (padc [])) by (rewrite map_length; lia). rewrite map_nth.
  unfold padc, ent. apply app_nth1. rewrite lc by lia. lia. Qed.
Lemma large_padded tol idx ss sb : 1 <= cap -> Shape o cap idx ss -> Padded ss sb -> a_large o rfix tol idx sb = a_large o rfix tol idx ss.
Proof. intros Hc [lQ lH lc _ _ _] P. pose proof P as (EQ & EH & EN). unfold a_large, aref. rewrite EN.
  rewrite !(Hent_padded ss sb _ 0 (or_intror I) lc lH P) by lia. reflexivity. Qed.

Lemma aloop_padded fuel tol : forall idx ss sb, Forall (Shape o cap idx) ss -> Forall2 Padded ss sb ->
  fst (aloop o A rfix cfix afix fuel (cap + d) tol cap idx sb) = fst (aloop o A rfix cfix afix fuel cap tol cap idx ss) /\
  Forall2 Padded (snd (aloop o A rfix cfix afix fuel cap tol cap idx ss)) (snd (aloop o A rfix cfix afix fuel (cap + d) tol cap idx sb)).
Proof. induction fuel as [|f IH]; intros idx ss sb HS HP; simpl; [auto|].
  assert (Ec : acond o rfix tol cap idx sb = acond o rfix tol cap idx ss).
  { unfold acond. destruct (Nat.ltb_spec idx cap) as [Hlt|]; [|reflexivity]. cbn [andb].
    clear IH. induction HP as [|x y l l' Hxy Hl IHl]; [reflexivity|]. inversion HS; subst. cbn [existsb].
    rewrite IHl by assumption. rewrite (large_padded tol idx x y) by (auto; lia). reflexivity. }
  rewrite Ec. destruct (acond o rfix tol cap idx ss) eqn:E; [|auto].
  unfold acond in E. apply andb_prop in E as [E _]. apply Nat.ltb_lt in E.
  apply IH.
  - rewrite Forall_forall in *. intros x Hx. apply in_map_iff in Hx as (s & <- & Hs). apply body_shape; auto.
  - clear IH Ec. induction HP as [|x y l l' Hxy Hl IHl]; [constructor|]. inversion HS; subst. cbn [map]. constructor.
    + apply body_padded; auto.
    + apply IHl; auto.
Qed.

Lemma init_padded v : Padded (ainit o cap v) (ainit o (cap + d) v).
Proof. unfold ainit, Padded; cbn [aQ aH anorm]. repeat split.
  - replace (cap + d + 1) with ((cap + 1) + d) by lia. rewrite repeat_app. apply upd_app_l. rewrite repeat_length. lia.
  - rewrite repeat_app. f_equal. rewrite map_repeat'. f_equal.
    unfold padc. rewrite <- repeat_app. f_equal. lia.
Qed.
End Padding.

(* asking for max_iters >= n steps gives the n-step factorisation, padded with zeros *)
Theorem arnoldi_padding_lemma {C V} (o : kops C V) (A : V -> V) (rfix cfix afix : bool) n vs max_iters tol :
  let cap := Nat.min max_iters n in
  let small := arnoldi_batch o A rfix cfix afix n vs cap tol in
  let big := arnoldi_batch o A rfix cfix afix n vs max_iters tol in
  fst big = fst small /\ Forall2 (Padded o cap (max_iters - cap)) (snd small) (snd big).
Proof.
  cbv zeta. unfold arnoldi_batch. set (cap := Nat.min max_iters n).
  replace (Nat.min cap n) with cap by (unfold cap; lia).
  pose (d := max_iters - cap). assert (E : max_iters = cap + d) by (unfold d, cap; lia).
  change (max_iters - cap) with d. clearbody d. clearbody cap. subst max_iters.
  apply aloop_padded.
  - rewrite Forall_forall. intros x Hx. apply in_map_iff in Hx as (v & <- & _). apply init_shape.
  - induction vs as [|v t IH]; cbn [map]; constructor; [apply init_padded|exact IH].
Qed.

(* the repaired variant returns exactly the leading part of what the pinned code returns, without the zero padding;
   its buffers have min(max_iters,n)+1 and min(max_iters,n) columns, so H[:-1] is the square matrix of the steps that can be taken *)
Theorem arnoldi_capped_spec {C V} (o : kops C V) (A : V -> V) (rfix cfix afix : bool) n vs max_iters tol :
  let cap := Nat.min max_iters n in
  let fixed := arnoldi_batch_capped o A rfix cfix afix n vs max_iters tol in
  let pinned := arnoldi_batch o A rfix cfix afix n vs max_iters tol in
  fst pinned = fst fixed /\ Forall2 (Padded o cap (max_iters - cap)) (snd fixed) (snd pinned) /\
  forall s, In s (snd fixed) -> length (aQ s) = cap + 1 /\ length (aH s) = cap /\
                                 (forall j, j < cap -> length (nth j (aH s) []) = cap + 1).
Proof. cbv zeta. unfold arnoldi_batch_capped.
  destruct (arnoldi_padding_lemma o A rfix cfix afix n vs max_iters tol) as [E P]. split; [exact E|]. split; [exact P|].
  intros s Hs. destruct (arnoldi_structure o A rfix cfix afix n vs (Nat.min max_iters n) tol) as (_ & _ & _ & Hall).
  destruct (Hall s Hs) as (lQ & lH & lc & _). auto. Qed.

(* repaired normalisation (cfix = true; no law needed, holds on binary64): whenever a step's remainder norm does not exceed tol/2
   the next basis column is the zero vector - the "zero column afterwards" of the property *)
Section ZeroAfter.
Context {C V : Type} (o : kops C V) (A : V -> V) (rfix afix : bool).
Definition ZeroAfter (tol : C) (idx : nat) (s : @ast C V) : Prop :=
  forall j, j < idx -> o.(cgtb) (Hent o (aH s) (S j) j) (athr o afix tol (aH s)) = false -> col o (aQ s) (S j) = o.(vzero).
Lemma athr_upd tol (H : list (list C)) k h : k <> 0 -> athr o afix tol (upd H k h) = athr o afix tol H.
Proof. intros Hk. unfold athr, Hent. rewrite nth_upd_neq by lia. reflexivity. Qed.
Lemma body_zero m tol idx s : idx < m -> Shape o m idx s -> ZeroAfter tol idx s -> ZeroAfter tol (S idx) (abody o A true afix m tol idx s).
Proof. intros Hi [lQ lH lc _ _ _] Z j Hj Hc. unfold abody in *. cbv zeta in *. cbn [aQ aH] in *.
  destruct (Nat.eq_dec j idx) as [->|Hne].
  - unfold Hent at 1 in Hc. rewrite nth_upd_eq in Hc by lia. unfold ent in Hc. replace (S idx) with (idx + 1) in * by lia.
    rewrite nth_upd_eq in Hc by (rewrite mgs_len, repeat_length; lia).
    unfold col in *. rewrite nth_upd_eq by lia. rewrite Hc. reflexivity.
  - rewrite athr_upd in Hc by lia. unfold Hent at 1 in Hc. rewrite nth_upd_neq in Hc by lia.
    unfold col. rewrite nth_upd_neq by lia. apply Z; [lia|exact Hc]. Qed.
Lemma aloop_zero fuel m tol cap : cap <= m -> forall idx ss, Forall (fun s => Shape o m idx s /\ ZeroAfter tol idx s) ss ->
  Forall (fun s => ZeroAfter tol (fst (aloop o A rfix true afix fuel m tol cap idx ss)) s) (snd (aloop o A rfix true afix fuel m tol cap idx ss)).
Proof. intros Hc. induction fuel as [|f IH]; intros idx ss HS; simpl.
  - rewrite Forall_forall in *. intros x Hx. apply (HS x Hx).
  - destruct (acond o rfix tol cap idx ss) eqn:E; simpl.
    + apply IH. unfold acond in E. apply andb_prop in E as [E _]. apply Nat.ltb_lt in E.
      rewrite Forall_forall in *. intros x Hx. apply in_map_iff in Hx as (s & <- & Hs). destruct (HS s Hs) as [Sh Z].
      split; [apply body_shape; [lia|exact Sh]|apply body_zero; [lia|exact Sh|exact Z]].
    + rewrite Forall_forall in *. intros x Hx. apply (HS x Hx). Qed.
Theorem arnoldi_zero_after_breakdown n vs max_iters tol :
  forall s, In s (snd (arnoldi_batch o A rfix true afix n vs max_iters tol)) ->
  forall j, j < fst (arnoldi_batch o A rfix true afix n vs max_iters tol) ->
  o.(cgtb) (Hent o (aH s) (S j) j) (athr o afix tol (aH s)) = false -> col o (aQ s) (S j) = o.(vzero).
Proof. intros s Hs. unfold arnoldi_batch in *. set (cap := Nat.min max_iters n) in *.
  assert (H0 : Forall (fun s => Shape o max_iters 0 s /\ ZeroAfter tol 0 s) (map (ainit o max_iters) vs)).
  { rewrite Forall_forall. intros x Hx. apply in_map_iff in Hx as (v & <- & _). split; [apply init_shape|intros j Hj; lia]. }
  pose proof (aloop_zero cap max_iters tol cap ltac:(unfold cap; lia) 0 _ H0) as HF.
  rewrite Forall_forall in HF. exact (HF s Hs). Qed.
End ZeroAfter.

(* ================= Part 2: algebra ================= *)
From Core Require Import C14_Thms.   (* csum *)

Record ilaws {C V : Type} (o : kops C V) (nonneg : C -> Prop) : Prop := mk_ilaws {
  i_field : field_theory o.(c0) o.(c1) o.(cadd) o.(cmul) o.(csub) o.(copp) o.(cdiv) o.(cinv) eq;
  i_conj_add : forall a b, o.(cconj) (o.(cadd) a b) = o.(cadd) (o.(cconj) a) (o.(cconj) b);
  i_conj_mul : forall a b, o.(cconj) (o.(cmul) a b) = o.(cmul) (o.(cconj) a) (o.(cconj) b);
  i_conj_invol : forall a, o.(cconj) (o.(cconj) a) = a;
  i_conj_0 : o.(cconj) o.(c0) = o.(c0);
  i_dot_sub_r : forall u v w, o.(vdot) u (o.(vsub) v w) = o.(csub) (o.(vdot) u v) (o.(vdot) u w);
  i_dot_scale_r : forall u a v, o.(vdot) u (o.(vscale) a v) = o.(cmul) a (o.(vdot) u v);
  i_dot_div_r : forall u v a, a <> o.(c0) -> o.(vdot) u (o.(vdiv) v a) = o.(cdiv) (o.(vdot) u v) a;
  i_dot_sym : forall u v, o.(vdot) u v = o.(cconj) (o.(vdot) v u);
  i_nrm_sq : forall v, o.(cmul) (o.(vnrm) v) (o.(vnrm) v) = o.(vdot) v v;
  i_nrm_real : forall v, o.(cconj) (o.(vnrm) v) = o.(vnrm) v;
  i_nrm_zero : forall v, o.(vnrm) v = o.(c0) -> forall u, o.(vdot) u v = o.(c0);     (* definiteness *)
  i_nrm_nonneg : forall v, nonneg (o.(vnrm) v) }.

Section Alg.
Context {C V : Type} (o : kops C V) (A : V -> V) (rfix cfix afix : bool) (nonneg : C -> Prop) (L : ilaws o nonneg).
Declare Scope A_scope.
Local Notation "0" := (o.(c0)) : A_scope. Local Notation "1" := (o.(c1)) : A_scope.
Local Notation "x + y" := (o.(cadd) x y) : A_scope. Local Notation "x * y" := (o.(cmul) x y) : A_scope.
Local Notation "x - y" := (o.(csub) x y) : A_scope. Local Notation "x / y" := (o.(cdiv) x y) : A_scope.
Local Notation "- x" := (o.(copp) x) : A_scope.
Local Open Scope A_scope.
Local Notation dot := (o.(vdot)). Local Notation nrm := (o.(vnrm)). Local Notation conj := (o.(cconj)).
Add Field AF : (i_field _ _ L).

Lemma i_conj_div a b : b <> 0 -> conj (a / b) = conj a / conj b.
Proof. intros Hb.
  assert (Hcb : conj b <> 0). { intros E. apply Hb. rewrite <- (i_conj_invol _ _ L b), E. apply (i_conj_0 _ _ L). }
  assert (E : conj (a / b) * conj b = conj a). { rewrite <- (i_conj_mul _ _ L). f_equal. field. exact Hb. }
  rewrite <- E. field. exact Hcb. Qed.
Lemma i_dot_div_l u v a : a <> 0 -> conj a = a -> dot (o.(vdiv) v a) u = dot v u / a.
Proof. intros Ha Hr. rewrite (i_dot_sym _ _ L), (i_dot_div_r _ _ L) by exact Ha.
  rewrite i_conj_div by exact Ha. rewrite <- (i_dot_sym _ _ L), Hr. reflexivity. Qed.
Lemma i_flip0 u v : dot u v = 0 -> dot v u = 0.
Proof. intros H. rewrite (i_dot_sym _ _ L), H. apply (i_conj_0 _ _ L). Qed.
Lemma i_unit_div v : nrm v <> 0 -> dot (o.(vdiv) v (nrm v)) (o.(vdiv) v (nrm v)) = 1.
Proof. intros Hn. rewrite i_dot_div_l, (i_dot_div_r _ _ L), <- (i_nrm_sq _ _ L) by (auto; apply (i_nrm_real _ _ L)). field. exact Hn. Qed.

Lemma csum_shift n f : csum o (S n) f = f 0%nat + csum o n (fun i => f (S i)).
Proof. induction n; [simpl; ring|]. change (csum o (S (S n)) f) with (csum o (S n) f + f (S n)). rewrite IHn. simpl. ring. Qed.
Lemma csum_ext' n f g : (forall a, (a < n)%nat -> f a = g a) -> csum o n f = csum o n g.
Proof. induction n; simpl; intros H; [reflexivity|]. rewrite IHn, H by (intros; try apply H; lia). reflexivity. Qed.

(* the inner loop: what it does to the vector, and what it records *)
Definition mgs_w (qs : list V) (w : V) : V := fold_left (fun w q => o.(vsub) w (o.(vscale) (dot q w) q)) qs w.
Lemma mgs_fst qs : forall j w h, (j + length qs <= length h)%nat -> fst (mgs o qs j w h) = mgs_w qs w.
Proof. induction qs as [|q t IH]; intros j w h Hl; simpl; [reflexivity|]. simpl in Hl.
  assert (E : ent o (upd h j (dot q w)) j = dot q w) by (unfold ent; apply nth_upd_eq; lia).
  rewrite E. apply IH. rewrite upd_length. lia. Qed.
Lemma mgs_rel qs : forall j w h, (j + length qs <= length h)%nat -> forall u,
  dot u w = dot u (fst (mgs o qs j w h)) + csum o (length qs) (fun i => ent o (snd (mgs o qs j w h)) (j + i) * dot u (nth i qs o.(vzero))).
Proof. induction qs as [|q t IH]; intros j w h Hl u; [simpl; ring|]. simpl in Hl.
  cbn [mgs length]. rewrite csum_shift.
  assert (E : ent o (upd h j (dot q w)) j = dot q w) by (unfold ent; apply nth_upd_eq; lia).
  rewrite E.
  set (w1 := o.(vsub) w (o.(vscale) (dot q w) q)). set (h1 := upd h j (dot q w)).
  specialize (IH (S j) w1 h1 ltac:(unfold h1; rewrite upd_length; lia) u).
  assert (E0 : ent o (snd (mgs o t (S j) w1 h1)) (j + 0) = dot q w).
  { unfold ent. rewrite mgs_out by lia. rewrite Nat.add_0_r. exact E. }
  rewrite E0. cbn [nth].
  rewrite (csum_ext' (length t) _ (fun i => ent o (snd (mgs o t (S j) w1 h1)) (S j + i) * dot u (nth i t o.(vzero))))
    by (intros a Ha; cbn [nth]; replace (j + S a)%nat with (S j + a)%nat by lia; reflexivity).
  assert (E1 : dot u w1 = dot u w - dot q w * dot u q).
  { unfold w1. rewrite (i_dot_sub_r _ _ L), (i_dot_scale_r _ _ L). reflexivity. }
  replace (dot u w) with (dot u w1 + dot q w * dot u q) by (rewrite E1; ring).
  rewrite IH. ring.
Qed.

(* modified Gram-Schmidt against an orthonormal list leaves a vector orthogonal to the list *)
Definition orthoL (qs : list V) : Prop := forall i j, (i < length qs)%nat -> (j < length qs)%nat ->
  dot (nth i qs o.(vzero)) (nth j qs o.(vzero)) = if i =? j then 1 else 0.
Lemma mgs_step_dot q w u : dot u (o.(vsub) w (o.(vscale) (dot q w) q)) = dot u w - dot q w * dot u q.
Proof. rewrite (i_dot_sub_r _ _ L), (i_dot_scale_r _ _ L). reflexivity. Qed.
Lemma mgs_orth_gen : forall (qs done : list V) (w : V),
  orthoL (done ++ qs) -> (forall u, In u done -> dot u w = 0) ->
  forall u, In u (done ++ qs) -> dot u (mgs_w qs w) = 0.
Proof.
  induction qs as [|q qs IH]; intros done w Hon Hdone u Hu.
  - simpl. rewrite app_nil_r in Hu. auto.
  - simpl. replace (done ++ q :: qs) with ((done ++ [q]) ++ qs) in * by (rewrite <- app_assoc; reflexivity).
    apply (IH (done ++ [q])); auto. intros u' Hu'. apply in_app_or in Hu' as [Hd|[<-|[]]].
    + rewrite mgs_step_dot, (Hdone _ Hd).
      destruct (In_nth _ _ o.(vzero) Hd) as [i [Hi Ei]].
      assert (E : dot u' q = 0).
      { specialize (Hon i (length done)). rewrite !app_length in Hon. simpl in Hon.
        rewrite <- app_assoc in Hon. rewrite app_nth1 in Hon by lia. rewrite app_nth2, Nat.sub_diag in Hon by lia. simpl in Hon.
        rewrite Ei in Hon. rewrite Hon by lia. destruct (Nat.eqb_spec i (length done)); [lia|reflexivity]. }
      rewrite E. ring.
    + rewrite mgs_step_dot.
      assert (E : dot q q = 1).
      { specialize (Hon (length done) (length done)). rewrite !app_length in Hon. simpl in Hon.
        rewrite <- app_assoc in Hon. rewrite app_nth2, Nat.sub_diag in Hon by lia. simpl in Hon.
        rewrite Hon by lia. rewrite Nat.eqb_refl. reflexivity. }
      rewrite E. ring.
Qed.

(* ---------- the loop invariant ---------- *)
Variable tol : C.
Definition half : C := tol / two o.
(* (the threshold athr is tol/2, or tol/2 * ||H[:,0]|| for the relative variant afix)
   step j was a regular step: remainder non-zero and the clipped normalisation inactive (pinned: norm >= tol/2; repaired
   normalisation: in addition norm > tol/2, otherwise the column is set to zero) *)
Definition alive (k : nat) (s : @ast C V) : Prop :=
  forall j, (j < k)%nat -> Hent o (aH s) (S j) j <> 0 /\ o.(cgtb) (athr o afix tol (aH s)) (Hent o (aH s) (S j) j) = false /\
                           (cfix = true -> o.(cgtb) (Hent o (aH s) (S j) j) (athr o afix tol (aH s)) = true).
Definition Good (k : nat) (s : @ast C V) : Prop :=
  (forall a b, (a <= k)%nat -> (b <= k)%nat -> dot (col o (aQ s) a) (col o (aQ s) b) = if a =? b then 1 else 0) /\
  (forall j, (j < k)%nat -> forall u,
     dot u (A (col o (aQ s) j)) = csum o (S (S j)) (fun i => Hent o (aH s) i j * dot u (col o (aQ s) i))).
Record AInv (m idx : nat) (s : @ast C V) : Prop := mk_AInv {
  AI_shape : Shape o m idx s;
  AI_good : forall k, (k <= idx)%nat -> alive k s -> Good k s;
  AI_sub : forall j, (j < idx)%nat -> exists x, Hent o (aH s) (S j) j = nrm x /\
     forall u, dot u (A (col o (aQ s) j)) = csum o (S j) (fun i => Hent o (aH s) i j * dot u (col o (aQ s) i)) + dot u x }.

Lemma init_ainv m v : nrm v <> 0 -> AInv m 0 (ainit o m v).
Proof. intros Hv. constructor; [apply init_shape| |intros; lia].
  intros k Hk _. assert (k = 0%nat) by lia. subst k. split; [|intros; lia].
  intros a b Ha Hb. assert (a = 0%nat) by lia. assert (b = 0%nat) by lia. subst a b.
  unfold ainit, col; cbn [aQ]. replace (nth 0 (upd (repeat o.(vzero) (m + 1)) 0 (o.(vdiv) v (nrm v))) o.(vzero)) with (o.(vdiv) v (nrm v))
    by (symmetry; apply nth_upd_eq; rewrite repeat_length; lia).
  apply i_unit_div. exact Hv. Qed.

Lemma body_ainv m idx s : (idx < m)%nat -> AInv m idx s -> AInv m (S idx) (abody o A cfix afix m tol idx s).
Proof.
  intros Hi [Sh Gd Sb]. pose proof Sh as [lQ lH lc _ _ _].
  (* the step, named *)
  set (s' := abody o A cfix afix m tol idx s).
  set (qs := firstn (idx + 1) (aQ s)).
  set (new0 := A (col o (aQ s) idx)).
  set (r := mgs o qs 0 new0 (repeat o.(c0) (m + 1))).
  set (nr := nrm (fst r)).
  assert (lqs : length qs = (idx + 1)%nat) by (unfold qs; rewrite firstn_length, lQ; lia).
  assert (Eqs : forall i, (i <= idx)%nat -> nth i qs o.(vzero) = col o (aQ s) i) by (intros i Hi'; unfold qs, col; apply nth_firstn; lia).
  assert (lr : length (snd r) = (m + 1)%nat) by (unfold r; rewrite mgs_len, repeat_length; reflexivity).
  assert (F1 : forall a, (a <= idx)%nat -> col o (aQ s') a = col o (aQ s) a) by (intros a Ha; unfold s', abody, col; cbn [aQ]; apply nth_upd_neq; lia).
  assert (F2 : forall j i, (j < idx)%nat -> Hent o (aH s') i j = Hent o (aH s) i j).
  { intros j i Hj. unfold s', abody, Hent; cbn [aH]. rewrite nth_upd_neq by lia. reflexivity. }
  assert (F3 : forall i, Hent o (aH s') i idx = ent o (upd (snd r) (idx + 1) nr) i).
  { intros i. unfold s', abody, Hent; cbn [aH]. rewrite nth_upd_eq by lia. reflexivity. }
  assert (F3a : Hent o (aH s') (S idx) idx = nr). { rewrite F3. unfold ent. replace (S idx) with (idx + 1)%nat by lia. apply nth_upd_eq. lia. }
  assert (F3b : forall i, (i <= idx)%nat -> Hent o (aH s') i idx = ent o (snd r) i). { intros i Hi'. rewrite F3. unfold ent. apply nth_upd_neq. lia. }
  set (th := athr o afix tol (aH s')).
  assert (Eth : (1 <= idx)%nat -> athr o afix tol (aH s') = athr o afix tol (aH s)).
  { intros Hidx. unfold s', abody; cbn [aH]. unfold athr, Hent. rewrite nth_upd_neq by lia. reflexivity. }
  assert (F4 : col o (aQ s') (S idx) = if cfix && negb (o.(cgtb) nr th) then o.(vzero) else o.(vdiv) (fst r) (clip_min o nr th)).
  { unfold s', abody, col; cbn [aQ]. replace (S idx) with (idx + 1)%nat by lia. apply nth_upd_eq. lia. }
  constructor; [apply body_shape; auto| |].
  2:{ intros j Hj. destruct (Nat.eq_dec j idx) as [->|Hne].
      - exists (fst r). split; [exact F3a|]. intros u. rewrite F1 by lia. fold new0.
        rewrite (mgs_rel qs 0 new0 (repeat o.(c0) (m + 1)) ltac:(rewrite lqs, repeat_length; lia) u). fold r.
        rewrite lqs. replace (idx + 1)%nat with (S idx) by lia.
        rewrite (csum_ext' (S idx) (fun i => Hent o (aH s') i idx * dot u (col o (aQ s') i)) (fun i => ent o (snd r) (0 + i) * dot u (nth i qs o.(vzero))))
          by (intros i Hi'; rewrite F3b, F1, Eqs by lia; reflexivity).
        ring.
      - destruct (Sb j ltac:(lia)) as (x & Hx & Hrel). exists x. split; [rewrite F2 by lia; exact Hx|].
        intros u. rewrite F1 by lia. rewrite (Hrel u). f_equal. apply csum_ext'. intros i Hi'. rewrite F2, F1 by lia. reflexivity. }
  intros k Hk Hal.
  assert (Hal_old : forall k', (k' <= idx)%nat -> alive k' s' -> alive k' s).
  { intros k' Hk' Ha j Hj. rewrite <- !F2 by lia. rewrite <- Eth by lia. apply Ha. exact Hj. }
  destruct (Nat.eq_dec k (S idx)) as [->|Hne].
  2:{ (* nothing the step writes is visible at level k <= idx *)
      destruct (Gd k ltac:(lia) (Hal_old k ltac:(lia) Hal)) as [On Rel]. split.
      - intros a b Ha Hb. rewrite !F1 by lia. apply On; auto.
      - intros j Hj u. rewrite F1 by lia. rewrite (Rel j Hj u). apply csum_ext'. intros i Hi'. rewrite F2, F1 by lia. reflexivity. }
  (* level idx+1: the new column *)
  destruct (Gd idx ltac:(lia) (Hal_old idx ltac:(lia) (fun j Hj => Hal j ltac:(lia)))) as [On Rel].
  destruct (Hal idx ltac:(lia)) as (Hnz & Hclip & Hc). rewrite F3a in Hnz, Hclip, Hc. fold th in Hclip, Hc.
  assert (Eclip : clip_min o nr th = nr) by (unfold clip_min; rewrite Hclip; reflexivity).
  rewrite Eclip in F4.
  assert (F4' : col o (aQ s') (S idx) = o.(vdiv) (fst r) nr).
  { rewrite F4. destruct cfix; [rewrite (Hc eq_refl)|]; reflexivity. }
  clear F4. rename F4' into F4.
  assert (nr_real : conj nr = nr) by apply (i_nrm_real _ _ L).
  assert (Ew : fst r = mgs_w qs new0) by (unfold r; apply mgs_fst; rewrite lqs, repeat_length; lia).
  assert (OL : orthoL qs).
  { intros i j Hi' Hj'. rewrite !Eqs by lia. apply On; lia. }
  assert (Worth : forall a, (a <= idx)%nat -> dot (col o (aQ s) a) (fst r) = 0).
  { intros a Ha. rewrite Ew. apply (mgs_orth_gen qs [] new0); [exact OL|intros ? []|].
    cbn [app]. rewrite <- (Eqs a Ha). apply nth_In. lia. }
  assert (ww : dot (fst r) (fst r) = nr * nr) by (symmetry; apply (i_nrm_sq _ _ L)).
  split.
  - intros a b Ha Hb.
    destruct (Nat.eq_dec a (S idx)) as [->|Hna], (Nat.eq_dec b (S idx)) as [->|Hnb].
    + rewrite F4, Nat.eqb_refl. apply i_unit_div. exact Hnz.
    + rewrite F4, F1 by lia. rewrite i_dot_div_l by auto. rewrite (i_flip0 _ _ (Worth b ltac:(lia))).
      destruct (Nat.eqb_spec (S idx) b); [lia|]. field. exact Hnz.
    + rewrite F4, F1 by lia. rewrite (i_dot_div_r _ _ L) by auto. rewrite (Worth a ltac:(lia)).
      destruct (Nat.eqb_spec a (S idx)); [lia|]. field. exact Hnz.
    + rewrite !F1 by lia. apply On; lia.
  - intros j Hj u. destruct (Nat.eq_dec j idx) as [->|Hnj].
    + rewrite F1 by lia. fold new0.
      rewrite (mgs_rel qs 0 new0 (repeat o.(c0) (m + 1)) ltac:(rewrite lqs, repeat_length; lia) u). fold r.
      change (csum o (S (S idx)) (fun i => Hent o (aH s') i idx * dot u (col o (aQ s') i)))
        with (csum o (S idx) (fun i => Hent o (aH s') i idx * dot u (col o (aQ s') i)) + Hent o (aH s') (S idx) idx * dot u (col o (aQ s') (S idx))).
      rewrite F3a, F4, (i_dot_div_r _ _ L) by auto. rewrite lqs. replace (idx + 1)%nat with (S idx) by lia.
      rewrite (csum_ext' (S idx) (fun i => Hent o (aH s') i idx * dot u (col o (aQ s') i)) (fun i => ent o (snd r) (0 + i) * dot u (nth i qs o.(vzero))))
        by (intros i Hi'; rewrite F3b, F1, Eqs by lia; reflexivity).
      field. exact Hnz.
    + rewrite F1 by lia. rewrite (Rel j ltac:(lia) u). apply csum_ext'. intros i Hi'. rewrite F2, F1 by lia. reflexivity.
Qed.

Lemma aloop_ainv fuel m cap : (cap <= m)%nat -> forall idx ss, Forall (AInv m idx) ss ->
  Forall (AInv m (fst (aloop o A rfix cfix afix fuel m tol cap idx ss))) (snd (aloop o A rfix cfix afix fuel m tol cap idx ss)).
Proof. intros Hc. induction fuel as [|f IH]; intros idx ss HS; simpl; [exact HS|].
  destruct (acond o rfix tol cap idx ss) eqn:E; simpl; [|exact HS]. apply IH.
  unfold acond in E. apply andb_prop in E as [E _]. apply Nat.ltb_lt in E.
  rewrite Forall_forall in *. intros x Hx. apply in_map_iff in Hx as (s & <- & Hs). apply body_ainv; [lia|auto]. Qed.

(* the whole run, any batch: for every element and every k up to the number of steps taken, if the first k steps were
   regular (non-zero remainder, clip inactive) then columns 0..k are orthonormal and the Arnoldi relation holds for
   columns 0..k-1 with the recorded H (by construction); for EVERY step j taken, regular or not,
   A q_j = sum_{i<=j} H[i,j] q_i + x_j  with the sub-diagonal entry H[j+1,j] = ||x_j|| (the remainder of the inner loop) *)
Theorem arnoldi_run n vs max_iters : Forall (fun v => nrm v <> 0) vs ->
  forall s, In s (snd (arnoldi_batch o A rfix cfix afix n vs max_iters tol)) ->
  let steps := fst (arnoldi_batch o A rfix cfix afix n vs max_iters tol) in
  (forall k, (k <= steps)%nat -> alive k s -> Good k s) /\
  (forall j, (j < steps)%nat -> exists x, Hent o (aH s) (S j) j = nrm x /\
     forall u, dot u (A (col o (aQ s) j)) = csum o (S j) (fun i => Hent o (aH s) i j * dot u (col o (aQ s) i)) + dot u x).
Proof. intros Hv s Hs. unfold arnoldi_batch in *. set (cap := Nat.min max_iters n) in *.
  assert (H0 : Forall (AInv max_iters 0) (map (ainit o max_iters) vs)).
  { rewrite Forall_forall in *. intros x Hx. apply in_map_iff in Hx as (v & <- & Hvin). apply init_ainv. auto. }
  pose proof (aloop_ainv cap max_iters cap ltac:(unfold cap; lia) 0 _ H0) as HF.
  rewrite Forall_forall in HF. destruct (HF s Hs) as [_ Gd Sb]. split; auto. Qed.
End Alg.

Theorem arnoldi_subdiag_nonneg {C V} (o : kops C V) (A : V -> V) (rfix cfix afix : bool) (nonneg : C -> Prop) : ilaws o nonneg ->
  forall (tol : C) (n : nat) (vs : list V) (max_iters : nat), Forall (fun v => o.(vnrm) v <> o.(c0)) vs ->
  forall s, In s (snd (arnoldi_batch o A rfix cfix afix n vs max_iters tol)) ->
  forall j, j < fst (arnoldi_batch o A rfix cfix afix n vs max_iters tol) -> nonneg (Hent o (aH s) (S j) j).
Proof. intros L tol n vs mi Hv s Hs j Hj.
  destruct (proj2 (arnoldi_run o A rfix cfix afix nonneg L tol n vs mi Hv s Hs) j Hj) as (x & -> & _). exact (i_nrm_nonneg _ _ L x). Qed.

(* breakdown: if step j was taken and its remainder vanished (H[j+1,j] = 0) then A q_j lies in span(q_0..q_j); together with the
   relation for the regular steps before it, span(q_0..q_j) is A-invariant *)
Theorem arnoldi_breakdown_invariant {C V} (o : kops C V) (A : V -> V) (rfix cfix afix : bool) (nonneg : C -> Prop) : ilaws o nonneg ->
  forall (tol : C) (n : nat) (vs : list V) (max_iters : nat), Forall (fun v => o.(vnrm) v <> o.(c0)) vs ->
  forall s, In s (snd (arnoldi_batch o A rfix cfix afix n vs max_iters tol)) ->
  forall j, j < fst (arnoldi_batch o A rfix cfix afix n vs max_iters tol) -> Hent o (aH s) (S j) j = o.(c0) ->
  forall u, o.(vdot) u (A (col o (aQ s) j)) = csum o (S j) (fun i => o.(cmul) (Hent o (aH s) i j) (o.(vdot) u (col o (aQ s) i))).
Proof. intros L tol n vs mi Hv s Hs j Hj Hz u.
  destruct (proj2 (arnoldi_run o A rfix cfix afix nonneg L tol n vs mi Hv s Hs) j Hj) as (x & Hx & Hrel).
  rewrite (Hrel u). rewrite Hz in Hx. rewrite (i_nrm_zero _ _ L x (eq_sym Hx) u).
  pose proof (i_field _ _ L) as F. destruct F as [R _ _ _]. destruct R as [R0 Rc Ra _ _ _ _ _ _].
  rewrite Rc. apply R0. Qed.

(* ---------- Ritz pairs (what arnoldi_eigs computes when max_iters = k regular steps were taken): if (theta, y) is an eigenpair
   of the leading k x k block of H (the eig oracle) then  A (Q_k y) = theta (Q_k y) + y_{k-1} H[k,k-1] q_k ;
   an exact eigenpair of A when the last remainder vanishes.  A is assumed linear (weakly). ---------- *)
Section Ritz.
Context {C V : Type} (o : kops C V) (A : V -> V) (nonneg : C -> Prop) (L : ilaws o nonneg).
Declare Scope Z_scope'.
Local Notation "0" := (o.(c0)) : Z_scope'. Local Notation "1" := (o.(c1)) : Z_scope'.
Local Notation "x + y" := (o.(cadd) x y) : Z_scope'. Local Notation "x * y" := (o.(cmul) x y) : Z_scope'.
Local Notation "x - y" := (o.(csub) x y) : Z_scope'. Local Notation "x / y" := (o.(cdiv) x y) : Z_scope'.
Local Notation "- x" := (o.(copp) x) : Z_scope'.
Local Open Scope Z_scope'.
Local Notation dot := (o.(vdot)).
Add Field RF : (i_field _ _ L).

Lemma rs_ext n f g : (forall a, (a < n)%nat -> f a = g a) -> csum o n f = csum o n g.
Proof. induction n; simpl; intros H; [reflexivity|]. rewrite IHn, H by (intros; try apply H; lia). reflexivity. Qed.
Lemma rs_zero n : csum o n (fun _ => 0) = 0.
Proof. induction n; simpl; [reflexivity|rewrite IHn; ring]. Qed.
Lemma rs_add n f g : csum o n (fun a => f a + g a) = csum o n f + csum o n g.
Proof. induction n; simpl; [ring|rewrite IHn; ring]. Qed.
Lemma rs_mul_l n c f : csum o n (fun a => c * f a) = c * csum o n f.
Proof. induction n; simpl; [ring|rewrite IHn; ring]. Qed.
Lemma rs_swap m n (f : nat -> nat -> C) : csum o m (fun i => csum o n (fun j => f i j)) = csum o n (fun j => csum o m (fun i => f i j)).
Proof. induction m; simpl; [rewrite rs_zero; reflexivity|]. rewrite IHm, <- rs_add. reflexivity. Qed.
Lemma rs_trunc j j' f : (j <= j')%nat -> (forall t, (j <= t < j')%nat -> f t = 0) -> csum o j' f = csum o j f.
Proof. induction j'; intros Hj Hz.
  - assert (j = 0%nat) by lia. subst. reflexivity.
  - destruct (Nat.eq_dec j (S j')) as [->|Hne]; [reflexivity|]. simpl. rewrite IHj'; [|lia|intros; apply Hz; lia].
    rewrite (Hz j') by lia. ring. Qed.

Hypothesis A_zero : forall u, dot u (A o.(vzero)) = 0.
Hypothesis A_lin : forall u x a y, dot u (A (o.(vadd) x (o.(vscale) a y))) = dot u (A x) + a * dot u (A y).

Lemma dot_A_vcomb k c q u : dot u (A (vcomb o k c q)) = csum o k (fun j => c j * dot u (A (q j))).
Proof. induction k; simpl; [apply A_zero|]. rewrite A_lin, IHk. reflexivity. Qed.
Lemma dot_vcomb' (dot_add_r : forall u v w, dot u (o.(vadd) v w) = dot u v + dot u w) (dot_zero_r : forall u, dot u o.(vzero) = 0)
  k c q u : dot u (vcomb o k c q) = csum o k (fun j => c j * dot u (q j)).
Proof. induction k; simpl; [apply dot_zero_r|]. rewrite dot_add_r, (i_dot_scale_r _ _ L), IHk. reflexivity. Qed.

Theorem arnoldi_ritz (dot_add_r : forall u v w, dot u (o.(vadd) v w) = dot u v + dot u w) (dot_zero_r : forall u, dot u o.(vzero) = 0)
  (s : @ast C V) (k : nat) (theta : C) (y : nat -> C) :
  (1 <= k)%nat ->
  (forall i j, (j + 1 < i)%nat -> Hent o (aH s) i j = 0) ->                                       (* H upper Hessenberg (C15_structure) *)
  (forall j, (j < k)%nat -> forall u,                                                              (* Arnoldi relation (C15_whole_run) *)
      dot u (A (col o (aQ s) j)) = csum o (S (S j)) (fun i => Hent o (aH s) i j * dot u (col o (aQ s) i))) ->
  (forall a, (a < k)%nat -> csum o k (fun j => Hent o (aH s) a j * y j) = theta * y a) ->           (* eig oracle on H[:k, :k] *)
  forall u, dot u (A (vcomb o k y (col o (aQ s)))) =
            theta * dot u (vcomb o k y (col o (aQ s))) + y (k - 1)%nat * (Hent o (aH s) k (k - 1) * dot u (col o (aQ s) k)).
Proof.
  intros Hk Hess Rel Eig u. rewrite dot_A_vcomb, (dot_vcomb' dot_add_r dot_zero_r).
  (* every column relation, summed up to k+1 rows (the extra entries are Hessenberg zeros) *)
  rewrite (rs_ext k _ (fun j => csum o (S k) (fun i => y j * (Hent o (aH s) i j * dot u (col o (aQ s) i))))).
  2:{ intros j Hj. rewrite (Rel j Hj u), <- rs_mul_l. symmetry.
      rewrite (rs_trunc (S (S j)) (S k)); [reflexivity|lia|]. intros t Ht. rewrite Hess by lia. ring. }
  rewrite rs_swap. cbn [csum].
  rewrite (rs_ext k _ (fun i => theta * (y i * dot u (col o (aQ s) i)))).
  2:{ intros i Hi. rewrite (rs_ext k _ (fun j => dot u (col o (aQ s) i) * (Hent o (aH s) i j * y j))) by (intros; ring).
      rewrite rs_mul_l, Eig by exact Hi. ring. }
  rewrite rs_mul_l. f_equal.
  (* row k: only H[k, k-1] is non-zero *)
  destruct k as [|k']; [lia|]. cbn [csum]. replace (S k' - 1)%nat with k' by lia.
  rewrite (rs_ext k' _ (fun _ => 0)) by (intros j Hj; rewrite Hess by lia; ring).
  rewrite rs_zero. ring.
Qed.
End Ritz.

(* ---------- the full statement, and what is proved of it ----------
   Proved (PropsC15.v): shapes / step bound / first column / Hessenberg form / zero padding and buffer-size independence for any
   scalar type; in exact arithmetic, for any batch: orthonormality and the Arnoldi relation for the regular steps, non-negative
   sub-diagonal, the remainder relation for every step, A-invariance at breakdown, Ritz pairs of the leading block.
   NOT proved: the last clause below (arnoldi_eigs with at least n steps returns the spectrum of A: needs that n orthonormal
   vectors span an n-dimensional space, which the abstract inner-product signature cannot express).
   Refuted for the current code: [eigs_uses_leading_block] (flag arnoldi_padding, theorem arnoldi_eigs_zero_column) and, on binary64,
   the zero column after breakdown (arnoldi_clip_garbage), the stop at a first-step breakdown (arnoldi_reltol_first_step) and
   batches (arnoldi_batch_shared_stop). *)
Definition is_eig_A {C V} (o : kops C V) (A : V -> V) (theta : C) : Prop :=
  exists x, (exists u, o.(vdot) u x <> o.(c0)) /\ forall u, o.(vdot) u (A x) = o.(cmul) theta (o.(vdot) u x).
Definition is_eig_block {C V} (o : kops C V) (s : @ast C V) (k : nat) (theta : C) : Prop :=
  exists y, (exists a, a < k /\ y a <> o.(c0)) /\ forall a, a < k -> csum o k (fun j => o.(cmul) (Hent o (aH s) a j) (y j)) = o.(cmul) theta (y a).
Definition C15_statement (rfix cfix afix : bool) : Prop :=
  forall (C V : Type) (o : kops C V) (A : V -> V) (nonneg : C -> Prop), ilaws o nonneg ->
  forall (tol : C) (n : nat) (vs : list V) (max_iters : nat), Forall (fun v => o.(vnrm) v <> o.(c0)) vs ->
  forall s, In s (snd (arnoldi_batch o A rfix cfix afix n vs max_iters tol)) ->
  let steps := fst (arnoldi_batch o A rfix cfix afix n vs max_iters tol) in
  (* regular steps: orthonormal columns and the relation; sub-diagonal entries are norms *)
  ((forall k, k <= steps -> alive o cfix afix tol k s -> Good o A k s) /\
   (forall j, j < steps -> nonneg (Hent o (aH s) (S j) j))) /\
  (* after a breakdown at step j: zero column *)
  (forall j, j < steps -> Hent o (aH s) (S j) j = o.(c0) -> forall u, o.(vdot) u (col o (aQ s) (S j)) = o.(c0)) /\
  (* with at least n steps the eigenvalues handed back are exactly those of A: they are the eigenvalues of the leading
     steps x steps block, not of the zero-padded max_iters x max_iters matrix *)
  (n <= max_iters -> alive o cfix afix tol (steps - 1) s -> forall theta, is_eig_block o s steps theta <-> is_eig_A o A theta).
(* the pinned code; the repaired variants are C15_statement true true (see arnoldi_zero_after_breakdown for the zero-column clause) *)
Definition C15_full : Prop := C15_statement false false false.
