(* Property C02: transpose, adjoint and left-multiplication agree with the represented matrix. *)
From Coq Require Import List Arith Bool ZArith.
From Core Require Import Base Kron Op OpProofs MatVec Algebra AlgebraProofs AlgebraMore ZIInst C05_Annot C05_Sem C05_Sound C05_Link.
Import ListNotations.

(* x @ A / X @ A: the backward product (explicit _rmatmat where the code has one, otherwise the linear transpose of
   the forward product) equals operand times represented matrix, for every operator tree *)
Theorem C02_rmatmat_den : forall (R : Type) (RR : Ring R) (CR : CRing R) (e : op (R:=R)) (X : arr (R:=R)),
  wf e = true -> nc X = fst (shape e) -> aeq (rmatmat e X) (rspec e X).
Proof. intros R RR CR e X Hwf HX. exact (proj2 (mm_den e Hwf) X HX). Qed.
Print Assumptions C02_rmatmat_den.

(* x @ A with a 1-D operand *)
Theorem C02_rmatvec_den : forall (R : Type) (RR : Ring R) (CR : CRing R) (e : op (R:=R)) (x : nat -> R),
  wf e = true -> forall j, j < snd (shape e) -> rmatvec e x j = sum (fst (shape e)) (fun i => rmul (x i) (den e i j)).
Proof. intros R RR CR. exact (@rmatvec_den R RR CR). Qed.
Print Assumptions C02_rmatvec_den.

(* A.T: the rewriting rules of cola.fns.transpose; [sa] = A.isa(SelfAdjoint). The self-adjoint shortcut needs the
   declaration to make the matrix symmetric (true for real self-adjoint operators). *)
Theorem C02_transpose_sound : forall (R : Type) (RR : Ring R) (CR : CRing R) (sa : bool) (e : op (R:=R)),
  wf e = true -> (sa = true -> symmetric e) ->
  wf (transpose sa e) = true /\ shape (transpose sa e) = (snd (shape e), fst (shape e)) /\
  feq (snd (shape e)) (fst (shape e)) (den (transpose sa e)) (fun i j => den e j i).
Proof. intros R RR CR. exact (@transpose_sound R RR CR). Qed.
Print Assumptions C02_transpose_sound.

Theorem C02_adjoint_sound : forall (R : Type) (RR : Ring R) (CR : CRing R) (sa : bool) (e : op (R:=R)),
  wf e = true -> (sa = true -> hermitian e) ->
  wf (adjoint sa e) = true /\ shape (adjoint sa e) = (snd (shape e), fst (shape e)) /\
  feq (snd (shape e)) (fst (shape e)) (den (adjoint sa e)) (fun i j => conj (den e j i)).
Proof. intros R RR CR. exact (@adjoint_sound R RR CR). Qed.
Print Assumptions C02_adjoint_sound.

(* the hypotheses of the two shortcuts follow from true declarations (property C05): whenever the repaired inference
   reports A.isa(SelfAdjoint) the matrix is Hermitian, and symmetric when the payload is real *)
Theorem C02_shortcut_hypotheses : forall (R : Type) (RR : Ring R) (CR : CRing R) (nonneg : R -> Prop),
  nonneg r1 -> (forall a b, nonneg a -> nonneg b -> nonneg (rmul a b)) -> (forall a, nonneg a -> conj a = a) ->
  forall x : aop (R:=R), wf (erase x) = true -> truthful nonneg x -> isa (infer repaired x) SA = true ->
  hermitian (erase x) /\ ((forall i j, conj (den (erase x) i j) = den (erase x) i j) -> symmetric (erase x)).
Proof. intros R RR CR nonneg H1 H2 H3 x W T H. exact (Logic.conj (isa_selfadjoint_hermitian nonneg H1 H2 H3 x W T H) (isa_selfadjoint_symmetric nonneg H1 H2 H3 x W T H)). Qed.
Print Assumptions C02_shortcut_hypotheses.

(* towers of .T / .H of ANY depth (the property asks for depth 3) *)
Theorem C02_tower_sound : forall (R : Type) (RR : Ring R) (CR : CRing R) (saf : op (R:=R) -> bool) (w : list tw),
  sound_saf saf -> forall e, wf e = true ->
  let r := fold_left (step_tw saf) w e in
  let sM := fold_left step_spec w (shape e, den e) in
  wf r = true /\ shape r = fst sM /\ feq (fst (shape r)) (snd (shape r)) (den r) (snd sM).
Proof. intros R RR CR. exact (@tower_sound R RR CR). Qed.
Print Assumptions C02_tower_sound.

Theorem C02_transpose_twice : forall (R : Type) (RR : Ring R) (CR : CRing R) (saf : op (R:=R) -> bool) (e : op (R:=R)),
  sound_saf saf -> wf e = true ->
  let r := transpose (saf (transpose (saf e) e)) (transpose (saf e) e) in
  wf r = true /\ shape r = shape e /\ feq (fst (shape e)) (snd (shape e)) (den r) (den e).
Proof. intros R RR CR. exact (@transpose_twice R RR CR). Qed.
Print Assumptions C02_transpose_twice.

Theorem C02_adjoint_twice : forall (R : Type) (RR : Ring R) (CR : CRing R) (saf : op (R:=R) -> bool) (e : op (R:=R)),
  sound_saf saf -> wf e = true ->
  let r := adjoint (saf (adjoint (saf e) e)) (adjoint (saf e) e) in
  wf r = true /\ shape r = shape e /\ feq (fst (shape e)) (snd (shape e)) (den r) (den e).
Proof. intros R RR CR. exact (@adjoint_twice R RR CR). Qed.
Print Assumptions C02_adjoint_twice.

(* the pinned tree: a complex Hermitian operator truthfully declared self-adjoint -> A.T returns A (not its transpose) *)
Theorem C02_sa_transpose_refuted :
  let e := Gen Hwit in
  wf e = true /\ hermitian e /\ ~ feq 2 2 (den (transpose true e)) (fun i j => den e j i).
Proof. exact sa_transpose_refuted. Qed.
Print Assumptions C02_sa_transpose_refuted.
