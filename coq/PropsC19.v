(* Property C19: structured operators are never densified.
   (a) rule selection (finite, on the rule table regenerated from the live registry, reusing the C04 resolver);
   (b) cost model of the matrix-free products (induction over a shape AST).
   Only statements closed by [exact]; lemmas in C19_Select.v and C19_Cost.v. *)
From Coq Require Import List ZArith NArith PArith Bool String.
From Core Require Import C04_Resolver C04_RuleTable C04_Proofs C19_Select C19_Cost.
Import ListNotations.

(* (a) for every structured kind (Kronecker, KronSum, BlockDiag, Sum, Product, Diagonal, Identity, ScalarMul, Permutation,
   Tridiagonal; every declared-annotation variant), every function among inv slogdet diag trace exp log sqrt isqrt pow
   cholesky plu that has a structural rule for it, and every admissible way of passing the algorithm (positional, by
   keyword, omitted), the rule that finally runs -- following the generic rules that merely forward (exp/log ->
   apply_unary, sqrt -> pow -> apply_unary, trace -> diag) -- is structural, except the three committed flags *)
Theorem C19_structural_rule_selected :
  forall f fs, In f c19_functions -> spec_of f = Some fs ->
  forall req opt, admissible (restrict fs) req opt ->
    let (o, scope) := final 4 f req opt in
    scope = true ->
      o = Structural
      \/ (o = Generic /\ (exc_exp_kronsum f req opt || exc_pow_kron f req opt = true))
      \/ (o = NonUnique /\ exc_inv_gmres f req opt = true).
Proof. exact structural_rule_selected_modulo_flags. Qed.
Print Assumptions C19_structural_rule_selected.

(* the statement is not vacuous: for the (function, class) pairs the property text names -- inv/solve, logdet, diag,
   trace, matrix functions, cholesky, plu on Kronecker, block-diagonal, diagonal, identity, scalar operators and
   products; exp on Kronecker sums -- the regenerated table does contain a structural rule (scope = true) *)
Theorem C19_expected_structural_rules_exist :
  forall f fs, In f c19_functions -> spec_of f = Some fs ->
  forall req opt, admissible (restrict fs) req opt ->
    In (nth (oppos f) req xH) ops_structured_square ->
    In (cls (nth (oppos f) req xH)) (expected_for f) ->
    snd (final 4 f req opt) = true.
Proof. exact expected_structural_rules_exist. Qed.
Print Assumptions C19_expected_structural_rules_exist.

(* the mechanism of exp_kronsum_requires_alg / pow_kron_requires_alg on a frozen fragment of the pinned tree: the
   structural rule is registered without the default, so omitting the algorithm (or passing it by keyword) selects
   the generic one-argument signature ... *)
Theorem C19_pinned_exp_kronsum_refuted :
  resolve pin19_le pin19_bear pin19_exp (dargs None [1%positive] [Pos 2%positive]) = Unique 2 /\
  resolve pin19_le pin19_bear pin19_exp (dargs None [1%positive] [Omit]) = Unique 1 /\
  resolve pin19_le pin19_bear pin19_exp (dargs None [1%positive] [Kw 2%positive]) = Unique 1.
Proof. exact pinned_exp_kronsum_refuted. Qed.
Print Assumptions C19_pinned_exp_kronsum_refuted.

(* ... and giving the structural rule the same default repairs it *)
Theorem C19_pinned_exp_kronsum_repaired :
  resolve pin19_le pin19_bear pin19_exp_fixed (dargs None [1%positive] [Pos 2%positive]) = Unique 2 /\
  resolve pin19_le pin19_bear pin19_exp_fixed (dargs None [1%positive] [Omit]) = Unique 3 /\
  resolve pin19_le pin19_bear pin19_exp_fixed (dargs None [1%positive] [Kw 2%positive]) = Unique 3.
Proof. exact pinned_exp_kronsum_repaired. Qed.
Print Assumptions C19_pinned_exp_kronsum_repaired.

(* (b) no array allocated by the matrix-free product of a structured operator with a k-column operand has more than
   (rows + cols) * k elements *)
Theorem C19_peak_bound : forall e k, ok e = true -> forall a, In a (allocs e k) -> (a <= (rows e + cols e) * k)%N.
Proof. exact peak_bound. Qed.
Print Assumptions C19_peak_bound.

(* everything allocated during one product is at most (number of allocations, a function of the tree only) times that *)
Theorem C19_total_bound : forall e k, ok e = true ->
  (lsum (allocs e k) <= N.of_nat (List.length (allocs e k)) * ((rows e + cols e) * k))%N.
Proof. exact total_bound. Qed.
Print Assumptions C19_total_bound.

(* never the full matrix *)
Theorem C19_never_dense : forall e k, ok e = true -> rows e = cols e -> (2 * k < rows e)%N ->
  forall a, In a (allocs e k) -> (a < rows e * cols e)%N.
Proof. exact never_dense. Qed.
Print Assumptions C19_never_dense.

(* Kronecker products of rectangular dense factors: every allocation is bounded by the largest prefix size of the code's
   left-to-right contraction, (rows of the factors already applied) x (columns of the remaining ones) x k -- a function
   of the factor shapes and their order alone; for square factors it is n * k *)
Theorem C19_kron_rect_bound : forall fs k, all_dense fs = true ->
  forall a, In a (allocs (SKron fs) k) -> (a <= kmax 1 fs * k)%N.
Proof. exact kron_rect_bound. Qed.
Print Assumptions C19_kron_rect_bound.

(* factor-wise linear-algebra rules: dense work happens per dense leaf, bounded by the factors' own storage *)
Theorem C19_factorwise_bound : forall e a, In a (leafwise e) -> (a <= storage e)%N.
Proof. exact factorwise_bound. Qed.
Print Assumptions C19_factorwise_bound.

(* the hypothesis is satisfiable on the operators of the statement: Kronecker of a block diagonal (with
   multiplicities) and two dense factors, summed with a diagonal, times a scalar; n = 75 * 100 * 20 *)
Example C19_ok_example :
  ok (SProd (SCons (SScalar 150000) (SCons (SSum (SCons
        (SKron (SCons (SBlock (SCons (SDense 10 10) (SCons (SDense 5 5) SNil)) [5; 5]%N) (SCons (SDense 100 100) (SCons (SDense 20 20) SNil))))
        (SCons (SDiag 150000) SNil))) SNil))) = true.
Proof. vm_compute. reflexivity. Qed.
