(* C19 (b): cost model of the matrix-free products.
   `allocs e k` lists the element counts of the arrays that `e._matmat(X)` allocates for an operand X with k columns,
   as a function of shapes only, following cola/ops/operators.py (whole-array primitives: every arithmetic result,
   fancy-indexing result, concatenation and every reshape of a non-contiguous view is one allocation; slices,
   transposes, moveaxis and reshapes of contiguous arrays are views).
   Theorem peak_bound: for a structured operator no single allocation exceeds (rows + cols) * k -- in particular never
   rows * cols -- and the total is bounded by (number of allocations, a function of the tree only) * (rows+cols) * k. *)
From Coq Require Import List NArith Lia Bool.
Import ListNotations.
Local Open Scope N_scope.

Inductive sop :=
| SDense (m n : N)          (* dense factor: storage m*n *)
| SDiag (n : N)
| SIdent (n : N)
| SScalar (n : N)
| SPerm (n : N)
| STridiag (n : N)
| SProd (fs : sops)
| SSum (fs : sops)
| SKron (fs : sops)
| SKronSum (fs : sops)
| SBlock (fs : sops) (ms : list N)   (* blocks with multiplicities (missing multiplicity = 1) *)
with sops := SNil | SCons (e : sop) (r : sops).

Scheme sop_mut := Induction for sop Sort Prop
  with sops_mut := Induction for sops Sort Prop.
Combined Scheme sop_sops_ind from sop_mut, sops_mut.

Definition hd_mult (ms : list N) : N := match ms with [] => 1 | c :: _ => c end.

Fixpoint rows (e : sop) : N :=
  match e with
  | SDense m _ => m
  | SDiag n | SIdent n | SScalar n | SPerm n | STridiag n => n
  | SProd fs => match fs with SNil => 0 | SCons a _ => rows a end
  | SSum fs => match fs with SNil => 0 | SCons a _ => rows a end
  | SKron fs | SKronSum fs => prows fs
  | SBlock fs ms => brows fs ms
  end
with prows (fs : sops) : N := match fs with SNil => 1 | SCons a r => rows a * prows r end
with brows (fs : sops) (ms : list N) : N :=
  match fs with SNil => 0 | SCons a r => hd_mult ms * rows a + brows r (tl ms) end.

Fixpoint cols (e : sop) : N :=
  match e with
  | SDense _ n => n
  | SDiag n | SIdent n | SScalar n | SPerm n | STridiag n => n
  | SProd fs => lastcols fs
  | SSum fs => match fs with SNil => 0 | SCons a _ => cols a end
  | SKron fs | SKronSum fs => pcols fs
  | SBlock fs ms => bcols fs ms
  end
with lastcols (fs : sops) : N :=
  match fs with SNil => 0 | SCons a r => match r with SNil => cols a | _ => lastcols r end end
with pcols (fs : sops) : N := match fs with SNil => 1 | SCons a r => cols a * pcols r end
with bcols (fs : sops) (ms : list N) : N :=
  match fs with SNil => 0 | SCons a r => hd_mult ms * cols a + bcols r (tl ms) end.

(* storage of the factors (what the operator itself holds) *)
Fixpoint storage (e : sop) : N :=
  match e with
  | SDense m n => m * n
  | SDiag n | SPerm n => n
  | SIdent _ | SScalar _ => 1
  | STridiag n => 3 * n
  | SProd fs | SSum fs | SKron fs | SKronSum fs | SBlock fs _ => sstorage fs
  end
with sstorage (fs : sops) : N := match fs with SNil => 0 | SCons a r => storage a + sstorage r end.

(* allocations of e._matmat(X), X : (cols e, k) *)
Fixpoint allocs (e : sop) (k : N) {struct e} : list N :=
  match e with
  | SDense m _ => [m * k]                                     (* A @ X *)
  | SDiag n => [n * k]                                        (* diag[:, None] * X *)
  | SIdent _ => []                                            (* returns X itself *)
  | SScalar n => [n * k]                                      (* c * v *)
  | SPerm n => [n * k]                                        (* v[perm] *)
  | STridiag n =>                                             (* beta*X; zeros; gamma*X[1:]; concat; zeros; alpha*X[:-1]; concat; two additions *)
      [n * k; k; (n - 1) * k; n * k; k; (n - 1) * k; n * k; n * k; n * k]
  | SProd fs => prod_allocs fs k                              (* v = M @ v for every factor *)
  | SSum fs => sum_allocs (rows e) fs k                       (* sum(M @ v): every partial sum is a new array *)
  | SKron fs => kron_allocs 1 fs k ++ [prows fs * k]          (* per factor: reshape copy, M @ ., ...; final reshape *)
  | SKronSum fs => (pcols fs * k) :: kronsum_allocs 1 fs k    (* out = 0 * ev; per factor: reshape copy, M @ ., in-place += *)
  | SBlock fs ms => block_allocs fs ms k ++ [brows fs ms * k] (* per block: reshape copy in, M @ ., reshape copy out; concat *)
  end
with prod_allocs (fs : sops) (k : N) {struct fs} : list N :=
  match fs with SNil => [] | SCons a r => allocs a k ++ prod_allocs r k end
with sum_allocs (m : N) (fs : sops) (k : N) {struct fs} : list N :=
  match fs with SNil => [] | SCons a r => allocs a k ++ [m * k] ++ sum_allocs m r k end
with kron_allocs (pre : N) (fs : sops) (k : N) {struct fs} : list N :=
  (* `pre` = product of the row counts of the factors already applied *)
  match fs with
  | SNil => []
  | SCons a r => [pre * cols a * pcols r * k] ++ allocs a (pre * pcols r * k) ++ kron_allocs (pre * rows a) r k
  end
with kronsum_allocs (pre : N) (fs : sops) (k : N) {struct fs} : list N :=
  (* factors of a Kronecker sum are square; `pre` = product of the sizes of the factors before this one *)
  match fs with
  | SNil => []
  | SCons a r => [pre * cols a * pcols r * k] ++ allocs a (pre * pcols r * k) ++ kronsum_allocs (pre * cols a) r k
  end
with block_allocs (fs : sops) (ms : list N) (k : N) {struct fs} : list N :=
  match fs with
  | SNil => []
  | SCons a r => [hd_mult ms * cols a * k] ++ allocs a (k * hd_mult ms) ++ [hd_mult ms * rows a * k]
                 ++ block_allocs r (tl ms) k
  end.

(* number of allocations: depends on the tree only, not on any dimension *)
Definition nallocs (e : sop) : N := N.of_nat (List.length (allocs e 1)).

(* structured operators of the statement: Kronecker / Kronecker-sum factors square, products of square operators of
   one size, sums of operators of one shape, block diagonals of anything structured *)
Fixpoint ok (e : sop) : bool :=
  match e with
  | SDense _ _ | SDiag _ | SIdent _ | SScalar _ | SPerm _ => true
  | STridiag n => 1 <=? n
  | SProd fs => all_ok fs && all_sq (rows e) fs
  | SSum fs => all_ok fs && all_shape (rows e) (cols e) fs
  | SKron fs | SKronSum fs => all_ok fs && all_square fs
  | SBlock fs _ => all_ok fs
  end
with all_ok (fs : sops) : bool := match fs with SNil => true | SCons a r => ok a && all_ok r end
with all_sq (n : N) (fs : sops) : bool :=
  match fs with SNil => true | SCons a r => (rows a =? n) && (cols a =? n) && all_sq n r end
with all_shape (m n : N) (fs : sops) : bool :=
  match fs with SNil => true | SCons a r => (rows a =? m) && (cols a =? n) && all_shape m n r end
with all_square (fs : sops) : bool :=
  match fs with SNil => true | SCons a r => (rows a =? cols a) && all_square r end.

Definition bounded (b : N) (l : list N) : Prop := forall a, In a l -> a <= b.

Lemma bounded_app : forall b l1 l2, bounded b l1 -> bounded b l2 -> bounded b (l1 ++ l2).
Proof. intros b l1 l2 H1 H2 a Ha. apply in_app_iff in Ha. destruct Ha; auto. Qed.
Lemma bounded_cons : forall b x l, x <= b -> bounded b l -> bounded b (x :: l).
Proof. intros b x l Hx Hl a [<-|Ha]; auto. Qed.
Lemma bounded_nil : forall b, bounded b []. Proof. intros b a []. Qed.
Lemma bounded_le : forall b b' l, b <= b' -> bounded b l -> bounded b' l.
Proof. intros b b' l Hb H a Ha. specialize (H a Ha). lia. Qed.

Lemma all_square_prows : forall fs, all_square fs = true -> prows fs = pcols fs.
Proof.
  fix IH 1. intros [|a r].
  - reflexivity.
  - cbn [all_square prows pcols]. intros H. apply andb_true_iff in H. destruct H as (H1 & H2).
    apply N.eqb_eq in H1. rewrite H1, (IH r H2). reflexivity.
Qed.

Lemma all_sq_lastcols : forall n r a, all_sq n (SCons a r) = true -> lastcols (SCons a r) = n.
Proof.
  intros n. fix IH 1. intros [|b r'] a H.
  - cbn in *. apply andb_true_iff in H. destruct H as (H & _). apply andb_true_iff in H. destruct H as (_ & H).
    now apply N.eqb_eq in H.
  - cbn [all_sq] in H. apply andb_true_iff in H. destruct H as (_ & H).
    change (lastcols (SCons a (SCons b r'))) with (lastcols (SCons b r')). exact (IH r' b H).
Qed.

(* the per-list statements that the mutual induction carries *)
Definition Pe (e : sop) : Prop := ok e = true -> forall k, bounded ((rows e + cols e) * k) (allocs e k).
Definition Ps (fs : sops) : Prop :=
  all_ok fs = true ->
  (* product of square factors of size n *)
  (forall n k, all_sq n fs = true -> bounded ((n + n) * k) (prod_allocs fs k)) /\
  (* sum of factors of shape (m, n) *)
  (forall m n k, all_shape m n fs = true -> bounded ((m + n) * k) (sum_allocs m fs k)) /\
  (* Kronecker product / sum of square factors: after `pre` rows have been produced the live tensor has
     pre * prows fs * k elements *)
  (forall pre k, all_square fs = true ->
     bounded (2 * (pre * prows fs * k)) (kron_allocs pre fs k) /\
     bounded (2 * (pre * prows fs * k)) (kronsum_allocs pre fs k)) /\
  (* block diagonal *)
  (forall ms k, bounded ((brows fs ms + bcols fs ms) * k) (block_allocs fs ms k)).

Lemma peak_mutual : (forall e, Pe e) /\ (forall fs, Ps fs).
Proof.
  apply sop_sops_ind; unfold Pe, Ps.
  - (* Dense *) intros m n _ k. cbn. apply bounded_cons; [nia | apply bounded_nil].
  - intros n _ k. cbn. apply bounded_cons; [nia | apply bounded_nil].
  - intros n _ k. cbn. apply bounded_nil.
  - intros n _ k. cbn. apply bounded_cons; [nia | apply bounded_nil].
  - intros n _ k. cbn. apply bounded_cons; [nia | apply bounded_nil].
  - (* Tridiagonal *) intros n H k. cbn [ok] in H. apply N.leb_le in H. cbn [allocs rows cols].
    repeat (apply bounded_cons; [nia|]). apply bounded_nil.
  - (* Product *) intros fs IH H k. cbn [ok] in H. apply andb_true_iff in H. destruct H as (H1 & H2).
    destruct (IH H1) as (IHp & _). cbn [allocs].
    destruct fs as [|a r].
    + cbn. apply bounded_nil.
    + assert (E : lastcols (SCons a r) = rows (SProd (SCons a r))) by (apply all_sq_lastcols; exact H2).
      cbn [cols]. rewrite E. apply IHp. exact H2.
  - (* Sum *) intros fs IH H k. cbn [ok] in H. apply andb_true_iff in H. destruct H as (H1 & H2).
    destruct (IH H1) as (_ & IHs & _). cbn [allocs]. apply IHs. exact H2.
  - (* Kronecker *) intros fs IH H k. cbn [ok] in H. apply andb_true_iff in H. destruct H as (H1 & H2).
    destruct (IH H1) as (_ & _ & IHk & _). cbn [allocs rows cols].
    rewrite <- (all_square_prows fs H2).
    destruct (IHk 1 k H2) as (Hk & _).
    apply bounded_app.
    + eapply bounded_le; [|exact Hk]. nia.
    + apply bounded_cons; [nia | apply bounded_nil].
  - (* KronSum *) intros fs IH H k. cbn [ok] in H. apply andb_true_iff in H. destruct H as (H1 & H2).
    destruct (IH H1) as (_ & _ & IHk & _). cbn [allocs rows cols].
    rewrite <- (all_square_prows fs H2).
    destruct (IHk 1 k H2) as (_ & Hk).
    apply bounded_cons; [nia|].
    eapply bounded_le; [|exact Hk]. nia.
  - (* BlockDiag *) intros fs IH ms H k. cbn [ok] in H.
    destruct (IH H) as (_ & _ & _ & IHb). cbn [allocs rows cols].
    apply bounded_app; [apply IHb|]. apply bounded_cons; [nia | apply bounded_nil].
  - (* SNil *) intros _. repeat split; intros; cbn; apply bounded_nil.
  - (* SCons *) intros a IHa r IHr H. cbn [all_ok] in H. apply andb_true_iff in H. destruct H as (Ha & Hr).
    specialize (IHa Ha). destruct (IHr Hr) as (IHp & IHs & IHk & IHb).
    repeat split.
    + intros n k H. cbn [all_sq] in H. apply andb_true_iff in H. destruct H as (H & Hrest).
      apply andb_true_iff in H. destruct H as (E1 & E2). apply N.eqb_eq in E1, E2.
      cbn [prod_allocs]. apply bounded_app; [|now apply IHp].
      specialize (IHa k). now rewrite E1, E2 in IHa.
    + intros m n k H. cbn [all_shape] in H. apply andb_true_iff in H. destruct H as (H & Hrest).
      apply andb_true_iff in H. destruct H as (E1 & E2). apply N.eqb_eq in E1, E2.
      cbn [sum_allocs]. apply bounded_app; [|apply bounded_cons; [nia | now apply IHs]].
      specialize (IHa k). now rewrite E1, E2 in IHa.
    + cbn [all_square] in H. apply andb_true_iff in H. destruct H as (E & Hrest). apply N.eqb_eq in E.
      pose proof (all_square_prows r Hrest) as Er.
      cbn [kron_allocs prows]. rewrite <- E, <- Er. apply bounded_cons; [nia|].
      apply bounded_app.
      * specialize (IHa (pre * prows r * k)). rewrite <- E in IHa.
        eapply bounded_le; [|exact IHa]. nia.
      * destruct (IHk (pre * rows a) k Hrest) as (Hk & _). eapply bounded_le; [|exact Hk]. nia.
    + cbn [all_square] in H. apply andb_true_iff in H. destruct H as (E & Hrest). apply N.eqb_eq in E.
      pose proof (all_square_prows r Hrest) as Er.
      cbn [kronsum_allocs prows]. rewrite <- E, <- Er. apply bounded_cons; [nia|].
      apply bounded_app.
      * specialize (IHa (pre * prows r * k)). rewrite <- E in IHa.
        eapply bounded_le; [|exact IHa]. nia.
      * destruct (IHk (pre * rows a) k Hrest) as (_ & Hk). eapply bounded_le; [|exact Hk]. nia.
    + intros ms k. cbn [block_allocs brows bcols].
      apply bounded_cons; [nia|]. apply bounded_app.
      * specialize (IHa (k * hd_mult ms)). eapply bounded_le; [|exact IHa]. nia.
      * apply bounded_cons; [nia|]. eapply bounded_le; [|apply IHb]. nia.
Qed.

(* no single allocation of a matrix-free product exceeds (rows + cols) * k *)
Theorem peak_bound : forall e k, ok e = true -> forall a, In a (allocs e k) -> a <= (rows e + cols e) * k.
Proof. intros e k H. exact (proj1 peak_mutual e H k). Qed.

Fixpoint lsum (l : list N) : N := match l with [] => 0 | x :: r => x + lsum r end.
Lemma lsum_bounded : forall b l, bounded b l -> lsum l <= N.of_nat (List.length l) * b.
Proof.
  induction l as [|x l IH]; intros H.
  - cbn. lia.
  - cbn [lsum List.length]. rewrite Nat2N.inj_succ.
    assert (x <= b) by (apply H; now left).
    assert (bounded b l) by (intros a Ha; apply H; now right).
    specialize (IH H1). nia.
Qed.

(* everything allocated during one product, even if nothing were freed, is at most
   (number of allocations) * (rows + cols) * k; the number of allocations is a function of the tree alone *)
Theorem total_bound : forall e k, ok e = true ->
  lsum (allocs e k) <= N.of_nat (List.length (allocs e k)) * ((rows e + cols e) * k).
Proof. intros e k H. apply lsum_bounded. intros a Ha. now apply peak_bound. Qed.

(* hence never the dense matrix: as soon as the operand is narrower than the matrix by the factor 2 *)
Corollary never_dense : forall e k, ok e = true -> rows e = cols e -> 2 * k < rows e ->
  forall a, In a (allocs e k) -> a < rows e * cols e.
Proof.
  intros e k H E Hk a Ha. pose proof (peak_bound e k H a Ha) as B. rewrite <- E in *. nia.
Qed.

(* ---- factor-wise linear-algebra rules (inv / cholesky / plu / slogdet / exp-like on the structural path):
   the dense work is done per dense LEAF, so every array is at most the largest leaf's dense size ---- *)
Fixpoint leafwise (e : sop) : list N :=
  match e with
  | SDense m n => [m * n; m * n; m * n]      (* to_dense of the leaf, factorisation outputs *)
  | SDiag n | SPerm n | STridiag n => [n]
  | SIdent _ | SScalar _ => [1]
  | SProd fs | SSum fs | SKron fs | SKronSum fs | SBlock fs _ => leafwise_s fs
  end
with leafwise_s (fs : sops) : list N := match fs with SNil => [] | SCons a r => leafwise a ++ leafwise_s r end.

Lemma leafwise_mutual :
  (forall e, bounded (storage e) (leafwise e)) /\ (forall fs, bounded (sstorage fs) (leafwise_s fs)).
Proof.
  apply sop_sops_ind; intros; cbn [leafwise leafwise_s storage sstorage]; try assumption.
  - repeat (apply bounded_cons; [lia|]). apply bounded_nil.
  - apply bounded_cons; [lia | apply bounded_nil].
  - apply bounded_cons; [lia | apply bounded_nil].
  - apply bounded_cons; [lia | apply bounded_nil].
  - apply bounded_cons; [lia | apply bounded_nil].
  - apply bounded_cons; [lia | apply bounded_nil].
  - apply bounded_nil.
  - apply bounded_app; eapply bounded_le; try eassumption; lia.
Qed.

Theorem factorwise_bound : forall e a, In a (leafwise e) -> a <= storage e.
Proof. intros e. exact (proj1 leafwise_mutual e). Qed.

(* ---- Kronecker products of RECTANGULAR dense factors: the code contracts the factors left to right, so after i factors
   the live tensor has (rows of the first i factors) x (columns of the remaining ones) x k entries.  The largest of
   these prefix sizes is a function of the factor shapes and of their ORDER alone; every allocation of the product is
   bounded by it (for square factors it is n * k).  A tall factor placed before a wide one makes the prefix rows_1 *
   cols_2 large: that is what the code does, and what this bound predicts. ---- *)
Fixpoint kmax (pre : N) (fs : sops) : N :=
  match fs with
  | SNil => pre
  | SCons a r => N.max (pre * cols a * pcols r) (kmax (pre * rows a) r)
  end.

Fixpoint all_dense (fs : sops) : bool :=
  match fs with SNil => true | SCons (SDense _ _) r => all_dense r | SCons _ _ => false end.

Lemma kmax_first : forall fs pre, pre * pcols fs <= kmax pre fs.
Proof.
  intros [|a r] pre; cbn [kmax pcols].
  - lia.
  - rewrite N.mul_assoc. apply N.le_max_l.
Qed.

Lemma kmax_last : forall fs pre, pre * prows fs <= kmax pre fs.
Proof.
  fix IH 1. intros [|a r] pre; cbn [kmax prows].
  - lia.
  - etransitivity; [|apply N.le_max_r]. rewrite N.mul_assoc. apply IH.
Qed.

Lemma kron_rect_allocs : forall fs pre k, all_dense fs = true -> bounded (kmax pre fs * k) (kron_allocs pre fs k).
Proof.
  fix IH 1. intros [|a r] pre k H.
  - cbn. apply bounded_nil.
  - destruct a; try discriminate. cbn [all_dense] in H.
    cbn [kron_allocs kmax cols rows allocs].
    apply bounded_cons.
    + pose proof (N.le_max_l (pre * n * pcols r) (kmax (pre * m) r)). nia.
    + apply bounded_app.
      * apply bounded_cons; [|apply bounded_nil].
        pose proof (kmax_first r (pre * m)). pose proof (N.le_max_r (pre * n * pcols r) (kmax (pre * m) r)). nia.
      * eapply bounded_le; [|apply IH; exact H].
        pose proof (N.le_max_r (pre * n * pcols r) (kmax (pre * m) r)). nia.
Qed.

Theorem kron_rect_bound : forall fs k, all_dense fs = true ->
  forall a, In a (allocs (SKron fs) k) -> a <= kmax 1 fs * k.
Proof.
  intros fs k H. cbn [allocs]. apply bounded_app.
  - now apply kron_rect_allocs.
  - apply bounded_cons; [|apply bounded_nil]. pose proof (kmax_last fs 1). nia.
Qed.

(* square factors: the order-aware bound is n * k *)
Lemma kmax_square : forall fs pre, all_square fs = true -> kmax pre fs = pre * prows fs.
Proof.
  fix IH 1. intros [|a r] pre H; cbn [kmax prows].
  - lia.
  - cbn [all_square] in H. apply andb_true_iff in H. destruct H as (E & Hr). apply N.eqb_eq in E.
    rewrite (IH r (pre * rows a) Hr), <- E, <- (all_square_prows r Hr). rewrite N.mul_assoc. apply N.max_id.
Qed.
