(* C15 - refutation witnesses on binary64 (PrimFloat): the faithful model violates the property on these inputs;
   each is replayed on the implementation by the probes of harness/props/c15.py. *)
From Coq Require Import List PrimFloat Bool.
From Core Require Import C14_Model C14_Float C14_Witness C15_Model C15_Float.
Import ListNotations. Open Scope float_scope.

Definition tol12 : cf := (0x1.19799812dea11p-40, 0).   (* 1e-12 *)
Definition sq_norm (x : cvec) : float := fst (fvdot x x).

(* flag arnoldi_clip_garbage: u01 lies in a 2-dimensional invariant subspace of S5; the remainder of step 2 is at rounding
   level (H[2,1] < 1e-12) but the next basis column is remainder/(tol/2): neither zero nor a unit vector *)
Definition clip_bad_at (cfix : bool) : bool :=
  let s := arnoldi1 (fops 5) (fmv S5) false cfix false 5 u01 4 tol12 in
  (fst (Hent (fops 5) (aH s) 2 1) <? 0x1.19799812dea11p-40)
  && (0x1.0c6f7a0b5ed8dp-60 <? sq_norm (nth 2 (aQ s) []))        (* ||Q[:,2]||^2 > 1e-18 *)
  && (sq_norm (nth 2 (aQ s) []) <? 0x1.9eb851eb851ecp-1).       (* ||Q[:,2]||^2 < 0.81 *)
Definition clip_bad : bool := clip_bad_at false.
Theorem arnoldi_clip_garbage_refuted : clip_bad = true.
Proof. vm_compute. reflexivity. Qed.
(* with the repaired normalisation the column after the breakdown is exactly zero on the same input *)
Definition clip_repaired_ok : bool :=
  let s := arnoldi1 (fops 5) (fmv S5) false true false 5 u01 4 tol12 in
  (fst (Hent (fops 5) (aH s) 2 1) <? 0x1.19799812dea11p-40) && (sq_norm (nth 2 (aQ s) []) =? 0).
Theorem arnoldi_clip_garbage_repaired : clip_repaired_ok = true.
Proof. vm_compute. reflexivity. Qed.

(* flag arnoldi_reltol_first_step: ev3 is an eigenvector of S3 up to rounding; breakdown at the first step (H[1,0] < 1e-14)
   is not detected (the test compares H[1,0] with tol*H[1,0]); the iteration goes on through clipped noise: H[:,1], H[:,2]
   are non-zero and the returned columns 0 and 3 are far from orthogonal *)
Definition areltol_bad : bool :=
  let s := arnoldi1 (fops 3) (fmv S3) false false false 3 ev3 3 tol7 in
  Nat.eqb (arnoldi_steps (fops 3) (fmv S3) false false false 3 ev3 3 tol7) 3
  && (fst (Hent (fops 3) (aH s) 1 0) <? 0x1.6849b86a12b9bp-47)    (* 1e-14 *)
  && (0x1p-3 <? fst (Hent (fops 3) (aH s) 3 2)).
Theorem arnoldi_reltol_first_step_refuted : areltol_bad = true.
Proof. vm_compute. reflexivity. Qed.
(* the repaired stopping test (reference ||A q_0|| = ||H[:,0]|| instead of H[1,0]) stops after the first step on the same input *)
Theorem arnoldi_reltol_first_step_repaired : arnoldi_steps (fops 3) (fmv S3) true false false 3 ev3 3 tol7 = 1%nat.
Proof. vm_compute. reflexivity. Qed.

(* flag arnoldi_batch_shared_stop: alone, u01 stops after 2 steps; in a batch with a generic vector it is iterated 4 steps *)
Definition abatch_bad : bool :=
  let alone := arnoldi_batch (fops 5) (fmv S5) false false false 5 [u01] 4 tol7 in
  let both := arnoldi_batch (fops 5) (fmv S5) false false false 5 [g5; u01] 4 tol7 in
  Nat.eqb (fst alone) 2 && Nat.eqb (fst both) 4
  && (fst (Hent (fops 5) (aH (nth 1 (snd both) (mk_ast [] [] f0))) 2 1) <? 0x1.19799812dea11p-40)
  && (0x1p-1 <? cabs1 (Hent (fops 5) (aH (nth 1 (snd both) (mk_ast [] [] f0))) 3 3)).
Theorem arnoldi_batch_shared_stop_refuted : abatch_bad = true.
Proof. vm_compute. reflexivity. Qed.

(* flag arnoldi_absolute_clip (found by the GMRES check): the breakdown threshold tol/2 is absolute.  For an operator of overall scale
   1e-6 and tol = 1e-6 the first remainder (norm 5e-7, 14% of ||A q_0|| = 3.5e-6) is below tol/2, so the second basis column is set
   to zero although the Krylov space is not exhausted; with the threshold relative to ||A q_0|| it is a unit vector *)
Definition Asmall : list cvec := [[fr 0x1.0c6f7a0b5ed8dp-19; fr 0x1.0c6f7a0b5ed8dp-20]; [fr 0x1.0c6f7a0b5ed8dp-20; fr 0x1.92a737110e454p-19]].  (* 1e-6*[[2,1],[1,3]] *)
Definition tol6 : cf := (0x1.0c6f7a0b5ed8dp-20, 0).   (* 1e-6 *)
Definition absclip_at (afix : bool) : bool * bool :=
  let s := arnoldi1 (fops 2) (fmv Asmall) true true afix 2 [fr 1; fr 1] 2 tol6 in
  (sq_norm (nth 1 (aQ s) []) =? 0,                                              (* second column is the zero vector *)
   (0x1.47ae147ae147bp-4 <? fst (Hent (fops 2) (aH s) 1 0) / fst (fhyp (Hent (fops 2) (aH s) 0 0) (Hent (fops 2) (aH s) 1 0)))).  (* remainder > 8% of ||A q_0|| *)
Theorem arnoldi_absolute_clip_refuted : absclip_at false = (true, true).
Proof. vm_compute. reflexivity. Qed.
Theorem arnoldi_absolute_clip_repaired : absclip_at true = (false, true).
Proof. vm_compute. reflexivity. Qed.

(* flag arnoldi_start_dtype_cast: same buffer-dtype cast as lanczos_start_dtype_cast (C14_Witness.v) *)
Definition astart_cast_bad (cast : bool) : bool :=
  let v := if cast then cast_real vcplx else vcplx in
  let s := arnoldi1 (fops 3) (fmv S3) true true true 3 v 2 tol7 in
  0x1p-2 <? first_col_err (nth 0 (aQ s) []) vcplx.
Theorem arnoldi_start_dtype_cast_refuted : astart_cast_bad true = true /\ astart_cast_bad false = false.
Proof. split; vm_compute; reflexivity. Qed.
