(* C18 - a heap of array cells with views: aliasing signatures and write sets of cola's public operations, and the
   invariant "no operation writes a cell the caller owns".

   A cell is a buffer (a numpy base array); a handle is what Python code holds: an array (one cell - a view shares the
   cell of its base) or an operator (the cells of all its array parameters, plus one cell for its attribute dict).
   An operation allocates fresh library-owned cells, writes a set of cells (update_array, `+=`, `-=`, `/=`, attribute
   assignment on an existing object) and returns a handle made of fresh cells and/or cells of its arguments.
   The per-operation signatures (table [sig_of]) are read off the code and are the model's content; the correspondence
   check validates them with np.shares_memory and byte digests. *)
From Coq Require Import List Bool Arith Lia.
Import ListNotations.

Section Store.
Variable D : Type.                       (* contents of a buffer *)
Record cell := mkcell { caller_owned : bool; data : D }.
Definition store := list cell.
Definition handle := list nat.           (* cell ids = positions in the store *)

Inductive src := Fresh (i : nat)         (* the i-th cell this operation allocates *)
               | Arg (i : nat).          (* every cell of the i-th argument *)
Record opsig := { n_alloc : nat; wr : list src; rs : list src }.

(* one executed operation: its signature, the handles it was given, the contents it puts into the cells it allocates
   and into the cells it writes (arbitrary: the theorem holds whatever is written) *)
Record step := { sg : opsig; hargs : list handle; adata : nat -> D; wdata : nat -> D }.

Definition resolve (base : nat) (args : list handle) (s : src) : list nat :=
  match s with Fresh i => [base + i] | Arg i => nth i args [] end.
Definition targets (st : store) (s : step) : list nat := flat_map (resolve (length st) (hargs s)) (wr (sg s)).
Definition result (st : store) (s : step) : handle := flat_map (resolve (length st) (hargs s)) (rs (sg s)).
Definition alloc (st : store) (s : step) : store := st ++ map (fun i => mkcell false (adata s i)) (seq 0 (n_alloc (sg s))).
Fixpoint write_at (st : store) (id : nat) (d : D) : store :=
  match st, id with
  | [], _ => []
  | c :: t, O => mkcell (caller_owned c) d :: t
  | c :: t, S j => c :: write_at t j d
  end.
Definition exec (st : store) (s : step) : store :=
  fold_left (fun st id => write_at st id (wdata s id)) (targets st s) (alloc st s).

Definition lib_owned (st : store) (id : nat) : bool := match nth_error st id with Some c => negb (caller_owned c) | None => true end.
(* every write target is fresh or library-owned *)
Definition safe (st : store) (s : step) : bool := forallb (lib_owned (alloc st s)) (targets st s).
Fixpoint run (ss : list step) (st : store) : store := match ss with [] => st | s :: r => run r (exec st s) end.
Fixpoint all_safe (ss : list step) (st : store) : bool :=
  match ss with [] => true | s :: r => safe st s && all_safe r (exec st s) end.

Lemma write_at_length st : forall id d, length (write_at st id d) = length st.
Proof. induction st; intros [|j] d; cbn; auto. Qed.
Lemma write_at_other st : forall id d j, j <> id -> nth_error (write_at st id d) j = nth_error st j.
Proof. induction st as [|c t IH]; intros [|i] d [|j] H; cbn; auto; try congruence. Qed.
Lemma write_at_owner st : forall id d j, option_map caller_owned (nth_error (write_at st id d) j) = option_map caller_owned (nth_error st j).
Proof. induction st as [|c t IH]; intros [|i] d [|j]; cbn; auto. Qed.

Lemma writes_keep (w : nat -> D) : forall (ts : list nat) (st : store) (j : nat),
  forallb (lib_owned st) ts = true ->
  match nth_error st j with Some c => caller_owned c = true | None => False end ->
  nth_error (fold_left (fun st id => write_at st id (w id)) ts st) j = nth_error st j.
Proof. induction ts as [|t ts IH]; intros st j Hs Hj; cbn [fold_left]; [reflexivity|].
  cbn [forallb] in Hs. apply andb_true_iff in Hs. destruct Hs as [Ht Hs].
  assert (Hne : j <> t).
  { intros ->. unfold lib_owned in Ht. destruct (nth_error st t) as [c|]; [|destruct Hj]. rewrite Hj in Ht. discriminate. }
  rewrite IH.
  - apply write_at_other. exact Hne.
  - apply forallb_forall. intros x Hx. rewrite forallb_forall in Hs. specialize (Hs x Hx). unfold lib_owned in *.
    pose proof (write_at_owner st t (w t) x) as Ho.
    destruct (nth_error (write_at st t (w t)) x), (nth_error st x); cbn in Ho; try congruence; auto.
  - rewrite write_at_other by exact Hne. exact Hj. Qed.

Lemma exec_keeps st s j c : safe st s = true -> nth_error st j = Some c -> caller_owned c = true ->
  nth_error (exec st s) j = Some c.
Proof. intros Hs Hj Hc. unfold exec. rewrite writes_keep.
  - unfold alloc. rewrite nth_error_app1; [exact Hj|]. apply nth_error_Some. congruence.
  - exact Hs.
  - unfold alloc. rewrite nth_error_app1 by (apply nth_error_Some; congruence). rewrite Hj. exact Hc. Qed.

(* for ALL operation sequences: if every write target is fresh or library-owned, every caller-owned cell keeps its
   contents (and stays caller-owned) *)
Theorem no_caller_write : forall (ss : list step) (st : store) (j : nat) (c : cell),
  all_safe ss st = true -> nth_error st j = Some c -> caller_owned c = true -> nth_error (run ss st) j = Some c.
Proof. induction ss as [|s r IH]; intros st j c Hs Hj Hc; cbn [run]; [exact Hj|].
  cbn [all_safe] in Hs. apply andb_true_iff in Hs. destruct Hs as [H1 H2].
  apply IH; [exact H2| |exact Hc]. apply exec_keeps; assumption. Qed.

(* ---------------- a static sufficient condition: taint analysis over a program ---------------- *)
(* arguments of a program step: a caller-owned object, or the result of an earlier step *)
Inductive ref := RCaller (h : handle) | RPrev (j : nat).
Record pstep := { psg : opsig; pargs : list ref; padata : nat -> D; pwdata : nat -> D }.
(* may the handle contain a caller-owned cell? *)
Definition taint_ref (env : list bool) (r : ref) : bool := match r with RCaller _ => true | RPrev j => nth j env true end.
Definition taint_src (env : list bool) (args : list ref) (s : src) : bool :=
  match s with Fresh _ => false | Arg i => match nth_error args i with Some r => taint_ref env r | None => false end end.
Definition fresh_wf (n : nat) (s : src) : bool := match s with Fresh i => Nat.ltb i n | Arg _ => true end.
Definition step_ok (env : list bool) (p : pstep) : bool :=
  negb (existsb (taint_src env (pargs p)) (wr (psg p))) && forallb (fresh_wf (n_alloc (psg p))) (rs (psg p)).
Definition step_taint (env : list bool) (p : pstep) : bool := existsb (taint_src env (pargs p)) (rs (psg p)).
Fixpoint ok_static (ps : list pstep) (env : list bool) : bool :=
  match ps with [] => true | p :: r => step_ok env p && ok_static r (env ++ [step_taint env p]) end.

Definition deref (henv : list handle) (r : ref) : handle := match r with RCaller h => h | RPrev j => nth j henv [] end.
Definition to_step (henv : list handle) (p : pstep) : step :=
  {| sg := psg p; hargs := map (deref henv) (pargs p); adata := padata p; wdata := pwdata p |}.
Fixpoint prun (ps : list pstep) (henv : list handle) (st : store) : store :=
  match ps with [] => st | p :: r => let s := to_step henv p in prun r (henv ++ [result st s]) (exec st s) end.

(* invariant linking the static taint bits to the store: an untainted handle holds library-owned cells only *)
Definition good (st : store) (id : nat) : bool := lib_owned st id && Nat.ltb id (length st).
Definition env_inv (env : list bool) (henv : list handle) (st : store) : Prop :=
  length env = length henv /\
  forall j, nth j env true = false -> forallb (good st) (nth j henv []) = true.

Lemma fold_owner (w : nat -> D) : forall ts st0 id,
  option_map caller_owned (nth_error (fold_left (fun st id => write_at st id (w id)) ts st0) id)
  = option_map caller_owned (nth_error st0 id).
Proof. induction ts as [|t ts IH]; intros st0 id; cbn [fold_left]; [reflexivity|]. rewrite IH. apply write_at_owner. Qed.

Lemma lib_owned_exec st s id : lib_owned st id = true -> id < length st -> lib_owned (exec st s) id = true.
Proof. intros H Hlt. unfold exec, lib_owned in *.
  pose proof (fold_owner (wdata s) (targets st s) (alloc st s) id) as G.
  unfold alloc in G at 2. rewrite nth_error_app1 in G by exact Hlt.
  destruct (nth_error st id) as [c|] eqn:E.
  - cbn [option_map] in G.
    destruct (nth_error (fold_left (fun st0 id0 => write_at st0 id0 (wdata s id0)) (targets st s) (alloc st s)) id) as [c'|];
      cbn [option_map] in G; [|reflexivity]. injection G as G. rewrite G. exact H.
  - apply nth_error_None in E. lia. Qed.

Lemma fresh_lib st s i : i < n_alloc (sg s) -> lib_owned (exec st s) (length st + i) = true.
Proof. intros Hi. unfold exec, lib_owned.
  pose proof (fold_owner (wdata s) (targets st s) (alloc st s) (length st + i)) as G.
  unfold alloc in G at 2.
  rewrite nth_error_app2 in G by lia. replace (length st + i - length st) with i in G by lia.
  rewrite nth_error_map in G. rewrite (nth_error_nth' (seq 0 (n_alloc (sg s))) 0) in G by (rewrite seq_length; exact Hi).
  cbn [option_map caller_owned] in G.
  destruct (nth_error (fold_left (fun st0 id0 => write_at st0 id0 (wdata s id0)) (targets st s) (alloc st s)) (length st + i)) as [c'|];
    cbn [option_map] in G; [|reflexivity]. injection G as G. rewrite G. reflexivity. Qed.

Lemma exec_length st s : length (exec st s) = length st + n_alloc (sg s).
Proof. unfold exec.
  assert (G : forall ts st0, length (fold_left (fun st id => write_at st id (wdata s id)) ts st0) = length st0).
  { induction ts as [|t ts IH]; intros st0; cbn [fold_left]; [reflexivity|]. rewrite IH. apply write_at_length. }
  rewrite G. unfold alloc. rewrite app_length, map_length, seq_length. reflexivity. Qed.

Fixpoint psafe (ps : list pstep) (henv : list handle) (st : store) : bool :=
  match ps with [] => true | p :: r => let s := to_step henv p in safe st s && psafe r (henv ++ [result st s]) (exec st s) end.

Lemma good_alloc st s id : good st id = true -> lib_owned (alloc st s) id = true.
Proof. unfold good, lib_owned, alloc. intros H. apply andb_true_iff in H. destruct H as [H1 H2]. apply Nat.ltb_lt in H2.
  rewrite nth_error_app1 by exact H2. exact H1. Qed.
Lemma good_exec st s id : good st id = true -> good (exec st s) id = true.
Proof. unfold good. intros H. apply andb_true_iff in H. destruct H as [H1 H2]. apply Nat.ltb_lt in H2.
  rewrite lib_owned_exec by assumption. rewrite exec_length. cbn. apply Nat.ltb_lt. lia. Qed.

Lemma arg_good env henv st args i : env_inv env henv st ->
  match nth_error args i with Some r => taint_ref env r | None => false end = false ->
  forallb (good st) (nth i (map (deref henv) args) []) = true.
Proof. intros [Hl Hinv] Ht. destruct (nth_error args i) as [r|] eqn:E.
  - rewrite (nth_indep _ [] (deref henv r)) by (rewrite map_length; apply nth_error_Some; congruence).
    rewrite map_nth. rewrite (nth_error_nth _ _ _ E).
    destruct r as [h|j]; cbn in Ht; [discriminate|]. cbn [deref]. apply Hinv. exact Ht.
  - rewrite nth_overflow; [reflexivity|]. rewrite map_length. apply nth_error_None. exact E. Qed.

Lemma step_safe env henv st p : env_inv env henv st -> step_ok env p = true -> safe st (to_step henv p) = true.
Proof. intros Hinv Hok. unfold step_ok in Hok. apply andb_true_iff in Hok. destruct Hok as [Hok _].
  apply negb_true_iff in Hok. unfold safe, targets. cbn [to_step sg hargs].
  apply forallb_forall. intros id Hid. apply in_flat_map in Hid. destruct Hid as (sr & Hsr & Hid).
  destruct sr as [i|i]; cbn [resolve] in Hid.
  - destruct Hid as [<-|[]]. unfold lib_owned, alloc. cbn [to_step sg adata].
    destruct (nth_error _ (length st + i)) as [c|] eqn:E; [|reflexivity].
    rewrite nth_error_app2 in E by lia. replace (length st + i - length st) with i in E by lia.
    rewrite nth_error_map in E. destruct (nth_error (seq 0 (n_alloc (psg p))) i); cbn in E; [|discriminate].
    injection E as <-. reflexivity.
  - assert (Ht : taint_src env (pargs p) (Arg i) = false).
    { destruct (taint_src env (pargs p) (Arg i)) eqn:E; [|reflexivity].
      assert (existsb (taint_src env (pargs p)) (wr (psg p)) = true) by (apply existsb_exists; exists (Arg i); auto). congruence. }
    cbn [taint_src] in Ht. pose proof (arg_good env henv st (pargs p) i Hinv Ht) as Hg.
    rewrite forallb_forall in Hg. apply (good_alloc st (to_step henv p)). apply Hg. exact Hid. Qed.

Lemma step_inv env henv st p : env_inv env henv st -> step_ok env p = true ->
  env_inv (env ++ [step_taint env p]) (henv ++ [result st (to_step henv p)]) (exec st (to_step henv p)).
Proof. intros Hinv Hok. pose proof Hinv as [Hl Hi]. split; [rewrite !app_length; cbn; lia|].
  intros j Hj. destruct (Nat.lt_ge_cases j (length env)) as [Hlt|Hge].
  - rewrite app_nth1 in Hj by exact Hlt. rewrite app_nth1 by lia. specialize (Hi j Hj).
    apply forallb_forall. intros id Hid. rewrite forallb_forall in Hi. apply good_exec, Hi, Hid.
  - destruct (Nat.eq_dec j (length env)) as [->|Hne].
    + rewrite app_nth2 in Hj by lia. rewrite Nat.sub_diag in Hj. cbn [nth] in Hj.
      rewrite Hl, app_nth2 by lia. rewrite Nat.sub_diag. cbn [nth].
      unfold step_taint in Hj. unfold step_ok in Hok. apply andb_true_iff in Hok. destruct Hok as [_ Hwf].
      unfold result. cbn [to_step sg hargs]. apply forallb_forall. intros id Hid.
      apply in_flat_map in Hid. destruct Hid as (sr & Hsr & Hid).
      assert (Ht : taint_src env (pargs p) sr = false).
      { destruct (taint_src env (pargs p) sr) eqn:E; [|reflexivity].
        assert (existsb (taint_src env (pargs p)) (rs (psg p)) = true) by (apply existsb_exists; exists sr; auto). congruence. }
      destruct sr as [i|i]; cbn [resolve] in Hid.
      * destruct Hid as [<-|[]]. rewrite forallb_forall in Hwf. specialize (Hwf _ Hsr). cbn in Hwf. apply Nat.ltb_lt in Hwf.
        unfold good. rewrite (fresh_lib st (to_step henv p) i) by exact Hwf. rewrite exec_length. cbn. apply Nat.ltb_lt. cbn [to_step sg]. lia.
      * cbn [taint_src] in Ht. pose proof (arg_good env henv st (pargs p) i Hinv Ht) as Hg. rewrite forallb_forall in Hg.
        apply good_exec, Hg, Hid.
    + rewrite nth_overflow in Hj by (rewrite app_length; cbn; lia). discriminate. Qed.

Theorem static_safe : forall (ps : list pstep) (env : list bool) (henv : list handle) (st : store),
  ok_static ps env = true -> env_inv env henv st -> psafe ps henv st = true.
Proof. induction ps as [|p r IH]; intros env henv st Hok Hinv; cbn [psafe]; [reflexivity|].
  cbn [ok_static] in Hok. apply andb_true_iff in Hok. destruct Hok as [H1 H2].
  rewrite (step_safe env henv st p Hinv H1). cbn [andb]. apply (IH _ _ _ H2). apply step_inv; assumption. Qed.

Lemma prun_keeps : forall (ps : list pstep) (henv : list handle) (st : store) (j : nat) (c : cell),
  psafe ps henv st = true -> nth_error st j = Some c -> caller_owned c = true -> nth_error (prun ps henv st) j = Some c.
Proof. induction ps as [|p r IH]; intros henv st j c Hs Hj Hc; cbn [prun]; [exact Hj|].
  cbn [psafe] in Hs. apply andb_true_iff in Hs. destruct Hs as [H1 H2].
  apply IH; [exact H2| |exact Hc]. apply exec_keeps; assumption. Qed.

(* a program accepted by the taint analysis never changes a caller-owned cell, whatever the caller passes in *)
Theorem no_caller_write_static : forall (ps : list pstep) (st : store) (j : nat) (c : cell),
  ok_static ps [] = true -> nth_error st j = Some c -> caller_owned c = true -> nth_error (prun ps [] st) j = Some c.
Proof. intros ps st j c Hok Hj Hc. apply prun_keeps; [|exact Hj|exact Hc].
  apply (static_safe ps [] [] st Hok). split; [reflexivity|]. intros k Hk. destruct k; discriminate. Qed.
End Store.
