(* C13: refutation witness for the defect flag gmres_square_H on exact rationals (all square roots involved are
   exact: ||b|| = 1, ||w|| = 3), and the repaired model on the same witness. *)
From Coq Require Import List Bool Arith Lia ZArith QArith Qcanon.
From Core Require Import C12_Ops C12_Witness C13_Model.
Import ListNotations.
Local Close Scope Qc_scope. Local Close Scope Q_scope.

Definition gA : list (list Qc) := [[qz 1; qz 2]; [qz 3; qz 4]].
Definition gb : list Qc := [qz 1; qz 0].
Definition gx0 : list Qc := [qz 0; qz 0].
Definition gtolq : Qc := qq 1 10000000.
Definition grunq (square_H : bool) : gres (V:=list Qc) :=
  gmres_fwd QcOps (lvops QcOps) (mv QcOps gA) (ge_solve QcOps) square_H false false false false gtolq (qz 10 * gtolq)%Qc 1 2 [gb] [gx0].
Definition gsolq (square_H : bool) : list Qc := nth 0 (gsol (grunq square_H)) [].
(* squared residual norm of y for A x = b *)
Definition gres2 (y : list Qc) : Qc := let r := lmap2 Qcminus gb (mv QcOps gA y) in ldot QcOps r r.
(* the elements of x0 + K_1(A, r0) = { t * b } *)
Definition gkrylov1 (t : Qc) : list Qc := map (Qcmult t) gb.

(* The pinned tree (last Hessenberg row dropped) returns x = (1, 0) after one step: its squared residual is 9,
   whereas t = 1/10 in the same Krylov space gives 9/10, and the initial guess x0 = 0 gives 1. *)
Theorem gmres_refuted_square_H :
  map this (gsolq true) = [1 # 1; 0 # 1]%Q /\ gsteps (grunq true) = 1 /\
  (exists t, Qc_ltb (gres2 (gkrylov1 t)) (gres2 (gsolq true)) = true) /\
  Qc_ltb (gres2 gx0) (gres2 (gsolq true)) = true.
Proof. split; [vm_compute; reflexivity|]. split; [vm_compute; reflexivity|]. split; [exists (qq 1 10)|]; vm_compute; reflexivity. Qed.

(* The model with the flag cleared (full (m+1) x m Hessenberg matrix in the normal equations) returns the
   least-squares optimum t = 1/10 on the same witness, with squared residual 9/10 < 1. *)
Theorem gmres_witness_fixed_optimal :
  map this (gsolq false) = map this (gkrylov1 (qq 1 10)) /\ this (gres2 (gsolq false)) = (9 # 10)%Q.
Proof. split; vm_compute; reflexivity. Qed.
