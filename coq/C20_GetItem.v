(* Property C20: Gallina model of LinearOperator.__getitem__ (cola/ops/operator_base.py:159-189) and of the
   Sliced constructor (cola/ops/operators.py:421-427).  The `match ids` cascade is followed in source order.
   Index normalisation: CPython slices through PySlice.indices, integers and integer arrays through numpy's
   negative-index rule (`norm`).  The products `self.T @ e_i`, `self @ e_j` are the code's products (Op.matmat),
   NOT the represented matrix: that they select the right entries is theorem getitem_den (C20_Proofs.v). *)
From Coq Require Import ZArith Arith Lia List Bool.
From Core Require Import Base Kron Op PySlice.
Import ListNotations.

(* one component of an index expression *)
Inductive ix1 :=
| IInt (z : Z)            (* python int *)
| ISlice (s : pslice)     (* slice(start, stop, step) *)
| IArr (l : list Z)       (* 1-D integer numpy array *)
| IList (l : list Z).     (* python list of ints *)
(* what is passed to __getitem__ *)
Inductive ix :=
| One (a : ix1)           (* A[a] *)
| Two (a b : ix1)         (* A[a, b] *)
| Other.                  (* None, Ellipsis, tuples of other lengths, numpy integers, ... *)
Inductive err := EIndex | EAssert | EValue | EAttr | ENotImpl.
Definition err_eqb (a b : err) : bool :=
  match a, b with EIndex, EIndex | EAssert, EAssert | EValue, EValue | EAttr, EAttr | ENotImpl, ENotImpl => true | _, _ => false end.

(* behaviours of the pinned tree that contradict the property, one boolean each (true = as in the pinned tree) *)
Record flags := mkflags {
  f_row_len_cols : bool;   (* getitem_row_nonsquare: A[i], A[i,b] build the canonical vector with length shape[-1] *)
  f_list_dotA : bool;      (* getitem_list_uses_dotA: A[[..],[..]] multiplies self.A instead of self *)
  f_arr_cpu : bool;        (* sliced_index_array_cpu: Sliced calls .cpu() on index arrays (numpy >= 2 arrays have .device) *)
  f_list_empty_err : bool; (* getitem_empty_lists: stack([]) raises ValueError for A[[],[]] *)
  f_list_zip : bool;       (* getitem_list_zip_truncates: the two lists are paired with zip (the longer one is cut) instead of
                              numpy's broadcasting (equal lengths, or a list of length 1 repeated; else an error) *)
  f_T_self : bool          (* not a defect flag but a fact read off the implementation per operator: `self.T is self`
                              (cola.fns.transpose returns the operator itself when it isa(SelfAdjoint) and is real).
                              Right when the annotation is true; a wrongly inferred annotation makes A[i] a column. *)
}.
Definition pinned : flags := mkflags true true true true true false.
Definition repaired : flags := mkflags false false false false false false.

Definition full : pslice := mkslice None None None.
(* numpy's rule for one integer index on an axis of length n *)
Definition norm (z : Z) (n : nat) : option nat :=
  if (0 <=? z)%Z && (z <? Z.of_nat n)%Z then Some (Z.to_nat z)
  else if (- Z.of_nat n <=? z)%Z && (z <? 0)%Z then Some (Z.to_nat (z + Z.of_nat n)) else None.
Fixpoint norms (l : list Z) (n : nat) : option (list nat) :=
  match l with
  | [] => Some []
  | z :: r => match norm z n, norms r n with Some a, Some b => Some (a :: b) | _, _ => None end
  end.
(* np.broadcast_arrays on two 1-D index lists *)
Definition bcast (li lj : list Z) : option (list Z * list Z) :=
  if Nat.eqb (length li) (length lj) then Some (li, lj)
  else match li, lj with
       | [x], _ => Some (map (fun _ => x) lj, lj)
       | _, [y] => Some (li, map (fun _ => y) li)
       | _, _ => None
       end.
Definition is_arr (a : ix1) := match a with IArr _ => true | _ => false end.
Definition is_sa (a : ix1) := match a with ISlice _ | IArr _ => true | _ => false end.   (* slice() | ndarray() *)

Section GetItem.
Context {R : Type} {RR : Ring R} {CR : CRing R}.
Notation op := (op (R:=R)). Notation arr := (arr (R:=R)).

Inductive res := Err (e : err) | Scalar (x : R) | Vec (l : list R) | SubOp (s : op).

(* xnp.canonical(loc, shape=(len,)): zeros, vec[loc] = 1  (IndexError when loc is outside [-len, len)) *)
Definition evec (len p : nat) : arr := mkarr len 1 (fun i _ => delta i p).
Definition canonical (loc : Z) (len : nat) : option arr := option_map (evec len) (norm loc len).
Definition col0 (Y : arr) : list R := map (fun i => dat Y i 0%nat) (seq 0 (nr Y)).
(* LinearOperator.__matmul__ with a 1-D operand: dimension assertion, reshape(-1,1), _matmat, reshape(-1) *)
Definition matvec (e : op) (v : arr) : option (list R) :=
  if Nat.eqb (nr v) (snd (shape e)) then Some (col0 (matmat e v)) else None.
(* self.T @ e_i *)
Definition row_of (fl : flags) (e : op) (i : Z) : err + list R :=
  let len := if f_row_len_cols fl then snd (shape e) else fst (shape e) in
  match canonical i len with
  | None => inl EIndex
  | Some ei => match matvec (if f_T_self fl then e else Transp e) ei with None => inl EAssert | Some v => inr v end
  end.
(* self @ e_j *)
Definition col_of (e : op) (j : Z) : err + list R :=
  match canonical j (snd (shape e)) with
  | None => inl EIndex
  | Some ej => match matvec e ej with None => inl EAssert | Some v => inr v end
  end.
(* v[b] for a 1-D numpy array v *)
Definition index_vec (v : list R) (b : ix1) : res :=
  match b with
  | IInt z => match norm z (length v) with Some i => Scalar (nth i v r0) | None => Err EIndex end
  | ISlice s => match indices s (length v) with Some l => Vec (map (fun i => nth i v r0) l) | None => Err EValue end
  | IArr l | IList l => match norms l (length v) with Some l' => Vec (map (fun i => nth i v r0) l') | None => Err EIndex end
  end.
(* np.arange(n)[s] in Sliced.__init__ *)
Definition axis_sel (a : ix1) (n : nat) : err + list nat :=
  match a with
  | ISlice s => match indices s n with Some l => inr l | None => inl EValue end
  | IArr l | IList l => match norms l n with Some l' => inr l' | None => inl EIndex end
  | IInt _ => inl ENotImpl
  end.
Definition sliced (fl : flags) (e : op) (a b : ix1) : res :=
  if f_arr_cpu fl && (is_arr a || is_arr b) then Err EAttr
  else match axis_sel a (fst (shape e)) with
       | inl er => Err er
       | inr rs => match axis_sel b (snd (shape e)) with inl er => Err er | inr cs => SubOp (Sliced e rs cs) end
       end.
(* the object whose columns the list case reads: self.A in the pinned tree *)
Definition list_target (fl : flags) (e : op) : option op :=
  if f_list_dotA fl then
    match e with
    | Dense _ | Sparse _ _ _ => Some e      (* .A is the array itself *)
    | Transp a | Adj a | Sliced a _ _ => Some a   (* .A is the wrapped operator *)
    | _ => None                              (* AttributeError *)
    end
  else Some e.
Fixpoint list_go (t : op) (li lj : list Z) : err + list R :=
  match li, lj with
  | i :: li', j :: lj' =>
      match col_of t j with
      | inl er => inl er
      | inr v => match norm i (length v) with
                 | None => inl EIndex
                 | Some i' => match list_go t li' lj' with inl er => inl er | inr r => inr (nth i' v r0 :: r) end
                 end
      end
  | _, _ => inr []      (* zip stops at the shorter list *)
  end.
Definition list_pairs (fl : flags) (e : op) (li lj : list Z) : res :=
  match li, lj with
  | [], _ | _, [] => if f_list_empty_err fl then Err EValue else Vec []
  | _, _ => match list_target fl e with
            | None => Err EAttr
            | Some t => match list_go t li lj with inl er => Err er | inr r => Vec r end
            end
  end.
Definition list_case (fl : flags) (e : op) (li lj : list Z) : res :=
  if f_list_zip fl then list_pairs fl e li lj
  else match bcast li lj with
       | None => Err EValue                       (* shape mismatch: np.broadcast_arrays raises ValueError *)
       | Some (li', lj') => list_pairs fl e li' lj'
       end.
Definition col_then (e : op) (b : ix1) (j : Z) : res := match col_of e j with inl er => Err er | inr v => index_vec v b end.
Definition row_then (fl : flags) (e : op) (i : Z) (b : ix1) : res := match row_of fl e i with inl er => Err er | inr v => index_vec v b end.

(* the cascade, in source order *)
Definition getitem (fl : flags) (e : op) (q : ix) : res :=
  match q with
  | One (IInt i) => match row_of fl e i with inl er => Err er | inr v => Vec v end       (* case int(i) *)
  | One (ISlice s) => sliced fl e (ISlice s) (ISlice full)                               (* case slice | ndarray *)
  | One (IArr l) => sliced fl e (IArr l) (ISlice full)
  | One (IList [b; j]) => col_then e (IInt b) j       (* a 2-element list is a sequence: matches `case b, int(j)` *)
  | One (IList _) => Err ENotImpl
  | Two b (IInt j) => col_then e b j                                                     (* case b, int(j) *)
  | Two (IInt i) b => row_then fl e i b                                                  (* case int(i), b *)
  | Two (IList li) (IList lj) => list_case fl e li lj                                    (* case list, list *)
  | Two a b => if is_sa a && is_sa b then sliced fl e a b else Err ENotImpl              (* pair of slice|ndarray; else *)
  | Other => Err ENotImpl
  end.

(* ---------------- specification: numpy indexing of the represented matrix M (m x n) ---------------- *)
Inductive sres := SScalar (x : R) | SVec (l : list R) | SMat (rs cs : list nat).  (* SMat: the sub-matrix M[rs][:, cs] *)
Inductive axis := AInt (i : nat) | AIdx (l : list nat).
Definition spec_axis (a : ix1) (n : nat) : option axis :=
  match a with
  | IInt z => option_map AInt (norm z n)
  | ISlice s => option_map AIdx (indices s n)
  | IArr l | IList l => option_map AIdx (norms l n)
  end.
Definition spec_two (M : fm (R:=R)) (m n : nat) (a b : ix1) : option sres :=
  match spec_axis a m, spec_axis b n with
  | Some (AInt i), Some (AInt j) => Some (SScalar (M i j))
  | Some (AInt i), Some (AIdx cs) => Some (SVec (map (fun c => M i c) cs))
  | Some (AIdx rs), Some (AInt j) => Some (SVec (map (fun r => M r j) rs))
  | Some (AIdx rs), Some (AIdx cs) => Some (SMat rs cs)       (* documented reading: A[rows, :][:, cols] *)
  | _, _ => None
  end.
Definition spec_index (M : fm (R:=R)) (m n : nat) (q : ix) : option sres :=
  match q with
  | One a => spec_two M m n a (ISlice full)
  | Two (IList li) (IList lj) =>       (* numpy pairs two index lists element-wise, after broadcasting *)
      match bcast li lj with
      | Some (li', lj') =>
        match norms li' m, norms lj' n with
        | Some rs, Some cs => Some (SVec (map (fun p => M (fst p) (snd p)) (combine rs cs)))
        | _, _ => None
        end
      | None => None
      end
  | Two a b => spec_two M m n a b
  | Other => None
  end.
(* the index forms the property lists *)
Definition listed (q : ix) : bool :=
  match q with
  | One (IList _) => false
  | One _ => true
  | Two (IList _) (IList _) => true
  | Two (IList _) (IInt _) | Two (IInt _) (IList _) => true
  | Two (IList _) _ | Two _ (IList _) => false
  | Two _ _ => true
  | Other => false
  end.
End GetItem.
