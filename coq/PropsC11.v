(* Property C11: cholesky and plu return structured factors that reproduce the operator.
   Statements only; the model is coq/C11_Decomp.v, the lemmas live in C11_Proofs.v / C11_Struct.v / C11_Thms.v.
   Scalars: any commutative ring with an involution.  LAPACK's Cholesky and pivoted LU and the element-wise square root are
   universally quantified oracles; what the code relies on is collected, per leaf, by [cok] / [pok]
   (L lower with L L^H = A;  P L U = A with p a permutation, L lower, U upper;  sqrt x * conj (sqrt x) = x resp. sqrt x * sqrt x = x
   on the diagonal entries used). *)
From Coq Require Import List Arith Bool.
From Core Require Import Base Kron Op OpProofs Algebra AlgebraProofs FieldBase C06_Inv C06_Proofs C11_Decomp C11_Proofs C11_Struct C11_Thms.
Import ListNotations.

(* cholesky(A): well-formed operator of A's shape, lower triangular, L L^H = A - dense, Identity, Diagonal, ScalarMul, Kronecker (any number of factors),
   BlockDiag with multiplicities, and all nestings *)
Theorem C11_chol_correct : forall (R : Type) (RR : Ring R) (CR : CRing R) (chol_o : nat -> fm -> fm) (sqrt_o : R -> R) (e : op (R:=R)),
  wf e = true -> is_sq e = true -> cok chol_o sqrt_o e ->
  let L := dto_op (chol chol_o sqrt_o e) in let n := fst (shape e) in
  wf L = true /\ shape L = shape e /\ lower n (den L) /\ feq n n (mmul n (den L) (ctr 0 (den L))) (den e).
Proof. intros R RR CR ch sq e. exact (chol_correct ch sq e). Qed.
Print Assumptions C11_chol_correct.

(* plu(A) = (P, L, U): three well-formed operators of A's shape, P a permutation matrix, L lower, U upper triangular, P L U = A.
   [plu_sqrt] is the flag plu_diagonal_negative_nan: false = the repaired rule plu(Diagonal | ScalarMul) = (I, I, A), which needs no hypothesis
   on the entries; true = the pinned rule (I, sqrt A, sqrt A), correct only where sqrt x * sqrt x = x *)
Theorem C11_plu_correct : forall (R : Type) (RR : Ring R) (CR : CRing R) (lu_o : nat -> fm -> (nat -> nat) * fm * fm) (sqrt_o : R -> R) (plu_sqrt : bool) (e : op (R:=R)),
  wf e = true -> is_sq e = true -> pok lu_o sqrt_o plu_sqrt e -> plugood (plu lu_o sqrt_o plu_sqrt e) e.
Proof. intros R RR CR lu sq fl e. exact (plu_correct lu sq fl e). Qed.
Print Assumptions C11_plu_correct.
(* the pinned rule is wrong for a negative entry of a real operator, whatever real number the square root returns: witness Diagonal([-4]) *)
Theorem C11_plu_diagonal_refuted : forall lu_o (sqrt_o : qi -> qi), real_valued (sqrt_o m4) ->
  ~ plugood (plu lu_o sqrt_o true (Diag 1 (fun _ => m4))) (Diag 1 (fun _ => m4)).
Proof. exact plu_diag_refuted. Qed.
Print Assumptions C11_plu_diagonal_refuted.

(* the factors keep the structure of the input: Kronecker of factors, BlockDiag with the same multiplicities, Diagonal, scalar * Identity,
   Triangular(lower) / Triangular(upper) / Permutation for everything that takes the dense path *)
Theorem C11_structure_kept : forall (R : Type) (RR : Ring R) (CR : CRing R) (chol_o : nat -> fm -> fm) (lu_o : nat -> fm -> (nat -> nat) * fm * fm) (sqrt_o : R -> R)
  (plu_sqrt : bool) (e : op (R:=R)),
  dtype (chol chol_o sqrt_o e) = mirror (DtTri true) e /\
  (let '(P, L, U) := plu lu_o sqrt_o plu_sqrt e in dtype P = mirrorP e /\ dtype L = mirrorL plu_sqrt e /\ dtype U = mirrorU plu_sqrt e).
Proof. intros R RR CR. exact (@structure_kept R RR CR). Qed.
Print Assumptions C11_structure_kept.

(* the index lemmas behind the Kronecker rule *)
Theorem C11_kron_lower : forall (R : Type) (RR : Ring R) (X Y : fac (R:=R)) (a N : nat),
  fr X = a -> fc X = a -> fr Y = N -> fc Y = N -> 0 < N -> lower a (fmx X) -> lower N (fmx Y) -> lower (a * N) (fmx (kron2 X Y)).
Proof. intros R RR. exact (@kron2_lower R RR). Qed.
Print Assumptions C11_kron_lower.
Theorem C11_kron_permutation : forall (R : Type) (RR : Ring R) (X Y : fac (R:=R)) (a N : nat),
  fr X = a -> fc X = a -> fr Y = N -> fc Y = N -> 0 < N -> permmat a (fmx X) -> permmat N (fmx Y) -> permmat (a * N) (fmx (kron2 X Y)).
Proof. intros R RR. exact (@kron2_permmat R RR). Qed.
Print Assumptions C11_kron_permutation.
(* n-ary: factor-wise Cholesky / P L U factorisations of a Kronecker product *)
Theorem C11_kron_chol : forall (R : Type) (RR : Ring R) (CR : CRing R) (Ls As : list (fac (R:=R))), Forall2 cholfac Ls As -> cholfac (kronR Ls) (kronR As).
Proof. intros R RR CR. exact (@kron_chol R RR CR). Qed.
Print Assumptions C11_kron_chol.
Theorem C11_kron_plu : forall (R : Type) (RR : Ring R) (Ts : list (fac (R:=R) * fac * fac)) (As : list fac), Forall2 plufac Ts As ->
  plufac (kronR (map fst3 Ts), kronR (map snd3 Ts), kronR (map thd3 Ts)) (kronR As).
Proof. intros R RR. exact (@kron_plu R RR). Qed.
Print Assumptions C11_kron_plu.
(* direct sums: block-diagonal of lower triangular blocks is lower triangular, of permutation matrices a permutation matrix *)
Theorem C11_blockdiag_lower : forall (R : Type) (RR : Ring R) (L : list (OpProofs.blk (R:=R))),
  Forall (sqblk (fun n M => lower n M)) L -> lower (OpProofs.rowsB L) (bd L).
Proof. intros R RR. exact (@bd_lower R RR). Qed.
Print Assumptions C11_blockdiag_lower.
Theorem C11_blockdiag_permutation : forall (R : Type) (RR : Ring R) (L : list (OpProofs.blk (R:=R))),
  Forall (sqblk (fun n M => permmat n M)) L -> permmat (OpProofs.rowsB L) (bd L).
Proof. intros R RR. exact (@bd_permmat R RR). Qed.
Print Assumptions C11_blockdiag_permutation.

Example C11_hypotheses_satisfiable : forall chol_o lu_o,
  wf ex11_tree = true /\ is_sq ex11_tree = true /\ cok chol_o ex11_sqrt ex11_tree /\ pok lu_o ex11_sqrt true ex11_tree.
Proof. exact ex11_ok. Qed.
Print Assumptions C11_hypotheses_satisfiable.
