(* dtype clause of C01: with all flags off, A.dtype is the promotion over all leaves and (A @ X).dtype, (X @ A).dtype
   are the promotion of that with the operand's dtype - for every tree of the dtype skeleton. *)
From Coq Require Import List Bool Arith.
From Core Require Import DtypeTable Dtype.
Import ListNotations.

Lemma p3 x y d : promote (promote x d) (promote y d) = promote (promote x y) d. Proof. destruct x, y, d; reflexivity. Qed.
Lemma p_abs x d : promote (promote x d) d = promote x d. Proof. destruct x, d; reflexivity. Qed.
Lemma p_abs2 x y d : promote x (promote y d) = promote (promote x y) d. Proof. destruct x, y, d; reflexivity. Qed.
Lemma fold_promote_dx {A} (f : A -> dt) d r : forall x,
  fold_left promote (map (fun m => promote (f m) d) r) (promote x d) = promote (fold_left promote (map f r) x) d.
Proof. induction r as [|m r IH]; intros x; cbn [map fold_left]; [reflexivity|]. rewrite p3. apply IH. Qed.
Lemma reduce1_dx {A} (f : A -> dt) d (l : list A) : l <> [] ->
  reduce1 (map (fun m => promote (f m) d) l) d = promote (reduce1 (map f l) F32) d.
Proof. destruct l as [|x r]; [contradiction|]. intros _. cbn [map reduce1]. apply fold_promote_dx. Qed.
Lemma p_swap a b c : promote a (promote b c) = promote b (promote a c). Proof. destruct a, b, c; reflexivity. Qed.
Definition J {A} (f : A -> dt) (l : list A) (base : dt) : dt := fold_right (fun m acc => promote (f m) acc) base l.
Lemma J_base {A} (f : A -> dt) r x z : J f r (promote x z) = promote z (J f r x).
Proof. induction r as [|m r IH]; cbn [J fold_right]; [apply promote_comm|]. fold (J f r (promote x z)). fold (J f r x). rewrite IH. apply p_swap. Qed.
Lemma foldl_J {A} (f : A -> dt) r : forall x, fold_left promote (map f r) x = J f r x.
Proof. induction r as [|y r IH]; intros x; cbn [map fold_left J fold_right]; [reflexivity|]. fold (J f r x). rewrite IH. apply J_base. Qed.
Lemma J_dx {A} (f : A -> dt) r x d : promote (f x) (J f r d) = promote (J f r (f x)) d.
Proof. induction r as [|y r IH]; cbn [J fold_right]; [reflexivity|]. fold (J f r d). fold (J f r (f x)).
  rewrite <- promote_assoc, <- IH. apply p_swap. Qed.
Lemma foldr_dx {A} (f : A -> dt) d (l : list A) : l <> [] ->
  fold_right (fun m acc => promote (f m) acc) d l = promote (reduce1 (map f l) F32) d.
Proof. destruct l as [|x r]; [contradiction|]. intros _. cbn [map reduce1 fold_right]. rewrite foldl_J. apply J_dx. Qed.
Lemma foldl_acc {A} (f : A -> dt) r : forall a, fold_left (fun acc m => promote (f m) acc) r a = J f r a.
Proof. induction r as [|y r IH]; intros a; cbn [fold_left J fold_right]; [reflexivity|]. fold (J f r a). rewrite IH. rewrite (promote_comm (f y) a). apply J_base. Qed.
Lemma foldl_dx {A} (f : A -> dt) d (l : list A) : l <> [] ->
  fold_left (fun acc m => promote (f m) acc) l d = promote (reduce1 (map f l) F32) d.
Proof. intros H. rewrite foldl_acc. rewrite <- (foldr_dx f d l H). reflexivity. Qed.

Section Ind.
Variable P : dsk -> Prop.
Hypothesis HL : forall k d, P (DLeaf k d).
Hypothesis HS : forall l, Forall P l -> P (DSum l).
Hypothesis HP : forall l, Forall P l -> P (DProd l).
Hypothesis HK : forall l, Forall P l -> P (DKron l).
Hypothesis HKS : forall l, Forall P l -> P (DKronSum l).
Hypothesis HB : forall l, Forall P l -> P (DBDiag l).
Hypothesis HC : forall l, Forall P l -> P (DConcat l).
Hypothesis HT : forall a, P a -> P (DTransp a).
Hypothesis HA : forall a, P a -> P (DAdj a).
Hypothesis HSl : forall a, P a -> P (DSliced a).
Fixpoint dsk_ind2 (e : dsk) : P e :=
  let go := fix go l : Forall P l := match l with [] => Forall_nil _ | m :: l' => Forall_cons _ (dsk_ind2 m) (go l') end in
  match e with
  | DLeaf k d => HL k d | DSum l => HS l (go l) | DProd l => HP l (go l) | DKron l => HK l (go l) | DKronSum l => HKS l (go l)
  | DBDiag l => HB l (go l) | DConcat l => HC l (go l) | DTransp a => HT a (dsk_ind2 a) | DAdj a => HA a (dsk_ind2 a) | DSliced a => HSl a (dsk_ind2 a)
  end.
End Ind.

Definition dgood (e : dsk) := nonempty e = true ->
  dtype dfixed e = ddtype e /\ forall dx, outs dfixed e dx = (promote (ddtype e) dx, promote (ddtype e) dx).
Lemma map_ext_Forall {A B} (f g : A -> B) l : Forall (fun x => f x = g x) l -> map f l = map g l.
Proof. induction 1; cbn; congruence. Qed.
Lemma dgood_list l : Forall dgood l -> forallb nonempty l = true ->
  map (dtype dfixed) l = map ddtype l /\ forall dx, map (fun m => fst (outs dfixed m dx)) l = map (fun m => promote (ddtype m) dx) l
  /\ map (fun m => snd (outs dfixed m dx)) l = map (fun m => promote (ddtype m) dx) l.
Proof. intros H W. induction H as [|m l Hm Hl IH]; [repeat split; reflexivity|]. cbn [forallb] in W. apply andb_prop in W as [Wm Wl].
  destruct (Hm Wm) as [A B]. destruct (IH Wl) as [C D]. split; [cbn [map]; congruence|]. intros dx. destruct (D dx) as [D1 D2].
  cbn [map]. rewrite (B dx). cbn [fst snd]. split; congruence. Qed.
Lemma ne_of_len {A} (l : list A) : negb (Nat.eqb (length l) 0) = true -> l <> [].
Proof. destruct l; [discriminate|discriminate]. Qed.
Theorem dtype_promoted : forall e, dgood e.
Proof. apply dsk_ind2.
  - intros k d _. split; [reflexivity|]. intros dx. destruct k; reflexivity.
  - intros l H W. cbn [nonempty] in W. apply andb_prop in W as [N W]. apply ne_of_len in N. destruct (dgood_list l H W) as [A B].
    split; [cbn [dtype dfixed sum_first ddtype]; congruence|]. intros dx. destruct (B dx) as [B1 B2]. cbn [outs ddtype]. rewrite B1, B2, reduce1_dx by auto. reflexivity.
  - intros l H W. cbn [nonempty] in W. apply andb_prop in W as [N W]. apply ne_of_len in N. destruct (dgood_list l H W) as [A B].
    split; [cbn [dtype ddtype]; congruence|]. intros dx. cbn [outs ddtype]. f_equal.
    + rewrite <- (foldr_dx ddtype dx l N). clear A B N. induction H as [|m l Hm Hl IH]; [reflexivity|]. cbn [forallb] in W. apply andb_prop in W as [Wm Wl].
      cbn [fold_right]. rewrite (IH Wl). destruct (Hm Wm) as [_ Bm]. rewrite Bm. reflexivity.
    + rewrite <- (foldl_dx ddtype dx l N). clear A B N. revert dx. induction H as [|m l Hm Hl IH]; intros dx; [reflexivity|]. cbn [forallb] in W. apply andb_prop in W as [Wm Wl].
      cbn [fold_left]. destruct (Hm Wm) as [_ Bm]. rewrite Bm. cbn [snd]. apply (IH Wl).
  - intros l H W. cbn [nonempty] in W. apply andb_prop in W as [N W]. apply ne_of_len in N. destruct (dgood_list l H W) as [A B].
    split; [cbn [dtype ddtype]; congruence|]. intros dx. cbn [outs ddtype].
    assert (E : fold_left (fun acc m => fst (outs dfixed m acc)) l dx = promote (reduce1 (map ddtype l) F32) dx).
    { rewrite <- (foldl_dx ddtype dx l N). clear A B N. revert dx. induction H as [|m l Hm Hl IH]; intros dx; [reflexivity|]. cbn [forallb] in W. apply andb_prop in W as [Wm Wl].
      cbn [fold_left]. destruct (Hm Wm) as [_ Bm]. rewrite Bm. cbn [fst]. apply (IH Wl). }
    rewrite E, p_abs. reflexivity.
  - intros l H W. cbn [nonempty] in W. apply andb_prop in W as [N W]. apply ne_of_len in N. destruct (dgood_list l H W) as [A B].
    split; [cbn [dtype ddtype]; congruence|]. intros dx. destruct (B dx) as [B1 B2]. cbn [outs ddtype dfixed kronsum_inplace]. rewrite B1, reduce1_dx, p_abs by auto. reflexivity.
  - intros l H W. cbn [nonempty] in W. apply andb_prop in W as [N W]. apply ne_of_len in N. destruct (dgood_list l H W) as [A B].
    split; [cbn [dtype ddtype]; congruence|]. intros dx. destruct (B dx) as [B1 B2]. cbn [outs ddtype]. rewrite B1, reduce1_dx, p_abs by auto. reflexivity.
  - intros l H W. cbn [nonempty] in W. apply andb_prop in W as [N W]. apply ne_of_len in N. destruct (dgood_list l H W) as [A B].
    split; [cbn [dtype dfixed concat_first ddtype]; congruence|]. intros dx. destruct (B dx) as [B1 B2]. cbn [outs ddtype]. rewrite B1, reduce1_dx, p_abs by auto. reflexivity.
  - intros a H W. destruct (H W) as [A B]. split; [exact A|]. intros dx. cbn [outs ddtype]. rewrite B. reflexivity.
  - intros a H W. destruct (H W) as [A B]. split; [exact A|]. intros dx. cbn [outs ddtype]. rewrite B. reflexivity.
  - intros a H W. destruct (H W) as [A B]. split; [exact A|]. intros dx. cbn [outs ddtype dfixed sliced_cast]. rewrite B, A. cbn [fst snd].
    rewrite p_abs2, promote_idem. reflexivity.
Qed.
(* the flags of the pinned tree break the clause: witnesses *)
Lemma sum_first_refuted : let fl := {| sum_first := true; concat_first := false; ident_pass := false; perm_pass := false; kronsum_inplace := false; sliced_cast := false |} in
  dtype fl (DSum [DLeaf LDense F32; DLeaf LDense F64]) <> ddtype (DSum [DLeaf LDense F32; DLeaf LDense F64]).
Proof. cbv. discriminate. Qed.
Lemma ident_pass_refuted : let fl := {| sum_first := false; concat_first := false; ident_pass := true; perm_pass := false; kronsum_inplace := false; sliced_cast := false |} in
  out_dtype fl (DLeaf LIdent C128) F64 <> promote (ddtype (DLeaf LIdent C128)) F64.
Proof. cbv. discriminate. Qed.
Lemma sliced_cast_refuted : let fl := {| sum_first := false; concat_first := false; ident_pass := false; perm_pass := false; kronsum_inplace := false; sliced_cast := true |} in
  out_dtype fl (DSliced (DLeaf LDense F32)) C128 <> promote (ddtype (DSliced (DLeaf LDense F32))) C128.
Proof. cbv. discriminate. Qed.
