(* C05: soundness of the (repaired) annotation inference: if every declared annotation is true of the matrix of the
   node it is declared on, then every inferred annotation is true of the represented matrix. By induction over
   annotated operator trees (any nesting, any number of factors, multiplicities). *)
From Coq Require Import Arith Lia List Ring ArithRing PeanoNat Bool.
From Core Require Import Base Kron Op OpProofs AlgebraProofs AlgebraKron C05_Annot C05_Sem C05_Sem2.
Import ListNotations.
Section Sound.
Context {R : Type} {RR : Ring R} {CR : CRing R}.
Add Ring Rring : Rth.
Open Scope R_scope.
Notation fm := (fm (R:=R)). Notation op := (op (R:=R)). Notation aop := (aop (R:=R)).
Variable nonneg : R -> Prop.
Hypothesis nonneg_1 : nonneg r1.
Hypothesis nonneg_mul : forall a b, nonneg a -> nonneg b -> nonneg (a * b).
Hypothesis nonneg_real : forall a, nonneg a -> conj a = a.
Notation holds := (holds nonneg).
Notation holdsF := (holdsF nonneg).
Notation holdsB := (holdsB nonneg).

(* ---- finite sets of annotations ---- *)
Lemma annot_eqb_eq a b : annot_eqb a b = true <-> a = b.
Proof. destruct a, b; cbn; split; intros H; try reflexivity; try discriminate. Qed.
Lemma mem_In a s : mem a s = true <-> In a s.
Proof. unfold mem. rewrite existsb_exists. split.
  - intros [x [Hx E]]. apply annot_eqb_eq in E. subst; auto.
  - intros H. exists a. split; auto. apply annot_eqb_eq; auto. Qed.
Lemma mem_inter a s t : mem a (inter s t) = true <-> mem a s = true /\ mem a t = true.
Proof. unfold inter. rewrite !mem_In, filter_In, mem_In. tauto. Qed.
Lemma mem_minus a s t : mem a (minus s t) = true <-> mem a s = true /\ mem a t = false.
Proof. unfold minus. rewrite !mem_In, filter_In, negb_true_iff. tauto. Qed.
Lemma mem_union a s t : mem a (union s t) = true <-> mem a s = true \/ mem a t = true.
Proof. unfold union. rewrite mem_In, in_app_iff, <- !mem_In, mem_minus. destruct (mem a s); intuition congruence. Qed.
Lemma mem_fold_inter a r s : mem a (fold_left inter r s) = true <-> mem a s = true /\ forall t, In t r -> mem a t = true.
Proof. revert s. induction r as [|t r IH]; intros s; cbn [fold_left].
  - split; [intros H; split; auto; intros t []|tauto].
  - rewrite IH, mem_inter. split.
    + intros [[A B] C]. split; auto. intros t' [<-|H]; auto.
    + intros [A C]. split; [split; [exact A|apply C; left; reflexivity]|intros t' H; apply C; right; exact H]. Qed.
Lemma mem_inter_all a l : mem a (inter_all l) = true -> forall t, In t l -> mem a t = true.
Proof. destruct l as [|s r]; cbn [inter_all]; [discriminate|]. rewrite mem_fold_inter. intros [A B] t [<-|H]; auto. Qed.

(* ---- induction principle for annotated trees ---- *)
Section Ind.
Variable P : aop -> Prop.
Hypothesis HLeaf : forall e d, P (XLeaf e d).
Hypothesis HSum : forall ms d, Forall P ms -> P (XSum ms d).
Hypothesis HProd : forall ms d, Forall P ms -> P (XProd ms d).
Hypothesis HGram : forall a l r x d, P x -> P (XGram a l r x d).
Hypothesis HKron : forall ms d, Forall P ms -> P (XKron ms d).
Hypothesis HBDiag : forall ms d, Forall (fun mc => P (fst mc)) ms -> P (XBDiag ms d).
Hypothesis HTransp : forall x d, P x -> P (XTransp x d).
Hypothesis HAdj : forall x d, P x -> P (XAdj x d).
Hypothesis HSliced : forall x rs cs s d, P x -> P (XSliced x rs cs s d).
Fixpoint aop_ind2 (x : aop) : P x :=
  match x with
  | XLeaf e d => HLeaf e d
  | XSum ms d => HSum ms d ((fix go l : Forall P l := match l with [] => Forall_nil _ | m :: l' => Forall_cons _ (aop_ind2 m) (go l') end) ms)
  | XProd ms d => HProd ms d ((fix go l : Forall P l := match l with [] => Forall_nil _ | m :: l' => Forall_cons _ (aop_ind2 m) (go l') end) ms)
  | XGram a l r y d => HGram a l r y d (aop_ind2 y)
  | XKron ms d => HKron ms d ((fix go l : Forall P l := match l with [] => Forall_nil _ | m :: l' => Forall_cons _ (aop_ind2 m) (go l') end) ms)
  | XBDiag ms d => HBDiag ms d ((fix go l : Forall (fun mc => P (fst mc)) l := match l with [] => Forall_nil _ | mc :: l' => Forall_cons _ (aop_ind2 (fst mc)) (go l') end) ms)
  | XTransp y d => HTransp y d (aop_ind2 y)
  | XAdj y d => HAdj y d (aop_ind2 y)
  | XSliced y rs cs s d => HSliced y rs cs s d (aop_ind2 y)
  end.
End Ind.

(* ---- what the user must guarantee: declarations are true; facts supplied with the tree are true ---- *)
Definition decl_of (x : aop) : aset :=
  match x with XLeaf _ d | XSum _ d | XProd _ d | XGram _ _ _ _ d | XKron _ d | XBDiag _ d | XTransp _ d | XAdj _ d | XSliced _ _ _ _ d => d end.
Definition sem (x : aop) (a : annot) : Prop := holds a (shape (erase x)) (den (erase x)).
Definition perm_ok (e : op) : Prop :=
  match e with
  | Perm n p => exists q, (forall i, (i < n)%nat -> (q i < n)%nat /\ p (q i) = i) /\ (forall l, (l < n)%nat -> (p l < n)%nat /\ q (p l) = l)
  | _ => True
  end.
Fixpoint truthful (x : aop) : Prop :=
  (forall a, In a (decl_of x) -> sem x a) /\
  match x with
  | XLeaf e _ => perm_ok e
  | XSum ms _ | XProd ms _ | XKron ms _ => (fix go (l : list aop) : Prop := match l with [] => True | m :: l' => truthful m /\ go l' end) ms
  | XBDiag ms _ => (fix go (l : list (aop * nat)) : Prop := match l with [] => True | mc :: l' => truthful (fst mc) /\ go l' end) ms
  | XGram _ _ isreal a _ => truthful a /\ (isreal = true -> forall i j, conj (den (erase a) i j) = den (erase a) i j)
  | XTransp a _ | XAdj a _ => truthful a
  | XSliced a rs cs same _ => truthful a /\ (same = true -> rs = cs)
  end.
Lemma truthful_list (l : list aop) :
  (fix go (l : list aop) : Prop := match l with [] => True | m :: l' => truthful m /\ go l' end) l <-> Forall truthful l.
Proof. induction l as [|m l IH]; [split; constructor|]. rewrite IH. split; [intros [A B]; constructor; auto|intros H; inversion H; auto]. Qed.
Lemma truthful_listB (l : list (aop * nat)) :
  (fix go (l : list (aop * nat)) : Prop := match l with [] => True | mc :: l' => truthful (fst mc) /\ go l' end) l <-> Forall (fun mc => truthful (fst mc)) l.
Proof. induction l as [|m l IH]; [split; constructor|]. rewrite IH. split; [intros [A B]; constructor; auto|intros H; inversion H; auto]. Qed.

Definition sound (x : aop) : Prop :=
  wf (erase x) = true -> truthful x -> forall a, mem a (infer repaired x) = true -> sem x a.

(* shapes as pairs *)
Lemma holds_ext' a s M M' : feq (fst s) (snd s) M M' -> holds a s M -> holds a s M'.
Proof. destruct s. apply holds_ext; auto. Qed.
Lemma decl_case (x : aop) a (base : aset) : truthful x -> mem a (union base (decl_of x)) = true ->
  (mem a base = true -> sem x a) -> sem x a.
Proof. intros T H Hb. apply mem_union in H as [H|H]; auto. destruct x; cbn [truthful] in T; destruct T as [T _]; apply T; apply mem_In; exact H. Qed.

(* ---- leaves ---- *)
Lemma perm_unitary n p : perm_ok (Perm n p) -> Unm n (den (Perm n p)).
Proof. intros (q & Hq & Hp). cbn [den]. split; intros i j Hi Hj.
  - rewrite (sum_ext n _ (fun l => delta (q i) l * delta (p l) j)).
    + rewrite (sum_delta_l n (q i) (fun l => delta (p l) j)) by (apply Hq; auto). destruct (Hq i Hi) as [_ ->]. reflexivity.
    + intros l Hl. rewrite conj_delta. f_equal. unfold delta. destruct (Hq i Hi) as [Q1 Q2]. destruct (Hp l Hl) as [P1 P2].
      destruct (Nat.eqb_spec (p l) i), (Nat.eqb_spec (q i) l); try reflexivity; exfalso; congruence.
  - rewrite (sum_ext n _ (fun l => delta (p i) l * delta (p j) l)) by (intros; rewrite conj_delta; reflexivity).
    rewrite (sum_delta_l n (p i) (fun l => delta (p j) l)) by (apply Hp; auto). unfold eye, delta.
    destruct (Hp i Hi) as [_ Q1]. destruct (Hp j Hj) as [_ Q2].
    destruct (Nat.eqb_spec (p j) (p i)), (Nat.eqb_spec i j); try reflexivity; exfalso; congruence. Qed.
Lemma sound_leaf e d : sound (XLeaf e d).
Proof. intros W T a H. cbn [infer] in H. apply (decl_case (XLeaf e d) a (leaf_infer e) T H). clear H. intros H.
  unfold sem. cbn [erase]. destruct e; cbn [leaf_infer] in H; try discriminate.
  - (* Ident *) cbn [shape den]. cbn in H. destruct a; try discriminate; cbn [C05_Sem.holds fst snd]; split; auto.
    + apply PSD_eye; auto.
    + split; [apply St_eye|apply Co_eye].
  - (* Perm *) destruct a; try discriminate. cbn [shape C05_Sem.holds fst snd]. split; auto. apply perm_unitary. destruct T as [_ T]. exact T. Qed.

(* ---- sums ---- *)
Lemma sound_sum ms d : Forall sound ms -> sound (XSum ms d).
Proof. intros IH W T a H. cbn [infer] in H. apply (decl_case (XSum ms d) a _ T H). clear H. intros H.
  apply mem_minus in H as [H Hn]. assert (Ha : a = SA \/ a = PSD). { destruct a; auto; cbn in Hn; discriminate. }
  unfold sem. cbn [erase]. cbn [erase wf] in W. apply andb_prop in W as [W Wsh]. apply andb_prop in W as [Wne Wwf].
  destruct T as [_ T]. apply truthful_list in T.
  set (s0 := hd (0,0)%nat (map shape (map erase ms))) in *. cbn [shape]. fold s0.
  assert (Hall : forall m, In m ms -> wf (erase m) = true /\ shape (erase m) = s0 /\ sem m a).
  { intros m Hm. destruct (Sum_all (map erase ms) s0 eq_refl Wwf Wsh (erase m) (in_map erase _ _ Hm)) as [A B]. repeat split; auto.
    rewrite Forall_forall in IH, T. apply IH; auto. apply (mem_inter_all a _ H). apply in_map. exact Hm. }
  change (den (Sum (map erase ms))) with (fold_right (fun M acc => madd M acc) zerom (map den (map erase ms))).
  assert (G : forall l, (forall m, In m l -> In m ms) -> holds a s0 (fold_right (fun M acc => madd M acc) zerom (map den (map erase l)))).
  { induction l as [|m l IHl]; intros Hin; cbn [map fold_right].
    - assert (Sq : fst s0 = snd s0). { destruct ms as [|m0 ms']; [discriminate|]. destruct (Hall m0 (or_introl eq_refl)) as (_ & S0 & Sm). unfold sem in Sm. rewrite S0 in Sm. destruct Ha; subst a; apply Sm. }
      destruct Ha; subst a; cbn [C05_Sem.holds]; split; auto; [apply SA_zero|apply PSD_zero].
    - destruct (Hall m (Hin m (or_introl eq_refl))) as (_ & S0 & Sm). unfold sem in Sm. rewrite S0 in Sm.
      specialize (IHl (fun m' H' => Hin m' (or_intror H'))).
      destruct Ha; subst a; cbn [C05_Sem.holds] in *; destruct Sm as [E Sm], IHl as [_ IHl]; split; auto; [apply SA_add|apply PSD_add]; auto. }
  apply G. auto. Qed.

(* ---- products ---- *)
Lemma holds_chain a (ms : list op) : a = St \/ a = Un -> ms <> [] -> chain_ok (map shape ms) = true ->
  (forall m, In m ms -> holds a (shape m) (den m)) -> holds a (shape (Prod ms)) (den (Prod ms)).
Proof. intros Ha Hne Hc Hall. induction ms as [|m ms IH]; [contradiction|]. destruct ms as [|m' ms].
  - apply holds_ext' with (M := den m).
    + cbn [shape map hd last fst snd]. intros i j Hi Hj. change (den (Prod [m])) with (chainl [m]). rewrite chainl_cons. change (chainl []) with (eye (R:=R)).
      rewrite mmul_eye_r by auto. reflexivity.
    + cbn [shape map hd last]. specialize (Hall m (or_introl eq_refl)). destruct (shape m); exact Hall.
  - cbn [map chain_ok] in Hc. apply andb_prop in Hc as [E Hc]. apply Nat.eqb_eq in E.
    assert (IH' := IH ltac:(discriminate) Hc (fun x H => Hall x (or_intror H))). clear IH.
    pose proof (Hall m (or_introl eq_refl)) as Hm.
    change (den (Prod (m :: m' :: ms))) with (mmul (snd (shape m)) (den m) (den (Prod (m' :: ms)))).
    cbn [shape map hd] in *. set (K := den (Prod (m' :: ms))) in *.
    set (sl := last (shape m' :: map shape ms) (0,0)%nat) in *.
    change (last (shape m :: shape m' :: map shape ms) (0,0)%nat) with sl.
    destruct (shape m) as [r c]. destruct (shape m') as [r' c']. cbn [fst snd] in *. subst r'.
    destruct Ha; subst a; cbn [C05_Sem.holds fst snd] in *.
    + apply St_mul with (k := c); auto.
    + destruct Hm as [Erc [M1 M2]], IH' as [E' [K1 K2]]. subst r. split; [exact E'|]. split; [apply St_mul with (k := c)|apply Co_mul with (k := c)]; auto. Qed.
Lemma sound_prod ms d : Forall sound ms -> sound (XProd ms d).
Proof. intros IH W T a H. cbn [infer repaired keep_scalar orb] in H. apply (decl_case (XProd ms d) a _ T H). clear H. intros H.
  unfold sem. cbn [erase] in *. cbn [wf] in W. apply andb_prop in W as [W Wc]. apply andb_prop in W as [Wne Wwf].
  destruct T as [_ T]. apply truthful_list in T. rewrite Forall_forall in IH, T. rewrite forallb_forall in Wwf.
  assert (General : mem a (inter (inter_all (map (infer repaired) ms)) [Un; St]) = true -> holds a (shape (Prod (map erase ms))) (den (Prod (map erase ms)))).
  { intros G. apply mem_inter in G as [G Ga]. apply holds_chain; auto.
    - destruct a; cbn in Ga; try discriminate; auto.
    - destruct ms; [discriminate|discriminate].
    - intros m Hm. apply in_map_iff in Hm as [x [<- Hx]]. apply IH; auto. + apply Wwf. apply in_map; auto. + apply (mem_inter_all a _ G). apply in_map; auto. }
  destruct (filter (fun m => negb (is_scal m)) ms) as [|y [|y' nc]] eqn:Enc; auto.
  destruct (Nat.eqb (length ms) 1) eqn:El; auto. apply Nat.eqb_eq in El.
  destruct ms as [|m [|m' ms]]; try discriminate. cbn [filter] in Enc. destruct (negb (is_scal m)) eqn:Es; [|discriminate].
  cbn [map]. apply holds_ext' with (M := den (erase m)).
  - cbn [shape map hd last fst snd]. intros i j Hi Hj. change (den (Prod [erase m])) with (chainl [erase m]). rewrite chainl_cons. change (chainl []) with (eye (R:=R)).
    rewrite mmul_eye_r by auto. reflexivity.
  - cbn [shape map hd last]. destruct (shape (erase m)) eqn:Esh. pose proof (IH m (or_introl eq_refl) (Wwf _ (or_introl eq_refl)) (T m (or_introl eq_refl)) a H) as S.
    unfold sem in S. rewrite Esh in S. exact S. Qed.

(* ---- Kronecker products ---- *)
Lemma sound_kron ms d : Forall sound ms -> sound (XKron ms d).
Proof. intros IH W T a H. cbn [infer] in H. apply (decl_case (XKron ms d) a _ T H). clear H. intros H.
  unfold sem. cbn [erase] in *. cbn [wf] in W. apply andb_prop in W as [Wwf Wpos].
  destruct T as [_ T]. apply truthful_list in T. rewrite Forall_forall in IH, T. rewrite forallb_forall in Wwf.
  cbn [shape]. rewrite kshape_kronR. change (den (Kron (map erase ms))) with (fmx (kronR (map facof (map erase ms)))).
  apply (holdsF_kronR nonneg nonneg_1 nonneg_mul a (map facof (map erase ms))).
  - apply posl_pos. exact Wpos.
  - rewrite Forall_forall. intros F HF. apply in_map_iff in HF as [e [<- He]]. apply in_map_iff in He as [x [<- Hx]].
    unfold C05_Sem2.holdsF. cbn [facof fr fc fmx]. apply IH; auto. + apply Wwf. apply in_map; auto. + apply (mem_inter_all a _ H). apply in_map; auto. Qed.

(* ---- block diagonal with multiplicities ---- *)
Lemma sound_bdiag ms d : Forall (fun mc => sound (fst mc)) ms -> sound (XBDiag ms d).
Proof. intros IH W T a H. cbn [infer] in H. apply (decl_case (XBDiag ms d) a _ T H). clear H. intros H.
  unfold sem. cbn [erase] in *. cbn [wf] in W.
  destruct T as [_ T]. apply truthful_listB in T. rewrite Forall_forall in IH, T. rewrite forallb_forall in W.
  set (l := map (fun mc : aop * nat => (erase (fst mc), snd mc)) ms) in *.
  cbn [shape]. rewrite (bshape_blocks l). change (den (BDiag l)) with (bd (blocks l)).
  apply (holds_bd nonneg a (blocks l)).
  rewrite Forall_forall. intros b Hb. unfold blocks in Hb. apply in_concat in Hb as [bl [Hbl Hb]].
  apply in_map_iff in Hbl as [mc [<- Hmc]]. assert (b = (shape (fst mc), den (fst mc))).
  { clear - Hb. induction (snd mc) as [|k IHk]; cbn [rep] in Hb; [contradiction|]. destruct Hb as [<-|Hb]; auto. }
  subst b. unfold l in Hmc. apply in_map_iff in Hmc as [xc [<- Hxc]]. cbn [fst snd]. unfold C05_Sem2.holdsB. cbn [fst snd].
  apply (IH xc Hxc).
  - apply (W (erase (fst xc), snd xc)). unfold l. apply in_map_iff. exists xc; auto.
  - apply T; auto.
  - apply (mem_inter_all a _ H). apply in_map_iff. exists xc; auto. Qed.

(* ---- transposes / adjoints ---- *)
Lemma sound_transp x d : sound x -> sound (XTransp x d).
Proof. intros IH W T a H. cbn [infer repaired keep_stiefel] in H. apply (decl_case (XTransp x d) a _ T H). clear H. intros H.
  apply mem_minus in H as [H Hn]. destruct T as [_ T]. cbn [erase wf] in W. specialize (IH W T a H). unfold sem in *. cbn [erase shape den].
  destruct (shape (erase x)) as [m n]. change (fun i j => den (erase x) j i) with (trm (den (erase x))).
  destruct a; cbn [C05_Sem.holds fst snd] in *; try (cbn in Hn; discriminate).
  - destruct IH as [-> IH]. split; auto. apply SA_tr; auto.
  - destruct IH as [-> IH]. split; auto. apply PSD_tr; auto.
  - destruct IH as [-> IH]. split; auto. apply Un_tr; auto. Qed.
Lemma sound_adj x d : sound x -> sound (XAdj x d).
Proof. intros IH W T a H. cbn [infer repaired keep_stiefel] in H. apply (decl_case (XAdj x d) a _ T H). clear H. intros H.
  apply mem_minus in H as [H Hn]. destruct T as [_ T]. cbn [erase wf] in W. specialize (IH W T a H). unfold sem in *. cbn [erase shape den].
  destruct (shape (erase x)) as [m n]. change (fun i j => conj (den (erase x) j i)) with (adm (den (erase x))).
  destruct a; cbn [C05_Sem.holds fst snd] in *; try (cbn in Hn; discriminate).
  - destruct IH as [-> IH]. split; auto. apply SA_ad; auto.
  - destruct IH as [-> IH]. split; auto. apply (PSD_ad nonneg nonneg_real); auto.
  - destruct IH as [-> IH]. split; auto. apply Un_ad; auto. Qed.

(* ---- slices with equal index sets ---- *)
Lemma sound_sliced x rs cs same d : sound x -> sound (XSliced x rs cs same d).
Proof. intros IH W T a H. cbn [infer] in H. apply (decl_case (XSliced x rs cs same d) a _ T H). clear H. intros H.
  destruct same; [|discriminate]. apply mem_minus in H as [H Hn]. destruct T as [_ [T Es]]. specialize (Es eq_refl). subst cs.
  cbn [erase wf] in W. repeat (apply andb_prop in W as [W ?]).
  specialize (IH W T a H). unfold sem in *. cbn [erase shape den].
  match goal with Hb : forallb (fun i => (i <? fst _)%nat) rs = true |- _ => rewrite forallb_forall in Hb; rename Hb into Brs end.
  assert (Hrs : forall i, (i < length rs)%nat -> (nth i rs 0 < fst (shape (erase x)))%nat).
  { intros i Hi. apply Nat.ltb_lt. apply Brs. apply nth_In; auto. }
  destruct (shape (erase x)) as [m n]. cbn [fst snd] in *.
  destruct a; cbn [C05_Sem.holds fst snd] in *; try (cbn in Hn; discriminate).
  - destruct IH as [E IH]. split; auto. apply (SA_sub m); auto.
  - destruct IH as [E IH]. split; auto. apply (PSD_sub nonneg m); auto. Qed.

(* ---- the A^H A / A A^H / A^T A patterns ---- *)
Lemma sound_gram adj lft isreal x d : sound x -> sound (XGram adj lft isreal x d).
Proof. intros IH W T a H. cbn [infer repaired keep_stiefel ata_transpose] in H. apply (decl_case (XGram adj lft isreal x d) a _ T H). clear H. intros H.
  destruct T as [_ [T Hreal]]. unfold sem.
  set (e := erase x) in *. set (w := if adj then Adj e else Transp e).
  assert (We : wf e = true). { unfold e. cbn [erase] in W. destruct lft, adj; cbn [wf forallb] in W; rewrite !andb_true_iff in W; tauto. }
  assert (Sw : shape w = (snd (shape e), fst (shape e))) by (unfold w; destruct adj; reflexivity).
  assert (Dw : adj || isreal = true -> forall i j, den w i j = adm (den e) i j).
  { intros Hc i j. unfold w, adm. destruct adj; [reflexivity|]. cbn [orb] in Hc. cbn [den]. rewrite (Hreal Hc). reflexivity. }
  (* the unitary part *)
  assert (Unitary_case : mem a (inter (if lft then inter (minus (infer repaired x) [St]) (infer repaired x) else inter (infer repaired x) (minus (infer repaired x) [St])) [Un; St]) = true ->
            holds a (shape (erase (XGram adj lft isreal x d))) (den (erase (XGram adj lft isreal x d)))).
  { intros G. apply mem_inter in G as [G Ga].
    assert (Gx : mem a (infer repaired x) = true /\ mem a [St] = false).
    { destruct lft; apply mem_inter in G as [G1 G2]; [apply mem_minus in G1|apply mem_minus in G2]; tauto. }
    destruct Gx as [Gx Gn]. assert (a = Un) by (destruct a; cbn in Ga, Gn; try discriminate; auto). subst a.
    specialize (IH We T Un Gx). unfold sem in IH. fold e in IH.
    assert (Hw : holds Un (shape w) (den w)).
    { rewrite Sw. destruct (shape e) as [m n]. cbn [C05_Sem.holds fst snd] in *. destruct IH as [-> IH]. split; auto.
      unfold w; destruct adj; cbn [den]; [apply Un_ad|apply Un_tr]; auto. }
    cbn [erase]. fold e. fold w. destruct lft; apply holds_chain; auto; try discriminate.
    - cbn [map chain_ok]. rewrite Sw. cbn [snd]. rewrite Nat.eqb_refl. reflexivity.
    - intros m [<-|[<-|[]]]; auto.
    - cbn [map chain_ok]. rewrite Sw. cbn [fst]. rewrite Nat.eqb_refl. reflexivity.
    - intros m [<-|[<-|[]]]; auto. }
  destruct ((if lft then negb (is_wrapper x) else true) && (adj || isreal || false)) eqn:Em; [|apply Unitary_case; exact H].
  apply mem_union in H as [H|H]; [apply Unitary_case; exact H|].
  assert (a = PSD) by (destruct a; cbn in H; try discriminate; auto). subst a. clear H Unitary_case.
  apply andb_prop in Em as [_ Hc]. rewrite orb_false_r in Hc. specialize (Dw Hc).
  cbn [erase]. fold e. fold w. destruct (shape e) as [m n] eqn:Es. destruct lft.
  - cbn [shape map hd last C05_Sem.holds fst snd]. rewrite Sw, Es. cbn [fst snd]. split; auto.
    destruct (PSD_AHA nonneg nonneg_1 m n (den e)) as (k & G & dd & Hd & E). exists k, G, dd. split; auto.
    intros i j Hi Hj. rewrite <- (E i j Hi Hj). change (den (Prod [w; e])) with (chainl [w; e]). rewrite !chainl_cons. change (chainl []) with (eye (R:=R)).
    rewrite Sw, Es. cbn [fst snd]. unfold mmul at 1 3. apply sum_ext; intros l Hl. rewrite mmul_eye_r by auto. rewrite Dw. reflexivity.
  - cbn [shape map hd last C05_Sem.holds fst snd]. rewrite Sw, Es. cbn [fst snd]. split; auto.
    destruct (PSD_AAH nonneg nonneg_1 m n (den e)) as (k & G & dd & Hd & E). exists k, G, dd. split; auto.
    intros i j Hi Hj. rewrite <- (E i j Hi Hj). change (den (Prod [e; w])) with (chainl [e; w]). rewrite !chainl_cons. change (chainl []) with (eye (R:=R)).
    rewrite Sw, Es. cbn [fst snd]. unfold mmul at 1 3. apply sum_ext; intros l Hl. rewrite mmul_eye_r by auto. rewrite Dw. reflexivity. Qed.

Theorem infer_sound : forall x, sound x.
Proof. apply aop_ind2; auto using sound_leaf, sound_sum, sound_prod, sound_gram, sound_kron, sound_bdiag, sound_transp, sound_adj, sound_sliced. Qed.

(* PSD in Gram form is positive semi-definite in the usual sense: Hermitian, and the quadratic form is a sum of
   non-negative multiples of squared moduli *)
Theorem PSD_quadform n M : PSDm nonneg n M -> SAm n M /\
  exists k G dd, (forall l, (l < k)%nat -> nonneg (dd l)) /\
    forall v : nat -> R, sum n (fun i => sum n (fun j => conj (v i) * M i j * v j))
                       = sum k (fun l => dd l * (conj (sum n (fun i => G l i * v i)) * sum n (fun j => G l j * v j))).
Proof. intros H. split; [apply (PSD_SA nonneg nonneg_real); auto|]. destruct H as (k & G & dd & Hd & E). exists k, G, dd. split; auto. intros v.
  rewrite (sum_ext n _ (fun i => sum n (fun j => sum k (fun l => dd l * ((conj (G l i) * conj (v i)) * (G l j * v j)))))).
  2:{ intros i Hi. apply sum_ext; intros j Hj. rewrite E by auto. unfold gram. rewrite <- sum_mul_l, <- sum_mul_r. apply sum_ext; intros l Hl. ring. }
  rewrite (sum_ext n _ (fun i => sum k (fun l => sum n (fun j => dd l * ((conj (G l i) * conj (v i)) * (G l j * v j)))))) by (intros; apply sum_swap).
  rewrite sum_swap. apply sum_ext; intros l Hl. rewrite conj_sum.
  match goal with |- sum n ?F = _ =>
    rewrite (sum_ext n F (fun i => (dd l * conj (G l i * v i)) * sum n (fun j => G l j * v j))) end.
  - rewrite sum_mul_r, sum_mul_l. ring.
  - intros i Hi. rewrite <- sum_mul_l. apply sum_ext; intros j Hj. rewrite conj_mul. ring. Qed.
End Sound.
