(* C13: Gallina transcription of cola/linalg/decompositions/arnoldi.py (arnoldi_fact, init_arnoldi) and of
   cola/linalg/inverse/gmres.py (gmres_fwd, normal-equations branch) over the scalar/vector interface of C12_Ops.v.
   One [acol] per right-hand-side column; the Arnoldi loop steps all columns together and its stopping test is an
   "any" over the columns, exactly as the vmapped code does.  Buffers: the code allocates H (m+1) x m and
   Q n x (m+1) for the REQUESTED m = max_iters and fills only min(m, n) columns; here unfilled entries read as 0
   through [nth _ _ 0].  The small dense solve of the normal equations is a parameter ([solve]): an oracle in the
   theorems, Gaussian elimination with partial pivoting ([ge_solve]) in the executed instances. *)
From Coq Require Import List Bool Arith.
From Core Require Import C12_Ops.
Import ListNotations.

Section Arnoldi.
Context {T V : Type} (o : ops T) (vo : vops T V).
Variable A : V -> V.
(* defect flags of the pinned tree (true = pinned behaviour, false = the behaviour after the recorded repairs) *)
Variable selfref : bool.     (* arnoldi_breakdown_continues: stopping test against tol*H[1,0]; remainder divided by clip(norm, tol/2) *)
Variable zero_nan : bool.    (* gmres_zero_residual_nan: start vector divided by its norm even when that is 0 *)
Variable abs_clip : bool.    (* arnoldi_absolute_clip: remainder compared with the absolute tol/2; repaired: tol/2 * ||H[:, 0]|| *)

Definition vnrm (v : V) : T := osqrt o (vdot vo v v).
Definition clip_min (x lo : T) : T := if oltb o x lo then lo else x.        (* np.clip(x, a_min=lo) *)

(* inner_loop: modified Gram-Schmidt against q_0..q_idx in this order; coefficients accumulated in reverse *)
Fixpoint mgs (qs : list V) (w : V) (hs : list T) : V * list T :=
  match qs with
  | [] => (w, hs)
  | q :: qs' => let h := vdot vo q w in mgs qs' (vsub vo w (vscale vo h q)) (h :: hs)
  end.

Record acol := mkacol {
  aqs : list V;            (* q_0 .. q_idx, in order *)
  alast : V;               (* q_idx *)
  ahs : list (list T);     (* filled columns of H, column j = [h_0j; ..; h_jj; h_(j+1)j] *)
  anorm : T                (* the loop variable `norm` *)
}.

(* init_arnoldi: rhs / norm (pinned), rhs / where(norm == 0, 1, norm) (repaired; norms are >= 0) *)
Definition start_den (nrm : T) : T := if zero_nan then nrm else if oltb o (o0 o) nrm then nrm else o1 o.
Definition init_acol (rhs : V) : acol :=
  let nrm := vnrm rhs in let q0 := vdivs vo rhs (start_den nrm) in
  {| aqs := [q0]; alast := q0; ahs := []; anorm := nrm |}.

(* xnp.norm(H[:, :, 0], axis=-1) of a list of filled columns: the norm of the first column of H, i.e. ||A q_0|| *)
Definition hs_col0_norm (hcols : list (list T)) : T :=
  osqrt o (fold_left (fun acc h => oadd o acc (omul o (oconj o h) h)) (nth 0 hcols []) (o0 o)).
(* the breakdown threshold of a step, evaluated after column idx of H has been written: tol/2 (pinned) or
   tol/2 * ||H[:, 0]|| (repaired) *)
Definition step_thr (tol : T) (hcols' : list (list T)) : T :=
  let t2 := odiv o tol (oadd o (o1 o) (o1 o)) in
  if abs_clip then t2 else omul o t2 (hs_col0_norm hcols').
(* the next basis vector: pinned  w / clip(norm, thr);  repaired  where(norm > thr, w / clip(norm, thr), 0) *)
Definition next_q (thr : T) (w : V) (nrm : T) : V :=
  if selfref then vdivs vo w (clip_min nrm thr)
  else if oltb o thr nrm then vdivs vo w (clip_min nrm thr) else vscale vo (o0 o) w.

Definition arnoldi_step (tol : T) (c : acol) : acol :=
  let '(w, hs) := mgs (aqs c) (A (alast c)) [] in
  let nrm := vnrm w in
  let hcols' := ahs c ++ [rev hs ++ [nrm]] in
  let qn := next_q (step_thr tol hcols') w nrm in
  {| aqs := aqs c ++ [qn]; alast := qn; ahs := hcols'; anorm := nrm |}.

Definition hent (c : acol) (i j : nat) : T := nth i (nth j (ahs c) []) (o0 o).     (* H[i, j] of the zero-initialised buffer *)
Definition ast := (list acol * nat)%type.
(* xnp.norm(H[:, :, 0], axis=-1): the norm of the first column of H, i.e. ||A q_0|| *)
Definition col0_norm (c : acol) : T := hs_col0_norm (ahs c).
(* is_not_max & any((norm > tol * ref) | (idx <= 0)),  ref = H[:, 1, 0].real (pinned) or ||H[:, :, 0]|| (repaired) *)
Definition stop_ref (c : acol) : T := if selfref then hent c 1 0 else col0_norm c.
Definition arnoldi_cond (tol : T) (cap : nat) (s : ast) : bool :=
  Nat.ltb (snd s) cap && existsb (fun c => oltb o (omul o tol (stop_ref c)) (anorm c) || Nat.leb (snd s) 0) (fst s).
Definition arnoldi_body (tol : T) (s : ast) : ast := (map (arnoldi_step tol) (fst s), S (snd s)).
Fixpoint arnoldi_loop (tol : T) (cap fuel : nat) (s : ast) : ast :=
  match fuel with
  | 0 => s
  | S f => if arnoldi_cond tol cap s then arnoldi_loop tol cap f (arnoldi_body tol s) else s
  end.
(* arnoldi_fact: max_iters = min(max_iters, n) caps the loop *)
Definition arnoldi_fact (tol : T) (m n : nat) (rhs : list V) : ast :=
  let cap := Nat.min m n in arnoldi_loop tol cap cap (map init_acol rhs, 0).
End Arnoldi.

Section GMRES.
Context {T V : Type} (o : ops T) (vo : vops T V).
Variable A : V -> V.
Variable solve : list (list T) -> list T -> list T.      (* xnp.solve on one column's m x m system *)
Variable square_H : bool.       (* defect flag gmres_square_H: true = the pinned tree (last Hessenberg row dropped) *)
Variable pad_buf : bool.        (* arnoldi_padding: true = buffers sized by the requested max_iters; false = by min(max_iters, n) *)
Variables (selfref zero_nan abs_clip : bool).

Definition tabulate {X} (k : nat) (f : nat -> X) : list X := map f (seq 0 k).
Definition tsum (k : nat) (f : nat -> T) : T := fold_left (fun acc i => oadd o acc (f i)) (seq 0 k) (o0 o).

(* y of gmres_fwd for one column, from the H buffer [h i j], beta = ||r0||, buffer size m.
   [mfac] is the relative cut-off of the padded-column mask: 10 * tol in the code ("zero_thresh = 10 * tol * overall_max") *)
Definition gmres_y (mfac : T) (m : nat) (h : nat -> nat -> T) (beta : T) : list T :=
  let rows := if square_H then m else S m in
  (* pinned tree: largest_vals = max |H| over each ROW of the square H; repaired: over each column of the (m+1) x m
     matrix (the mask must be indexed like y) *)
  let largest := tabulate m (fun i => lmax o (if square_H then tabulate m (fun j => oabs o (h i j))
                                                else tabulate rows (fun k => oabs o (h k i)))) in
  let overall := lmax o largest in
  let thresh := omul o mfac overall in
  (* largest_vals < zero_thresh (pinned), <= (repaired, so that an all-zero H is masked) *)
  let pad := map (fun l => if zero_nan then oltb o l thresh else negb (oltb o thresh l)) largest in
  let G := tabulate m (fun i => tabulate m (fun j =>
             let g := tsum rows (fun k => omul o (oconj o (h k i)) (h k j)) in
             if Nat.eqb i j && nth i pad false then oadd o g (o1 o) else g)) in
  let rhs := tabulate m (fun i => oconj o (h 0 i)) in
  let y := solve G rhs in
  map (fun py : bool * T => if fst py then o0 o else omul o (snd py) beta) (combine pad y).

(* Q @ y, then x0 + pred; Q[:, :, :-1] keeps the first m basis columns, unfilled columns are zero *)
Definition lincomb (qs : list V) (y : list T) (x0 : V) : V :=
  match combine y qs with
  | [] => x0
  | (y0, q0) :: rest => vadd vo x0 (fold_left (fun acc yq => vadd vo acc (vscale vo (fst yq) (snd yq))) rest (vscale vo y0 q0))
  end.

Definition gmres_col (mfac : T) (m : nat) (x0 r0 : V) (c : acol (T:=T) (V:=V)) : V :=
  let y := gmres_y mfac m (hent o c) (vnrm o vo r0) in
  lincomb (firstn m (aqs c)) y x0.

Record gres := mkgres { gsol : list V; gsteps : nat }.     (* gsteps = number of Arnoldi steps = products with A minus one *)
Definition gmres_fwd (tol mfac : T) (m n : nat) (bs x0s : list V) : gres :=
  let rs := map (fun bx => vsub vo (fst bx) (A (snd bx))) (combine bs x0s) in      (* res = rhs - A @ x0 *)
  let s := arnoldi_fact o vo A selfref zero_nan abs_clip tol m n rs in
  let mb := if pad_buf then m else Nat.min m n in                                    (* size of the H and Q buffers *)
  {| gsol := map (fun t => gmres_col mfac mb (fst (fst t)) (snd (fst t)) (snd t)) (combine (combine x0s rs) (fst s));
     gsteps := snd s |}.
End GMRES.

(* ---- Gaussian elimination with partial pivoting (execution instance of [solve]) ---- *)
Section GE.
Context {T : Type} (o : ops T).
Definition row := (list T * T)%type.
(* index of the row whose leading coefficient has the largest modulus *)
Fixpoint argmax (rows : list row) (i best : nat) (bv : T) : nat :=
  match rows with
  | [] => best
  | (c, _) :: t => let a := oabs o (hd (o0 o) c) in if oltb o bv a then argmax t (S i) i a else argmax t (S i) best bv
  end.
Fixpoint remove_nth {X} (k : nat) (l : list X) : list X :=
  match l, k with [], _ => [] | _ :: t, 0 => t | x :: t, S k' => x :: remove_nth k' t end.
Definition elim (p : row) (r : row) : row :=
  let piv := hd (o0 o) (fst p) in
  let f := odiv o (hd (o0 o) (fst r)) piv in
  (map (fun ab => osub o (fst ab) (omul o f (snd ab))) (combine (tl (fst r)) (tl (fst p))), osub o (snd r) (omul o f (snd p))).
Fixpoint ge (fuel : nat) (rows : list row) : list T :=
  match fuel with
  | 0 => []
  | S f =>
    match rows with
    | [] => []
    | r0 :: _ =>
      let k := argmax rows 0 0 (oopp o (o1 o)) in
      let p := nth k rows r0 in
      let rest := map (elim p) (remove_nth k rows) in
      let xs := ge f rest in
      let s := fold_left (fun acc ab => oadd o acc (omul o (fst ab) (snd ab))) (combine (tl (fst p)) xs) (o0 o) in
      odiv o (osub o (snd p) s) (hd (o0 o) (fst p)) :: xs
    end
  end.
Definition ge_solve (G : list (list T)) (b : list T) : list T := ge (length G) (combine G b).
End GE.
