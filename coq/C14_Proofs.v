(* C14 - theorems about the Lanczos model of C14_Model.v over an abstract field with involution and an abstract
   inner-product space (weak scalar laws only: no vector equality, no functional extensionality, no axioms).
   Vector identities are stated weakly:  x == y  means  forall u, <u,x> = <u,y>. *)
From Coq Require Import List Arith Bool Lia Ring Field.
From Core Require Import C14_Model.
Import ListNotations.

(* ---------- lists ---------- *)
Lemma upd_length {T} (l : list T) k x : length (upd l k x) = length l.
Proof. revert k; induction l as [|h t IH]; intros [|k]; simpl; auto. Qed.
Lemma nth_upd_eq {T} (l : list T) k x d : k < length l -> nth k (upd l k x) d = x.
Proof. revert k; induction l as [|h t IH]; intros [|k] H; simpl in *; try lia; auto. apply IH; lia. Qed.
Lemma nth_upd_neq {T} (l : list T) k j x d : k <> j -> nth j (upd l k x) d = nth j l d.
Proof. revert k j; induction l as [|h t IH]; intros [|k] [|j] H; simpl; auto; try lia. Qed.
Lemma nth_inner {T} (l : list T) a d : S (S a) < length l -> nth a (inner l) d = nth (S a) l d.
Proof. unfold inner. destruct l as [|h t]; simpl; [lia|]. intros H.
  revert a H. induction t as [|x t IH]; intros a H; simpl in *; [lia|].
  destruct t as [|y t']; [simpl in H; lia|]. destruct a as [|a]; [reflexivity|]. apply IH. simpl in *. lia. Qed.
Lemma inner_length {T} (l : list T) : length (inner l) = length l - 2.
Proof. unfold inner. destruct l as [|h t]; simpl; [reflexivity|].
  induction t as [|x t IH]; simpl; [reflexivity|]. destruct t; simpl in *; [reflexivity|]. rewrite IH. lia. Qed.
Lemma nth_firstn {T} (l : list T) k a d : a < k -> nth a (firstn k l) d = nth a l d.
Proof. revert k a; induction l as [|h t IH]; intros [|k] [|a] H; simpl; auto; try lia. apply IH; lia. Qed.

(* ---------- laws ---------- *)
Record klaws {C V : Type} (o : kops C V) (A : V -> V) (nonneg : C -> Prop) : Prop := mk_klaws {
  k_field : field_theory o.(c0) o.(c1) o.(cadd) o.(cmul) o.(csub) o.(copp) o.(cdiv) o.(cinv) eq;
  k_conj_add : forall a b, o.(cconj) (o.(cadd) a b) = o.(cadd) (o.(cconj) a) (o.(cconj) b);
  k_conj_mul : forall a b, o.(cconj) (o.(cmul) a b) = o.(cmul) (o.(cconj) a) (o.(cconj) b);
  k_conj_opp : forall a, o.(cconj) (o.(copp) a) = o.(copp) (o.(cconj) a);
  k_conj_invol : forall a, o.(cconj) (o.(cconj) a) = a;
  k_conj_0 : o.(cconj) o.(c0) = o.(c0);
  k_conj_1 : o.(cconj) o.(c1) = o.(c1);
  k_dot_add_r : forall u v w, o.(vdot) u (o.(vadd) v w) = o.(cadd) (o.(vdot) u v) (o.(vdot) u w);
  k_dot_sub_r : forall u v w, o.(vdot) u (o.(vsub) v w) = o.(csub) (o.(vdot) u v) (o.(vdot) u w);
  k_dot_scale_r : forall u a v, o.(vdot) u (o.(vscale) a v) = o.(cmul) a (o.(vdot) u v);
  k_dot_div_r : forall u v a, a <> o.(c0) -> o.(vdot) u (o.(vdiv) v a) = o.(cdiv) (o.(vdot) u v) a;
  k_dot_zero_r : forall u, o.(vdot) u o.(vzero) = o.(c0);
  k_dot_sym : forall u v, o.(vdot) u v = o.(cconj) (o.(vdot) v u);
  k_A_sa : forall u v, o.(vdot) u (A v) = o.(vdot) (A u) v;                (* A is Hermitian *)
  k_nrm_sq : forall v, o.(cmul) (o.(vnrm) v) (o.(vnrm) v) = o.(vdot) v v;
  k_nrm_real : forall v, o.(cconj) (o.(vnrm) v) = o.(vnrm) v;
  k_nrm_one : forall v, o.(vdot) v v = o.(c1) -> o.(vnrm) v = o.(c1);
  k_nrm_zero : forall v, o.(vnrm) v = o.(c0) -> forall u, o.(vdot) u v = o.(c0);   (* definiteness *)
  k_nrm_nonneg : forall v, nonneg (o.(vnrm) v);
  k_nonneg_mul : forall a b, nonneg a -> nonneg b -> nonneg (o.(cmul) a b);
  k_hyp_nonneg : forall a b, nonneg (o.(chyp) a b);
  k_gt_nz : forall x y, o.(cgtb) x y = true -> nonneg y -> x <> o.(c0) }.    (* x.real > y.real >= 0 -> x <> 0 *)

Section Proofs.
Context {C V : Type} (o : kops C V) (A : V -> V) (nonneg : C -> Prop) (L : klaws o A nonneg).
Declare Scope K_scope. Delimit Scope K_scope with K.
Local Notation "0" := (o.(c0)) : K_scope. Local Notation "1" := (o.(c1)) : K_scope.
Local Notation "x + y" := (o.(cadd) x y) : K_scope. Local Notation "x * y" := (o.(cmul) x y) : K_scope.
Local Notation "x - y" := (o.(csub) x y) : K_scope. Local Notation "x / y" := (o.(cdiv) x y) : K_scope.
Local Notation "- x" := (o.(copp) x) : K_scope.
Local Open Scope K_scope.
Local Notation dot := (o.(vdot)). Local Notation nrm := (o.(vnrm)). Local Notation conj := (o.(cconj)).
Add Field KF : (k_field _ _ _ L).

Lemma one_neq_zero : 1 <> 0. Proof. exact (F_1_neq_0 (k_field _ _ _ L)). Qed.
Lemma conj_sub a b : conj (a - b) = conj a - conj b.
Proof. replace (a - b) with (a + - b) by ring. rewrite (k_conj_add _ _ _ L), (k_conj_opp _ _ _ L). ring. Qed.
Lemma conj_div a b : b <> 0 -> conj (a / b) = conj a / conj b.
Proof. intros Hb.
  assert (Hcb : conj b <> 0). { intros E. apply Hb. rewrite <- (k_conj_invol _ _ _ L b), E. apply (k_conj_0 _ _ _ L). }
  assert (E : conj (a / b) * conj b = conj a). { rewrite <- (k_conj_mul _ _ _ L). f_equal. field. exact Hb. }
  rewrite <- E. field. exact Hcb. Qed.
Lemma dot_add_l u v w : dot (o.(vadd) u v) w = dot u w + dot v w.
Proof. rewrite (k_dot_sym _ _ _ L), (k_dot_add_r _ _ _ L), (k_conj_add _ _ _ L), <- !(k_dot_sym _ _ _ L). reflexivity. Qed.
Lemma dot_zero_l u : dot o.(vzero) u = 0.
Proof. rewrite (k_dot_sym _ _ _ L), (k_dot_zero_r _ _ _ L). apply (k_conj_0 _ _ _ L). Qed.
Lemma dot_flip0 u v : dot u v = 0 -> dot v u = 0.
Proof. intros H. rewrite (k_dot_sym _ _ _ L), H. apply (k_conj_0 _ _ _ L). Qed.
Lemma dot_div_l u v a : a <> 0 -> conj a = a -> dot (o.(vdiv) v a) u = dot v u / a.
Proof. intros Ha Hr. rewrite (k_dot_sym _ _ _ L), (k_dot_div_r _ _ _ L) by exact Ha.
  rewrite conj_div by exact Ha. rewrite <- (k_dot_sym _ _ _ L), Hr. reflexivity. Qed.
Lemma nrm_nz_dot v : nrm v <> 0 -> dot v v <> 0.
Proof. intros H E. rewrite <- (k_nrm_sq _ _ _ L) in E. apply H.
  replace (nrm v) with ((nrm v * nrm v) / nrm v) by (field; exact H). rewrite E. field. exact H. Qed.

(* ---------- the Gram-Schmidt pass is the identity on a vector orthogonal to every buffer column ---------- *)
Lemma dot_vsum_zero u l acc : (forall x, In x l -> dot u x = 0) -> dot u (fold_left o.(vadd) l acc) = dot u acc.
Proof. revert acc; induction l as [|a l IH]; simpl; intros acc H; [reflexivity|].
  rewrite IH by auto. rewrite (k_dot_add_r _ _ _ L), (H a) by auto. ring. Qed.
Lemma gram_id B w u : (forall q, In q B -> dot q w = 0) -> dot u (gram o B w) = dot u w.
Proof. intros H. unfold gram, vsum. rewrite (k_dot_sub_r _ _ _ L), dot_vsum_zero.
  - rewrite (k_dot_zero_r _ _ _ L). ring.
  - intros x Hx. apply in_map_iff in Hx as (q & <- & Hq). rewrite (k_dot_scale_r _ _ _ L), (H q Hq). ring. Qed.

Lemma lbody_false i (s : @lst C V) : lbody o A false i s =
  let V1 := upd (lV s) i (o.(vdiv) (col o (lV s) i) (nrm (col o (lV s) i))) in
  let q := col o V1 i in
  let new0 := A q in
  let dg := upd (ldiag s) (i - 1) (dot new0 q) in
  let new1 := o.(vsub) new0 (o.(vadd) (o.(vscale) (ent o dg (i - 1)) q) (o.(vscale) (ent o (lsub s) (i - 1)) (col o V1 (i - 1)))) in
  let new3 := gram o V1 (gram o V1 new1) in
  let V6 := upd V1 (i + 1) new3 in
  mk_lst V6 dg (upd (lsub s) i (nrm (col o V6 (i + 1)))).
Proof. reflexivity. Qed.

(* ---------- the loop invariant, before the body runs at index i ---------- *)
Record Inv (m i : nat) (s : @lst C V) : Prop := mk_Inv {
  I_lenV : length (lV s) = (m + 2)%nat;
  I_lend : length (ldiag s) = m;
  I_lens : length (lsub s) = (m + 1)%nat;
  I_zero : forall k, k = 0%nat \/ i < k -> col o (lV s) k = o.(vzero);
  I_on : forall a b, 1 <= a < i -> 1 <= b < i -> dot (col o (lV s) a) (col o (lV s) b) = if a =? b then 1 else 0;
  I_po : forall a, 1 <= a < i -> dot (col o (lV s) a) (col o (lV s) i) = 0;
  I_sub0 : ent o (lsub s) 0 = 0;
  I_sub : 2 <= i -> ent o (lsub s) (i - 1) = nrm (col o (lV s) i);
  I_subn : forall a, 1 <= a < i -> exists w, ent o (lsub s) a = nrm w;
  I_subnz : forall a, 1 <= a -> a + 1 < i -> ent o (lsub s) a <> 0;
  I_dreal : forall a, 1 <= a < i -> conj (ent o (ldiag s) (a - 1)) = ent o (ldiag s) (a - 1);
  I_rel1 : forall a, 1 <= a -> a + 1 < i -> forall u,
     dot u (A (col o (lV s) a)) = ent o (ldiag s) (a - 1) * dot u (col o (lV s) a)
        + ent o (lsub s) (a - 1) * dot u (col o (lV s) (a - 1)) + ent o (lsub s) a * dot u (col o (lV s) (a + 1));
  I_rel2 : 2 <= i -> forall u,
     dot u (A (col o (lV s) (i - 1))) = ent o (ldiag s) (i - 2) * dot u (col o (lV s) (i - 1))
        + ent o (lsub s) (i - 2) * dot u (col o (lV s) (i - 2)) + dot u (col o (lV s) i) }.

Lemma In_col (B : list V) q : In q B -> exists k, q = col o B k.
Proof. intros H. destruct (In_nth _ _ o.(vzero) H) as (k & _ & E). exists k. unfold col. auto. Qed.

Theorem step_inv m i s : 1 <= i <= m -> Inv m i s -> nrm (col o (lV s) i) <> 0 -> Inv m (S i) (lbody o A false i s).
Proof.
  intros Hi [lenV lend lens Iz Ion Ipo Is0 Isub Isubn Isnz Idr Ir1 Ir2] Hn.
  rewrite lbody_false.
  set (w := col o (lV s) i) in *. set (be := nrm w) in *.
  set (V1 := upd (lV s) i (o.(vdiv) w be)).
  assert (Eq : col o V1 i = o.(vdiv) w be) by (unfold col, V1; apply nth_upd_eq; lia).
  assert (Eo : forall k, k <> i -> col o V1 k = col o (lV s) k) by (intros k Hk; unfold col, V1; apply nth_upd_neq; lia).
  cbv zeta. rewrite Eq. set (q := o.(vdiv) w be) in *.
  assert (be_real : conj be = be) by apply (k_nrm_real _ _ _ L).
  assert (q_r : forall u, dot u q = dot u w / be) by (intros u; apply (k_dot_div_r _ _ _ L); exact Hn).
  assert (q_l : forall u, dot q u = dot w u / be) by (intros u; apply dot_div_l; auto).
  assert (ww : dot w w = be * be) by (symmetry; apply (k_nrm_sq _ _ _ L)).
  assert (qq : dot q q = 1). { rewrite q_l, (k_dot_sym _ _ _ L), q_l, conj_div, ww, (k_conj_mul _ _ _ L), be_real by exact Hn. field. exact Hn. }
  assert (q_old : forall a, 1 <= a < i -> dot (col o (lV s) a) q = 0). { intros a Ha. rewrite q_r, Ipo by exact Ha. field. exact Hn. }
  assert (q_old' : forall a, 1 <= a < i -> dot q (col o (lV s) a) = 0) by (intros; apply dot_flip0; auto).
  set (al := dot (A q) q).
  assert (Edg : ent o (upd (ldiag s) (i - 1) al) (i - 1) = al) by (unfold ent; apply nth_upd_eq; lia).
  assert (Edo : forall k, k <> (i - 1)%nat -> ent o (upd (ldiag s) (i - 1) al) k = ent o (ldiag s) k) by (intros; unfold ent; apply nth_upd_neq; lia).
  rewrite Edg.
  assert (Ep : col o V1 (i - 1) = col o (lV s) (i - 1)) by (apply Eo; lia). rewrite Ep.
  set (sb := ent o (lsub s) (i - 1)) in *. set (qp := col o (lV s) (i - 1)) in *.
  set (new1 := o.(vsub) (A q) (o.(vadd) (o.(vscale) al q) (o.(vscale) sb qp))).
  assert (n1 : forall u, dot u new1 = dot u (A q) - (al * dot u q + sb * dot u qp)).
  { intros u. unfold new1. rewrite (k_dot_sub_r _ _ _ L), (k_dot_add_r _ _ _ L), !(k_dot_scale_r _ _ _ L). reflexivity. }
  assert (al_real : conj al = al). { unfold al. rewrite <- (k_dot_sym _ _ _ L). apply (k_A_sa _ _ _ L). }
  (* sb qp : at i = 1, qp is the zero column and sb = 0 *)
  assert (Hsb : (2 <= i)%nat -> sb = be) by (intros; apply Isub; auto).
  assert (Hqp0 : i = 1%nat -> forall u, dot u qp = 0).
  { intros -> u. unfold qp. simpl. rewrite Iz by (left; reflexivity). apply (k_dot_zero_r _ _ _ L). }
  assert (q_qp : (2 <= i)%nat -> dot q qp = 0) by (intros; unfold qp; apply q_old'; lia).
  (* new1 is orthogonal to every column of the buffer V1 *)
  assert (orth1 : forall k, dot (col o V1 k) new1 = 0).
  { intros k. destruct (Nat.eq_dec k i) as [->|Hki].
    - rewrite Eq, n1, qq. fold al. rewrite (k_A_sa _ _ _ L). fold al.
      destruct (Nat.eq_dec i 1) as [E1|E1].
      + rewrite (Hqp0 E1). ring.
      + rewrite q_qp by lia. ring.
    - rewrite Eo by exact Hki. destruct (Nat.eq_dec k 0) as [->|Hk0]; [rewrite Iz by (left; reflexivity); apply dot_zero_l|].
      destruct (Nat.lt_ge_cases i k) as [Hlt|Hge]; [rewrite Iz by (right; exact Hlt); apply dot_zero_l|].
      assert (Hk : 1 <= k < i) by lia.
      rewrite n1, (q_old k Hk).
      (* <col k, A q> = <A col k, q> *)
      rewrite (k_A_sa _ _ _ L), (k_dot_sym _ _ _ L (A (col o (lV s) k)) q).
      destruct (Nat.eq_dec (k + 1) i) as [Ek|Ek].
      + (* k = i - 1 : the previous column *)
        assert (Ek' : k = (i - 1)%nat) by lia. subst k. fold qp.
        rewrite (Ir2 ltac:(lia) q). fold qp. fold w.
        rewrite q_qp by lia.
        assert (E2 : dot q (col o (lV s) (i - 2)) = 0).
        { destruct (Nat.eq_dec i 2) as [->|]; [simpl; rewrite Iz by (left; reflexivity); apply (k_dot_zero_r _ _ _ L)|apply q_old'; lia]. }
        rewrite E2, q_l, ww.
        assert (E3 : dot qp qp = 1). { unfold qp. rewrite Ion by lia. rewrite Nat.eqb_refl. reflexivity. }
        rewrite E3, Hsb by lia.
        replace (ent o (ldiag s) (i - 2) * 0 + ent o (lsub s) (i - 2) * 0 + be * be / be) with be by (field; exact Hn).
        rewrite be_real. ring.
      + (* k < i - 1 : A col k is a combination of columns k-1, k, k+1 < i *)
        rewrite (Ir1 k ltac:(lia) ltac:(lia) q).
        rewrite (q_old' k) by lia. rewrite (q_old' (k + 1)%nat) by lia.
        assert (E2 : dot q (col o (lV s) (k - 1)) = 0).
        { destruct (Nat.eq_dec k 1) as [->|]; [simpl; rewrite Iz by (left; reflexivity); apply (k_dot_zero_r _ _ _ L)|apply q_old'; lia]. }
        rewrite E2.
        assert (E3 : dot (col o (lV s) k) qp = 0). { unfold qp. rewrite Ion by lia. destruct (Nat.eqb_spec k (i - 1)); [lia|reflexivity]. }
        rewrite E3.
        replace (ent o (ldiag s) (k - 1) * 0 + ent o (lsub s) (k - 1) * 0 + ent o (lsub s) k * 0) with 0 by ring.
        rewrite (k_conj_0 _ _ _ L). ring. }
  assert (orthB : forall x, In x V1 -> dot x new1 = 0) by (intros x Hx; destruct (In_col V1 x Hx) as (k & ->); apply orth1).
  set (new2 := gram o V1 new1).
  assert (n2 : forall u, dot u new2 = dot u new1) by (intros u; apply gram_id; exact orthB).
  assert (orthB2 : forall x, In x V1 -> dot x new2 = 0) by (intros x Hx; rewrite n2; auto).
  set (new3 := gram o V1 new2).
  assert (n3 : forall u, dot u new3 = dot u new1) by (intros u; unfold new3; rewrite gram_id by exact orthB2; apply n2).
  assert (lenV1 : length V1 = (m + 2)%nat) by (unfold V1; rewrite upd_length; exact lenV).
  set (V6 := upd V1 (i + 1) new3).
  assert (E6 : col o V6 (i + 1) = new3) by (unfold col, V6; apply nth_upd_eq; lia).
  assert (E6o : forall k, k <> (i + 1)%nat -> col o V6 k = col o V1 k) by (intros; unfold col, V6; apply nth_upd_neq; lia).
  assert (E6i : col o V6 i = q) by (rewrite E6o by lia; exact Eq).
  assert (E6old : forall k, k <> i -> k <> (i + 1)%nat -> col o V6 k = col o (lV s) k) by (intros; rewrite E6o, Eo by lia; reflexivity).
  rewrite E6.
  assert (Es : ent o (upd (lsub s) i (nrm new3)) i = nrm new3) by (unfold ent; apply nth_upd_eq; lia).
  assert (Eso : forall k, k <> i -> ent o (upd (lsub s) i (nrm new3)) k = ent o (lsub s) k) by (intros; unfold ent; apply nth_upd_neq; lia).
  constructor; cbn [lV ldiag lsub].
  - unfold V6. rewrite upd_length. exact lenV1.
  - rewrite upd_length. exact lend.
  - rewrite upd_length. exact lens.
  - intros k [->|Hk].
    + rewrite E6old by lia. apply Iz. left; reflexivity.
    + rewrite E6old by lia. apply Iz. right; lia.
  - intros a b Ha Hb.
    destruct (Nat.eq_dec a i) as [->|Hai], (Nat.eq_dec b i) as [->|Hbi].
    + rewrite E6i, Nat.eqb_refl. exact qq.
    + rewrite E6i, E6old by lia. rewrite q_old' by lia. destruct (Nat.eqb_spec i b); [lia|reflexivity].
    + rewrite E6i, E6old by lia. rewrite q_old by lia. destruct (Nat.eqb_spec a i); [lia|reflexivity].
    + rewrite !E6old by lia. apply Ion; lia.
  - intros a Ha. replace (S i) with (i + 1)%nat by lia. rewrite E6, n3.
    destruct (Nat.eq_dec a i) as [->|Hai].
    + rewrite E6i. rewrite <- Eq. apply orth1.
    + rewrite E6old by lia. rewrite <- (Eo a) by lia. apply orth1.
  - rewrite Eso by lia. exact Is0.
  - intros _. replace (S i - 1)%nat with i by lia. replace (S i) with (i + 1)%nat by lia. rewrite Es, E6. reflexivity.
  - intros a Ha. destruct (Nat.eq_dec a i) as [->|Hai]; [rewrite Es; eexists; reflexivity|].
    rewrite Eso by lia. apply Isubn. lia.
  - intros a Ha1 Ha2. rewrite Eso by lia. destruct (Nat.eq_dec (a + 1) i) as [Ea|Ea].
    + assert (Ea' : a = (i - 1)%nat) by lia. subst a. fold sb. rewrite Hsb by lia. exact Hn.
    + apply Isnz; lia.
  - intros a Ha. destruct (Nat.eq_dec a i) as [->|Hai]; [rewrite Edg; exact al_real|].
    rewrite Edo by lia. apply Idr. lia.
  - intros a Ha1 Ha2 u. rewrite (Eso (a - 1)%nat) by lia. rewrite (E6old a), (E6old (a - 1)%nat) by lia.
    rewrite Edo by lia.
    destruct (Nat.eq_dec (a + 1) i) as [Ea|Ea].
    + (* old last relation, the pending vector is now normalised *)
      rewrite Ea, E6i. rewrite Eso by lia.
      assert (Ea' : a = (i - 1)%nat) by lia. subst a.
      replace (i - 1 - 1)%nat with (i - 2)%nat by lia. fold qp.
      rewrite (Ir2 ltac:(lia) u). fold sb. rewrite Hsb by lia. rewrite q_r. field. exact Hn.
    + rewrite (E6old (a + 1)%nat) by lia. rewrite Eso by lia. apply Ir1; lia.
  - intros _ u. replace (S i - 1)%nat with i by lia. replace (S i - 2)%nat with (i - 1)%nat by lia. replace (S i) with (i + 1)%nat by lia.
    rewrite E6, E6i, Edg, n3, n1. rewrite (E6old (i - 1)%nat) by lia. fold qp.
    assert (Esb : ent o (upd (lsub s) i (nrm new3)) (i - 1) = sb) by (rewrite Eso by lia; reflexivity).
    rewrite Esb. ring.
Qed.

(* ---------- initial state ---------- *)
Lemma nth_repeat' {T} (x : T) n k : nth k (repeat x n) x = x.
Proof. revert k; induction n; intros [|k]; simpl; auto. Qed.

Lemma init_inv m v : (1 <= m)%nat -> Inv m 1 (linit o m v).
Proof. intros Hm. unfold linit. constructor; cbn [lV ldiag lsub]; try (intros; lia).
  - rewrite upd_length, repeat_length. reflexivity.
  - apply repeat_length.
  - apply repeat_length.
  - intros k Hk. unfold col. rewrite nth_upd_neq by lia. apply nth_repeat'.
  - unfold ent. apply nth_repeat'.
Qed.
Lemma init_col1 m v : (1 <= m)%nat -> col o (lV (linit o m v)) 1 = o.(vdiv) v (nrm v).
Proof. intros Hm. unfold linit, col; cbn [lV]. apply nth_upd_eq. rewrite repeat_length. lia. Qed.
Lemma unit_div v : nrm v <> 0 -> dot (o.(vdiv) v (nrm v)) (o.(vdiv) v (nrm v)) = 1.
Proof. intros Hn. assert (be_real : conj (nrm v) = nrm v) by apply (k_nrm_real _ _ _ L).
  rewrite dot_div_l, (k_dot_div_r _ _ _ L), <- (k_nrm_sq _ _ _ L) by auto. field. exact Hn. Qed.

(* ---------- the loop ---------- *)
Variable tol : C.
Hypothesis tol_nonneg : nonneg tol.
Variable rfix : bool.      (* pinned (false) or repaired (true) stopping test: everything below holds for both *)

Lemma lloop_ge al fuel m i (ss : list (@lst C V)) : (i <= fst (lloop o A al rfix fuel tol m i ss))%nat.
Proof. revert i ss; induction fuel as [|f IH]; intros i ss; simpl; [lia|].
  destruct (lcond o rfix tol m i ss); simpl; [|lia]. specialize (IH (S i) (map (lbody o A al i) ss)). lia. Qed.
Lemma lloop_le al fuel m i (ss : list (@lst C V)) : (i <= m + 1 -> fst (lloop o A al rfix fuel tol m i ss) <= m + 1)%nat.
Proof. revert i ss; induction fuel as [|f IH]; intros i ss Hi; simpl; [lia|].
  destruct (lcond o rfix tol m i ss) eqn:E; simpl; [|lia]. apply IH.
  unfold lcond in E. apply andb_prop in E as [E _]. apply Nat.leb_le in E. lia. Qed.

Lemma cond_nz m i s : (1 <= i)%nat -> Inv m i s -> (i = 1%nat -> nrm (col o (lV s) 1) <> 0) ->
  lcond o rfix tol m i [s] = true -> (i <= m)%nat /\ nrm (col o (lV s) i) <> 0.
Proof. intros Hi I H1 Hc. unfold lcond in Hc. apply andb_prop in Hc as [Hm Hl]. apply Nat.leb_le in Hm. split; [exact Hm|].
  destruct (Nat.eq_dec i 1) as [->|Hne]; [auto|].
  cbn [existsb] in Hl. rewrite orb_false_r in Hl. unfold is_large in Hl.
  destruct (Nat.leb_spec i 1); [lia|]. rewrite orb_false_r in Hl.
  rewrite <- (I_sub _ _ _ I) by lia.
  apply (k_gt_nz _ _ _ L _ _ Hl). apply (k_nonneg_mul _ _ _ L); [exact tol_nonneg|].
  unfold lref. destruct rfix; [apply (k_hyp_nonneg _ _ _ L)|].
  destruct (I_subn _ _ _ I 1%nat ltac:(lia)) as (w & ->). apply (k_nrm_nonneg _ _ _ L). Qed.

Section Run.
Variable v : V.
Hypothesis v_nz : nrm v <> 0.
Definition First (s : @lst C V) : Prop := forall u, dot u (col o (lV s) 1) = dot u v / nrm v.

Lemma first_step m i s : (1 <= i <= m)%nat -> Inv m i s -> First s -> (i = 1%nat -> nrm (col o (lV s) 1) = 1) ->
  First (lbody o A false i s).
Proof. intros Hi I F H1 u. rewrite lbody_false. cbv zeta. cbn [lV]. unfold col.
  rewrite nth_upd_neq by lia.
  destruct (Nat.eq_dec i 1) as [->|Hne].
  - rewrite nth_upd_eq by (rewrite (I_lenV _ _ _ I); lia). fold (col o (lV s) 1). rewrite (H1 eq_refl).
    rewrite (k_dot_div_r _ _ _ L) by exact one_neq_zero. rewrite F. field. repeat split; first [exact v_nz | exact one_neq_zero].
  - rewrite nth_upd_neq by lia. apply F. Qed.

Lemma lloop_inv m fuel : forall i s, (1 <= i)%nat -> Inv m i s -> First s -> (i = 1%nat -> nrm (col o (lV s) 1) = 1) ->
  exists s', snd (lloop o A false rfix fuel tol m i [s]) = [s'] /\ Inv m (fst (lloop o A false rfix fuel tol m i [s])) s' /\ First s'.
Proof. induction fuel as [|f IH]; intros i s Hi I F H1; simpl; [exists s; auto|].
  destruct (lcond o rfix tol m i [s]) eqn:E; [|exists s; auto].
  assert (H1' : i = 1%nat -> nrm (col o (lV s) 1) <> 0) by (intros e; rewrite (H1 e); exact one_neq_zero).
  destruct (cond_nz m i s Hi I H1' E) as [Hm Hn].
  cbn [map]. apply IH; [lia|apply step_inv; auto|apply (first_step m); auto|lia]. Qed.

Definition Qc (r : @lres C V) (a : nat) : V := nth a (rQ r) o.(vzero).

Theorem lanczos1_spec n max_iters : (1 <= n)%nat -> (1 <= max_iters)%nat ->
  let r := lanczos1 o A false rfix n v max_iters tol in
  let k := length (rQ r) in
  exists w : V,
    (1 <= k <= Nat.min max_iters n)%nat /\ length (rdiag r) = k /\ length (roff r) = (k - 1)%nat /\
    (forall u, dot u (Qc r 0) = dot u v / nrm v) /\
    (forall a b, (a < k)%nat -> (b < k)%nat -> dot (Qc r a) (Qc r b) = if a =? b then 1 else 0) /\
    (forall a, (a < k)%nat -> dot (Qc r a) w = 0) /\
    (forall b, (b < k)%nat -> forall u,
        dot u (A (Qc r b)) = ent o (rdiag r) b * dot u (Qc r b)
          + (if b =? 0 then 0 else ent o (roff r) (b - 1) * dot u (Qc r (b - 1)))
          + (if S b <? k then ent o (roff r) b * dot u (Qc r (S b)) else dot u w)) /\
    (forall a, (a < k)%nat -> conj (ent o (rdiag r) a) = ent o (rdiag r) a) /\
    (forall a, (S a < k)%nat -> exists x, ent o (roff r) a = nrm x) /\
    (forall a, (S a < k)%nat -> ent o (roff r) a <> 0).
Proof.
  intros Hn Hmi. set (m := Nat.min max_iters n). assert (Hm : (1 <= m)%nat) by (unfold m; lia).
  unfold lanczos1, lanczos_batch, lfact. fold m. cbn [map].
  assert (I0 := init_inv m v Hm).
  assert (F0 : First (linit o m v)). { intros u. rewrite init_col1 by exact Hm. apply (k_dot_div_r _ _ _ L). exact v_nz. }
  assert (N0 : 1%nat = 1%nat -> nrm (col o (lV (linit o m v)) 1) = 1).
  { intros _. rewrite init_col1 by exact Hm. apply (k_nrm_one _ _ _ L). apply unit_div. exact v_nz. }
  (* the first iteration always runs *)
  assert (Hfirst : (2 <= fst (lloop o A false rfix m tol m 1 [linit o m v]))%nat).
  { destruct m as [|m']; [lia|]. cbn [lloop].
    assert (E : lcond o rfix tol (S m') 1 [linit o (S m') v] = true).
    { unfold lcond. cbn [existsb]. unfold is_large. cbn [Nat.leb]. rewrite !orb_true_r. reflexivity. }
    rewrite E. apply lloop_ge. }
  assert (Hle := lloop_le false m m 1 [linit o m v] ltac:(lia)).
  destruct (lloop_inv m m 1 (linit o m v) ltac:(lia) I0 F0 N0) as (s' & Es & I & F).
  set (i' := fst (lloop o A false rfix m tol m 1 [linit o m v])) in *.
  rewrite Es. cbn [map hd]. set (k := (i' - 1)%nat).
  assert (Hk : (1 <= k <= m)%nat) by (unfold k; lia).
  unfold ltrim. cbn [snd fst hd rQ roff rdiag].
  assert (lenQ : length (firstn k (inner (lV s'))) = k).
  { rewrite firstn_length, inner_length, (I_lenV _ _ _ I). lia. }
  rewrite lenQ.
  assert (EQ : forall a, (a < k)%nat -> nth a (firstn k (inner (lV s'))) o.(vzero) = col o (lV s') (S a)).
  { intros a Ha. rewrite nth_firstn by exact Ha. unfold col. apply nth_inner. rewrite (I_lenV _ _ _ I). lia. }
  assert (ED : forall a, (a < k)%nat -> ent o (firstn k (ldiag s')) a = ent o (ldiag s') a).
  { intros a Ha. unfold ent. apply nth_firstn. exact Ha. }
  assert (EO : forall a, (S a < k)%nat -> ent o (firstn (k - 1) (inner (lsub s'))) a = ent o (lsub s') (S a)).
  { intros a Ha. unfold ent. rewrite nth_firstn by lia. apply nth_inner. rewrite (I_lens _ _ _ I). lia. }
  exists (col o (lV s') i').
  split; [unfold m in Hk; lia|].
  split; [rewrite firstn_length, (I_lend _ _ _ I); lia|].
  split; [rewrite firstn_length, inner_length, (I_lens _ _ _ I); lia|].
  unfold Qc. cbn [rQ].
  split; [intros u; rewrite EQ by lia; apply F|].
  split.
  { intros a b Ha Hb. rewrite !EQ by assumption. rewrite (I_on _ _ _ I) by (unfold k in *; lia).
    change (S a =? S b) with (a =? b). reflexivity. }
  split.
  { intros a Ha. rewrite EQ by assumption. apply (I_po _ _ _ I). unfold k in *; lia. }
  split.
  { intros b Hb u. rewrite !EQ by assumption. rewrite ED by assumption.
    destruct (Nat.ltb_spec (S b) k) as [Hlt|Hge].
    - (* interior column: relation 1 *)
      rewrite (I_rel1 _ _ _ I (S b) ltac:(lia) ltac:(unfold k in *; lia) u).
      replace (S b - 1)%nat with b by lia. replace (S b + 1)%nat with (S (S b)) by lia.
      rewrite (EO b) by assumption. rewrite (EQ (S b)) by assumption.
      destruct (Nat.eqb_spec b 0) as [->|Hb0].
      + rewrite (I_sub0 _ _ _ I). ring.
      + rewrite (EO (b - 1)%nat) by lia. rewrite (EQ (b - 1)%nat) by lia. replace (S (b - 1)) with b by lia. ring.
    - (* last column: relation 2 *)
      assert (Eb : S b = (i' - 1)%nat) by (unfold k in *; lia).
      rewrite Eb. rewrite (I_rel2 _ _ _ I ltac:(lia) u).
      replace (i' - 2)%nat with b by lia.
      destruct (Nat.eqb_spec b 0) as [->|Hb0].
      + rewrite (I_sub0 _ _ _ I). ring.
      + rewrite (EO (b - 1)%nat) by lia. rewrite (EQ (b - 1)%nat) by lia. replace (S (b - 1)) with b by lia. ring. }
  split.
  { intros a Ha. rewrite ED by assumption. replace a with (S a - 1)%nat at 1 2 by lia. apply (I_dreal _ _ _ I). unfold k in *; lia. }
  split.
  { intros a Ha. rewrite EO by assumption. apply (I_subn _ _ _ I). unfold k in *; lia. }
  { intros a Ha. rewrite EO by assumption. apply (I_subnz _ _ _ I); unfold k in *; lia. }
Qed.
End Run.
End Proofs.
