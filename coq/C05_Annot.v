(* C05: model of cola's annotation inference (cola/annotations.py get_annotations rules, the base constructor's
   merge with declared annotations, the WrapMeta declaration wrapper) on an annotated operator AST. *)
From Coq Require Import Arith Lia List PeanoNat Bool.
From Core Require Import Base Kron Op.
Import ListNotations.

Inductive annot := SA | PSD | St | Un.
Definition annot_eqb (a b : annot) := match a, b with SA, SA | PSD, PSD | St, St | Un, Un => true | _, _ => false end.
Definition aset := list annot.
Definition mem (a : annot) (s : aset) := existsb (annot_eqb a) s.
Definition inter (s t : aset) : aset := filter (fun a => mem a t) s.
Definition minus (s t : aset) : aset := filter (fun a => negb (mem a t)) s.
Definition union (s t : aset) : aset := s ++ minus t s.
Definition inter_all (l : list aset) : aset := match l with [] => [] | s :: r => fold_left inter r s end.
(* A.isa(x): PSD is a SelfAdjoint, Unitary is a Stiefel *)
Definition isa (s : aset) (x : annot) : bool :=
  mem x s || match x with SA => mem PSD s | St => mem Un s | _ => false end.
Definition norm (s : aset) : list bool := [mem SA s; mem PSD s; mem St s; mem Un s].

(* behaviours of the pinned tree that make the inference unsound (DESIGN.md 4.2); all false = repaired *)
Record flags := { keep_scalar : bool;        (* a Product with a single non-scalar factor inherits ALL its annotations *)
                  keep_stiefel : bool;       (* Transpose / Adjoint keep Stiefel *)
                  ata_transpose : bool }.    (* Product(Transpose(A), A) is PSD even for complex A *)
Definition pinned : flags := {| keep_scalar := true; keep_stiefel := true; ata_transpose := true |}.
Definition repaired : flags := {| keep_scalar := false; keep_stiefel := false; ata_transpose := false |}.

Section Annot.
Context {R : Type} {RR : Ring R} {CR : CRing R}.
Notation op := (op (R:=R)).

(* annotated operator trees: [decl] = annotations declared on that very object (cola.PSD(A), ...) *)
Inductive aop :=
| XLeaf (e : op) (decl : aset)                       (* any non-composite kind *)
| XSum (ms : list aop) (decl : aset)
| XProd (ms : list aop) (decl : aset)                (* products that do not match the A^T A pattern *)
| XGram (adj lft isreal : bool) (a : aop) (decl : aset)
      (* Product(W(a), a) [left] or Product(a, W(a)) with the SAME object a, W = Adjoint [adj] or Transpose;
         isreal: the payload of a is real (fact supplied with the tree) *)
| XKron (ms : list aop) (decl : aset)
| XBDiag (ms : list (aop * nat)) (decl : aset)
| XTransp (a : aop) (decl : aset)
| XAdj (a : aop) (decl : aset)
| XSliced (a : aop) (rs cs : list nat) (same : bool) (decl : aset).   (* same: slices[0] == slices[1] *)

Fixpoint erase (x : aop) : op :=
  match x with
  | XLeaf e _ => e
  | XSum ms _ => Sum (map erase ms)
  | XProd ms _ => Prod (map erase ms)
  | XGram adj lft _ a _ =>
      let w := if adj then Adj (erase a) else Transp (erase a) in
      if lft then Prod [w; erase a] else Prod [erase a; w]
  | XKron ms _ => Kron (map erase ms)
  | XBDiag ms _ => BDiag (map (fun mc => (erase (fst mc), snd mc)) ms)
  | XTransp a _ => Transp (erase a)
  | XAdj a _ => Adj (erase a)
  | XSliced a rs cs _ _ => Sliced (erase a) rs cs
  end.
Definition leaf_infer (e : op) : aset :=
  match e with Ident _ => [Un; PSD] | Perm _ _ => [Un] | _ => [] end.
Definition is_wrapper (x : aop) : bool := match x with XTransp _ _ | XAdj _ _ => true | _ => false end.
Definition is_scal (x : aop) : bool := match x with XLeaf (Scal _ _) _ => true | _ => false end.

Section Infer.
Variable fl : flags.
Fixpoint infer (x : aop) : aset :=
  match x with
  | XLeaf e decl => union (leaf_infer e) decl
  | XSum ms decl => union (minus (inter_all (map infer ms)) [Un; St]) decl
  | XProd ms decl =>
      let nc := filter (fun m => negb (is_scal m)) ms in
      let general := inter (inter_all (map infer ms)) [Un; St] in
      union (match nc with
             | [_] => if keep_scalar fl || Nat.eqb (length ms) 1
                      then (fix pick (l : list aop) : aset :=
                              match l with [] => [] | y :: r => if negb (is_scal y) then infer y else pick r end) ms
                      else general
             | _ => general
             end) decl
  | XGram adj lft isreal a decl =>
      let wa := if keep_stiefel fl then infer a else minus (infer a) [St] in   (* annotations of the wrapper W(a) *)
      let both := if lft then inter wa (infer a) else inter (infer a) wa in
      (* are_the_same tests its SECOND argument for being a wrapper first: W(a) @ a is not recognised when a is itself
         a Transpose/Adjoint (falls back to the general Product rule) *)
      let matched := if lft then negb (is_wrapper a) else true in
      union (if matched && (adj || isreal || ata_transpose fl) then union (inter both [Un; St]) [PSD] else inter both [Un; St]) decl
  | XKron ms decl => union (inter_all (map infer ms)) decl
  | XBDiag ms decl => union (inter_all (map (fun mc => infer (fst mc)) ms)) decl
  | XTransp a decl | XAdj a decl => union (if keep_stiefel fl then infer a else minus (infer a) [St]) decl
  | XSliced a rs cs same decl => union (if same then minus (infer a) [Un; St] else []) decl
  end.
End Infer.

(* declaring an annotation (cola.PSD(A) etc.): a copy of the same operator with the annotation added *)
Definition declare (s : aset) (x : aop) : aop :=
  match x with
  | XLeaf e d => XLeaf e (union d s) | XSum ms d => XSum ms (union d s) | XProd ms d => XProd ms (union d s)
  | XGram a l r y d => XGram a l r y (union d s) | XKron ms d => XKron ms (union d s) | XBDiag ms d => XBDiag ms (union d s)
  | XTransp a d => XTransp a (union d s) | XAdj a d => XAdj a (union d s) | XSliced a rs cs sm d => XSliced a rs cs sm (union d s)
  end.
Lemma declare_pure s x : erase (declare s x) = erase x.
Proof. destruct x; reflexivity. Qed.
End Annot.
