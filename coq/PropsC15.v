(* Property C15: Arnoldi returns an orthonormal Krylov basis satisfying the Arnoldi relation.
   Only statements closed by [exact]; model: C15_Model.v, lemmas: C15_Proofs.v C15_Witness.v C15_Inst.v.
   Vector identities are weak: tested against every vector u through the inner product. *)
From Coq Require Import List Arith Bool.
From Core Require Import C14_Model C14_Float C14_Thms C14_Witness C14_Inst C15_Model C15_Float C15_Proofs C15_Witness C15_Inst.
Import ListNotations.

(* shapes and zero pattern, for ANY scalar type (binary64 included), any operator, any batch of start vectors:
   at most min(max_iters, n) steps; first column v/||v||; Q has max_iters+1 columns, H is (max_iters+1) x max_iters,
   upper Hessenberg; columns of H from the number of steps on, and columns of Q after it, are zero *)
Theorem C15_structure : forall (C V : Type) (o : kops C V) (A : V -> V) (rfix cfix afix : bool) (n : nat) (vs : list V) (max_iters : nat) (tol : C),
  let res := arnoldi_batch o A rfix cfix afix n vs max_iters tol in
  let k := fst res in
  k <= Nat.min max_iters n /\ length (snd res) = length vs /\
  map (fun s => col o (aQ s) 0) (snd res) = map (fun v => o.(vdiv) v (o.(vnrm) v)) vs /\
  forall s, In s (snd res) ->
    length (aQ s) = max_iters + 1 /\ length (aH s) = max_iters /\
    (forall j, j < max_iters -> length (nth j (aH s) []) = max_iters + 1) /\
    (forall i j, j + 1 < i -> Hent o (aH s) i j = o.(c0)) /\
    (forall i j, k <= j -> Hent o (aH s) i j = o.(c0)) /\
    (forall j, k < j -> col o (aQ s) j = o.(vzero)).
Proof. exact @arnoldi_structure. Qed.
Print Assumptions C15_structure.

(* padding lemma, for ANY scalar type: asking for max_iters steps gives the min(max_iters, n)-step factorisation with
   (max_iters - cap) zero columns appended to Q and as many zero rows and zero columns appended to H *)
Theorem C15_padding : forall (C V : Type) (o : kops C V) (A : V -> V) (rfix cfix afix : bool) (n : nat) (vs : list V) (max_iters : nat) (tol : C),
  let cap := Nat.min max_iters n in
  let small := arnoldi_batch o A rfix cfix afix n vs cap tol in
  let big := arnoldi_batch o A rfix cfix afix n vs max_iters tol in
  fst big = fst small /\ Forall2 (Padded o cap (max_iters - cap)) (snd small) (snd big).
Proof. exact @arnoldi_padding_lemma. Qed.
Print Assumptions C15_padding.

(* repaired variant (max_iters capped at n before the buffers are allocated; flag arnoldi_padding gone): same number of steps,
   the pinned result is the repaired one padded with zeros, and the repaired buffers have min(max_iters,n)+1 / min(max_iters,n)
   columns, so arnoldi_eigs' H[:-1] carries no zero padding.  Every theorem of this file holds for it (instance max_iters := min) *)
Theorem C15_capped_variant : forall (C V : Type) (o : kops C V) (A : V -> V) (rfix cfix afix : bool) (n : nat) (vs : list V) (max_iters : nat) (tol : C),
  let cap := Nat.min max_iters n in
  let fixed := arnoldi_batch_capped o A rfix cfix afix n vs max_iters tol in
  let pinned := arnoldi_batch o A rfix cfix afix n vs max_iters tol in
  fst pinned = fst fixed /\ Forall2 (Padded o cap (max_iters - cap)) (snd fixed) (snd pinned) /\
  forall s, In s (snd fixed) -> length (aQ s) = cap + 1 /\ length (aH s) = cap /\
                                 (forall j, j < cap -> length (nth j (aH s) []) = cap + 1).
Proof. exact @arnoldi_capped_spec. Qed.
Print Assumptions C15_capped_variant.

(* exact arithmetic, inner-product space, any square operator A, any batch: for every k up to the number of steps taken,
   if the first k steps were regular (remainder non-zero, clipped normalisation inactive) then columns 0..k of Q are
   orthonormal (modified Gram-Schmidt) and A q_j = sum_{i<=j+1} H[i,j] q_i for j < k (Arnoldi relation, by construction);
   for every step j taken, regular or not, A q_j = sum_{i<=j} H[i,j] q_i + x_j with H[j+1,j] = ||x_j|| *)
Theorem C15_whole_run : forall (C V : Type) (o : kops C V) (A : V -> V) (rfix cfix afix : bool) (nonneg : C -> Prop), ilaws o nonneg ->
  forall (tol : C) (n : nat) (vs : list V) (max_iters : nat), Forall (fun v => o.(vnrm) v <> o.(c0)) vs ->
  forall s, In s (snd (arnoldi_batch o A rfix cfix afix n vs max_iters tol)) ->
  let steps := fst (arnoldi_batch o A rfix cfix afix n vs max_iters tol) in
  (forall k, k <= steps -> alive o cfix afix tol k s -> Good o A k s) /\
  (forall j, j < steps -> exists x, Hent o (aH s) (S j) j = o.(vnrm) x /\
     forall u, o.(vdot) u (A (col o (aQ s) j)) =
               o.(cadd) (csum o (S j) (fun i => o.(cmul) (Hent o (aH s) i j) (o.(vdot) u (col o (aQ s) i)))) (o.(vdot) u x)).
Proof. exact @arnoldi_run. Qed.
Print Assumptions C15_whole_run.

(* sub-diagonal entries are non-negative *)
Theorem C15_subdiag_nonneg : forall (C V : Type) (o : kops C V) (A : V -> V) (rfix cfix afix : bool) (nonneg : C -> Prop), ilaws o nonneg ->
  forall (tol : C) (n : nat) (vs : list V) (max_iters : nat), Forall (fun v => o.(vnrm) v <> o.(c0)) vs ->
  forall s, In s (snd (arnoldi_batch o A rfix cfix afix n vs max_iters tol)) ->
  forall j, j < fst (arnoldi_batch o A rfix cfix afix n vs max_iters tol) -> nonneg (Hent o (aH s) (S j) j).
Proof. exact @arnoldi_subdiag_nonneg. Qed.
Print Assumptions C15_subdiag_nonneg.


(* breakdown: a vanishing remainder at step j means A q_j lies in span(q_0..q_j): the basis spans an A-invariant subspace *)
Theorem C15_breakdown_invariant : forall (C V : Type) (o : kops C V) (A : V -> V) (rfix cfix afix : bool) (nonneg : C -> Prop), ilaws o nonneg ->
  forall (tol : C) (n : nat) (vs : list V) (max_iters : nat), Forall (fun v => o.(vnrm) v <> o.(c0)) vs ->
  forall s, In s (snd (arnoldi_batch o A rfix cfix afix n vs max_iters tol)) ->
  forall j, j < fst (arnoldi_batch o A rfix cfix afix n vs max_iters tol) -> Hent o (aH s) (S j) j = o.(c0) ->
  forall u, o.(vdot) u (A (col o (aQ s) j)) = csum o (S j) (fun i => o.(cmul) (Hent o (aH s) i j) (o.(vdot) u (col o (aQ s) i))).
Proof. exact @arnoldi_breakdown_invariant. Qed.
Print Assumptions C15_breakdown_invariant.

(* Ritz pairs of the leading k x k block (what arnoldi_eigs returns when max_iters = k regular steps were taken; eig is an oracle):
   A (Q_k y) = theta (Q_k y) + y_{k-1} H[k,k-1] q_k; exact eigenpairs of A when the last remainder vanishes *)
Theorem C15_ritz_pairs : forall (C V : Type) (o : kops C V) (A : V -> V) (nonneg : C -> Prop), ilaws o nonneg ->
  (forall u, o.(vdot) u (A o.(vzero)) = o.(c0)) ->
  (forall u x a y, o.(vdot) u (A (o.(vadd) x (o.(vscale) a y))) = o.(cadd) (o.(vdot) u (A x)) (o.(cmul) a (o.(vdot) u (A y)))) ->
  (forall u v w, o.(vdot) u (o.(vadd) v w) = o.(cadd) (o.(vdot) u v) (o.(vdot) u w)) -> (forall u, o.(vdot) u o.(vzero) = o.(c0)) ->
  forall (s : @ast C V) (k : nat) (theta : C) (y : nat -> C), 1 <= k ->
  (forall i j, j + 1 < i -> Hent o (aH s) i j = o.(c0)) ->
  (forall j, j < k -> forall u, o.(vdot) u (A (col o (aQ s) j)) = csum o (S (S j)) (fun i => o.(cmul) (Hent o (aH s) i j) (o.(vdot) u (col o (aQ s) i)))) ->
  (forall a, a < k -> csum o k (fun j => o.(cmul) (Hent o (aH s) a j) (y j)) = o.(cmul) theta (y a)) ->
  forall u, o.(vdot) u (A (vcomb o k y (col o (aQ s)))) =
            o.(cadd) (o.(cmul) theta (o.(vdot) u (vcomb o k y (col o (aQ s)))))
                     (o.(cmul) (y (k - 1)) (o.(cmul) (Hent o (aH s) k (k - 1)) (o.(vdot) u (col o (aQ s) k)))).
Proof. exact @arnoldi_ritz. Qed.
Print Assumptions C15_ritz_pairs.

(* the current tree, flag arnoldi_padding, for EVERY operator and start: with max_iters > n the square matrix that
   arnoldi_eigs hands to eig has a zero last column, so 0 is returned as an eigenvalue whatever the spectrum of A is *)
Theorem C15_eigs_padding_refuted : forall (C V : Type) (o : kops C V) (A : V -> V) (rfix cfix afix : bool) (n : nat) (vs : list V) (max_iters : nat) (tol : C),
  n < max_iters -> forall s, In s (snd (arnoldi_batch o A rfix cfix afix n vs max_iters tol)) -> forall i, eigs_matrix o s i (max_iters - 1) = o.(c0).
Proof. exact @arnoldi_eigs_zero_column. Qed.
Print Assumptions C15_eigs_padding_refuted.

Example C15_laws_satisfiable : ilaws ropsR2 nonnegR.
Proof. exact ilaws_R2. Qed.
Print Assumptions C15_laws_satisfiable.

Theorem C15_clip_garbage_refuted : clip_bad = true.
Proof. exact arnoldi_clip_garbage_refuted. Qed.
Print Assumptions C15_clip_garbage_refuted.

(* ... and the repaired normalisation gives an exactly zero column there; for every input (no law needed): with cfix = true,
   whenever a step's remainder norm does not exceed tol/2 the next basis column is the zero vector *)
Theorem C15_clip_garbage_repaired : clip_repaired_ok = true.
Proof. exact arnoldi_clip_garbage_repaired. Qed.
Print Assumptions C15_clip_garbage_repaired.

Theorem C15_zero_after_breakdown : forall (C V : Type) (o : kops C V) (A : V -> V) (rfix afix : bool) (n : nat) (vs : list V) (max_iters : nat) (tol : C),
  forall s, In s (snd (arnoldi_batch o A rfix true afix n vs max_iters tol)) ->
  forall j, j < fst (arnoldi_batch o A rfix true afix n vs max_iters tol) ->
  o.(cgtb) (Hent o (aH s) (S j) j) (athr o afix tol (aH s)) = false -> col o (aQ s) (S j) = o.(vzero).
Proof. exact @arnoldi_zero_after_breakdown. Qed.
Print Assumptions C15_zero_after_breakdown.

Theorem C15_reltol_first_step_refuted : areltol_bad = true.
Proof. exact arnoldi_reltol_first_step_refuted. Qed.
Print Assumptions C15_reltol_first_step_refuted.

(* the repaired stopping test (rfix = true; all theorems above hold for it too) stops after the first step on that input *)
Theorem C15_reltol_first_step_repaired : arnoldi_steps (fops 3) (fmv S3) true false false 3 ev3 3 tol7 = 1.
Proof. exact arnoldi_reltol_first_step_repaired. Qed.
Print Assumptions C15_reltol_first_step_repaired.

(* flag arnoldi_absolute_clip: with the absolute threshold tol/2 a small-scale operator (1e-6*[[2,1],[1,3]], tol = 1e-6) gets a zero second
   basis column although the remainder is 14% of ||A q_0||; with the relative threshold (afix = true, for which every theorem above holds
   as well) that column is a non-zero (unit) vector *)
Theorem C15_absolute_clip_refuted : absclip_at false = (true, true).
Proof. exact arnoldi_absolute_clip_refuted. Qed.
Print Assumptions C15_absolute_clip_refuted.
Theorem C15_absolute_clip_repaired : absclip_at true = (false, true).
Proof. exact arnoldi_absolute_clip_repaired. Qed.
Print Assumptions C15_absolute_clip_repaired.

(* flag arnoldi_start_dtype_cast: run of the model on the start vector as the pinned code stores it (imaginary part dropped) *)
Theorem C15_start_dtype_cast_refuted : astart_cast_bad true = true /\ astart_cast_bad false = false.
Proof. exact arnoldi_start_dtype_cast_refuted. Qed.
Print Assumptions C15_start_dtype_cast_refuted.

Theorem C15_batch_shared_stop_refuted : abatch_bad = true.
Proof. exact arnoldi_batch_shared_stop_refuted. Qed.
Print Assumptions C15_batch_shared_stop_refuted.
