(* C20: in-Coq comparison of the __getitem__ model (instantiated at the Gaussian integers) with what was observed
   on the implementation, and of the specification spec_index with numpy's indexing of the dense oracle matrix. *)
From Coq Require Import ZArith List Bool Arith.
From Core Require Import Base Kron Op ZIInst PySlice C20_GetItem.
Import ListNotations.
Definition M := list (list zi).
(* observation on the implementation *)
Inductive obs :=
| OErr (e : err)
| OScalar (x : zi)
| OVec (l : list zi)
| OOp (m n : nat) (D : M) (k : nat) (X Y : M)    (* shape, to_dense(), operand (n x k), product (m x k) *)
| OOther.                                         (* anything else (an exception class the model never predicts, ...) *)
(* numpy on the dense oracle matrix *)
Inductive npobs := NErr | NScalar (x : zi) | NVec (l : list zi) | NMat (m n : nat) (D : M) | NSkip.
Definition zlist_eqb (a b : list zi) : bool :=
  Nat.eqb (length a) (length b) && forallb (fun p => zi_eqb (fst p) (snd p)) (combine a b).
Record query := { qi : ix; qo : obs; qn : npobs }.
Record case := { ce : op (R:=zi); cm : nat; cn : nat; cfl : flags; cqs : list query }.
(* LinearOperator.to_dense: the operator applied to an identity, from the left when 8*rows < cols *)
Definition to_dense_code (s : op (R:=zi)) : arr (R:=zi) :=
  let m := fst (shape s) in let n := snd (shape s) in
  if (8 * m <? n)%nat then rmatmat s (mkarr m m eye) else matmat s (mkarr n n eye).
Definition check_model (c : case) (q : query) : bool :=
  match getitem (cfl c) (ce c) (qi q), qo q with
  | Err a, OErr b => err_eqb a b
  | Scalar x, OScalar y => zi_eqb x y
  | Vec l, OVec l' => zlist_eqb l l'
  | SubOp s, OOp m n D k X Y =>
      Nat.eqb (fst (shape s)) m && Nat.eqb (snd (shape s)) n && arr_eqb_mn (to_dense_code s) m n D
      && arr_eqb_mn (matmat s (of_list_mn n k X)) m k Y
  | _, _ => false
  end.
Definition check_spec (c : case) (q : query) : bool :=
  match spec_index (den (ce c)) (cm c) (cn c) (qi q), qn q with
  | _, NSkip => true
  | None, NErr => true
  | Some (SScalar x), NScalar y => zi_eqb x y
  | Some (SVec l), NVec l' => zlist_eqb l l'
  | Some (SMat rs cs), NMat m n D =>
      Nat.eqb (length rs) m && Nat.eqb (length cs) n
      && arr_eqb_mn (mkarr m n (den (Sliced (ce c) rs cs))) m n D
  | _, _ => false
  end.
Definition check_q (c : case) (q : query) : bool := check_model c q && check_spec c q.
Definition bad_qs (c : case) : list nat := failing (check_q c) 0 (cqs c).
Definition case_ok (c : case) : bool :=
  wf (ce c) && Nat.eqb (fst (shape (ce c))) (cm c) && Nat.eqb (snd (shape (ce c))) (cn c).
Fixpoint mism (i : nat) (cs : list case) : list (nat * list nat) :=
  match cs with
  | [] => []
  | c :: r => let b := if case_ok c then bad_qs c else [999%nat] in
              match b with [] => mism (S i) r | _ => (i, b) :: mism (S i) r end
  end.
Definition nqueries (cs : list case) : nat := fold_right (fun c acc => (length (cqs c) + acc)%nat) 0%nat cs.

(* PySlice.indices against Python slice(a,b,c).indices(n) expanded with range *)
Definition slice_case := (nat * (option Z * option Z * option Z) * option (list nat))%type.
Definition olist_eqb (a b : option (list nat)) : bool :=
  match a, b with
  | None, None => true
  | Some x, Some y => Nat.eqb (length x) (length y) && forallb (fun p => Nat.eqb (fst p) (snd p)) (combine x y)
  | _, _ => false
  end.
Definition check_slice (c : slice_case) : bool :=
  let '(n, (a, b, k), want) := c in olist_eqb (indices (mkslice a b k) n) want.
