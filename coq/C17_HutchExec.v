(* C17 - execution instances of the Hutchinson model for the correspondence check:
   Z (exact tier: integer operators, +-1 probes) and PrimFloat binary64 (tolerance tier),
   with the relative-stderr stopping rule of diagonal_estimation.py:197-204 evaluated in binary64. *)
From Coq Require Import List ZArith Bool PrimFloat Uint63 Lia.
From Core Require Import Base C17_Hutch.
Import ListNotations.

Definition fofZ (z : Z) : float :=
  if (z <? 0)%Z then PrimFloat.opp (of_uint63 (Uint63.of_Z (- z))) else of_uint63 (Uint63.of_Z z).
Definition fofnat (n : nat) : float := fofZ (Z.of_nat n).
Definition fmax (a b : float) : float := if PrimFloat.ltb a b then b else a.
Definition tenth : float := 0x1.999999999999ap-4%float.

(* err(state): mean = diag_sum/(i*bs); stderr = sqrt((diag_sumsq/(i*bs) - mean**2)/(i*bs));
               mean(stderr / maximum(|mean|, .1)) *)
Definition err_rule (len bs it : nat) (ds dq : nat -> float) : float :=
  let m := fofnat (it * bs) in
  let term i := let mean := (ds i / m)%float in
                let se := PrimFloat.sqrt (((dq i / m) - mean * mean) / m)%float in
                (se / fmax (PrimFloat.abs mean) tenth)%float in
  (fold_left (fun acc i => (acc + term i)%float) (seq 0 len) 0%float / fofnat len)%float.

Definition getm {T} (d : T) (l : list (list T)) (i j : nat) : T := nth j (nth i l []) d.
Definition close (rel : float) (a b : float) : bool :=
  PrimFloat.leb (PrimFloat.abs (a - b)) (rel * (1 + fmax (PrimFloat.abs a) (PrimFloat.abs b)))%float.

(* a case: the operator, the probe blocks cola multiplied the operator with (recorded), the call's parameters,
   and what cola returned *)
Record hcase (T : Type) := {
  hn : nat; hk : Z; hmax : nat; htol : float; hrel : float;   (* hrel: 0 = compare bit for bit *)
  hA : list (list T); hP : list (list (list T));
  h_iters : nat; h_mean : list float }.
Arguments hn {T}. Arguments hk {T}. Arguments hmax {T}. Arguments htol {T}. Arguments hrel {T}. Arguments hA {T}.
Arguments hP {T}. Arguments h_iters {T}. Arguments h_mean {T}.

Section Exec.
Variable T : Type.
Variable zero : T. Variables add mul : T -> T -> T.
Variable toF : T -> float.
Definition bs_of (n : nat) : nat := Nat.min 100 n.
Definition st_err (c : hcase T) (st : state T) : float :=
  err_rule (len (hn c) (hk c)) (bs_of (hn c)) (it st) (fun i => toF (dsum st i)) (fun i => toF (dsq st i)).
Definition contF (c : hcase T) (st : state T) : bool := PrimFloat.ltb (htol c) (st_err c st).
Definition Aof (c : hcase T) : nat -> nat -> T := getm zero (hA c).
Definition Pof (c : hcase T) : nat -> nat -> nat -> T := fun t => getm zero (nth t (hP c) []).
Definition model (c : hcase T) : state T :=
  hutch T zero add mul (hn c) (bs_of (hn c)) (hk c) (Aof c) (contF c) (hmax c) (Pof c).
Definition after (c : hcase T) (m : nat) : state T :=
  run_blocks T zero add mul (hn c) (bs_of (hn c)) (hk c) (Aof c) (Pof c) m.
(* a stopping decision taken within [margin] of the threshold is not compared *)
Definition near_tie (margin : float) (c : hcase T) (upto : nat) : bool :=
  existsb (fun j => let e := st_err c (after c j) in
                    PrimFloat.leb (PrimFloat.abs (e - htol c)) (margin * htol c)%float) (seq 1 upto).
Definition values_ok (c : hcase T) : bool :=
  let m := h_iters c in let st := after c m in let L := len (hn c) (hk c) in
  let d := fofnat (m * bs_of (hn c)) in
  Nat.eqb (length (h_mean c)) L &&
  forallb (fun i => let v := (toF (dsum st i) / d)%float in let w := nth i (h_mean c) nan in
                    if PrimFloat.eqb (hrel c) 0 then PrimFloat.eqb v w else close (hrel c) v w) (seq 0 L).
(* 0 = agree, 1 = values agree and the iteration count was a near tie (not compared), 2 = disagree *)
Definition verdict (margin : float) (c : hcase T) : nat :=
  let mi := it (model c) in
  if negb (values_ok c) then 2
  else if Nat.eqb mi (h_iters c) then 0
  else if near_tie margin c (Nat.max mi (h_iters c)) then 1 else 2.
End Exec.

Definition verdictZ := verdict Z 0%Z Z.add Z.mul fofZ.
Definition verdictF := verdict float 0%float PrimFloat.add PrimFloat.mul (fun x => x).
Fixpoint classify {A} (v : A -> nat) (i : nat) (cs : list A) (bad tie : list nat) : list nat * list nat :=
  match cs with
  | [] => (rev bad, rev tie)
  | c :: r => match v c with 0 => classify v (S i) r bad tie | 1 => classify v (S i) r bad (i :: tie) | _ => classify v (S i) r (i :: bad) tie end
  end.
