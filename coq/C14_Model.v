(* C14 - Gallina model of cola/linalg/decompositions/lanczos.py (lanczos, lanczos_fact, init_lanczos,
   do_double_gram) over an abstract scalar/vector signature [kops].  The same term is
   - executed on PrimFloat complex numbers (C14_Float.v) and compared with /repo's cola on every run,
   - reasoned about over an abstract field with involution / inner-product space (C14_Proofs.v).
   Control flow follows the Python code at the granularity of whole-array primitives:
     init_lanczos : buffers V (max_iters+2 columns), diag (max_iters), subdiag (max_iters+1), column 1 := rhs/||rhs||, i := 1
     body_fun     : renormalise column i; new := A @ V[i]; diag[i-1] := <new, V[i]>; new -= diag[i-1] V[i] + subdiag[i-1] V[i-1];
                    two classical Gram-Schmidt passes against the WHOLE buffer; V[i+1] := new; subdiag[i] := ||V[i+1]||; i+1
     cond_fun     : i <= max_iters  and  any over the batch of (subdiag[i-1].real > tol*subdiag[1].real  or  i <= 1)
     lanczos      : max_iters := min(max_iters, n); trimming  Q := V[1:-1][:iters], off-diagonal := subdiag[1:-1][:iters-1],
                    diagonal := diag[:iters], iters := i-1   (lanczos() calls the diagonal `beta` and the off-diagonal `alpha`)
   Aliasing rule (flag lanczos_alias_identity): when the operator's product returns its argument (Identity), `new` is a view of
   buffer column i from the second iteration on (the loop counter is a 0-d array in iteration 1 -> advanced indexing -> copy;
   a NumPy scalar afterwards -> basic indexing -> view), so every in-place update of `new` is also written to column i. *)
From Coq Require Import List Arith Bool Lia.
Import ListNotations.

Record kops (C V : Type) := mk_kops {
  c0 : C; c1 : C; cadd : C -> C -> C; cmul : C -> C -> C; csub : C -> C -> C; copp : C -> C;
  cdiv : C -> C -> C; cinv : C -> C; cconj : C -> C;
  cgtb : C -> C -> bool;                 (* x.real > y.real *)
  vzero : V; vadd : V -> V -> V; vsub : V -> V -> V; vscale : C -> V -> V; vdiv : V -> C -> V;
  vdot : V -> V -> C;                    (* sum (conj x * y) *)
  vnrm : V -> C;
  chyp : C -> C -> C }.                 (* sqrt(|a|^2 + |b|^2), the 2-norm of a pair of scalars *)
Arguments c0 {C V}. Arguments c1 {C V}. Arguments cadd {C V}. Arguments cmul {C V}. Arguments csub {C V}.
Arguments copp {C V}. Arguments cdiv {C V}. Arguments cinv {C V}. Arguments cconj {C V}. Arguments cgtb {C V}.
Arguments vzero {C V}. Arguments vadd {C V}. Arguments vsub {C V}. Arguments vscale {C V}. Arguments vdiv {C V}.
Arguments vdot {C V}. Arguments vnrm {C V}. Arguments chyp {C V}.

(* array[k] := x   (update_array on one column / entry) *)
Fixpoint upd {T} (l : list T) (k : nat) (x : T) : list T :=
  match l, k with
  | [], _ => []
  | _ :: t, 0 => x :: t
  | h :: t, S k' => h :: upd t k' x
  end.

Section Model.
Context {C V : Type} (o : kops C V).
Variable A : V -> V.          (* the operator's product  x |-> A @ x *)
Variable alias : bool.        (* does A @ x return (a view of) x ? *)
Variable rfix : bool.         (* repaired stopping test (flag lanczos_reltol_first_step gone): the reference is ||A q_1|| *)

Definition vsum (l : list V) : V := fold_left o.(vadd) l o.(vzero).

(* do_gram: aux_j := <vec_j, new> for every buffer column; new -= sum_j vec_j * aux_j *)
Definition gram (B : list V) (w : V) : V :=
  o.(vsub) w (vsum (map (fun q => o.(vscale) (o.(vdot) q w) q) B)).

Record lst := mk_lst { lV : list V; ldiag : list C; lsub : list C }.

Definition col (B : list V) (k : nat) : V := nth k B o.(vzero).
Definition ent (l : list C) (k : nat) : C := nth k l o.(c0).

(* an in-place update of `new` reaches buffer column i when `new` is a view of it *)
Definition wr (i : nat) (B : list V) (x : V) : list V := if alias && (2 <=? i) then upd B i x else B.

Definition lbody (i : nat) (s : lst) : lst :=
  let V1 := upd (lV s) i (o.(vdiv) (col (lV s) i) (o.(vnrm) (col (lV s) i))) in
  let new0 := A (col V1 i) in
  let V2 := wr i V1 new0 in
  let dg := upd (ldiag s) (i - 1) (o.(vdot) new0 (col V2 i)) in
  let aux := o.(vadd) (o.(vscale) (ent dg (i - 1)) (col V2 i)) (o.(vscale) (ent (lsub s) (i - 1)) (col V2 (i - 1))) in
  let new1 := o.(vsub) new0 aux in
  let V3 := wr i V2 new1 in
  let new2 := gram V3 new1 in
  let V4 := wr i V3 new2 in
  let new3 := gram V4 new2 in
  let V5 := wr i V4 new3 in
  let V6 := upd V5 (i + 1) new3 in
  mk_lst V6 dg (upd (lsub s) i (o.(vnrm) (col V6 (i + 1)))).

(* the scale the off-diagonal entries are compared with.  Pinned code: subdiag[1] = beta_1 itself, so that at i = 2 beta_1 is compared
   with tol*beta_1.  Repaired code: sqrt(|diag[0]|^2 + |subdiag[1]|^2) = ||A q_1||, the size of the first Krylov vector *)
Definition lref (s : lst) : C := if rfix then o.(chyp) (ent (ldiag s) 0) (ent (lsub s) 1) else ent (lsub s) 1.
Definition is_large (tol : C) (i : nat) (s : lst) : bool :=
  o.(cgtb) (ent (lsub s) (i - 1)) (o.(cmul) tol (lref s)) || (i <=? 1).
Definition lcond (tol : C) (m i : nat) (ss : list lst) : bool := (i <=? m) && existsb (is_large tol i) ss.

(* while_loop; the fuel is the cap the code itself enforces (i runs from 1 to at most m) *)
Fixpoint lloop (fuel : nat) (tol : C) (m i : nat) (ss : list lst) : nat * list lst :=
  match fuel with
  | 0 => (i, ss)
  | S f => if lcond tol m i ss then lloop f tol m (S i) (map (lbody i) ss) else (i, ss)
  end.

Definition linit (m : nat) (v : V) : lst :=
  mk_lst (upd (repeat o.(vzero) (m + 2)) 1 (o.(vdiv) v (o.(vnrm) v))) (repeat o.(c0) m) (repeat o.(c0) (m + 1)).

Definition lfact (m : nat) (tol : C) (vs : list V) : nat * list lst := lloop m tol m 1 (map (linit m) vs).

Record lres := mk_lres { rQ : list V; roff : list C; rdiag : list C }.

(* x[1:-1] *)
Definition inner {T} (l : list T) : list T := removelast (tl l).

Definition ltrim (iters : nat) (s : lst) : lres :=
  mk_lres (firstn iters (inner (lV s))) (firstn (iters - 1) (inner (lsub s))) (firstn iters (ldiag s)).

(* lanczos(A, start_vector(s), max_iters, tol) for an operator of size n *)
Definition lanczos_batch (n : nat) (vs : list V) (max_iters : nat) (tol : C) : nat * list lres :=
  let m := Nat.min max_iters n in
  let r := lfact m tol vs in
  let iters := fst r - 1 in
  (iters, map (ltrim iters) (snd r)).

Definition lanczos1 (n : nat) (v : V) (max_iters : nat) (tol : C) : lres :=
  hd (mk_lres [] [] []) (snd (lanczos_batch n [v] max_iters tol)).

(* the dense tridiagonal matrix Tridiagonal(alpha, beta, alpha).to_dense() *)
Definition Tent (r : lres) (a b : nat) : C :=
  if a =? b then ent (rdiag r) a
  else if (S a =? b) then ent (roff r) a
  else if (a =? S b) then ent (roff r) b
  else o.(c0).


(* finite sums and linear combinations  sum_a c_a q_a  (a dense matrix-vector product Q c) *)
Fixpoint csum (n : nat) (f : nat -> C) : C := match n with 0 => o.(c0) | S k => o.(cadd) (csum k f) (f k) end.
Fixpoint vcomb (n : nat) (c : nat -> C) (q : nat -> V) : V :=
  match n with 0 => o.(vzero) | S k => o.(vadd) (vcomb k c q) (o.(vscale) (c k) (q k)) end.

(* lanczos_eigs: Q, T := lanczos(...); eigvals, eigvectors := eigh(T); idx := argsort(eigvals); (eigvals[idx], Q @ eigvectors[:, idx]).
   eigh and argsort are external (LAPACK / NumPy): oracles *)
Definition lanczos_eigs (eigh : nat -> (nat -> nat -> C) -> (nat -> C) * (nat -> nat -> C)) (argsort : nat -> (nat -> C) -> nat -> nat)
    (n : nat) (v : V) (max_iters : nat) (tol : C) : (nat -> C) * (nat -> V) :=
  let r := lanczos1 n v max_iters tol in
  let k := length (rQ r) in
  let e := eigh k (Tent r) in
  let idx := argsort k (fst e) in
  (fun j => fst e (idx j), fun j => vcomb k (fun a => snd e a (idx j)) (fun a => nth a (rQ r) o.(vzero))).

End Model.
