(* C05: closure of the semantic predicates under Kronecker products and block-diagonal assembly. *)
From Coq Require Import Arith Lia List Ring ArithRing PeanoNat Bool.
From Core Require Import Base Kron Op OpProofs AlgebraKron C05_Annot C05_Sem.
Import ListNotations.
Section Sem2.
Context {R : Type} {RR : Ring R} {CR : CRing R}.
Add Ring Rring : Rth.
Open Scope R_scope.
Notation fm := (fm (R:=R)). Notation fac := (fac (R:=R)).
Variable nonneg : R -> Prop.
Hypothesis nonneg_1 : nonneg r1.
Hypothesis nonneg_mul : forall a b, nonneg a -> nonneg b -> nonneg (a * b).
Hypothesis nonneg_real : forall a, nonneg a -> conj a = a.
Notation holds := (holds nonneg).
Notation PSDm := (PSDm nonneg).

Definition holdsF (a : annot) (F : fac) := holds a (fr F, fc F) (fmx F).
Lemma holdsF_one a : holdsF a one11.
Proof. unfold holdsF. cbn [one11 fr fc fmx]. destruct a; cbn [C05_Sem.holds fst snd].
  - split; auto. intros i j _ _. rewrite conj_1. reflexivity.
  - split; auto. exists 1%nat, (fun _ _ => r1), (fun _ => r1). split; [intros; apply nonneg_1|]. intros i j _ _. unfold gram. cbn [sum]. rewrite conj_1. ring.
  - intros i j Hi Hj. assert (i = 0 /\ j = 0)%nat as [-> ->] by lia. cbn [sum]. rewrite conj_1. unfold eye, delta. cbn. ring.
  - split; auto. split; intros i j Hi Hj; assert (i = 0 /\ j = 0)%nat as [-> ->] by lia; cbn [sum]; rewrite conj_1; unfold eye, delta; cbn; ring. Qed.

Lemma St_kron2 (A B : fac) : (0 < fr B)%nat -> (0 < fc B)%nat ->
  Stm (fr A) (fc A) (fmx A) -> Stm (fr B) (fc B) (fmx B) -> Stm (fr A * fr B) (fc A * fc B) (fmx (kron2 A B)).
Proof. intros PR PC HA HB i j Hi Hj. cbn [kron2 fmx].
  assert (Hi1 : (i / fc B < fc A)%nat) by (apply Nat.div_lt_upper_bound; nia).
  assert (Hj1 : (j / fc B < fc A)%nat) by (apply Nat.div_lt_upper_bound; nia).
  assert (Hi2 : (i mod fc B < fc B)%nat) by (apply Nat.mod_upper_bound; lia).
  assert (Hj2 : (j mod fc B < fc B)%nat) by (apply Nat.mod_upper_bound; lia).
  rewrite sum_prod.
  rewrite (sum_ext (fr A) _ (fun l1 => (conj (fmx A l1 (i / fc B)%nat) * fmx A l1 (j / fc B)%nat) * eye (i mod fc B)%nat (j mod fc B)%nat)).
  - rewrite sum_mul_r. rewrite (HA _ _ Hi1 Hj1). unfold eye. rewrite (delta_divmod (fc B) i j) by auto. reflexivity.
  - intros l1 Hl1. rewrite <- (HB _ _ Hi2 Hj2). rewrite <- sum_mul_l. apply sum_ext; intros l2 Hl2.
    rewrite Nat.div_add_l, (Nat.div_small l2), Nat.add_0_r by lia.
    rewrite (Nat.add_comm (l1 * fr B)), Nat.mod_add, (Nat.mod_small l2) by lia. rewrite conj_mul. ring. Qed.
Lemma Co_kron2 (A B : fac) : (0 < fr B)%nat -> (0 < fc B)%nat ->
  Com (fr A) (fc A) (fmx A) -> Com (fr B) (fc B) (fmx B) -> Com (fr A * fr B) (fc A * fc B) (fmx (kron2 A B)).
Proof. intros PR PC HA HB i j Hi Hj. cbn [kron2 fmx].
  assert (Hi1 : (i / fr B < fr A)%nat) by (apply Nat.div_lt_upper_bound; nia).
  assert (Hj1 : (j / fr B < fr A)%nat) by (apply Nat.div_lt_upper_bound; nia).
  assert (Hi2 : (i mod fr B < fr B)%nat) by (apply Nat.mod_upper_bound; lia).
  assert (Hj2 : (j mod fr B < fr B)%nat) by (apply Nat.mod_upper_bound; lia).
  rewrite sum_prod.
  rewrite (sum_ext (fc A) _ (fun l1 => (fmx A (i / fr B)%nat l1 * conj (fmx A (j / fr B)%nat l1)) * eye (i mod fr B)%nat (j mod fr B)%nat)).
  - rewrite sum_mul_r. rewrite (HA _ _ Hi1 Hj1). unfold eye. rewrite (delta_divmod (fr B) i j) by auto. reflexivity.
  - intros l1 Hl1. rewrite <- (HB _ _ Hi2 Hj2). rewrite <- sum_mul_l. apply sum_ext; intros l2 Hl2.
    rewrite Nat.div_add_l, (Nat.div_small l2), Nat.add_0_r by lia.
    rewrite (Nat.add_comm (l1 * fc B)), Nat.mod_add, (Nat.mod_small l2) by lia. rewrite conj_mul. ring. Qed.
Lemma SA_kron2 (A B : fac) : fr A = fc A -> fr B = fc B -> (0 < fr B)%nat ->
  SAm (fr A) (fmx A) -> SAm (fr B) (fmx B) -> SAm (fr A * fr B) (fmx (kron2 A B)).
Proof. intros EA EB PB HA HB i j Hi Hj. cbn [kron2 fmx]. rewrite <- EB. rewrite conj_mul.
  rewrite <- (HA (i / fr B) (j / fr B))%nat by (apply Nat.div_lt_upper_bound; nia).
  rewrite <- (HB (i mod fr B) (j mod fr B))%nat by (apply Nat.mod_upper_bound; lia). reflexivity. Qed.
Lemma PSD_kron2 (A B : fac) : fr A = fc A -> fr B = fc B -> (0 < fr B)%nat ->
  PSDm (fr A) (fmx A) -> PSDm (fr B) (fmx B) -> PSDm (fr A * fr B) (fmx (kron2 A B)).
Proof. intros EA EB PB (k1 & G1 & d1 & H1 & E1) (k2 & G2 & d2 & H2 & E2).
  exists (k1 * k2)%nat, (fun l i => G1 (l / k2)%nat (i / fr B)%nat * G2 (l mod k2)%nat (i mod fr B)%nat), (fun l => d1 (l / k2)%nat * d2 (l mod k2)%nat).
  split.
  - intros l Hl. assert (0 < k2)%nat by nia. apply nonneg_mul; [apply H1; apply Nat.div_lt_upper_bound; nia|apply H2; apply Nat.mod_upper_bound; lia].
  - intros i j Hi Hj. cbn [kron2 fmx]. rewrite <- EB.
    rewrite E1 by (apply Nat.div_lt_upper_bound; nia). rewrite E2 by (apply Nat.mod_upper_bound; lia).
    unfold gram. rewrite sum_prod. rewrite <- sum_mul_r. apply sum_ext; intros l1 Hl1. rewrite <- sum_mul_l. apply sum_ext; intros l2 Hl2.
    rewrite Nat.div_add_l, (Nat.div_small l2), Nat.add_0_r by lia.
    rewrite (Nat.add_comm (l1 * k2)), Nat.mod_add, (Nat.mod_small l2) by lia. rewrite conj_mul. ring. Qed.
Lemma holdsF_kron2 a (A B : fac) : (0 < fr B)%nat -> (0 < fc B)%nat -> holdsF a A -> holdsF a B -> holdsF a (kron2 A B).
Proof. intros PR PC HA HB. unfold holdsF in *. destruct a; cbn [C05_Sem.holds fst snd kron2 fr fc] in *.
  - destruct HA as [EA HA], HB as [EB HB]. split; [congruence|]. apply SA_kron2; auto.
  - destruct HA as [EA HA], HB as [EB HB]. split; [congruence|]. apply PSD_kron2; auto.
  - apply St_kron2; auto.
  - destruct HA as [EA [HA1 HA2]], HB as [EB [HB1 HB2]]. split; [congruence|].
    destruct A as [ra ca MA], B as [rb cb MB]; cbn [fr fc fmx] in *; subst ca cb. split.
    + apply (St_kron2 (mkfac ra ra MA) (mkfac rb rb MB)); auto.
    + apply (Co_kron2 (mkfac ra ra MA) (mkfac rb rb MB)); auto. Qed.
Lemma holdsF_kronR a (l : list fac) : pos l -> Forall (holdsF a) l -> holdsF a (kronR l).
Proof. intros P H. induction H as [|M l HM Hl IH]; [apply holdsF_one|]. cbn [kronR].
  assert (P' : pos l). { unfold pos in *. cbn [forallb] in P. apply andb_prop in P; tauto. }
  destruct (fr_kronR_pos l P'). apply holdsF_kron2; auto. Qed.

(* block diagonal *)
Definition holdsB (a : annot) (b : blk) := holds a (fst b) (snd b).
Lemma bd_cons_eq (s : shp) (M : fm) (L : list blk) i j : bd ((s, M) :: L) i j =
  if (i <? fst s)%nat then (if (j <? snd s)%nat then M i j else r0) else (if (j <? snd s)%nat then r0 else bd L (i - fst s)%nat (j - snd s)%nat).
Proof. reflexivity. Qed.
Lemma holds_bd a (L : list blk) : Forall (holdsB a) L -> holds a (rowsB L, colsB L) (bd L).
Proof. intros H. induction H as [|[[r c] M] L HM HL IH].
  - cbn [rowsB colsB fold_right bd]. destruct a; cbn [C05_Sem.holds fst snd]; try split; try split; auto; try (intros i j Hi Hj; lia).
    exists 0%nat, zerom, (fun _ => r0). split; [intros; lia|]. intros i j Hi Hj; lia.
  - unfold holdsB in HM. cbn [fst snd] in HM. cbn [rowsB colsB fold_right fst snd]. fold (rowsB L). fold (colsB L).
    destruct a; cbn [C05_Sem.holds fst snd] in *.
    + destruct HM as [-> HM], IH as [E IH]. split; [congruence|]. intros i j Hi Hj. rewrite !bd_cons_eq. cbn [fst snd].
      destruct (Nat.ltb_spec i c), (Nat.ltb_spec j c); try (rewrite conj_0; reflexivity).
      * apply HM; auto.
      * apply IH; lia.
    + destruct HM as [-> (k1 & G1 & d1 & H1 & E1)], IH as [E (k2 & G2 & d2 & H2 & E2)]. split; [congruence|].
      exists (k1 + k2)%nat,
        (fun l i => if (l <? k1)%nat then (if (i <? c)%nat then G1 l i else r0) else (if (i <? c)%nat then r0 else G2 (l - k1)%nat (i - c)%nat)),
        (fun l => if (l <? k1)%nat then d1 l else d2 (l - k1)%nat).
      split. { intros l Hl. destruct (Nat.ltb_spec l k1); [apply H1; auto|apply H2; lia]. }
      intros i j Hi Hj. rewrite bd_cons_eq. cbn [fst snd]. unfold gram. rewrite sum_app.
      rewrite (sum_ext k1 _ (fun l => if (i <? c)%nat then (if (j <? c)%nat then conj (G1 l i) * d1 l * G1 l j else r0) else r0)).
      2:{ intros l Hl. destruct (Nat.ltb_spec l k1); [|lia]. destruct (i <? c)%nat, (j <? c)%nat; rewrite ?conj_0; ring. }
      rewrite (sum_ext k2 _ (fun l => if (i <? c)%nat then r0 else (if (j <? c)%nat then r0 else conj (G2 l (i - c)%nat) * d2 l * G2 l (j - c)%nat))).
      2:{ intros l Hl. destruct (Nat.ltb_spec (k1 + l) k1); [lia|]. replace (k1 + l - k1)%nat with l by lia.
          destruct (i <? c)%nat, (j <? c)%nat; rewrite ?conj_0; ring. }
      destruct (Nat.ltb_spec i c), (Nat.ltb_spec j c).
      * rewrite sum_zero. rewrite E1 by auto. unfold gram. ring.
      * rewrite !sum_zero. ring.
      * rewrite !sum_zero. ring.
      * rewrite sum_zero. rewrite E2 by lia. unfold gram. ring.
    + intros i j Hi Hj. rewrite sum_app.
      rewrite (sum_ext r _ (fun l => if (i <? c)%nat then (if (j <? c)%nat then conj (M l i) * M l j else r0) else r0)).
      2:{ intros l Hl. rewrite !bd_cons_eq. cbn [fst snd]. destruct (Nat.ltb_spec l r); [|lia]. destruct (i <? c)%nat, (j <? c)%nat; rewrite ?conj_0; ring. }
      rewrite (sum_ext (rowsB L) _ (fun l => if (i <? c)%nat then r0 else (if (j <? c)%nat then r0 else conj (bd L l (i - c)%nat) * bd L l (j - c)%nat))).
      2:{ intros l Hl. rewrite !bd_cons_eq. cbn [fst snd]. destruct (Nat.ltb_spec (r + l) r); [lia|]. replace (r + l - r)%nat with l by lia.
          destruct (i <? c)%nat, (j <? c)%nat; rewrite ?conj_0; ring. }
      unfold eye, delta. destruct (Nat.ltb_spec i c), (Nat.ltb_spec j c).
      * rewrite sum_zero. rewrite (HM i j) by auto. unfold eye, delta. ring.
      * rewrite !sum_zero. destruct (Nat.eqb_spec i j); [lia|ring].
      * rewrite !sum_zero. destruct (Nat.eqb_spec i j); [lia|ring].
      * rewrite sum_zero. rewrite (IH (i - c) (j - c))%nat by lia. unfold eye, delta.
        destruct (Nat.eqb_spec (i - c) (j - c)), (Nat.eqb_spec i j); try lia; ring.
    + destruct HM as [-> [HM1 HM2]], IH as [E [IH1 IH2]]. split; [congruence|]. split.
      * intros i j Hi Hj. rewrite sum_app.
        rewrite (sum_ext c _ (fun l => if (i <? c)%nat then (if (j <? c)%nat then conj (M l i) * M l j else r0) else r0)).
        2:{ intros l Hl. rewrite !bd_cons_eq. cbn [fst snd]. destruct (Nat.ltb_spec l c); [|lia]. destruct (i <? c)%nat, (j <? c)%nat; rewrite ?conj_0; ring. }
        rewrite (sum_ext (rowsB L) _ (fun l => if (i <? c)%nat then r0 else (if (j <? c)%nat then r0 else conj (bd L l (i - c)%nat) * bd L l (j - c)%nat))).
        2:{ intros l Hl. rewrite !bd_cons_eq. cbn [fst snd]. destruct (Nat.ltb_spec (c + l) c); [lia|]. replace (c + l - c)%nat with l by lia.
            destruct (i <? c)%nat, (j <? c)%nat; rewrite ?conj_0; ring. }
        unfold eye, delta. destruct (Nat.ltb_spec i c), (Nat.ltb_spec j c).
        -- rewrite sum_zero. rewrite (HM1 i j) by auto. unfold eye, delta. ring.
        -- rewrite !sum_zero. destruct (Nat.eqb_spec i j); [lia|ring].
        -- rewrite !sum_zero. destruct (Nat.eqb_spec i j); [lia|ring].
        -- rewrite sum_zero. rewrite (IH1 (i - c) (j - c))%nat by lia. unfold eye, delta.
           destruct (Nat.eqb_spec (i - c) (j - c)), (Nat.eqb_spec i j); try lia; ring.
      * intros i j Hi Hj. rewrite sum_app.
        rewrite (sum_ext c _ (fun l => if (i <? c)%nat then (if (j <? c)%nat then M i l * conj (M j l) else r0) else r0)).
        2:{ intros l Hl. rewrite !bd_cons_eq. cbn [fst snd]. destruct (Nat.ltb_spec l c); [|lia]. destruct (i <? c)%nat, (j <? c)%nat; rewrite ?conj_0; ring. }
        rewrite (sum_ext (rowsB L) _ (fun l => if (i <? c)%nat then r0 else (if (j <? c)%nat then r0 else bd L (i - c)%nat l * conj (bd L (j - c)%nat l)))).
        2:{ intros l Hl. rewrite !bd_cons_eq. cbn [fst snd]. destruct (Nat.ltb_spec (c + l) c); [lia|]. replace (c + l - c)%nat with l by lia.
            destruct (i <? c)%nat, (j <? c)%nat; rewrite ?conj_0; ring. }
        unfold eye, delta. destruct (Nat.ltb_spec i c), (Nat.ltb_spec j c).
        -- rewrite sum_zero. rewrite (HM2 i j) by auto. unfold eye, delta. ring.
        -- rewrite !sum_zero. destruct (Nat.eqb_spec i j); [lia|ring].
        -- rewrite !sum_zero. destruct (Nat.eqb_spec i j); [lia|ring].
        -- rewrite sum_zero. rewrite (IH2 (i - c) (j - c))%nat by lia. unfold eye, delta.
           destruct (Nat.eqb_spec (i - c) (j - c)), (Nat.eqb_spec i j); try lia; ring.
Qed.
End Sem2.
