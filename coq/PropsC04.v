(* Property C04: rule selection is total and unambiguous over the whole finite lattice.
   Only statements closed by [exact]; the lemmas live in C04_Resolver.v (algorithm, generic lemmas) and C04_Proofs.v
   (finite sweeps over the table regenerated from the live plum registry, C04_RuleTable.v). *)
From Coq Require Import List ZArith NArith PArith Bool String.
From Core Require Import C04_Resolver C04_RuleTable C04_Proofs.
Import ListNotations.

(* for every function of the lattice and every admissible call (operator kind(s) x annotation variant x algorithm
   class x positional/keyword/omitted optional arguments) the plum resolution algorithm, run on the live table,
   selects exactly one rule -- or the dispatched class tuple is in the committed exception list with that failure *)
Theorem C04_total_unambiguous :
  forall fs, In fs specs_full -> forall req opt, admissible fs req opt ->
    (exists i, select fs req opt = Unique i)
    \/ (select fs req opt = Ambiguous /\ is_known KAmbiguous fs req opt)
    \/ (select fs req opt = NotFound /\ is_known KNotFound fs req opt).
Proof. exact total_unambiguous_modulo_known. Qed.
Print Assumptions C04_total_unambiguous.

(* whatever Algorithm object is passed -- every Algorithm subclass of the live package in every algorithm position,
   documented for that function or not -- two rules never tie (the call may find no rule for an algorithm the
   function does not accept, or reach a rule that raises: both outside C04) *)
Theorem C04_no_ties_any_algorithm :
  forall fs, In fs specs_ext -> forall req opt, admissible fs req opt ->
    select fs req opt = Ambiguous -> is_known KAmbiguous fs req opt.
Proof. exact no_ties_any_algorithm. Qed.
Print Assumptions C04_no_ties_any_algorithm.

(* the swept list is the complete lattice: a call is enumerated iff every required argument is in its admissible set
   and the optional arguments form a valid python call with values from their admissible sets *)
Theorem C04_lattice_complete : forall fs req opt, In (req, opt) (calls fs) <-> admissible fs req opt.
Proof. exact lattice_complete. Qed.
Print Assumptions C04_lattice_complete.

(* the model of plum's default-argument expansion reproduces the live method lists from the registrations *)
Theorem C04_default_expansion : map (fun p => expand (fst p)) raw_tables = map snd raw_tables.
Proof. exact default_expansion_agrees. Qed.
Print Assumptions C04_default_expansion.

(* Unique i is a registered signature that accepts the dispatched arguments *)
Theorem C04_selected_rule_applies : forall fs req opt i, select fs req opt = Unique i ->
  exists r, nth_error (frules fs) i = Some r /\ matches bear_row (dispatched fs req opt) (i, r) = true.
Proof. exact selected_rule_applies. Qed.
Print Assumptions C04_selected_rule_applies.

(* NotFound is exactly "no registered signature accepts the arguments" *)
Theorem C04_notfound_means_no_rule : forall fs req opt, select fs req opt = NotFound ->
  forall i r, nth_error (frules fs) i = Some r -> matches bear_row (dispatched fs req opt) (i, r) = false.
Proof. exact notfound_means_no_rule. Qed.
Print Assumptions C04_notfound_means_no_rule.

(* resolution sees an argument only through its isinstance row and the condition bits (soundness of the
   (class, annotations, all-factors-square) abstraction and of the reduced lattice of the quick tier) *)
Theorem C04_verdict_depends_on_rows_only : forall rules args args',
  map bear_row args = map bear_row args' ->
  (forall r, In r rules -> cond_holds (rcond r) args = cond_holds (rcond r) args') ->
  resolve le_row bear_row rules args = resolve le_row bear_row rules args'.
Proof. exact verdict_depends_on_rows_only. Qed.
Print Assumptions C04_verdict_depends_on_rows_only.

(* closure under the dispatched calls the rules themselves make (Auto -> LU/Cholesky/CG/GMRES, pow -> inv,
   cholesky -> sqrt, slogdet(LU) -> slogdet(Product), factor-wise recursion, operator algebra inside rules): every
   instance of the hand-written call graph is in the lattice, so it selects a unique rule or is a committed exception *)
Theorem C04_second_level_total : forall t, In t templates ->
  exists fs, In fs specs_full /\ fname fs = tcallee t /\
  forall req opt, In req (prod (treq t)) -> In opt (prod (topt t)) ->
    admissible fs req opt /\
    ((exists i, select fs req opt = Unique i)
     \/ (select fs req opt = Ambiguous /\ is_known KAmbiguous fs req opt)
     \/ (select fs req opt = NotFound /\ is_known KNotFound fs req opt)).
Proof. exact second_level_total. Qed.
Print Assumptions C04_second_level_total.

(* frozen fragment of the pinned tree: A @ Identity is ambiguous among the six dot rules of cola/fns.py:63-90 ... *)
Theorem C04_pinned_dot_identity_refuted :
  exists args, Forall (fun r => In r [1;2;3]%positive) args /\ resolve pin_le pin_bear pin_dot args = Ambiguous.
Proof. exact pinned_dot_identity_refuted. Qed.
Print Assumptions C04_pinned_dot_identity_refuted.

(* ... and the repair sketched in DESIGN.md (precedence on the Identity rules + a rule for the pair) is unambiguous *)
Theorem C04_pinned_dot_identity_repaired :
  forallb (fun args => match resolve pin_le pin_bear pin_dot_fixed args with Unique _ => true | _ => false end)
          (prod [[1;2;3]; [1;2;3]]%positive) = true.
Proof. exact pinned_dot_identity_repaired. Qed.
Print Assumptions C04_pinned_dot_identity_repaired.
