(* C13: in-Coq comparison of the PrimFloat instances of the Arnoldi/GMRES model with results observed on the
   implementation.  Generated files (run/gen/c13_*.v) define [cases] and evaluate [failing_*]; only the list of
   failing case indices is parsed by the harness. *)
From Coq Require Import List Bool Arith NArith PrimFloat.
From Core Require Import C12_Ops C13_Model.
Import ListNotations.

Record gcase (T : Type) := mkgcase {
  gA : list (list T);        (* dense operator, rows *)
  gB : list (list T);        (* right-hand sides, one list per column *)
  gX0 : list (list T);       (* initial guesses, one list per column *)
  gtol : T; gmfac : T; gm : N; gflag : bool; gfpad : bool; gfself : bool; gfzero : bool; gfabs : bool;
  geX : list (list T);       (* cola's solution, per column *)
  geScale : list float;      (* per column: max |entry| of cola's solution *)
  geSteps : N                (* number of products with A, minus the one for the initial residual *)
}.
Arguments gA {T}. Arguments gB {T}. Arguments gX0 {T}. Arguments gtol {T}. Arguments gmfac {T}. Arguments gm {T}. Arguments gflag {T}. Arguments gfpad {T}. Arguments gfself {T}. Arguments gfzero {T}. Arguments gfabs {T}.
Arguments geX {T}. Arguments geScale {T}. Arguments geSteps {T}.

Section Check.
Context {T : Type} (o : ops T) (close : float -> float -> T -> T -> bool) (rtol : float).
Definition grun (c : gcase T) : gres (V:=list T) :=
  gmres_fwd o (lvops o) (mv o (gA c)) (ge_solve o) (gflag c) (gfpad c) (gfself c) (gfzero c) (gfabs c) (gtol c) (gmfac c) (N.to_nat (gm c)) (length (gA c)) (gB c) (gX0 c).
Definition gagree (c : gcase T) : bool :=
  let r := grun c in
  N.eqb (N.of_nat (gsteps r)) (geSteps c)
  && all2 (fun xs es => all2 (close rtol (snd es)) xs (fst es)) (gsol r) (combine (geX c) (geScale c)).
End Check.
Definition grtol_f : float := 0x1.12e0be826d695p-30%float.   (* 1e-9 *)
Definition failing_real := failing (gagree FR fclose grtol_f) 0.
Definition failing_cplx := failing (gagree FC cclose grtol_f) 0.
