(* C18 - the per-class attribute registry `_dynamic`, tree_flatten / tree_unflatten, WrapMeta.__call__, `.to`.

   Anchors: cola/ops/operator_base.py:18 (the five pre-registered static names), :38-43 (__setattr__: the FIRST assignment
   of a name on any instance of the class decides array-parameter vs static for the whole class), :191-219
   (tree_flatten sorted by attribute name / tree_unflatten), :89-95 (flatten), :45-50 (to);
   cola/backends/backends.py:75-102 (AutoRegisteringPyTree: a class copies its parent's map when it is created -
   also every concrete parametric class Product[Dense,Diagonal], created on first use);
   cola/annotations.py:34-42 (WrapMeta.__call__: unflatten(flatten(obj)) then a new annotation set).

   Python values are abstracted to what the registry looks at. *)
From Coq Require Import List String Bool Arith Lia.
Import ListNotations.
Open Scope string_scope.
Open Scope list_scope.

Definition name := string.
Definition cls := string.     (* a concrete class, type parameters included: "Product[Dense,Diagonal]" *)

Inductive val : Type :=
| VArr (id : nat)                      (* an array of the backend, identified by its buffer *)
| VAtom (tag : string)                 (* any other leaf: int, float, slice, function, dtype, str, scipy matrix, ... *)
| VNone                                (* None: optree treats it as an empty node, not a leaf *)
| VTup (vs : list val)                 (* tuple / list *)
| VOp (c : cls) (fs : list (name * val)).   (* a LinearOperator: class and vars(self), sorted by name *)

(* induction principle for the nested type *)
Section ValInd.
Variable P : val -> Prop.
Hypothesis HArr : forall i, P (VArr i).
Hypothesis HAtom : forall t, P (VAtom t).
Hypothesis HNone : P VNone.
Hypothesis HTup : forall vs, Forall P vs -> P (VTup vs).
Hypothesis HOp : forall c fs, Forall (fun nv => P (snd nv)) fs -> P (VOp c fs).
Fixpoint val_ind2 (v : val) : P v :=
  match v with
  | VArr i => HArr i | VAtom t => HAtom t | VNone => HNone
  | VTup vs => HTup vs ((fix go (l : list val) : Forall P l := match l with [] => Forall_nil _ | x :: r => Forall_cons _ (val_ind2 x) (go r) end) vs)
  | VOp c fs => HOp c fs ((fix go (l : list (name * val)) : Forall (fun nv => P (snd nv)) l :=
                             match l with [] => Forall_nil _ | x :: r => Forall_cons _ (val_ind2 (snd x)) (go r) end) fs)
  end.
End ValInd.

(* ---------------- the registry ---------------- *)
Definition cmap := list (name * bool).
Definition reg := list (cls * cmap).
Definition base_map : cmap := [("xnp", false); ("shape", false); ("dtype", false); ("device", false); ("annotations", false)].

Fixpoint cfind (m : cmap) (n : name) : option bool :=
  match m with [] => None | (k, b) :: r => if String.eqb k n then Some b else cfind r n end.
Fixpoint rfind (r : reg) (c : cls) : option cmap :=
  match r with [] => None | (k, m) :: t => if String.eqb k c then Some m else rfind t c end.
Definition registered (r : reg) (c : cls) (n : name) : bool :=
  match rfind r c with Some m => match cfind m n with Some _ => true | None => false end | None => false end.
(* self._dynamic[key]; a missing key is a KeyError in Python - never reached for constructed operators (registered_after_construct) *)
Definition dyn (r : reg) (c : cls) (n : name) : bool :=
  match rfind r c with Some m => match cfind m n with Some b => b | None => false end | None => false end.

Fixpoint radd (r : reg) (c : cls) (n : name) (b : bool) : reg :=
  match r with
  | [] => [(c, [(n, b)])]      (* not reached: the class is declared first *)
  | (k, m) :: t => if String.eqb k c then (k, m ++ [(n, b)]) :: t else (k, m) :: radd t c n b
  end.

(* AutoRegisteringPyTree.__init__: cls._dynamic = cls._dynamic.copy()  (the parent's map at class-creation time) *)
Definition declare (r : reg) (c parent : cls) : reg :=
  match rfind r c with
  | Some _ => r
  | None => r ++ [(c, match rfind r parent with Some m => m | None => base_map end)]
  end.

(* ---------------- flattening ---------------- *)
Definition is_array (v : val) : bool := match v with VArr _ => true | _ => false end.
Definition definitely_dynamic (v : val) : bool := match v with VArr _ | VOp _ _ => true | _ => false end.

(* optree.tree_flatten(value, namespace='cola')[0] under registry r *)
Fixpoint leaves (r : reg) (v : val) : list val :=
  match v with
  | VArr _ | VAtom _ => [v]
  | VNone => []
  | VTup vs => (fix go (l : list val) : list val := match l with [] => [] | x :: t => leaves r x ++ go t end) vs
  | VOp c fs => (fix go (l : list (name * val)) : list val :=
                   match l with [] => [] | (n, x) :: t => (if dyn r c n then leaves r x else []) ++ go t end) fs
  end.

(* LinearOperator.__setattr__ *)
Definition cond_of (r : reg) (v : val) : bool := definitely_dynamic v || existsb is_array (leaves r v).
Definition setattr (r : reg) (c : cls) (n : name) (v : val) : reg :=
  if registered r c n then r else radd r c n (cond_of r v).

(* constructing an instance: the class exists (declare), then the assignments of __init__ in program order *)
Definition assign_all (r : reg) (c : cls) (fs : list (name * val)) : reg :=
  fold_left (fun r nv => setattr r c (fst nv) (snd nv)) fs r.
Fixpoint insert_sorted (nv : name * val) (l : list (name * val)) : list (name * val) :=
  match l with
  | [] => [nv]
  | x :: t => if String.eqb (fst nv) (fst x) then nv :: t            (* re-assignment replaces *)
              else if String.ltb (fst nv) (fst x) then nv :: x :: t else x :: insert_sorted nv t
  end.
Definition vars_of (fs : list (name * val)) : list (name * val) := fold_left (fun acc nv => insert_sorted nv acc) fs [].
Record ctor := { k_cls : cls; k_parent : cls; k_assigns : list (name * val) }.
Definition construct (r : reg) (k : ctor) : reg * val :=
  (assign_all (declare r (k_cls k) (k_parent k)) (k_cls k) (k_assigns k), VOp (k_cls k) (vars_of (k_assigns k))).
(* what happens in the process, in order: a class is created (import of a module, definition of a user subclass; a
   concrete parametric class is created by the first call that needs it - that is the `declare` inside `construct`),
   or an operator is constructed *)
Inductive event := EDecl (c parent : cls) | ECons (k : ctor).
Definition step (r : reg) (e : event) : reg :=
  match e with EDecl c p => declare r c p | ECons k => fst (construct r k) end.
Definition run_hist (h : list event) (r : reg) : reg := fold_left step h r.

(* ---------------- treedef and unflatten ---------------- *)
Inductive tdef : Type :=
| TLeaf | TNone
| TStatic (v : val)                          (* aux data: (key, value) *)
| TTup (ts : list tdef)
| TOp (c : cls) (items : list (name * tdef)).

Fixpoint treedef (r : reg) (v : val) : tdef :=
  match v with
  | VArr _ | VAtom _ => TLeaf
  | VNone => TNone
  | VTup vs => TTup ((fix go (l : list val) : list tdef := match l with [] => [] | x :: t => treedef r x :: go t end) vs)
  | VOp c fs => TOp c ((fix go (l : list (name * val)) : list (name * tdef) :=
                          match l with [] => [] | (n, x) :: t => (n, if dyn r c n then treedef r x else TStatic x) :: go t end) fs)
  end.

(* optree.tree_unflatten: consumes leaves left to right; every operator node is rebuilt by cls.tree_unflatten *)
Fixpoint build (t : tdef) (ls : list val) : option (val * list val) :=
  match t with
  | TLeaf => match ls with x :: r => Some (x, r) | [] => None end
  | TNone => Some (VNone, ls)
  | TStatic v => Some (v, ls)
  | TTup ts =>
      match (fix go (l : list tdef) (ls : list val) : option (list val * list val) :=
               match l with
               | [] => Some ([], ls)
               | x :: r => match build x ls with
                           | Some (v, ls1) => match go r ls1 with Some (vs, ls2) => Some (v :: vs, ls2) | None => None end
                           | None => None end
               end) ts ls with
      | Some (vs, rest) => Some (VTup vs, rest) | None => None end
  | TOp c items =>
      match (fix go (l : list (name * tdef)) (ls : list val) : option (list (name * val) * list val) :=
               match l with
               | [] => Some ([], ls)
               | (n, x) :: r => match build x ls with
                                | Some (v, ls1) => match go r ls1 with Some (vs, ls2) => Some ((n, v) :: vs, ls2) | None => None end
                                | None => None end
               end) items ls with
      | Some (fs, rest) => Some (VOp c fs, rest) | None => None end
  end.

Definition flatten (r : reg) (v : val) : list val * tdef := (leaves r v, treedef r v).
Definition unflatten (t : tdef) (ls : list val) : option val :=
  match build t ls with Some (v, []) => Some v | _ => None end.

(* ---------------- flatten_roundtrip ---------------- *)
Lemma build_treedef r v : forall rest, build (treedef r v) (leaves r v ++ rest) = Some (v, rest).
Proof.
  induction v as [i|t| |vs IH|c fs IH] using val_ind2; intros rest; cbn [treedef leaves build app]; try reflexivity.
  - (* tuple *)
    assert (H : forall rest,
      (fix go (l : list tdef) (ls : list val) : option (list val * list val) :=
               match l with
               | [] => Some ([], ls)
               | x :: r0 => match build x ls with
                           | Some (v, ls1) => match go r0 ls1 with Some (vs, ls2) => Some (v :: vs, ls2) | None => None end
                           | None => None end
               end)
       ((fix go (l : list val) : list tdef := match l with [] => [] | x :: t => treedef r x :: go t end) vs)
       ((fix go (l : list val) : list val := match l with [] => [] | x :: t => leaves r x ++ go t end) vs ++ rest)
      = Some (vs, rest)).
    { induction IH as [|x l Hx Hl IHl]; intros rest0; [reflexivity|].
      rewrite <- app_assoc. rewrite Hx. rewrite IHl. reflexivity. }
    rewrite H. reflexivity.
  - (* operator *)
    assert (H : forall rest,
      (fix go (l : list (name * tdef)) (ls : list val) : option (list (name * val) * list val) :=
               match l with
               | [] => Some ([], ls)
               | (n, x) :: r0 => match build x ls with
                                | Some (v, ls1) => match go r0 ls1 with Some (vs, ls2) => Some ((n, v) :: vs, ls2) | None => None end
                                | None => None end
               end)
       ((fix go (l : list (name * val)) : list (name * tdef) :=
                          match l with [] => [] | (n, x) :: t => (n, if dyn r c n then treedef r x else TStatic x) :: go t end) fs)
       ((fix go (l : list (name * val)) : list val :=
                   match l with [] => [] | (n, x) :: t => (if dyn r c n then leaves r x else []) ++ go t end) fs ++ rest)
      = Some (fs, rest)).
    { induction IH as [|[n x] l Hx Hl IHl]; intros rest0; [reflexivity|].
      rewrite <- app_assoc. cbn [snd] in Hx. destruct (dyn r c n).
      - rewrite Hx. rewrite IHl. reflexivity.
      - cbn [build app]. rewrite IHl. reflexivity. }
    rewrite H. reflexivity.
Qed.

(* unflatten (flatten A) is A: same class, same fields (in particular the same annotations), for EVERY registry state,
   i.e. after every construction history *)
Theorem flatten_roundtrip : forall (r : reg) (v : val), unflatten (snd (flatten r v)) (fst (flatten r v)) = Some v.
Proof. intros r v. unfold unflatten, flatten. cbn [fst snd].
  pose proof (build_treedef r v []) as H. rewrite app_nil_r in H. rewrite H. reflexivity. Qed.

(* ---------------- first instance decides ---------------- *)
Lemma cfind_app m n b k : cfind (m ++ [(n, b)]) k = match cfind m k with Some x => Some x | None => if String.eqb n k then Some b else None end.
Proof. induction m as [|[a x] m IH]; cbn; [reflexivity|]. destruct (String.eqb a k); auto. Qed.

Lemma rfind_radd r c n b c' : rfind r c <> None ->
  rfind (radd r c n b) c' = if String.eqb c c' then option_map (fun m => m ++ [(n, b)]) (rfind r c') else rfind r c'.
Proof. induction r as [|[k m] t IH]; cbn [rfind radd]; intros H; [congruence|].
  destruct (String.eqb_spec k c) as [->|Hk].
  - cbn [rfind]. destruct (String.eqb c c'); reflexivity.
  - cbn [rfind]. destruct (String.eqb_spec k c') as [->|Hk'].
    + destruct (String.eqb_spec c c'); [congruence|]. reflexivity.
    + apply IH. exact H. Qed.

Lemma setattr_keeps r c n v c' n' : rfind r c <> None -> registered r c' n' = true ->
  registered (setattr r c n v) c' n' = true /\ dyn (setattr r c n v) c' n' = dyn r c' n'.
Proof. intros Hc Hr. unfold setattr. destruct (registered r c n) eqn:E; [auto|].
  unfold registered, dyn in *. rewrite (rfind_radd r c n _ c' Hc).
  destruct (String.eqb_spec c c') as [->|Hne]; [|auto].
  destruct (rfind r c') as [m|]; [|discriminate]. cbn [option_map]. rewrite cfind_app.
  destruct (cfind m n'); [auto|discriminate]. Qed.

Lemma rfind_app r c x c' : rfind (r ++ [(c, x)]) c' = match rfind r c' with Some m => Some m | None => if String.eqb c c' then Some x else None end.
Proof. induction r as [|[k m] t IH]; cbn [rfind app]; [reflexivity|]. destruct (String.eqb k c'); auto. Qed.
Lemma rfind_declare r c p c' : rfind r c' <> None -> rfind (declare r c p) c' = rfind r c'.
Proof. intros H. unfold declare. destruct (rfind r c) eqn:E; [reflexivity|]. rewrite rfind_app.
  destruct (rfind r c'); [reflexivity|congruence]. Qed.
Lemma rfind_declare_self r c p : rfind (declare r c p) c <> None.
Proof. unfold declare. destruct (rfind r c) eqn:E; [congruence|]. rewrite rfind_app, E, String.eqb_refl. discriminate. Qed.

Lemma setattr_rfind r c n v c' : rfind r c <> None -> rfind r c' <> None -> rfind (setattr r c n v) c' <> None.
Proof. intros Hc Hc'. unfold setattr. destruct (registered r c n); [auto|]. rewrite rfind_radd by auto.
  destruct (String.eqb c c'); [|auto]. destruct (rfind r c'); [discriminate|congruence]. Qed.

Lemma assign_all_keeps fs : forall r c c' n', rfind r c <> None -> registered r c' n' = true ->
  registered (assign_all r c fs) c' n' = true /\ dyn (assign_all r c fs) c' n' = dyn r c' n'.
Proof. unfold assign_all. induction fs as [|[n v] fs IH]; intros r c c' n' Hc Hr; cbn [fold_left fst snd]; [auto|].
  destruct (setattr_keeps r c n v c' n' Hc Hr) as [H1 H2].
  destruct (IH (setattr r c n v) c c' n' (setattr_rfind r c n v c Hc Hc) H1) as [H3 H4]. split; [auto|congruence]. Qed.

(* once a name is registered for a class, no later construction (of any class) changes the decision *)
Theorem first_instance_decides : forall (h : list event) (r : reg) (c : cls) (n : name),
  registered r c n = true ->
  registered (run_hist h r) c n = true /\ dyn (run_hist h r) c n = dyn r c n.
Proof. unfold run_hist. induction h as [|e h IH]; intros r c n Hr; cbn [fold_left]; [auto|].
  assert (Hc : rfind r c <> None) by (unfold registered in Hr; destruct (rfind r c); [discriminate|discriminate]).
  destruct e as [c0 p0|k]; cbn [step].
  - assert (Hd : registered (declare r c0 p0) c n = true /\ dyn (declare r c0 p0) c n = dyn r c n).
    { unfold registered, dyn. rewrite rfind_declare by exact Hc. auto. }
    destruct Hd as [Hd1 Hd2]. destruct (IH _ c n Hd1) as [H3 H4]. split; [exact H3|]. rewrite H4. exact Hd2.
  - assert (Hd : registered (declare r (k_cls k) (k_parent k)) c n = true /\ dyn (declare r (k_cls k) (k_parent k)) c n = dyn r c n).
    { unfold registered, dyn. rewrite rfind_declare by exact Hc. auto. }
    destruct Hd as [Hd1 Hd2].
    destruct (assign_all_keeps (k_assigns k) (declare r (k_cls k) (k_parent k)) (k_cls k) c n (rfind_declare_self _ _ _) Hd1) as [H1 H2].
    change (fst (construct r k)) with (assign_all (declare r (k_cls k) (k_parent k)) (k_cls k) (k_assigns k)).
    destruct (IH _ c n H1) as [H3 H4]. split; [exact H3|]. rewrite H4, H2. exact Hd2. Qed.

(* ---------------- WrapMeta.__call__ and .to ---------------- *)
Fixpoint set_field (n : name) (x : val) (fs : list (name * val)) : list (name * val) :=
  match fs with [] => [(n, x)] | (k, y) :: t => if String.eqb k n then (k, x) :: t else (k, y) :: set_field n x t end.
(* new_obj = unflatten(flatten(obj)); new_obj.annotations = obj.annotations | {a} *)
Definition wrap (r : reg) (new_ann : val) (v : val) : option val :=
  match unflatten (treedef r v) (leaves r v) with
  | Some (VOp c fs) => Some (VOp c (set_field "annotations" new_ann fs))
  | _ => None end.
Theorem wrap_spec : forall r a c fs, wrap r a (VOp c fs) = Some (VOp c (set_field "annotations" a fs)).
Proof. intros. unfold wrap. pose proof (flatten_roundtrip r (VOp c fs)) as H. unfold flatten in H. cbn [fst snd] in H. rewrite H. reflexivity. Qed.
(* LinearOperator.to(device=None): params = [move_to(p) if is_array(p) else p]; move_to(None, None) is the identity on numpy *)
Definition to_none (r : reg) (v : val) : option val := unflatten (treedef r v) (map (fun p => p) (leaves r v)).
Theorem to_none_spec : forall r v, to_none r v = Some v.
Proof. intros. unfold to_none. rewrite map_id. apply (flatten_roundtrip r v). Qed.

(* ---------------- constructed operators are registered; flatten never hits a missing key ---------------- *)
Lemma setattr_registers r c n v : rfind r c <> None -> registered (setattr r c n v) c n = true.
Proof. intros Hc. unfold setattr. destruct (registered r c n) eqn:E; [exact E|].
  unfold registered in *. rewrite rfind_radd by exact Hc. rewrite String.eqb_refl.
  destruct (rfind r c) as [m|]; [|congruence]. cbn [option_map]. rewrite cfind_app.
  destruct (cfind m n); [reflexivity|]. rewrite String.eqb_refl. reflexivity. Qed.

Theorem registered_after_construct : forall (r : reg) (k : ctor) (n : name),
  In n (map fst (k_assigns k)) -> registered (fst (construct r k)) (k_cls k) n = true.
Proof. intros r k n Hin. cbn [construct fst].
  set (r0 := declare r (k_cls k) (k_parent k)).
  assert (H0 : rfind r0 (k_cls k) <> None) by apply rfind_declare_self.
  clearbody r0. revert r0 H0. unfold assign_all. induction (k_assigns k) as [|[a v] fs IH]; intros r0 H0; [destruct Hin|].
  cbn [fold_left fst snd]. cbn [map fst] in Hin. destruct Hin as [<-|Hin].
  - pose proof (setattr_registers r0 (k_cls k) a v H0) as H1.
    exact (proj1 (assign_all_keeps fs (setattr r0 (k_cls k) a v) (k_cls k) (k_cls k) a (setattr_rfind _ _ _ _ _ H0 H0) H1)).
  - apply IH; [exact Hin|]. apply setattr_rfind; exact H0. Qed.

(* ---------------- history dependence on the pinned tree: a concrete two-step witness ---------------- *)
Definition reg0 : reg := [("LinearOperator", base_map)].
Definition statics : list (name * val) :=
  [("device", VNone); ("dtype", VAtom "dtype"); ("shape", VAtom "tuple"); ("xnp", VAtom "module"); ("annotations", VAtom "set")].
Definition k_dense (a : nat) : ctor := {| k_cls := "Dense"; k_parent := "LinearOperator"; k_assigns := ("A", VArr a) :: statics |}.
Definition v_dense (a : nat) : val := VOp "Dense" (vars_of (("A", VArr a) :: statics)).
(* BlockDiag.__init__: self.Ms = tuple(lazify(M)); self.multiplicities = ...; super().__init__(...) *)
Definition k_blockdiag (mult : val) : ctor :=
  {| k_cls := "BlockDiag[Dense,Dense]"; k_parent := "BlockDiag";
     k_assigns := ("Ms", VTup [v_dense 1; v_dense 2]) :: ("multiplicities", mult) :: statics |}.
Definition mult_list : val := VTup [VAtom "int"; VAtom "int"].     (* multiplicities=[1, 2] *)
Definition mult_array : val := VArr 9.                             (* multiplicities=np.array([1, 2]) *)
Definition leaves_after (h : list event) (k : ctor) : list val :=
  let (r, v) := construct (run_hist h reg0) k in leaves r v.

Definition h_plain : list event := [EDecl "Dense" "LinearOperator"; EDecl "BlockDiag" "LinearOperator"; ECons (k_dense 1); ECons (k_dense 2)].
Definition h_array_first : list event := h_plain ++ [ECons (k_blockdiag mult_array)].

Example leaves_plain : leaves_after h_plain (k_blockdiag mult_list) = [VArr 1; VArr 2].
Proof. vm_compute. reflexivity. Qed.
Example leaves_array_first : leaves_after h_array_first (k_blockdiag mult_list) = [VArr 1; VArr 2; VAtom "int"; VAtom "int"].
Proof. vm_compute. reflexivity. Qed.

(* the SAME operator BlockDiag(A, B, multiplicities=[1,2]) has different leaves depending on whether a BlockDiag of the
   same parametric class was first built with an array of multiplicities - and in the second case two of the leaves
   are not arrays at all *)
Theorem history_dependent_refuted : exists (h1 h2 : list event) (k : ctor), leaves_after h1 k <> leaves_after h2 k.
Proof. exists h_plain, h_array_first, (k_blockdiag mult_list). rewrite leaves_plain, leaves_array_first. discriminate. Qed.
Theorem leaves_not_only_arrays_refuted : exists (h : list event) (k : ctor), existsb (fun l => negb (is_array l)) (leaves_after h k) = true.
Proof. exists h_array_first, (k_blockdiag mult_list). rewrite leaves_array_first. reflexivity. Qed.

(* second witness, with supported inputs only: A[np.array([0,2])] builds Sliced(A, (array, slice(None))); the constructor
   assigns self.A and self.slices and THEN raises (`.cpu()` on a numpy array, a recorded finding of C01/C20) - the
   registration of `slices` as an array parameter of the class Sliced[Dense,tuple] survives the exception, and from then on
   A[0:1, :] flattens to the array of A plus two Python slice objects *)
Definition k_sliced (slices : val) : ctor :=
  {| k_cls := "Sliced[Dense,tuple]"; k_parent := "Sliced"; k_assigns := [("device", VNone); ("A", v_dense 1); ("slices", slices)] |}.
Definition k_sliced_full (slices : val) : ctor :=
  {| k_cls := "Sliced[Dense,tuple]"; k_parent := "Sliced"; k_assigns := ("A", v_dense 1) :: ("slices", slices) :: statics |}.
Definition slices_plain : val := VTup [VAtom "slice"; VAtom "slice"].
Definition slices_index : val := VTup [VArr 7; VAtom "slice"].
Definition h_sliced_plain : list event := [EDecl "Dense" "LinearOperator"; EDecl "Sliced" "LinearOperator"; ECons (k_dense 1)].
Definition h_sliced_failed : list event := h_sliced_plain ++ [ECons (k_sliced slices_index)].   (* the part of __init__ that ran *)
Example leaves_sliced_plain : leaves_after h_sliced_plain (k_sliced_full slices_plain) = [VArr 1].
Proof. vm_compute. reflexivity. Qed.
Example leaves_sliced_after_failed : leaves_after h_sliced_failed (k_sliced_full slices_plain) = [VArr 1; VAtom "slice"; VAtom "slice"].
Proof. vm_compute. reflexivity. Qed.
Theorem history_dependent_sliced_refuted : leaves_after h_sliced_plain (k_sliced_full slices_plain) <> leaves_after h_sliced_failed (k_sliced_full slices_plain).
Proof. rewrite leaves_sliced_plain, leaves_sliced_after_failed. discriminate. Qed.

(* the statement the pinned tree refutes, kept visible *)
Definition C18_history_independent_full : Prop :=
  forall (h1 h2 : list event) (k : ctor), leaves_after h1 k = leaves_after h2 k.
Theorem history_independent_refuted : ~ C18_history_independent_full.
Proof. intros H. destruct history_dependent_refuted as (h1 & h2 & k & Hne). apply Hne, H. Qed.
