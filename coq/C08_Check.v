(* C08: in-Coq comparison of the diag/trace model (Gaussian-integer instance) with observations of the implementation. *)
From Coq Require Import ZArith List Bool Arith.
From Core Require Import Base Kron Op OpProofs ZIInst C08_Diag C08_Proofs C08_Rules C08_RulesProofs.
Import ListNotations.
(* DVecT: an integral vector observed under a loose Auto tolerance: either the exact rule ran or the stochastic
   estimator happened to return integers (zero operators, empty diagonals) *)
Inductive dobs := DErr (e : derr) | DVec (l : list zi) | DVecT (l : list zi) | DErrT (e : derr) | DOther.
(* DErrT: an error observed under a loose Auto tolerance. The model stops at the first stochastic part (DStoch) whereas the
   code goes on with the estimate and may hit a later refusal: both are outside this property (C17), accepted here *)
Inductive tobs := TErr (e : derr) | TVal (x : zi) | TValT (x : zi) | TErrT (e : derr) | TOther.   (* ..T: under an explicit Auto tolerance, as DVecT/DErrT *)
Definition zl_eqb (a b : list zi) : bool :=
  Nat.eqb (length a) (length b) && forallb (fun p => zi_eqb (fst p) (snd p)) (combine a b).
Definition dmatch (r : derr + list zi) (o : dobs) : bool :=
  match r, o with inl a, DErr b => derr_eqb a b | inr l, DVec l' => zl_eqb l l' | inr l, DVecT l' => zl_eqb l l'
  | inl DStoch, DVecT _ => true | inl DStoch, DErrT _ => true | inl a, DErrT b => derr_eqb a b | _, _ => false end.
Definition tmatch (r : derr + zi) (o : tobs) : bool :=
  match r, o with inl a, TErr b => derr_eqb a b | inr x, TVal y => zi_eqb x y | inr x, TValT y => zi_eqb x y
  | inl DStoch, TValT _ => true | inl DStoch, TErrT _ => true | inl a, TErrT b => derr_eqb a b | _, _ => false end.
Definition BSZ : nat := 100.
(* (1) the full model on an operator tree *)
Record tcase := { te : op (R:=zi); tn : nat; tdf : dflags; tdq : list (Z * alg * dobs); ttq : list (alg * tobs) }.
Definition tag (t : nat) (l : list nat) : list (nat * nat) := map (fun i => (t, i)) l.
(* failing entries as (kind, index): 0 shape, 1 diag query, 2 trace query, 3 value query (dense), 4 class query (dense) *)
Definition tbad (c : tcase) : list (nat * nat) :=
  (if Nat.eqb (fst (shape (te c))) (tn c) && Nat.eqb (snd (shape (te c))) (tn c) then [] else [(0, 0)%nat]) ++
  tag 1 (failing (fun q : Z * alg * dobs => dmatch (diag_rule (tdf c) BSZ (snd (fst q)) (te c) (fst (fst q))) (snd q)) 0 (tdq c)) ++
  tag 2 (failing (fun q : alg * tobs => tmatch (trace_rule (tdf c) BSZ (fst q) (te c)) (snd q)) 0 (ttq c)).
Fixpoint tmism (i : nat) (cs : list tcase) : list (nat * list (nat * nat)) :=
  match cs with [] => [] | c :: r => match tbad c with [] => tmism (S i) r | b => (i, b) :: tmism (S i) r end end.
Definition tcount (cs : list tcase) : nat := fold_right (fun c acc => (length (tdq c) + length (ttq c) + acc)%nat) 0%nat cs.
(* (2) the index-level model on the dense matrix of a large operator whose diag goes through exact_diag:
       values on the sampled offsets, outcome class (raises / returns) on all offsets through `ragged` *)
Record gcase := { gn : nat; gfx : bool; gM : list (list zi); gdq : list (Z * dobs); gcls : list (Z * bool) }.
Definition gbad (c : gcase) : list (nat * nat) :=
  let Mf : fm (R:=zi) := fun i j => nth j (nth i (gM c) []) zi0 in
  tag 3 (failing (fun q : Z * dobs =>
             dmatch (match exact_diag (gfx c) BSZ (gn c) (mul_cols (gn c) Mf) (fst q) with Some d => inr d | None => inl DValue end) (snd q)
             && Bool.eqb (negb (gfx c) && ragged BSZ (gn c) (fst q)) (match snd q with DErr _ => true | _ => false end)) 0 (gdq c)) ++
  tag 4 (failing (fun q : Z * bool => Bool.eqb (negb (gfx c) && ragged BSZ (gn c) (fst q)) (snd q)) 0 (gcls c)).
Fixpoint gmism (i : nat) (cs : list gcase) : list (nat * list (nat * nat)) :=
  match cs with [] => [] | c :: r => match gbad c with [] => gmism (S i) r | b => (i, b) :: gmism (S i) r end end.
Definition gcount (cs : list gcase) : nat := fold_right (fun c acc => (length (gdq c) + length (gcls c) + acc)%nat) 0%nat cs.

(* (3) the exact-vs-stochastic decision of Auto on operators too large for the Coq side to multiply (sizes around 1000):
       outcome class of diag(A, k, alg) / trace(A, alg) for a generic n x n operator. 0: the exact value (the implementation's result
       was compared with the true diagonal by the harness: by exact_diag_cases that IS the model's value), 1: ValueError,
       2: stochastic estimate, 3: AssertionError *)
Record acase := { an : nat; afx : bool; aqs : list (Z * alg * nat) }.
Definition aclass (c : acase) (k : Z) (al : alg) : nat :=       (* through C08_RulesProofs.generic_outcome *)
  match generic_outcome (mkdflags (afx c) false false) BSZ (an c) al k ([] : list zi) with
  | inr _ => 0%nat | inl DValue => 1%nat | inl DStoch => 2%nat | inl DAssert => 3%nat | inl DUnmodelled => 4%nat
  end.
Definition abad (c : acase) : list (nat * nat) :=
  tag 5 (failing (fun q : Z * alg * nat => Nat.eqb (aclass c (fst (fst q)) (snd (fst q))) (snd q)) 0 (aqs c)).
Fixpoint amism (i : nat) (cs : list acase) : list (nat * list (nat * nat)) :=
  match cs with [] => [] | c :: r => match abad c with [] => amism (S i) r | b => (i, b) :: amism (S i) r end end.
Definition acount (cs : list acase) : nat := fold_right (fun c acc => (length (aqs c) + acc)%nat) 0%nat cs.
