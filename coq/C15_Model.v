(* C15 - Gallina model of cola/linalg/decompositions/arnoldi.py (arnoldi, init_arnoldi, arnoldi_fact, arnoldi_eigs;
   use_householder=False, the only path reachable from the public algorithms) over the abstract scalar/vector
   signature [kops] of C14_Model.v.  The same term is executed on PrimFloat complex numbers (C15_Float.v) and reasoned
   about over an abstract field with involution / inner-product space (C15_Proofs.v).
     init_arnoldi : buffers sized by the REQUESTED max_iters: Q has max_iters+1 columns, H is (max_iters+1) x max_iters,
                    Q[:,0] := rhs/||rhs||, idx := 0, norm := ||rhs||
     arnoldi_fact : the loop is capped by min(max_iters, n);
       cond_fun   : idx < cap  and  any over the batch of (norm > tol*H[1,0].real  or  idx <= 0)
       body_fun   : new := A @ Q[:,idx]; h := zeros(max_iters+1);
                    inner_loop j = 0..idx (modified Gram-Schmidt): h[j] := <Q[:,j], new>; new := new - h[j] Q[:,j];
                    norm := ||new||; new /= clip(norm, a_min = tol/2); h[idx+1] := norm; H[:,idx] := h; Q[:,idx+1] := new; idx+1
     arnoldi      : returns the full buffers (Q, H)
     arnoldi_eigs : Q[:, :-1], H[:-1]  ->  eig of the square max_iters x max_iters matrix (oracle), eigenvectors Q @ vs *)
From Coq Require Import List Arith Bool Lia.
From Core Require Import C14_Model.
Import ListNotations.

Section Model.
Context {C V : Type} (o : kops C V).
Variable A : V -> V.
Variable rfix : bool.   (* repaired stopping test (flag arnoldi_reltol_first_step gone): the reference is ||A q_0|| = ||H[:,0]|| *)
Variable cfix : bool.   (* repaired normalisation (flag arnoldi_clip_garbage gone): a remainder of norm <= tol/2 gives a zero column *)
Variable afix : bool.   (* relative normalisation threshold (flag arnoldi_absolute_clip gone): tol/2 * ||A q_0|| instead of the absolute tol/2 *)

(* H is kept as the list of its columns, each of length max_iters+1 *)
Record ast := mk_ast { aQ : list V; aH : list (list C); anorm : C }.

Definition Hent (H : list (list C)) (i j : nat) : C := ent o (nth j H []) i.     (* H[i, j] *)

(* inner_loop over the columns qs = Q[:, 0..idx], starting at index j *)
Fixpoint mgs (qs : list V) (j : nat) (w : V) (h : list C) : V * list C :=
  match qs with
  | [] => (w, h)
  | q :: t => let h' := upd h j (o.(vdot) q w) in mgs t (S j) (o.(vsub) w (o.(vscale) (ent o h' j) q)) h'
  end.

Definition two : C := o.(cadd) o.(c1) o.(c1).
(* np.clip(x, a_min=lo) *)
Definition clip_min (x lo : C) : C := if o.(cgtb) lo x then lo else x.

(* the threshold below which a remainder counts as a breakdown.  Absolute tol/2 (flag arnoldi_absolute_clip), or, repaired,
   tol/2 * norm(H[:, 0]) = tol/2 * ||A q_0|| - the reference of the stopping test - taken from H AFTER column idx has been
   written (so that at idx = 0 it is the column just produced) *)
Definition athr (tol : C) (H : list (list C)) : C :=
  if afix then o.(cmul) (o.(cdiv) tol two) (o.(chyp) (Hent H 0 0) (Hent H 1 0)) else o.(cdiv) tol two.

Definition abody (m : nat) (tol : C) (idx : nat) (s : ast) : ast :=
  let new0 := A (col o (aQ s) idx) in
  let r := mgs (firstn (idx + 1) (aQ s)) 0 new0 (repeat o.(c0) (m + 1)) in
  let nr := o.(vnrm) (fst r) in
  let h2 := upd (snd r) (idx + 1) nr in
  let H' := upd (aH s) idx h2 in
  let th := athr tol H' in
  (* pinned:   new_vec /= clip(norm, a_min=th)
     repaired: new_vec = where(norm > th, new_vec / clip(norm, a_min=th), zeros_like(new_vec)) *)
  let new2 := if cfix && negb (o.(cgtb) nr th) then o.(vzero)
              else o.(vdiv) (fst r) (clip_min nr th) in
  mk_ast (upd (aQ s) (idx + 1) new2) H' nr.

(* the scale the remainder norms are compared with.  Pinned code: H[1,0] itself, so that at idx = 1 H[1,0] is compared with tol*H[1,0].
   Repaired code: norm(H[:, 0]) = sqrt(|H[0,0]|^2 + |H[1,0]|^2) = ||A q_0||, the size of the first Krylov vector *)
Definition aref (s : ast) : C := if rfix then o.(chyp) (Hent (aH s) 0 0) (Hent (aH s) 1 0) else Hent (aH s) 1 0.
Definition a_large (tol : C) (idx : nat) (s : ast) : bool :=
  o.(cgtb) (anorm s) (o.(cmul) tol (aref s)) || (idx <=? 0).
Definition acond (tol : C) (cap idx : nat) (ss : list ast) : bool := (idx <? cap) && existsb (a_large tol idx) ss.

Fixpoint aloop (fuel : nat) (m : nat) (tol : C) (cap idx : nat) (ss : list ast) : nat * list ast :=
  match fuel with
  | 0 => (idx, ss)
  | S f => if acond tol cap idx ss then aloop f m tol cap (S idx) (map (abody m tol idx) ss) else (idx, ss)
  end.

Definition ainit (m : nat) (v : V) : ast :=
  mk_ast (upd (repeat o.(vzero) (m + 1)) 0 (o.(vdiv) v (o.(vnrm) v))) (repeat (repeat o.(c0) (m + 1)) m) (o.(vnrm) v).

(* arnoldi(A, start_vector(s), max_iters, tol) for an operator of size n: (number of steps, final buffers per start vector) *)
Definition arnoldi_batch (n : nat) (vs : list V) (max_iters : nat) (tol : C) : nat * list ast :=
  let cap := Nat.min max_iters n in
  aloop cap max_iters tol cap 0 (map (ainit max_iters) vs).

(* repaired variant (flag arnoldi_padding gone, fix "arnoldi caps max_iters at n"): the requested max_iters is capped at the
   size of the operator BEFORE the buffers are allocated, so Q has min(max_iters,n)+1 columns and H is square after [:-1] *)
Definition arnoldi_batch_capped (n : nat) (vs : list V) (max_iters : nat) (tol : C) : nat * list ast :=
  arnoldi_batch n vs (Nat.min max_iters n) tol.

Definition arnoldi1 (n : nat) (v : V) (max_iters : nat) (tol : C) : ast :=
  hd (mk_ast [] [] o.(c0)) (snd (arnoldi_batch n [v] max_iters tol)).
Definition arnoldi_steps (n : nat) (v : V) (max_iters : nat) (tol : C) : nat := fst (arnoldi_batch n [v] max_iters tol).

(* arnoldi_eigs passes H[:-1] (square, max_iters x max_iters) to eig and multiplies Q[:, :-1] by the eigenvectors *)
Definition eigs_matrix (s : ast) (i j : nat) : C := Hent (aH s) i j.   (* for i, j < max_iters *)

End Model.
