(* C09: the Krylov rules LanczosUnary / ArnoldiUnary (unary.py:38-92), given a COMPLETE factorisation as a hypothesis
   (A Q = Q H with Q unitary: from C14 / C15) and the dense eigen-oracle's specification for H.
   The code computes   out = Q P (g(theta) * (P^-1 e1) ||v||)   where g is f with the zero-eigenvalue mask. *)
From Coq Require Import Arith Lia List Ring ArithRing PeanoNat Bool.
From Core Require Import Base C09_MatAlg C09_IsFun.
Import ListNotations.
Section Krylov.
Context {R : Type} {RR : Ring R} {CR : CRing R}.
Add Ring Rr : Rth.
Open Scope R_scope.
Notation fm := (fm (R:=R)).

Lemma inv2_mul n A Ai B Bi : inv2 n A Ai -> inv2 n B Bi -> inv2 n (mmul n A B) (mmul n Bi Ai).
Proof. intros [A1 A2] [B1 B2]. split.
  - apply feq_trans with (mmul n Bi (mmul n Ai (mmul n A B))); [apply feq_mmul_assoc|].
    apply feq_trans with (mmul n Bi (mmul n (mmul n Ai A) B)); [apply mmul_ext; [apply feq_refl|apply feq_sym, feq_mmul_assoc]|].
    apply feq_trans with (mmul n Bi (mmul n eye B)); [apply mmul_ext; [apply feq_refl|apply mmul_ext; [exact A1|apply feq_refl]]|].
    apply feq_trans with (mmul n Bi B); [apply mmul_ext; [apply feq_refl|apply feq_eye_l]|exact B1].
  - apply feq_trans with (mmul n A (mmul n B (mmul n Bi Ai))); [apply feq_mmul_assoc|].
    apply feq_trans with (mmul n A (mmul n (mmul n B Bi) Ai)); [apply mmul_ext; [apply feq_refl|apply feq_sym, feq_mmul_assoc]|].
    apply feq_trans with (mmul n A (mmul n eye Ai)); [apply mmul_ext; [apply feq_refl|apply mmul_ext; [exact B2|apply feq_refl]]|].
    apply feq_trans with (mmul n A Ai); [apply mmul_ext; [apply feq_refl|apply feq_eye_l]|exact A2]. Qed.

Section Fact.
Variables (n : nat) (A Q H Pm Pi : fm) (theta : nat -> R) (P : R -> Prop) (g : R -> R).
Hypothesis Hn : (0 < n)%nat.
Hypothesis HQ : unitary n Q.                                        (* complete, orthonormal Krylov basis *)
Hypothesis HAQ : feq n n (mmul n A Q) (mmul n Q H).                  (* A Q = Q H (H tridiagonal / Hessenberg) *)
Hypothesis HP : inv2 n Pm Pi.                                        (* eigenvectors of H; Pi = P^H for eigh *)
Hypothesis HHP : feq n n (mmul n H Pm) (mmul n Pm (dg theta)).       (* H P = P diag(theta) *)
Hypothesis Hspec : forall i, (i < n)%nat -> P (theta i).
Definition kV : fm := mmul n Q Pm.
Definition kW : fm := mmul n Pi (cj Q).
Definition kM : fm := mmul n (mmul n kV (dg (fun i => g (theta i)))) kW.
Lemma krylov_eig : feq n n (mmul n A kV) (mmul n kV (dg theta)).
Proof. unfold kV.
  apply feq_trans with (mmul n (mmul n A Q) Pm); [apply feq_sym, feq_mmul_assoc|].
  apply feq_trans with (mmul n (mmul n Q H) Pm); [apply mmul_ext; [exact HAQ|apply feq_refl]|].
  apply feq_trans with (mmul n Q (mmul n H Pm)); [apply feq_mmul_assoc|].
  apply feq_trans with (mmul n Q (mmul n Pm (dg theta))); [apply mmul_ext; [apply feq_refl|exact HHP]|apply feq_sym, feq_mmul_assoc]. Qed.
(* the operator the rule represents is g of A *)
Theorem krylov_unary_isfun : IsFunOn P g n A kM.
Proof. unfold kM. apply isfun_dense_eig; [|exact krylov_eig|exact Hspec]. unfold kV, kW. apply inv2_mul; [exact HQ|exact HP]. Qed.
(* and the vector the code returns for an operand v = ||v|| Q e1 (first basis vector = normalised operand) is kM v *)
Theorem krylov_unary_action (v : nat -> R) (nrm : R) : (forall i, (i < n)%nat -> v i = nrm * Q i 0%nat) ->
  forall i, (i < n)%nat ->
  sum n (fun j => kM i j * v j) = sum n (fun l => kV i l * (g (theta l) * (Pi l 0%nat * nrm))).
Proof. intros Hv i Hi.
  (* kM v = kV G (Pi (Q^H v)) and Q^H v = nrm e1 *)
  assert (HQv : forall a, (a < n)%nat -> sum n (fun j => cj Q a j * v j) = nrm * delta a 0%nat).
  { intros a Ha. rewrite (sum_ext n _ (fun j => nrm * (cj Q a j * Q j 0%nat))) by (intros j Hj; rewrite Hv by auto; ring).
    rewrite sum_mul_l. f_equal. destruct HQ as [HQ1 _]. exact (HQ1 a 0%nat Ha Hn). }
  assert (HWv : forall l, (l < n)%nat -> sum n (fun j => kW l j * v j) = Pi l 0%nat * nrm).
  { intros l Hl. unfold kW, mmul. erewrite sum_ext by (intros j Hj; rewrite <- sum_mul_r; reflexivity). rewrite sum_swap.
    rewrite (sum_ext n _ (fun a => Pi l a * (nrm * delta a 0%nat))).
    - rewrite (sum_ext n _ (fun a => (Pi l a * nrm) * delta a 0%nat)) by (intros; ring). rewrite sum_delta_r by exact Hn. reflexivity.
    - intros a Ha. rewrite <- HQv by auto. rewrite <- sum_mul_l. apply sum_ext; intros; ring. }
  unfold kM. unfold mmul at 1. erewrite sum_ext by (intros j Hj; rewrite <- sum_mul_r; reflexivity). rewrite sum_swap.
  apply sum_ext; intros l Hl. rewrite mmul_dg_r by auto.
  transitivity ((kV i l * g (theta l)) * sum n (fun j => kW l j * v j)); [rewrite <- sum_mul_l; apply sum_ext; intros; ring|rewrite HWv by auto; ring]. Qed.
End Fact.

(* zero-eigenvalue mask: f_eigvals = where(|theta| > thresh, f(theta), 0) *)
Definition masked (small : R -> bool) (f : R -> R) : R -> R := fun x => if small x then r0 else f x.
(* with no eigenvalue under the threshold the masked rule is f of A *)
Corollary krylov_unary_unmasked n A Q H Pm Pi theta (P : R -> Prop) f small :
  unitary n Q -> feq n n (mmul n A Q) (mmul n Q H) -> inv2 n Pm Pi -> feq n n (mmul n H Pm) (mmul n Pm (dg theta)) ->
  (forall i, (i < n)%nat -> P (theta i)) -> (forall x, P x -> small x = false) ->
  IsFunOn P f n A (kM n Q Pm Pi theta (masked small f)).
Proof. intros HQ HAQ HP HHP Hs Hsm. apply isfun_congr with (f := masked small f).
  - intros x Hx. unfold masked. rewrite Hsm by auto. reflexivity.
  - apply krylov_unary_isfun with (H := H); auto. Qed.
End Krylov.
