(* C09: execution instance (Gaussian rationals) and in-Coq comparison; refutation witnesses. *)
From Coq Require Import ZArith QArith Qcanon Arith Lia List Bool PeanoNat.
From Core Require Import Base Kron Op FieldBase Algebra C09_MatAlg C09_IsFun C09_Model C09_Krylov C10_Check.
Import ListNotations.

Notation qop := (op (R:=qi)).
Notation quop := (uop (R:=qi)).
(* the scalar function as data: numpy's values of f at the (finitely many) points where a rule evaluates it *)
Definition flook (tab : list (qi * qi)) (x : qi) : qi :=
  match find (fun p => qi_eqb (fst p) x) tab with Some p => snd p | None => qz 123456789 end.
Definition qarr (m n : nat) (l : list (list qi)) : arr (R:=qi) := qof_list_mn m n l.
Definition arr_close (tol2 : Qc) (a : arr (R:=qi)) (m n : nat) (l : list (list qi)) : bool :=
  Nat.eqb (nr a) m && Nat.eqb (nc a) n &&
  forallb (fun i => forallb (fun j => qi_close tol2 (dat a i j) (nth j (nth i l []) qi0)) (seq 0 n)) (seq 0 m).

Inductive ucall :=
| CUnary (m : mode)                 (* apply_unary / exp / log / pow, sqrt, isqrt with a non-integer exponent *)
| CPowInt (isint : bool) (k : Z).   (* pow through pow_case *)
Record ucase := mkucase { un : nat; uu : quop; ucl : ucall; utab : list (qi * qi); uk : nat; uX : list (list qi);
                          utol2 : Qc; ures : list (list qi) }.
Definition run_ucase (c : ucase) : res qop :=
  match ucl c with
  | CUnary m => if admissible m (uu c) then Ok (unary m (flook (utab c)) (uu c)) else Err ENotImpl
  | CPowInt isint k =>
      match pow_case isint k with
      | CInv => Err ENotImpl           (* the inverse is C06's: not executed here *)
      | pc => pow_node pc (flook (utab c)) (Ident 0) (uu c)
      end
  end.
Definition check_ucase (c : ucase) : bool :=
  match run_ucase c with
  | Ok r => wf r && Nat.eqb (fst (shape r)) (un c) && Nat.eqb (snd (shape r)) (un c) &&
            arr_close (utol2 c) (matmat r (qarr (un c) (uk c) (uX c))) (un c) (uk c) (ures c)
  | Err _ => false
  end.

(* the Auto rule of apply_unary: observed rule (the result equals that rule's on the same oracle data) *)
Definition ualg_eqb (a b : ualg) : bool := match a, b with UEigh, UEigh | UEig, UEig | ULanczos, ULanczos | UArnoldi, UArnoldi => true | _, _ => false end.
Record aucase := mkaucase { au_psd : bool; au_small : bool; au_tag : ualg }.
Definition check_aucase (c : aucase) : bool := ualg_eqb (auto_unary (au_psd c) (au_small c)) (au_tag c).

(* Krylov rule on one operand: oracle data Q (n x m), eigenvalues theta and eigenvectors Pm of the projected matrix,
   first column of Pm^-1 (= conj of the first row of Pm for eigh), norm of the operand *)
Record kcase := mkkcase { kn : nat; km : nat; kQ : list (list qi); kPm : list (list qi); kth : list qi; kpi0 : list qi; knrm : qi;
                          kthr2 : Qc;     (* squared threshold of the zero-eigenvalue mask *)
                          ktab : list (qi * qi); ktol2 : Qc; kout : list qi }.
Definition check_kcase (c : kcase) : bool :=
  let g := masked (fun x => qle (qinorm2 x) (kthr2 c)) (flook (ktab c)) in
  let V := mmul (km c) (matl (kQ c)) (matl (kPm c)) in
  forallb (fun i => qi_close (ktol2 c)
     (sum (km c) (fun l => qimul (V i l) (qimul (g (vecl (kth c) l)) (qimul (vecl (kpi0 c) l) (knrm c)))))
     (nth i (kout c) qi0)) (seq 0 (kn c)).

(* ---------- refutation witnesses ---------- *)
(* krylov_mask_kills_f0: A = diag(0,1,2) with the complete factorisation Q = I, H = A, P = I; the mask replaces f(0) by 0 *)
Definition th012 : nat -> qi := vecl [qz 0; qz 1; qz 2].
Definition f_wit : qi -> qi := flook [(qz 0, qz 1); (qz 1, qz 3); (qz 2, qz 7)].     (* any f with f 0 = 1, e.g. exp *)
Theorem krylov_mask_refuted :
  let M := kM 3 eye eye eye th012 (masked (fun x => qi_eqb x (qz 0)) f_wit) in
  qi_eqb (M 0%nat 0%nat) (qz 0) = true /\ qi_eqb (f_wit (th012 0%nat)) (qz 1) = true /\
  (* so M is not f(A) = diag(f 0, f 1, f 2), although every hypothesis of the factorisation holds: *)
  feqb 3 3 (mmul 3 (dg th012) eye) (mmul 3 eye (dg th012)) = true.
Proof. cbn zeta. repeat split; vm_compute; reflexivity. Qed.
(* pow_kron_branch: sqrt(Kronecker([[-1]], [[-1]])) is computed as sqrt(-1) * sqrt(-1) = -1, but the matrix is [[1]] *)
Definition leaf_m1 : quop := ULeaf (Dense (qarr 1 1 [[qz (-1)]])) (vecl [qz (-1)]) (qarr 1 1 [[qz 1]]) (qarr 1 1 [[qz 1]]).
Definition f_sqrt_wit : qi -> qi := flook [(qz (-1), qic 0 1 1 1); (qz 1, qz 1)].     (* principal square root at -1 and 1 *)
Theorem pow_kron_branch_refuted :
  let u := UKron [leaf_m1; leaf_m1] in
  admissible MPow u = true /\ qi_eqb (den (erase u) 0%nat 0%nat) (qz 1) = true /\
  qi_eqb (den (unary MPow f_sqrt_wit u) 0%nat 0%nat) (qz (-1)) = true /\ qi_eqb (f_sqrt_wit (qz 1)) (qz 1) = true.
Proof. cbn zeta. repeat split; vm_compute; reflexivity. Qed.

(* satisfiable hypotheses: a block-diagonal tree with a dense leaf *)
Definition leaf_ex : quop := ULeaf (Dense (qarr 2 2 [[qz 2; qz 1]; [qz 1; qz 2]])) (vecl [qz 1; qz 3])
  (qarr 2 2 [[qz 1; qz 1]; [qz (-1); qz 1]]) (qarr 2 2 [[qic 1 2 0 1; qic (-1) 2 0 1]; [qic 1 2 0 1; qic 1 2 0 1]]).
Definition tree_ex : quop := UBDiag [(leaf_ex, 2%nat); (UDiag 2 (vecl [qz 4; qz 9]), 1%nat)].
Definition f_ex : qi -> qi := flook [(qz 1, qz 1); (qz 3, qz 27); (qz 4, qz 64); (qz 9, qz 729)].   (* x^3 *)
Example unary_example :
  let r := unary MGeneric f_ex tree_ex in
  wf r = true /\ shape r = (6, 6)%nat /\
  feqb 6 6 (den r) (mmul 6 (den (erase tree_ex)) (mmul 6 (den (erase tree_ex)) (den (erase tree_ex)))) = true.
Proof. cbn zeta. repeat split; vm_compute; reflexivity. Qed.
