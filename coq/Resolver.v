From Coq Require Import List ZArith Bool Arith. Import ListNotations.
Record rule := mkrule { rsig : list nat; rprec : Z; rcond : bool }.
Inductive lres := LU (i : nat) | LA (i : nat) | LN (i : nat).
Section R.
Variables (le_tab bear_tab : list (list bool)) (opset : list nat).
Definition tle (a b : nat) := nth b (nth a le_tab []) false.
Definition bearable (r t : nat) := nth t (nth r bear_tab []) false.
Definition sle (r s : rule) := Nat.eqb (length (rsig r)) (length (rsig s)) && forallb (fun p => tle (fst p) (snd p)) (combine (rsig r) (rsig s)).
Definition seq_ (r s : rule) := sle r s && sle s r.
Definition slt (r s : rule) := sle r s && negb (seq_ r s).
Definition comparable (r s : rule) := slt r s || seq_ r s || slt s r.
Definition step (cands : list (nat * rule)) (s : nat * rule) :=
  if negb (existsb (fun c => comparable (snd c) (snd s)) cands) then cands ++ [s]
  else let nc := filter (fun c => negb (slt (snd s) (snd c))) cands in
       if existsb (fun c => sle (snd s) (snd c)) cands then nc ++ [s] else nc.
Fixpoint number {A} (i : nat) (l : list A) : list (nat * A) := match l with [] => [] | x :: r => (i, x) :: number (S i) r end.
Definition list_eqb (a b : list nat) := Nat.eqb (length a) (length b) && forallb (fun p => Nat.eqb (fst p) (snd p)) (combine a b).
Definition cond_val (ctab : list (nat * list nat * bool)) (i : nat) (args : list nat) : bool :=
  let oa := filter (fun a => existsb (Nat.eqb a) opset) args in
  match find (fun e => Nat.eqb (fst (fst e)) i && list_eqb (snd (fst e)) oa) ctab with Some e => snd e | None => false end.
Definition matches (ctab : list (nat * list nat * bool)) (args : list nat) (ir : nat * rule) :=
  let r := snd ir in
  Nat.eqb (length args) (length (rsig r)) && forallb (fun p => bearable (fst p) (snd p)) (combine args (rsig r))
  && (negb (rcond r) || cond_val ctab (fst ir) args).
Definition eprec (r : rule) : Z := (2 * rprec r + (if rcond r then 1 else 0))%Z.
Definition resolve (rules : list rule) ctab (args : list nat) : lres :=
  let cands := fold_left step (filter (matches ctab args) (number 0 rules)) [] in
  match cands with
  | [] => LN 0
  | [c] => LU (fst c)
  | _ => let mx := fold_left (fun m c => Z.max m (eprec (snd c))) cands (-1000)%Z in
         match filter (fun c => Z.eqb (eprec (snd c)) mx) cands with [c] => LU (fst c) | _ => LA 0 end
  end.
Definition lres_eqb (a b : lres) := match a, b with LU i, LU j => Nat.eqb i j | LA _, LA _ => true | LN _, LN _ => true | _, _ => false end.
Definition mismatches rules ctab (live : list (list nat * lres)) := filter (fun c => negb (lres_eqb (resolve rules ctab (fst c)) (snd c))) live.
End R.
