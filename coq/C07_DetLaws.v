(* C07 - the determinant enters through an INTERFACE.
   [DetLaws fdet] lists the laws of a determinant function  fdet : size -> matrix -> scalar  on the
   stdlib-style matrices of Base.v (functions nat -> nat -> R with explicit size):
   extensionality on in-range entries, multiplicativity, identity, 2-block-diagonal law,
   triangular matrices (both kinds), and "a row swap flips the sign".
   Everything else (Kronecker products, n-ary block diagonals with multiplicities, products,
   permutation matrices and their parity, scalar matrices) is DERIVED here from these laws alone.
   C07_MxBridge.v proves that mathcomp's \det satisfies DetLaws over every commutative ring. *)
From Coq Require Import Arith Lia List Ring ArithRing PeanoNat Bool.
From Core Require Import Base Kron.
Import ListNotations.
Section DetLaws.
Context {R : Type} {RR : Ring R}.
Add Ring Rring : Rth.
Open Scope R_scope.
Notation fm := (fm (R:=R)).

Fixpoint prodn (n : nat) (f : nat -> R) : R := match n with 0%nat => r1 | S k => prodn k f * f k end.
Fixpoint rpow (x : R) (k : nat) : R := match k with 0%nat => r1 | S k' => x * rpow x k' end.
Definition bdiag2 (m1 : nat) (A B : fm) : fm := fun i j =>
  if (i <? m1)%nat then (if (j <? m1)%nat then A i j else r0)
  else (if (j <? m1)%nat then r0 else B (i - m1)%nat (j - m1)%nat).
Definition tswap (a b i : nat) : nat := if Nat.eqb i a then b else if Nat.eqb i b then a else i.
Definition lower_tri (n : nat) (A : fm) := forall i j, (i < n)%nat -> (j < n)%nat -> (i < j)%nat -> A i j = r0.
Definition upper_tri (n : nat) (A : fm) := forall i j, (i < n)%nat -> (j < n)%nat -> (j < i)%nat -> A i j = r0.

Record DetLaws (fdet : nat -> fm -> R) : Prop := {
  det_ext : forall n A B, feq n n A B -> fdet n A = fdet n B;
  det_mul : forall n A B, fdet n (mmul n A B) = fdet n A * fdet n B;
  det_eye : forall n, fdet n eye = r1;
  det_bdiag : forall m1 m2 A B, fdet (m1 + m2)%nat (bdiag2 m1 A B) = fdet m1 A * fdet m2 B;
  det_lower : forall n A, lower_tri n A -> fdet n A = prodn n (fun i => A i i);
  det_upper : forall n A, upper_tri n A -> fdet n A = prodn n (fun i => A i i);
  det_swap : forall n A a b, (a < n)%nat -> (b < n)%nat -> a <> b ->
     fdet n (fun i j => A (tswap a b i) j) = - fdet n A }.

(* ---------- small algebra ---------- *)
Lemma rpow_add x a b : rpow x (a + b) = rpow x a * rpow x b.
Proof. induction a; simpl; [ring|rewrite IHa; ring]. Qed.
Lemma rpow_mul x a b : rpow x (a * b) = rpow (rpow x a) b.
Proof. induction b; simpl. - rewrite Nat.mul_0_r. reflexivity.
  - rewrite Nat.mul_succ_r, Nat.add_comm, rpow_add, IHb. reflexivity. Qed.
Lemma rpow_mul_base x y k : rpow (x * y) k = rpow x k * rpow y k.
Proof. induction k; simpl; [ring|rewrite IHk; ring]. Qed.
Lemma rpow_1 k : rpow r1 k = r1.
Proof. induction k; simpl; [reflexivity|rewrite IHk; ring]. Qed.
Lemma prodn_ext n f g : (forall i, (i < n)%nat -> f i = g i) -> prodn n f = prodn n g.
Proof. induction n; simpl; intros H; [reflexivity|]. rewrite IHn, H by (intros; try apply H; lia). reflexivity. Qed.
Lemma prodn_const n c : prodn n (fun _ => c) = rpow c n.
Proof. induction n; simpl; [reflexivity|rewrite IHn; ring]. Qed.
Lemma prodn_mul n f g : prodn n (fun i => f i * g i) = prodn n f * prodn n g.
Proof. induction n; simpl; [ring|rewrite IHn; ring]. Qed.

Lemma sum_delta' n c f : (c < n)%nat -> sum n (fun j => delta j c * f j) = f c.
Proof. intros H. rewrite (sum_ext n _ (fun j => delta c j * f j)); [apply sum_delta_l; auto|].
  intros i Hi. unfold delta. rewrite (Nat.eqb_sym i c). reflexivity. Qed.

(* ---------- permutation-like matrices, perfect shuffle ---------- *)
Definition tr (A : fm) : fm := fun i j => A j i.
Definition pmat (sigma : nat -> nat) : fm := fun i j => delta j (sigma i).
Lemma conj_pmat N sigma M i i' : (forall a, (a < N)%nat -> (sigma a < N)%nat) -> (i < N)%nat -> (i' < N)%nat ->
  mmul N (mmul N (pmat sigma) M) (tr (pmat sigma)) i i' = M (sigma i) (sigma i').
Proof. intros Hs Hi Hi'. unfold mmul, tr, pmat.
  rewrite (sum_ext N _ (fun l => delta l (sigma i') * M (sigma i) l)).
  - rewrite sum_delta' by auto. reflexivity.
  - intros l Hl. rewrite sum_delta' by auto. ring. Qed.
Lemma pmat_orth N sigma i i' : (forall a, (a < N)%nat -> (sigma a < N)%nat) ->
  (forall a b, (a < N)%nat -> (b < N)%nat -> sigma a = sigma b -> a = b) -> (i < N)%nat -> (i' < N)%nat ->
  mmul N (pmat sigma) (tr (pmat sigma)) i i' = eye i i'.
Proof. intros Hs Hinj Hi Hi'. unfold mmul, tr, pmat, eye.
  rewrite sum_delta' by auto. unfold delta. destruct (Nat.eqb_spec (sigma i) (sigma i')); destruct (Nat.eqb_spec i i'); try reflexivity.
  - exfalso. apply n. apply Hinj; auto. - subst. congruence. Qed.

Definition kron (m2 n2 : nat) (A B : fm) : fm := fun i j => A (i / m2)%nat (j / n2)%nat * B (i mod m2)%nat (j mod n2)%nat.
Definition shuffle (m n : nat) (i : nat) := ((i mod n) * m + i / n)%nat.
Lemma shuffle_lt m n i : (i < m * n)%nat -> (shuffle m n i < m * n)%nat.
Proof. intros H. unfold shuffle. assert (n <> 0)%nat by (intro; subst; lia).
  assert (i mod n < n)%nat by (apply Nat.mod_upper_bound; lia).
  assert (i / n < m)%nat by (apply Nat.div_lt_upper_bound; lia). nia. Qed.
Lemma shuffle_div m n i : (i < m * n)%nat -> (shuffle m n i / m = i mod n)%nat /\ (shuffle m n i mod m = i / n)%nat.
Proof. intros H. unfold shuffle. assert (n <> 0)%nat by (intro; subst; lia).
  assert (i / n < m)%nat by (apply Nat.div_lt_upper_bound; lia).
  split. - rewrite Nat.div_add_l, Nat.div_small by lia. lia.
  - rewrite Nat.add_comm, Nat.mod_add, Nat.mod_small by lia. reflexivity. Qed.
Lemma kronAI_shuffle m n A i j : (i < m * n)%nat -> (j < m * n)%nat ->
  kron n n A eye i j = kron m m eye A (shuffle m n i) (shuffle m n j).
Proof. intros Hi Hj. unfold kron, eye.
  destruct (shuffle_div m n i Hi) as [-> ->]. destruct (shuffle_div m n j Hj) as [-> ->]. ring. Qed.
Lemma shuffle_inj m n a b : (a < m * n)%nat -> (b < m * n)%nat -> shuffle m n a = shuffle m n b -> a = b.
Proof. intros Ha Hb E. assert (n <> 0)%nat by (intro; subst; lia).
  destruct (shuffle_div m n a Ha) as [E1 E2]. destruct (shuffle_div m n b Hb) as [E3 E4].
  rewrite E in E1, E2. rewrite (Nat.div_mod a n), (Nat.div_mod b n) by lia. congruence. Qed.

(* I_(n+1) (x) A  =  A (+) (I_n (x) A) *)
Lemma kronIA_S n m A : feq (S n * m) (S n * m) (kron m m eye A) (bdiag2 m A (kron m m eye A)).
Proof. intros i j Hi Hj. unfold kron, bdiag2, eye.
  destruct (Nat.eq_dec m 0) as [->|Hm]; [lia|].
  destruct (Nat.ltb_spec i m); destruct (Nat.ltb_spec j m).
  - rewrite !Nat.div_small, !Nat.mod_small by lia. unfold delta; simpl. ring.
  - rewrite (Nat.div_small i) by lia. assert (0 < j / m)%nat by (apply Nat.div_str_pos; lia).
    unfold delta. destruct (Nat.eqb_spec 0 (j / m)); [lia|ring].
  - rewrite (Nat.div_small j) by lia. assert (0 < i / m)%nat by (apply Nat.div_str_pos; lia).
    unfold delta. destruct (Nat.eqb_spec (i / m) 0); [lia|ring].
  - replace i with ((i - m) + 1 * m)%nat at 1 2 by lia. replace j with ((j - m) + 1 * m)%nat at 1 2 by lia.
    rewrite !Nat.div_add, !Nat.mod_add by lia. unfold delta.
    destruct (Nat.eqb_spec ((i - m) / m + 1) ((j - m) / m + 1)); destruct (Nat.eqb_spec ((i - m) / m) ((j - m) / m)); try lia; ring.
Qed.
(* A (x) B = (A (x) I_n)(I_m (x) B) *)
Lemma kron_split m n A B : feq (m * n) (m * n) (kron n n A B) (mmul (m * n) (kron n n A eye) (kron n n eye B)).
Proof. intros i j Hi Hj. unfold mmul. destruct (Nat.eq_dec n 0) as [->|Hn]; [lia|].
  rewrite sum_prod. unfold kron, eye.
  rewrite (sum_ext m _ (fun a => delta a (j / n) * (A (i / n)%nat a * B (i mod n)%nat (j mod n)%nat))).
  - rewrite sum_delta'; [ring|]. apply Nat.div_lt_upper_bound; lia.
  - intros a Ha.
    rewrite (sum_ext n _ (fun b => delta b (i mod n) * (A (i / n)%nat a * delta a (j / n) * B b (j mod n)%nat))).
    + rewrite sum_delta' by (apply Nat.mod_upper_bound; lia). ring.
    + intros b Hb. rewrite Nat.div_add_l, (Nat.div_small b n), Nat.add_0_r by lia.
      rewrite (Nat.add_comm (a * n) b), Nat.mod_add, (Nat.mod_small b n) by lia.
      unfold delta. rewrite (Nat.eqb_sym (i mod n) b). ring.
Qed.

(* ================= consequences of the interface ================= *)
Section Det.
Variable fdet : nat -> fm -> R.
Hypothesis DL : DetLaws fdet.
Let fdet_ext := det_ext fdet DL.
Let fdet_mul := det_mul fdet DL.
Let fdet_eye := det_eye fdet DL.
Let fdet_bdiag := det_bdiag fdet DL.

Lemma fdet_0 A : fdet 0 A = r1.
Proof. rewrite <- (fdet_eye 0). apply fdet_ext. intros i j Hi; lia. Qed.

(* A (x) I_n  and  I_n (x) A  are similar through the perfect-shuffle permutation matrix *)
Theorem fdet_kronAI m n A : fdet (m * n) (kron n n A eye) = fdet (m * n) (kron m m eye A).
Proof.
  set (N := (m * n)%nat). set (P := pmat (shuffle m n)).
  assert (E : feq N N (kron n n A eye) (mmul N (mmul N P (kron m m eye A)) (tr P))).
  { intros i j Hi Hj. unfold P. rewrite conj_pmat; [apply kronAI_shuffle; auto| intros; apply shuffle_lt; auto | auto | auto]. }
  rewrite (fdet_ext _ _ _ E), !fdet_mul.
  assert (O : fdet N P * fdet N (tr P) = r1).
  { rewrite <- fdet_mul, <- (fdet_eye N). apply fdet_ext. intros i j Hi Hj. unfold P.
    apply pmat_orth; [intros; apply shuffle_lt; auto | intros; eapply shuffle_inj; eauto | auto | auto]. }
  transitivity (fdet N (kron m m eye A) * (fdet N P * fdet N (tr P))); [ring|rewrite O; ring].
Qed.
Lemma fdet_kronIA n m A : fdet (n * m) (kron m m eye A) = rpow (fdet m A) n.
Proof. induction n as [|n IH]; simpl rpow.
  - simpl. apply fdet_0.
  - rewrite (fdet_ext _ _ _ (kronIA_S n m A)). replace (S n * m)%nat with (m + n * m)%nat by ring.
    rewrite fdet_bdiag, IH. reflexivity.
Qed.
Theorem fdet_kron_AI m n A : fdet (m * n) (kron n n A eye) = rpow (fdet m A) n.
Proof. rewrite fdet_kronAI. rewrite (Nat.mul_comm m n). apply fdet_kronIA. Qed.
(* det (A (x) B) = det(A)^n det(B)^m  for A of size m and B of size n *)
Theorem fdet_kron m n A B : fdet (m * n) (kron n n A B) = rpow (fdet m A) n * rpow (fdet n B) m.
Proof. rewrite (fdet_ext _ _ _ (kron_split m n A B)), fdet_mul, fdet_kron_AI.
  f_equal. apply fdet_kronIA. Qed.

(* diagonal and scalar matrices *)
Lemma fdet_diag n (d : nat -> R) : fdet n (fun i j => d i * delta i j) = prodn n d.
Proof. rewrite (det_lower fdet DL).
  - apply prodn_ext. intros i Hi. unfold delta. rewrite Nat.eqb_refl. ring.
  - intros i j Hi Hj Hij. unfold delta. destruct (Nat.eqb_spec i j); [lia|ring]. Qed.
Lemma fdet_scal n c : fdet n (fun i j => c * delta i j) = rpow c n.
Proof. rewrite (fdet_diag n (fun _ => c)). apply prodn_const. Qed.

(* ---------- permutation matrices: parity by sorting with row swaps ---------- *)
Definition is_perm (n : nat) (p : nat -> nat) :=
  (forall i, (i < n)%nat -> (p i < n)%nat) /\ (forall a b, (a < n)%nat -> (b < n)%nat -> p a = p b -> a = b).
(* first index i <= k with p i = v (k if none) *)
Fixpoint find_idx (p : nat -> nat) (v : nat) (k : nat) : nat :=
  match k with 0%nat => 0%nat | S k' => let i := find_idx p v k' in if Nat.eqb (p i) v then i else k end.
(* sign of the permutation i |-> p i of {0..n-1}: bring the value n-1 to position n-1 by one row swap, recurse *)
Fixpoint perm_sign (n : nat) (p : nat -> nat) : R :=
  match n with
  | 0%nat => r1
  | S k => let i0 := find_idx p k k in
           let p' := fun i => if Nat.eqb i i0 then p k else p i in
           if Nat.eqb i0 k then perm_sign k p' else - perm_sign k p'
  end.
Lemma find_idx_le p v k : (find_idx p v k <= k)%nat.
Proof. induction k; simpl; [lia|]. destruct (Nat.eqb (p (find_idx p v k)) v); lia. Qed.
Lemma find_idx_spec p v k : (exists i, (i <= k)%nat /\ p i = v) -> p (find_idx p v k) = v.
Proof. induction k; intros [i [Hi E]]; simpl.
  - assert (i = 0)%nat by lia. subst. reflexivity.
  - destruct (Nat.eqb_spec (p (find_idx p v k)) v) as [E'|N]; [exact E'|].
    destruct (Nat.eq_dec i (S k)) as [->|Hne]; [exact E|]. exfalso. apply N. apply IHk. exists i. split; [lia|exact E]. Qed.
(* a self-map of {0..n-1} that is injective is surjective *)
Lemma inj_surj n : forall p, is_perm n p -> forall v, (v < n)%nat -> exists i, (i < n)%nat /\ p i = v.
Proof. induction n as [|n IH]; intros p [Hr Hi] v Hv; [lia|].
  destruct (Nat.eq_dec (p n) v) as [E|NE]; [exists n; split; [lia|exact E]|].
  (* q: skip the value p n *)
  set (q := fun i => if (p i <? p n)%nat then p i else (p i - 1)%nat).
  assert (Hq : is_perm n q).
  { split.
    - intros i Hi0. unfold q. assert (p i < S n)%nat by (apply Hr; lia). assert (p n < S n)%nat by (apply Hr; lia).
      assert (p i <> p n) by (intro E; apply Hi in E; lia).
      destruct (Nat.ltb_spec (p i) (p n)); lia.
    - intros a b Ha Hb. unfold q.
      assert (p a <> p n) by (intro E; apply Hi in E; lia). assert (p b <> p n) by (intro E; apply Hi in E; lia).
      destruct (Nat.ltb_spec (p a) (p n)); destruct (Nat.ltb_spec (p b) (p n)); intros E; apply Hi; lia. }
  set (v' := if (v <? p n)%nat then v else (v - 1)%nat).
  assert (Hv' : (v' < n)%nat). { unfold v'. assert (p n < S n)%nat by (apply Hr; lia). destruct (Nat.ltb_spec v (p n)); lia. }
  destruct (IH q Hq v' Hv') as [i [Hi0 E]]. exists i. split; [lia|].
  unfold q, v' in E. assert (p i <> p n) by (intro E'; apply Hi in E'; lia).
  destruct (Nat.ltb_spec (p i) (p n)); destruct (Nat.ltb_spec v (p n)); lia. Qed.

Lemma tswap_lt a b i n : (a < n)%nat -> (b < n)%nat -> (i < n)%nat -> (tswap a b i < n)%nat.
Proof. unfold tswap. intros. destruct (Nat.eqb i a); [auto|]. destruct (Nat.eqb i b); auto. Qed.

Theorem fdet_perm n : forall p, is_perm n p -> fdet n (fun i j => delta (p i) j) = perm_sign n p.
Proof. induction n as [|n IH]; intros p Hp; [apply fdet_0|].
  destruct Hp as [Hr Hi]. cbn [perm_sign]. set (i0 := find_idx p n n).
  assert (Hi0 : (i0 <= n)%nat) by apply find_idx_le.
  assert (Ei0 : p i0 = n).
  { apply find_idx_spec. destruct (inj_surj (S n) p (Logic.conj Hr Hi) n) as [i [A B]]; [lia|]. exists i. split; [lia|exact B]. }
  set (p' := fun i => if Nat.eqb i i0 then p n else p i).
  assert (Hp' : is_perm n p').
  { split.
    - intros i Hlt. unfold p'. destruct (Nat.eqb_spec i i0) as [->|Hne].
      + assert (p n < S n)%nat by (apply Hr; lia). assert (p n <> n); [|lia]. intro E. rewrite <- Ei0 in E. apply Hi in E; lia.
      + assert (p i < S n)%nat by (apply Hr; lia). assert (p i <> n); [|lia]. intro E. rewrite <- Ei0 in E. apply Hi in E; lia.
    - intros a b Ha Hb. unfold p'. destruct (Nat.eqb_spec a i0) as [->|Na]; destruct (Nat.eqb_spec b i0) as [->|Nb]; intros E; auto; apply Hi in E; lia. }
  (* the matrix with rows i0 and n exchanged is  pmat p' (+) [1] *)
  assert (Blk : feq (n + 1) (n + 1) (fun i j => delta (p (tswap i0 n i)) j) (bdiag2 n (fun i j => delta (p' i) j) eye)).
  { intros i j Hlt Hlt'. unfold bdiag2, tswap, p'.
    destruct (Nat.ltb_spec i n); destruct (Nat.ltb_spec j n).
    - destruct (Nat.eqb_spec i i0); [reflexivity|]. destruct (Nat.eqb_spec i n); [lia|reflexivity].
    - assert (j = n) by lia. subst j. destruct Hp' as [Hr' _]. specialize (Hr' i H). unfold p' in Hr'.
      destruct (Nat.eqb_spec i i0).
      + unfold delta. destruct (Nat.eqb_spec (p n) n); [lia|reflexivity].
      + destruct (Nat.eqb_spec i n); [lia|]. unfold delta. destruct (Nat.eqb_spec (p i) n); [lia|reflexivity].
    - assert (i = n) by lia. subst i. destruct (Nat.eqb_spec n i0).
      + rewrite <- e in Ei0. rewrite Ei0. unfold delta. destruct (Nat.eqb_spec n j); [lia|reflexivity].
      + rewrite Nat.eqb_refl. rewrite Ei0. unfold delta. destruct (Nat.eqb_spec n j); [lia|reflexivity].
    - assert (i = n) by lia. assert (j = n) by lia. subst i j. rewrite Nat.sub_diag. unfold eye.
      destruct (Nat.eqb_spec n i0).
      + rewrite <- e in Ei0. rewrite Ei0. unfold delta. rewrite !Nat.eqb_refl. reflexivity.
      + rewrite Nat.eqb_refl, Ei0. unfold delta. rewrite !Nat.eqb_refl. reflexivity. }
  assert (D1 : fdet (S n) (fun i j => delta (p (tswap i0 n i)) j) = perm_sign n p').
  { replace (S n) with (n + 1)%nat by lia. rewrite (fdet_ext _ _ _ Blk), fdet_bdiag, fdet_eye, IH by exact Hp'. ring. }
  destruct (Nat.eqb_spec i0 n) as [E|NE].
  - rewrite <- D1. apply fdet_ext. intros i j _ _. unfold tswap.
    destruct (Nat.eqb_spec i i0); [f_equal; f_equal; lia|]. destruct (Nat.eqb_spec i n); [f_equal; f_equal; lia|reflexivity].
  - rewrite <- D1.
    rewrite (det_swap fdet DL (S n) (fun i j => delta (p i) j) i0 n) by lia. ring.
Qed.

(* ---------- n-ary block diagonal of square blocks ---------- *)
Fixpoint bdl (l : list (nat * fm)) : fm :=
  match l with [] => (fun _ _ => r0) | (n, M) :: rest => bdiag2 n M (bdl rest) end.
Fixpoint bdl_dim (l : list (nat * fm)) : nat := match l with [] => 0%nat | (n, _) :: rest => (n + bdl_dim rest)%nat end.
Fixpoint bdl_det (l : list (nat * fm)) : R := match l with [] => r1 | (n, M) :: rest => fdet n M * bdl_det rest end.
Theorem fdet_bdl l : fdet (bdl_dim l) (bdl l) = bdl_det l.
Proof. induction l as [|[n M] l IH]; cbn [bdl bdl_dim bdl_det]; [apply fdet_0|]. rewrite fdet_bdiag, IH. reflexivity. Qed.

(* ---------- product of square matrices of one size ---------- *)
Theorem fdet_chain n (Ms : list fm) :
  fdet n (fold_right (fun M acc => mmul n M acc) eye Ms) = fold_right (fun M acc => fdet n M * acc) r1 Ms.
Proof. induction Ms as [|M Ms IH]; cbn [fold_right]; [apply fdet_eye|]. rewrite fdet_mul, IH. reflexivity. Qed.

(* ---------- n-ary Kronecker product of square factors (right-nested, Kron.kronR) ---------- *)
Definition sqf (A : fac (R:=R)) := fr A = fc A /\ (0 < fr A)%nat.
Lemma kronR_sq Ms : Forall sqf Ms -> sqf (kronR Ms).
Proof. induction 1 as [|M Ms [E P] _ [E' P']]; cbn [kronR]; [split; cbn; lia|].
  split; cbn [kron2 fr fc]; [rewrite E, E'; reflexivity|nia]. Qed.
Lemma fdet_kron2 (A B : fac (R:=R)) : sqf A -> sqf B ->
  fdet (fr (kron2 A B)) (fmx (kron2 A B)) = rpow (fdet (fr A) (fmx A)) (fr B) * rpow (fdet (fr B) (fmx B)) (fr A).
Proof. intros [EA PA] [EB PB]. cbn [kron2 fr fmx]. rewrite <- EB. apply (fdet_kron (fr A) (fr B) (fmx A) (fmx B)). Qed.
(* exponent bookkeeping of the rule: factor i is raised to (c * N) / n_i *)
Fixpoint kdets (c N : nat) (Ms : list (fac (R:=R))) : R :=
  match Ms with [] => r1 | M :: Ms' => rpow (fdet (fr M) (fmx M)) (c * N / fr M) * kdets c N Ms' end.
Lemma kdets_step c n N Ms : (0 < n)%nat -> Forall sqf Ms -> (exists q, N = q * fr (kronR Ms))%nat ->
  kdets c (n * N) Ms = kdets (c * n) N Ms.
Proof. intros Hn HF _. induction Ms as [|M Ms IH]; cbn [kdets]; [reflexivity|].
  inversion HF; subst. rewrite IH by auto. replace (c * (n * N))%nat with (c * n * N)%nat by ring. reflexivity. Qed.
Theorem fdet_kronR_gen Ms : Forall sqf Ms -> forall c,
  kdets c (fr (kronR Ms)) Ms = rpow (fdet (fr (kronR Ms)) (fmx (kronR Ms))) c.
Proof. induction 1 as [|M Ms SM SMs IH]; intros c.
  - cbn [kdets kronR one11 fr fmx]. rewrite (det_lower fdet DL 1); [cbn; rewrite rpow_mul_base, !rpow_1; ring|].
    intros i j Hi Hj Hij. lia.
  - assert (SK := kronR_sq Ms SMs). cbn [kdets]. cbn [kronR].
    rewrite (fdet_kron2 M (kronR Ms) SM SK). cbn [kron2 fr].
    destruct SM as [EM PM]. destruct SK as [EK PK].
    rewrite kdets_step; [|exact PM|exact SMs|exists 1%nat; lia].
    rewrite IH. replace (c * (fr M * fr (kronR Ms)) / fr M)%nat with (c * fr (kronR Ms))%nat.
    2:{ replace (c * (fr M * fr (kronR Ms)))%nat with (c * fr (kronR Ms) * fr M)%nat by ring. rewrite Nat.div_mul by lia. reflexivity. }
    rewrite rpow_mul_base. rewrite <- !rpow_mul.
    rewrite (Nat.mul_comm c (fr (kronR Ms))), (Nat.mul_comm c (fr M)). reflexivity.
Qed.
Theorem fdet_kronR Ms : Forall sqf Ms ->
  fdet (fr (kronR Ms)) (fmx (kronR Ms)) = kdets 1 (fr (kronR Ms)) Ms.
Proof. intros H. rewrite (fdet_kronR_gen Ms H 1). cbn [rpow]. ring. Qed.
End Det.
End DetLaws.
