(* Property C13 (placeholder while the lemma files are being written). *)
From Core Require Import C12_Ops C13_Model.
