(* Property C13: GMRES returns the residual-minimising iterate of its Krylov space.
   Only statements closed by [exact]; the lemmas live in C13_Proofs.v, C13_Summary.v, C13_Witness.v.  The model
   (C13_Model.v) is a transcription of cola/linalg/decompositions/arnoldi.py (arnoldi_fact) and
   cola/linalg/inverse/gmres.py (gmres_fwd) over an abstract scalar/vector interface; the same term is executed on
   PrimFloat by the correspondence check. *)
From Coq Require Import List Bool Arith QArith Qcanon.
From Core Require Import C12_Ops C12_Witness C13_Model C13_Proofs C13_Reduction C13_Loop C13_Link C13_Summary C13_Witness C13_RInst.
Import ListNotations.
Local Close Scope Qc_scope. Local Close Scope Q_scope.

(* never more than min(m, n) Arnoldi steps, i.e. products with A besides the one for the initial residual; for every
   scalar/vector instance (floats included), operator, solve oracle, flag value, tolerance and batch of columns *)
Theorem C13_products : forall (T V : Type) (o : ops T) (vo : vops T V) (A : V -> V) selfref zero_nan abs_clip solve flag pad_buf tol mfac m n (bs x0s : list V),
  gsteps (gmres_fwd o vo A solve flag pad_buf selfref zero_nan abs_clip tol mfac m n bs x0s) <= Nat.min m n.
Proof. exact @gmres_products. Qed.
Print Assumptions C13_products.

(* modified Gram-Schmidt as coded (inner_loop): the result is orthogonal to an orthonormal basis *)
Theorem C13_mgs_orthogonal : forall (T V : Type) (o : ops T) (vo : vops T V), arn_laws o vo ->
  forall qs w w' hs hs', mgs vo qs w hs = (w', hs') -> orthonormal o vo qs -> forall u, In u qs -> vdot vo u w' = o0 o.
Proof. exact @mgs_orth_b. Qed.
Print Assumptions C13_mgs_orthogonal.

(* one step of arnoldi_fact's body without clipping: the basis stays orthonormal and the new column of H satisfies the
   Arnoldi relation  A q_idx = sum_{i <= idx+1} H[i, idx] q_i  (tested against every vector u) *)
Theorem C13_arnoldi_step : forall (T V : Type) (o : ops T) (vo : vops T V), arn_laws o vo ->
  forall (A : V -> V) selfref abs_clip tol (c : acol (T:=T) (V:=V)),
  orthonormal o vo (aqs c) ->
  let c' := arnoldi_step o vo A selfref abs_clip tol c in
  forall w hs, mgs vo (aqs c) (A (alast c)) [] = (w, hs) ->
  next_q o vo selfref (step_thr o abs_clip tol (ahs c ++ [rev hs ++ [vnrm o vo w]])) w (vnrm o vo w) = vdivs vo w (vnrm o vo w) -> vnrm o vo w <> o0 o ->
  orthonormal o vo (aqs c') /\
  exists hcol, ahs c' = ahs c ++ [hcol] /\ length hcol = S (length (aqs c)) /\ aqs c' = aqs c ++ [alast c'] /\
    forall u, vdot vo u (A (alast c)) = lsum o (zipw (fun h q => omul o h (vdot vo u q)) hcol (aqs c')).
Proof. exact @arnoldi_step_b. Qed.
Print Assumptions C13_arnoldi_step.

(* the whole loop of one column: after k unclipped steps the basis q_0..q_k is orthonormal, its last element is the loop
   variable, and every filled column j of H satisfies the Arnoldi relation (AInv) *)
Theorem C13_arnoldi_invariant : forall (T V : Type) (o : ops T) (vo : vops T V), arn_laws o vo ->
  forall (A : V -> V) (selfref zero_nan abs_clip : bool) (tol : T) (r0 : V) (K : nat), vnrm o vo r0 <> o0 o ->
  start_den o zero_nan (vnrm o vo r0) = vnrm o vo r0 ->
  (forall k, k < K -> unclipped o vo A selfref abs_clip tol (acs o vo A selfref zero_nan abs_clip tol r0 k)) ->
  forall k, k <= K -> AInv o vo A k (acs o vo A selfref zero_nan abs_clip tol r0 k).
Proof. exact @arnoldi_invariant_b. Qed.
Print Assumptions C13_arnoldi_invariant.

(* the full statement for the value returned by gmres_fwd (flag gmres_square_H cleared): minimal residual over
   x0 + K_m(A, r0) and residual <= ||r0||, after exactly m products *)
Theorem C13_gmres_fwd_minimal : C13_full.
Proof. exact C13_full_proved. Qed.
Print Assumptions C13_gmres_fwd_minimal.

(* normal equations characterise the minimiser: a residual r0 - sum_j y_j w_j orthogonal to every w_j (= A q_j) has the
   smallest squared norm among all coefficient vectors ([Pos] = "is a non-negative real") *)
Theorem C13_gmres_minimal : forall (T V : Type) (o : ops T) (vo : vops T V), arn_laws o vo ->
  forall (Pos : T -> Prop), (forall v, Pos (vdot vo v v)) ->
  forall ws y r0, (forall w, In w ws -> vdot vo w (lsq_res vo ws y r0) = o0 o) ->
  forall y', Pos (osub o (vdot vo (lsq_res vo ws y' r0) (lsq_res vo ws y' r0)) (vdot vo (lsq_res vo ws y r0) (lsq_res vo ws y r0))).
Proof. exact @gmres_minimal_b. Qed.
Print Assumptions C13_gmres_minimal.

Theorem C13_residual_le_initial : forall (T V : Type) (o : ops T) (vo : vops T V), arn_laws o vo ->
  forall (Pos : T -> Prop), (forall v, Pos (vdot vo v v)) ->
  forall ws y r0, (forall w, In w ws -> vdot vo w (lsq_res vo ws y r0) = o0 o) ->
  Pos (osub o (vdot vo r0 r0) (vdot vo (lsq_res vo ws y r0) (lsq_res vo ws y r0))).
Proof. exact @gmres_residual_le_r0_b. Qed.
Print Assumptions C13_residual_le_initial.

(* the reduction: for an orthonormal family q_0..q_m with the Arnoldi relation and r0 = beta q_0, the residual
   rho = r0 - sum_j y_j A q_j satisfies ||rho||^2 = ||beta e1 - H~ y||^2 ([coord] = entries of beta e1 - H~ y) *)
Theorem C13_reduction : forall (T V : Type) (o : ops T) (vo : vops T V), arn_laws o vo ->
  forall (A : V -> V) (q : nat -> V) (H : nat -> nat -> T) (m : nat) (beta : T) (r0 rho : V) (y : nat -> T),
  (forall i j, i <= m -> j <= m -> vdot vo (q i) (q j) = delta o i j) ->
  (forall j, j < m -> forall u, vdot vo u (A (q j)) = sum o (S m) (fun i => omul o (H i j) (vdot vo u (q i)))) ->
  (forall u, vdot vo u r0 = omul o beta (vdot vo u (q 0))) ->
  (forall u, vdot vo u rho = osub o (vdot vo u r0) (sum o m (fun j => omul o (y j) (vdot vo u (A (q j)))))) ->
  vdot vo rho rho = sum o (S m) (fun k => omul o (coord o H m beta y k) (oconj o (coord o H m beta y k))).
Proof. exact @gmres_reduction_b. Qed.
Print Assumptions C13_reduction.

(* a solution y of the small normal equations (H~^H H~) y = H~^H (beta e1) - what gmres_fwd asks of xnp.solve once the
   last Hessenberg row is kept - gives the residual of minimal norm over x0 + span{q_0..q_(m-1)} = x0 + K_m *)
Theorem C13_normal_equations_optimal : forall (T V : Type) (o : ops T) (vo : vops T V), arn_laws o vo ->
  forall (A : V -> V) (q : nat -> V) (H : nat -> nat -> T) (m : nat) (beta : T) (r0 : V) (y : nat -> T) (Pos : T -> Prop),
  (forall v, Pos (vdot vo v v)) ->
  (forall i j, i <= m -> j <= m -> vdot vo (q i) (q j) = delta o i j) ->
  (forall j, j < m -> forall u, vdot vo u (A (q j)) = sum o (S m) (fun i => omul o (H i j) (vdot vo u (q i)))) ->
  (forall u, vdot vo u r0 = omul o beta (vdot vo u (q 0))) ->
  (forall i, i < m -> sum o m (fun j => omul o (Gram o H m i j) (y j)) = omul o (oconj o (H 0 i)) beta) ->
  forall y' : list T,
  Pos (osub o (vdot vo (rho_of vo A q m r0 y') (rho_of vo A q m r0 y'))
              (vdot vo (rho_of vo A q m r0 (map y (seq 0 m))) (rho_of vo A q m r0 (map y (seq 0 m))))).
Proof. exact @gmres_optimal_b. Qed.
Print Assumptions C13_normal_equations_optimal.

(* the pinned tree (flag gmres_square_H = true) violates the property: A = [[1,2],[3,4]], b = (1,0), x0 = 0, m = 1 returns
   x = (1,0) whose squared residual 9 exceeds both that of 0.1*b in x0 + K_1 (9/10) and that of the initial guess (1) *)
Theorem C13_refuted_square_H :
  map this (gsolq true) = [1 # 1; 0 # 1]%Q /\ gsteps (grunq true) = 1 /\
  (exists t, Qc_ltb (gres2 (gkrylov1 t)) (gres2 (gsolq true)) = true) /\
  Qc_ltb (gres2 gx0) (gres2 (gsolq true)) = true.
Proof. exact gmres_refuted_square_H. Qed.
Print Assumptions C13_refuted_square_H.

(* with the flag cleared the model returns the least-squares optimum on the same witness *)
Theorem C13_witness_fixed_optimal :
  map this (gsolq false) = map this (gkrylov1 (qq 1 10)) /\ this (gres2 (gsolq false)) = (9 # 10)%Q.
Proof. exact gmres_witness_fixed_optimal. Qed.
Print Assumptions C13_witness_fixed_optimal.

(* the law bundle used by the exact-arithmetic theorems is satisfiable: real scalars, R^2 with the Euclidean inner
   product (this example, and only it, depends on the standard library's axioms of the real numbers) *)
Example C13_laws_satisfiable : arn_laws ROps r2ops.
Proof. exact arn_laws_R. Qed.
Print Assumptions C13_laws_satisfiable.
