(* C17 - the generator machine of C17_Rng.v run on OBSERVED generator tables (the external oracle passed as data):
   states, drawn blocks and results are represented by digests (Z). The correspondence check builds the tables from a
   cola-free reference run (user events only) and compares the machine's prediction for the full history
   (state after every event, numbers the user sees, probe blocks and results of the cola calls) with what was observed. *)
From Coq Require Import List ZArith Bool Arith Lia.
From Core Require Import C17_Rng.
Import ListNotations.

Definition tab2 := list (Z * Z).                         (* seed -> state ; key -> sha key ; call id -> result *)
Definition tabD := list ((Z * nat) * (Z * Z)).           (* (state, draw code) -> (digest of the block, next state) *)
Fixpoint look2 (t : tab2) (k : Z) : Z := match t with [] => (-1)%Z | (a, b) :: r => if Z.eqb a k then b else look2 r k end.
Fixpoint lookD (t : tabD) (g : Z) (c : nat) : Z * Z :=
  match t with [] => (-1, -1)%Z | ((a, n), v) :: r => if Z.eqb a g && Nat.eqb n c then v else lookD r g c end.
Fixpoint look22 (t : list ((Z * Z) * Z)) (a b : Z) : Z :=
  match t with [] => (-1)%Z | ((x, y), v) :: r => if Z.eqb x a && Z.eqb y b then v else look22 r a b end.

Record tables := { t_seed : tab2; t_draw : tabD; t_sha : tab2 }.
Definition ev := event Z Z (list Z).
Definition pr := prog Z (list Z).
Definition seedT (t : tables) (k : Z) : Z := look2 (t_seed t) k.
Definition streamT (t : tables) (g : Z) (c : nat) : list Z * Z := let (v, g') := lookD (t_draw t) g c in ([v], g').
Definition shaT (t : tables) (k : Z) : Z := look2 (t_sha t) k.

(* state after, and payload of, every event *)
Definition payload (o : obs Z (list Z)) : list Z := match o with ODraw _ _ z => z | OUnit _ _ => [] | OCola _ _ o => o end.
Fixpoint trace (t : tables) (h : list ev) (g : Z) : list (Z * list Z) :=
  match h with
  | [] => []
  | e :: r => let (o, g1) := step_event Z Z (list Z) (seedT t) (streamT t) (shaT t) e g in (g1, payload o) :: trace t r g1
  end.
Definition lz_eqb (a b : list Z) : bool := Nat.eqb (length a) (length b) && forallb (fun p => Z.eqb (fst p) (snd p)) (combine a b).
Definition step_eqb (a b : Z * list Z) : bool := Z.eqb (fst a) (fst b) && lz_eqb (snd a) (snd b) && negb (Z.eqb (fst a) (-1)) && negb (existsb (Z.eqb (-1)) (snd a)).
Record hist_case := { c_tab : tables; c_g0 : Z; c_hist : list ev; c_obs : list (Z * list Z) }.
Definition hist_ok (c : hist_case) : bool :=
  let tr := trace (c_tab c) (c_hist c) (c_g0 c) in
  Nat.eqb (length tr) (length (c_obs c)) && forallb (fun p => step_eqb (fst p) (snd p)) (combine tr (c_obs c)).
Fixpoint failing_from {A} (chk : A -> bool) (i : nat) (cs : list A) : list nat :=
  match cs with [] => [] | c :: r => if chk c then failing_from chk (S i) r else i :: failing_from chk (S i) r end.

(* the call sites, specialised to digests. [res] = digest of the result of the same call observed in a clean process
   state; [n_it] = number of probe blocks of the Hutchinson call (validated against the model separately). *)
Definition e_udraw (code : nat) : ev := UDraw Z Z (list Z) code.
Definition e_useed (k : Z) : ev := USeed Z Z (list Z) k.
Definition e_uset (s : Z) : ev := USet Z Z (list Z) (fun _ => s).      (* np.random.set_state(a state saved earlier) *)
Definition e_hutch (t : tables) (key : option Z) (nz max_iters n_it : nat) (res : Z) : ev :=
  Cola Z Z (list Z) (hutch_site Z (list Z) (shaT t) (fun st : list Z => Nat.ltb (length st) n_it) (fun st z => st ++ z) nz max_iters key [] (fun st => st ++ [res])).
Definition e_slq (key : option Z) (nz : nat) (res : Z) : ev := Cola Z Z (list Z) (slq_site Z (list Z) key nz (fun _ => [res])).
(* start-vector sites: [fz] = table (digest of the start vector -> digest of the result of the call given that vector) *)
Definition e_start (t : tables) (key : option Z) (n : nat) (cid : Z) (fz : list ((Z * Z) * Z)) : ev :=
  Cola Z Z (list Z) (start_site Z (list Z) (shaT t) None key n (fun z => [look22 fz cid (hd (-1)%Z z)])).
(* power iteration: the start vector is the first operand the operator sees (recorded) *)
Definition e_power (t : tables) (key : option Z) (n : nat) (res : Z) : ev :=
  Cola Z Z (list Z) (start_site Z (list Z) (shaT t) None key n (fun z => z ++ [res])).
Definition e_nystrom (t : tables) (key : option Z) (nz : nat) (res : Z) : ev :=
  Cola Z Z (list Z) (nystrom_site Z (list Z) (shaT t) key nz (fun _ => [res])).
Definition e_unkeyed (nz : nat) (res : Z) : ev := Cola Z Z (list Z) (unkeyed_sketch_site Z (list Z) nz (fun _ => [res])).
(* AdaNysPrecond / select_rank_adaptively: C17_Rng.ada_site unfolded along the observed sequence of ranks
   (an unkeyed sketch of n*rank numbers, then the default-key start vector of the power iteration that estimates the error) *)
Fixpoint sketches (t : tables) (n : nat) (ranks : list nat) (res : Z) : pr :=
  match ranks with
  | [] => Ret [res]
  | r :: rs => Randn None (n * r) (fun _ => Randn (Some (PRNGKey (shaT t) 42)) n (fun _ => sketches t n rs res))
  end.
Definition e_ada (t : tables) (n : nat) (ranks : list nat) (res : Z) : ev := Cola Z Z (list Z) (sketches t n ranks res).
Definition e_lobpcg_keyed (t : tables) (code : nat) (res : Z) : ev :=
  Cola Z Z (list Z) (lobpcg_site_keyed Z (list Z) (shaT t) code (fun _ => [res])).    (* the repaired call site *)
Definition e_lobpcg (code : nat) : ev := Cola Z Z (list Z) (lobpcg_site Z (list Z) code (fun _ => [])).    (* its value is not compared: it depends on the history *)
