(* C16: theorems about the svd and pinv models. *)
From Coq Require Import ZArith Arith Lia List Ring Field ArithRing PeanoNat Bool Sorting.Permutation.
From Core Require Import Base FieldBase PySlice C09_MatAlg C10_Model C10_Proofs C16_Model.
Import ListNotations.

Section Proofs.
Context {R : Type} {RR : Ring R} {CR : CRing R} {FF : Field R}.
Add Ring Rr : Rth.
Add Field Rf : Fth.
Open Scope R_scope.
Notation fm := (fm (R:=R)).

(* ---------- sums over a permutation of the index range ---------- *)
Definition lsum (l : list nat) (g : nat -> R) : R := fold_right (fun x acc => g x + acc) r0 l.
Lemma sum_shift n (f : nat -> R) : sum (S n) f = f 0%nat + sum n (fun i => f (S i)).
Proof. induction n as [|n IH]; [cbn; ring|]. change (sum (S (S n)) f) with (sum (S n) f + f (S n)). rewrite IH. cbn [sum]. ring. Qed.
Lemma lsum_nth idx (g : nat -> R) : lsum idx g = sum (length idx) (fun j => g (nth j idx 0%nat)).
Proof. induction idx as [|x l IH]; [reflexivity|]. cbn [lsum fold_right length]. rewrite sum_shift. cbn [nth]. fold (lsum l g). rewrite IH. reflexivity. Qed.
Lemma lsum_perm l l' (g : nat -> R) : Permutation l l' -> lsum l g = lsum l' g.
Proof. induction 1; cbn [lsum fold_right] in *; try ring.
  - fold (lsum l g) (lsum l' g). rewrite IHPermutation. reflexivity.
  - congruence. Qed.
Lemma lsum_seq a n (g : nat -> R) : lsum (seq a n) g = sum n (fun i => g (a + i)%nat).
Proof. revert a. induction n as [|n IH]; intros a; [reflexivity|]. cbn [seq lsum fold_right]. fold (lsum (seq (S a) n) g). rewrite IH, sum_shift.
  rewrite Nat.add_0_r. f_equal. apply sum_ext; intros i Hi. f_equal. lia. Qed.
Lemma sum_perm idx r (g : nat -> R) : Permutation idx (seq 0 r) -> sum (length idx) (fun j => g (nth j idx 0%nat)) = sum r g.
Proof. intros H. rewrite <- lsum_nth, (lsum_perm _ _ g H), lsum_seq. reflexivity. Qed.

(* selecting distinct columns of a matrix with orthonormal columns *)
Definition orthocols (m k : nat) (U : fm) := feq k k (mmul m (cj U) U) eye.
Lemma orthocols_take m r (U : fm) idx : orthocols m r U -> NoDup idx -> (forall x, In x idx -> (x < r)%nat) ->
  orthocols m (length idx) (fun i j => U i (nth j idx 0%nat)).
Proof. intros H Hnd Hr a b Ha Hb. unfold mmul, cj.
  change (sum m (fun l => conj (U l (nth a idx 0%nat)) * U l (nth b idx 0%nat))) with (mmul m (cj U) U (nth a idx 0%nat) (nth b idx 0%nat)).
  rewrite H by (apply Hr, nth_In; assumption). unfold eye, delta.
  destruct (Nat.eqb_spec (nth a idx 0%nat) (nth b idx 0%nat)) as [E|E], (Nat.eqb_spec a b) as [E'|E']; auto.
  - exfalso. apply E'. apply (proj1 (NoDup_nth idx 0%nat) Hnd); auto.
  - subst. contradiction. Qed.

(* ---------- DenseSVD ---------- *)
(* specification of the LAPACK oracle (full_matrices=True, V = VH^H): *)
Definition SvdSpec (nonneg : R -> Prop) (m n r : nat) (A U : fm) (s : nat -> R) (V : fm) : Prop :=
  (r <= m)%nat /\ (r <= n)%nat /\ orthocols m m U /\ orthocols n n V /\ (forall l, (l < r)%nat -> nonneg (s l)) /\
  feq m n A (fun i j => sum r (fun l => U i l * s l * conj (V j l))).
(* what the property asks of the result (k = all) *)
Definition SvdValid (nonneg : R -> Prop) (m n : nat) (A : fm) (o : svdout (R:=R)) : Prop :=
  orthocols m (sk o) (sU o) /\ orthocols n (sk o) (sV o) /\ (forall j, (j < sk o)%nat -> nonneg (sS o j)) /\
  feq m n (fun i j => sum (sk o) (fun l => sU o i l * sS o l * conj (sV o j l))) A.
Lemma orthocols_le m r r' U : (r' <= r)%nat -> orthocols m r U -> orthocols m r' U.
Proof. intros H HU a b Ha Hb. apply HU; lia. Qed.
Theorem svd_valid (nonneg : R -> Prop) leb m n r A U s V : SvdSpec nonneg m n r A U s V ->
  let o := svd_dense leb r U s V in sk o = r /\ SvdValid nonneg m n A o.
Proof. intros (Hrm & Hrn & HU & HV & Hs & HA). cbn zeta. unfold svd_dense.
  set (idx := argsort leb r s).
  assert (Hp : Permutation idx (seq 0 r)) by apply argsort_perm.
  assert (HL : length idx = r) by (rewrite (Permutation_length Hp); apply seq_length).
  assert (Hnd : NoDup idx) by (apply (Permutation_NoDup (Permutation_sym Hp)), seq_NoDup).
  assert (Hr : forall x, In x idx -> (x < r)%nat) by (intros x Hx; apply (Permutation_in _ Hp) in Hx; apply in_seq in Hx; lia).
  cbn [sk sU sS sV]. split; [exact HL|]. unfold SvdValid. cbn [sk sU sS sV]. repeat split.
  - apply (orthocols_take m r); auto. apply (orthocols_le m m r); auto.
  - apply (orthocols_take n r); auto. apply (orthocols_le n n r); auto.
  - intros j Hj. apply Hs. apply Hr. apply nth_In. exact Hj.
  - intros i j Hi Hj. rewrite (HA i j Hi Hj). exact (sum_perm idx r (fun l => U i l * s l * conj (V j l)) Hp). Qed.

(* ---------- Lanczos rule (n <= m): from orthonormal eigenpairs of A^H A with non-zero "square roots" ---------- *)
Section Lanczos.
Variables (m n q : nat) (A W : fm) (lam : nat -> R) (idx : list nat) (s : nat -> R).
Hypothesis HW : orthocols n q W.
Hypothesis HE : feq n q (mmul n (mmul m (cj A) A) W) (mmul q W (dg lam)).     (* (A^H A) W = W diag(lam) *)
Hypothesis Hnd : NoDup idx.
Hypothesis Hr : forall x, In x idx -> (x < q)%nat.
Hypothesis Hs : forall j, (j < length idx)%nat -> s j * s j = lam (nth j idx 0%nat) /\ conj (s j) = s j /\ s j <> r0.
Let k := length idx.
Let V : fm := fun i j => W i (nth j idx 0%nat).
Let U : fm := fun i j => mmul n A V i j / s j.
Lemma lanczos_V_orth : orthocols n k V.
Proof. apply (orthocols_take n q); assumption. Qed.
Lemma gram_AV : feq k k (mmul m (cj (mmul n A V)) (mmul n A V)) (dg (fun j => lam (nth j idx 0%nat))).
Proof. intros a b Ha Hb.
  assert (E : mmul m (cj (mmul n A V)) (mmul n A V) a b = mmul n (cj V) (mmul n (mmul m (cj A) A) V) a b).
  { unfold mmul at 1. erewrite sum_ext by (intros l Hl; rewrite cj_mmul; reflexivity).
    change (sum m (fun l => mmul n (cj V) (cj A) a l * mmul n A V l b)) with (mmul m (mmul n (cj V) (cj A)) (mmul n A V) a b).
    rewrite mmul_assoc. unfold mmul at 1 3. apply sum_ext; intros l Hl. f_equal. symmetry. apply mmul_assoc. }
  rewrite E. unfold mmul at 1.
  rewrite (sum_ext n _ (fun l => cj V a l * (V l b * lam (nth b idx 0%nat)))).
  - rewrite (sum_ext n _ (fun l => (cj V a l * V l b) * lam (nth b idx 0%nat))) by (intros; ring). rewrite sum_mul_r.
    change (sum n (fun l => cj V a l * V l b)) with (mmul n (cj V) V a b). rewrite (lanczos_V_orth a b Ha Hb). unfold dg, eye, delta.
    destruct (Nat.eqb_spec a b); [subst; ring|ring].
  - intros l Hl. f_equal. change (mmul n (mmul m (cj A) A) V l b) with (mmul n (mmul m (cj A) A) W l (nth b idx 0%nat)).
    rewrite HE by (auto; apply Hr, nth_In; exact Hb). rewrite mmul_dg_r by (apply Hr, nth_In; exact Hb). reflexivity. Qed.
(* U = A V Sigma^-1 has orthonormal columns *)
Theorem lanczos_U_orth : orthocols m k U.
Proof. intros a b Ha Hb. destruct (Hs a Ha) as (Sa & Ca & Na). destruct (Hs b Hb) as (Sb & Cb & Nb).
  unfold mmul, cj, U.
  rewrite (sum_ext m _ (fun l => (conj (mmul n A V l a) * mmul n A V l b) * (r1 / (s a * s b)))).
  - rewrite sum_mul_r. change (sum m (fun l => conj (mmul n A V l a) * mmul n A V l b)) with (mmul m (cj (mmul n A V)) (mmul n A V) a b).
    rewrite (gram_AV a b Ha Hb). unfold dg, eye, delta. destruct (Nat.eqb_spec a b) as [->|Hne].
    + rewrite <- Sb. field. exact Nb.
    + field. split; assumption.
  - intros l Hl. assert (Ec : conj (mmul n A V l a / s a) = conj (mmul n A V l a) / s a).
    { assert (Hq : mmul n A V l a / s a = mmul n A V l a * (r1 / s a)) by (field; exact Na). rewrite Hq, conj_mul.
      assert (Hi : conj (r1 / s a) = r1 / s a).
      { assert (H1 : conj (r1 / s a) * s a = r1). { rewrite <- Ca at 2. rewrite <- conj_mul. replace (r1 / s a * s a) with r1 by (field; exact Na). apply conj_1. }
        transitivity (conj (r1 / s a) * s a * (r1 / s a)); [field; exact Na|rewrite H1; ring]. }
      rewrite Hi. field. exact Na. }
    rewrite Ec. field. split; assumption. Qed.
(* U Sigma = A V : the triplets are singular triplets, and U Sigma V^H V = A V (rank-k part) *)
Theorem lanczos_USigma : feq m k (fun i j => U i j * s j) (mmul n A V).
Proof. intros i j Hi Hj. destruct (Hs j Hj) as (_ & _ & Nj). unfold U. field. exact Nj. Qed.
Theorem lanczos_rank_k_part : feq m k (mmul k (fun i l => U i l * s l) (mmul n (cj V) V)) (mmul n A V).
Proof. apply feq_trans with (mmul k (fun i l => U i l * s l) eye).
  - apply mmul_ext; [apply feq_refl|exact lanczos_V_orth].
  - eapply feq_trans; [apply feq_eye_r|exact lanczos_USigma]. Qed.
(* when V is square unitary (all n triplets): U Sigma V^H = A *)
Theorem lanczos_all : k = n -> feq n n (mmul n V (cj V)) eye -> feq m n (mmul n (fun i l => U i l * s l) (cj V)) A.
Proof. intros Hk HVV. apply feq_trans with (mmul n (mmul n A V) (cj V)).
  - apply mmul_ext; [|apply feq_refl]. intros i j Hi Hj. apply lanczos_USigma; [exact Hi|rewrite Hk; exact Hj].
  - eapply feq_trans; [apply feq_mmul_assoc|]. eapply feq_trans; [apply mmul_ext; [apply feq_refl|exact HVV]|apply feq_eye_r]. Qed.
End Lanczos.

(* the same, bundled: specification of the eigen-oracle on A^H A + the sqrt oracle, and the rule's output *)
Definition LanczosSpec (m n q : nat) (A W : fm) (lam : nat -> R) (idx : list nat) (s : nat -> R) : Prop :=
  orthocols n q W /\ feq n q (mmul n (mmul m (cj A) A) W) (mmul q W (dg lam)) /\ NoDup idx /\ (forall x, In x idx -> (x < q)%nat) /\
  (forall j, (j < length idx)%nat -> s j * s j = lam (nth j idx 0%nat) /\ conj (s j) = s j /\ s j <> r0).
Definition lanV (W : fm) (idx : list nat) : fm := fun i j => W i (nth j idx 0%nat).
Definition lanU (n : nat) (A W : fm) (idx : list nat) (s : nat -> R) : fm := fun i j => mmul n A (lanV W idx) i j / s j.
Theorem lanczos_svd_partial m n q A W lam idx s : LanczosSpec m n q A W lam idx s ->
  let k := length idx in let V := lanV W idx in let U := lanU n A W idx s in
  orthocols n k V /\ orthocols m k U /\ feq m k (fun i j => U i j * s j) (mmul n A V) /\
  feq m k (mmul k (fun i l => U i l * s l) (mmul n (cj V) V)) (mmul n A V).
Proof. intros (H1 & H2 & H3 & H4 & H5). cbn zeta. repeat split.
  - apply (lanczos_V_orth n q W idx H1 H3 H4).
  - apply (lanczos_U_orth m n q A W lam idx s H1 H2 H3 H4 H5).
  - apply (lanczos_USigma m n A W lam idx s H5).
  - apply (lanczos_rank_k_part m n q A W lam idx s H1 H3 H4 H5). Qed.
Theorem lanczos_svd_all m n q A W lam idx s : LanczosSpec m n q A W lam idx s -> length idx = n ->
  feq n n (mmul n (lanV W idx) (cj (lanV W idx))) eye ->
  feq m n (mmul n (fun i l => lanU n A W idx s i l * s l) (cj (lanV W idx))) A.
Proof. intros (H1 & H2 & H3 & H4 & H5) Hk HVV. apply (lanczos_all m n A W lam idx s H5 Hk HVV). Qed.

(* the Lanczos rule of the model is exactly this construction on the sliced eigenpairs *)
Lemma svd_lanczos_tall_out m n q A lam W sqrt_ k wh idx : sel k wh q = Some idx ->
  svd_lanczos_tall m n q A lam W sqrt_ k wh =
  Some (mksvd (length idx) (lanU n A W idx (fun j => sqrt_ (lam (nth j idx 0%nat)))) (fun j => sqrt_ (lam (nth j idx 0%nat))) (lanV W idx)).
Proof. intros H. unfold svd_lanczos_tall. rewrite H. reflexivity. Qed.

(* ---------- structural svd rules ---------- *)
Lemma orthocols_eye n : orthocols n n eye.
Proof. intros a b Ha Hb. unfold mmul. rewrite (sum_ext n _ (fun l => delta a l * eye l b)).
  - rewrite (sum_delta_l n a (fun l => eye l b) Ha). reflexivity.
  - intros l Hl. unfold cj, eye. rewrite conj_delta, (delta_sym l a). reflexivity. Qed.
Lemma recon_eye n (d : nat -> R) : feq n n (fun i j => sum n (fun l => eye i l * d l * conj (eye j l))) (dg d).
Proof. intros i j Hi Hj. rewrite (sum_ext n _ (fun l => delta i l * (d l * delta j l))).
  - rewrite (sum_delta_l n i (fun l => d l * delta j l) Hi). unfold dg. rewrite (delta_sym j i). reflexivity.
  - intros l Hl. unfold eye. rewrite conj_delta. ring. Qed.
Theorem svd_diag_valid (nonneg : R -> Prop) n d : (forall i, (i < n)%nat -> nonneg (d i)) -> SvdValid nonneg n n (dg d) (svd_diag n d).
Proof. intros H. unfold SvdValid, svd_diag. cbn [sk sU sS sV]. repeat split; auto using orthocols_eye, recon_eye. Qed.
Theorem svd_ident_valid (nonneg : R -> Prop) n : nonneg r1 -> SvdValid nonneg n n eye (svd_ident n).
Proof. intros H. unfold SvdValid, svd_ident. cbn [sk sU sS sV]. repeat split; auto using orthocols_eye.
  eapply feq_trans; [apply recon_eye|]. intros i j _ _. unfold dg, eye. ring. Qed.

(* any selection of distinct positions of a valid decomposition: orthonormal columns, non-negative Sigma, singular triplets
   A V' = U' Sigma'; a selection that is a permutation of all positions reconstructs A *)
Theorem svd_take_partial (nonneg : R -> Prop) m n r A U s V idx : SvdSpec nonneg m n r A U s V -> NoDup idx -> (forall x, In x idx -> (x < r)%nat) ->
  let o := svd_take idx U s V in
  orthocols m (sk o) (sU o) /\ orthocols n (sk o) (sV o) /\ (forall j, (j < sk o)%nat -> nonneg (sS o j)) /\
  feq m (sk o) (mmul n A (sV o)) (fun i j => sU o i j * sS o j).
Proof. intros (Hrm & Hrn & HU & HV & Hs & HA) Hnd Hr. cbn zeta. unfold svd_take. cbn [sk sU sS sV]. repeat split.
  - apply (orthocols_take m r); auto. apply (orthocols_le m m r); auto.
  - apply (orthocols_take n r); auto. apply (orthocols_le n n r); auto.
  - intros j Hj. apply Hs, Hr, nth_In. exact Hj.
  - intros i j Hi Hj. assert (Hx : (nth j idx 0 < r)%nat) by (apply Hr, nth_In; exact Hj). set (x := nth j idx 0%nat) in *.
    unfold mmul. rewrite (sum_ext n _ (fun c => sum r (fun l => (U i l * s l) * (conj (V c l) * V c x)))).
    + rewrite sum_swap. rewrite (sum_ext r _ (fun l => (U i l * s l) * delta l x)).
      * rewrite sum_delta_r by exact Hx. reflexivity.
      * intros l Hl. rewrite sum_mul_l. f_equal. change (sum n (fun c => conj (V c l) * V c x)) with (mmul n (cj V) V l x). apply HV; lia.
    + intros c Hc. rewrite (HA i c Hi Hc). rewrite <- sum_mul_r. apply sum_ext; intros; unfold x; ring. Qed.
Theorem svd_take_all (nonneg : R -> Prop) m n r A U s V idx : SvdSpec nonneg m n r A U s V -> Permutation idx (seq 0 r) ->
  let o := svd_take idx U s V in sk o = r /\ SvdValid nonneg m n A o.
Proof. intros HS Hp. assert (HL : length idx = r) by (rewrite (Permutation_length Hp); apply seq_length).
  assert (Hnd : NoDup idx) by (apply (Permutation_NoDup (Permutation_sym Hp)), seq_NoDup).
  assert (Hr : forall x, In x idx -> (x < r)%nat) by (intros x Hx; apply (Permutation_in _ Hp) in Hx; apply in_seq in Hx; lia).
  destruct (svd_take_partial nonneg m n r A U s V idx HS Hnd Hr) as (H1 & H2 & H3 & _). cbn zeta in *.
  split; [exact HL|]. unfold SvdValid. repeat split; auto.
  destruct HS as (_ & _ & _ & _ & _ & HA). intros i j Hi Hj. rewrite (HA i j Hi Hj). cbn [svd_take sk sU sS sV].
  exact (sum_perm idx r (fun l => U i l * s l * conj (V j l)) Hp). Qed.
(* the repaired Diagonal rule starts from a valid decomposition of diag(d): d = ph * ab with |ph| = 1 and ab >= 0 *)
Lemma svd_diag_signed_spec (nonneg : R -> Prop) n d ab ph :
  (forall i, (i < n)%nat -> d i = ph i * ab i /\ conj (ph i) * ph i = r1 /\ nonneg (ab i)) ->
  SvdSpec nonneg n n n (dg d) (dg ph) ab eye.
Proof. intros H. unfold SvdSpec. repeat split; try lia.
  - intros a b Ha Hb. unfold mmul. rewrite (sum_ext n _ (fun l => (conj (ph a) * delta a l) * dg ph l b)).
    + rewrite (sum_ext n _ (fun l => delta a l * (conj (ph a) * dg ph l b))) by (intros; ring). rewrite (sum_delta_l n a (fun l => conj (ph a) * dg ph l b) Ha).
      unfold dg, eye, delta. destruct (Nat.eqb_spec a b) as [->|Hne]; [destruct (H b Hb) as (_ & Hu & _); transitivity (conj (ph b) * ph b); [ring|exact Hu]|ring].
    + intros l Hl. unfold cj. unfold dg at 1. rewrite conj_mul, conj_delta. unfold delta at 1 2.
      destruct (Nat.eqb_spec l a) as [->|Hne]; [rewrite Nat.eqb_refl; ring|destruct (Nat.eqb_spec a l); [congruence|ring]].
  - apply orthocols_eye.
  - intros l Hl. apply H. exact Hl.
  - intros i j Hi Hj. rewrite (sum_ext n _ (fun l => delta i l * (ph i * ab l * delta j l))).
    + rewrite (sum_delta_l n i (fun l => ph i * ab l * delta j l) Hi). destruct (H i Hi) as (Hd & _). unfold dg. rewrite Hd, (delta_sym j i). ring.
    + intros l Hl. unfold dg, eye. rewrite conj_delta. unfold delta. destruct (Nat.eqb_spec i l); [subst; ring|ring]. Qed.

(* ---------- pinv: the four Penrose equations ---------- *)
Definition Penrose (m n : nat) (A X : fm) : Prop :=
  feq m n (mmul m (mmul n A X) A) A /\ feq n m (mmul n (mmul m X A) X) X /\
  feq m m (cj (mmul n A X)) (mmul n A X) /\ feq n n (cj (mmul m X A)) (mmul m X A).
Lemma penrose_of_inv2 n A X : inv2 n A X -> Penrose n n A X.
Proof. intros [HXA HAX]. repeat split.
  - eapply feq_trans; [apply mmul_ext; [exact HAX|apply feq_refl]|apply feq_eye_l].
  - eapply feq_trans; [apply mmul_ext; [exact HXA|apply feq_refl]|apply feq_eye_l].
  - intros i j Hi Hj. unfold cj. rewrite (HAX j i Hj Hi), (HAX i j Hi Hj). unfold eye. rewrite conj_delta. apply delta_sym.
  - intros i j Hi Hj. unfold cj. rewrite (HXA j i Hj Hi), (HXA i j Hi Hj). unfold eye. rewrite conj_delta. apply delta_sym. Qed.
Lemma inv2_dg n d : (forall i, (i < n)%nat -> d i <> r0) -> inv2 n (dg d) (dg (pinv_diag d)).
Proof. intros H. split; intros i j Hi Hj; rewrite mmul_dg_l by auto; unfold dg, pinv_diag, eye, delta; destruct (Nat.eqb_spec i j); try ring; subst; field; auto. Qed.
Theorem pinv_diag_penrose n d : (forall i, (i < n)%nat -> d i <> r0) -> Penrose n n (dg d) (dg (pinv_diag d)).
Proof. intros H. apply penrose_of_inv2, inv2_dg, H. Qed.
Theorem pinv_scal_penrose n c : c <> r0 -> Penrose n n (fun i j => c * delta i j) (fun i j => pinv_scal c * delta i j).
Proof. intros H. exact (pinv_diag_penrose n (fun _ => c) (fun _ _ => H)). Qed.
Theorem pinv_ident_penrose n : Penrose n n eye eye.
Proof. apply penrose_of_inv2, inv2_eye. Qed.
(* Permutation: q = argsort(perm) is the inverse permutation (numpy's argsort on distinct keys: an oracle with this specification) *)
Theorem pinv_perm_penrose n (p q : nat -> nat) :
  (forall i, (i < n)%nat -> (p i < n)%nat /\ (q i < n)%nat /\ p (q i) = i /\ q (p i) = i) ->
  Penrose n n (fun i j => delta (p i) j) (pinv_perm q).
Proof. intros H. apply penrose_of_inv2. unfold pinv_perm. split; intros i j Hi Hj; unfold mmul; destruct (H i Hi) as (Hp & Hq & E1 & E2).
  - rewrite (sum_delta_l n (q i) (fun l => delta (p l) j) Hq). rewrite E1. reflexivity.
  - rewrite (sum_delta_l n (p i) (fun l => delta (q l) j) Hp). rewrite E2. reflexivity. Qed.

(* ---------- pinv through lstsq: least squares and minimum norm, as exact identities ---------- *)
Definition ip (k : nat) (u v : nat -> R) : R := sum k (fun i => conj (u i) * v i).
Definition mv (k : nat) (A : fm) (x : nat -> R) : nat -> R := fun i => sum k (fun j => A i j * x j).
Definition vsub (u v : nat -> R) : nat -> R := fun i => u i - v i.
Definition vadd (u v : nat -> R) : nat -> R := fun i => u i + v i.
Lemma ip_adjoint m n A u w : ip m (mv n A u) w = ip n u (mv m (cj A) w).
Proof. unfold ip, mv. erewrite sum_ext by (intros i Hi; rewrite conj_sum', <- sum_mul_r; reflexivity). rewrite sum_swap.
  apply sum_ext; intros j Hj. rewrite <- sum_mul_l. apply sum_ext; intros i Hi. unfold cj. rewrite conj_mul. ring. Qed.
Lemma ip_add_l k u v w : ip k (vadd u v) w = ip k u w + ip k v w.
Proof. unfold ip, vadd. rewrite <- sum_add. apply sum_ext; intros. rewrite conj_add. ring. Qed.
Lemma ip_add_r k u v w : ip k u (vadd v w) = ip k u v + ip k u w.
Proof. unfold ip, vadd. rewrite <- sum_add. apply sum_ext; intros. ring. Qed.
Lemma ip_ext k u u' v v' : (forall i, (i < k)%nat -> u i = u' i) -> (forall i, (i < k)%nat -> v i = v' i) -> ip k u v = ip k u' v'.
Proof. intros H1 H2. unfold ip. apply sum_ext; intros. rewrite H1, H2; auto. Qed.
Lemma ip_zero_r k u v : (forall i, (i < k)%nat -> v i = r0) -> ip k u v = r0.
Proof. intros H. unfold ip. rewrite (sum_ext k _ (fun _ => r0)); [apply sum_zero|]. intros. rewrite H by auto. ring. Qed.
Lemma conj_sub' a b : conj (a - b) = conj a - conj b.
Proof. assert (H : a - b = a + (- r1) * b) by ring. rewrite H, conj_add, conj_mul.
  assert (Hm : conj (- r1) = - r1). { assert (E : conj (- r1) + conj r1 = r0) by (rewrite <- conj_add; replace (- r1 + r1) with r0 by ring; apply conj_0). rewrite conj_1 in E. transitivity (conj (- r1) + r1 - r1); [ring|rewrite E; ring]. }
  rewrite Hm. ring. Qed.
Lemma ip_zero_l k u v : (forall i, (i < k)%nat -> u i = r0) -> ip k u v = r0.
Proof. intros H. unfold ip. rewrite (sum_ext k _ (fun _ => r0)); [apply sum_zero|]. intros. rewrite H by auto. rewrite conj_0. ring. Qed.
Lemma mv_sub k A u v i : mv k A (vsub u v) i = mv k A u i - mv k A v i.
Proof. unfold mv, vsub. rewrite <- sum_sub. apply sum_ext; intros; ring. Qed.
(* lstsq oracle specification for one right-hand side: normal equations, and x in the range of A^H *)
Definition LstsqSpec (m n : nat) (A : fm) (b x : nat -> R) : Prop :=
  (forall j, (j < n)%nat -> mv m (cj A) (vsub (mv n A x) b) j = r0) /\ exists y, forall j, (j < n)%nat -> x j = mv m (cj A) y j.
(* least squares: for every z the squared residual splits as  |Az - b|^2 = |Ax - b|^2 + |A(z - x)|^2 *)
Theorem pinv_ls_optimal m n A b x z : LstsqSpec m n A b x ->
  ip m (vsub (mv n A z) b) (vsub (mv n A z) b) =
  ip m (vsub (mv n A x) b) (vsub (mv n A x) b) + ip m (mv n A (vsub z x)) (mv n A (vsub z x)).
Proof. intros [HN _]. set (rx := vsub (mv n A x) b). set (dz := mv n A (vsub z x)).
  assert (E : forall i, (i < m)%nat -> vsub (mv n A z) b i = vadd rx dz i).
  { intros i Hi. unfold vadd, rx, dz, vsub at 1 2. rewrite mv_sub. ring. }
  rewrite (ip_ext m _ (vadd rx dz) _ (vadd rx dz) E E). rewrite ip_add_l, !ip_add_r.
  assert (C1 : ip m dz rx = r0). { unfold dz. rewrite ip_adjoint. apply ip_zero_r. exact HN. }
  assert (C2 : ip m rx dz = r0).
  { unfold ip. rewrite (sum_ext m _ (fun i => conj (conj (dz i) * rx i))) by (intros; rewrite conj_mul, conj_invol; ring).
    rewrite <- conj_sum'. change (sum m (fun i => conj (dz i) * rx i)) with (ip m dz rx). rewrite C1. apply conj_0. }
  rewrite C1, C2. ring. Qed.
(* minimum norm: every z with the same fitted values (over C: every least-squares solution) satisfies |z|^2 = |x|^2 + |z - x|^2 *)
Theorem pinv_min_norm m n A b x z : LstsqSpec m n A b x -> (forall i, (i < m)%nat -> mv n A z i = mv n A x i) ->
  ip n z z = ip n x x + ip n (vsub z x) (vsub z x).
Proof. intros [_ [y Hy]] Hz. set (d := vsub z x).
  assert (E : forall j, (j < n)%nat -> z j = vadd x d j) by (intros j Hj; unfold vadd, d, vsub; ring).
  rewrite (ip_ext n z (vadd x d) z (vadd x d) E E). rewrite ip_add_l, !ip_add_r.
  assert (Ad : forall i, (i < m)%nat -> mv n A d i = r0) by (intros i Hi; unfold d; rewrite mv_sub, Hz by auto; ring).
  assert (C1 : ip n x d = r0).
  { rewrite (ip_ext n x (mv m (cj A) y) d d Hy (fun _ _ => eq_refl)). rewrite (ip_adjoint n m (cj A) y d).
    apply ip_zero_r. intros i Hi. rewrite <- (Ad i Hi). unfold mv. apply sum_ext; intros j Hj. rewrite cj_cj. reflexivity. }
  assert (C2 : ip n d x = r0).
  { unfold ip. rewrite (sum_ext n _ (fun i => conj (conj (x i) * d i))) by (intros; rewrite conj_mul, conj_invol; ring).
    rewrite <- conj_sum'. change (sum n (fun i => conj (x i) * d i)) with (ip n x d). rewrite C1. apply conj_0. }
  rewrite C1, C2. ring. Qed.
(* CG rule: with Minv a solve operator for M = A^H A, x0 = Minv A^H b meets the normal equations and the rule returns x0 + eps A^H b *)
Theorem pinv_cg_form m n A Minv eps : feq n m (pinv_cg m n A Minv eps) (fun i j => mmul n Minv (cj A) i j + eps * cj A i j).
Proof. intros i j Hi Hj. unfold pinv_cg, mmul.
  rewrite (sum_ext n _ (fun l => Minv i l * cj A l j + delta i l * (eps * cj A l j))) by (intros; ring).
  rewrite sum_add. f_equal. apply (sum_delta_l n i (fun l => eps * cj A l j) Hi). Qed.
Theorem pinv_cg_normal_eq m n A Minv : feq n n (mmul n (mmul m (cj A) A) Minv) eye ->
  feq n m (mmul n (mmul m (cj A) A) (mmul n Minv (cj A))) (cj A).
Proof. intros H. eapply feq_trans; [apply feq_sym, feq_mmul_assoc|]. eapply feq_trans; [apply mmul_ext; [exact H|apply feq_refl]|apply feq_eye_l]. Qed.
End Proofs.
