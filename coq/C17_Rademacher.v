(* C17 - the Rademacher instance of the unbiasedness theorem, by finite enumeration:
   the plain sum over ALL 2^N sign patterns of the probe entries is a linear functional whose second moments are
   2^N * delta, hence (hutch_unbiased_upto) the sum over all patterns of the accumulated Hutchinson sums is
   2^N * (number of probes) * A[i+off, i+off+k]:  the Rademacher estimator with a fixed number of probe blocks is
   exactly unbiased, for every operator, offset and size - over any commutative ring, no division, no axiom. *)
From Coq Require Import List Arith Bool Lia ZArith Ring.
From Core Require Import Base C17_Hutch.
Import ListNotations.

Section Rad.
Context {R : Type} {RR : Ring R}.
Add Ring Rr3 : Rth.
Open Scope R_scope.

Definition upd (s : nat -> R) (m : nat) (v : R) : nat -> R := fun i => if Nat.eqb i m then v else s i.
(* sum of f over all assignments of +-1 to the entries 0..N-1 (entries >= N are 1) *)
Fixpoint sum_signs (N : nat) (f : (nat -> R) -> R) : R :=
  match N with
  | O => f (fun _ => r1)
  | S m => sum_signs m (fun s => f (upd s m r1)) + sum_signs m (fun s => f (upd s m (- r1)))
  end.
Fixpoint pow2 (N : nat) : R := match N with O => r1 | S m => pow2 m + pow2 m end.

Lemma ss_ext N : forall f g, (forall s, f s = g s) -> sum_signs N f = sum_signs N g.
Proof. induction N; intros f g H; cbn [sum_signs]; [apply H|]. rewrite (IHN _ (fun s => g (upd s N r1))), (IHN (fun s => f (upd s N (- r1))) (fun s => g (upd s N (- r1)))); auto. Qed.
Lemma ss_add N : forall f g, sum_signs N (fun s => f s + g s) = sum_signs N f + sum_signs N g.
Proof. induction N; intros f g; cbn [sum_signs]; [reflexivity|]. rewrite !IHN. ring. Qed.
Lemma ss_scale N : forall a f, sum_signs N (fun s => a * f s) = a * sum_signs N f.
Proof. induction N; intros a f; cbn [sum_signs]; [reflexivity|]. rewrite !IHN. ring. Qed.
Lemma ss_const N c : sum_signs N (fun _ => c) = pow2 N * c.
Proof. induction N; cbn [sum_signs pow2]; [ring|]. rewrite IHN. ring. Qed.

Lemma upd_same s m v : upd s m v m = v. Proof. unfold upd. rewrite Nat.eqb_refl. reflexivity. Qed.
Lemma upd_other s m v i : i <> m -> upd s m v i = s i.
Proof. intros H. unfold upd. destruct (Nat.eqb_spec i m); [contradiction|reflexivity]. Qed.

(* second moments of the uniform distribution on sign patterns, unnormalised *)
Lemma rademacher_moment N : forall a b, (a < N)%nat -> (b < N)%nat ->
  sum_signs N (fun s => s a * s b) = pow2 N * delta a b.
Proof. induction N as [|m IH]; intros a b Ha Hb; [lia|]. cbn [sum_signs pow2].
  destruct (Nat.eq_dec a m) as [->|Ham]; destruct (Nat.eq_dec b m) as [->|Hbm].
  - rewrite (ss_ext m _ (fun _ => r1)), (ss_ext m (fun s => upd s m (- r1) m * upd s m (- r1) m) (fun _ => r1)).
    + rewrite !ss_const. unfold delta. rewrite Nat.eqb_refl. ring.
    + intros s. rewrite !upd_same. ring.
    + intros s. rewrite !upd_same. ring.
  - rewrite (ss_ext m _ (fun s => r1 * s b)), (ss_ext m (fun s => upd s m (- r1) m * upd s m (- r1) b) (fun s => (- r1) * s b)).
    + rewrite !ss_scale. unfold delta. destruct (Nat.eqb_spec m b); [congruence|]. ring.
    + intros s. rewrite upd_same, upd_other by exact Hbm. reflexivity.
    + intros s. rewrite upd_same, upd_other by exact Hbm. reflexivity.
  - rewrite (ss_ext m _ (fun s => r1 * s a)), (ss_ext m (fun s => upd s m (- r1) a * upd s m (- r1) m) (fun s => (- r1) * s a)).
    + rewrite !ss_scale. unfold delta. destruct (Nat.eqb_spec a m); [congruence|]. ring.
    + intros s. rewrite upd_same, upd_other by exact Ham. ring.
    + intros s. rewrite upd_same, upd_other by exact Ham. ring.
  - rewrite (ss_ext m _ (fun s => s a * s b)), (ss_ext m (fun s => upd s m (- r1) a * upd s m (- r1) b) (fun s => s a * s b)).
    + rewrite IH by lia. ring.
    + intros s. rewrite !upd_other by assumption. reflexivity.
    + intros s. rewrite !upd_other by assumption. reflexivity. Qed.

(* ---- unbiasedness with the moment hypothesis only for the blocks that are used ---- *)
Variable n bs : nat.
Variable k : Z.
Variable A : nat -> nat -> R.
Variable E : (@P R -> R) -> R.
Variable c : R.
Variable T : nat.
Hypothesis E_ext : forall f g, (forall p, f p = g p) -> E f = E g.
Hypothesis E_add : forall f g, E (fun p => f p + g p) = E f + E g.
Hypothesis E_scale : forall a f, E (fun p => a * f p) = a * E f.
Hypothesis E_moment : forall t b j l, (t < T)%nat -> (j < n)%nat -> (l < n)%nat -> (b < bs)%nat -> E (fun p => p t j b * p t l b) = c * delta j l.

Lemma E_zero' : E (fun _ => r0) = r0.
Proof. rewrite (E_ext _ (fun p => r0 * r0)) by (intros; ring). rewrite (E_scale r0 (fun _ => r0)). ring. Qed.
Lemma E_sum' m (f : nat -> @P R -> R) : E (fun p => sum m (fun t => f t p)) = sum m (fun t => E (f t)).
Proof. induction m; cbn [sum]; [apply E_zero'|]. rewrite E_add, IHm. reflexivity. Qed.

Theorem hutch_unbiased_upto : forall m i, (m <= T)%nat -> (i < n - Z.abs_nat k)%nat ->
  E (fun p => dsum (blocks n bs k A p m) i) = nmul (m * bs)%nat (c * target k A i).
Proof. intros m i Hm Hi.
  rewrite (E_ext _ (fun p => sum m (fun t => sum bs (fun b => est n k A (p t) i b)))) by (intros; apply blocks_dsum).
  rewrite E_sum'.
  rewrite (sum_ext m _ (fun _ => nmul bs (c * target k A i))).
  - clear. induction m; cbn [sum]; [reflexivity|]. rewrite IHm. change (S m * bs)%nat with (bs + m * bs)%nat. rewrite nmul_add. ring.
  - intros t Ht. rewrite E_sum'. unfold nmul. apply sum_ext. intros b Hb.
    set (col := Z.to_nat (Z.of_nat (i + off k)%nat + k)%Z).
    rewrite (E_ext _ (fun p => sum n (fun j => A (i + off k)%nat j * (p t j b * p t col b)))).
    + rewrite E_sum'.
      rewrite (sum_ext n _ (fun j => (c * A (i + off k)%nat j) * delta j col)).
      * rewrite (sum_delta_r n col (fun j => c * A (i + off k)%nat j)) by (apply target_col_lt; exact Hi). reflexivity.
      * intros j Hj. rewrite E_scale, E_moment; [ring|lia|exact Hj|apply target_col_lt; exact Hi|exact Hb].
    + intros p. rewrite est_eq by exact Hi. fold col. rewrite <- sum_mul_r. apply sum_ext. intros; ring. Qed.
End Rad.

(* ---- the closed Rademacher theorem ---- *)
Section RadClosed.
Context {R : Type} {RR : Ring R}.
Add Ring Rr4 : Rth.
Open Scope R_scope.
Variable n bs : nat.
Variable k : Z.
Variable A : nat -> nat -> R.
Variable m : nat.                      (* number of probe blocks *)
Definition idx (t j b : nat) : nat := ((t * bs + b) * n + j)%nat.
Definition NN : nat := (m * bs * n)%nat.
(* the probe sequence encoded by a sign pattern *)
Definition probes_of (s : nat -> R) : @P R := fun t j b => s (idx t j b).
Definition E_rad (f : @P R -> R) : R := sum_signs NN (fun s => f (probes_of s)).

Lemma idx_lt t j b : (t < m)%nat -> (j < n)%nat -> (b < bs)%nat -> (idx t j b < NN)%nat.
Proof. unfold idx, NN. intros Ht Hj Hb.
  assert ((t * bs + b) < m * bs)%nat by nia. nia. Qed.

Theorem rademacher_unbiased : forall i, (i < n - Z.abs_nat k)%nat ->
  E_rad (fun p => dsum (blocks n bs k A p m) i) = nmul (m * bs)%nat (pow2 NN * target k A i).
Proof. intros i Hi. apply (hutch_unbiased_upto n bs k A E_rad (pow2 NN) m); auto.
  - intros f g H. unfold E_rad. apply ss_ext. intros s. apply H.
  - intros f g. unfold E_rad. apply (ss_add NN (fun s => f (probes_of s)) (fun s => g (probes_of s))).
  - intros a f. unfold E_rad. apply (ss_scale NN a (fun s => f (probes_of s))).
  - intros t b j l Ht Hj Hl Hb. unfold E_rad, probes_of.
    rewrite (rademacher_moment NN (idx t j b) (idx t l b)) by (apply idx_lt; assumption).
    f_equal. unfold delta, idx. destruct (Nat.eqb_spec j l) as [->|Hne].
    + rewrite Nat.eqb_refl. reflexivity.
    + destruct (Nat.eqb_spec ((t * bs + b) * n + j) ((t * bs + b) * n + l)); [lia|reflexivity]. Qed.
End RadClosed.
