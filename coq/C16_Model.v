(* C16: model of cola/linalg/svd/svd.py and cola/linalg/inverse/pinv.py.
   LAPACK svd / lstsq, the Lanczos eigen-routine on A^H A or A A^H, sqrt and the CG solve are oracles whose outputs enter
   as data; the rules are index manipulations and small products on top of them. *)
From Coq Require Import ZArith Arith Lia List PeanoNat Bool.
From Core Require Import Base FieldBase PySlice C09_MatAlg C10_Model.
Import ListNotations.

Section Model.
Context {R : Type} {RR : Ring R} {CR : CRing R} {FF : Field R}.
Open Scope R_scope.
Notation fm := (fm (R:=R)).

(* U (m x k), Sigma = diag s (k), V (n x k) *)
Record svdout := mksvd { sk : nat; sU : fm; sS : nat -> R; sV : fm }.

(* Auto rule (svd.py:37-47) and pinv's (pinv.py:51-61) *)
Inductive salg := SDense | SLanczos | SLobpcg.
Definition auto_svd (small : bool) : salg := if small then SDense else SLanczos.
Inductive palg := PLstsq | PCg.
Definition auto_pinv (small : bool) : palg := if small then PLstsq else PCg.

(* DenseSVD: U, Sigma, V = xnp.svd(A.to_dense(), full_matrices=True); idx = argsort(Sigma);
   return U[:, idx], Diagonal(Sigma[idx]), V[:, idx]     (k and which are ignored) *)
Definition svd_dense (leb : R -> R -> bool) (r : nat) (U : fm) (s : nat -> R) (V : fm) : svdout :=
  let idx := argsort leb r s in
  mksvd (length idx) (fun i j => U i (nth j idx 0%nat)) (fun j => s (nth j idx 0%nat)) (fun i j => V i (nth j idx 0%nat)).

(* fancy indexing of a decomposition by a list of positions: U[:, idx], Sigma[idx], V[:, idx] *)
Definition svd_take (idx : list nat) (U : fm) (s : nat -> R) (V : fm) : svdout :=
  mksvd (length idx) (fun i j => U i (nth j idx 0%nat)) (fun j => s (nth j idx 0%nat)) (fun i j => V i (nth j idx 0%nat)).
Definition pick (sl idx : list nat) : list nat := map (fun j => nth j idx 0%nat) sl.
(* repaired DenseSVD: idx = argsort(Sigma)[get_slice(k, which)] *)
Definition svd_dense_k (leb : R -> R -> bool) (r : nat) (U : fm) (s : nat -> R) (V : fm) (k : Z) (wh : which) : option svdout :=
  match sel k wh r with None => None | Some sl => Some (svd_take (pick sl (argsort leb r s)) U s V) end.
(* repaired Diagonal rule: Sigma = |d|, the signs / phases go into U = diag(d / |d|); [ab], [ph] are the backend's abs and
   quotient (oracles), idx the positions kept (all of them, or argsort(|d|)[get_slice(k, which)]) *)
Definition svd_diag_signed (idx : list nat) (ab ph : nat -> R) : svdout := svd_take idx (dg ph) ab eye.
(* repaired Identity rule *)
Definition svd_ident_k (n : nat) (k : Z) (wh : which) : option svdout :=
  match sel k wh n with None => None | Some sl => Some (svd_take sl eye (fun _ => r1) eye) end.

(* Lanczos rule, n <= m: eigenpairs (lam, W) of A^H A from lanczos_eigs (ascending), sliced by get_slice(k, which);
   V = W[:, slice], Sigma = sqrt(lam[slice]), U = A V inv(Sigma) *)
Definition svd_lanczos_tall (m n q : nat) (A : fm) (lam : nat -> R) (W : fm) (sqrt_ : R -> R) (k : Z) (wh : which) : option svdout :=
  match sel k wh q with
  | None => None
  | Some idx =>
      let V := fun i j => W i (nth j idx 0%nat) in
      let s := fun j => sqrt_ (lam (nth j idx 0%nat)) in
      Some (mksvd (length idx) (fun i j => mmul n A V i j / s j) s V)
  end.
(* m < n: eigenpairs of A A^H give U; V = (inv(Sigma) U^H A)^H *)
Definition svd_lanczos_wide (m n q : nat) (A : fm) (lam : nat -> R) (W : fm) (sqrt_ : R -> R) (k : Z) (wh : which) : option svdout :=
  match sel k wh q with
  | None => None
  | Some idx =>
      let U := fun i j => W i (nth j idx 0%nat) in
      let s := fun j => sqrt_ (lam (nth j idx 0%nat)) in
      Some (mksvd (length idx) U s (fun i j => conj (mmul m (cj U) A j i / s j)))
  end.
(* structural rules: svd(Identity) = (I, ones, I); svd(Diagonal) = (I, A, I) *)
Definition svd_ident (n : nat) : svdout := mksvd n eye (fun _ => r1) eye.
Definition svd_diag (n : nat) (d : nat -> R) : svdout := mksvd n eye d eye.

(* ---- pinv ---- *)
(* structural rules return the entry-wise / scalar reciprocal, the inverse permutation (argsort), the identity *)
Definition pinv_diag (d : nat -> R) : nat -> R := fun i => r1 / d i.
Definition pinv_scal (c : R) : R := r1 / c.
Definition pinv_perm (q : nat -> nat) : fm := fun i j => delta (q i) j.      (* q = argsort(perm) *)
(* LSTSQ: pinv(A) @ B = lstsq(A, B) column by column (the oracle's answer X) *)
Definition pinv_lstsq (X : fm) : fm := X.
(* CG: PSD(Op + cons * I) @ A.H, with Op the (oracle) solve operator of M = A^H A and cons = precision * max(shape) *)
Definition pinv_cg (m n : nat) (A Minv : fm) (eps : R) : fm :=
  mmul n (fun i j => Minv i j + eps * delta i j) (cj A).
End Model.
