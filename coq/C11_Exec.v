(* C11 - execution of the cholesky / plu model at the Gaussian rationals and in-Coq comparison with the implementation
   (result classes exactly; factor matrices: exact model value versus the implementation's floats, Tier Q). *)
From Coq Require Import ZArith QArith Qcanon List Bool Arith.
From Core Require Import Base Kron Op Algebra FieldBase C06_Exec C11_Decomp.
Import ListNotations.
Definition sqrt_tab (tab : list (qi * qi)) (x : qi) : qi :=
  match find (fun ent => qi_eqb (fst ent) x) tab with Some (_, y) => y | None => qi0 end.
Fixpoint dty_eqb (a b : dty) {struct a} : bool :=
  let leq := fix leq (l1 l2 : list dty) {struct l1} : bool :=
    match l1, l2 with [], [] => true | x :: l1', y :: l2' => dty_eqb x y && leq l1' l2' | _, _ => false end in
  let peq := fix peq (l1 l2 : list (dty * nat)) {struct l1} : bool :=
    match l1, l2 with [], [] => true | (x, m) :: l1', (y, k) :: l2' => dty_eqb x y && Nat.eqb m k && peq l1' l2' | _, _ => false end in
  match a, b with
  | DtOp j, DtOp k => Nat.eqb j k
  | DtScalId, DtScalId => true
  | DtTri x, DtTri y => Bool.eqb x y
  | DtKron l1, DtKron l2 => leq l1 l2
  | DtBDiag l1, DtBDiag l2 => peq l1 l2
  | _, _ => false
  end.
Record dcase := {
  de : qop; dn : nat;
  dlu : list (QM * (list nat * QM * QM)); dchol : list (QM * QM); dsqrt : list (qi * qi);
  dnumc : bool; dnump : bool;      (* compare values of the Cholesky / of the PLU factors (false: an oracle value has no exact rational form) *)
  dflag : bool;                    (* probed value of the flag plu_diagonal_negative_nan *)
  dpd : bool;                      (* positive definite: cholesky was called *)
  dtyC : dty; dtyP : dty; dtyL : dty; dtyU : dty;      (* classes of the implementation's results *)
  dC : QM; dP : QM; dL : QM; dU : QM;                  (* their dense forms (floats as exact rationals) *)
  dtol2 : Qc; dabs2 : Qc }.
Definition todense (n : nat) (o : qop) : arr (R:=qi) := matmat o (mkarr n n eye).
Definition okshape (n : nat) (o : qop) : bool := wf o && Nat.eqb (fst (shape o)) n && Nat.eqb (snd (shape o)) n.
Definition dcheck (c : dcase) : bool :=
  let n := dn c in let e := de c in
  let sq := sqrt_tab (dsqrt c) in
  okshape n e &&
  (if dpd c then
     let r := chol (chol_tab (dchol c)) sq e in
     dty_eqb (dtype r) (dtyC c) && dty_eqb (dtype r) (mirror (DtTri true) e) && okshape n (dto_op r)
     && (if dnumc c then close_mn (dtol2 c) (dabs2 c) (todense n (dto_op r)) n n (dC c) else true)
   else true) &&
  (let '(P, L, U) := plu (lu_tab (dlu c)) sq (dflag c) e in
   dty_eqb (dtype P) (dtyP c) && dty_eqb (dtype L) (dtyL c) && dty_eqb (dtype U) (dtyU c)
   && dty_eqb (dtype P) (mirrorP e) && dty_eqb (dtype L) (mirrorL (dflag c) e) && dty_eqb (dtype U) (mirrorU (dflag c) e)
   && okshape n (dto_op P) && okshape n (dto_op L) && okshape n (dto_op U)
   && (if dnump c then
         close_mn (dtol2 c) (dabs2 c) (todense n (dto_op P)) n n (dP c) && close_mn (dtol2 c) (dabs2 c) (todense n (dto_op L)) n n (dL c)
         && close_mn (dtol2 c) (dabs2 c) (todense n (dto_op U)) n n (dU c)
       else true)).
