(* C15 - the hypotheses of the Arnoldi theorems are satisfiable: the Euclidean plane (standard library reals). *)
From Coq Require Import Reals Lra Lia List Bool RealField.
From Core Require Import C14_Model C14_Inst C15_Model C15_Proofs.
Open Scope R_scope.

Lemma ilaws_R2 : ilaws ropsR2 nonnegR.
Proof. unfold nonnegR.
  constructor; cbn [ropsR2 c0 c1 cadd cmul csub copp cdiv cinv cconj cgtb vzero vadd vsub vscale vdiv vdot vnrm chyp];
    unfold d2; intros; cbn [fst snd]; try reflexivity; try (unfold Rdiv; ring).
  - exact Rfield.
  - apply sqrt_sqrt. nra.
  - match goal with H : sqrt _ = 0 |- _ => apply sqrt_eq_0 in H; [|nra] end.
    assert (fst v = 0 /\ snd v = 0) as [E1 E2] by (split; nra). rewrite E1, E2. ring.
  - apply sqrt_pos.
Qed.
