(* C16, further theorems: the wide Lanczos rule (m < n) by duality, and the Moore-Penrose equations for the
   normal-equations form (A^H A)^-1 A^H that the CG rule computes up to its eps term (full column rank). *)
From Coq Require Import ZArith Arith Lia List Ring Field ArithRing PeanoNat Bool.
From Core Require Import Base FieldBase PySlice C09_MatAlg C10_Model C10_Proofs C16_Model C16_Proofs.
Import ListNotations.

Section Extra.
Context {R : Type} {RR : Ring R} {CR : CRing R} {FF : Field R}.
Add Ring Rr : Rth.
Add Field Rf : Fth.
Open Scope R_scope.
Notation fm := (fm (R:=R)).

Lemma conj_inv_real (s : R) : conj s = s -> s <> r0 -> conj (r1 / s) = r1 / s.
Proof. intros Cs Ns. assert (H1 : conj (r1 / s) * s = r1).
  { rewrite <- Cs at 2. rewrite <- conj_mul. replace (r1 / s * s) with r1 by (field; exact Ns). apply conj_1. }
  transitivity (conj (r1 / s) * s * (r1 / s)); [field; exact Ns|rewrite H1; ring]. Qed.
Lemma conj_div_real (x s : R) : conj s = s -> s <> r0 -> conj (x / s) = conj x / s.
Proof. intros Cs Ns. assert (Hq : x / s = x * (r1 / s)) by (field; exact Ns). rewrite Hq, conj_mul, (conj_inv_real s Cs Ns). field. exact Ns. Qed.

(* wide rule: V = (Sigma^-1 U^H A)^H is the tall construction applied to A^H *)
Lemma svd_lanczos_wide_V m n (A W : fm) idx (s : nat -> R) :
  (forall j, (j < length idx)%nat -> conj (s j) = s j /\ s j <> r0) ->
  feq n (length idx) (fun i j => conj (mmul m (cj (lanV W idx)) A j i / s j)) (lanU m (cj A) W idx s).
Proof. intros Hs i j Hi Hj. destruct (Hs j Hj) as [Cs Ns]. rewrite conj_div_real by auto. unfold lanU. f_equal.
  unfold mmul. rewrite conj_sum'. apply sum_ext; intros l Hl. unfold cj. rewrite conj_mul, conj_invol. ring. Qed.
(* hence, from orthonormal eigenpairs of A A^H: U = W[:, idx] and V have orthonormal columns and V Sigma = A^H U *)
Theorem lanczos_svd_wide_partial m n q (A W : fm) lam idx s :
  LanczosSpec n m q (cj A) W lam idx s ->
  let k := length idx in let U := lanV W idx in let V := lanU m (cj A) W idx s in
  orthocols m k U /\ orthocols n k V /\ feq n k (fun i j => V i j * s j) (mmul m (cj A) U).
Proof. intros H. destruct (lanczos_svd_partial n m q (cj A) W lam idx s H) as (H1 & H2 & H3 & _). cbn zeta. auto. Qed.

(* ---------- normal-equations pseudo-inverse ---------- *)
Lemma inv2_unique n (M X Y : fm) : inv2 n M X -> inv2 n M Y -> feq n n X Y.
Proof. intros [HX1 HX2] [HY1 HY2].
  apply feq_trans with (mmul n X eye); [apply feq_sym, feq_eye_r|].
  apply feq_trans with (mmul n X (mmul n M Y)); [apply mmul_ext; [apply feq_refl|apply feq_sym; exact HY2]|].
  apply feq_trans with (mmul n (mmul n X M) Y); [apply feq_sym, feq_mmul_assoc|].
  apply feq_trans with (mmul n eye Y); [apply mmul_ext; [exact HX1|apply feq_refl]|apply feq_eye_l]. Qed.
Lemma gram_hermitian m n (A : fm) : feq n n (cj (mmul m (cj A) A)) (mmul m (cj A) A).
Proof. intros i j Hi Hj. rewrite cj_mmul. unfold mmul. apply sum_ext; intros l Hl. rewrite cj_cj. reflexivity. Qed.
Lemma inv_of_hermitian n (M X : fm) : feq n n (cj M) M -> inv2 n M X -> feq n n (cj X) X.
Proof. intros HM HI. apply (inv2_unique n M); [|exact HI].
  destruct (inv2_cj n M X HI) as [H1 H2]. split.
  - eapply feq_trans; [apply mmul_ext; [apply feq_refl|apply feq_sym; exact HM]|exact H1].
  - eapply feq_trans; [apply mmul_ext; [apply feq_sym; exact HM|apply feq_refl]|exact H2]. Qed.
(* full column rank: with Minv the inverse of A^H A, X = Minv A^H satisfies the four Penrose equations *)
Theorem pinv_normal_equations_penrose m n (A Minv : fm) : inv2 n (mmul m (cj A) A) Minv -> Penrose m n A (mmul n Minv (cj A)).
Proof. intros HI. pose proof (inv_of_hermitian n _ Minv (gram_hermitian m n A) HI) as HH. destruct HI as [H1 H2].
  set (G := mmul m (cj A) A) in *. set (X := mmul n Minv (cj A)).
  assert (XA : feq n n (mmul m X A) eye).
  { unfold X. eapply feq_trans; [apply feq_mmul_assoc|]. exact H1. }
  repeat split.
  - eapply feq_trans; [apply feq_mmul_assoc|]. eapply feq_trans; [apply mmul_ext; [apply feq_refl|exact XA]|apply feq_eye_r].
  - eapply feq_trans; [apply mmul_ext; [exact XA|apply feq_refl]|apply feq_eye_l].
  - (* (A X)^H = X^H A^H = A Minv^H A^H = A Minv A^H *)
    intros i j Hi Hj. rewrite cj_mmul. unfold X.
    assert (E : forall a b, (a < m)%nat -> (b < n)%nat -> cj (mmul n Minv (cj A)) a b = mmul n A Minv a b).
    { intros a b Ha Hb. rewrite cj_mmul. unfold mmul. apply sum_ext; intros l Hl. rewrite cj_cj. rewrite (HH l b Hl Hb). reflexivity. }
    unfold mmul at 1. rewrite (sum_ext n _ (fun l => mmul n A Minv i l * cj A l j)) by (intros l Hl; rewrite E by auto; reflexivity).
    change (sum n (fun l => mmul n A Minv i l * cj A l j)) with (mmul n (mmul n A Minv) (cj A) i j). apply mmul_assoc.
  - intros i j Hi Hj. unfold cj. rewrite (XA j i Hj Hi), (XA i j Hi Hj). unfold eye. rewrite conj_delta. apply delta_sym. Qed.
(* the repaired CG rule has no jitter term (eps = 0): it IS Minv A^H, hence the Moore-Penrose inverse for full column rank *)
Lemma pinv_cg_no_jitter m n (A Minv : fm) : feq n m (pinv_cg m n A Minv r0) (mmul n Minv (cj A)).
Proof. eapply feq_trans; [apply pinv_cg_form|]. intros i j Hi Hj. ring. Qed.
Lemma penrose_ext m n (A X X' : fm) : feq n m X X' -> Penrose m n A X -> Penrose m n A X'.
Proof. intros HX (P1 & P2 & P3 & P4). assert (HS := feq_sym _ _ _ _ HX).
  assert (AX : feq m m (mmul n A X') (mmul n A X)) by (apply mmul_ext; [apply feq_refl|exact HS]).
  assert (XA : feq n n (mmul m X' A) (mmul m X A)) by (apply mmul_ext; [exact HS|apply feq_refl]).
  repeat split.
  - eapply feq_trans; [apply mmul_ext; [exact AX|apply feq_refl]|exact P1].
  - eapply feq_trans; [apply mmul_ext; [exact XA|exact HS]|]. eapply feq_trans; [exact P2|exact HX].
  - eapply feq_trans; [apply feq_cj; exact AX|]. eapply feq_trans; [exact P3|apply feq_sym; exact AX].
  - eapply feq_trans; [apply feq_cj; exact XA|]. eapply feq_trans; [exact P4|apply feq_sym; exact XA]. Qed.
Theorem pinv_cg_repaired_penrose m n (A Minv : fm) : inv2 n (mmul m (cj A) A) Minv -> Penrose m n A (pinv_cg m n A Minv r0).
Proof. intros H. apply (penrose_ext m n A (mmul n Minv (cj A))); [apply feq_sym, pinv_cg_no_jitter|apply pinv_normal_equations_penrose; exact H]. Qed.
End Extra.
