(* C09: the structural rules on products of spaces: block-diagonal (apply_unary(BlockDiag)), Kronecker (pow(Kronecker)),
   Kronecker sum (exp(KronSum) = Kronecker of the exps). Matrix-level statements, binary and n-ary. *)
From Coq Require Import Arith Lia List Ring ArithRing PeanoNat Bool.
From Core Require Import Base Kron Op KronAlg AlgebraKron C09_MatAlg C09_IsFun.
Import ListNotations.

Section Struct.
Context {R : Type} {RR : Ring R} {CR : CRing R}.
Add Ring Rr : Rth.
Open Scope R_scope.
Notation fm := (fm (R:=R)). Notation fac := (fac (R:=R)).

(* ================= block diagonal ================= *)
Definition B2 (n1 : nat) (A X : fm) : fm :=
  fun i j => if (i <? n1)%nat then (if (j <? n1)%nat then A i j else r0)
             else (if (j <? n1)%nat then r0 else X (i - n1)%nat (j - n1)%nat).
Lemma B2_mul n1 n2 (A C X Z : fm) : feq (n1 + n2) (n1 + n2) (mmul (n1 + n2) (B2 n1 A X) (B2 n1 C Z)) (B2 n1 (mmul n1 A C) (mmul n2 X Z)).
Proof. intros i j Hi Hj. unfold mmul at 1. rewrite sum_app. unfold B2.
  destruct (Nat.ltb_spec i n1), (Nat.ltb_spec j n1).
  - rewrite (sum_ext n2 _ (fun _ => r0)), sum_zero.
    + rewrite (sum_ext n1 _ (fun l => A i l * C l j)); [unfold mmul; ring|]. intros l Hl. destruct (Nat.ltb_spec l n1); [reflexivity|lia].
    + intros l Hl. destruct (Nat.ltb_spec (n1 + l) n1); [lia|ring].
  - rewrite (sum_ext n2 _ (fun _ => r0)), sum_zero.
    + rewrite (sum_ext n1 _ (fun _ => r0)), sum_zero; [ring|]. intros l Hl. destruct (Nat.ltb_spec l n1); [ring|lia].
    + intros l Hl. destruct (Nat.ltb_spec (n1 + l) n1); [lia|ring].
  - rewrite (sum_ext n1 _ (fun _ => r0)), sum_zero.
    + rewrite (sum_ext n2 _ (fun _ => r0)), sum_zero; [ring|]. intros l Hl. destruct (Nat.ltb_spec (n1 + l) n1); [lia|ring].
    + intros l Hl. destruct (Nat.ltb_spec l n1); [ring|lia].
  - rewrite (sum_ext n1 _ (fun _ => r0)), sum_zero.
    + rewrite (sum_ext n2 _ (fun l => X (i - n1)%nat l * Z l (j - n1)%nat)); [unfold mmul; ring|].
      intros l Hl. destruct (Nat.ltb_spec (n1 + l) n1); [lia|]. replace (n1 + l - n1)%nat with l by lia. reflexivity.
    + intros l Hl. destruct (Nat.ltb_spec l n1); [ring|lia]. Qed.
Lemma B2_ext n1 n2 (A A' X X' : fm) : feq n1 n1 A A' -> feq n2 n2 X X' -> feq (n1 + n2) (n1 + n2) (B2 n1 A X) (B2 n1 A' X').
Proof. intros HA HX i j Hi Hj. unfold B2. destruct (Nat.ltb_spec i n1), (Nat.ltb_spec j n1); auto. apply HX; lia. Qed.
Lemma B2_eye n1 n2 : feq (n1 + n2) (n1 + n2) (B2 n1 eye eye) eye.
Proof. intros i j Hi Hj. unfold B2, eye, delta. destruct (Nat.ltb_spec i n1), (Nat.ltb_spec j n1); auto.
  - destruct (Nat.eqb_spec i j); [lia|reflexivity].
  - destruct (Nat.eqb_spec i j); [lia|reflexivity].
  - destruct (Nat.eqb_spec (i - n1) (j - n1)), (Nat.eqb_spec i j); auto; lia. Qed.
Definition wcat (n1 : nat) (w1 w2 : nat -> R) : nat -> R := fun i => if (i <? n1)%nat then w1 i else w2 (i - n1)%nat.
Lemma B2_dg n1 n2 w1 w2 : feq (n1 + n2) (n1 + n2) (B2 n1 (dg w1) (dg w2)) (dg (wcat n1 w1 w2)).
Proof. intros i j Hi Hj. unfold B2, dg, wcat, delta. destruct (Nat.ltb_spec i n1), (Nat.ltb_spec j n1); auto.
  - destruct (Nat.eqb_spec i j); [lia|ring].
  - destruct (Nat.eqb_spec i j); [lia|ring].
  - destruct (Nat.eqb_spec (i - n1) (j - n1)), (Nat.eqb_spec i j); auto; lia. Qed.
Lemma B2_inv2 n1 n2 V1 W1 V2 W2 : inv2 n1 V1 W1 -> inv2 n2 V2 W2 -> inv2 (n1 + n2) (B2 n1 V1 V2) (B2 n1 W1 W2).
Proof. intros [A1 B1] [A2 B2']. split.
  - eapply feq_trans; [apply B2_mul|]. eapply feq_trans; [apply B2_ext; eassumption|apply B2_eye].
  - eapply feq_trans; [apply B2_mul|]. eapply feq_trans; [apply B2_ext; eassumption|apply B2_eye]. Qed.
Lemma isfun_B2 (P : R -> Prop) f n1 n2 A M X Y : IsFunOn P f n1 A M -> IsFunOn P f n2 X Y ->
  IsFunOn P f (n1 + n2) (B2 n1 A X) (B2 n1 M Y).
Proof. intros (V1 & w1 & [W1 I1] & HA & HM & HP1) (V2 & w2 & [W2 I2] & HX & HY & HP2).
  exists (B2 n1 V1 V2), (wcat n1 w1 w2). split; [|split; [|split]].
  - exists (B2 n1 W1 W2). apply B2_inv2; assumption.
  - eapply feq_trans; [apply B2_mul|]. eapply feq_trans; [apply B2_ext; eassumption|].
    apply feq_sym. eapply feq_trans; [apply mmul_ext; [apply feq_refl|apply feq_sym, B2_dg]|]. apply B2_mul.
  - eapply feq_trans; [apply B2_mul|]. eapply feq_trans; [apply B2_ext; eassumption|].
    apply feq_sym. eapply feq_trans; [apply mmul_ext; [apply feq_refl|]|apply B2_mul].
    apply feq_sym. eapply feq_trans; [apply B2_dg|]. intros i j Hi Hj. unfold dg, wcat. destruct (i <? n1)%nat; reflexivity.
  - intros i Hi. unfold wcat. destruct (Nat.ltb_spec i n1); [apply HP1; auto|apply HP2; lia]. Qed.
(* n-ary: a list of square blocks (as in den (BDiag ..) = bd blocks) *)
Definition sqblk (b : shp * fm) := fst (fst b) = snd (fst b).
Definition blkdim (l : list (shp * fm)) : nat := fold_right (fun b acc => (fst (fst b) + acc)%nat) 0%nat l.
Lemma bd_cons_B2 (s : shp) A (l : list (shp * fm)) : fst s = snd s -> forall i j, bd ((s, A) :: l) i j = B2 (fst s) A (bd l) i j.
Proof. intros E i j. cbn [bd]. unfold B2. rewrite <- E. reflexivity. Qed.
Theorem isfun_bd (P : R -> Prop) f (As Ms : list (shp * fm)) :
  Forall2 (fun a m => sqblk a /\ fst m = fst a /\ IsFunOn P f (fst (fst a)) (snd a) (snd m)) As Ms ->
  IsFunOn P f (blkdim As) (bd As) (bd Ms).
Proof. induction 1 as [|[sa A] [sm M] As Ms (Hs & Hm & HF) HR IH].
  - cbn. exists eye, (fun _ => r0). split; [exists eye; split; intros i j Hi; lia|]. split; [intros i j Hi; lia|]. split; [intros i j Hi; lia|intros i Hi; lia].
  - cbn [fst snd] in *. subst sm. cbn [blkdim fold_right fst snd]. fold (blkdim As).
    eapply isfun_ext; [| |exact (isfun_B2 P f (fst sa) (blkdim As) A M (bd As) (bd Ms) HF IH)].
    + intros i j _ _. symmetry. apply bd_cons_B2. exact Hs.
    + intros i j _ _. symmetry. apply bd_cons_B2. exact Hs. Qed.

(* ================= Kronecker product / Kronecker sum ================= *)
Definition K (n2 : nat) (A B : fm) : fm := fun i j => A (i / n2)%nat (j / n2)%nat * B (i mod n2)%nat (j mod n2)%nat.
Lemma K_mixed n1 n2 (A B C D : fm) : (0 < n2)%nat ->
  feq (n1 * n2) (n1 * n2) (mmul (n1 * n2) (K n2 A B) (K n2 C D)) (K n2 (mmul n1 A C) (mmul n2 B D)).
Proof. intros H2 i j _ _.
  exact (kron2_mixed (mkfac n1 n1 A) (mkfac n2 n2 B) (mkfac n1 n1 C) (mkfac n2 n2 D) i j H2 eq_refl). Qed.
Lemma divmod_lt i n1 n2 : (0 < n2)%nat -> (i < n1 * n2)%nat -> (i / n2 < n1)%nat /\ (i mod n2 < n2)%nat.
Proof. intros H2 Hi. split; [apply Nat.div_lt_upper_bound; lia|apply Nat.mod_upper_bound; lia]. Qed.
Lemma K_ext n1 n2 (A A' B B' : fm) : (0 < n2)%nat -> feq n1 n1 A A' -> feq n2 n2 B B' -> feq (n1 * n2) (n1 * n2) (K n2 A B) (K n2 A' B').
Proof. intros H2 HA HB i j Hi Hj. unfold K. destruct (divmod_lt i n1 n2 H2 Hi), (divmod_lt j n1 n2 H2 Hj). rewrite HA, HB by auto. reflexivity. Qed.
Lemma K_eye n1 n2 : (0 < n2)%nat -> feq (n1 * n2) (n1 * n2) (K n2 eye eye) eye.
Proof. intros H2 i j _ _. unfold K, eye. symmetry. apply delta_divmod. exact H2. Qed.
Lemma K_dg n1 n2 w1 w2 : (0 < n2)%nat -> feq (n1 * n2) (n1 * n2) (K n2 (dg w1) (dg w2)) (dg (fun i => w1 (i / n2)%nat * w2 (i mod n2)%nat)).
Proof. intros H2 i j _ _. unfold K, dg. rewrite (delta_divmod n2 i j H2). ring. Qed.
Lemma K_inv2 n1 n2 V1 W1 V2 W2 : (0 < n2)%nat -> inv2 n1 V1 W1 -> inv2 n2 V2 W2 -> inv2 (n1 * n2) (K n2 V1 V2) (K n2 W1 W2).
Proof. intros H2 [A1 B1] [A2 B2']. split.
  - eapply feq_trans; [apply K_mixed; auto|]. eapply feq_trans; [apply K_ext; eassumption|apply K_eye; auto].
  - eapply feq_trans; [apply K_mixed; auto|]. eapply feq_trans; [apply K_ext; eassumption|apply K_eye; auto]. Qed.
(* pow(Kronecker): f multiplicative on a multiplicatively closed spectrum class P (this is where the branch enters) *)
Lemma isfun_K (P : R -> Prop) f n1 n2 A1 M1 A2 M2 : (0 < n2)%nat ->
  (forall a b, P a -> P b -> P (a * b)) -> (forall a b, P a -> P b -> f (a * b) = f a * f b) ->
  IsFunOn P f n1 A1 M1 -> IsFunOn P f n2 A2 M2 -> IsFunOn P f (n1 * n2) (K n2 A1 A2) (K n2 M1 M2).
Proof. intros H2 Hcl Hmul (V1 & w1 & [W1 I1] & HA1 & HM1 & HP1) (V2 & w2 & [W2 I2] & HA2 & HM2 & HP2).
  exists (K n2 V1 V2), (fun i => w1 (i / n2)%nat * w2 (i mod n2)%nat). split; [|split; [|split]].
  - exists (K n2 W1 W2). apply K_inv2; assumption.
  - eapply feq_trans; [apply K_mixed; auto|]. eapply feq_trans; [apply K_ext; eassumption|].
    apply feq_sym. eapply feq_trans; [apply mmul_ext; [apply feq_refl|apply feq_sym, (K_dg n1 n2); auto]|]. apply K_mixed; auto.
  - eapply feq_trans; [apply K_mixed; auto|]. eapply feq_trans; [apply K_ext; eassumption|].
    apply feq_sym. eapply feq_trans; [apply mmul_ext; [apply feq_refl|]|apply K_mixed; auto].
    apply feq_sym. eapply feq_trans; [apply (K_dg n1 n2); auto|]. intros i j Hi Hj. unfold dg.
    destruct (divmod_lt i n1 n2 H2 Hi). rewrite Hmul by auto. reflexivity.
  - intros i Hi. destruct (divmod_lt i n1 n2 H2 Hi). apply Hcl; auto. Qed.
(* exp(KronSum) = Kronecker of the exps: f (a + b) = f a * f b on an additively closed class P *)
Definition KS (n2 : nat) (A B : fm) : fm := fun i j => K n2 A eye i j + K n2 eye B i j.
Lemma mmul_add_l' k (A B X : fm) i j : mmul k (fun a b => A a b + B a b) X i j = mmul k A X i j + mmul k B X i j.
Proof. unfold mmul. rewrite <- sum_add. apply sum_ext; intros; ring. Qed.
Lemma mmul_add_r' k (X A B : fm) i j : mmul k X (fun a b => A a b + B a b) i j = mmul k X A i j + mmul k X B i j.
Proof. unfold mmul. rewrite <- sum_add. apply sum_ext; intros; ring. Qed.
Lemma isfun_KS (P : R -> Prop) f n1 n2 A1 M1 A2 M2 : (0 < n2)%nat ->
  (forall a b, P a -> P b -> P (a + b)) -> (forall a b, P a -> P b -> f (a + b) = f a * f b) ->
  IsFunOn P f n1 A1 M1 -> IsFunOn P f n2 A2 M2 -> IsFunOn P f (n1 * n2) (KS n2 A1 A2) (K n2 M1 M2).
Proof. intros H2 Hcl Hadd (V1 & w1 & [W1 I1] & HA1 & HM1 & HP1) (V2 & w2 & [W2 I2] & HA2 & HM2 & HP2).
  exists (K n2 V1 V2), (fun i => w1 (i / n2)%nat + w2 (i mod n2)%nat). split; [|split; [|split]].
  - exists (K n2 W1 W2). apply K_inv2; assumption.
  - intros i j Hi Hj. unfold KS. rewrite mmul_add_l'.
    rewrite (K_mixed n1 n2 A1 eye V1 V2 H2 i j Hi Hj), (K_mixed n1 n2 eye A2 V1 V2 H2 i j Hi Hj).
    rewrite mmul_dg_r by auto. unfold K. destruct (divmod_lt i n1 n2 H2 Hi) as [Hi1 Hi2], (divmod_lt j n1 n2 H2 Hj) as [Hj1 Hj2].
    rewrite (HA1 _ _ Hi1 Hj1), (HA2 _ _ Hi2 Hj2). rewrite !mmul_eye_l by auto. rewrite !mmul_dg_r by auto. ring.
  - eapply feq_trans; [apply K_mixed; auto|]. eapply feq_trans; [apply K_ext; eassumption|].
    intros i j Hi Hj. rewrite mmul_dg_r by auto. unfold K. destruct (divmod_lt i n1 n2 H2 Hi), (divmod_lt j n1 n2 H2 Hj).
    rewrite !mmul_dg_r by auto. rewrite Hadd by auto. ring.
  - intros i Hi. destruct (divmod_lt i n1 n2 H2 Hi). apply Hcl; auto. Qed.

(* n-ary, on the right-nested products of Op.v: den (Kron ms) = fmx (kronR ..), den (KronSum ms) = fmx (ksumR ..) *)
Definition facrel (P : R -> Prop) f (A M : fac) : Prop :=
  fr A = fc A /\ (0 < fr A)%nat /\ fr M = fr A /\ fc M = fr A /\ IsFunOn P f (fr A) (fmx A) (fmx M).
Lemma facrel_dims P f As Ms : Forall2 (facrel P f) As Ms ->
  fr (kronR Ms) = fr (kronR As) /\ fc (kronR Ms) = fr (kronR As) /\ fc (kronR As) = fr (kronR As) /\ (0 < fr (kronR As))%nat /\
  fr (ksumR As) = fr (kronR As) /\ fc (ksumR As) = fr (kronR As).
Proof. induction 1 as [|A M As Ms (H1 & H2 & H3 & H4 & _) HR IH]; [cbn; repeat split; lia|].
  destruct IH as (E1 & E2 & E3 & E4 & E5 & E6). cbn [kronR ksumR kron2 ksum2 fr fc].
  rewrite ?E1, ?E2, ?E3, ?E5, ?E6, ?H3, ?H4. try rewrite <- !H1. repeat split; auto. apply Nat.mul_pos_pos; auto. Qed.
Theorem isfun_kronR (P : R -> Prop) f (As Ms : list fac) :
  (forall a b, P a -> P b -> P (a * b)) -> (forall a b, P a -> P b -> f (a * b) = f a * f b) -> P r1 -> f r1 = r1 ->
  Forall2 (facrel P f) As Ms -> IsFunOn P f (fr (kronR As)) (fmx (kronR As)) (fmx (kronR Ms)).
Proof. intros Hcl Hmul P1 F1. induction 1 as [|A M As Ms HAM HR IH].
  - cbn. eapply isfun_ext; [| |exact (isfun_ident P f 1 P1)].
    + intros i j Hi Hj. assert (i = 0 /\ j = 0)%nat as [-> ->] by lia. reflexivity.
    + intros i j Hi Hj. assert (i = 0 /\ j = 0)%nat as [-> ->] by lia. rewrite F1. cbn. unfold delta. cbn. ring.
  - pose proof (facrel_dims P f As Ms HR) as (E1 & E2 & E3 & E4 & _). destruct HAM as (H1 & H2 & H3 & H4 & HF).
    cbn [kronR kron2 fr fc fmx]. rewrite ?E1, ?E2, ?E3.
    exact (isfun_K P f (fr A) (fr (kronR As)) (fmx A) (fmx M) _ _ E4 Hcl Hmul HF IH). Qed.
Theorem isfun_ksumR (P : R -> Prop) f (As Ms : list fac) :
  (forall a b, P a -> P b -> P (a + b)) -> (forall a b, P a -> P b -> f (a + b) = f a * f b) -> P r0 -> f r0 = r1 ->
  Forall2 (facrel P f) As Ms -> IsFunOn P f (fr (kronR As)) (fmx (ksumR As)) (fmx (kronR Ms)).
Proof. intros Hcl Hadd P0 F0. induction 1 as [|A M As Ms HAM HR IH].
  - cbn. eapply isfun_ext; [| |exact (isfun_scal P f 1 r0 P0)].
    + intros i j Hi Hj. ring.
    + intros i j Hi Hj. assert (i = 0 /\ j = 0)%nat as [-> ->] by lia. rewrite F0. cbn. unfold delta. cbn. ring.
  - pose proof (facrel_dims P f As Ms HR) as (E1 & E2 & E3 & E4 & E5 & E6). destruct HAM as (H1 & H2 & H3 & H4 & HF).
    cbn [kronR ksumR kron2 ksum2 fr fc fmx]. rewrite ?E1, ?E2, ?E3, ?E5, ?E6.
    exact (isfun_KS P f (fr A) (fr (kronR As)) (fmx A) (fmx M) _ _ E4 Hcl Hadd HF IH). Qed.
End Struct.
