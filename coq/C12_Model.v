(* C12: Gallina transcription of cola/linalg/inverse/cg.py (run_batched_cg and its helpers) and of the instrumented
   while loop cola/utils/torch_tqdm.py:while_loop_winfo, over the abstract scalar/vector interface of C12_Ops.v.
   The same term is executed on PrimFloat by the correspondence check and reasoned about in C12_Contract.v /
   C12_Krylov.v.  Every column of a multi-column right-hand side carries its own vectors; the loop steps all
   columns together, exactly as the batched code does. *)
From Coq Require Import List Bool Arith.
From Core Require Import C12_Ops.
Import ListNotations.

(* ---- while_loop_winfo: returns the final state, info['iterations'], info['errors'] and (for the theorems,
   not observable in Python) the number of executed bodies.  [fuel] bounds the number of bodies; the conditions
   passed to it test their own iteration cap, see [wloop_fuel] in C12_Contract.v. *)
Section While.
Context {T St : Type}.
Variables (cond : St -> bool) (body : St -> St) (err : St -> T).
Fixpoint wloop (fuel : nat) (s : St) (its : nat) (errs : list T) (nb : nat) : St * nat * list T * nat :=
  (* newcond: errors.append(errorfn(state)); iterations += 1; return cond_fun(state) *)
  let errs' := err s :: errs in
  let its' := S its in
  match fuel with
  | 0 => (s, its', errs', nb)
  | S f => if cond s then wloop f (body s) its' errs' (S nb) else (s, its', errs', nb)
  end.
Definition while_winfo (fuel : nat) (init : St) : St * nat * list T * nat :=
  let '(out, its, errs, nb) := wloop fuel init 0 [] 0 in
  (* errors.append(errorfn(out)); errors = errors[2:] *)
  (out, its, skipn 2 (rev (err out :: errs)), nb).
End While.

Section CG.
Context {T V : Type} (o : ops T) (vo : vops T V).
Variables (A P : V -> V).            (* the operator and the preconditioner, as maps on one column *)
Variable x0_unscaled : bool.         (* defect flag cg_x0_unscaled: true = the pinned tree (x0 is not divided by ||b||) *)

Definition vnorm (v : V) : T := osqrt o (vdot vo v v).
Definition safe_den (den : T) : T := if oltb o (oabs o den) (ozero o) then osafe o else den.
Definition safe_div (num den : T) : T := odiv o num (safe_den den).
Definition safe_vdiv (v : V) (den : T) : V := vdivs vo v (safe_den den).

Record col := mkcol { cx : V; cr : V; cp : V; cgam : T; ctol : T; cmult : T }.

(* mult = norm(b); b_norm = do_safe_div(b, mult); initialize(...); tol = tol * norm(r0) + tol *)
Definition init_col (tol : T) (b x0 : V) : col :=
  let mult := vnorm b in
  let bn := safe_vdiv b mult in
  let x0' := if x0_unscaled then x0 else safe_vdiv x0 mult in
  let r0 := vsub vo bn (A x0') in
  let z0 := P r0 in
  {| cx := x0'; cr := r0; cp := z0; cgam := vdot vo r0 z0;
     ctol := oadd o (omul o tol (vnorm r0)) tol; cmult := mult |}.

(* take_cg_step with update_alpha / update_gamma_beta *)
Definition step_col (c : col) : col :=
  let conv := oltb o (vnorm (cr c)) (osmall o) in
  let Ap := A (cp c) in
  let alpha := if conv then o0 o else safe_div (cgam c) (vdot vo (cp c) Ap) in
  let x1 := vadd vo (cx c) (vscale vo alpha (cp c)) in
  let r1 := vsub vo (cr c) (vscale vo alpha Ap) in
  let z1 := P r1 in
  let gamma1 := vdot vo r1 z1 in
  let beta := if conv then o0 o else safe_div gamma1 (cgam c) in
  {| cx := x1; cr := r1; cp := vadd vo z1 (vscale vo beta (cp c)); cgam := gamma1; ctol := ctol c; cmult := cmult c |}.

Definition unconverged (c : col) : bool := oltb o (ctol c) (vnorm (cr c)).   (* rs > tol *)
Definition st := (list col * nat)%type.
Definition cg_cond (max_iters : nat) (s : st) : bool := existsb unconverged (fst s) && Nat.ltb (snd s) max_iters.
Definition cg_body (s : st) : st := (map step_col (fst s), S (snd s)).
Definition track_res (s : st) : T :=    (* norm(r, axis=-2).mean() *)
  odiv o (fold_left (oadd o) (map (fun c => vnorm (cr c)) (fst s)) (o0 o)) (ofnat o (length (fst s))).

Record result := mkres { sol : list V; res : list V; steps : nat; iterations : nat; errors : list T; bodies : nat }.

Definition run_cg (tol : T) (max_iters : nat) (bs x0s : list V) : result :=
  let init : st := (map (fun bx => init_col tol (fst bx) (snd bx)) (combine bs x0s), 0) in
  let '(out, its, errs, nb) := while_winfo (cg_cond max_iters) cg_body track_res max_iters init in
  {| sol := map (fun c => vscale vo (cmult c) (cx c)) (fst out);
     res := map (fun c => vscale vo (cmult c) (cr c)) (fst out);
     steps := snd out; iterations := its; errors := errs; bodies := nb |}.

(* the plain loop without instrumentation (used by the theorems) *)
Fixpoint cg_loop (max_iters fuel : nat) (s : st) : st :=
  match fuel with
  | 0 => s
  | S f => if cg_cond max_iters s then cg_loop max_iters f (cg_body s) else s
  end.
End CG.
