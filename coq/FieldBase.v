(* Field-level scalars on top of Base.v: class Field, and the execution instance QI (Gaussian rationals over Qc). *)
From Coq Require Import Arith Lia List Ring Field QArith Qcanon PeanoNat Bool.
From Core Require Import Base.
Import ListNotations.

Class Field (R : Type) {RR : Ring R} := {
  rinv : R -> R; rdiv : R -> R -> R;
  Fth : field_theory r0 r1 radd rmul rsub ropp rdiv rinv eq }.
Notation "x / y" := (rdiv x y) : R_scope.

(* Gaussian rationals *)
Definition qi := (Qc * Qc)%type.
Definition qi0 : qi := (0, 0)%Qc. Definition qi1 : qi := (1, 0)%Qc.
Definition qiadd (a b : qi) : qi := (fst a + fst b, snd a + snd b)%Qc.
Definition qimul (a b : qi) : qi := (fst a * fst b - snd a * snd b, fst a * snd b + snd a * fst b)%Qc.
Definition qiopp (a : qi) : qi := (- fst a, - snd a)%Qc.
Definition qisub (a b : qi) : qi := qiadd a (qiopp b).
Definition qiconj (a : qi) : qi := (fst a, - snd a)%Qc.
Definition qinorm2 (a : qi) : Qc := (fst a * fst a + snd a * snd a)%Qc.
Definition qiinv (a : qi) : qi := (fst a / qinorm2 a, - snd a / qinorm2 a)%Qc.
Definition qidiv (a b : qi) : qi := qimul a (qiinv b).
Lemma QIth : ring_theory qi0 qi1 qiadd qimul qisub qiopp eq.
Proof. constructor; intros; repeat match goal with x : qi |- _ => destruct x end;
  unfold qisub, qiadd, qimul, qiopp, qi0, qi1; cbn [fst snd]; f_equal; ring. Qed.
Lemma Qsq_nonneg (q : Q) : (0 <= q * q)%Q.
Proof. destruct q as [n d]. unfold Qle, Qmult; cbn. rewrite Z.mul_1_r. apply Z.square_nonneg. Qed.
Lemma Qcsq_nonneg (x : Qc) : (0 <= x * x)%Qc.
Proof. unfold Qcle. cbn [this Qcmult Q2Qc]. assert (H := Qred_correct (x * x)). rewrite H. apply Qsq_nonneg. Qed.
Lemma qinorm2_nz a : a <> qi0 -> qinorm2 a <> 0%Qc.
Proof. destruct a as [x y]. unfold qinorm2, qi0; cbn [fst snd]. intros H E. apply H.
  pose proof (Qcsq_nonneg x) as Hx. pose proof (Qcsq_nonneg y) as Hy.
  assert (Ex : (x * x = 0)%Qc).
  { apply Qcle_antisym; [|exact Hx]. rewrite <- E. rewrite <- (Qcplus_0_r (x * x)) at 1. apply Qcplus_le_compat; [apply Qcle_refl|exact Hy]. }
  assert (Ey : (y * y = 0)%Qc). { rewrite Ex in E. rewrite Qcplus_0_l in E. exact E. }
  apply Qcmult_integral in Ex. apply Qcmult_integral in Ey. f_equal; tauto. Qed.
Lemma QIfth : field_theory qi0 qi1 qiadd qimul qisub qiopp qidiv qiinv eq.
Proof. constructor.
  - exact QIth.
  - unfold qi1, qi0. intros H. inversion H.
  - reflexivity.
  - intros p Hp. pose proof (qinorm2_nz p Hp) as Hn. destruct p as [x y]. unfold qimul, qiinv, qi1, qinorm2 in *; cbn [fst snd] in *. f_equal; field; exact Hn. Qed.
#[export] Instance QIRing : Ring qi := {| r0 := qi0; r1 := qi1; radd := qiadd; rmul := qimul; rsub := qisub; ropp := qiopp; Rth := QIth |}.
#[export] Program Instance QICRing : CRing qi := {| conj := qiconj |}.
Next Obligation. destruct a, b; unfold qiconj, qiadd; cbn [fst snd]; f_equal; ring. Qed.
Next Obligation. destruct a, b; unfold qiconj, qimul; cbn [fst snd]; f_equal; ring. Qed.
Next Obligation. destruct a; unfold qiconj; cbn [fst snd]; f_equal; ring. Qed.
#[export] Instance QIField : Field qi := {| rinv := qiinv; rdiv := qidiv; Fth := QIfth |}.

(* literals and comparison for generated case files: a rational is num # den with den a positive *)
Definition qc (n : Z) (d : positive) : Qc := Q2Qc (n # d).
Definition qic (rn : Z) (rd : positive) (im_n : Z) (im_d : positive) : qi := (qc rn rd, qc im_n im_d).
Definition qi_eqb (a b : qi) : bool := Qc_eq_bool (fst a) (fst b) && Qc_eq_bool (snd a) (snd b).
Definition qof_list_mn (m n : nat) (l : list (list qi)) : arr (R:=qi) := mkarr m n (fun i j => nth j (nth i l []) qi0).
Definition qof_vec (l : list qi) : nat -> qi := fun i => nth i l qi0.
Definition qarr_eqb_mn (a : arr (R:=qi)) (m n : nat) (l : list (list qi)) : bool :=
  Nat.eqb (nr a) m && Nat.eqb (nc a) n &&
  forallb (fun i => forallb (fun j => qi_eqb (dat a i j) (nth j (nth i l []) qi0)) (seq 0 n)) (seq 0 m).
