(* Model of cola's operator algebra: the rewriting rules of cola/fns.py behind the overloads of
   cola/ops/operator_base.py (dot, add, mul, neg, sub, div, kron, kronsum, block_diag, transpose, adjoint).
   Functions on the operator AST returning operator trees (or an error value), as the Python code does. *)
From Coq Require Import Arith Lia List Ring ArithRing PeanoNat Bool.
From Core Require Import Base Kron Op.
Import ListNotations.
Section Algebra.
Context {R : Type} {RR : Ring R} {CR : CRing R}.
Open Scope R_scope.
Notation op := (op (R:=R)).

Inductive errk := EShape | EAmbiguous | EType | ENotImpl.
Inductive res (A : Type) := Ok (a : A) | Err (k : errk).
Arguments Ok {A} a. Arguments Err {A} k.

Definition terms (e : op) : list op := match e with Sum ms => ms | _ => [e] end.
Definition factors (e : op) : list op := match e with Prod ms => ms | _ => [e] end.
Definition kfactors (e : op) : list op := match e with Kron ms => ms | _ => [e] end.
Definition ksfactors (e : op) : list op := match e with KronSum ms => ms | _ => [e] end.
Definition is_ident (e : op) : bool := match e with Ident _ => true | _ => false end.

(* A + B : add(Sum|LinearOperator, Sum|LinearOperator) -> Sum of all terms; the Sum constructor rejects unequal shapes *)
Definition add (a b : op) : res op :=
  if shp_eqb (shape a) (shape b) then Ok (Sum (terms a ++ terms b)) else Err EShape.

(* A @ B : __matmul__ asserts the inner dimensions, then dot(...) *)
Definition dot (a b : op) : res op :=
  if negb (Nat.eqb (snd (shape a)) (fst (shape b))) then Err EShape
  else if is_ident b then Ok a
  else if is_ident a then Ok b
  else Ok (Prod (factors a ++ factors b)).

(* c * A, A * c : mul(A, c) *)
Definition mul (a : op) (c : R) : op :=
  match a with
  | Scal c' n => Scal (c' * c) n
  | _ => Prod [Scal c (fst (shape a)); a]
  end.
Definition neg (a : op) : op := mul a (- r1).
Definition sub (a b : op) : res op := add a (neg b).
(* A / c is A * (1/c): the reciprocal is computed by Python before the call *)
Definition div (a : op) (cinv : R) : op := mul a cinv.

Definition kron (a b : op) : op :=
  match a, b with
  | Diag n d, Diag m d' => Diag (n * m) (fun i => d (i / m)%nat * d' (i mod m)%nat)
  | _, _ => Kron (kfactors a ++ kfactors b)
  end.
Definition kronsum (a b : op) : op := KronSum (ksfactors a ++ ksfactors b).
Definition block_diag (l : list op) : op := BDiag (map (fun e => (e, 1%nat)) l).

(* A.T / A.H : [sa] is the value of A.isa(SelfAdjoint); type-specific rules win over the conditional one *)
Definition transpose (sa : bool) (e : op) : op :=
  match e with
  | Transp a => a
  | Dense a => Dense (tra a)
  | Sparse m n ent => Sparse n m (map (fun x => (snd (fst x), fst (fst x), snd x)) ent)
  | _ => if sa then e else Transp e
  end.
Definition adjoint (sa : bool) (e : op) : op :=
  match e with
  | Adj a => a
  | Dense a => Dense (tra (cja a))
  | _ => if sa then e else Adj e
  end.

(* whole expressions *)
Inductive aexp :=
| ALeaf (e : op)
| AAdd (x y : aexp) | ASub (x y : aexp) | ANeg (x : aexp)
| AMul (x : aexp) (c : R)          (* c * A, A * c, A / c (c = the reciprocal) *)
| ADot (x y : aexp)
| AKron (x y : aexp) | AKronSum (x y : aexp)
| ABlock (l : list aexp).
Definition bindr {A B} (r : res A) (f : A -> res B) : res B := match r with Ok a => f a | Err k => Err k end.
Fixpoint mapres {A B} (f : A -> res B) (l : list A) : res (list B) :=
  match l with [] => Ok [] | x :: r => bindr (f x) (fun y => bindr (mapres f r) (fun ys => Ok (y :: ys))) end.
Fixpoint eval (x : aexp) : res op :=
  match x with
  | ALeaf e => Ok e
  | AAdd x y => bindr (eval x) (fun a => bindr (eval y) (fun b => add a b))
  | ASub x y => bindr (eval x) (fun a => bindr (eval y) (fun b => sub a b))
  | ANeg x => bindr (eval x) (fun a => Ok (neg a))
  | AMul x c => bindr (eval x) (fun a => Ok (mul a c))
  | ADot x y => bindr (eval x) (fun a => bindr (eval y) (fun b => dot a b))
  | AKron x y => bindr (eval x) (fun a => bindr (eval y) (fun b => Ok (kron a b)))
  | AKronSum x y => bindr (eval x) (fun a => bindr (eval y) (fun b => Ok (kronsum a b)))
  | ABlock l => bindr ((fix go (l : list aexp) : res (list op) :=
                          match l with [] => Ok [] | x :: r => bindr (eval x) (fun y => bindr (go r) (fun ys => Ok (y :: ys))) end) l)
                      (fun es => Ok (block_diag es))
  end.
End Algebra.
Arguments Ok {A} a. Arguments Err {A} k.
