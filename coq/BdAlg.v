From Coq Require Import Arith Lia List Ring ArithRing PeanoNat Bool.
From Core Require Import Base Kron Op.
Import ListNotations.
Section BdAlg.
Context {R : Type} {RR : Ring R} {CR : CRing R}.
Add Ring Rring : Rth.
Open Scope R_scope.
Notation fm := (fm (R:=R)).
Definition blk := (shp * fm)%type.
Definition colsB (B : list blk) : nat := fold_right (fun b acc => (snd (fst b) + acc)%nat) 0%nat B.
Definition rowsB (B : list blk) : nat := fold_right (fun b acc => (fst (fst b) + acc)%nat) 0%nat B.
Definition bdmul (B : list blk) (v : nat -> R) (i : nat) : R := sum (colsB B) (fun g => bd B i g * v g).
Lemma bdmul_cons s D L v i : bdmul ((s, D) :: L) v i =
  if (i <? fst s)%nat then sum (snd s) (fun g => D i g * v g) else bdmul L (fun g => v (snd s + g)%nat) (i - fst s)%nat.
Proof.
  unfold bdmul. cbn [colsB fold_right fst snd]. fold (colsB L). rewrite sum_app. cbn [bd].
  destruct (Nat.ltb_spec i (fst s)).
  - rewrite (sum_ext (colsB L) _ (fun _ => r0)).
    + rewrite sum_zero. rewrite (sum_ext (snd s) _ (fun g => D i g * v g)); [ring|].
      intros g Hg. destruct (Nat.ltb_spec g (snd s)); [reflexivity|lia].
    + intros g Hg. destruct (Nat.ltb_spec (snd s + g) (snd s)); [lia|ring].
  - rewrite (sum_ext (snd s) _ (fun _ => r0)).
    + rewrite sum_zero. rewrite (sum_ext (colsB L) _ (fun g => bd L (i - fst s)%nat g * v (snd s + g)%nat)); [ring|].
      intros g Hg. destruct (Nat.ltb_spec (snd s + g) (snd s)); [lia|]. replace (snd s + g - snd s)%nat with g by lia. reflexivity.
    + intros g Hg. destruct (Nat.ltb_spec g (snd s)); [ring|lia].
Qed.
(* block-wise product *)
Fixpoint bcompat (As Bs : list blk) : Prop :=
  match As, Bs with
  | [], [] => True
  | (sa, _) :: As', (sb, _) :: Bs' => snd sa = fst sb /\ bcompat As' Bs'
  | _, _ => False end.
Fixpoint bmuls (As Bs : list blk) : list blk :=
  match As, Bs with
  | (sa, A) :: As', (sb, B) :: Bs' => ((fst sa, snd sb), mmul (snd sa) A B) :: bmuls As' Bs'
  | _, _ => [] end.
Lemma bdmul_zero B i : bdmul B (fun _ => r0) i = r0.
Proof. unfold bdmul. rewrite (sum_ext _ _ (fun _ => r0)) by (intros; ring). apply sum_zero. Qed.
Lemma mmul_bd_bdmul L (X : fm) i j : mmul (colsB L) (bd L) X i j = bdmul L (fun g => X g j) i.
Proof. reflexivity. Qed.
Theorem bd_mul As Bs : bcompat As Bs -> forall i j,
  mmul (colsB As) (bd As) (bd Bs) i j = bd (bmuls As Bs) i j.
Proof.
  revert Bs. induction As as [|[sa A] As IH]; intros [|[sb B] Bs] H i j; simpl in H; try tauto.
  destruct H as [Hc H]. rewrite mmul_bd_bdmul.
    rewrite bdmul_cons. cbn [bmuls bd fst snd].
    destruct (Nat.ltb_spec i (fst sa)).
    + destruct (Nat.ltb_spec j (snd sb)).
      * unfold mmul. apply sum_ext; intros g Hg. destruct (Nat.ltb_spec g (fst sb)); [reflexivity|lia].
      * rewrite (sum_ext _ _ (fun _ => r0)); [apply sum_zero|]. intros g Hg.
        destruct (Nat.ltb_spec g (fst sb)); [ring|lia].
    + destruct (Nat.ltb_spec j (snd sb)).
      * transitivity (bdmul As (fun _ => r0) (i - fst sa)%nat); [|apply bdmul_zero]. unfold bdmul. apply sum_ext; intros g Hg.
        destruct (Nat.ltb_spec (snd sa + g) (fst sb)); [lia|reflexivity].
      * rewrite <- IH by auto. unfold bdmul, mmul. apply sum_ext; intros g Hg.
        destruct (Nat.ltb_spec (snd sa + g) (fst sb)); [lia|]. rewrite Hc. replace (fst sb + g - fst sb)%nat with g by lia. reflexivity.
Qed.
(* identity blocks *)
Lemma bd_eye ns : forall i j, bd (map (fun n => ((n, n), eye)) ns) i j = if (i <? fold_right Nat.add 0 ns)%nat && (j <? fold_right Nat.add 0 ns)%nat then eye i j else r0.
Proof.
  induction ns as [|n ns IH]; intros i j; cbn [map bd fold_right fst snd].
  - reflexivity.
  - rewrite IH. unfold eye, delta.
    destruct (Nat.ltb_spec i n); destruct (Nat.ltb_spec j n);
    destruct (Nat.ltb_spec i (n + fold_right Nat.add 0 ns)); destruct (Nat.ltb_spec j (n + fold_right Nat.add 0 ns));
    destruct (Nat.ltb_spec (i - n) (fold_right Nat.add 0 ns)); destruct (Nat.ltb_spec (j - n) (fold_right Nat.add 0 ns));
    cbn [andb]; try lia; try reflexivity;
    try (destruct (Nat.eqb_spec i j); try lia; reflexivity);
    try (destruct (Nat.eqb_spec (i - n) (j - n)); destruct (Nat.eqb_spec i j); try lia; reflexivity).
Qed.
End BdAlg.
Check bd_mul. Check bd_eye.
