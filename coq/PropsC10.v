(* Property C10: eig returns the requested eigenpairs of the represented matrix.
   Only statements closed by [exact]; models in C10_Model.v / C10_Power.v, lemmas in C10_Proofs.v / C10_Check.v.
   Scalars: any field (class Field of FieldBase.v; e.g. the complex numbers, the Gaussian rationals); LAPACK-backed
   routines are oracles (their specification is a hypothesis).

   Full statement (not proved in this strength; kept for reference):
     C10_full := for every square A with simple spectrum, 1 <= k <= n, which in {LM,SM} and admissible algorithm,
       eig returns k pairs (lambda, v) with A v = lambda v, v <> 0, independent (orthonormal for self-adjoint A),
       the lambdas being the k eigenvalues of largest / smallest MAGNITUDE; power iteration converges to the dominant pair.
   Proved: eigenpair-ness, count, independence and "selection = last/first k of the order the rule slices" for every rule
   (dense and Krylov rules relative to their oracle specification; Identity / Diagonal / upper-Triangular outright),
   stopping contract and fixed-point property of power iteration.
   Partial: convergence of power iteration (a limit statement) is not proved; selection by magnitude holds only when the
   sliced order is the magnitude order - for the pinned code it is not (refutation witnesses below). *)
From Coq Require Import ZArith QArith Qcanon List Arith Bool Sorting.Permutation.
From Core Require Import Base FieldBase PySlice C09_MatAlg C10_Model C10_Proofs C10_Power C10_Check C16_Proofs.
Import ListNotations.

Definition C10_full : Prop :=
  forall (R : Type) (RR : Ring R) (FF : Field R) (mag_le : R -> R -> Prop) (n m : nat) (A : fm (R:=R)) (w : nat -> R) (V : fm (R:=R)) (k : nat) (wh : which) (o : eout (R:=R)),
    EigSpec n m A w V -> (1 <= k <= m)%nat -> eig_oracle m w V (Z.of_nat k) wh = Some o ->
    EigPairs n A o /\ ek o = k /\
    (forall i, (i < m)%nat -> (forall j, (j < k)%nat -> ew o j <> w i) -> forall j, (j < k)%nat ->
       match wh with LM => mag_le (w i) (ew o j) | SM => mag_le (ew o j) (w i) end).

(* get_slice: positions selected from an array of length n *)
Theorem C10_slice_LM : forall k n, (1 <= k)%nat -> (k <= n)%nat -> sel (Z.of_nat k) LM n = Some (seq (n - k) k).
Proof. exact sel_LM. Qed.
Print Assumptions C10_slice_LM.
Theorem C10_slice_SM : forall k n, (k <= n)%nat -> sel (Z.of_nat k) SM n = Some (seq 0 k).
Proof. exact sel_SM. Qed.
Print Assumptions C10_slice_SM.

(* eig_pairs: every dense / Krylov rule = oracle, then slice; given the oracle's specification (A V = V diag w, no zero
   column) every returned (lambda, v) satisfies A v = lambda v with v <> 0 *)
Theorem C10_eig_pairs : forall (R : Type) (RR : Ring R) (FF : Field R) n m (A : fm (R:=R)) w V k wh o,
  EigSpec n m A w V -> eig_oracle m w V k wh = Some o -> EigPairs n A o.
Proof. intros R RR FF. exact (eig_oracle_pairs (R:=R)). Qed.
Print Assumptions C10_eig_pairs.
(* the specification of eigh / eig (A V = V diag w with V invertible, in particular unitary) implies the one used above *)
Theorem C10_oracle_spec_dense : forall (R : Type) (RR : Ring R) (FF : Field R) n (A : fm (R:=R)) w V,
  invertible n V -> feq n n (mmul n A V) (mmul n V (dg w)) -> EigSpec n n A w V.
Proof. intros R RR FF. exact (EigSpec_of_invertible (R:=R)). Qed.
Print Assumptions C10_oracle_spec_dense.
(* the vectors returned by the dense rules are linearly independent *)
Theorem C10_eig_independent : forall (R : Type) (RR : Ring R) (FF : Field R) n (V : fm (R:=R)) (idx : list nat) (c : nat -> R),
  invertible n V -> NoDup idx -> (forall x, In x idx -> (x < n)%nat) ->
  (forall i, (i < n)%nat -> sum (length idx) (fun j => rmul (V i (nth j idx 0%nat)) (c j)) = r0) -> forall j, (j < length idx)%nat -> c j = r0.
Proof. intros R RR FF. exact (eig_dense_independent (R:=R)). Qed.
Print Assumptions C10_eig_independent.

(* self-adjoint A: eigh's V has orthonormal columns (V^H V = I), and so have the returned (sliced) vectors *)
Theorem C10_eig_orthonormal : forall (R : Type) (RR : Ring R) (CR : CRing R) (FF : Field R) n r (V : fm (R:=R)) idx,
  orthocols n r V -> NoDup idx -> (forall x, In x idx -> (x < r)%nat) -> orthocols n (length idx) (fun i j => V i (nth j idx 0%nat)).
Proof. intros R RR CR FF. exact (orthocols_take (R:=R)). Qed.
Print Assumptions C10_eig_orthonormal.

(* selection: with the sliced spectrum ascending for a preorder le, 'LM' returns the k largest, 'SM' the k smallest for le.
   For eigh le is the ALGEBRAIC order; the property asks for magnitude: see C10_eigh_LM_refuted *)
Theorem C10_select_LM : forall (R : Type) (RR : Ring R) (FF : Field R) (le : R -> R -> Prop) m (w : nat -> R) V k o,
  ascending le m w -> (1 <= k)%nat -> (k <= m)%nat -> slice_out (Z.of_nat k) LM (mkeout m w V) = Some o ->
  ek o = k /\ (forall j, (j < k)%nat -> ew o j = w (m - k + j)%nat) /\ forall i j, (i < m - k)%nat -> (j < k)%nat -> le (w i) (ew o j).
Proof. intros R RR FF. exact (select_LM (R:=R)). Qed.
Print Assumptions C10_select_LM.
Theorem C10_select_SM : forall (R : Type) (RR : Ring R) (FF : Field R) (le : R -> R -> Prop) m (w : nat -> R) V k o,
  ascending le m w -> (1 <= k)%nat -> (k <= m)%nat -> slice_out (Z.of_nat k) SM (mkeout m w V) = Some o ->
  ek o = k /\ (forall j, (j < k)%nat -> ew o j = w j) /\ forall i j, (k <= i)%nat -> (i < m)%nat -> (j < k)%nat -> le (ew o j) (w i).
Proof. intros R RR FF. exact (select_SM (R:=R)). Qed.
Print Assumptions C10_select_SM.
(* asking for all n pairs reproduces the oracle's whole spectrum and all its vectors *)
Theorem C10_eig_all : forall (R : Type) (RR : Ring R) (FF : Field R) m (w : nat -> R) V wh o,
  (1 <= m)%nat -> slice_out (Z.of_nat m) wh (mkeout m w V) = Some o ->
  ek o = m /\ (forall j, (j < m)%nat -> ew o j = w j) /\ (forall i j, (j < m)%nat -> eV o i j = V i j).
Proof. intros R RR FF. exact (eig_all (R:=R)). Qed.
Print Assumptions C10_eig_all.
(* eigmax / eigmin are the last / first entry of the sliced spectrum *)
Theorem C10_eigmax : forall (R : Type) (RR : Ring R) (FF : Field R) m (w : nat -> R) V,
  (1 <= m)%nat -> first_val (slice_out 1 LM (mkeout m w V)) = Some (w (m - 1)%nat).
Proof. intros R RR FF. exact (eigmax_last (R:=R)). Qed.
Print Assumptions C10_eigmax.
Theorem C10_eigmin : forall (R : Type) (RR : Ring R) (FF : Field R) m (w : nat -> R) V,
  (1 <= m)%nat -> first_val (slice_out 1 SM (mkeout m w V)) = Some (w 0%nat).
Proof. intros R RR FF. exact (eigmin_first (R:=R)). Qed.
Print Assumptions C10_eigmin.

(* structural rules *)
Theorem C10_eig_identity : forall (R : Type) (RR : Ring R) (FF : Field R) n k wh o,
  eig_ident (R:=R) n k wh = Some o -> EigPairs n eye o.
Proof. intros R RR FF. exact (eig_ident_pairs (R:=R)). Qed.
Print Assumptions C10_eig_identity.
Theorem C10_eig_diagonal : forall (R : Type) (RR : Ring R) (FF : Field R) leb n (d : nat -> R) k wh o,
  eig_diag leb n d k wh = Some o -> EigPairs n (dg d) o.
Proof. intros R RR FF. exact (eig_diag_pairs (R:=R)). Qed.
Print Assumptions C10_eig_diagonal.
(* ... and it selects by the order argsort uses (by value in the pinned code) *)
Theorem C10_eig_diagonal_selects : forall (R : Type) (RR : Ring R) (FF : Field R) leb n (d : nat -> R) k o,
  (forall a b, leb a b = true \/ leb b a = true) -> (forall a b c, leb a b = true -> leb b c = true -> leb a c = true) ->
  (1 <= k)%nat -> (k <= n)%nat -> eig_diag leb n d (Z.of_nat k) LM = Some o ->
  let idx := argsort leb n d in
  Permutation idx (seq 0 n) /\ ek o = k /\ (forall j, (j < k)%nat -> ew o j = d (nth (n - k + j) idx 0%nat)) /\
  forall i j, (i < n - k)%nat -> (j < k)%nat -> leb (d (nth i idx 0%nat)) (ew o j) = true.
Proof. intros R RR FF. exact (eig_diag_selects_LM (R:=R)). Qed.
Print Assumptions C10_eig_diagonal_selects.
(* Triangular rule = compute_lower_triangular_eigvecs (back-substitution), argsort, slice: on an UPPER triangular matrix
   with distinct diagonal entries the returned columns are eigenvectors (non-zero: unit diagonal) *)
Theorem C10_eig_triangular : forall (R : Type) (RR : Ring R) (FF : Field R) leb n (U : fm (R:=R)) k wh o,
  upper n U -> (forall a b, (a < b)%nat -> (b < n)%nat -> U a a <> U b b) ->
  eig_tri leb usolve (fun x => x) n U k wh = Some o -> EigPairs n U o.
Proof. intros R RR FF. exact (eig_tri_pairs (R:=R)). Qed.
Print Assumptions C10_eig_triangular.
(* the same for any linear solver meeting its specification on the systems the rule builds (np.linalg.solve as an oracle) *)
Theorem C10_eig_triangular_oracle : forall (R : Type) (RR : Ring R) (FF : Field R) leb solve n (U : fm (R:=R)) k wh o,
  upper n U -> SolveSpec solve n U -> eig_tri leb solve (fun x => x) n U k wh = Some o -> EigPairs n U o.
Proof. intros R RR FF. exact (eig_tri_pairs_oracle (R:=R)). Qed.
Print Assumptions C10_eig_triangular_oracle.
Theorem C10_back_substitution : forall (R : Type) (RR : Ring R) (FF : Field R) k (A : fm (R:=R)) b,
  (forall r c, (c < r)%nat -> (r < k)%nat -> A r c = r0) -> (forall r, (r < k)%nat -> A r r <> r0) ->
  forall r, (r < k)%nat -> sum k (fun c => rmul (A r c) (usolve k A b c)) = b r.
Proof. intros R RR FF. exact (usolve_spec (R:=R)). Qed.
Print Assumptions C10_back_substitution.

(* power iteration: stopping contract (for every interpretation of the scalar operations, floats included) *)
Theorem C10_power_stopping : forall (T : Type) (o : pops T) (fl : pflags) A tol max_iter ten one v0,
  let s := power_iteration o fl A tol max_iter ten one v0 in
  (pit s <= max_iter)%nat /\ (pit s = max_iter \/ pgtb o (perr o fl s) tol = false).
Proof. exact @power_stopping. Qed.
Print Assumptions C10_power_stopping.
(* ... and a fixed point of the normalised step is an eigenvector; for a unit vector the value returned is its eigenvalue
   (partial: convergence to the dominant pair is a limit statement and is not proved) *)
Theorem C10_power_fixed_point_partial : forall (R : Type) (RR : Ring R) (FF : Field R) (fabs fsqrt : R -> R) (fgtb : R -> R -> bool) (fconj : R -> R)
  (fl : pflags) (A : list (list R)) (v vp : list R) (i : nat) (e ep : R),
  let o := fo fabs fsqrt fgtb fconj in let s := mkps i v vp e ep in
  pnorm o (pmv o A v) <> r0 -> pv (pbody o fl A s) = v -> prq o fl v v = r1 ->
  pmv o A v = map (fun x => rmul (peig (pbody o fl A s)) x) v.
Proof. intros R RR FF. exact (power_fixed_point_unit (R:=R)). Qed.
Print Assumptions C10_power_fixed_point_partial.

(* ---- refutation witnesses: the faithful model of the pinned code violates the magnitude / eigenpair clauses ---- *)
Theorem C10_eigh_LM_refuted :
  exists o, eig_oracle 3 (vecl w_eigh) eye 1 LM = Some o /\ ek o = 1%nat /\ ew o 0%nat = qz 2 /\
            qle (mag2 (ew o 0%nat)) (mag2 (vecl w_eigh 0%nat)) = true /\ mag2 (ew o 0%nat) <> mag2 (vecl w_eigh 0%nat).
Proof. exact eigh_LM_refuted. Qed.
Print Assumptions C10_eigh_LM_refuted.
Theorem C10_eig_dense_unsorted_refuted :
  feqb 2 2 (mmul 2 (matl A_eig) (matl V_eig)) (mmul 2 (matl V_eig) (dg (vecl w_eig))) = true /\
  exists o, eig_oracle 2 (vecl w_eig) (matl V_eig) 1 LM = Some o /\ ew o 0%nat = qz 1 /\
            qle (mag2 (ew o 0%nat)) (mag2 (vecl w_eig 0%nat)) = true /\ mag2 (ew o 0%nat) <> mag2 (vecl w_eig 0%nat).
Proof. exact eig_dense_unsorted_refuted. Qed.
Print Assumptions C10_eig_dense_unsorted_refuted.
Theorem C10_eig_diag_by_value_refuted :
  exists o, eig_diag qi_leb 3 (vecl w_eigh) 1 LM = Some o /\ qi_eqb (ew o 0%nat) (qz 2) = true /\
            qle (mag2 (ew o 0%nat)) (mag2 (vecl w_eigh 0%nat)) = true /\ qle (mag2 (vecl w_eigh 0%nat)) (mag2 (ew o 0%nat)) = false.
Proof. exact eig_diag_by_value_refuted. Qed.
Print Assumptions C10_eig_diag_by_value_refuted.
Theorem C10_eig_tri_lower_refuted :
  exists o, eig_tri qi_leb usolve (fun x => x) 2 (matl L_tri) 2 LM = Some o /\ ~ EigPairs 2 (matl L_tri) o.
Proof. exact eig_tri_lower_refuted. Qed.
Print Assumptions C10_eig_tri_lower_refuted.
Theorem C10_eig_tri_complex_refuted :
  exists o, eig_tri qi_leb usolve (fun x => (fst x, 0%Qc)) 2 (matl U_cplx) 2 LM = Some o /\ ~ EigPairs 2 (matl U_cplx) o.
Proof. exact eig_tri_complex_refuted. Qed.
Print Assumptions C10_eig_tri_complex_refuted.
Theorem C10_power_negative_refuted : forall fsqrt : qi -> qi,
  let s := power_iteration (fo qabs fsqrt qgtb qiconj) pinned_flags A_pow (qc 1 1000000, 0%Qc) 100 (qz 10) (qz 1) [qz 2; qz 1; qz 1] in
  pit s = 1%nat /\ qi_eqb (peig s) (qz (-17)) = true.
Proof. exact power_negative_refuted. Qed.
Print Assumptions C10_power_negative_refuted.

(* ---- the repaired rules (flags fixed): sort the oracle's pairs by magnitude, then slice ---- *)
Theorem C10_eig_sorted_pairs : forall (R : Type) (RR : Ring R) (FF : Field R) leb n m (A : fm (R:=R)) w V k wh o,
  EigSpec n m A w V -> eig_sorted leb m w V k wh = Some o -> EigPairs n A o.
Proof. intros R RR FF. exact (eig_sorted_pairs (R:=R)). Qed.
Print Assumptions C10_eig_sorted_pairs.
(* with leb the comparison of magnitudes: 'LM' returns the k eigenvalues of largest magnitude, 'SM' the k of smallest *)
Theorem C10_eig_sorted_selects_LM : forall (R : Type) (RR : Ring R) (FF : Field R) leb m (w : nat -> R) (V : fm (R:=R)) k o,
  (forall a b, leb a b = true \/ leb b a = true) -> (forall a b c, leb a b = true -> leb b c = true -> leb a c = true) ->
  (1 <= k)%nat -> (k <= m)%nat -> eig_sorted leb m w V (Z.of_nat k) LM = Some o ->
  let idx := argsort leb m w in
  Permutation idx (seq 0 m) /\ ek o = k /\ (forall j, (j < k)%nat -> ew o j = w (nth (m - k + j) idx 0%nat)) /\
  forall i j, (i < m - k)%nat -> (j < k)%nat -> leb (w (nth i idx 0%nat)) (ew o j) = true.
Proof. intros R RR FF. exact (eig_sorted_selects_LM (R:=R)). Qed.
Print Assumptions C10_eig_sorted_selects_LM.
Theorem C10_eig_sorted_selects_SM : forall (R : Type) (RR : Ring R) (FF : Field R) leb m (w : nat -> R) (V : fm (R:=R)) k o,
  (forall a b, leb a b = true \/ leb b a = true) -> (forall a b c, leb a b = true -> leb b c = true -> leb a c = true) ->
  (1 <= k)%nat -> (k <= m)%nat -> eig_sorted leb m w V (Z.of_nat k) SM = Some o ->
  let idx := argsort leb m w in
  Permutation idx (seq 0 m) /\ ek o = k /\ (forall j, (j < k)%nat -> ew o j = w (nth j idx 0%nat)) /\
  forall i j, (k <= i)%nat -> (i < m)%nat -> (j < k)%nat -> leb (ew o j) (w (nth i idx 0%nat)) = true.
Proof. intros R RR FF. exact (eig_sorted_selects_SM (R:=R)). Qed.
Print Assumptions C10_eig_sorted_selects_SM.
(* repaired rule for LOWER triangular operators (routine applied to the reversed matrix): eigenpairs *)
Theorem C10_eig_triangular_lower : forall (R : Type) (RR : Ring R) (FF : Field R) leb n (L : fm (R:=R)) k wh o,
  lower n L -> (forall a b, (a < b)%nat -> (b < n)%nat -> L a a <> L b b) ->
  eig_tri_lower leb usolve (fun x => x) n L k wh = Some o -> EigPairs n L o.
Proof. intros R RR FF. exact (eig_tri_lower_pairs (R:=R)). Qed.
Print Assumptions C10_eig_triangular_lower.
(* on the refutation witnesses the repaired rules return the right answers *)
Theorem C10_sorted_by_magnitude_repaired :
  (exists o, eig_sorted qi_mag_leb 3 (vecl w_eigh) eye 1 LM = Some o /\ qi_eqb (ew o 0%nat) (qz (-5)) = true) /\
  (exists o, eig_sorted qi_mag_leb 2 (vecl w_eig) (matl V_eig) 1 LM = Some o /\ qi_eqb (ew o 0%nat) (qz 5) = true) /\
  (exists o, eig_diag qi_mag_leb 3 (vecl w_eigh) 1 LM = Some o /\ qi_eqb (ew o 0%nat) (qz (-5)) = true).
Proof. exact sorted_by_magnitude_repaired. Qed.
Print Assumptions C10_sorted_by_magnitude_repaired.
Theorem C10_eig_tri_lower_repaired :
  exists o, eig_tri_lower qi_mag_leb usolve (fun x => x) 2 (matl L_tri) 2 LM = Some o /\
            feqb 2 2 (mmul 2 (matl L_tri) (eV o)) (fun i j => qimul (ew o j) (eV o i j)) = true.
Proof. exact eig_tri_lower_repaired. Qed.
Print Assumptions C10_eig_tri_lower_repaired.
Theorem C10_power_negative_repaired : forall fsqrt : qi -> qi,
  let o := fo qabs fsqrt qgtb qiconj in
  let s1 := pbody o fixed_flags A_pow (mkps 0 [qz 2; qz 1; qz 1] [qz 2; qz 1; qz 1] (qz 10) (qz 1)) in
  qi_eqb (peig s1) (qz (-17)) = true /\ pgtb o (perr o fixed_flags s1) (qc 1 1000000, 0%Qc) = true.
Proof. exact power_negative_repaired. Qed.
Print Assumptions C10_power_negative_repaired.
Example C10_magnitude_order_total : forall a b, qi_mag_leb a b = true \/ qi_mag_leb b a = true.
Proof. exact qi_mag_leb_total. Qed.
Print Assumptions C10_magnitude_order_total.
Example C10_magnitude_order_trans : forall a b c, qi_mag_leb a b = true -> qi_mag_leb b c = true -> qi_mag_leb a c = true.
Proof. exact qi_mag_leb_trans. Qed.
Print Assumptions C10_magnitude_order_trans.

(* hypotheses are satisfiable *)
Example C10_example_triangular : exists o, eig_tri qi_leb usolve (fun x => x) 3 (matl U_ex) 2 LM = Some o /\ ek o = 2%nat /\
  feqb 3 2 (mmul 3 (matl U_ex) (eV o)) (fun i j => qimul (ew o j) (eV o i j)) = true.
Proof. exact eig_tri_example. Qed.
Print Assumptions C10_example_triangular.
Example C10_example_oracle_spec : EigSpec 3 3 (dg (vecl w_eigh)) (vecl w_eigh) eye.
Proof. exact eigh_witness_spec. Qed.
Print Assumptions C10_example_oracle_spec.
