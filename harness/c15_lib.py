"""C15 helpers: case generator, implementation runner, Coq term rendering, independent numpy oracle for Arnoldi.
The oracle uses plain numpy on dense matrices only; it shares no code with cola nor with the Coq model."""
import math
import numpy as np
import shim  # noqa: F401
import cola
from cola import ops
from c14_lib import hexf, coq_c, coq_vec, coq_mat, enc, dec, rand_unitary, herm  # rendering / encoding helpers

KINDS = ["dense", "dense", "dense", "sum", "prod", "scaled", "kron", "diag", "diag", "matmat", "normal", "normal", "blocktri", "blocktri", "blocktri", "blocktri"]
TOLS = [1e-7, 1e-7, 1e-7, 1e-6, 1e-6, 1e-3, 1e-10, 0.3, 1e-12, 0.0]


def rnd(g, shape, cplx):
    return g.normal(size=shape) + (1j * g.normal(size=shape) if cplx else 0)


def gen_case(pyrng, present, nmax=12, force=None):
    g = np.random.default_rng(pyrng.getrandbits(64))
    force = force or {}
    cplx = bool(g.random() < 0.4)
    kind = force.get("kind") or str(g.choice(KINDS))
    n = int(force.get("n") or g.integers(1, nmax + 1))
    c = dict(kind=kind, cplx=cplx)
    inv_basis = None        # orthonormal columns whose leading r span an invariant subspace, for breakdown starts
    if kind == "kron":
        n1 = int(g.integers(1, 4)); n2 = int(g.integers(1, max(2, nmax // n1 + 1)))
        M1, M2 = rnd(g, (n1, n1), cplx), rnd(g, (n2, n2), cplx)
        c["parts"] = [enc(M1), enc(M2)]
        n = n1 * n2
    elif kind == "diag":
        d = rnd(g, (n,), cplx) + 2.0
        c["parts"] = [enc(d)]
        inv_basis = np.eye(n)
    elif kind == "prod":
        c["parts"] = [enc(rnd(g, (n, n), cplx)), enc(rnd(g, (n, n), cplx))]
    elif kind == "sum":
        c["parts"] = [enc(rnd(g, (n, n), cplx)), enc(rnd(g, (n, n), cplx))]
    elif kind == "scaled":
        c["parts"] = [enc(rnd(g, (n, n), cplx)), float(g.choice([-2.0, 0.5, 3.0]))]
    elif kind == "normal":
        sub = str(g.choice(["symmetric", "unitary", "skew"]))
        if sub == "symmetric":
            M = herm(rnd(g, (n, n), cplx))
            lam, Ue = np.linalg.eigh(M)
            inv_basis = Ue[:, g.choice(n, size=int(g.integers(1, n + 1)), replace=False)]
        elif sub == "unitary":
            M = rand_unitary(g, n, cplx)
        else:
            X = rnd(g, (n, n), cplx); M = (X - X.conj().T) / 2
        c["parts"] = [enc(M)]
        c["kind"] = "dense"; c["normal"] = sub
        if sub == "symmetric" and g.random() < 0.6:
            c["annot"] = "SelfAdjoint"        # declared annotation: the factorisation must not depend on it
    elif kind == "blocktri":
        # U [[B, X], [0, D]] U^H : the first r columns of U span an invariant subspace (non-normal in general)
        r = int(g.integers(1, max(2, n)))
        U = rand_unitary(g, n, cplx)
        Tm = rnd(g, (n, n), cplx)
        Tm[r:, :r] = 0
        M = U @ Tm @ U.conj().T
        c["parts"] = [enc(M)]
        c["kind"] = "dense"; c["blocktri"] = r
        inv_basis = U[:, :r]
    else:
        c["parts"] = [enc(rnd(g, (n, n), cplx) + (2.0 * np.eye(n) if g.random() < 0.5 else 0))]
    c["n"] = n
    S = dense_of(c)
    batch = 0 if g.random() < 0.7 else int(g.integers(1, 4))
    nb = max(batch, 1)
    r0 = g.random()
    if inv_basis is not None and r0 < 0.6:
        start = "invariant"
    elif r0 < 0.9 or inv_basis is None:
        start = "random"
    else:
        start = "scaled"
    start = force.get("start", start)
    vs, grades = [], []
    for b in range(nb):
        if start == "invariant":
            rr = inv_basis.shape[1]
            if c["kind"] == "diag":
                k = int(g.integers(1, min(n, 3) + 1)) if b == 0 or "arnoldi_batch_shared_stop" not in present else grades[0]
                idx = g.choice(n, size=k, replace=False)
                v = np.zeros(n, dtype=complex); v[idx] = g.uniform(0.5, 2.0, k) * g.choice([-1, 1], k)
                if k == 1:
                    v[idx] = float(g.choice([1.0, -2.0, 0.5]))      # exactly representable unit vector after normalisation
                grades.append(k)
            else:
                v = inv_basis @ rnd(g, (rr,), cplx)
                grades.append(rr)
        else:
            v = rnd(g, (n,), cplx)
            if start == "scaled":
                v = v * float(g.choice([1e3, 1e-3, 7.0, 1e-30, 1e-20, 1e-12, 1e-11, 1e-9, 1e-6, 1e6, 1e12, 1e20, 1e30]))      # start-vector norms from 1e-30 to 1e30
            grades.append(n)
        vs.append(v if cplx else np.real(v))
    c["start"] = start
    c["batch"] = batch
    c["grades"] = grades       # dimension of the Krylov space by construction (generic position assumed)
    sc = max(np.abs(S).max(), 1e-300)
    c["lam_ratio"] = min([1.0] + [float(np.linalg.norm(S @ v) / (np.linalg.norm(v) * sc)) for v, gr in zip(vs, grades) if gr <= 1])
    c["v"] = enc(np.stack(vs, 0))
    mi_choices = [1, 2, max(1, n - 1), n, n + 1, n + 3, int(g.integers(1, n + 4)), int(g.integers(1, n + 4))]
    c["max_iters"] = int(force.get("max_iters") or g.choice(mi_choices))
    c["tol"] = float(force.get("tol", g.choice(TOLS)))
    c["entry"] = str(g.choice(["arnoldi", "arnoldi", "Arnoldi()", "arnoldi_eigs"])) if batch == 0 else "arnoldi"
    return c


def gen_mixed_batch(pyrng, nmax=10):
    """a batch of start vectors for one operator in which exactly one element lies in a low-dimensional invariant subspace
    (breakdown) and the others are generic, in either order, with max_iters below n: the factorisation of an element must not
    depend on the rest of the batch"""
    g = np.random.default_rng(pyrng.getrandbits(64))
    cplx = bool(g.random() < 0.4)
    n = int(g.integers(5, max(6, nmax + 1)))
    r = int(g.integers(2, n - 2))
    U = rand_unitary(g, n, cplx)
    c = dict(kind="dense", cplx=cplx)
    if g.random() < 0.6:
        Tm = rnd(g, (n, n), cplx) + 2.0 * np.eye(n)
        Tm[r:, :r] = 0
        M = U @ Tm @ U.conj().T
        c["blocktri"] = r
    else:
        lam = np.sort(g.uniform(0.5, 1.0, n)) + np.arange(n)
        M = herm((U * lam) @ U.conj().T)
        c["normal"] = "symmetric"
    if not cplx:
        M = M.real
    nb = int(g.integers(2, 4))
    pos = int(g.integers(0, nb))
    vs, grades = [], []
    for b in range(nb):
        if b == pos:
            v = U[:, :r] @ rnd(g, (r,), cplx) if "blocktri" in c else U[:, g.choice(n, size=r, replace=False)] @ (g.uniform(0.5, 2.0, r) * g.choice([-1, 1], r))
            grades.append(r)
        else:
            v = rnd(g, (n,), cplx); grades.append(n)
        vs.append(v if cplx else np.real(v))
    c.update(parts=[enc(M)], n=n, start="mixed", batch=nb, grades=grades, v=enc(np.stack(vs, 0)),
             max_iters=int(g.integers(r + 1, n)), tol=float(g.choice([1e-7, 1e-6, 1e-3])), entry="arnoldi")
    return c


def default_probe(n, key=None):
    """the start vector lanczos / arnoldi draw when none is given, reproduced independently of cola: randn(n, key=PRNGKey(42)) or
    randn(n, key=key); the numpy backend's PRNGKey(x) is int(sha256(big-endian bytes of x)) mod (2^32 - 1) and randn(key) is
    numpy's legacy generator seeded with the key (cast to the operator's dtype: real values also for complex operators)"""
    import hashlib
    if key is None:
        x = 42
        key = int.from_bytes(hashlib.sha256(x.to_bytes((x.bit_length() + 7) // 8, "big")).digest(), "big") % (2 ** 32 - 1)
    return np.random.RandomState(int(key)).randn(n)


def gen_nostart(pyrng, present, nmax=10):
    """calls WITHOUT a start vector (default random probe; key given or not) on every operator kind: the factorisation must be that
    of the default probe, which the harness reproduces independently (default_probe)"""
    g = np.random.default_rng(pyrng.getrandbits(64))
    while True:
        c = gen_case(pyrng, present, nmax=nmax, force=dict(start="random"))
        if c["batch"] == 0 and not in_avoided_region(c, present):
            break
    c["key"] = None if g.random() < 0.5 else int(g.integers(1, 2 ** 31))
    v = default_probe(c["n"], c["key"])
    c["v"] = enc((v + 0j)[None, :])
    c["entry"] = "arnoldi_nostart"
    c["start"] = "default_probe"
    return c


def gen_graded(pyrng):
    """badly scaled (graded) operators A = D^-1 M D, D = diag(1 .. 10^k), k = 2..5, M well conditioned: huge upper triangle, tiny lower
    triangle and sub-diagonal of H, spectrum that of M.  arnoldi_eigs with max_iters >= n from e_1 or a random vector."""
    g = np.random.default_rng(pyrng.getrandbits(64))
    n = int(g.integers(3, 9)); k = float(g.integers(2, 6))     # beyond 1e5 eig(H) itself (H is not graded any more) is only good to ~1e-4
    M = g.standard_normal((n, n)) + 2.0 * np.eye(n)
    D = np.logspace(0, k, n)
    A = (M * D[None, :]) / D[:, None]
    v = np.eye(n)[0] if g.random() < 0.6 else g.standard_normal(n)
    return dict(kind="dense", cplx=False, parts=[enc(A)], n=n, start="graded", batch=0, grades=[n], v=enc((v + 0j)[None, :]), grading=k,
                max_iters=int(g.choice([n, n, n + 2])), tol=float(g.choice([1e-7, 1e-7, 1e-6, 1e-4, 1e-10])), entry="arnoldi_eigs", family="graded")


def oracle_graded(c, obs):
    """arnoldi_eigs on graded operators: its values are eig of the square H of arnoldi() with the same arguments, and, when the run took
    its n steps, the spectrum of A (matched one to one, relative to the largest eigenvalue)"""
    if not obs.get("ok"):
        return ["raised " + obs.get("err", "")]
    bad = []
    S = np.asarray(dense_of(c), dtype=float); n = c["n"]
    w = dec(obs["eigs"]); H = dec(obs["H"][0]).T
    ref = np.linalg.eigvals(H[:-1])
    lam = np.linalg.eigvals(S); top = np.abs(lam).max()
    cond = np.linalg.cond(np.linalg.eig(S)[1])       # eigenvalues of a graded matrix are only determined to eps * cond(eigenvectors)
    slack = max(1e-8, 1e-11 * cond)
    if len(w) != len(ref) or (cond < 1e9 and hausdorff(w, ref) > slack * top):
        bad.append(f"arnoldi_eigs values are not eig of the square H of arnoldi() for the same arguments (distance {hausdorff(w, ref) / top:.3g} of the largest eigenvalue)")
    sd = np.abs(np.diag(H, -1))
    v = dec(c["v"])[0].real
    aq0 = np.linalg.norm(S @ v) / np.linalg.norm(v)
    # (only when no remainder came near the tolerance: tol*||A q_0|| is what the caller declared negligible)
    if H.shape[1] == n and np.all(sd[:n - 1] > 10.0 * c["tol"] * aq0) and len(w) == n:
        rest, err = list(w), 0.0
        for r in lam:
            j = int(np.argmin([abs(e - r) for e in rest])); err = max(err, abs(rest.pop(j) - r))
        # eigenvalues of the dense reference itself are only determined to eps*cond(eigenvectors)
        if cond < 1e9 and err > slack * top:
            bad.append(f"arnoldi_eigs with max_iters >= n does not return the spectrum of the graded operator (error {err / top:.3g} of the largest eigenvalue)")
    return bad


def gen_mixed_dtype(pyrng, nmax=10):
    """the start vector's dtype is wider than the operator's: a complex start vector on a real operator, or a float64 start vector
    on a float32 operator (entries exactly representable in float32, so binary64 arithmetic on them is what NumPy does after
    promotion).  The factorisation must be that of the start vector given (first column v/||v||), in the promoted dtype."""
    g = np.random.default_rng(pyrng.getrandbits(64))
    while True:
        c = gen_case(pyrng, frozenset(), nmax=nmax, force=dict(kind="dense", start="random", n=int(g.integers(2, nmax + 1))))
        if not c["cplx"]:
            break
    V = dec(c["v"])
    if g.random() < 0.6:
        V = V.real + 1j * g.normal(size=V.shape)
        c.update(cplx=True, op_cplx=False, mixed="complex start / real operator")
    else:
        M = dec(c["parts"][0]).real.astype(np.float32).astype(np.float64)
        c["parts"] = [enc(M)]
        c.update(op_f32=True, mixed="float64 start / float32 operator")
    V = V * float(g.choice([1.0, 1.0, 1e-15, 1e-12, 1e-6, 1e6, 1e15]))
    c["v"] = enc(V)
    c["tol"] = float(g.choice([1e-7, 1e-6, 1e-3]))
    c["entry"] = str(g.choice(["arnoldi", "Arnoldi()"])) if c["batch"] == 0 else "arnoldi"
    return c


def gen_small_scale(pyrng, nmax=10):
    """operators of small overall scale (1e-4 .. 1e-9) with the usual tolerances: every remainder norm is far below the ABSOLUTE
    tol/2 although the Krylov space is not exhausted (region of flag arnoldi_absolute_clip)"""
    g = np.random.default_rng(pyrng.getrandbits(64))
    c = gen_case(pyrng, frozenset(), nmax=nmax, force=dict(kind="dense", start="random", n=int(g.integers(2, nmax + 1))))
    sc = float(g.choice([1e-4, 1e-6, 1e-6, 1e-8, 1e-9]))
    c["parts"] = [enc(sc * dec(c["parts"][0]))]
    c["opscale"] = sc
    c["tol"] = float(g.choice([1e-7, 1e-6, 1e-6, 1e-3]))
    c["max_iters"] = int(g.choice([2, c["n"] - 1 if c["n"] > 2 else 2, c["n"], c["n"] + 2]))
    return c


# ----------------------------------------------------------------------------------------------- exact-arithmetic stream
def _pow2(g):
    return float(g.choice([1.0, -1.0, 2.0, -0.5, 4.0, 2.0 ** -40, -2.0 ** 40, 2.0 ** -100, 2.0 ** 100]))


def gen_exact_case(pyrng):
    """inputs on which every quantity of the run up to the breakdown is exactly representable in binary64 (small integers / dyadic
    numbers, canonical or +-1/2-pattern start vectors, permutations, triangular operators, coordinate invariant subspaces, 1x1), so
    that remainders are EXACTLY 0.0 at the breakdown and comparisons sit exactly on their boundaries: tol = 0, norm == tol/2,
    norm == tol*reference, max_iters in {1, grade, grade+1, n-1, n, n+1, n+3}, n = 1"""
    g = np.random.default_rng(pyrng.getrandbits(64))
    fam = str(g.choice(["identity", "scalarmul", "diag_e", "diag4", "perm", "permdense", "triu", "blocktriu", "one", "one"]))
    cplx = False
    n = int(g.integers(2, 9))
    c = dict(start="exact", family=fam)
    first_norm, ref, grade = None, None, None      # exact remainder norm of step 1, exact ||A q_0||, steps to breakdown
    if fam in ("identity", "scalarmul"):
        n = int(g.choice([1, 2, 4, 5, 8]))
        k4 = 4 if (n >= 4 and g.random() < 0.5) else 1
        v = np.zeros(n); idx = g.choice(n, size=k4, replace=False); v[idx] = g.choice([-1.0, 1.0], k4) * abs(_pow2(g))
        if fam == "identity":
            c.update(kind="identity", parts=[])
        else:
            cplx = bool(g.random() < 0.4)
            z = complex(float(g.choice([2, -3, 0.5, 4])), float(g.choice([0, 1, -2])) if cplx else 0.0)
            c.update(kind="scalarmul", parts=[[z.real, z.imag]])
        first_norm, grade = 0.0, 1
    elif fam == "diag_e":
        d = g.integers(-4, 5, n).astype(float)
        v = np.zeros(n); v[int(g.integers(0, n))] = _pow2(g)
        c.update(kind="diag", parts=[enc(d)]); first_norm, grade = 0.0, 1
    elif fam == "diag4":
        n = int(g.integers(4, 9))
        m_, a_ = float(g.choice([0, 1, 3, -2])), float(g.choice([1, 2, 4]))
        d = g.integers(-4, 5, n).astype(float)
        idx = g.choice(n, size=4, replace=False)
        d[idx] = [m_ + a_, m_ - a_, m_ + a_, m_ - a_]
        v = np.zeros(n); v[idx] = abs(_pow2(g))
        c.update(kind="diag", parts=[enc(d)]); first_norm, ref, grade = a_, float(np.hypot(m_, a_)), 2
    elif fam in ("perm", "permdense"):
        perm = g.permutation(n)
        # length of the cycle through the start coordinate, for P[i, j] = [j == perm[i]]
        j0 = int(g.integers(0, n)); L = 1; inv = np.argsort(perm); j = int(inv[j0])
        while j != j0:
            L += 1; j = int(inv[j])
        v = np.zeros(n); v[j0] = _pow2(g)
        if fam == "perm":
            c.update(kind="perm", parts=[[int(x) for x in perm]]); sc = 1.0
        else:
            sc = float(g.choice([1.0, 2.0, -0.5])); c.update(kind="dense", parts=[enc(sc * np.eye(n)[perm])])
        grade = L
        first_norm, ref = (0.0, abs(sc)) if L == 1 else (abs(sc), abs(sc))
    elif fam == "triu":
        cplx = bool(g.random() < 0.4)
        T = np.triu(g.integers(-3, 4, (n, n))).astype(complex)
        if cplx:
            T = T + 1j * np.triu(g.integers(-2, 3, (n, n)))
        v = np.zeros(n, dtype=complex); v[0] = _pow2(g) * (1j if cplx and g.random() < 0.3 else 1.0)
        c.update(kind="dense", parts=[enc(T)]); first_norm, grade = 0.0, 1
    elif fam == "blocktriu":
        n = int(g.integers(3, 9)); r = int(g.integers(2, min(n, 4) + 0))
        r = min(r, n - 1)
        T = g.integers(-3, 4, (n, n)).astype(float)
        T[r:, :r] = 0
        cyc = np.roll(np.arange(r), 1)                    # an r-cycle on the leading coordinates
        T[:r, :r] = float(g.choice([1.0, 2.0])) * np.eye(r)[cyc]
        v = np.zeros(n); v[0] = _pow2(g)
        c.update(kind="dense", parts=[enc(T)]); grade = r
        first_norm = ref = float(np.abs(T[:r, :r]).max())
    else:   # 1x1
        n = 1; cplx = bool(g.random() < 0.5)
        a = complex(float(g.integers(-3, 4)), float(g.integers(-3, 4)) if cplx else 0.0)
        v = np.array([_pow2(g) * (1j if cplx and g.random() < 0.3 else 1.0)])
        c.update(kind="dense", parts=[enc(np.array([[a]]))]); first_norm, grade = 0.0, 1
    if np.iscomplexobj(v) and np.abs(np.asarray(v).imag).max() > 0:
        cplx = True
    tols = [0.0, 0.0, 0.0, 1e-300, 1e-7, 1.0, 2.0]
    if first_norm:
        tols += [2.0 * first_norm, 2.0 * first_norm]            # remainder norm == tol/2 exactly
    if first_norm and ref:
        tols += [first_norm / ref]                              # remainder norm == tol * ||A q_0|| (exact when the quotient is dyadic)
        tols += [2.0 * first_norm / ref]                        # remainder norm == tol/2 * ||A q_0|| (relative breakdown threshold)
    mis = [1, 2, max(1, grade - 1), grade, grade + 1, max(1, n - 1), n, n + 1, n + 3]
    batch = 0 if g.random() < 0.8 else 2
    V = np.stack([v, -2.0 * np.asarray(v)][:max(batch, 1)], 0)
    c.update(cplx=cplx, n=n, batch=batch, grades=[grade] * max(batch, 1), v=enc(V), max_iters=int(g.choice(mis)), tol=float(g.choice(tols)),
             entry=str(g.choice(["arnoldi", "arnoldi", "Arnoldi()"])) if batch == 0 else "arnoldi")
    return c


def hausdorff(a, b):
    a, b = np.asarray(a), np.asarray(b)
    if len(a) == 0 or len(b) == 0:
        return 0.0 if len(a) == len(b) else float("inf")
    d = np.abs(a[:, None] - b[None, :])
    return float(max(d.min(axis=1).max(), d.min(axis=0).max()))


def gen_weak_coupling(pyrng):
    """arnoldi_eigs on two subsystems with a weak one-way coupling (block lower triangular: spectrum = eig(A11) u eig(A22) whatever
    the coupling), start vector supported on the first block, max_iters >= n.  Couplings 1e-13..1e-3 and tolerances 1e-14..1e-3 in all
    combinations: when the tolerance resolves the coupling the Krylov space grows through it and the spectrum of A must come back;
    float64, and float32 operators (with float32 or float64 start vectors) for couplings a float32 run can resolve"""
    g = np.random.default_rng(pyrng.getrandbits(64))
    n1, n2 = int(g.integers(2, 6)), int(g.integers(2, 7)); n = n1 + n2
    f32 = bool(g.random() < 0.25)
    eps = float(10.0 ** (-g.integers(3, 5))) if f32 else float(10.0 ** (-g.integers(3, 14)))
    tol = float(g.choice([1e-7, 1e-6])) if f32 else float(10.0 ** (-g.integers(3, 15)))
    A = np.zeros((n, n))
    A[:n1, :n1] = g.standard_normal((n1, n1)) + 3.0 * np.eye(n1)
    A[n1:, n1:] = g.standard_normal((n2, n2)) - 2.0 * np.eye(n2)
    A[n1:, :n1] = eps * g.standard_normal((n2, n1))
    v = np.zeros(n); v[:n1] = g.standard_normal(n1)
    c = dict(kind="dense", cplx=False, n=n, n1=n1, coupling=eps, start="block1", batch=0, grades=[n], max_iters=int(g.choice([n, n, n + 3])),
             tol=tol, entry="arnoldi_eigs", family="weak_coupling")
    if f32:
        A = A.astype(np.float32).astype(np.float64)
        c["op_f32"] = True
        if g.random() < 0.5:
            v = v.astype(np.float32).astype(np.float64); c["v_f32"] = True
    c["parts"] = [enc(A)]; c["v"] = enc(v[None, :])
    return c


def oracle_eigs(c, obs):
    """clauses about arnoldi_eigs on the weak-coupling stream (dtype aware): (i) its values are the eigenvalues of the square part of
    the H that arnoldi returns for the same arguments; (ii) when the tolerance resolves the coupling (the remainder at the block
    boundary, computed here independently, is >= 100 tol ||A q_0|| and well above rounding noise) n values come back and they are
    the spectrum of A"""
    if not obs.get("ok"):
        return ["raised " + obs.get("err", "")]
    bad = []
    S = np.asarray(dense_of(c), dtype=float)
    n, n1 = c["n"], c["n1"]
    f32 = bool(c.get("op_f32") and c.get("v_f32"))             # arithmetic in float32 only when both are float32
    epsm = 6e-8 if f32 else 1.1e-16
    scale = np.abs(S).max()
    w = dec(obs["eigs"])
    H = dec(obs["H"][0]).T
    ref = np.linalg.eigvals(H[:-1]) if H.shape[1] else np.zeros(0)
    if len(w) != len(ref) or hausdorff(w, ref) > (1e-3 if f32 else 1e-8) * scale:
        bad.append(f"arnoldi_eigs(tol={c['tol']}) is not eig of the square part of H returned by arnoldi(tol={c['tol']}) "
                   f"(distance {hausdorff(w, ref):.3g}, {len(w)} vs {len(ref)} values)")
    # independent Arnoldi (two re-orthogonalisation passes) up to the block boundary
    v = dec(c["v"])[0].real
    U = np.zeros((n, 0)); q = v / np.linalg.norm(v); r = None
    aq0 = np.linalg.norm(S @ q)
    for j in range(n1):
        U = np.concatenate([U, q[:, None]], 1)
        x = S @ q
        for _ in range(2):
            x = x - U @ (U.T @ x)
        r = np.linalg.norm(x)
        if j < n1 - 1:
            if r < 1e-6 * scale:
                return bad                                   # the first block itself is (nearly) degenerate for this start: nothing to demand
            q = x / r
    noise = epsm * scale * n
    # normalising a remainder of norm r amplifies rounding noise by noise/r: that is the accuracy the second block can have
    # ... times the conditioning of the eigenvalue problem itself (non-normal blocks): the spectrum clause is only demanded
    # where the coupling is well above rounding level relative to the operator (r >= 1e-4 ||A q_0||) and the eigenvector
    # basis is well conditioned; below that only clause (i) applies (a false alarm on the unchanged tree at seed 7 showed
    # that 1e3*noise/r alone under-estimates the attainable accuracy for couplings around 1e-7)
    lam, Vs = np.linalg.eig(S)
    kV = np.linalg.cond(Vs)
    acc = max(1e-2 if f32 else 1e-6, 1e3 * noise / r * max(1.0, kV)) if r else None
    if r is not None and r > 100.0 * c["tol"] * aq0 and r > 1e3 * noise and r >= 1e-4 * aq0 and kV < 1e3 and acc <= 3e-2:
        if len(w) != n:
            bad.append(f"arnoldi_eigs with max_iters >= n returned {len(w)} eigenvalues for an operator of size {n}")
        elif hausdorff(w, lam) > acc * scale:
            bad.append(f"arnoldi_eigs with max_iters >= n and tol={c['tol']} (coupling remainder {r:.3g} = {r / (c['tol'] * aq0):.3g} x tol*||A q_0||) "
                       f"does not return the spectrum of A (distance {hausdorff(w, lam):.3g})")
    return bad


def gen_illcond(pyrng):
    """larger non-normal operators with a rapidly decaying spectrum (1 .. 1e-8/1e-10/1e-12) and 30..60 Arnoldi steps: the Krylov
    sequence becomes ill conditioned, the regime where the way a new vector is orthogonalised matters (single-pass modified
    Gram-Schmidt loses orthogonality like eps*cond, other orders like eps*cond^2).  Oracle only (orthonormality against what an
    independent MGS loses on the same input, relation, Hessenberg form, first column)."""
    g = np.random.default_rng(pyrng.getrandbits(64))
    n = int(g.choice([40, 64, 80, 100]))
    cplx = bool(g.random() < 0.25)
    X = g.standard_normal((n, n)) + (1j * g.standard_normal((n, n)) if cplx else 0)
    A = X @ np.diag(np.logspace(0, -float(g.choice([8, 10, 12])), n)) @ np.linalg.inv(X)
    v = np.ones(n) if g.random() < 0.5 else g.standard_normal(n)
    m = int(g.choice([m_ for m_ in (30, 40, 50, 60) if m_ < n]))
    return dict(kind="dense", cplx=cplx, parts=[enc(A)], n=n, start="illcond", batch=0, grades=[n], v=enc((v + 0j)[None, :]),
                max_iters=m, tol=float(g.choice([1e-12, 1e-14])), entry="arnoldi", family="illcond")


def gen_annotated(pyrng):
    """ANNOTATED Hermitian operators (declared SelfAdjoint / PSD, inferred SelfAdjoint of a Sum of two declared ones; real and complex;
    plain Dense as control) of size 40..64 with spectrum k^2 and n (or 40) steps: enough for Ritz values to converge, the regime in
    which a recurrence that skips the full orthogonalisation loses orthogonality completely.  Oracle only: orthonormality against what
    an independent MGS loses on the same input, relation, and for arnoldi_eigs the spectrum."""
    g = np.random.default_rng(pyrng.getrandbits(64))
    n = int(g.choice([40, 48, 64])); cplx = bool(g.random() < 0.35)
    U = rand_unitary(g, n, cplx)
    lam = np.arange(1, n + 1, dtype=float) ** 2
    S = herm((U * lam) @ U.conj().T)
    how = str(g.choice(["SelfAdjoint", "SelfAdjoint", "PSD", "sum_inferred", "none"]))
    c = dict(cplx=cplx, n=n, start="random", batch=0, grades=[n], family="annotated", annotation=how)
    if how == "sum_inferred":
        S1 = herm(rnd(g, (n, n), cplx)); c.update(kind="sumsym", parts=[enc(S1), enc(S - S1)])
    else:
        c.update(kind="dense", parts=[enc(S)], annot=(None if how == "none" else how))
    v = rnd(g, (n,), cplx)
    c.update(v=enc((v + 0j)[None, :]), max_iters=int(g.choice([n, n, 40, n + 5])), tol=float(g.choice([1e-7, 1e-10])),
             entry=str(g.choice(["arnoldi", "arnoldi_eigs", "Arnoldi()"])))
    return c


def gen_constant_recurrence(pyrng, n=None):
    """exact inputs whose Arnoldi recurrence has a CONSTANT sub-diagonal: cyclic shifts, companion matrices and non-symmetric
    tridiagonal Toeplitz matrices started from e_1: the remainder norm (the quantity the loop tracks) is the same number bit for
    bit at every step and the Krylov space is only exhausted at step n.  Sizes and step counts straddle 10, 50 and 100."""
    g = np.random.default_rng(pyrng.getrandbits(64))
    n = int(n or g.integers(5, 17))
    fam = str(g.choice(["shift", "shiftperm", "companion", "toeplitz_ns"]))
    c = dict(start="exact", family=fam, cplx=False, n=n, batch=0, grades=[n])
    sc = float(g.choice([1.0, 2.0, -0.5]))
    if fam == "shiftperm":
        perm = np.roll(np.arange(n), 1)                      # P[i, j] = [j == perm[i]]: P e_j = e_{j+1}
        c.update(kind="perm", parts=[[int(x) for x in perm]])
    elif fam == "shift":
        c.update(kind="dense", parts=[enc(sc * np.eye(n)[np.roll(np.arange(n), 1)])])
    elif fam == "companion":
        M = np.zeros((n, n)); M[1:, :-1] = sc * np.eye(n - 1); M[:, -1] = g.integers(-3, 4, n)
        c.update(kind="dense", parts=[enc(M)])
    else:
        a, b, lo = float(g.choice([0.0, 2.0, -1.0])), float(g.choice([1.0, -2.0, 0.5])), float(g.choice([1.0, -1.0, 2.0, 0.5]))
        c.update(kind="dense", parts=[enc(a * np.eye(n) + b * np.eye(n, k=1) + lo * np.eye(n, k=-1))])
    v = np.zeros(n); v[0] = float(g.choice([1.0, -1.0, 2.0, -0.5]))
    c["v"] = enc(v[None, :])
    c["max_iters"] = int(g.choice([n, n, n + 1, n - 1, 5, 8, max(1, n // 2)]))
    c["tol"] = float(g.choice([0.0, 1e-7, 1e-7, 1e-12, 0.25]))
    c["entry"] = str(g.choice(["arnoldi", "arnoldi", "Arnoldi()", "arnoldi_eigs"]))
    return c


def coq_elem_cases(c, obs, capped=False, rfix=False, cfix=False, afix=False):
    """one single-start Coq case per batch element (element b of the batched call against the run on v_b alone)"""
    S = dense_of(c)
    V = dec(c["v"])
    out = []
    for b in range(len(obs["Q"])):
        el = "(" + coq_mat(dec(obs["Q"][b])) + "," + coq_mat(dec(obs["H"][b])) + ")"
        fl = " ".join("true" if f else "false" for f in (rfix, cfix, afix))
        t = f"mk_acase {c['n']} {coq_mat(S)} {fl} {coq_mat(V[b:b + 1])} {c['max_iters']} {hexf(c['tol'])} [{el}]"
        out.append(f"cap_case ({t})" if capped else t)
    return out


def in_avoided_region(c, present):
    cap = min(c["max_iters"], c["n"])
    exact0 = c["kind"] == "diag" and c["start"] == "invariant"
    if min(c["grades"]) <= 1 and cap >= 2 and not (exact0 and c["tol"] > 0):
        if "arnoldi_reltol_first_step" in present:
            return "grade1"                                   # arnoldi_reltol_first_step
        if c.get("lam_ratio", 1.0) < 1e-3:
            return "null_vector_start"                        # A v ~ 0: the repaired test has no scale to compare with either (||A q_0|| ~ 0)
        if c["tol"] < 1e-9:
            return "tol_below_noise"
    if len(set(min(gr, cap) for gr in c["grades"])) > 1:
        return "batch_unequal"                                # arnoldi_batch_shared_stop
    if c["tol"] < 1e-9 and min(c["grades"]) < cap:
        return "tol_below_noise"
    if c["tol"] == 0.0 and min(c["grades"]) <= cap:
        return "tol0_closure"          # zero tolerance and a remainder at rounding level: the caller asked to normalise rounding noise
                                       # (pinned code: clip(norm, 0) is inactive and an exactly zero remainder is divided by zero)
    return None


def dense_of(c):
    k, p = c["kind"], c["parts"]
    if k == "kron":
        S = np.kron(dec(p[0]), dec(p[1]))
    elif k == "diag":
        S = np.diag(dec(p[0]))
    elif k == "prod":
        S = dec(p[0]) @ dec(p[1])
    elif k == "sum":
        S = dec(p[0]) + dec(p[1])
    elif k == "scaled":
        S = p[1] * dec(p[0])
    elif k == "identity":
        S = np.eye(c["n"], dtype=complex)
    elif k == "sumsym":
        S = dec(p[0]) + dec(p[1])
    elif k == "scalarmul":
        S = complex(*p[0]) * np.eye(c["n"], dtype=complex)
    elif k == "perm":
        S = np.eye(c["n"], dtype=complex)[list(p[0])]          # (P x)_i = x[perm[i]]
    else:
        S = dec(p[0])
    return S if c.get("op_cplx", c["cplx"]) else S.real


def build_op(c):
    """c["annot"] in {None, "SelfAdjoint", "PSD"} declares the annotation on the operator (annotations are an input dimension:
    routines may take shortcuts on them); kind "sumsym" is a Sum of two declared-SelfAdjoint operators (inferred annotation)"""
    A = _build_op(c)
    if c.get("annot") == "SelfAdjoint":
        A = cola.SelfAdjoint(A)
    elif c.get("annot") == "PSD":
        A = cola.PSD(A)
    return A


def _build_op(c):
    k, p = c["kind"], c["parts"]
    opc = c.get("op_cplx", c["cplx"])          # the operator's dtype may differ from the start vector's (c["cplx"])
    dt = np.complex128 if opc else (np.float32 if c.get("op_f32") else np.float64)
    cast = (lambda a: np.ascontiguousarray(dec(a).astype(dt))) if opc else (lambda a: np.ascontiguousarray(dec(a).real.astype(dt)))
    if k == "kron":
        return ops.Kronecker(ops.Dense(cast(p[0])), ops.Dense(cast(p[1])))
    if k == "diag":
        return ops.Diagonal(cast(p[0]))
    if k == "prod":
        return ops.Dense(cast(p[0])) @ ops.Dense(cast(p[1]))
    if k == "sum":
        return ops.Dense(cast(p[0])) + ops.Dense(cast(p[1]))
    if k == "scaled":
        return p[1] * ops.Dense(cast(p[0]))
    if k == "identity":
        return ops.Identity((c["n"], c["n"]), dt)
    if k == "sumsym":
        return cola.SelfAdjoint(ops.Dense(cast(p[0]))) + cola.SelfAdjoint(ops.Dense(cast(p[1])))
    if k == "scalarmul":
        z = complex(*p[0])
        return ops.ScalarMul(z if c["cplx"] else z.real, (c["n"], c["n"]), dt)
    if k == "perm":
        return ops.Permutation(np.array(p[0], dtype=np.int64), dt)
    if k == "matmat":
        S = cast(p[0])
        return ops.LinearOperator(dt, (c["n"], c["n"]), matmat=lambda X, S=S: S @ X)
    return ops.Dense(cast(p[0]))


def start_of(c):
    V = dec(c["v"])
    V = V if c["cplx"] else V.real
    if c.get("v_f32"):
        V = V.astype(np.float32)
    return V[0].copy() if c["batch"] == 0 else np.ascontiguousarray(V.T)


def run_impl(c):
    from cola.linalg.decompositions.arnoldi import arnoldi, arnoldi_eigs
    from cola.linalg.decompositions.decompositions import Arnoldi
    obs = dict(ok=True)
    try:
        A = build_op(c)
        v = start_of(c)
        if c["entry"] == "arnoldi_nostart":
            kw = {} if c.get("key") is None else dict(key=c["key"])
            Q, H, info = arnoldi(A, max_iters=c["max_iters"], tol=c["tol"], **kw)
        elif c["entry"] == "Arnoldi()":
            Q, H, info = Arnoldi(start_vector=v, max_iters=c["max_iters"], tol=c["tol"])(A)
        else:
            Q, H, info = arnoldi(A, v, max_iters=c["max_iters"], tol=c["tol"])
        if c["batch"] == 0:
            Qd = np.asarray(Q.to_dense()); Hd = np.asarray(H.to_dense())
            obs["Q"] = [enc(Qd.T)]; obs["H"] = [enc(Hd.T)]        # lists of columns
            obs["shapes"] = [list(Qd.shape), list(Hd.shape)]
        else:
            QA = np.asarray(Q.A); HA = np.asarray(H.A)
            obs["Q"] = [enc(QA[b].T) for b in range(QA.shape[0])]
            obs["H"] = [enc(HA[b].T) for b in range(HA.shape[0])]
            obs["shapes"] = [list(QA.shape[1:]), list(HA.shape[1:])]
        if c["max_iters"] > c["n"] and c["batch"] == 0:
            Qn, Hn, _ = arnoldi(A, v, max_iters=c["n"], tol=c["tol"])
            obs["Qn"] = enc(np.asarray(Qn.to_dense()).T); obs["Hn"] = enc(np.asarray(Hn.to_dense()).T)
        if c["entry"] == "arnoldi_eigs":
            w, Vv, _ = arnoldi_eigs(A, v, max_iters=c["max_iters"], tol=c["tol"])
            obs["eigs"] = enc(np.asarray(w)); obs["eigvecs"] = enc(np.asarray(Vv.to_dense()).T)
    except Exception as e:
        obs = dict(ok=False, err=f"{type(e).__name__}: {e}")
    return obs


def coq_case(c, obs, capped=False, rfix=False, cfix=False, afix=False):
    """capped: compare with the repaired model variant arnoldi_batch_capped (probe says arnoldi_padding is gone)"""
    S = dense_of(c)
    V = dec(c["v"])
    outs = []
    for b in range(len(obs["Q"])):
        outs.append("(" + coq_mat(dec(obs["Q"][b])) + "," + coq_mat(dec(obs["H"][b])) + ")")
    fl = " ".join("true" if f else "false" for f in (rfix, cfix, afix))
    t = f"mk_acase {c['n']} {coq_mat(S)} {fl} {coq_mat(V)} {c['max_iters']} {hexf(c['tol'])} [" + ";".join(outs) + "]"
    return f"cap_case ({t})" if capped else t


HEADER = """From Coq Require Import List PrimFloat.
From Core Require Import C14_Model C14_Float C15_Model C15_Float.
Import ListNotations.
Open Scope float_scope.
"""


# ----------------------------------------------------------------------------------------------- oracle
def krylov_basis(S, v, jmax):
    """orthonormal nested Krylov basis (Arnoldi with two re-orthogonalisation passes, written independently).
    Returns (U, grade): U = well determined basis vectors (every remainder >= 1e-3 of the scale of A);
    grade = dimension at which the remainder is at rounding level, None when not reached / not decidable."""
    n = len(v)
    scale = max(np.abs(S).max(), 1e-300)
    U = np.zeros((n, 0), dtype=complex)
    q = v.astype(complex) / np.linalg.norm(v)
    grade = None
    for j in range(jmax):
        U = np.concatenate([U, q[:, None]], 1)
        w = S @ q
        for _ in range(2):
            w = w - U @ (U.conj().T @ w)
        nw = np.linalg.norm(w)
        if nw <= 1e-11 * scale * math.sqrt(n):
            grade = j + 1
            break
        if nw < 1e-3 * scale:
            break
        q = w / nw
    return U, grade


def mgs_loss_ref(S, v, steps):
    """loss of orthogonality of a plain single-pass modified Gram-Schmidt Arnoldi run (independent numpy code):
    what any faithful binary64 implementation of the algorithm the property names can be expected to lose"""
    n = len(v)
    Q = np.zeros((n, steps + 1), dtype=complex)
    Q[:, 0] = v / np.linalg.norm(v)
    for j in range(steps):
        w = S @ Q[:, j]
        for i in range(j + 1):
            w = w - np.vdot(Q[:, i], w) * Q[:, i]
        Q[:, j + 1] = w / np.linalg.norm(w)
    G = Q.conj().T @ Q
    return float(np.abs(G - np.eye(steps + 1)).max())


def oracle(c, obs, present=frozenset()):
    """failed clauses of C15 on the implementation's output.  Clauses spoiled by a defect flag the tree exhibits
    (`present`) are not evaluated in the region that flag covers."""
    if not obs.get("ok"):
        return ["raised " + obs.get("err", "")]
    bad = []
    S = np.asarray(dense_of(c), dtype=complex)
    n, m = c["n"], c["max_iters"]
    cap = min(m, n)
    if m > n and obs.get("shapes") == [[n, cap + 1], [cap + 1, cap]]:
        m = cap          # the n-step factorisation itself, without zero padding: what "the same factorisation as n steps" asks for
    scale = max(np.abs(S).max(), 1e-300)
    V = dec(c["v"])
    garbage_ok = "arnoldi_clip_garbage" in present
    # a live remainder below tol/2 anywhere in the batch (second manifestation of arnoldi_clip_garbage) derails that element and,
    # through the shared stopping test, the step count of the others
    batch_clipped = False
    if garbage_ok and c["batch"] and m > 0:
        for b in range(len(obs["Q"])):
            Hb = dec(obs["H"][b]).T
            if Hb.shape == (m + 1, m):
                sdb = np.diag(Hb, -1).real
                batch_clipped = batch_clipped or any(1e-6 * scale < x < c["tol"] / 2.0 for x in sdb)
    for b in range(len(obs["Q"])):
        tag = f"[b{b}] " if c["batch"] else ""
        Q = dec(obs["Q"][b]).T
        H = dec(obs["H"][b]).T if m > 0 else np.zeros((1, 0))
        v = V[b]
        if Q.shape != (n, m + 1) or H.shape != (m + 1, m):
            bad.append(tag + f"shapes Q{Q.shape} H{H.shape}, expected ({n},{m + 1}) ({m + 1},{m})"); continue
        if not (np.all(np.isfinite(Q)) and np.all(np.isfinite(H))):
            bad.append(tag + "non-finite output"); continue
        if np.abs(Q[:, 0] - v / np.linalg.norm(v)).max() > 1e-10:
            bad.append(tag + "first column != v/||v||")
        if np.abs(np.tril(H, -2)).max() > 0:
            bad.append(tag + "H not upper Hessenberg")
        sd = np.diag(H, -1)
        if np.abs(sd.imag).max() > 0 or sd.real.min() < 0:
            bad.append(tag + "sub-diagonal not real non-negative")
        sd = sd.real
        # active part: leading columns whose sub-diagonal entry is clearly above rounding level
        # a remainder of norm <= tol/2 is a breakdown for the repaired normalisation (zero column); for the pinned one see `clipped` below
        # breakdown threshold of the normalisation: the absolute tol/2 (flag arnoldi_absolute_clip) or tol/2 * ||A q_0||
        aq0 = float(np.linalg.norm(S @ v) / np.linalg.norm(v))
        thr = c["tol"] / 2.0 * (1.0 if "arnoldi_absolute_clip" in present else aq0)
        live = max(1e-6 * scale, 0.0 if garbage_ok else thr)
        a = 0
        while a < m and sd[a] > live:
            a += 1
        ambiguous = a < m and sd[a] > 1e-11 * scale * math.sqrt(n)       # neither clearly alive nor clearly broken down
        # flag arnoldi_clip_garbage, second manifestation: the clip threshold tol/2 is absolute while the stopping test is
        # relative to H[1,0]; a live remainder below tol/2 is divided by tol/2 instead of its norm (large tol, H[1,0] < 1/2)
        clipped = [j for j in range(a) if sd[j] < c["tol"] / 2.0]
        if clipped and garbage_ok:
            a = clipped[0]
            ambiguous = True
        if a > cap:
            bad.append(tag + f"{a} Arnoldi steps, more than min(max_iters, n) = {cap}")
        # the iteration may stop before the cap only when the remainder has fallen to tol*H[1,0]
        done = int(np.sum(np.abs(H).max(axis=0) > 0)) if m > 0 else 0
        # (tol is relative to the size of the first Krylov vector: H[1,0] in the pinned code, ||A q_0|| in the repaired one; either is accepted)
        aq0 = float(np.linalg.norm(S @ v) / np.linalg.norm(v))
        if 1 <= done < cap and sd[done - 1] > max(2.0 * c["tol"] * max(sd[0], aq0), thr) + 1e-6 * scale:
            bad.append(tag + f"only {done} of min(max_iters,n)={cap} Arnoldi steps although the last remainder is {sd[done - 1]:.3g} "
                             f"(H[1,0]={sd[0]:.3g}, tol={c['tol']}): truncated factorisation, A Q[:, :m] = Q H fails")
        # orthonormality of the columns whose sub-diagonal entry exceeds the tolerance
        ao = min(a, n - 1)                      # at most n orthonormal vectors; the reference is run for the same number of steps
        Qa = Q[:, :ao + 1]
        loss = np.abs(Qa.conj().T @ Qa - np.eye(ao + 1)).max()
        if loss > 1e-8 and loss > 100 * mgs_loss_ref(S, v.astype(complex), ao):
            bad.append(tag + f"columns 0..{a} not orthonormal (loss {loss:.3g}, beyond what single-pass modified Gram-Schmidt loses on this input)")
        executed = int(np.sum(np.abs(H).max(axis=0) > 0))
        alive_steps = min(a, executed - 1) if b == 0 else min(alive_steps, a, executed - 1)
        worst_loss = loss if b == 0 else max(worst_loss, loss)
        was_clipped = bool(clipped) if b == 0 else (was_clipped or bool(clipped))
        # Arnoldi relation on the active columns
        if a > 0 and np.abs(S @ Q[:, :a] - Q @ H[:, :a]).max() > 1e-8 * scale:
            bad.append(tag + "A Q[:, :a] != Q H[:, :a] on the active columns")
        # flag arnoldi_stop_threshold_gap gone: a run that stops before max_iters must leave every later column of Q zero or carry its
        # column of H, i.e. A Q[:, :m] = Q H holds in EVERY column (checked when no remainder is at rounding level)
        if "arnoldi_stop_threshold_gap" not in present and not garbage_ok and not batch_clipped and m > 0 and sd[:max(a, 1)].min(initial=1.0) > 1e-6 * scale:
            fullres = np.abs(S @ Q[:, :m] - Q @ H).max(axis=0)
            late = [j for j in range(a, m) if fullres[j] > 1e-6 * scale and np.abs(H[:, j]).max() == 0]
            if late:
                bad.append(tag + f"column {late[0]} of Q is non-zero but its column of H is zero (the run stopped): A Q[:, :m] = Q H fails there by {fullres[late[0]]:.3g}")
        if not ambiguous and not batch_clipped:
            if a < m:
                # column a of H closed the factorisation (breakdown, or the cap min(max_iters, n) was reached)
                if np.abs(S @ Q[:, a:a + 1] - Q[:, :a + 1] @ H[:a + 1, a:a + 1]).max() > 1e-8 * scale and np.abs(H[:, a]).max() > 0:
                    bad.append(tag + f"column {a}: A q != Q h although the remainder is at rounding level")
                # afterwards: zero columns
                # (demanded when the remainder is within the caller's tolerance, norm <= tol/2 * ||A q_0||, or the cap was reached: with
                #  tol = 0 or a tolerance below the rounding level of the run a remainder of 1e-16 exceeds it and is legitimately normalised)
                if (sd[a] <= thr or a >= cap) and (np.abs(H[:, a + 1:]).max(initial=0) > 0 or np.abs(Q[:, a + 2:]).max(initial=0) > 0):
                    bad.append(tag + f"non-zero columns after the factorisation closed at step {a + 1} (iteration continued through rounding noise)")
                # (a zero column is demanded when the remainder is within the tolerance the caller gave, norm <= tol/2; with a tolerance
                #  below the rounding level of the run the remainder "exceeds the tolerance" and is legitimately normalised)
                if a + 1 <= m and np.abs(H[:, a]).max() > 0 and not garbage_ok and sd[a] <= thr and np.abs(Q[:, a + 1]).max() > 1e-12:
                    bad.append(tag + f"column {a + 1} after breakdown is neither zero nor a unit vector (norm {np.linalg.norm(Q[:, a + 1]):.3g})")
            U, grade = krylov_basis(S, v, min(n, a + 2))
            if grade is not None and a > grade:
                bad.append(tag + f"{a} active steps although the Krylov space is exhausted at dimension {grade}")
            ku = min(a + 1, U.shape[1])
            res = Q[:, :ku] - U[:, :ku] @ (U[:, :ku].conj().T @ Q[:, :ku])
            if np.abs(res).max(initial=0) > 1e-6:
                bad.append(tag + "basis columns outside the Krylov space")
        # padding for max_iters > n
        if m > n:
            if np.abs(H[:, n:]).max(initial=0) > 0 or np.abs(H[n + 1:, :]).max(initial=0) > 0 or np.abs(Q[:, n + 1:]).max(initial=0) > 0:
                bad.append(tag + "rows/columns beyond n are not zero")
            if "Qn" in obs:
                Qn = dec(obs["Qn"]).T; Hn = dec(obs["Hn"]).T
                lastcol = n if garbage_ok else n + 1
                if np.abs(Q[:, :lastcol] - Qn[:, :lastcol]).max() > 1e-12 or np.abs(H[:n + 1, :n] - Hn).max() > 1e-12 * max(1, scale):
                    bad.append(tag + "leading part differs from the n-step factorisation")
    if "eigs" in obs and obs.get("H") and not c["batch"]:
        Hs = dec(obs["H"][0]).T
        ref = np.linalg.eigvals(Hs[:-1]) if Hs.shape[1] else np.zeros(0)
        we = dec(obs["eigs"])
        if len(we) != len(ref) or hausdorff(we, ref) > 1e-8 * max(scale, np.abs(Hs).max(initial=0.0)):
            bad.append("arnoldi_eigs values are not the eigenvalues of the square part of the H that arnoldi returns for the same arguments")
    if "eigs" in obs and not bad:
        w = dec(obs["eigs"]); Y = dec(obs["eigvecs"]).T
        if m > n and "arnoldi_padding" in present:
            pass        # spurious zero eigenvalues from the zero padding: recorded flag
        elif m >= n and min(c["grades"]) >= n and alive_steps >= n - 1 and not was_clipped and worst_loss < 1e-10:
            lam = np.linalg.eigvals(S)
            cond = np.linalg.cond(np.linalg.eig(S)[1])
            if cond < 1e4:
                if len(w) != n:
                    bad.append(f"arnoldi_eigs with max_iters >= n returned {len(w)} eigenvalues for an operator of size {n}")
                else:
                    d = max(np.abs(lam - t).min() for t in w) + max(np.abs(w - t).min() for t in lam)
                    if d > 1e-7 * scale * cond:
                        bad.append("arnoldi_eigs with max_iters >= n does not return the spectrum of A")
                    # (eigenvectors: only for complex operators - for real ones the returned product Sliced(real) @ Dense(complex)
                    #  densifies without its imaginary part, which is C01's recorded flag sliced_drops_imag, not part of C15)
                    if c["cplx"] and np.abs(S @ Y - Y * w).max() > 1e-7 * scale * cond:
                        bad.append("arnoldi_eigs vectors are not eigenvectors")
    return bad
