"""C04 execution stream: the rule table and the traced call graph are type-level; a rule BODY can still re-dispatch with
an argument whose TYPE depends on a VALUE (np.min(...) -> np.int64 where a rule is typed `int`, ...).  So every public
function is actually called on small concrete operators with argument VALUES at and beyond their natural bounds
(k = 0, 1, min(m,n), min(m,n)+1, n, n+1; offsets |k| >= n; exponents 0, +-1, large, fractional; python and numpy scalars
where the signature admits them), under the dispatch tracer, and no AmbiguousLookupError / NotFoundLookupError may
occur at ANY depth.  Errors raised by the selected rules themselves (assertions, ValueError, NotImplementedError,
LinAlgError, ...) are outside C04 and only counted."""
import time
from collections import Counter
import numpy as np


def operators(rng):
    import cola
    from cola.ops import Dense, Triangular, Diagonal, Identity, ScalarMul, Kronecker, KronSum, BlockDiag, Sum, Product, Permutation, Tridiagonal

    def spd(n):
        a = rng.standard_normal((n, n))
        return a @ a.T / n + np.eye(n)
    D4 = Dense(spd(4))
    ops = {
        "Dense4": D4, "PSD(Dense4)": cola.PSD(Dense(spd(4))), "SA(Dense5)": cola.SelfAdjoint(Dense(spd(5))),
        "DenseTall5x3": Dense(rng.standard_normal((5, 3))), "DenseWide3x5": Dense(rng.standard_normal((3, 5))),
        "Triangular4": Triangular(np.tril(spd(4))), "Diagonal4": Diagonal(np.arange(1., 5.)), "Identity4": Identity((4, 4), np.float64),
        "ScalarMul3": ScalarMul(2.5, (3, 3), np.float64), "Permutation4": Permutation(np.array([2, 0, 3, 1]), np.float64),
        "Tridiagonal4": Tridiagonal(np.ones(3), 4 * np.ones(4), np.ones(3)),
        "Kronecker2x3": Kronecker(cola.PSD(Dense(spd(2))), cola.PSD(Dense(spd(3)))), "PSD(Kronecker2x2)": cola.PSD(Kronecker(Dense(spd(2)), Dense(spd(2)))),
        "KronSum2x2": KronSum(cola.PSD(Dense(spd(2))), cola.PSD(Dense(spd(2)))),
        "BlockDiag": BlockDiag(cola.PSD(Dense(spd(2))), cola.PSD(Dense(spd(3))), multiplicities=[2, 1]),
        "Sum": Sum(D4, Diagonal(np.ones(4))), "Product": Product(D4, Diagonal(np.arange(1., 5.))),
        "PSD(Product)": cola.PSD(Product(Diagonal(np.arange(1., 5.)), cola.PSD(Dense(spd(4))), Diagonal(np.arange(1., 5.)))),
        "KroneckerTall": Kronecker(Dense(rng.standard_normal((3, 2))), Dense(rng.standard_normal((2, 2)))),
    }
    return ops


def call_list(ctx, ops):
    """[(text, thunk)]"""
    import cola
    import cola.linalg as LA
    from cola.linalg.decompositions.decompositions import cholesky, plu
    import cola.linalg.svd.svd as SV
    from cola.linalg.eig.lobpcg import LOBPCG
    from cola.linalg.eig.power_iteration import PowerIteration
    from cola.linalg.inverse.pinv import LSTSQ
    out = []

    def add(text, f):
        out.append((text, f))
    for nm, A in ops.items():
        m, n = A.shape
        r = min(m, n)
        square = m == n
        ks = sorted({0, 1, r - 1, r, r + 1, n, n + 1, m, m + 1})
        # svd: every kind, k at and beyond its bounds, default / Auto / explicit algorithms
        for k in ks:
            add(f"svd({nm},{k})", lambda A=A, k=k: SV.svd(A, k))
            add(f"svd({nm},{k},'SM',Auto())", lambda A=A, k=k: SV.svd(A, k, "SM", LA.Auto()))
            add(f"svd({nm},k={k},alg=DenseSVD())", lambda A=A, k=k: SV.svd(A, k=k, alg=SV.DenseSVD()))
        add(f"svd({nm},{r},'LM',Lanczos(max_iters=4))", lambda A=A, r=r: SV.svd(A, r, "LM", LA.Lanczos(max_iters=4)))
        add(f"pinv({nm})", lambda A=A: cola.pinv(A) @ np.ones(m))
        add(f"pinv({nm},LSTSQ())", lambda A=A: cola.pinv(A, LSTSQ()) @ np.ones(m))
        for c in (2, -1, 2.5, np.float32(0.5), np.int64(3), np.float64(2.), 1 + 1j, np.array(2.), True):
            add(f"{c!r}*{nm}", lambda A=A, c=c: (c * A) @ np.ones(n))
        add(f"{nm}/2", lambda A=A: (A / 2) @ np.ones(n))
        add(f"-{nm}", lambda A=A: (-A) @ np.ones(n))
        add(f"{nm}.T", lambda A=A: A.T @ np.ones(m))
        add(f"{nm}.H", lambda A=A: A.H @ np.ones(m))
        add(f"{nm}.T@{nm}", lambda A=A: (A.T @ A) @ np.ones(n))
        add(f"kron({nm},{nm})", lambda A=A: cola.kron(A, A).shape)
        add(f"{nm}+{nm}", lambda A=A: (A + A) @ np.ones(n))
        add(f"{nm}+0", lambda A=A: (A + 0))
        add(f"{nm}-array", lambda A=A: (A - np.ones((m, n))) @ np.ones(n))
        if not square:
            continue
        add(f"kronsum({nm},{nm})", lambda A=A: cola.kronsum(A, A).shape)
        for k in ks:
            add(f"eig({nm},{k})", lambda A=A, k=k: cola.eig(A, k))
            add(f"eig({nm},{k},'SM',Auto())", lambda A=A, k=k: cola.eig(A, k, "SM", LA.Auto()))
            add(f"eig({nm},k={k},alg=Eig())", lambda A=A, k=k: cola.eig(A, k=k, alg=LA.Eig()))
        add(f"eig({nm},{n},'LM',Eigh())", lambda A=A: cola.eig(A, n, "LM", LA.Eigh()))
        add(f"eig({nm},{n},'LM',Arnoldi(max_iters=4))", lambda A=A: cola.eig(A, n, "LM", LA.Arnoldi(max_iters=4)))
        add(f"eig({nm},1,'LM',PowerIteration(max_iter=5))", lambda A=A: cola.eig(A, 1, "LM", PowerIteration(max_iter=5)))
        add(f"eigmax({nm})", lambda A=A: cola.eigmax(A))
        add(f"eigmin({nm},Eig())", lambda A=A: cola.eigmin(A, LA.Eig()))
        for k in sorted({0, 1, -1, n - 1, -(n - 1), n, -n, n + 1, -(n + 1)}):
            add(f"diag({nm},{k})", lambda A=A, k=k: LA.diag(A, k))
            add(f"diag({nm},k={k},alg=Exact())", lambda A=A, k=k: LA.diag(A, k=k, alg=LA.Exact()))
        add(f"diag({nm},0,Hutch(max_iters=3))", lambda A=A: LA.diag(A, 0, LA.Hutch(max_iters=3)))
        add(f"diag({nm},0,HutchPP())", lambda A=A: LA.diag(A, 0, LA.HutchPP()))
        add(f"trace({nm})", lambda A=A: LA.trace(A))
        add(f"trace({nm},Exact())", lambda A=A: LA.trace(A, LA.Exact()))
        for al in (0, 1, -1, 2, -2, 9, 10, 12, -3, 0.5, -0.5, 2.5, np.int64(2), np.int64(-1), np.int64(11), np.float32(0.5), True, 0.5 + 0.5j):
            add(f"pow({nm},{al!r})", lambda A=A, al=al: LA.pow(A, al) @ np.ones(n))
            add(f"pow({nm},{al!r},Auto())", lambda A=A, al=al: LA.pow(A, al, LA.Auto()) @ np.ones(n))
        add(f"pow({nm},-1,Lanczos())", lambda A=A: LA.pow(A, -1, LA.Lanczos()) @ np.ones(n))
        add(f"pow({nm},-1,alg=Eig())", lambda A=A: LA.pow(A, -1, alg=LA.Eig()) @ np.ones(n))
        for fname, f in (("exp", LA.exp), ("log", LA.log), ("sqrt", LA.sqrt), ("isqrt", LA.isqrt)):
            add(f"{fname}({nm})", lambda A=A, f=f: f(A) @ np.ones(n))
            add(f"{fname}({nm},Eig())", lambda A=A, f=f: f(A, LA.Eig()) @ np.ones(n))
            add(f"{fname}({nm},alg=Auto())", lambda A=A, f=f: f(A, alg=LA.Auto()) @ np.ones(n))
        add(f"apply_unary(np.sin,{nm})", lambda A=A: LA.apply_unary(np.sin, A) @ np.ones(n))
        for an, mk in (("", None), ("Auto()", LA.Auto), ("LU()", LA.LU), ("Cholesky()", LA.Cholesky), ("CG(max_iters=5)", lambda: LA.CG(max_iters=5)),
                       ("GMRES(max_iters=5)", lambda: LA.GMRES(max_iters=5))):
            add(f"inv({nm}{',' if an else ''}{an})", (lambda A=A, mk=mk: (cola.inv(A) if mk is None else cola.inv(A, mk())) @ np.ones(n)))
            add(f"solve({nm},B2{',' if an else ''}{an})", (lambda A=A, mk=mk: cola.solve(A, np.ones((n, 2))) if mk is None else cola.solve(A, np.ones((n, 2)), mk())))
        for an, mk in (("", None), ("Auto()", LA.Auto), ("LU()", LA.LU), ("Cholesky()", LA.Cholesky), ("Lanczos(max_iters=4)", lambda: LA.Lanczos(max_iters=4))):
            add(f"logdet({nm}{',' if an else ''}{an})", (lambda A=A, mk=mk: cola.logdet(A) if mk is None else cola.logdet(A, mk())))
            add(f"slogdet({nm},{an or 'Auto()'},Exact())", (lambda A=A, mk=mk: cola.slogdet(A, (mk or LA.Auto)(), LA.Exact())))
        add(f"cholesky({nm})", lambda A=A: cholesky(A))
        add(f"Cholesky()({nm})", lambda A=A: LA.Cholesky()(A))
        add(f"plu({nm})", lambda A=A: plu(A))
        add(f"LU()({nm})", lambda A=A: LA.LU()(A))
    return out


def run(ctx, T):
    import c04_trace as TC
    rng = np.random.default_rng(ctx.seed + 404)
    ops = operators(rng)
    calls = call_list(ctx, ops)
    ctx.rng.shuffle(calls)
    budget = ctx.budget(45.0, 300.0)
    t0 = time.time()
    seen = Counter()
    lookups = {}
    n = skipped = nested = 0
    for text, f in calls:
        if time.time() - t0 > budget:
            skipped += 1
            continue
        log, e, msg = TC.run_traced(f, [], {}, 1.0)
        n += 1
        nested += len(log)
        seen[e or "ok"] += 1
        bad = [r for r in log if r.err in ("AmbiguousLookupError", "NotFoundLookupError")]
        if e in ("AmbiguousLookupError", "NotFoundLookupError") and not bad:
            lookups.setdefault((text.split("(")[0], "?", e), (text, msg))
        for r in bad:
            cl = tuple(type(a).__name__.split("[")[0] for a in r.args)
            lookups.setdefault((r.fn, cl, r.err), (text, msg if e else f"(swallowed) at depth {r.depth}"))
    mismatches, attributed = [], []
    for (fn, cl, err), (text, msg) in lookups.items():
        kind = "Ambiguous" if err.startswith("Ambiguous") else "NotFound"
        hit = None
        if T is not None and cl != "?":
            import c04_calls as CG
            acl = None
            for k in T["known"]:
                if k["fn"] == fn and k["kind"] == kind and len(k["classes"]) == len(cl) and all(p == "*" or p == c for p, c in zip(k["classes"], cl)):
                    hit = k["tuple"]
        if hit:
            attributed.append(f"{fn}({','.join(cl)}) -> {hit}")
            continue
        mismatches.append(dict(oracle_fail=True, what=f"{err} in the dispatch of {fn}({','.join(cl) if cl != '?' else '...'}) while executing the public call {text}: "
                                                      "a call failed because no rule applies / rules tie (value-dependent argument type or second-level call)",
                               case=text, dispatched=f"{fn}({','.join(cl) if cl != '?' else '?'})", expected="a unique rule at every depth", got=[err, msg[:300]]))
    extra = dict(exec_calls=n, exec_dispatches=nested, exec_skipped_for_time=skipped, exec_exception_classes=dict(seen),
                 exec_lookup_errors_attributed=sorted(set(attributed))[:20], exec_operators=len(ops))
    return dict(mismatches=mismatches[:10], extra=extra, evaluations=n)
