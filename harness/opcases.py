"""Shared by C01/C02 (and reused by others): generate operator-tree cases, run the implementation,
evaluate the Coq model on the same cases inside Coq, compare with the independent dense oracle."""
import json, re
import numpy as np
import shim  # noqa: F401  (installs the backend shim, imports cola from /repo)
import trees as T
import core

HEADER = ("From Coq Require Import ZArith List Bool Arith.\nFrom Core Require Import Base Kron Op ZIInst CheckZI.\n"
          "Import ListNotations.\n")


def rand_mat(rnd, m, n, cplx, vmax=3, big=False):
    if big:
        # integers around 2^24 that are NOT representable in single precision (exact in double): an operand of a wider dtype
        # than the operator must not be rounded to the operator's precision on the way
        bv = lambda: rnd.choice([-1, 1]) * 2 ** 24 + 2 * rnd.randint(-3, 3) + 1
        return [[[bv(), (bv() if rnd.random() < 0.5 else rnd.randint(-2, 2)) if cplx else 0] for _ in range(n)] for _ in range(m)]
    return [[[rnd.randint(-vmax, vmax), rnd.randint(-2, 2) if cplx else 0] for _ in range(n)] for _ in range(m)]


def np_of(rows, m, n, dt):
    a = np.array([[complex(v[0], v[1]) for v in r] for r in rows], dtype=np.complex128)
    if a.size != m * n:        # a result of the wrong size: never equal to the expected matrix (the comparison fails, nothing crashes)
        return np.full((m, n), np.nan, dtype=np.complex128 if dt in T.CPLX else np.float64)
    a = a.reshape(m, n)
    return a.astype(T.npdt(dt)) if dt in T.CPLX else a.real.astype(T.npdt(dt))


def has_kind(t, kinds):
    return any(k in kinds for k in T.kinds_of(t))


def sliced_unsafe(t, dx):
    """region of the recorded finding sliced_drops_imag / sliced_casts_operand: a Sliced node over an all-real subtree
    that can receive complex data (complex operand, or a complex leaf anywhere in the tree)"""
    anyc = dx in T.CPLX or any(d in T.CPLX for d in leaf_dts(t))
    found = []

    def walk(x):
        if x["k"] == "Sliced" and anyc and not any(d in T.CPLX for d in leaf_dts(x)):
            found.append(1)
        for y in (x.get("ms") or ([x["a"]] if isinstance(x.get("a"), dict) else [])):
            walk(y)
    walk(t)
    return bool(found)


def leaf_dts(t, acc=None):
    acc = acc if acc is not None else []
    if "dt" in t:
        acc.append(t["dt"])
    for x in (t.get("ms") or ([t["a"]] if isinstance(t.get("a"), dict) else [])):
        leaf_dts(x, acc)
    return acc


def gen_cases(ctx, n_cases, gen, depth_max, bound=2 ** 20, accept=None):
    """cases with operands; entries bounded so that float32 arithmetic is exact.
    Streams: rooted kinds in rotation (every kind at the root, real / complex / mixed payloads), wide and 1xN / Nx1 shapes,
    free random trees (uniform or mixed real/complex leaves)."""
    rnd = ctx.rng
    cases = []
    tries = 0
    kinds_cycle = [k for k in T.LEAF + T.COMP if k in gen.kinds]
    while len(cases) < n_cases and tries < 50 * n_cases:
        tries += 1
        u = rnd.random()
        if u < 0.25:
            k = kinds_cycle[tries % len(kinds_cycle)]
            mode = rnd.choice([False, True, "mix"])
            if mode == "mix" and k in gen.mix_excl:
                mode = rnd.choice([False, True])
            t = T.rooted(gen, k, None, None, cplx=mode, depth=rnd.randint(1, 2))
            if t is None:
                continue
        elif u < 0.40:
            t = gen.tree(rnd.randint(1, depth_max), None, "mix")
        elif u < 0.50 and {"Transp", "Adj"} & set(gen.kinds):
            # lazy Transpose / Adjoint directly over every leaf kind at size 3 (a permutation needs a 3-cycle, a sparse
            # pattern several entries per column, ... to tell a left product from a right one)
            lk = [k_ for k_ in T.LEAF if k_ in gen.kinds]
            k = lk[tries % len(lk)]
            inner = T.rooted(gen, k, 3, 3 if k in T.SQUARE_ONLY else rnd.randint(2, 3), cplx=rnd.choice([False, True]), depth=0)
            if inner is None:
                continue
            if k == "Perm" and rnd.random() < 0.7:
                inner = dict(inner, p=rnd.choice([[1, 2, 0], [2, 0, 1]]), neg=rnd.choice([None, [True, False, False], [False, True, True]]))     # a 3-cycle: P^T != P
            t = dict(k=rnd.choice([w for w in ("Transp", "Adj") if w in gen.kinds]), a=inner)
            if rnd.random() < 0.2:
                t = dict(k=rnd.choice([w for w in ("Transp", "Adj") if w in gen.kinds]), a=t)
        elif rnd.random() < 0.06 and "Sparse" in gen.kinds and not gen.sparse_sorted:
            # larger sparse patterns (5..8 rows/columns, 40-80 % fill, several entries per row and column, shuffled order):
            # index sorting inside Sparse and its transposes only matters beyond a handful of entries
            m_, n_ = rnd.randint(5, 8), rnd.randint(5, 8)
            pos = rnd.sample([(i, j) for i in range(m_) for j in range(n_)], rnd.randint(int(0.4 * m_ * n_), int(0.8 * m_ * n_)))
            dt_ = gen.dt(rnd.random() < 0.5)
            t = dict(k="Sparse", dt=dt_, m=m_, n=n_, ent=[[i, j, gen.val(dt_)] for i, j in pos])
            w_ = rnd.random()
            if w_ < 0.5 and {"Transp", "Adj"} & set(gen.kinds):
                t = dict(k=rnd.choice([w for w in ("Transp", "Adj") if w in gen.kinds]), a=t)
            elif w_ < 0.7 and "Prod" in gen.kinds:
                t = dict(k="Prod", ms=[gen.tree(0, (rnd.randint(1, 3), m_)), t])
        elif rnd.random() < 0.05:
            t = T.near_real_tree(gen, rnd) if rnd.random() < 0.5 else T.near_sym_tree(gen, rnd)
            if rnd.random() < 0.5 and {"Transp", "Adj"} & set(gen.kinds):
                t = dict(k=rnd.choice([w for w in ("Transp", "Adj") if w in gen.kinds]), a=t)
        elif rnd.random() < 0.08:   # wide operators: the generic to_dense path multiplies the identity on the left
            t = gen.tree(rnd.randint(0, 2), (1, rnd.randint(9, 12)))
        elif rnd.random() < 0.05:  # 1xN / Nx1
            t = gen.tree(rnd.randint(0, 2), rnd.choice([(1, rnd.randint(1, 5)), (rnd.randint(1, 5), 1)]))
        else:
            t = gen.tree(rnd.randint(0, depth_max))
        m, n = T.shape(t)
        if m * n > 600 or m == 0 or n == 0:
            continue
        tree_cplx = any(d in T.CPLX for d in leaf_dts(t))
        xc = rnd.random() < (0.6 if tree_cplx else 0.25)
        k = rnd.choice([1, 2, 3])
        dx = rnd.choice(T.CPLX if xc else T.REAL)
        wide64 = set(leaf_dts(t)) <= {"float64", "complex128", "int64"}
        if wide64 and T.absbound(t) > 2 ** 18:
            dx = "complex128" if xc else "float64"       # large 64-bit payloads: operand in double precision as well
        big = dx in ("float64", "complex128") and rnd.random() < 0.25 and not has_kind(t, ("Gen",)) and T.absbound(t) <= 2 ** 18
        case = dict(tree=t, m=m, n=n, k=k, dx=dx, X=rand_mat(rnd, n, k, xc, big=big), XL=rand_mat(rnd, k, m, xc, big=big), big_operand=big)
        if accept and not accept(case):
            continue
        if T.absbound(t) * 5 * max(n, m) > (2 ** 45 if (wide64 and dx in ("float64", "complex128")) else bound):
            continue
        cases.append(case)
    return cases


def build_case(case):
    """the operator of a case: plain constructors, or (key 'an') the same tree with TRUE annotation declarations at its nodes
    (property C05's generator): annotations must not change the action or the dense form"""
    if case.get("an"):
        from props import c05
        return c05.build(case["an"])
    return T.build(case["tree"])


def run_impl(case):
    """observables of the implementation on one case (public API only)"""
    t = case["tree"]
    m, n, k = case["m"], case["n"], case["k"]
    obs = {}
    try:
        A = build_case(case)
        X = np_of(case["X"], n, k, case["dx"])
        XL = np_of(case["XL"], k, m, case["dx"])
        obs["shape"] = list(A.shape)
        obs["dtype"] = str(np.dtype(A.dtype))
        D = A.to_dense()
        Y = A @ X
        y = A @ X[:, 0]
        obs["dense"] = T.to_gauss(D)
        obs["dense_dtype"] = str(D.dtype)
        obs["dense_shape"] = list(D.shape)
        obs["res"] = T.to_gauss(Y)
        obs["res_dtype"] = str(Y.dtype)
        obs["res_shape"] = list(Y.shape)
        obs["vec"] = T.to_gauss(y)
        obs["vec_shape"] = list(y.shape)
        obs["ok"] = True
        try:
            obs["resl_dtype"] = str((XL @ A).dtype)
        except Exception:
            obs["resl_dtype"] = None
    except Exception as e:  # an exception on a well-formed case is an observation, not a skip
        obs["ok"] = False
        obs["err"] = type(e).__name__ + ": " + str(e)[:200]
    return obs


def run_impl_left(case):
    t = case["tree"]
    m, n, k = case["m"], case["n"], case["k"]
    obs = {}
    try:
        A = build_case(case)
        XL = np_of(case["XL"], k, m, case["dx"])
        YL = XL @ A
        yl = XL[0] @ A
        obs["resl"] = T.to_gauss(YL)
        obs["resl_dtype"] = str(YL.dtype)
        obs["resl_shape"] = list(YL.shape)
        obs["vecl"] = T.to_gauss(yl)
        obs["ok"] = True
    except Exception as e:
        obs["ok"] = False
        obs["err"] = type(e).__name__ + ": " + str(e)[:200]
    return obs


def coq_case(case, obs, obsl=None):
    z = T.zmat
    none = [[]]
    return ("{| ce := " + T.coq(case["tree"]) + f"; cm := {case['m']}; cn := {case['n']}; ck := {case['k']}; "
            f"cx := {z(case['X'])}; cxl := {z(case['XL'])}; cdense := {z(obs['dense']) if obs and obs.get('ok') else z(none)}; "
            f"cres := {z(obs['res']) if obs and obs.get('ok') else z(none)}; "
            f"cresl := {z(obsl['resl']) if obsl and obsl.get('ok') else z(none)}; "
            f"cvec := {T.zrow(obs['vec']) if obs and obs.get('ok') else '[]'} |}}")


def eval_in_coq(name, case_terms, checker, shard=250, timeout=900, header_extra=""):
    """returns (failing indices, error text or None)"""
    jobs = []
    for s in range(0, len(case_terms), shard):
        body = HEADER + header_extra + "Definition cases : list case := [\n" + ";\n".join(case_terms[s:s + shard]) + "].\n"
        body += f"Eval vm_compute in (length cases, failing {checker} 0 cases).\n"
        jobs.append((f"{name}_{s // shard}", body))
    outs = core.coqc_many(jobs, timeout)
    failing = []
    for si, (rc, out) in enumerate(outs):
        m = re.search(r"=\s*\((\d+),\s*\[(.*?)\]\)", out, flags=re.S)
        if rc != 0 or not m:
            return None, f"shard {si}: rc={rc}\n{out[-1500:]}"
        if m.group(2).strip():
            failing += [si * shard + int(x) for x in m.group(2).replace("\n", " ").split(";") if x.strip()]
    return failing, None


def oracle_fwd(case, obs):
    """independent check of the property on the implementation's output; returns list of failed clauses"""
    D = T.dense(case["tree"])
    X = np_of(case["X"], case["n"], case["k"], "complex128")
    bad = []
    if not obs.get("ok"):
        return ["raised " + obs.get("err", "")]
    if obs["shape"] != [case["m"], case["n"]]:
        bad.append("shape")
    if obs["dense_shape"] != list(D.shape) or not np.array_equal(np_of(obs["dense"], *D.shape, "complex128"), D):
        bad.append("to_dense")
    Y = D @ X
    if obs["res_shape"] != list(Y.shape) or not np.array_equal(np_of(obs["res"], *Y.shape, "complex128"), Y):
        bad.append("matmat")
    if obs["vec_shape"] != [case["m"]] or not np.array_equal(np.array([complex(*v) for v in obs["vec"]]), Y[:, 0]):
        bad.append("matvec")
    return bad


def oracle_left(case, obsl):
    D = T.dense(case["tree"])
    XL = np_of(case["XL"], case["k"], case["m"], "complex128")
    if not obsl.get("ok"):
        return ["raised " + obsl.get("err", "")]
    bad = []
    Y = XL @ D
    if obsl["resl_shape"] != list(Y.shape) or not np.array_equal(np_of(obsl["resl"], *Y.shape, "complex128"), Y):
        bad.append("rmatmat")
    if not np.array_equal(np.array([complex(*v) for v in obsl["vecl"]]), Y[0]):
        bad.append("rmatvec")
    return bad


def promote_all(dts):
    out = np.dtype(dts[0])
    for d in dts[1:]:
        out = np.promote_types(out, np.dtype(d))
    return str(out)


def histogram(cases):
    h = {}
    for c in cases:
        for k in set(T.kinds_of(c["tree"])):
            h[k] = h.get(k, 0) + 1
    return h


def nontrivial(case):
    t = case["tree"]
    return T.depth(t) >= 2 or t["k"] in ("Sparse", "Tridiag", "House", "Perm")
