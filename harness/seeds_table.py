"""prints the markdown table of DESIGN.md section 9 from seeded/*/meta.json"""
import json, glob, os
rows = []
for d in sorted(glob.glob("/verif/seeded/*/")):
    sid = os.path.basename(d.rstrip("/"))
    m = json.load(open(d + "meta.json"))
    st = (" **[" + m["status"].split(":")[0] + "]**") if m.get("status") else ""
    rows.append(f"| {sid} | {m.get('round', 1)} | {m['change']} | {m['needs_to_manifest']} | {m['verdict']}{st} |")
print("| seed | round | change | needs, to manifest | verdict of the check |\n|---|---|---|---|---|")
print("\n".join(rows))
