#!/bin/bash
# usage: seed_eval5.sh <Cxx> <a|b> [check ids...]  -- confirm a round-2 seed in its own worktree and run the property's check(s) against the patched worktree
P=$1; x=$2; shift 2; checks=${@:-$P}; wt=/tmp/seed5/$P; sd=$wt/seeded_out/$x
echo "=== $P/$x"
cd $wt && git checkout -q -- cola
PYTHONPATH=$wt /venv/bin/python $sd/demo.py >/dev/null 2>&1; echo "demo unchanged rc=$?"
git apply $sd/patch.diff || { echo "PATCH DOES NOT APPLY"; exit 2; }
PYTHONPATH=$wt /venv/bin/python $sd/demo.py >/dev/null 2>&1; echo "demo patched rc=$?"
/venv/bin/python -m pytest -q -p no:cacheprovider --timeout=900 --continue-on-collection-errors -rA 2>/dev/null | grep "^PASSED" | sort > /tmp/seed5/_${P}${x}_passed.txt
diff -q /tmp/seed5/_base_passed.txt /tmp/seed5/_${P}${x}_passed.txt >/dev/null && echo "same passed set as baseline ($(wc -l < /tmp/seed5/_${P}${x}_passed.txt))" || echo "PASSED SET DIFFERS"
for c in $checks; do (cd /verif && COLA_REPO=$wt timeout 2400 ./check $c 2>&1 | grep -v "^KNOWN" | tail -2 | cut -c1-250); done
cd $wt && git checkout -q -- cola
