"""Backend shim: the NumPy backend of cola lacks vmap / linear_transpose / sparse_csr / to_np.
The properties' `hook_needed` fields say the harness installs them at import time; this is
harness code (trusted base), not a change to /repo.  Import this module before using cola."""
import os, sys
REPO = os.environ.get("COLA_REPO", "/repo")
if REPO not in sys.path:
    sys.path.insert(0, REPO)
import warnings
warnings.filterwarnings("ignore")
import numpy as np, optree
import scipy.sparse as sp
from cola.backends import np_fns


def to_np(a):
    return np.asarray(a)


def sparse_csr(indptr, indices, data, shape):
    return sp.csr_array((data, indices, indptr), shape=shape)


def linear_transpose(fun, primals, duals):
    # transpose of the linear map X -> fun(X): apply it to the identity, multiply by the transposed matrix
    n = primals.shape[0]
    M = fun(np.eye(n, dtype=primals.dtype))
    return M.T @ duals


def vmap(fun, in_axes=0, out_axes=0):
    def f(*args):
        leaves = optree.tree_leaves(args, namespace='cola')
        n = leaves[0].shape[0]
        outs = [fun(*optree.tree_map(lambda x: x[i], args, namespace='cola')) for i in range(n)]
        return optree.tree_map(lambda *xs: np.stack(xs), *outs, namespace='cola')
    return f


def jvp_derivs(fun, primals, tangents, create_graph=True):
    # exact derivatives are supplied with the map (closed family of polynomial maps the generator uses)
    if hasattr(fun, "jvp"):
        return fun.jvp(primals[0], tangents[0])
    raise np_fns.NumpyNotImplementedError()


def vjp_derivs(fun, primals, duals, create_graph=True):
    if hasattr(fun, "vjp"):
        return (fun.vjp(primals[0], duals), )
    raise np_fns.NumpyNotImplementedError()


def grad(fun):
    if hasattr(fun, "grad_obj"):
        return fun.grad_obj
    raise np_fns.NumpyNotImplementedError()


class QuadMap:
    """f(x)_i = x^T Q_i x + (M x)_i with integer data; Jacobian J(x)[i,:] = x^T (Q_i + Q_i^T) + M[i,:]"""
    def __init__(self, Q, M):
        self.Q, self.M = np.asarray(Q, dtype=float), np.asarray(M, dtype=float)

    def jac(self, x):
        return np.einsum("j,ijk->ik", x, self.Q + self.Q.transpose(0, 2, 1)) + self.M

    def __call__(self, x):
        return np.einsum("j,ijk,k->i", x, self.Q, x) + self.M @ x

    def jvp(self, x, t):
        return self.jac(np.asarray(x)) @ t

    def vjp(self, x, v):
        return v @ self.jac(np.asarray(x))


class QuadForm:
    """scalar f(x) = x^T S x / 2 with S symmetric; Hessian = S"""
    class _G:
        def __init__(self, S):
            self.S = S

        def jvp(self, x, t):
            return self.S @ t

    def __init__(self, S):
        self.S = np.asarray(S, dtype=float)
        self.grad_obj = QuadForm._G(self.S)

    def __call__(self, x):
        return 0.5 * x @ self.S @ x


for _name, _f in [("to_np", to_np), ("sparse_csr", sparse_csr), ("linear_transpose", linear_transpose), ("vmap", vmap),
                  ("jvp_derivs", jvp_derivs), ("vjp_derivs", vjp_derivs), ("grad", grad)]:
    setattr(np_fns, _name, _f)
import cola  # noqa: E402
