"""Backend shim: the NumPy backend of cola lacks vmap / linear_transpose / sparse_csr / to_np.
The properties' `hook_needed` fields say the harness installs them at import time; this is
harness code (trusted base), not a change to /repo.  Import this module before using cola."""
import os, sys
REPO = os.environ.get("COLA_REPO", "/repo")
if REPO not in sys.path:
    sys.path.insert(0, REPO)
import warnings
warnings.filterwarnings("ignore")
import numpy as np, optree
import scipy.sparse as sp
from cola.backends import np_fns


def to_np(a):
    return np.asarray(a)


def sparse_csr(indptr, indices, data, shape):
    return sp.csr_array((data, indices, indptr), shape=shape)


def linear_transpose(fun, primals, duals):
    # transpose of the linear map X -> fun(X): apply it to the identity, multiply by the transposed matrix
    n = primals.shape[0]
    M = fun(np.eye(n, dtype=primals.dtype))
    return M.T @ duals


def vmap(fun, in_axes=0, out_axes=0):
    def f(*args):
        leaves = optree.tree_leaves(args, namespace='cola')
        n = leaves[0].shape[0]
        outs = [fun(*optree.tree_map(lambda x: x[i], args, namespace='cola')) for i in range(n)]
        return optree.tree_map(lambda *xs: np.stack(xs), *outs, namespace='cola')
    return f


for _name, _f in [("to_np", to_np), ("sparse_csr", sparse_csr), ("linear_transpose", linear_transpose), ("vmap", vmap)]:
    setattr(np_fns, _name, _f)
import cola  # noqa: E402
