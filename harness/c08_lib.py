"""C08 helpers: square operator trees over the kinds of the statement (small exhaustive sizes and compact large ones),
running cola's diag/trace, the independent oracle, printing cases for coq/C08_Check.v."""
import re
import numpy as np
import shim  # noqa: F401
import trees as T
import opcases as O
import core

HEADER = ("From Coq Require Import ZArith List Bool Arith.\n"
          "From Core Require Import Base Kron Op ZIInst C08_Diag C08_Rules C08_Check.\nImport ListNotations.\n")
STRUCT = ("Dense", "Tri", "Ident", "Diag", "Scal", "Sum", "BDiag", "Kron", "KronSum")
BIG = (99, 100, 101, 150, 199, 200, 201, 230)
BS = 100


def subs(t):
    return t.get("ms") or ([t["a"]] if isinstance(t.get("a"), dict) else [])


def ragged(B, n, k):
    """independent statement of when exact_diag raises on an n x n operator (derived by hand from the source)"""
    if n <= B or n % B == 0 or k == 0:
        return False
    r = n % B
    return r >= 2 if k < 0 else k < B - r


def factorisations(n, rnd, maxf=3):
    """n as a product of 2..maxf factors >= 1"""
    out = []
    for a in range(1, n + 1):
        if n % a == 0:
            out.append([a, n // a])
            m = n // a
            for b in range(2, m):
                if m % b == 0:
                    out.append([a, b, m // b])
    return [f for f in out if len(f) <= maxf]


class SqGen:
    """square trees; every leaf of one tree has the same dtype (keeps clear of the dtype findings of C01)"""

    def __init__(self, rnd, dt, vmax=3, nonsq=0.0):
        self.rnd = rnd
        self.dt = dt
        self.cplx = dt in T.CPLX
        self.g = T.Gen(rnd, kinds=[k for k in T.LEAF + T.COMP if k not in ("KronSum", "Kron", "BDiag")], dts=(dt,), vmax=vmax)
        self.g.concat_equal = True
        self.g.sparse_sorted = True
        self.nonsq = nonsq       # probability of non-square Kronecker factors / blocks (region of two findings)
        self.vmax = vmax

    def val(self):
        return self.g.val(self.dt)

    def dense(self, m, n):
        return dict(k="Dense", dt=self.dt, a=[[self.val() for _ in range(n)] for _ in range(m)])

    def struct_leaf(self, n):
        k = self.rnd.choice(["Dense", "Dense", "Diag", "Ident", "Scal"])
        if k == "Dense":
            return self.dense(n, n)
        if k == "Diag":
            return dict(k="Diag", dt=self.dt, d=[self.val() for _ in range(n)])
        if k == "Ident":
            return dict(k="Ident", dt=self.dt, n=n)
        return dict(k="Scal", dt=self.dt, c=self.val(), n=n)

    def generic(self, n, depth):
        """an operator without a structural diag rule"""
        r = self.rnd
        k = r.choice(["Prod", "Prod", "Transp", "Adj", "leaf", "Sliced", "Concat", "ProdS"])
        if k == "leaf":
            while True:
                t = self.g.leaf((n, n), self.cplx)
                if t["k"] in ("Perm", "Tridiag", "House", "Sparse"):
                    return sanitize_sparse(t)
        if k == "ProdS":
            return dict(k="Prod", ms=[self.tree(n, depth - 1), self.tree(n, depth - 1)])
        if k in ("Transp", "Adj"):
            return dict(k=k, a=self.tree(n, depth - 1))
        for _ in range(50):
            t = sanitize_sparse(self.g.tree(max(depth, 1), (n, n), self.cplx))
            if t["k"] == dict(Prod="Prod", Sliced="Sliced", Concat="Concat").get(k, "Prod") and sliced_ok(t):
                return t
        return dict(k="Prod", ms=[self.dense(n, 2), self.dense(2, n)])

    def tree(self, n, depth):
        r = self.rnd
        if depth <= 0:
            return self.struct_leaf(n) if r.random() < 0.75 else self.generic(n, 0)
        k = r.choice(["leaf", "Sum", "BDiag", "Kron", "KronSum", "generic", "generic", "Sum", "BDiag", "Kron"])
        d = depth - 1
        if k == "leaf":
            return self.struct_leaf(n)
        if k == "generic":
            return self.generic(n, d)
        if k == "Sum":
            return dict(k="Sum", ms=[self.tree(n, d) for _ in range(r.randint(2, 3))])
        if k == "BDiag":
            parts, left = [], n
            while left > 0:
                b = r.randint(1, left)
                mu = r.randint(1, left // b)
                if r.random() < 0.5:
                    mu = 1
                parts.append((b, mu))
                left -= b * mu
            if r.random() < self.nonsq and len(parts) >= 2 and parts[0][1] == 1 and parts[1][1] == 1:
                (b0, _), (b1, _) = parts[0], parts[1]       # (b0 x b1) and (b1 x b0) blocks: still square overall
                ms = [self.dense(b0, b1), self.dense(b1, b0)] + [self.tree(b, d) for b, _ in parts[2:]]
                return dict(k="BDiag", ms=ms, mu=[1, 1] + [mu for _, mu in parts[2:]])
            return dict(k="BDiag", ms=[self.tree(b, d) for b, _ in parts], mu=[mu for _, mu in parts])
        fs = r.choice(factorisations(n, r))
        r.shuffle(fs)
        if k == "Kron":
            if r.random() < self.nonsq and len(fs) == 2:
                return dict(k="Kron", ms=[self.dense(fs[0], fs[1]), self.dense(fs[1], fs[0])])
            return dict(k="Kron", ms=[self.tree(f, d) for f in fs])
        return dict(k="KronSum", ms=[self.tree(f, d) for f in fs])

    # ---- compact large trees
    def small_sq(self, b, depth=1):
        return self.tree(b, depth) if b <= 12 else self.struct_leaf(b) if self.rnd.random() < 0.5 or b > 40 else self.tree(b, 0)

    def big_struct(self, n, depth=2):
        """structural kinds only, payload O(n)"""
        r = self.rnd
        k = r.choice(["Diag", "Ident", "Scal", "BDiag", "BDiag", "Kron", "Kron", "KronSum", "Sum", "Sum"]) if depth > 0 else r.choice(["Diag", "Ident", "Scal"])
        if k == "Diag":
            return dict(k="Diag", dt=self.dt, d=[self.val() for _ in range(n)])
        if k == "Ident":
            return dict(k="Ident", dt=self.dt, n=n)
        if k == "Scal":
            return dict(k="Scal", dt=self.dt, c=self.val(), n=n)
        if k == "Sum":
            return dict(k="Sum", ms=[self.big_struct(n, depth - 1) for _ in range(2)])
        if k == "BDiag":
            for _ in range(200):
                b1, b2 = r.randint(1, 6), r.randint(1, 6)
                mu1 = r.randint(1, max(1, n // b1))
                rest = n - b1 * mu1
                if rest == 0:
                    return dict(k="BDiag", ms=[self.small_sq(b1)], mu=[mu1])
                if rest > 0 and rest % b2 == 0:
                    return dict(k="BDiag", ms=[self.small_sq(b1), self.small_sq(b2)], mu=[mu1, rest // b2])
            return dict(k="BDiag", ms=[self.small_sq(1)], mu=[n])
        fs = [f for f in factorisations(n, r) if max(f) <= 70 or len(f) == 2]
        fs = r.choice(fs)
        r.shuffle(fs)
        ms = [self.small_sq(f, 1) if f <= 12 else self.big_struct(f, 0) for f in fs]
        return dict(k=k, ms=ms)

    def big_cheap_generic(self, n):
        """generic operators whose products are cheap in the Coq model (explicit structured products)"""
        r = self.rnd

        def leaf():
            k = r.choice(["Diag", "Perm", "Tridiag", "Scal", "Sparse"])
            if k == "Diag":
                return dict(k="Diag", dt=self.dt, d=[self.val() for _ in range(n)])
            if k == "Scal":
                return dict(k="Scal", dt=self.dt, c=self.val(), n=n)
            if k == "Perm":
                p = list(range(n))
                r.shuffle(p)
                return dict(k="Perm", dt=self.dt, p=p)
            if k == "Tridiag":
                return dict(k="Tridiag", dt=self.dt, al=[self.val() for _ in range(n - 1)], be=[self.val() for _ in range(n)],
                            ga=[self.val() for _ in range(n - 1)])
            rows = r.sample(range(n), min(n, 12))
            cols = r.sample(range(n), min(n, 12))
            return dict(k="Sparse", dt=self.dt, m=n, n=n, ent=[[i, j, self.val()] for i, j in zip(rows, cols)])
        k = r.choice(["Prod2", "Prod3", "leaf", "SumG"])
        if k == "leaf":
            while True:
                t = leaf()
                if t["k"] in ("Perm", "Tridiag", "Sparse"):
                    return t
        if k == "Prod2":
            return dict(k="Prod", ms=[leaf(), leaf()])
        if k == "Prod3":
            return dict(k="Prod", ms=[leaf(), leaf(), leaf()])
        return dict(k="Sum", ms=[dict(k="Prod", ms=[leaf(), leaf()]), dict(k="Diag", dt=self.dt, d=[self.val() for _ in range(n)])])

    def big_dense_generic(self, n):
        """generic operators with dense payloads (the Coq side gets their dense matrix)"""
        r = self.rnd
        k = r.choice(["ProdDD", "TranspD", "AdjD", "SlicedD", "ProdDP", "House"])
        if k == "ProdDD":
            p = r.randint(1, 3)
            return dict(k="Prod", ms=[self.dense(n, p), self.dense(p, n)])
        if k == "TranspD":
            return dict(k="Transp", a=self.dense(n, n))
        if k == "AdjD":
            return dict(k="Adj", a=self.dense(n, n))
        if k == "SlicedD":
            a = r.randint(0, 2)
            return dict(k="Sliced", a=self.dense(n + 2, n + 2), rs=list(range(a, a + n)), cs=list(range(2 - a, 2 - a + n)))
        if k == "House":
            return dict(k="House", dt=self.dt, v=[self.g.val(self.dt) if r.random() < 0.1 else [0, 0] for _ in range(n)], beta=self.val())
        p = list(range(n))
        r.shuffle(p)
        return dict(k="Prod", ms=[self.dense(n, n), dict(k="Perm", dt=self.dt, p=p)])


def herm_generic(g, n):
    """(tree, declaration or None): an operator WITHOUT a structural diag rule whose matrix is Hermitian by construction, with a
    true SelfAdjoint / PSD declaration on it or an annotation cola infers itself (W^H W); complex ones have complex off-diagonals"""
    r = g.rnd

    def hdense(m):
        a = [[None] * m for _ in range(m)]
        for i in range(m):
            for j in range(i, m):
                x = g.val()
                if i == j:
                    x = [x[0], 0]
                a[i][j] = x
                a[j][i] = [x[0], -x[1]]
        return dict(k="Dense", dt=g.dt, a=a)
    form = r.choice(["gram", "gram_decl", "adj", "prod_id", "sliced", "tridiag", "house", "sum_prod"])
    if form in ("gram", "gram_decl"):
        W = g.dense(r.randint(1, 3), n)
        t = dict(k="Prod", ms=[dict(k="Adj", a=W), W])
        return t, (None if form == "gram" else r.choice(["PSD", "SelfAdjoint"]))
    if form == "adj":
        return dict(k=r.choice(["Adj", "Transp"]), a=hdense(n)) if not g.cplx else dict(k="Adj", a=hdense(n)), "SelfAdjoint"
    if form == "prod_id":
        return dict(k="Prod", ms=[hdense(n), dict(k="Ident", dt=g.dt, n=n)]), "SelfAdjoint"
    if form == "sliced":
        a = r.randint(0, 2)
        return dict(k="Sliced", a=hdense(n + 2), rs=list(range(a, a + n)), cs=list(range(a, a + n))), "SelfAdjoint"
    if form == "tridiag":
        off = [g.val() for _ in range(n - 1)]
        return dict(k="Tridiag", dt=g.dt, al=[[x[0], -x[1]] for x in off], be=[[g.val()[0], 0] for _ in range(n)], ga=off), "SelfAdjoint"
    if form == "house":
        return dict(k="House", dt=g.dt, v=[g.val() for _ in range(n)], beta=[r.randint(-2, 2), 0]), "SelfAdjoint"
    W = g.dense(r.randint(1, 2), n)
    H = hdense(n)
    return dict(k="Prod", ms=[dict(k="Sum", ms=[dict(k="Prod", ms=[dict(k="Adj", a=W), W]), H]), dict(k="Ident", dt=g.dt, n=n)]), "SelfAdjoint"


def sanitize_sparse(t):
    """see props/c20.py: stay inside the region C01's Sparse finding does not spoil"""
    if t["k"] == "Sparse":
        rows, cols, ent = set(), set(), []
        for i, j, v in t["ent"]:
            if i not in rows and j not in cols:
                rows.add(i)
                cols.add(j)
                ent.append([i, j, v])
        t["ent"] = ent
    for x in subs(t):
        sanitize_sparse(x)
    return t


def sliced_ok(t):
    if t["k"] == "Sliced" and (T.range_slice(t["rs"]) is None or T.range_slice(t["cs"]) is None):
        return False
    return all(sliced_ok(x) for x in subs(t))


def nonsq_parts(t):
    """flags whose region the tree touches: Kronecker with non-square factors, BlockDiag with non-square blocks"""
    out = set()
    if t["k"] == "Kron" and any(T.shape(x)[0] != T.shape(x)[1] for x in t["ms"]):
        out.add("kron_diag_nonsquare_factors")
    if t["k"] == "BDiag" and any(T.shape(x)[0] != T.shape(x)[1] for x in t["ms"]):
        out.add("blockdiag_diag_nonsquare_blocks")
    for x in subs(t):
        out |= nonsq_parts(x)
    return out


def generic_sizes(t, top=True, acc=None):
    """sizes of the sub-operators whose diagonal is computed by exact_diag (reached through structural rules only)"""
    acc = acc if acc is not None else []
    if t["k"] in STRUCT:
        if t["k"] in ("Sum", "BDiag", "Kron", "KronSum"):
            for x in t["ms"]:
                generic_sizes(x, False, acc)
    else:
        acc.append(T.shape(t)[0])
    return acc


# ------------------------------------------------------------------ implementation side
def alg_obj(a):
    from cola.linalg import Exact, Auto
    if a[0] == "exact":
        return Exact()
    if a[0] == "auto":
        return None            # the default argument
    if a[0] == "autoexp":
        return Auto()          # the default written out
    return Auto(tol=a[1] / a[2])


def classify(fn):
    try:
        r = fn()
    except AssertionError:
        return dict(cls="err", err="DAssert")
    except ValueError as e:
        return dict(cls="err", err="DValue", msg=str(e)[:80])
    except Exception as e:
        return dict(cls="other", err=type(e).__name__ + ": " + str(e)[:120])
    a = np.asarray(r)
    try:
        if a.ndim == 0:
            return dict(cls="val", val=T.to_gauss(a.reshape(1))[0])
        if a.ndim == 1:
            return dict(cls="vec", val=T.to_gauss(a))
        return dict(cls="other", err="ndim %d" % a.ndim)
    except ValueError:
        return dict(cls="err", err="DStoch")        # non-integral entries: the stochastic estimator ran


def run_tree(t, dqs, tqs, ann=None):
    import cola
    A = T.build(t)
    if ann:
        A = getattr(cola, ann)(A)          # a (true) declaration on the root
    dobs, tobs = [], []
    for k, a in dqs:
        al = alg_obj(a)
        dobs.append(classify((lambda: cola.linalg.diag(A, k)) if al is None else (lambda: cola.linalg.diag(A, k, al))))
    for a in tqs:
        al = alg_obj(a)
        tobs.append(classify((lambda: cola.linalg.trace(A)) if al is None else (lambda: cola.linalg.trace(A, al))))
    return dobs, tobs


# ------------------------------------------------------------------ Coq printing
def coq_alg(a):
    if a[0] == "exact":
        return "AExact"
    if a[0] in ("auto", "autoexp"):
        return "default_auto"
    return f"(AAuto {a[1]} {a[2]})"


def coq_dobs(o, loose=False):
    if o["cls"] == "err":
        return f"({'DErrT' if loose else 'DErr'} {o['err']})"
    if o["cls"] == "vec":
        return f"({'DVecT' if loose else 'DVec'} {T.zrow(o['val'])})"
    return "DOther"


def coq_tobs(o, loose=False):
    if o["cls"] == "err":
        return f"({'TErrT' if loose else 'TErr'} {o['err']})"
    if o["cls"] == "val":
        return f"({'TValT' if loose else 'TVal'} {T.zc(o['val'])})"
    return "TOther"


def straddle(n):
    """two tolerances tp/10^6 around Auto's switch tol < 1/sqrt(10*n*n): (largest below, smallest not below)"""
    import math
    t = math.isqrt(10 ** 12 // (10 * n * n))
    while (t + 1) ** 2 * 10 * n * n < 10 ** 12:
        t += 1
    while t ** 2 * 10 * n * n >= 10 ** 12:
        t -= 1
    return ("tol", t, 10 ** 6), ("tol", t + 1, 10 ** 6)


def outcome_class(o, want):
    """0 the exact value, 1 ValueError, 2 stochastic (non-integral) estimate, 3 AssertionError, 9 anything else (wrong integers, ...)"""
    if o["cls"] == "err":
        return dict(DValue=1, DStoch=2, DAssert=3).get(o["err"], 9)
    if o["cls"] == "vec":
        w = np.asarray(want).reshape(-1)
        return 0 if len(o["val"]) == len(w) and all(complex(*a) == complex(b) for a, b in zip(o["val"], w)) else 9
    if o["cls"] == "val":
        return 0 if complex(*o["val"]) == complex(want) else 9
    return 9


def coq_acase(n, fx, qs):
    return "{| an := " + f"{n}; afx := {coq_bool(fx)}; aqs := [" + ";".join(f"(({k})%Z, {coq_alg(a)}, {c}%nat)" for k, a, c in qs) + "] |}"


def coq_bool(x):
    return "true" if x else "false"


def coq_tcase(t, n, dqs, dobs, tqs, tobs, df):
    dq = ";".join(f"(({k})%Z, {coq_alg(a)}, {coq_dobs(o, a[0] == 'tol')})" for (k, a), o in zip(dqs, dobs))
    tq = ";".join(f"({coq_alg(a)}, {coq_tobs(o, a[0] == 'tol')})" for a, o in zip(tqs, tobs))
    dfl = f"(mkdflags {coq_bool(df['ragged_fixed'])} {coq_bool(df['kron_refuse'])} {coq_bool(df['bd_refuse'])})"
    return "{| te := " + T.coq(t) + f"; tn := {n}; tdf := {dfl}; tdq := [{dq}]; ttq := [{tq}] |}}"


def coq_gcase(n, M, vq, vobs, cls, df):
    dq = ";".join(f"(({k})%Z, {coq_dobs(o)})" for k, o in zip(vq, vobs))
    cl = ";".join(f"(({k})%Z, {'true' if b else 'false'})" for k, b in cls)
    return "{| gn := " + f"{n}; gfx := {coq_bool(df['ragged_fixed'])}; gM := {T.zmat(T.to_gauss(M))}; gdq := [{dq}]; gcls := [{cl}] |}}"


def eval_coq(name, terms, typ, fn, cnt, shard, timeout=1500):
    """returns (dict case index -> list of (kind, index), number of queries Coq saw, error)"""
    jobs = []
    for s in range(0, len(terms), shard):
        body = HEADER + f"Definition cases : list {typ} := [\n" + ";\n".join(terms[s:s + shard]) + "].\n"
        body += f"Eval vm_compute in (length cases, {cnt} cases, {fn} 0 cases).\n"
        jobs.append((f"{name}_{s // shard}", body))
    outs = core.coqc_many(jobs, timeout)
    bad, nq = {}, 0
    for si, (rc, out) in enumerate(outs):
        out = out.replace("%nat", "")
        m = re.search(r"=\s*\((\d+),\s*(\d+),\s*\[(.*)\]\)\s*:", out, flags=re.S)
        if rc != 0 or not m:
            return None, 0, f"{name} shard {si}: rc={rc}\n{out[-1500:]}"
        nq += int(m.group(2))
        for cm in re.finditer(r"\((\d+),\s*\[((?:\s*\(\d+,\s*\d+\)\s*;?)*)\]\)", m.group(3)):
            bad[si * shard + int(cm.group(1))] = [(int(a), int(b)) for a, b in re.findall(r"\((\d+),\s*(\d+)\)", cm.group(2))]
    return bad, nq, None
