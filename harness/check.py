"""./check <Cxx> [--tier quick|thorough] [--replay file]   (DESIGN.md section 4.1)"""
import os, sys, json, importlib, traceback, argparse
HERE = os.path.dirname(os.path.abspath(__file__))
sys.path.insert(0, HERE)
os.environ.setdefault("PYTHONHASHSEED", "0")
import core


def main():
    ap = argparse.ArgumentParser()
    ap.add_argument("pid")
    ap.add_argument("--tier", default=os.environ.get("VERIF_TIER") or "quick")
    ap.add_argument("--replay", default=None)
    a = ap.parse_args()
    pid = a.pid.upper()
    seed = int(os.environ.get("VERIF_SEED") or 0)
    tier = a.tier if a.tier in ("quick", "thorough") else "quick"
    ctx = core.Ctx(pid, tier, seed)
    mod = importlib.import_module(f"props.{pid.lower()}")
    if a.replay:
        payload = json.load(open(a.replay))
        if hasattr(mod, "replay"):
            sys.exit(mod.replay(ctx, payload))
        print("replay: this property's module re-runs its witness set; running the full check")
    ok, log = core.build_coq()
    gate = core.coq_gate()
    if ok:
        proof = core.check_props_file(pid, getattr(mod, "EXTRA_AXIOMS", ()))
    else:
        proof = dict(ok=False, theorems=[], log=log)
    if gate:
        proof["ok"] = False
        proof["gate"] = gate
    if tier == "thorough" and proof.get("ok"):
        chk = core.coqchk_props(pid, getattr(mod, "EXTRA_AXIOMS", ()))
        proof["coqchk_ok"] = chk["ok"]
        proof["coqchk_axioms"] = chk["axioms"]
        if not chk["ok"]:
            proof["ok"] = False
            proof["log"] = "coqchk: " + str(chk.get("bad")) + str(chk.get("unsafe")) + "\n" + chk["log"]
    tf = core.translator_failure(pid)
    if tf:
        proof["ok"] = False
        proof["log"] = tf + "\n" + str(proof.get("log", ""))
    try:
        res = mod.run(ctx)
    except Exception:
        tb = traceback.format_exc()
        print(tb, file=sys.stderr)
        res = dict(evaluations=0, distinct_nontrivial=0, rule="harness crashed", samples=[],
                   mismatches=[dict(oracle_fail=False, harness_error=tb[-3000:])], findings=[])
    rc = core.conclude(ctx, proof, res, getattr(mod, "TRUSTED_BASE", []), getattr(mod, "ASSUMPTIONS", []))
    sys.exit(rc)


if __name__ == "__main__":
    main()
