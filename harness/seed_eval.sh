#!/bin/bash
# usage: seed_eval.sh <Cxx> <a|b>   -- confirm the seed and run the property's check against the patched scratch worktree
P=$1; x=$2; wt=/tmp/seed/$P; sd=$wt/seeded_out/$x
echo "=== $P/$x"
/verif/harness/confirm_seed.sh $wt $sd
cd $wt && git checkout -q -- cola && git apply $sd/patch.diff && (cd /verif && COLA_REPO=$wt timeout 1500 ./check $P 2>&1 | grep -v "^KNOWN" | tail -2)
cd $wt && git checkout -q -- cola
