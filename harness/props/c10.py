"""C10 - eig returns the requested eigenpairs of the represented matrix (DESIGN.md section 5, C10)."""
import numpy as np
import shim  # noqa: F401
import core
import c10_lib as L

TRUSTED_BASE = [
    "Coq 8.16.1 kernel + vm_compute; theorems of coq/PropsC10.v closed under the global context (no axioms)",
    "hand-written model coq/C10_Model.v (get_slice via PySlice.v, Auto table, oracle-then-slice rules, Identity/Diagonal/Triangular rules with "
    "back-substitution, argsort) and coq/C10_Power.v (power iteration) as a reading of cola/linalg/eig/eigs.py, decompositions.py:212-224, "
    "power_iteration.py - tied to /repo by this correspondence check",
    "LAPACK eigh/eig, lanczos_eigs (C14), arnoldi_eigs (C15), lobpcg are oracles: their outputs on each case are passed into the model as data "
    "(exact binary64 values as rationals) and their specification (A V = V diag w, non-zero columns, ascending order for eigh) is checked numerically here",
    "power iteration runs in Coq on PrimFloat (IEEE binary64) with left-to-right sums; numpy/BLAS order differs: compared at 1e-9, stopping decisions only with margin > 1e-6",
    "harness: this file, c10_lib.py, shim.py; independent oracle: numpy.linalg.eigvals / residuals / singular values on dense matrices",
]
ASSUMPTIONS = [
    "spectra are simple with magnitudes separated by a factor >= 1.35 (conjugate pairs of real matrices are never split by k); selection is compared as a set",
    "Krylov rules with an iteration cap below n return Ritz pairs, not eigenpairs: only the correspondence (oracle, then slice) is checked there",
    "power iteration: real float64 operators; convergence is not proved (limit statement) - the theorems give the stopping contract and the fixed-point property; "
    "the oracle accepts the returned pair when the run stopped by its tolerance and |lambda - lambda_max| <= 1e-3 |lambda_max|",
    "regions spoiled by a present recorded defect are not generated (selection by algebraic value / LAPACK order / value order, lower or complex triangular input, "
    "negative or complex dominant value under power iteration, Arnoldi caps >= n); they are generated again when the probe says the defect is gone",
]
HEADER = ("From Coq Require Import ZArith QArith Qcanon List Bool Arith PrimFloat.\nFrom Core Require Import Base FieldBase C10_Model C10_Power C10_Check.\n"
          "Import ListNotations.\nOpen Scope Z_scope.\n")


# ------------------------------------------------------------------------------------------------ probes
def findings():
    import cola
    from cola import ops
    from cola.linalg import eig, Eig, Eigh, Arnoldi
    SA = cola.SelfAdjoint
    out = []

    def probe(flag, what, fn, witness):
        try:
            present, got = fn()
        except Exception as e:
            present, got = True, f"raised {type(e).__name__}: {str(e)[:160]}"
        out.append(dict(flag=flag, present=bool(present), what=what, witness=witness, got=str(got)))
    D3 = np.diag([-5., 1., 2.])

    def p_eigh():
        w, _ = eig(SA(ops.Dense(D3)), 1, 'LM', Eigh())
        return abs(abs(complex(w[0])) - 5) > 1e-6, w.tolist()
    probe("eigh_algebraic_not_magnitude", "Eigh (and every rule that slices an ascending spectrum: Lanczos, LOBPCG) selects by algebraic value: "
          "'LM' returns the algebraically largest, 'SM' the most negative eigenvalues (Coq witness C10_eigh_LM_refuted)", p_eigh,
          "eig(SelfAdjoint(Dense(diag(-5,1,2))),1,'LM',Eigh())")

    def p_eig():
        w, _ = eig(ops.Dense(np.array([[5., 2.], [0., 1.]])), 1, 'LM', Eig())
        return abs(abs(complex(w[0])) - 5) > 1e-6, np.asarray(w).tolist()
    probe("eig_dense_unsorted", "the Eig rule (and Arnoldi) slices LAPACK's unsorted spectrum: 'LM' returns whatever comes last (Coq witness C10_eig_dense_unsorted_refuted)",
          p_eig, "eig(Dense([[5,2],[0,1]]),1,'LM',Eig())")

    def p_diag():
        w, _ = eig(ops.Diagonal(np.array([-5., 1., 2.])), 1, 'LM')
        return abs(abs(complex(w[0])) - 5) > 1e-6, np.asarray(w).tolist()
    probe("eig_diag_sorted_by_value", "the Diagonal and Triangular rules sort by value (argsort), not by magnitude (Coq witness C10_eig_diag_by_value_refuted)",
          p_diag, "eig(Diagonal([-5,1,2]),1,'LM')")

    def p_tri():
        Lm = np.array([[1., 0.], [3., 2.]])
        w, V = eig(ops.Triangular(Lm, lower=True), 2, 'LM')
        V = np.asarray(V.to_dense())
        r = float(np.abs(Lm @ V - V * np.asarray(w)[None, :]).max())
        return r > 1e-8, f"residual {r}"
    probe("eig_triangular_lower_upper_swapped", "compute_lower_triangular_eigvecs is correct for UPPER triangular input; for a lower triangular operator it returns "
          "the identity columns (Coq witness C10_eig_tri_lower_refuted)", p_tri, "eig(Triangular([[1,0],[3,2]],lower=True),2,'LM')")

    def p_tric():
        U = np.array([[1 + 1j, 2], [0, 2 - 1j]])
        w, V = eig(ops.Triangular(U, lower=False), 2, 'LM')
        V = np.asarray(V.to_dense())
        r = float(np.abs(U @ V - V * np.asarray(w)[None, :]).max())
        return r > 1e-8, f"residual {r}"
    probe("eig_triangular_complex_drops_imag", "the Triangular rule writes the solved vectors into a float64 identity: complex eigenvectors lose their imaginary part "
          "(Coq witness C10_eig_tri_complex_refuted)", p_tric, "eig(Triangular([[1+1j,2],[0,2-1j]],lower=False),2,'LM')")

    def p_pow():
        w, _ = eig(SA(ops.Dense(D3)), 1, 'LM')
        return abs(abs(complex(w[0])) - 5) > 1e-2, np.asarray(w).tolist()
    probe("power_iteration_negative_eig", "power iteration's stopping test abs(eigprev-eig)/eig is negative for a negative value: the loop stops after one "
          "un-normalised step (Coq witness C10_power_negative_refuted)", p_pow, "eig(SelfAdjoint(Dense(diag(-5,1,2))),1,'LM')")

    def p_powc():
        g = np.random.default_rng(1)
        Q = L.rand_unitary(g, 4, True)
        H = (Q * np.array([6., 3., 2., 1.])) @ Q.conj().T
        w, _ = eig(SA(ops.Dense(H)), 1, 'LM')
        return abs(complex(w[0]) - 6) > 1e-2, np.asarray(w).tolist()
    probe("power_iteration_complex_no_conj", "power iteration computes v @ (A v) without conjugation: wrong value for complex operators", p_powc,
          "eig(SelfAdjoint(Dense(Q diag(6,3,2,1) Q^H)),1,'LM') with a complex unitary Q")

    def p_lob():
        from cola.linalg.eig.lobpcg import LOBPCG
        np.random.seed(0)
        w, V = eig(SA(ops.Dense(np.diag([1., 2., 3., 4.]))), 1, 'SM', LOBPCG())
        w4, _ = eig(SA(ops.Dense(np.diag([1., 2., 3., 4.]))), 4, 'LM', LOBPCG())
        return (abs(complex(w[0]) - 1) > 1e-3 or len(w4) != 4), f"SM k=1 -> {np.asarray(w).tolist()}, k=4 returns {len(w4)} values"
    probe("lobpcg_top_block_only", "lobpcg computes only the min(n-1, max_iters) algebraically largest pairs (in float32, real part only): 'SM' requests return "
          "the smallest of those, k = n returns n-1 pairs, complex operators lose their imaginary part", p_lob,
          "eig(SelfAdjoint(Dense(diag(1,2,3,4))),1,'SM',LOBPCG()) and eig(...,4,'LM',LOBPCG())")

    def p_arn():
        g = np.random.default_rng(0)
        B = g.standard_normal((4, 4))
        ev = np.linalg.eigvals(B)
        worst, msg = 0.0, []
        for which in ("LM", "SM"):     # padded (spurious zero) Ritz values sort to the small-magnitude end
            w, V = eig(ops.Dense(B), 4, which, Arnoldi(max_iters=7))
            V = np.asarray(V.to_dense())
            r = float(np.abs(B @ V - V * np.asarray(w)[None, :]).max())
            off = float(max(np.abs(ev - x).min() for x in np.asarray(w)))
            worst = max(worst, r, off)
            msg.append(f"{which}: residual {r:.3g}, distance of the returned values from the spectrum {off:.3g}")
        return worst > 1e-6, "; ".join(msg)
    probe("arnoldi_padding", "eig with Arnoldi(max_iters >= n) (1000 by default): the factorisation is padded / its last column is garbage, the returned pairs are not eigenpairs (C15)",
          p_arn, "eig(Dense(randn(4,4)),4,'LM'|'SM',Arnoldi(max_iters=7))")
    return out


# ------------------------------------------------------------------------------------------------ generator
def cplx_of(dt):
    return dt in ("complex64", "complex128")


def make_alg(spec):
    from cola.linalg import Eig, Eigh, Lanczos, Arnoldi, PowerIteration, Auto
    from cola.linalg.eig.lobpcg import LOBPCG
    cls = dict(Auto=Auto, Eig=Eig, Eigh=Eigh, Lanczos=Lanczos, Arnoldi=Arnoldi, PowerIteration=PowerIteration, LOBPCG=LOBPCG)[spec["cls"]]
    return cls(**spec.get("kwargs", {}))


def gen_struct(rnd, present):
    """Identity / Diagonal / Triangular with small (Gaussian-)integer payloads: exact tier"""
    kind = rnd.choice(["ident", "diag", "diag", "tri", "tri", "tri"])
    n = rnd.randint(1, 5)
    cplx = rnd.random() < 0.35
    dt = rnd.choice(["complex128", "complex64"] if cplx else ["float64", "float64", "float32"])
    c = dict(kind=kind, n=n, dt=dt)
    if kind == "ident":
        pass
    elif kind == "diag":
        vals = set()
        while len(vals) < n:
            vals.add((rnd.randint(-9, 9), rnd.randint(-4, 4) if cplx else 0))
        c["d"] = [list(v) for v in vals]
        rnd.shuffle(c["d"])
    else:
        lower = rnd.random() < 0.35
        if "eig_triangular_lower_upper_swapped" in present:
            lower = False
        if "eig_triangular_complex_drops_imag" in present and cplx:
            cplx, dt = False, "float64"
            c["dt"] = dt
        dg = set()
        while len(dg) < n:
            dg.add((rnd.randint(-9, 9), rnd.randint(-3, 3) if cplx else 0))
        dg = [list(v) for v in dg]
        rnd.shuffle(dg)
        A = [[[0, 0] for _ in range(n)] for _ in range(n)]
        for i in range(n):
            A[i][i] = dg[i]
            for j in range(i + 1, n):
                v = [rnd.randint(-4, 4), rnd.randint(-2, 2) if cplx else 0]
                if lower:
                    A[j][i] = v
                else:
                    A[i][j] = v
        # the declared flag need not match the data (Triangular(U) has lower=True by default), and .T / .H flip the flag
        flag = lower if rnd.random() < 0.6 else (not lower)
        tr = rnd.choice([None, None, "T", "H"])
        if "eig_triangular_lower_upper_swapped" in present:
            flag, tr = False, None
        c.update(A=A, lower=lower, flag=flag, tr=tr)
    c["sc2"] = 0
    if kind != "ident" and rnd.random() < 0.25:
        # overall scale 2**e (exact): single precision from ~1e-30 to ~1e24, double precision from ~1e-150 to ~1e145
        c["sc2"] = rnd.randint(-100, 80) if dt in ("float32", "complex64") else rnd.randint(-500, 480)
    c["k"] = rnd.randint(1, n)
    c["which"] = rnd.choice(["LM", "SM"])
    algs = [None, dict(cls="Auto"), dict(cls="Eig"), dict(cls="Eigh"), dict(cls="PowerIteration")]
    if "eig_structural_ambiguous" not in present:     # recorded under C04; only steers this generator
        algs += [dict(cls="Lanczos"), dict(cls="Arnoldi"), dict(cls="LOBPCG")]
    c["alg"] = rnd.choice(algs)
    return c


def tri_entries(c):
    """entries [re, im] of the triangular operator AFTER the optional .T / .H"""
    A = c["A"]
    n = c["n"]
    if c.get("tr") == "T":
        return [[A[j][i] for j in range(n)] for i in range(n)]
    if c.get("tr") == "H":
        return [[[A[j][i][0], -A[j][i][1]] for j in range(n)] for i in range(n)]
    return A


def struct_dense(c):
    n = c["n"]
    sc = 2.0 ** c.get("sc2", 0)
    if c["kind"] == "ident":
        return np.eye(n, dtype=np.complex128)
    if c["kind"] == "diag":
        return np.diag(np.array([complex(*v) for v in c["d"]])) * sc
    return np.array([[complex(*v) for v in r] for r in tri_entries(c)], dtype=np.complex128) * sc


def struct_op(c):
    from cola import ops
    dt = getattr(np, c["dt"])
    D = struct_dense(c)
    D = D.astype(dt) if cplx_of(c["dt"]) else D.real.astype(dt)
    if c["kind"] == "ident":
        return ops.Identity((c["n"], c["n"]), dt)
    if c["kind"] == "diag":
        return ops.Diagonal(np.diag(D).copy())
    D0 = np.array([[complex(*v) for v in r] for r in c["A"]], dtype=np.complex128) * 2.0 ** c.get("sc2", 0)
    D0 = D0.astype(dt) if cplx_of(c["dt"]) else D0.real.astype(dt)
    T_ = ops.Triangular(D0, lower=c.get("flag", c["lower"]))
    return T_.T if c.get("tr") == "T" else (T_.H if c.get("tr") == "H" else T_)


# un-annotated operators whose matrix has a special structure that is NOT the annotated one (nothing is declared: the
# general rules must handle them): real symmetric, complex symmetric (A = A^T, not Hermitian), skew-symmetric, skew-Hermitian,
# normal, orthogonal, triangular stored as Dense
STRUCTURED = ["sym_unann", "cplx_sym", "cplx_sym", "skew", "skew_herm", "normal", "orth", "tri_dense"]


def structured_matrix(rnd, g, cls, n):
    import scipy.linalg as sl
    if cls == "sym_unann":
        lam = np.array(L.separated(rnd, n, signs=True))
        Q = L.rand_unitary(g, n, False)
        M = (Q * lam) @ Q.T
        return (M + M.T) / 2, lam
    if cls == "skew_herm":
        lam = 1j * np.array(L.separated(rnd, n, signs=True))
        Q = L.rand_unitary(g, n, True)
        return (Q * lam) @ Q.conj().T, lam
    if cls == "normal":
        lam = np.array([m * np.exp(1j * rnd.uniform(-3.1, 3.1)) for m in L.separated(rnd, n)])
        Q = L.rand_unitary(g, n, True)
        return (Q * lam) @ Q.conj().T, lam
    if cls in ("skew", "orth"):
        mags = L.separated(rnd, n)
        blocks, lam, i = [], [], 0
        while i < n:
            if i + 1 < n:
                if cls == "skew":
                    mu = mags[i]
                    blocks.append(np.array([[0., -mu], [mu, 0.]]))
                    lam += [1j * mu, -1j * mu]
                else:
                    t = rnd.uniform(0.3, 2.8)
                    blocks.append(np.array([[np.cos(t), -np.sin(t)], [np.sin(t), np.cos(t)]]))
                    lam += [np.exp(1j * t), np.exp(-1j * t)]
                i += 2
            else:
                v = 0.0 if cls == "skew" else float(rnd.choice([-1, 1]))
                blocks.append(np.array([[v]]))
                lam.append(v)
                i += 1
        Q = L.rand_unitary(g, n, False)
        return Q @ sl.block_diag(*blocks) @ Q.T, np.array(lam)
    if cls == "tri_dense":
        cp = rnd.random() < 0.3
        d = np.array(L.separated(rnd, n, signs=True), dtype=np.complex128 if cp else np.float64)
        if cp:
            d = d * np.exp(1j * np.array([rnd.uniform(-3, 3) for _ in range(n)]))
        T_ = np.triu(0.4 * (g.standard_normal((n, n)) + (1j * g.standard_normal((n, n)) if cp else 0)), 1) + np.diag(d)
        return (T_.T.copy() if rnd.random() < 0.5 else T_), d
    # complex symmetric: S1 + i S2 with real symmetric S1, S2; spectrum from numpy, accepted when simple, separated, well conditioned
    for _ in range(200):
        S1 = g.standard_normal((n, n))
        S2 = g.standard_normal((n, n))
        M = (S1 + S1.T) / 2 + 1j * (S2 + S2.T) / 2
        lam, V = np.linalg.eig(M)
        mags = np.sort(np.abs(lam))
        if np.linalg.cond(V) < 50 and mags[0] > 0.2 and (n == 1 or np.min(mags[1:] / mags[:-1]) > 1.2):
            return M, lam
    lam = np.array(L.separated(rnd, n)) * np.exp(1j * np.array([rnd.uniform(-3, 3) for _ in range(n)]))
    return np.diag(lam).astype(np.complex128) + 0j, lam     # diagonal complex symmetric fallback


def gen_dense(rnd, present, nmax, force_pairs=False, force_cls=None):
    """operators with a prescribed simple, well-separated spectrum; returns the case (matrix parts as arrays)"""
    g = L.nprng(rnd)
    cls = rnd.choice(["sa_def", "sa_indef", "sa_indef", "gen_real", "gen_real", "gen_cplx", "sa_cplx"] + STRUCTURED)
    n = rnd.randint(2, nmax)
    if force_pairs:
        cls, n = "gen_real", max(n, 3)
    if force_cls:
        cls = force_cls
    f32 = rnd.random() < 0.15
    if cls in STRUCTURED:
        M, lam = structured_matrix(rnd, g, cls, n)
        cplx = np.iscomplexobj(M)
        dt = ("complex64" if f32 else "complex128") if cplx else ("float32" if f32 else "float64")
        wrap = rnd.choice(["Dense", "Dense", "Dense", "Sum2", "Prod2", "Kron1", "Transp", "ShiftS", "ShiftP", "ShiftS"])
        return dict(kind="dense", cls=cls, n=n, dt=dt, M=M.astype(getattr(np, dt)), lam=lam, sa=False, wrap=wrap, seed=rnd.getrandbits(30))
    if cls in ("sa_def", "sa_indef", "sa_cplx"):
        lam = np.array(L.separated(rnd, n, signs=(cls != "sa_def")))
        if cls == "sa_cplx" and rnd.random() < 0.5:
            lam = np.abs(lam)
        Q = L.rand_unitary(g, n, cls == "sa_cplx")
        M = (Q * lam) @ Q.conj().T
        M = (M + M.conj().T) / 2
        sa = True
    elif cls == "gen_real":
        # real matrix: real eigenvalues and conjugate pairs r e^{+-i t}
        mags = L.separated(rnd, n)
        blocks, lam, i = [], [], 0
        while i < n:
            if i + 1 < n and (rnd.random() < 0.4 or (force_pairs and i == 0)):
                r, t = mags[i], rnd.uniform(0.3, 2.8)
                blocks.append(r * np.array([[np.cos(t), -np.sin(t)], [np.sin(t), np.cos(t)]]))
                lam += [r * np.exp(1j * t), r * np.exp(-1j * t)]
                i += 2
            else:
                s = rnd.choice([-1, 1]) * mags[i]
                blocks.append(np.array([[s]]))
                lam.append(s)
                i += 1
        import scipy.linalg as sl
        B = sl.block_diag(*blocks)
        S = L.well_cond(g, n, False)
        M = S @ B @ np.linalg.inv(S)
        lam = np.array(lam)
        sa = False
    else:
        mags = L.separated(rnd, n)
        lam = np.array([m * np.exp(1j * rnd.uniform(-3.1, 3.1)) for m in mags])
        S = L.well_cond(g, n, True)
        M = S @ np.diag(lam) @ np.linalg.inv(S)
        sa = False
    cplx = np.iscomplexobj(M) and cls in ("gen_cplx", "sa_cplx")
    if not cplx:
        M = M.real
    dt = ("complex64" if f32 else "complex128") if cplx else ("float32" if f32 else "float64")
    M = M.astype(getattr(np, dt))
    wrap = rnd.choice(["Dense", "Dense", "Dense", "Sum2", "Prod2", "Kron1", "Transp", "ShiftS", "ShiftP", "ShiftS"])
    return dict(kind="dense", cls=cls, n=n, dt=dt, M=M, lam=lam, sa=sa, wrap=wrap, seed=rnd.getrandbits(30))


def dense_op(c):
    import cola
    from cola import ops
    M = c["M"]
    n = c["n"]
    g = np.random.default_rng(c["seed"])
    w = c["wrap"]
    if w == "Dense":
        A = ops.Dense(M)
    elif w == "Sum2":
        N = g.integers(-2, 3, size=(n, n)).astype(M.dtype)
        if c["sa"]:
            N = N + N.conj().T
        A = ops.Dense(M / 2 + N) + ops.Dense(M / 2 - N)
    elif w == "Prod2":
        P = np.eye(n, dtype=M.dtype)[g.permutation(n)]
        A = ops.Dense(M @ P.T) @ ops.Dense(P)
    elif w in ("ShiftS", "ShiftP"):
        # lazily shifted operator B + mu I (mu of either sign; complex for complex operators): the magnitudes of B's spectrum are
        # ordered differently from those of the sum
        scale = float(np.abs(M).max()) or 1.0
        mu = float(g.choice([-1, 1])) * scale * float(g.uniform(0.3, 1.5))
        cp = np.iscomplexobj(M)
        if cp and not c["sa"] and g.random() < 0.5:
            mu = mu * np.exp(1j * g.uniform(-3, 3))
        mu = M.dtype.type(mu)
        B = ops.Dense(M - mu * np.eye(n, dtype=M.dtype))
        shift = ops.ScalarMul(mu, (n, n), M.dtype.type) if w == "ShiftS" else mu * ops.Identity((n, n), M.dtype.type)
        A = B + shift
    elif w == "Kron1":
        A = ops.Kronecker(ops.Dense(np.array([[2.]], dtype=M.dtype)), ops.Dense(M / 2))
    else:
        A = ops.Transpose(ops.Dense(M.T.copy()))
    return cola.SelfAdjoint(A) if c["sa"] else A


def conj_pair_split(lam, k, which):
    """would a slice of k by magnitude split a complex-conjugate pair (equal magnitudes)?"""
    mags = np.sort(np.abs(lam))
    n = len(mags)
    if k >= n:
        return False
    a, b = (mags[n - k - 1], mags[n - k]) if which == "LM" else (mags[k - 1], mags[k])
    return abs(a - b) <= 1e-6 * b


def choose_alg(rnd, c, present):
    n = c["n"]
    opts = ["Auto", "none", "Eig"]
    if c["sa"]:
        opts += ["Eigh", "Eigh", "Lanczos", "Lanczos", "LOBPCG"]
    opts += ["Arnoldi"]
    a = rnd.choice(opts)
    if a in ("Lanczos", "Arnoldi"):
        cap = rnd.choice(["below", "at", "above", "default"])
        if a == "Arnoldi" and "arnoldi_padding" in present:
            cap = "below"
        mi = dict(below=max(1, n - rnd.randint(1, 2)), at=n, above=n + rnd.randint(1, 4), default=None)[cap]
        kw = {} if mi is None else dict(max_iters=mi)
        if rnd.random() < 0.3:
            kw["tol"] = 1e-9
        return dict(cls=a, kwargs=kw, cap=cap)
    if a == "none":
        return None
    return dict(cls=a)


def power_case(rnd, nmax, present=()):
    g = L.nprng(rnd)
    n = rnd.randint(2, nmax)
    sa = rnd.random() < 0.6
    cplx = "power_iteration_complex_no_conj" not in present and rnd.random() < 0.35
    mags = sorted(L.separated(rnd, n, gap=0.45), reverse=True)
    pos = rnd.random() < 0.7
    lead = mags[0] * (rnd.choice([-1, 1]) if "power_iteration_negative_eig" not in present else 1)
    lam = np.array([lead] + [m * (1 if pos else rnd.choice([-1, 1])) for m in mags[1:]], dtype=np.complex128 if cplx else np.float64)
    if cplx and not sa:
        lam = lam * np.exp(1j * np.array([rnd.uniform(-3, 3) for _ in range(n)]))
    if sa:
        Q = L.rand_unitary(g, n, cplx)
        M = (Q * lam) @ Q.conj().T
        M = (M + M.conj().T) / 2
    else:
        S = L.well_cond(g, n, cplx, 3.0)
        M = S @ np.diag(lam) @ np.linalg.inv(S)
    if not cplx:
        M = M.real
    # overall scale of the operator, tiny to huge, and single precision: the stopping test is relative, so the answer must be scale-covariant
    f32 = rnd.random() < 0.2
    sc_ = 1.0
    if rnd.random() < 0.65:
        # zones: below the machine epsilon of the dtype (absolute floors such as max(|eig|, eps) show only there), ordinary, huge;
        # single precision stays where the squares inside the norms neither under- nor overflow
        zone = rnd.choice(["low", "mid", "high"])
        if f32:
            sc_ = 10.0 ** dict(low=rnd.uniform(-17, -8), mid=rnd.uniform(-6, 6), high=rnd.uniform(8, 17))[zone]
        else:
            sc_ = 10.0 ** dict(low=rnd.uniform(-30, -17), mid=rnd.uniform(-12, 12), high=rnd.uniform(17, 30))[zone]
        M, lam = M * sc_, lam * sc_
    how = rnd.choice(["auto", "auto", "alg", "alg", "eigmax", "call"])
    kw = {}
    if how in ("alg", "call", "eigmax") and rnd.random() < 0.7:
        kw = rnd.choice([dict(tol=1e-3), dict(tol=1e-10, max_iter=400), dict(max_iter=3), dict(max_iter=1), dict(tol=1e-8, max_iter=100), dict(tol=0.5)])
    dt = ("complex64" if cplx else "float32") if f32 else ("complex128" if cplx else "float64")
    return dict(kind="power", n=n, dt=dt, M=M.astype(getattr(np, dt)), lam=lam, sa=sa, how=how, kwargs=kw, wrap="Dense", seed=0, cplx=cplx, f32=f32, scale=sc_)


def big_sizes(rnd, ctx):
    """sizes that straddle constants a Krylov routine may hide (100, 128, 256): a few per quick run, more in the thorough tier"""
    out = [rnd.randint(101, 112), rnd.randint(126, 140), rnd.randint(200, 262)]
    if ctx.tier == "thorough":
        out += [rnd.randint(101, 300) for _ in range(9)]
    return out


def rayleigh_all_positive(M, v0, steps=1200):
    """plain-numpy simulation of the normalised power method: are all quotients v.(M v) positive? (input-only decision
    used to stay out of the region spoiled by power_iteration_negative_eig)"""
    v = np.array(v0, dtype=np.float64)
    for _ in range(steps):
        p = M @ v
        if not v @ p > 0:
            return False
        v = p / np.linalg.norm(p)
    return True


# ------------------------------------------------------------------------------------------------ implementation + oracle data
def run_eig(A, k, which, alg):
    from cola.linalg import eig
    if alg is None:
        w, V = eig(A, k, which)
    else:
        if alg["cls"] == "LOBPCG":
            np.random.seed(12345)
        w, V = eig(A, k, which, make_alg(alg))
    V = np.asarray(V.to_dense()) if hasattr(V, "to_dense") else np.asarray(V)
    return np.asarray(w), V


def effective_alg(c, alg, k, which):
    """which rule the Auto choice leads to (model: auto_alg of C10_Model.v; the sizes used here are far below 1e6)"""
    name = "Auto" if alg is None else alg["cls"]
    if name != "Auto":
        return name
    if k == 1 and which == "LM":
        return "PowerIteration"
    return "Eigh" if c["sa"] else "Eig"


def oracle_data(A, c, alg, eff):
    """the eigen-oracle's output for the rule `eff`, obtained by the very call the rule makes"""
    from cola.linalg.decompositions.lanczos import lanczos_eigs
    from cola.linalg.decompositions.arnoldi import arnoldi_eigs
    from cola.linalg.eig.lobpcg import lobpcg
    xnp = A.xnp
    if eff == "Eigh":
        w, V = xnp.eigh(A.to_dense())
    elif eff == "Eig":
        w, V = xnp.eig(A.to_dense())
    elif eff == "Lanczos":
        w, V, _ = lanczos_eigs(A, **make_alg(alg).__dict__)
        V = V.to_dense()
    elif eff == "Arnoldi":
        w, V, _ = arnoldi_eigs(A, **make_alg(alg).__dict__)
        V = V.to_dense()
    elif eff == "LOBPCG":
        np.random.seed(12345)
        w, V = lobpcg(A, **make_alg(alg).__dict__)
        V = V.to_dense() if hasattr(V, "to_dense") else V
    else:
        raise AssertionError(eff)
    return np.asarray(w), np.asarray(V)


def check_property(D, w, V, k, which, sa_orth, lam_true, tol, check_sel=True):
    """independent oracle: returns list of failed clauses (empty = property holds on this output) and near_tie flag"""
    bad = []
    n = D.shape[0]
    w = np.asarray(w).reshape(-1)
    if w.shape[0] != k or V.shape != (n, k):
        return [f"shape: {w.shape[0]} values, vectors {V.shape}, expected {k} and {(n, k)}"], False
    scale = float(np.abs(D).max()) or 1.0
    cn = np.linalg.norm(V, axis=0)
    if k == 0:
        return [], False
    if not (cn.min() >= 1e-12):
        return ["a returned vector is zero"], False
    Vn = V / cn
    res = float(np.abs(D @ Vn - Vn * w[None, :]).max())
    if not res <= tol * scale:
        bad.append(f"residual max|A v - lambda v| = {res:.3g} (unit vectors)")
    sv = np.linalg.svd(Vn, compute_uv=False)
    if not (sv.min() >= 1e-6):
        bad.append(f"returned vectors are linearly dependent (sigma_min={sv.min():.3g})")
    if sa_orth:
        o = float(np.abs(Vn.conj().T @ Vn - np.eye(k)).max())
        if not (o <= max(tol, 1e-8) * 10):
            bad.append(f"vectors of a self-adjoint operator not orthogonal ({o:.3g})")
    near = False
    if check_sel:
        ok, near = L.mag_sets_equal(w, lam_true, k, which, rtol=max(tol, 1e-7) * 10)
        if not ok and not near:
            bad.append(f"selection: returned {np.round(w, 6).tolist()} are not the {k} eigenvalues of {'largest' if which == 'LM' else 'smallest'} magnitude of {np.round(lam_true, 6).tolist()}")
        if near:
            bad = [b for b in bad if not b.startswith("selection")]
    return bad, near


def pinned_selection_ok(order_vals, lam_true, k, which):
    """would slicing `order_vals` (the order the pinned code slices) return the right set?"""
    n = len(order_vals)
    s = order_vals[n - k:] if which == "LM" else order_vals[:k]
    ok, near = L.mag_sets_equal(s, lam_true, k, which)
    return ok and not near


# ------------------------------------------------------------------------------------------------ run
def run(ctx):
    fnd = findings()
    present = {f["flag"] for f in fnd if f["present"]}
    try:
        from cola import ops as _o
        from cola.linalg import eig as _eig, Lanczos as _Lz
        _eig(_o.Diagonal(np.array([1., 2.])), 1, "LM", _Lz())
    except Exception:
        present = present | {"eig_structural_ambiguous"}
    # a flag that is recorded as repaired (fixed:) but probes present again is a regression: its region is generated all the same, so that
    # the oracle exhibits failing inputs (the model still runs at the probed flag vector)
    try:
        fixed_flags = {f["flag"] for f in core.parse_known()[1] if f["property"] == "C10"}
    except Exception:
        fixed_flags = set()
    avoid = {f for f in present if f not in fixed_flags}
    rnd = ctx.rng
    mism, samples = [], []
    terms, meta = [], []          # QI cases
    aterms = []                   # Auto-rule observations
    eigmaxmin_checked = [0]
    galerkin_checked = [0]
    pterms, pmeta = [], []        # power-iteration cases (real)
    pcterms, pcmeta = [], []      # power-iteration cases (complex)
    hist = {}
    near_tie = 0
    skipped_region = {}
    below_n = 0
    evals = 0
    distinct = set()
    oracle_viol = []

    def bump(d, k):
        d[k] = d.get(k, 0) + 1

    def whs(s):
        return "LM" if s == "LM" else "SM"

    # ---------------- structural rules (exact tier)
    n_struct = ctx.budget(160, 1500)
    for _ in range(n_struct):
        c = gen_struct(rnd, avoid)
        D = struct_dense(c)
        n, k, which = c["n"], c["k"], c["which"]
        lam_true = np.diag(D).copy()
        # regions spoiled by recorded defects
        if c["kind"] in ("diag", "tri") and "eig_diag_sorted_by_value" in avoid:
            order = np.sort_complex(lam_true) if np.iscomplexobj(lam_true) else np.sort(lam_true)
            if not pinned_selection_ok(order, lam_true, k, which):
                bump(skipped_region, "eig_diag_sorted_by_value")
                continue
        mags = np.sort(np.abs(lam_true))
        if c["kind"] != "ident" and k < n:
            a, b = (mags[n - k - 1], mags[n - k]) if which == "LM" else (mags[k - 1], mags[k])
            if abs(a - b) <= 1e-9 * b:
                near_tie += 1
                continue
        evals += 1
        bump(hist, c["kind"] + ":" + ("none" if c["alg"] is None else c["alg"]["cls"]))
        if c.get("sc2"):
            bump(hist, "scaled_structural_rule")
        obs = dict(ok=False)
        try:
            A = struct_op(c)
            w, V = run_eig(A, k, which, c["alg"])
            obs = dict(ok=True, w=w, V=V)
        except Exception as e:
            obs = dict(ok=False, err=f"{type(e).__name__}: {str(e)[:160]}")
        case_js = {k_: v for k_, v in c.items()}
        if len(samples) < 2:
            samples.append(case_js)
        distinct.add(core.digest(case_js))
        if not obs["ok"]:
            mism.append(dict(oracle_fail=True, case=case_js, got=obs["err"], failed_clauses=["raised on an input the model accepts"]))
            continue
        f32 = c["dt"] in ("float32", "complex64")
        tol = 1e-4 if f32 else 1e-9
        bad, near = check_property(D, obs["w"], obs["V"], k, which, False, lam_true, tol, check_sel=(c["kind"] != "ident"))
        if bad:
            oracle_viol.append(len(meta))
        # Coq term (the model runs at the probed flag vector: repaired rules sort by magnitude)
        from fractions import Fraction
        fsc = Fraction(2) ** c.get("sc2", 0)

        def natl(ix):
            return "(Some [" + ";".join(f"{int(x)}%nat" for x in ix) + "])"
        if "eig_diag_sorted_by_value" in present or c["kind"] == "ident":
            bymag = "None"
        else:
            dgl = np.diag(np.asarray(struct_op(c).to_dense())) if c["kind"] == "tri" else np.asarray(struct_op(c).diag)
            bymag = natl(np.argsort(np.abs(dgl)))
        if c["kind"] == "ident":
            rule = "RIdent"
        elif c["kind"] == "diag":
            rule = f"(RDiag {bymag} [" + ";".join(L.qic_exact(v[0] * fsc, v[1] * fsc) for v in c["d"]) + "])"
        else:
            lowrule = "true" if ("eig_triangular_lower_upper_swapped" not in present and np.any(np.tril(D, -1))) else "false"
            rule = f"(RTri {bymag} {lowrule} [" + ";".join("[" + ";".join(L.qic_exact(v[0] * fsc, v[1] * fsc) for v in r) + "]" for r in tri_entries(c)) + "] " + \
                   ("true" if not cplx_of(c["dt"]) or "eig_triangular_complex_drops_imag" in present else "false") + ")"
        scale = max(1.0, float(np.abs(obs["V"]).max(initial=0)), float(np.abs(D).max(initial=0)) if not c.get("sc2") else 1.0)
        tol2 = 0 if c["kind"] in ("ident", "diag") else (tol * 100 * scale) ** 2
        terms.append(f"mkecase {n} {rule} ({k}) {which} {L.qc_lit(tol2)} true {L.qvec(obs['w'])} {L.qmat(obs['V'])}")
        meta.append(dict(case=case_js, bad=bad, got=dict(w=np.asarray(obs["w"]).tolist(), V=np.asarray(obs["V"]).tolist())))

    # ---------------- dense and Krylov rules: oracle, then slice
    n_dense = ctx.budget(260, 2500)
    nmax = ctx.budget(6, 9)
    n_arn = ctx.budget(40, 250)    # real non-symmetric operators with complex-conjugate pairs under Arnoldi
    n_ext = ctx.budget(40, 300)    # indefinite self-adjoint operators under the Eigh rule at the ends of the floating-point format
    for it in range(n_dense + n_arn + n_ext):
        forced = n_dense <= it < n_dense + n_arn
        ext = it >= n_dense + n_arn
        c = gen_dense(rnd, avoid, nmax, force_pairs=forced, force_cls=(rnd.choice(["sa_indef", "sa_cplx"]) if ext else None))
        n = c["n"]
        alg = choose_alg(rnd, c, avoid)
        if ext:
            alg = rnd.choice([dict(cls="Eigh"), dict(cls="Eigh"), dict(cls="Auto"), None])
        if forced:
            cap = rnd.choice(["at", "above", "default", "below"]) if "arnoldi_padding" not in avoid else "below"
            mi = dict(below=max(2, n - 1), at=n, above=n + rnd.randint(1, 4), default=None)[cap]
            alg = dict(cls="Arnoldi", kwargs=({} if mi is None else dict(max_iters=mi)), cap=cap)
            c["wrap"] = "Dense"
        k = rnd.randint(1, n)
        which = rnd.choice(["LM", "SM"])
        eff = effective_alg(c, alg, k, which)
        if eff == "PowerIteration":
            continue   # covered by the power-iteration stream below
        if eff in ("Eigh", "Eig") and c["cls"] != "orth" and (ext or rnd.random() < 0.4):
            # overall scale of the operator (the dense rules must be scale-covariant; the Krylov routines' tolerances are C14 / C15's)
            if rnd.random() < (0.75 if ext else 0.5):
                c["dt"] = "complex64" if cplx_of(c["dt"]) else "float32"
            zone = rnd.choice(["low", "high"] if ext else ["low", "mid", "high"])     # the ends are where squares, products and sums of squares leave the format
            if c["dt"] in ("float32", "complex64"):
                sc_ = 10.0 ** dict(low=rnd.uniform(-30, -21), mid=rnd.uniform(-21, 18), high=rnd.uniform(18, 25))[zone]
            else:
                sc_ = 10.0 ** dict(low=rnd.uniform(-160, -154), mid=rnd.uniform(-12, 12), high=rnd.uniform(145, 153))[zone]
            c["M"] = (c["M"].astype(np.complex128 if cplx_of(c["dt"]) else np.float64) * sc_).astype(getattr(np, c["dt"]))
            c["lam"] = np.asarray(c["lam"]) * sc_
            c["wrap"] = "Dense"
            c["scale"] = sc_
            bump(hist, "scaled_dense_rule")
        lam_true = c["lam"]
        if c["cls"] == "orth":
            k = n
        if conj_pair_split(lam_true, k, which):
            near_tie += 1
            continue
        cap = (alg or {}).get("cap")
        m_cols = n
        if eff in ("Lanczos", "Arnoldi") and cap == "below":
            m_cols = alg["kwargs"]["max_iters"]
            k = m_cols if rnd.random() < 0.5 else rnd.randint(1, m_cols)
        try:
            A = dense_op(c)
            Dimpl = np.asarray(A.to_dense())
        except Exception as e:
            mism.append(dict(oracle_fail=False, harness_error=f"building the operator: {type(e).__name__}: {e}"))
            continue
        D = c["M"].astype(np.complex128)
        # regions spoiled by recorded defects (decided from the input alone)
        check_sel = True
        if eff in ("Eigh", "Lanczos") and "eigh_algebraic_not_magnitude" in avoid and not (eff == "Lanczos" and cap == "below"):
            if not pinned_selection_ok(np.sort(lam_true.real), lam_true, k, which):
                bump(skipped_region, "eigh_algebraic_not_magnitude")
                continue
        if eff == "LOBPCG" and "lobpcg_top_block_only" in avoid:
            top = np.sort(lam_true.real)[1:]
            if which != "LM" or k > n - 1 or cplx_of(c["dt"]) or not pinned_selection_ok(top, lam_true, k, which):
                bump(skipped_region, "lobpcg_top_block_only")
                continue
        if eff == "Eig" and "eig_dense_unsorted" in avoid:
            w0 = np.linalg.eig(Dimpl)[0]
            if not pinned_selection_ok(w0, lam_true, k, which):
                bump(skipped_region, "eig_dense_unsorted")
                continue
        full = not (eff in ("Lanczos", "Arnoldi") and cap == "below")
        if eff == "Arnoldi" and full and "eig_dense_unsorted" in avoid:
            check_sel = False   # order of eig(H): not predictable from the input
        evals += 1
        bump(hist, f"{c['cls']}:{eff}" + (f":{cap}" if cap else ""))
        case_js = dict(kind="dense", cls=c["cls"], n=n, dt=c["dt"], wrap=c["wrap"], sa=c["sa"], M=c["M"].tolist(), k=k, which=which, alg=alg)
        distinct.add(core.digest(case_js))
        if len(samples) < 4:
            samples.append({k_: v for k_, v in case_js.items() if k_ != "M"})
        try:
            w, V = run_eig(A, k, which, alg)
        except Exception as e:
            mism.append(dict(oracle_fail=True, case=case_js, got=f"{type(e).__name__}: {str(e)[:200]}", failed_clauses=["raised on an input the model accepts"]))
            continue
        try:
            ow, oV = oracle_data(A, c, alg, eff)
        except Exception as e:
            mism.append(dict(oracle_fail=False, case=case_js, harness_error=f"oracle call failed: {type(e).__name__}: {e}"))
            continue
        f32 = c["dt"] in ("float32", "complex64")
        tol = 2e-3 if (f32 or eff == "LOBPCG") else 1e-8
        bad = []
        if full:
            # hypotheses of the theorems, checked on the oracle's actual output
            scale = float(np.abs(D).max()) or 1.0
            r_or = float(np.abs(Dimpl @ oV - oV * ow[None, :]).max())
            hyp_ok = r_or <= tol * scale and np.linalg.norm(oV, axis=0).min() > 1e-8
            if eff == "Eigh":
                hyp_ok = hyp_ok and bool(np.all(np.diff(ow.real) >= 0))
            if not hyp_ok:
                # the oracle's answer is no eigendecomposition: the theorems do not apply, but the property is still decided on cola's output
                bad, _ = check_property(D, w, V, k, which, False, lam_true, tol, check_sel=check_sel)
                mism.append(dict(oracle_fail=bool(bad), case=case_js, got=dict(w=np.asarray(w).tolist()),
                                 failed_clauses=bad + [f"the eigen-oracle of rule {eff} violates its specification (residual {r_or:.3g})"]))
                continue
            bad, near = check_property(D, w, V, k, which, c["sa"] and eff in ("Eigh", "Lanczos"), lam_true, tol, check_sel=check_sel)
            if near:
                near_tie += 1
        else:
            below_n += 1
            if k == ow.shape[0] and V.shape == (n, k) and np.linalg.matrix_rank(V) < k:
                bad.append("the Ritz vectors are linearly dependent")
            elif k == ow.shape[0] and V.shape == (n, k):
                # all Ritz pairs were requested: Galerkin condition - the residual A V - V diag(w) is orthogonal to span(V)
                Rr = D @ V - V * np.asarray(w)[None, :]
                gal = float(np.abs(np.linalg.pinv(V) @ Rr).max())
                if not (gal <= max(tol, 1e-7) * (float(np.abs(D).max()) or 1.0) * max(1.0, float(np.linalg.cond(V)))):
                    bad.append(f"Ritz pairs violate the Galerkin condition: |V^+ (A V - V diag w)| = {gal:.3g}")
                galerkin_checked[0] += 1
        if bad:
            oracle_viol.append(len(meta))
        # Eigh/Eig slice arrays (bit-exact); the Krylov rules slice a lazy product Q @ P, whose columns are then recomputed by a
        # different BLAS call: values must still agree to the last bit of the oracle up to 1e-12 (float64) / 1e-5 (float32)
        ctol = 0 if eff in ("Eigh", "Eig") else ((1e-5 if f32 else 1e-12) * max(1.0, float(np.abs(oV).max(initial=0)), float(np.abs(ow).max(initial=0)))) ** 2
        srt = {"Eigh": "eigh_algebraic_not_magnitude", "Lanczos": "eigh_algebraic_not_magnitude", "Eig": "eig_dense_unsorted", "Arnoldi": "eig_dense_unsorted"}.get(eff)
        srt = ("(Some [" + ";".join(f"{int(x)}%nat" for x in np.argsort(np.abs(ow))) + "])") if (srt is not None and srt not in present) else "None"
        terms.append(f"mkecase {n} (ROracle {srt} {ow.shape[0]} {L.qvec(ow)} {L.qmat(oV)}) ({k}) {which} {L.qc_lit(ctol)} true {L.qvec(w)} {L.qmat(V)}")
        if alg is None or alg["cls"] == "Auto":
            aterms.append(f"mkacase {'true' if c['sa'] else 'false'} true ({k}) {which} A{eff}")
        # eigmax / eigmin agree with eig(A, 1, LM|SM)[0][0] on the same algorithm
        if k == 1 and alg is not None:
            from cola.linalg import eigmax as _emax, eigmin as _emin
            try:
                if alg["cls"] == "LOBPCG":
                    np.random.seed(12345)
                ev = (_emax if which == "LM" else _emin)(A, make_alg(alg))
                if not (complex(ev) == complex(np.asarray(w)[0])):
                    mism.append(dict(oracle_fail=False, case=case_js, failed_clauses=[f"eig{'max' if which == 'LM' else 'min'} = {ev} differs from eig(A,1,{which})[0][0] = {np.asarray(w)[0]}"]))
                else:
                    eigmaxmin_checked[0] += 1
            except Exception as e:
                mism.append(dict(oracle_fail=True, case=case_js, got=f"eigmax/eigmin: {type(e).__name__}: {str(e)[:160]}", failed_clauses=["raised"]))
        meta.append(dict(case=case_js, bad=bad, got=dict(w=np.asarray(w).tolist())))

    # ---------------- large self-adjoint operators under Lanczos: sizes and iteration counts beyond 100, 128, 256 (windows, periods, block sizes)
    g_big = L.nprng(rnd)
    for n in big_sizes(rnd, ctx):
        lam = np.sort(g_big.uniform(1.0, 3.0, n)) * np.where(g_big.random(n) < 0.4, -1.0, 1.0)
        lam[-1] *= 1.3
        Q = L.rand_unitary(g_big, n, False)
        S = (Q * lam) @ Q.T
        S = (S + S.T) / 2
        import cola as _cola
        from cola import ops as _ops
        A = _cola.SelfAdjoint(_ops.Dense(S))
        for k, which, mi in ((3, "LM", n), (n, rnd.choice(["LM", "SM"]), None), (rnd.randint(2, 6), "SM", n + 7)):
            if "eigh_algebraic_not_magnitude" in avoid and not pinned_selection_ok(np.sort(lam), lam, k, which):
                continue
            alg = dict(cls="Lanczos", kwargs=({} if mi is None else dict(max_iters=mi)))
            case_js = dict(kind="large", n=n, k=k, which=which, alg=alg, seed_note="S = Q diag(lam) Q^T, lam in +-[1,3]", lam=lam.tolist())
            evals += 1
            bump(hist, f"large:Lanczos:n>{100 if n <= 128 else (128 if n <= 256 else 256)}")
            distinct.add(core.digest(dict(case_js, S=S[:3, :3].tolist())))
            try:
                w, V = run_eig(A, k, which, alg)
            except Exception as e:
                mism.append(dict(oracle_fail=True, case=case_js, got=f"{type(e).__name__}: {str(e)[:200]}", failed_clauses=["raised on an input the model accepts"]))
                continue
            bad, _ = check_property(S.astype(np.complex128), w, V, k, which, True, lam, 1e-7, check_sel=True)
            # correspondence in floating point (too large for the rational model): oracle, order by magnitude, slice
            from cola.linalg.decompositions.lanczos import lanczos_eigs
            ow, oV, _ = lanczos_eigs(A, **make_alg(alg).__dict__)
            ow, oV = np.asarray(ow), np.asarray(oV.to_dense())
            if "eigh_algebraic_not_magnitude" not in present:
                ix = np.argsort(np.abs(ow))
                ow, oV = ow[ix], oV[:, ix]
            sl_ = slice(len(ow) - k, None) if which == "LM" else slice(0, k)
            dis = not (np.asarray(w).shape == ow[sl_].shape and np.allclose(w, ow[sl_], rtol=1e-12, atol=0) and np.allclose(V, oV[:, sl_], rtol=0, atol=1e-10))
            if bad or dis:
                mism.append(dict(oracle_fail=bool(bad), case=case_js, failed_clauses=bad, model_disagrees=dis, got=dict(w=np.asarray(w)[:6].tolist())))

    # ---------------- argument edge: k = -1 is refused, k = 0 / k > n follow Python slicing
    from cola import ops as _ops
    for kk, which in [(-1, "LM"), (-1, "SM"), (0, "LM"), (0, "SM"), (5, "LM"), (5, "SM")]:
        d = [3, 1, 2]
        evals += 1
        try:
            w, V = run_eig(_ops.Diagonal(np.array(d, dtype=np.float64)), kk, which, None)
            okb, wv, Vv = "true", L.qvec(w), L.qmat(np.asarray(V).reshape(3, -1)) if np.asarray(V).size else "[[];[];[]]"
        except ValueError:
            okb, wv, Vv = "false", "[]", "[]"
        bm = "None" if "eig_diag_sorted_by_value" in present else "(Some [" + ";".join(f"{int(x)}%nat" for x in np.argsort(np.abs(np.array(d, dtype=np.float64)))) + "])"
        terms.append(f"mkecase 3 (RDiag {bm} [{';'.join(L.qic_exact(x) for x in d)}]) ({kk}) {which} {L.qc_lit(0)} {okb} {wv} {Vv}")
        meta.append(dict(case=dict(kind="edge", d=d, k=kk, which=which), bad=[], got={}))

    # ---------------- power iteration (float tier)
    n_pow = ctx.budget(60, 500)
    from cola.linalg import eig, eigmax, PowerIteration
    import cola
    from cola import ops
    for _ in range(n_pow):
        c = power_case(rnd, ctx.budget(6, 9), avoid)
        n = c["n"]
        if "power_iteration_negative_eig" in avoid:
            xnp0 = ops.Dense(c["M"]).xnp
            if not rayleigh_all_positive(c["M"], np.asarray(xnp0.randn(n, dtype=np.float64, device=None, key=xnp0.PRNGKey(42)))):
                bump(skipped_region, "power_iteration_negative_eig")
                continue
        evals += 1
        bump(hist, "power:" + c["how"] + (":complex" if c["cplx"] else "") + (":negative" if np.real(c["lam"][0]) < 0 else "") + (":f32" if c["f32"] else ""))
        if c["scale"] != 1.0:
            bump(hist, "power:scale:1e%+03d" % (3 * int(np.floor(np.log10(c["scale"]) / 3))))
        A = ops.Dense(c["M"])
        if c["sa"]:
            A = cola.SelfAdjoint(A)
        kw = c["kwargs"]
        tolv, maxit = kw.get("tol", 1e-6), kw.get("max_iter", 100)
        case_js = dict(kind="power", n=n, dt=c["dt"], scale=c["scale"], sa=c["sa"], how=c["how"], kwargs=kw, M=c["M"].tolist() if not c["cplx"] else [[str(x) for x in r] for r in c["M"]])
        distinct.add(core.digest(case_js))
        try:
            v_ref, e_ref, info = PowerIteration(**kw)(A)
            iters = int(info["iterations"]) - 1
            if c["how"] == "auto":
                w, V = eig(A, 1, "LM")
                e, v = w[0], np.asarray(V)[:, 0]
            elif c["how"] == "alg":
                w, V = eig(A, 1, "LM", PowerIteration(**kw))
                e, v = w[0], np.asarray(V)[:, 0]
            elif c["how"] == "eigmax":
                e, v = eigmax(A, PowerIteration(**kw)), np.asarray(v_ref)
            else:
                e, v = e_ref, np.asarray(v_ref)
            if c["how"] == "auto" and kw:
                raise AssertionError("auto with kwargs")
        except Exception as ex:
            mism.append(dict(oracle_fail=True, case=case_js, got=f"{type(ex).__name__}: {str(ex)[:200]}", failed_clauses=["raised on an input the model accepts"]))
            continue
        if not (complex(e) == complex(e_ref) and np.array_equal(np.asarray(v), np.asarray(v_ref))):
            mism.append(dict(oracle_fail=False, case=case_js, failed_clauses=["eig(A,1,'LM'[,PowerIteration]) / eigmax differ from PowerIteration(...)(A)"]))
            continue
        xnp = A.xnp
        v0 = np.asarray(xnp.randn(n, dtype=A.dtype, device=None, key=xnp.PRNGKey(42)))
        # independent oracle
        bad = []
        lam1 = c["lam"][0]
        stopped_by_tol = iters < maxit
        if stopped_by_tol and tolv <= 1e-6:
            if not (abs(e - lam1) <= 1e-3 * abs(lam1)):
                bad.append(f"value {e} is not the dominant eigenvalue {lam1} (stopped by tolerance after {iters} steps)")
            vv = np.asarray(v) / np.linalg.norm(v)
            r = float(np.abs(c["M"].astype(np.complex128) @ vv.astype(np.complex128) - complex(e) * vv).max())
            if not (r <= 5e-2 * abs(lam1) / (1 if c["sa"] else 1)):
                bad.append(f"residual {r:.3g}")
        if iters > maxit:
            bad.append(f"{iters} iterations exceed max_iter={maxit}")
        if bad:
            oracle_viol.append(("p", len(pmeta) + len(pcmeta)))
        pfl = f"(mkpflags {'false' if 'power_iteration_negative_eig' in present else 'true'} {'false' if 'power_iteration_complex_no_conj' in present else 'true'})"
        if c["f32"]:
            # the Coq model computes in binary64: single-precision runs are judged by the oracle alone
            if bad:
                mism.append(dict(oracle_fail=True, case=case_js, got=dict(eig=str(e), iterations=iters), failed_clauses=bad))
        elif c["cplx"]:
            cf = lambda z: f"({L.hexf(complex(z).real)}, {L.hexf(complex(z).imag)})"
            cv = lambda a: "[" + ";".join(cf(z) for z in np.asarray(a).reshape(-1)) + "]"
            cm = lambda a: "[" + ";".join(cv(r_) for r_ in np.asarray(a)) + "]"
            pcterms.append(f"mkpcase {pfl} {cm(c['M'])} {cf(tolv)} {maxit} {cv(v0)} {cf(10)} {cf(1)} {cf(e)} {iters} {cv(v)}")
            pcmeta.append(dict(case=case_js, bad=bad, got=dict(eig=str(e), iterations=iters)))
        else:
            pterms.append(f"mkpcase {pfl} {L.fmat(c['M'])} {L.hexf(tolv)} {maxit} {L.fvec(v0)} {L.hexf(10)} {L.hexf(1)} {L.hexf(e)} {iters} {L.fvec(v)}")
            pmeta.append(dict(case=case_js, bad=bad, got=dict(eig=float(e), iterations=iters)))
        if c["how"] == "auto":
            aterms.append(f"mkacase {'true' if c['sa'] else 'false'} true (1) LM APower")

    # ---------------- in-Coq comparison
    fails = set()
    outs, shard = L.run_shards("c10_q", HEADER, "ecase", terms, "Eval vm_compute in (failing_from check_ecase 0 cases).", shard=120)
    for si, (rc, out) in enumerate(outs):
        lst = L.parse_natlist(out) if rc == 0 else None
        if lst is None:
            mism.append(dict(oracle_fail=False, harness_error=f"Coq shard c10_q_{si}: rc={rc}\n{out[-1500:]}"))
            continue
        fails |= {si * shard + i for i in lst}
    for i, m in enumerate(meta):
        if i in fails or m["bad"]:
            mism.append(dict(oracle_fail=bool(m["bad"]), case=m["case"], got=m["got"], failed_clauses=m["bad"], model_disagrees=(i in fails)))
    if aterms:
        outs, shard = L.run_shards("c10_a", HEADER, "acase", aterms, "Eval vm_compute in (failing_from check_acase 0 cases).", shard=300)
        for si, (rc, out) in enumerate(outs):
            lst = L.parse_natlist(out) if rc == 0 else None
            if lst is None or lst:
                mism.append(dict(oracle_fail=False, harness_error=f"Auto table: shard {si} rc={rc} failing={lst}\n{out[-800:]}"))
    pties = set()
    for nm, decl, chk, pt, pm in (("c10_p", "(pcase (T:=float))", "check_pcase_r", pterms, pmeta), ("c10_pc", "(pcase (T:=cfl))", "check_pcase_c", pcterms, pcmeta)):
        pfails = set()
        if pt:
            outs, shard = L.run_shards(nm, HEADER, decl, pt, f"Eval vm_compute in (codes_from {chk} 0 cases).", shard=100)
            for si, (rc, out) in enumerate(outs):
                lst = L.parse_pairlist(out) if rc == 0 else None
                if lst is None:
                    mism.append(dict(oracle_fail=False, harness_error=f"Coq shard {nm}_{si}: rc={rc}\n{out[-1500:]}"))
                    continue
                for i, code in lst:
                    (pfails if code == 1 else pties).add((nm, si * shard + i))
        for i, m in enumerate(pm):
            if (nm, i) in pfails or m["bad"]:
                mism.append(dict(oracle_fail=bool(m["bad"]), case=m["case"], got=m["got"], failed_clauses=m["bad"], model_disagrees=((nm, i) in pfails)))
    near_tie += len(pties)
    return dict(
        evaluations=evals, distinct_nontrivial=len(distinct),
        rule="structural rules (Identity/Diagonal/Triangular, Gaussian-integer payloads, n<=5, every k and which, 5 algorithm arguments) compared exactly / at 1e-7 with the "
             "Coq model on Gaussian rationals; dense and Krylov rules on operators with prescribed separated spectra (7 wrappers, 7 spectrum classes, caps below/at/above n): "
             "oracle output passed as exact rationals, model = slice, compared exactly; power iteration on PrimFloat; distinct by case hash (all have n>=1 and a non-trivial spectrum)",
        samples=samples, mismatches=mism, findings=fnd,
        extra=dict(histogram=hist, near_tie=near_tie, skipped_spoiled_region=skipped_region, ritz_only_cases_below_n=below_n,
                   qi_cases=len(terms), power_cases=len(pterms) + len(pcterms), power_near_tie=len(pties),
                   auto_rule_observations=len(aterms), eigmax_eigmin_checked=eigmaxmin_checked[0], ritz_galerkin_checked=galerkin_checked[0]))
