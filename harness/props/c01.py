"""C01 - an operator acts on arrays exactly as the matrix it represents (DESIGN.md section 5, C01)."""
import numpy as np
import opcases as O
import trees as T
import core

TRUSTED_BASE = [
    "Coq 8.16.1 kernel + vm_compute (no native_compute); theorems closed under the global context (no axioms)",
    "hand-written model coq/Op.v (den = represented matrix, mm = the code's per-kind products) - tied to /repo by this correspondence check",
    "harness: trees.py (JSON tree -> cola objects / -> Coq terms / -> independent numpy dense oracle), opcases.py, shim.py (numpy vmap/linear_transpose/sparse_csr/to_np)",
    "numpy primitives (@, reshape, moveaxis, kron, block_diag, fancy indexing) are modelled, not verified",
]
ASSUMPTIONS = [
    "exact tier: all payloads are small Gaussian integers so float32/float64 arithmetic is exact (entry bound 2^20 enforced by the generator)",
    "Kernel, Jacobian, Hessian, no_dispatch and matmat-defined operators are built for real (exact derivatives supplied with the map through the shim) and modelled as the oracle kind Gen (their matrix is an input of the model; what is modelled is the plumbing around them: default left product, densification, nesting); FFT is checked against the unitary DFT matrix numerically only",
]


def findings():
    """probe each recorded defect flag on the implementation with its witness"""
    import cola
    from cola import ops
    out = []

    def probe(flag, what, fn, witness):
        try:
            present, got = fn()
        except Exception as e:
            present, got = True, f"raised {type(e).__name__}: {e}"
        out.append(dict(flag=flag, present=bool(present), what=what, witness=witness, got=str(got)))

    def sum_dtype():
        A = ops.Sum(ops.Dense(np.ones((1, 1), np.float32)), ops.Dense(np.ones((1, 1), np.float64)))
        return np.dtype(A.dtype) != np.float64, A.dtype
    probe("sum_dtype_first", "Sum(Dense float32, Dense float64).dtype is float32, not the promoted float64", sum_dtype,
          "Sum(Dense(ones((1,1),float32)), Dense(ones((1,1),float64))).dtype")

    def concat_dtype():
        A = ops.Concatenated(ops.Dense(np.ones((1, 1), np.float32)), ops.Dense(np.ones((1, 1), np.float64)), axis=0)
        return np.dtype(A.dtype) != np.float64, A.dtype
    probe("concat_dtype_first", "Concatenated(Dense float32, Dense float64).dtype is float32, not the promoted float64", concat_dtype,
          "Concatenated(Dense(ones((1,1),float32)), Dense(ones((1,1),float64)), axis=0).dtype")

    def ident_dtype():
        y = ops.Identity((2, 2), np.complex128) @ np.ones(2, np.float64)
        return y.dtype != np.complex128, y.dtype
    probe("identity_passes_dtype", "Identity(complex128) @ float64 vector returns float64, not the promoted complex128", ident_dtype,
          "Identity((2,2),complex128) @ ones(2,float64)")

    def perm_dtype():
        y = ops.Permutation(np.array([1, 0]), np.float64) @ np.ones(2, np.float32)
        return y.dtype != np.float64, y.dtype
    probe("permutation_passes_dtype", "Permutation(dtype=float64) @ float32 vector returns float32, not the promoted float64", perm_dtype,
          "Permutation([1,0],float64) @ ones(2,float32)")

    def sliced_imag():
        A = ops.Sliced(ops.Dense(np.array([[1., 2.], [3., 4.]])), (slice(0, 2), slice(0, 2)))
        x = np.array([1j, 1.0])
        y = A @ x
        want = np.array([[1., 2.], [3., 4.]]) @ x
        return not np.array_equal(np.asarray(y, dtype=complex), want), y
    probe("sliced_drops_imag", "a complex operand multiplied into a slice of a real operator loses its imaginary part", sliced_imag,
          "Sliced(Dense([[1,2],[3,4]]),(slice(0,2),slice(0,2))) @ [1j,1]")

    def concat1():
        A = ops.Concatenated(ops.Dense(np.ones((2, 1))), ops.Dense(np.ones((2, 2))), axis=1)
        y = A @ np.ones((3, 1))
        return not (y.shape == (2, 1) and np.array_equal(y, 3 * np.ones((2, 1)))), y
    probe("concat_axis1_wrong", "Concatenated(axis=1) @ X does not compute [M1 M2] X (raises a dimension-mismatch assertion)", concat1,
          "Concatenated(Dense(ones((2,1))),Dense(ones((2,2))),axis=1) @ ones((3,1))")

    def concat_axis():
        A = ops.Concatenated(ops.Dense(np.ones((1, 2))), ops.Dense(np.ones((2, 2))), axis=0)
        D = A.to_dense()
        return not np.array_equal(D, np.ones((3, 2))), D
    probe("concat_assert_wrong_axis", "Concatenated asserts equal sizes along the concatenated axis instead of the other one: stacking a 1x2 on a 2x2 block is rejected", concat_axis,
          "Concatenated(Dense(ones((1,2))),Dense(ones((2,2))),axis=0)")

    def sparse_unsorted():
        A = ops.Sparse(np.array([2., 3.]), np.array([1, 1]), np.array([2, 0]), (2, 3))
        D = np.asarray(A.to_dense())
        want = np.array([[0., 0., 0.], [3., 0., 2.]])
        return not np.array_equal(D, want), D.tolist()
    probe("sparse_unsorted_cols", "Sparse pairs the caller's data order with scipy's column-sorted CSR indices: entries given with descending columns inside a row are permuted", sparse_unsorted,
          "Sparse(data=[2,3],rows=[1,1],cols=[2,0],shape=(2,3)).to_dense()")

    def kronsum_dtype():
        A = ops.KronSum(ops.Dense(np.array([[1j]])), ops.Dense(np.array([[2 + 0j]])))
        y = A @ np.ones(1)
        return not np.array_equal(np.asarray(y, dtype=complex), np.array([2 + 1j])), y
    probe("kronsum_inplace_dtype", "KronSum._matmat accumulates in place into a buffer of the operand's dtype: complex factors times a real operand raise, float64 factors times float32 return float32", kronsum_dtype,
          "KronSum(Dense([[1j]]),Dense([[2+0j]])) @ ones(1)")

    def sliced_cast():
        A = ops.Sliced(ops.Dense(np.ones((2, 2), np.float32)), (slice(0, 2), slice(0, 2)))
        y = A @ np.ones(2, np.float64)
        return y.dtype != np.float64, y.dtype
    probe("sliced_casts_operand", "Sliced scatters the operand into a buffer of the operator's dtype: float32 slice @ float64 vector returns float32", sliced_cast,
          "Sliced(Dense(ones((2,2),float32)),(slice(0,2),slice(0,2))) @ ones(2,float64)")

    def sliced_arr():
        A = ops.Sliced(ops.Dense(np.arange(9.).reshape(3, 3)), (np.array([0, 2]), slice(None)))
        D = A.to_dense()
        return not np.array_equal(D, np.arange(9.).reshape(3, 3)[[0, 2]]), D
    probe("sliced_index_array_cpu", "Sliced with an integer index array raises AttributeError (.cpu() on a numpy array, numpy>=2 has .device)", sliced_arr,
          "Sliced(Dense(arange(9).reshape(3,3)),(array([0,2]),slice(None))).to_dense()")

    def kernel_shape():
        K = ops.Kernel(np.arange(3.).reshape(3, 1), np.arange(2.).reshape(2, 1), lambda a, b: a @ b.T, 1, 1)
        D = K.to_dense()
        want = np.arange(3.).reshape(3, 1) @ np.arange(2.).reshape(2, 1).T
        return not (D.shape == want.shape and np.array_equal(D, want)), D.shape
    probe("kernel_shape_iters", "Kernel._matmat allocates its output with the operand's shape: a 3x2 kernel operator densifies to shape (2,2)", kernel_shape,
          "Kernel(x1:(3,1),x2:(2,1),fn,1,1).to_dense()")
    return out


def run(ctx):
    fnd = findings()
    present = {f["flag"] for f in fnd if f["present"]}
    n = ctx.budget(500, 6000)
    kinds = [k for k in T.LEAF + T.COMP if k != "KronSum"] + ["KronSum"]
    gen = T.Gen(ctx.rng, kinds=kinds)
    gen.concat_equal = "concat_assert_wrong_axis" in present
    gen.sparse_sorted = "sparse_unsorted_cols" in present
    gen.mix_excl = ({"Sliced"} if ("sliced_drops_imag" in present or "sliced_casts_operand" in present) else set()) | \
                   ({"KronSum"} if "kronsum_inplace_dtype" in present else set())

    from props import c05 as _c05, c02 as _c02
    _c05_present = {f["flag"] for f in _c05.findings() if f["present"]}

    def accept(case):
        t = case["tree"]
        if "scalar_keeps_annotations" in _c05_present and _c02.scalar_annot_unsafe(t):
            return False   # recorded C05 finding: a non-real multiple of Identity / Permutation keeps their annotations and misleads the left-product shortcut under wrappers
        tree_cplx = any(d in T.CPLX for d in O.leaf_dts(t))
        if "sliced_drops_imag" in present and O.sliced_unsafe(t, case["dx"]):
            return False
        if O.has_kind(t, ("Gen",)) and not set(O.leaf_dts(t) + [case["dx"]]) <= {"float64", "complex128"}:
            return False   # product routines of Kernel / Jacobian / user matmat fix their own output dtype (out of the dtype model)
        if "kronsum_inplace_dtype" in present and O.has_kind(t, ("KronSum",)) and tree_cplx and case["dx"] not in T.CPLX:
            return False
        if "sliced_index_array_cpu" in present:
            bad = []

            def walk(x):
                if x["k"] == "Sliced" and (x.get("ia") or T.range_slice(x["rs"]) is None or T.range_slice(x["cs"]) is None):
                    bad.append(1)
                for y in (x.get("ms") or ([x["a"]] if isinstance(x.get("a"), dict) else [])):
                    walk(y)
            walk(t)
            if bad:
                return False
        return True
    cases = O.gen_cases(ctx, n, gen, ctx.budget(3, 4), accept=accept)
    # annotated operators: the same trees with TRUE declarations (SelfAdjoint / PSD / Unitary / Stiefel) at their nodes,
    # from property C05's generator - a declaration (and what rules do with it) must not change action or dense form
    from props import c05
    c05_present = {f["flag"] for f in c05.findings() if f["present"]}
    ag = c05.AGen(ctx.rng, T.Gen(ctx.rng, kinds=("Dense", "Diag", "Tri", "Tridiag", "Sum", "Prod", "Kron", "Transp", "Adj")))
    ag.index_arrays = "sliced_index_array_cpu" not in present
    n_an, tries_an = ctx.budget(80, 800), 0
    rnd = ctx.rng
    while n_an > 0 and tries_an < 4000:
        tries_an += 1
        an, t = ag.node(rnd.randint(1, 3), rnd.random() < 0.6)
        m_, n_ = T.shape(t)
        if m_ == 0 or n_ == 0 or m_ * n_ > 400:
            continue
        if "scalar_keeps_annotations" in c05_present and c05.scal_in_prod(t):
            continue
        if "SelfAdjoint" in c05.truth(T.dense(t)) and rnd.random() < 0.6:
            an = dict(an, decl=sorted(set(an.get("decl", [])) | {"SelfAdjoint"}))
        wide64 = set(O.leaf_dts(t)) <= {"float64", "complex128", "int64"}
        if T.absbound(t) * 5 * max(m_, n_) > (2 ** 45 if wide64 else 2 ** 20):
            continue
        xc = rnd.random() < 0.5
        dx = ("complex128" if xc else "float64") if (wide64 and T.absbound(t) > 2 ** 18) else rnd.choice(T.CPLX if xc else T.REAL)
        k_ = rnd.choice([1, 2])
        case = dict(tree=t, an=an, m=m_, n=n_, k=k_, dx=dx, X=O.rand_mat(rnd, n_, k_, xc), XL=O.rand_mat(rnd, k_, m_, xc))
        if not accept(case):
            continue
        cases.append(case)
        n_an -= 1
    obs = [O.run_impl(c) for c in cases]
    # model vs implementation, inside Coq
    coq_idx = list(range(len(cases)))
    terms = [O.coq_case(cases[i], obs[i]) for i in coq_idx]
    failing, err = O.eval_in_coq("c01", terms, "check_td", header_extra="From Core Require Import ToDense CheckTD.\n")
    mism = []
    if err:
        mism.append(dict(oracle_fail=False, harness_error=err))
        failing = []
    failset = {coq_idx[i] for i in failing}
    # dtype clause: Coq dtype model at the probed flag vector vs A.dtype / (A@X).dtype / (X@A).dtype, all cases
    import re as _re
    flv = ("{| sum_first := %s; concat_first := %s; ident_pass := %s; perm_pass := %s; kronsum_inplace := %s; sliced_cast := %s |}" %
           tuple("true" if f in present else "false" for f in ("sum_dtype_first", "concat_dtype_first", "identity_passes_dtype",
                                                               "permutation_passes_dtype", "kronsum_inplace_dtype", "sliced_casts_operand")))
    dt_idx = [i for i, o in enumerate(obs) if o.get("ok")]
    dterms = []
    for i in dt_idx:
        c, o = cases[i], obs[i]
        hl = o.get("resl_dtype") in T.DTC
        dterms.append("{| dtree := %s; ddx := %s; dA := %s; dout := %s; drout := %s; dhas_left := %s; ddense := %s |}" %
                      (T.dsk(c["tree"]), T.DTC[c["dx"]], T.DTC[o["dtype"]], T.DTC[o["res_dtype"]], T.DTC[o["resl_dtype"]] if hl else "F32", "true" if hl else "false",
                       T.DTC.get(o.get("dense_dtype"), T.DTC[o["dtype"]] if O.has_kind(c["tree"], ("Gen",)) else "I32")))
    dfail = set()
    shard = 400
    jobs = [(f"c01dt_{s0 // shard}", "From Coq Require Import List Bool Arith.\nFrom Core Require Import DtypeTable Dtype CheckDT.\nImport ListNotations.\n"
             "Definition cases : list dcase := [\n" + ";\n".join(dterms[s0:s0 + shard]) + f"].\nEval vm_compute in (length cases, dfailing {flv} 0 cases).\n")
            for s0 in range(0, len(dterms), shard)]
    for si, (rc, out) in enumerate(core.coqc_many(jobs, 600)):
        mm = _re.search(r"=\s*\((\d+),\s*\[(.*?)\]\)", out, flags=_re.S)
        if rc != 0 or not mm:
            mism.append(dict(oracle_fail=False, harness_error=f"dtype shard {si}: rc={rc}\n{out[-1200:]}"))
            continue
        if mm.group(2).strip():
            dfail |= {dt_idx[si * shard + int(x)] for x in mm.group(2).replace("\n", " ").split(";") if x.strip()}
    dt_checked = len(dt_idx)
    dt_deviates = 0
    for i, (c, o) in enumerate(zip(cases, obs)):
        bad = O.oracle_fwd(c, o)
        dbad = []
        if o.get("ok"):
            dts = O.leaf_dts(c["tree"])
            want_op, want = O.promote_all(dts), O.promote_all(dts + [c["dx"]])
            if o["dtype"] != want_op:
                dbad.append(f"A.dtype {o['dtype']} != {want_op}")
            if o["res_dtype"] != want:
                dbad.append(f"(A@X).dtype {o['res_dtype']} != {want}")
            if o.get("dense_dtype") != want_op and not O.has_kind(c["tree"], ("Gen",)):
                dbad.append(f"A.to_dense().dtype {o.get('dense_dtype')} != {want_op}")
            dt_deviates += bool(dbad)
        # a deviation from the promoted dtype that the model reproduces at the probed flags is a recorded finding
        if bad or i in failset or i in dfail:
            mism.append(dict(oracle_fail=bool(bad) or (i in dfail and bool(dbad)), case=c, got=o, failed_clauses=bad + (dbad if i in dfail else []),
                             model_disagrees=(i in failset), dtype_model_disagrees=(i in dfail)))
    # FFT: unitary DFT matrix (irrational entries -> tolerance tier, independent numpy oracle only)
    fft_checked = 0
    try:
        from cola import ops as _ops
        for nf in range(1, ctx.budget(9, 17)):
            F = np.exp(-2j * np.pi * np.outer(np.arange(nf), np.arange(nf)) / nf) / np.sqrt(nf)
            A = _ops.FFT(nf, np.complex128)
            X = (np.arange(nf * 2).reshape(nf, 2) - 1.5) * (1 + 0.5j)
            XL = X.T.copy()
            outs = {"to_dense": (np.asarray(A.to_dense()), F), "A@X": (np.asarray(A @ X), F @ X), "A@x": (np.asarray(A @ X[:, 0]), F @ X[:, 0]),
                    "XL@A": (np.asarray(XL @ A), XL @ F), "A.T": (np.asarray(A.T.to_dense()), F.T), "A.H": (np.asarray(A.H.to_dense()), F.conj().T)}
            for nm, (got, want) in outs.items():
                fft_checked += 1
                if got.shape != want.shape or not np.allclose(got, want, atol=1e-10):
                    mism.append(dict(oracle_fail=True, case=f"FFT({nf}) {nm}", failed_clauses=["FFT operator differs from the unitary DFT matrix"]))
    except Exception as e:
        mism.append(dict(oracle_fail=True, case="FFT", failed_clauses=[f"raised {type(e).__name__}: {e}"]))
    distinct = len({core.digest(c["tree"]) for c in cases if O.nontrivial(c)})
    return dict(
        evaluations=len(cases), distinct_nontrivial=distinct,
        rule="random operator expression trees (all kinds, depth<=%d, Gaussian-integer payloads, 1-3 operand columns, mixed dtypes); "
             "non-trivial = depth>=2 or a structured leaf; distinct by tree hash" % ctx.budget(3, 4),
        samples=[dict(tree=c["tree"], X=c["X"], dx=c["dx"]) for c in cases[:2]],
        mismatches=mism, findings=fnd,
        extra=dict(kind_histogram=O.histogram(cases), fft_checks=fft_checked, wide_cases=sum(1 for c in cases if 8 * c['m'] < c['n']), column_or_row_shapes=sum(1 for c in cases if 1 in (c['m'], c['n'])), compared_in_coq=len(coq_idx), dtype_clause_checked=dt_checked, dtype_deviations_explained_by_recorded_flags=dt_deviates, dtype_flag_vector=flv,
                   impl_exceptions=sum(1 for o in obs if not o.get("ok")),
                   complex_cases=sum(1 for c in cases if any(d in T.CPLX for d in O.leaf_dts(c["tree"])))))
