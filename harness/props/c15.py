"""C15 - Arnoldi returns an orthonormal Krylov basis satisfying the Arnoldi relation (DESIGN.md section 5, C15)."""
import re
import numpy as np
import core
import c15_lib as L

TRUSTED_BASE = [
    "Coq 8.16.1 kernel + vm_compute; theorems of coq/PropsC15.v closed under the global context except the R-instance example (standard Reals axioms) "
    "and the binary64 witnesses (PrimFloat kernel primitives)",
    "hand-written model coq/C15_Model.v (arnoldi, init_arnoldi, arnoldi_fact with its modified Gram-Schmidt inner loop, clip(norm, tol/2), cond_fun, buffers sized by "
    "the requested max_iters, arnoldi_eigs' slicing) as a reading of cola/linalg/decompositions/arnoldi.py - tied to /repo by this correspondence check",
    "PrimFloat = IEEE binary64; NumPy/BLAS summation order differs from the model's left-to-right sums: compared at 1e-9",
    "harness: c15_lib.py / c14_lib.py (generator, dense-matrix builders, runner, rendering of cases as Coq terms), shim.py (numpy vmap used by batched starts)",
    "independent oracle: plain numpy on dense matrices (shapes, first column, Hessenberg form, orthonormality of the active columns, Arnoldi relation, zero padding, spectrum)",
]
# kernel primitives of Coq's binary64 floats (not logical axioms), listed by Print Assumptions for the vm_compute witnesses
EXTRA_AXIOMS = ["PrimFloat.float", "PrimFloat.add", "PrimFloat.sub", "PrimFloat.mul", "PrimFloat.div", "PrimFloat.opp", "PrimFloat.abs",
                "PrimFloat.sqrt", "PrimFloat.ltb", "PrimFloat.leb", "PrimFloat.eqb"]
ASSUMPTIONS = [
    "float64 / complex128 operators only (the model computes in binary64); use_householder=False (the only path reachable from the public algorithms)",
    "theorems are about exact arithmetic over an abstract field with involution and inner-product space (weak equality: tested against every vector); "
    "floating-point behaviour is covered by the correspondence check and the oracle",
    "reading of the statement (DESIGN.md C15): orthonormality is demanded of the columns whose sub-diagonal entry exceeds the tolerance, a zero column afterwards",
    "Coq comparison skips (and counts) cases whose stopping decision is within 1e-6 of flipping or where a remainder below 1e-2 of the scale of H was normalised "
    "into a column used by later steps; the column produced by the last step is not compared when its remainder is at that level",
    "regions spoiled by the recorded defects (grade-1 starts, batches whose elements break down at different steps, tol below the noise floor with breakdown) "
    "are generated only for the oracle when the corresponding probe says the defect is gone",
]


def findings():
    from cola.linalg.decompositions.arnoldi import arnoldi, arnoldi_eigs
    from cola import ops
    out = []

    def probe(flag, what, fn, witness):
        try:
            present, got = fn()
        except Exception as e:
            present, got = True, f"raised {type(e).__name__}: {e}"
        out.append(dict(flag=flag, present=bool(present), what=what, witness=witness, got=str(got)))

    M4 = np.array([[4., 1., 0., 2.], [0., 3., 1., 0.], [1., 0., 2., 1.], [0., 2., 0., 1.]])
    S5 = np.diag([1., 2., 3., 4., 5.]) + 0.5 * (np.eye(5, k=1) + np.eye(5, k=-1))

    def padding():
        w, V, _ = arnoldi_eigs(ops.Dense(M4), np.array([1., 2., -1., 0.5]), max_iters=7)
        w = np.asarray(w)
        zeros = int(np.sum(np.abs(w) < 1e-12))
        return len(w) != 4 or zeros > 0, f"{len(w)} eigenvalues returned for a 4x4 operator, {zeros} of them zero (the operator is non-singular)"
    probe("arnoldi_padding",
          "arnoldi_eigs with max_iters > n takes the eigenvalues of the zero-padded max_iters x max_iters block of H: spurious zero eigenvalues (the Arnoldi algorithm object defaults to max_iters=1000)",
          padding, "arnoldi_eigs(Dense([[4,1,0,2],[0,3,1,0],[1,0,2,1],[0,2,0,1]]), [1,2,-1,.5], max_iters=7)")

    def garbage():
        w, U = np.linalg.eigh(S5)
        Q, H, _ = arnoldi(ops.Dense(S5), U[:, 0] + U[:, 1], max_iters=4, tol=1e-12)
        Q = np.asarray(Q.to_dense()); H = np.asarray(H.to_dense())
        nrm = float(np.linalg.norm(Q[:, 2]))
        return (H[2, 1] < 1e-12) and (1e-9 < nrm < 0.9), f"H[2,1]={H[2, 1]:.3g} (breakdown) but ||Q[:,2]||={nrm:.3g}; ||A Q[:,2] - Q H[:,2]||={np.linalg.norm(S5 @ Q[:, 2] - Q @ H[:, 2]):.3g}"
    probe("arnoldi_clip_garbage",
          "after breakdown the next basis column is remainder/(tol/2) (clipped normalisation), neither zero nor a unit vector; the relation A Q[:, :m] = Q H fails in that column",
          garbage, "arnoldi(Dense(diag(1..5)+0.5*offdiag), u0+u1 (two eigenvectors from numpy eigh), max_iters=4, tol=1e-12)")

    def reltol():
        S = np.array([[2., 1., 0.], [1., 3., 1.], [0., 1., 4.]])
        w, U = np.linalg.eigh(S)
        Q, H, _ = arnoldi(ops.Dense(S), U[:, 0].copy(), max_iters=3)
        Q = np.asarray(Q.to_dense()); H = np.asarray(H.to_dense())
        G = Q.T @ Q
        err = float(np.abs(G - np.diag(np.diag(G))).max())
        return np.abs(H[:, 1:]).max() > 0, f"H[1,0]={H[1, 0]:.3g} (breakdown at the first step) yet later columns of H are non-zero; max off-diagonal |Q^T Q|={err:.3g}"
    probe("arnoldi_reltol_first_step",
          "the stopping test compares the last remainder norm with tol*H[1,0], i.e. at idx=1 H[1,0] with itself: breakdown at the very first step (start vector an eigenvector) "
          "is only detected when the remainder is exactly 0; the iteration continues through clipped rounding noise and returns non-orthogonal columns",
          reltol, "arnoldi(Dense([[2,1,0],[1,3,1],[0,1,4]]), first eigenvector from numpy eigh, max_iters=3)")

    def absclip():
        A = 1e-6 * np.array([[2., 1.], [1., 3.]])
        Q, H, _ = arnoldi(ops.Dense(A), np.array([1., 1.]), max_iters=2, tol=1e-6)
        Q = np.asarray(Q.to_dense()); H = np.asarray(H.to_dense())
        rel = float(H[1, 0] / np.linalg.norm(H[:, 0]))
        return np.abs(Q[:, 1]).max() == 0 and rel > 1e-3, f"Q[:,1] = {Q[:, 1].tolist()} although the first remainder is {rel:.3g} of ||A q_0|| (tol = 1e-6)"
    probe("arnoldi_absolute_clip",
          "the remainder is normalised only if its norm exceeds the ABSOLUTE tol/2: for an operator of small overall scale (||A|| <~ tol) the basis stops "
          "after q_0 although the Krylov space is not exhausted (zero second column, A Q[:, :m] = Q H fails; gmres stalls at relative residual 0.14)",
          absclip, "arnoldi(Dense(1e-6*[[2,1],[1,3]]), [1,1], max_iters=2, tol=1e-6)")

    def startdtype():
        S = np.array([[2., 1., 0.], [1., 3., 1.], [0., 1., 4.]])
        b = np.array([1 + 2j, 2 - 1j, 3j])
        import warnings
        with warnings.catch_warnings():
            warnings.simplefilter("ignore")
            Q, H, _ = arnoldi(ops.Dense(S), b, max_iters=2)
        Q = np.asarray(Q.to_dense())
        err = float(np.abs(Q[:, 0] - b / np.linalg.norm(b)).max())
        return err > 1e-8, f"Q dtype {Q.dtype}; max|Q[:,0] - v/||v||| = {err:.3g}"
    probe("arnoldi_start_dtype_cast",
          "arnoldi allocates its basis and H in the operator's dtype: a complex start vector on a real operator loses its imaginary part "
          "(a float64 start vector on a float32 operator is rounded to float32), so the first column is not v/||v|| and the factorisation is that of another vector",
          startdtype, "arnoldi(Dense([[2,1,0],[1,3,1],[0,1,4]]), [1+2j,2-1j,3j], max_iters=2)")

    def gap():
        S = np.array([[2., 1., 0.], [1., 3., 1.], [0., 1., 4.]])
        v = np.array([1., 0., 0.])                      # A q_0 = (2,1,0): H[0,0] = 2, first remainder 1, ||A q_0|| = sqrt(5)
        tol = 1.0 / (0.75 * np.sqrt(5.0))               # so that the first remainder is 0.75 * tol * ||A q_0||: inside (tol/2, tol] * ||A q_0||
        Q, H, _ = arnoldi(ops.Dense(S), v, max_iters=3, tol=tol)
        Q = np.asarray(Q.to_dense()); H = np.asarray(H.to_dense())
        res = float(np.abs(S @ Q[:, 1] - Q @ H[:, 1]).max())
        return np.abs(Q[:, 1]).max() > 0 and np.abs(H[:, 1]).max() == 0 and res > 1e-6, \
            f"tol={tol:.4g}: Q[:,1]={Q[:, 1].round(3).tolist()} (unit vector) but H[:,1]=0 and the loop stopped: |A q_1 - Q H[:,1]| = {res:.3g}"
    probe("arnoldi_stop_threshold_gap",
          "the loop stops when the remainder norm is <= tol*||A q_0|| but the next basis column is only zeroed when it is <= tol/2*||A q_0||: for a remainder in "
          "(tol/2, tol]*||A q_0|| the run ends with a non-zero basis column q_{j+1} whose column of H was never computed (zero), so A Q[:, :m] = Q H fails in that column",
          gap, "arnoldi(Dense([[2,1,0],[1,3,1],[0,1,4]]), [1,0,0], max_iters=3, tol=1/(0.75*sqrt(5)))")

    def startnorm():
        S = np.array([[2., 1., 0.], [1., 3., 1.], [0., 1., 4.]])
        v32 = np.array([0.3, -1.1, 0.7], dtype=np.float32)
        Q, H, _ = arnoldi(ops.Dense(S), v32, max_iters=2)
        Q = np.asarray(Q.to_dense())
        e32 = float(abs(np.linalg.norm(Q[:, 0]) - 1))
        Q2, _, _ = arnoldi(ops.Dense(S), np.array([0.3, -1.1, 0.7]) * 1e-160, max_iters=2)
        e160 = float(abs(np.linalg.norm(np.asarray(Q2.to_dense())[:, 0]) - 1))
        return Q.dtype == np.float64 and max(e32, e160) > 1e-12, f"float32 start on a float64 operator: basis dtype {Q.dtype}, | ||q_0|| - 1 | = {e32:.3g}; float64 start of norm 1e-160: {e160:.3g}"
    probe("arnoldi_start_norm_precision",
          "init_arnoldi normalises the start vector in the vector's own dtype with an unscaled norm and never re-normalises in the buffer's precision: "
          "for a float32 / complex64 start on a float64 / complex128 operator the first basis column is a unit vector only to float32 precision (2e-8) "
          "although the basis is float64; for a float64 start of norm ~1e-160 (squares subnormal) only to ~1e-6.  (lanczos re-normalises column 1 in its first step and is not affected)",
          startnorm, "arnoldi(Dense([[2,1,0],[1,3,1],[0,1,4]]), float32([0.3,-1.1,0.7]), max_iters=2)  and the same vector times 1e-160 in float64")

    def batch():
        w, U = np.linalg.eigh(S5)
        V = np.stack([np.array([1., -1., 2., 0.5, 1.5]), U[:, 0] + U[:, 1]], 1)
        Q, H, _ = arnoldi(ops.Dense(S5), V, max_iters=4)
        H1 = np.asarray(H.A)[1]
        return H1[2, 1] < 1e-12 and np.abs(H1[:, 2:]).max() > 0, f"element 1: H[2,1]={H1[2, 1]:.3g} (breakdown) yet max|H[:,2:]|={np.abs(H1[:, 2:]).max():.3g}"
    probe("arnoldi_batch_shared_stop",
          "batched start vectors share one stopping test (any over the batch): an element that has broken down keeps iterating on clipped rounding noise while another continues",
          batch, "arnoldi(Dense(diag(1..5)+0.5*offdiag), start block [[1,-1,2,.5,1.5], u0+u1], max_iters=4)")
    return out


def eval_cases(name, terms, shard=120, timeout=900, fn="acodes"):
    jobs = []
    for s in range(0, len(terms), shard):
        body = L.HEADER + "Definition cases : list acase := [\n" + ";\n".join(terms[s:s + shard]) + "].\n"
        body += f"Eval vm_compute in (length cases, {fn} 0 cases).\nEval vm_compute in (amaxdiff_agreeing cases).\n"
        jobs.append((f"{name}_{s // shard}", body))
    outs = core.coqc_many(jobs, timeout)
    codes = {}
    maxdiff = 0.0
    for si, (rc, out) in enumerate(outs):
        out = out.replace("%nat", "")
        m = re.search(r"=\s*\((\d+),\s*\[(.*?)\]\)\s*:", out, flags=re.S)
        if rc != 0 or not m:
            return None, f"shard {si}: rc={rc}\n{out[-1500:]}", None
        if int(m.group(1)) != len(terms[si * shard:(si + 1) * shard]):
            return None, f"shard {si}: evaluated {m.group(1)} cases", None
        md = re.search(r"=\s*([-+0-9.e]+|nan|infinity)\s*:\s*float", out)
        try:
            maxdiff = max(maxdiff, float(md.group(1).replace("infinity", "inf")))
        except Exception:
            maxdiff = float("nan")
        pairs = re.findall(r"\(\s*(\d+)\s*,\s*(\d+)\s*\)", m.group(2))
        if len(pairs) != m.group(2).count("("):          # fail closed: every printed pair must have been parsed
            return None, f"shard {si}: could not parse the list of codes\n{m.group(2)[:500]}", None
        for a, b in pairs:
            codes[si * shard + int(a)] = int(b)
    return codes, None, maxdiff


REGION_FLAG = {"grade1": "arnoldi_reltol_first_step", "batch_unequal": "arnoldi_batch_shared_stop"}


def run(ctx):
    fnd = findings()
    present = frozenset(f["flag"] for f in fnd if f["present"])
    ncoq = ctx.budget(400, 3600)
    nmax = ctx.budget(12, 18)
    cases, avoided, gone_region = [], {}, []
    tries = 0
    while len(cases) < ncoq and tries < 20 * ncoq:
        tries += 1
        c = L.gen_case(ctx.rng, present, nmax=nmax)
        reg = L.in_avoided_region(c, present)
        if reg:
            avoided[reg] = avoided.get(reg, 0) + 1
            flag = REGION_FLAG.get(reg)
            if flag and flag not in present and len(gone_region) < ncoq // 4:
                gone_region.append(c)
            continue
        cases.append(c)
    # mixed batches: one element breaks down, the others are generic (either order), max_iters < n.
    # Region of arnoldi_batch_shared_stop: used whenever the probe says the flag is gone
    mixed = [L.gen_mixed_batch(ctx.rng, nmax=min(nmax, 10)) for _ in range(ctx.budget(40, 240))]
    if "arnoldi_batch_shared_stop" in present:
        avoided["batch_mixed"] = len(mixed)
        mixed = []
    # exact-arithmetic stream: integer / dyadic data, canonical start vectors, permutations, coordinate invariant subspaces, 1x1;
    # remainders exactly 0.0 at the breakdown, tolerances on the boundaries (0, norm == tol/2, norm == tol*reference), every
    # max_iters around the grade and around n.  Compared without any excuse (bit-exact runs).
    exact = [L.gen_exact_case(ctx.rng) for _ in range(ctx.budget(150, 900))]
    # ... and exact inputs with a CONSTANT sub-diagonal (cyclic shifts, companion matrices, non-symmetric tridiagonal Toeplitz from e_1):
    # the tracked remainder norm is identical bit for bit at every step while the Krylov space grows to dimension n; a few with
    # n = max_iters straddling 50 and 100
    exact += [L.gen_constant_recurrence(ctx.rng) for _ in range(ctx.budget(30, 150))]
    exact_big = []
    for nb in ctx.budget([52, 101], [33, 52, 64, 101, 130]):
        cb = L.gen_constant_recurrence(ctx.rng, n=nb); cb["max_iters"] = nb + int(ctx.rng.choice([0, 0, 1])); cb["tol"] = float(ctx.rng.choice([1e-7, 0.0]))
        cb["entry"] = "arnoldi"
        exact_big.append(cb)
    if "arnoldi_clip_garbage" in present:      # pinned normalisation: tol = 0 with a zero remainder is 0/0 (region of that flag)
        avoided["exact_tol0"] = sum(1 for c in exact if c["tol"] == 0.0)
        exact = [c for c in exact if c["tol"] != 0.0]
        exact_big = [c for c in exact_big if c["tol"] != 0.0]
    n_small_exact = len(exact)
    exact += exact_big
    # small-scale operators (1e-4 .. 1e-9) with the usual tolerances: region of arnoldi_absolute_clip, used when the flag is gone
    small = [L.gen_small_scale(ctx.rng, nmax=min(nmax, 10)) for _ in range(ctx.budget(40, 240))]
    if "arnoldi_absolute_clip" in present:
        avoided["small_scale"] = len(small)
        small = []
    cases += small
    # start vector of a wider dtype than the operator (complex on real, float64 on float32): region of arnoldi_start_dtype_cast
    mixedt = [L.gen_mixed_dtype(ctx.rng, nmax=min(nmax, 10)) for _ in range(ctx.budget(40, 240))]
    if "arnoldi_start_dtype_cast" in present:
        avoided["mixed_dtype"] = len(mixedt)
        mixedt = []
    cases += mixedt
    # calls WITHOUT a start vector (default random probe, key given or not): compared on the independently reproduced probe
    nostart = [L.gen_nostart(ctx.rng, present, nmax=min(nmax, 10)) for _ in range(ctx.budget(40, 200))]
    cases += nostart
    big = []
    for _ in range(ctx.budget(10, 50)):
        c = L.gen_case(ctx.rng, present, nmax=12, force=dict(n=int(ctx.rng.choice([30, 64, 100, 200])), kind="dense"))
        c["max_iters"] = int(ctx.rng.choice([1, 5, 20, 40, 64, 110]))
        if not L.in_avoided_region(c, present):
            big.append(c)

    obs = [L.run_impl(c) for c in cases]
    mism = []
    idx = [i for i, o in enumerate(obs) if o.get("ok")]
    capped = "arnoldi_padding" not in present      # model variant: arnoldi_batch_capped when the flag is gone
    rfix = "arnoldi_reltol_first_step" not in present   # model variant: repaired stopping test
    cfix = "arnoldi_clip_garbage" not in present        # model variant: repaired normalisation
    afix = "arnoldi_absolute_clip" not in present       # model variant: breakdown threshold relative to ||A q_0||
    terms = [L.coq_case(cases[i], obs[i], capped, rfix, cfix, afix) for i in idx]
    codes, err, maxdiff = eval_cases("c15", terms)
    if err:
        mism.append(dict(oracle_fail=False, harness_error=err))
        codes = {}
    code_of = {idx[j]: cd for j, cd in codes.items()}
    hist = {}
    for i, (c, o) in enumerate(zip(cases, obs)):
        bad = L.oracle(c, o, present)
        cd = code_of.get(i, 0)
        hist[cd] = hist.get(cd, 0) + 1
        if bad or cd >= 3:
            mism.append(dict(oracle_fail=bool(bad), case=c, got={k: o.get(k) for k in ("ok", "err", "shapes", "H")},
                             failed_clauses=bad, model_code=cd, model_disagrees={4: "values of Q/H"}.get(cd)))
    # every element of a mixed batch against the single-start model run of that element, and against the oracle
    elem_compared = 0
    if mixed:
        mobs = [L.run_impl(c) for c in mixed]
        eterms, owner = [], []
        for ci, (c, o) in enumerate(zip(mixed, mobs)):
            bad = L.oracle(c, o, present)
            if bad:
                mism.append(dict(oracle_fail=True, case=c, got={k: o.get(k) for k in ("ok", "err", "shapes", "H")}, failed_clauses=bad))
            if o.get("ok"):
                for b, t in enumerate(L.coq_elem_cases(c, o, capped, rfix, cfix, afix)):
                    eterms.append(t); owner.append((ci, b))
        ecodes, eerr, _ = eval_cases("c15_elem", eterms)
        elem_compared = len(eterms)
        if eerr:
            mism.append(dict(oracle_fail=False, harness_error=eerr))
        for j, cd in (ecodes or {}).items():
            if cd >= 3:
                ci, b = owner[j]
                mism.append(dict(oracle_fail=False, case=mixed[ci], element=b, model_code=cd, got={k: mobs[ci].get(k) for k in ("shapes", "H")},
                                 model_disagrees="batch element differs from the single-start run of the same start vector"))
    # exact stream: oracle + plain (gate-free) comparison with the model
    xobs = [L.run_impl(c) for c in exact]
    xok = [i for i, o in enumerate(xobs) if o.get("ok")]
    xs = [i for i in xok if i < n_small_exact]; xb = [i for i in xok if i >= n_small_exact]
    xterm = lambda i: L.coq_case(exact[i], xobs[i], capped, rfix, cfix, afix)
    xcodes, xerr, _ = eval_cases("c15_exact", [xterm(i) for i in xs], fn="acodes_plain")
    bcodes, berr, _ = eval_cases("c15_exactbig", [xterm(i) for i in xb], fn="acodes_plain", shard=1)
    if xerr or berr:
        mism.append(dict(oracle_fail=False, harness_error=xerr or berr))
    xbad = {xs[j] for j in (xcodes or {})} | {xb[j] for j in (bcodes or {})}
    for i, (c, o) in enumerate(zip(exact, xobs)):
        bad = L.oracle(c, o, present)
        if bad or i in xbad:
            mism.append(dict(oracle_fail=bool(bad), case=c, got={k: o.get(k) for k in ("ok", "err", "shapes", "Q", "H")}, failed_clauses=bad,
                             model_disagrees=("exact-arithmetic case: values of Q/H differ from the model (no tolerance excuse applies)" if i in xbad else None)))
    # arnoldi_eigs over tolerances 1e-14..1e-3 and weak couplings 1e-13..1e-3 (float64 and float32): its values must be eig of the
    # square H of arnoldi() with the same arguments, and the spectrum of A whenever the tolerance resolves the coupling
    weak = [L.gen_weak_coupling(ctx.rng) for _ in range(ctx.budget(40, 250))]
    spoil = {"arnoldi_padding", "arnoldi_reltol_first_step", "arnoldi_absolute_clip", "arnoldi_clip_garbage", "arnoldi_start_dtype_cast"} & set(present)
    if spoil:
        avoided["weak_coupling_eigs"] = len(weak)
        weak = []
    for c in weak:
        o = L.run_impl(c)
        bad = L.oracle_eigs(c, o)
        if bad:
            mism.append(dict(oracle_fail=True, case=c, got={k: o.get(k) for k in ("ok", "err", "shapes", "eigs", "H")}, failed_clauses=bad))
    # badly scaled (graded) operators D^-1 M D, dynamic range 1e3..1e8, through arnoldi_eigs
    graded = [L.gen_graded(ctx.rng) for _ in range(ctx.budget(40, 200))]
    if spoil:
        graded = []
    for c in graded:
        o = L.run_impl(c)
        bad = L.oracle_graded(c, o)
        if bad:
            mism.append(dict(oracle_fail=True, case=c, got={k: o.get(k) for k in ("ok", "err", "shapes", "eigs", "H")}, failed_clauses=bad))
    # larger ill-conditioned Krylov sequences (n 40..100, non-normal, spectrum decaying over 8..12 orders, 30..60 steps): oracle only
    ill = [L.gen_illcond(ctx.rng) for _ in range(ctx.budget(5, 30))]
    # annotated Hermitian operators (declared / inferred SelfAdjoint, PSD) of size 40..64, spectrum k^2, n steps: oracle only
    annotated = [L.gen_annotated(ctx.rng) for _ in range(ctx.budget(8, 40))]
    for c in gone_region + big + ill + annotated:
        o = L.run_impl(c)
        bad = L.oracle(c, o, present)
        if bad:
            mism.append(dict(oracle_fail=True, case=c if c["n"] <= 20 else {k: v for k, v in c.items() if k not in ("parts",)},
                             got={k: o.get(k) for k in ("ok", "err", "shapes")}, failed_clauses=bad))

    def nontrivial(c):
        return c["n"] >= 3 and c["max_iters"] >= 2
    distinct = len({core.digest([c["parts"], c["v"], c["max_iters"], c["tol"]]) for c in cases if nontrivial(c)})
    kh, sh, mh = {}, {}, {}
    for c in cases:
        kname = c["kind"] + ("/" + c["normal"] if "normal" in c else "") + ("/blocktri" if "blocktri" in c else "")
        kh[kname] = kh.get(kname, 0) + 1
        sh[c["start"]] = sh.get(c["start"], 0) + 1
        rel = "m<n" if c["max_iters"] < c["n"] else ("m=n" if c["max_iters"] == c["n"] else "m>n")
        mh[rel] = mh.get(rel, 0) + 1
    return dict(
        evaluations=len(cases) + len(gone_region) + len(big) + len(mixed) + len(exact) + len(weak) + len(ill) + len(graded) + len(annotated), distinct_nontrivial=distinct,
        rule="square operators n<=%d (dense/Sum/Product/ScalarMul/Kronecker/Diagonal/matmat-defined; real and complex; generic, symmetric, unitary, skew, "
             "block-triangular non-normal with an invariant subspace), starts random/in an invariant subspace (breakdown)/scaled, 1-D and batched, max_iters 1..n+3 "
             "(m<n, m=n, m>n), ten tolerances; non-trivial = n>=3 and max_iters>=2; distinct by hash of (operator data, start, max_iters, tol)" % nmax,
        samples=[dict(kind=c["kind"], n=c["n"], cplx=c["cplx"], start=c["start"], batch=c["batch"], max_iters=c["max_iters"], tol=c["tol"], entry=c["entry"],
                      v=c["v"], parts=c["parts"]) for c in cases[:2]],
        mismatches=mism, findings=fnd,
        extra=dict(compared_in_coq=len(idx), model_variant=("arnoldi_batch_capped" if capped else "arnoldi_batch") + f" rfix={rfix} cfix={cfix} afix={afix}", max_model_impl_difference=maxdiff, tolerance=1e-9, near_tie=hist.get(1, 0),
                   noise_amplified_skipped=hist.get(2, 0), agree=hist.get(0, 0),
                   kind_histogram=kh, start_histogram=sh, max_iters_vs_n=mh,
                   breakdown_cases=sum(1 for c in cases if min(c["grades"]) < min(c["max_iters"], c["n"])),
                   complex_cases=sum(1 for c in cases if c["cplx"]), batched_cases=sum(1 for c in cases if c["batch"]),
                   eigs_cases=sum(1 for c in cases if c["entry"] == "arnoldi_eigs"),
                   avoided_regions=avoided, weak_coupling_eigs_cases=len(weak), graded_eigs_cases=len(graded), no_start_vector_cases=len(nostart), illconditioned_large_cases=len(ill), annotated_large_cases=len(annotated), exact_stream_cases=len(exact), exact_stream_tol0=sum(1 for c in exact if c['tol'] == 0.0), mixed_batches_used=len(mixed), batch_elements_vs_single_start=elem_compared, defect_free_region_cases=len(gone_region), large_oracle_only=len(big),
                   impl_exceptions=sum(1 for o in obs if not o.get("ok"))))


def replay(ctx, payload):
    """./check C15 --replay file : re-run one recorded witness (a defect flag's probe or a failing case)"""
    known, _ = core.parse_known()
    known_flags = {k["flag"] for k in known if k["property"] == "C15"}
    if payload.get("flag"):
        f = [x for x in findings() if x["flag"] == payload["flag"]]
        if f and f[0]["present"]:
            print(("KNOWN-FINDING: " if f[0]["flag"] in known_flags else "VIOLATION ") + f"property=C15 flag={f[0]['flag']} {f[0]['got']}")
            return 0 if f[0]["flag"] in known_flags else 1
        print(f"property=C15 flag={payload['flag']} no longer present")
        return 0
    cases = [payload["case"]] if "case" in payload else [c["case"] for c in payload.get("cases", []) if "case" in c]
    present = frozenset(f["flag"] for f in findings() if f["present"])
    rc = 0
    for c in cases:
        o = L.run_impl(c)
        bad = L.oracle(c, o, present)
        cd = None
        if o.get("ok") and c["n"] <= 40:
            codes, err, _ = eval_cases("c15_replay", [L.coq_case(c, o, "arnoldi_padding" not in present, "arnoldi_reltol_first_step" not in present, "arnoldi_clip_garbage" not in present, "arnoldi_absolute_clip" not in present)])
            cd = err or (codes or {}).get(0, 0)
        print(f"replay C15: oracle failed clauses={bad} model comparison code={cd}")
        if bad or (isinstance(cd, int) and cd >= 3) or isinstance(cd, str):
            rc = 1
    return rc
