"""C08 - exact diag / trace return the true (off-)diagonal and trace (DESIGN.md section 5, C08)."""
import numpy as np
import shim  # noqa: F401
import opcases as O
import trees as T
import core
import c08_lib as L

TRUSTED_BASE = [
    "Coq 8.16.1 kernel + vm_compute (no native_compute); theorems closed under the global context (no axioms)",
    "hand-written models coq/C08_Diag.v (exact_diag / get_I_chunk_like at the level of numpy array primitives), coq/C08_Rules.v (Auto choice, structural diag rules, trace) and coq/Op.v (operator products) - tied to /repo by this correspondence check",
    "numpy semantics modelled, not verified: slice clipping, slice assignment, broadcasting of `*` and `+`, np.diag, reshape of the outer product; plum's choice of the structural rule over the base cases (by kind) is modelled as a match on the operator kind",
    "harness: trees.py (JSON tree -> cola objects / Coq terms / independent numpy dense oracle), c08_lib.py (square-tree generator, observation, printing), shim.py",
]
ASSUMPTIONS = [
    "exact tier: payloads are small Gaussian integers, every diagonal entry is an exactly representable integer",
    "Auto's tolerance test tol < 1/sqrt(10*m*n) is modelled in exact rational arithmetic (10*m*n*tol^2 < 1); sizes are far from the boundary m*n = 10^11",
    "an AssertionError (structural rule that asserts k == 0, trace of a non-square operand) is a refusal, which the statement allows; a ValueError from the generic exact algorithm is a failure",
    "for operators above 12x12 the Coq side evaluates either the full model on compact trees (structured kinds, cheap products) or the index-level exact_diag on the dense matrix computed by the independent oracle; all offsets are compared for the outcome class, a sample of offsets for the values (all offsets are compared with the numpy oracle in Python)",
]


# ---------------------------------------------------------------------------------------------- probes
def findings():
    import cola
    from cola import ops
    from cola.linalg import diag, Exact
    out = []

    def probe(flag, what, fn, witness):
        try:
            present, got = fn()
        except Exception as e:
            present, got = True, f"raised {type(e).__name__}: {e}"
        out.append(dict(flag=flag, present=bool(present), what=what, witness=witness, got=str(got)[:300]))

    def ragged():
        bad = []
        for n, k in ((101, 1), (150, -1), (199, -2), (230, 69)):
            M = np.arange(n * n, dtype=np.float64).reshape(n, n) % 7
            A = ops.Product(ops.Dense(M), ops.Identity((n, n), np.float64))
            try:
                d = np.asarray(diag(A, k, Exact()))
                if not np.array_equal(d, np.diag(M, k)):
                    bad.append(f"(n={n},k={k}) wrong values")
            except Exception as e:
                bad.append(f"(n={n},k={k}) {type(e).__name__}")
        return bool(bad), "; ".join(bad)
    probe("exact_diag_ragged_chunk", "exact_diag raises ValueError (operands could not be broadcast) for k != 0 when n > 100 and the last "
          "block is ragged: k < 0 and n mod 100 >= 2, or 0 < k < 100 - n mod 100", ragged,
          "diag(Product(Dense(101x101), Identity), 1, Exact())")

    def kron_nonsq():
        W, V = np.arange(6.).reshape(2, 3) + 1, np.arange(6.).reshape(3, 2) + 1
        try:
            d = np.asarray(diag(ops.Kronecker(ops.Dense(W), ops.Dense(V)), 0))
        except AssertionError as e:
            return False, f"refuses: AssertionError {e}"       # a refusal is what the statement allows
        want = np.diag(np.kron(W, V))
        return not (d.shape == want.shape and np.array_equal(d, want)), f"shape {d.shape}, expected {want.shape}"
    probe("kron_diag_nonsquare_factors", "diag(Kronecker) takes the outer product of the factors' diagonals, which is not the diagonal "
          "when the factors are not square: a 6x6 product of a 2x3 and a 3x2 factor gives 4 entries", kron_nonsq,
          "diag(Kronecker(Dense(2x3), Dense(3x2)))")

    def bd_nonsq():
        W, V = np.arange(6.).reshape(2, 3) + 1, np.arange(6.).reshape(3, 2) + 1
        B = ops.BlockDiag(ops.Dense(W), ops.Dense(V), multiplicities=[1, 1])
        try:
            d = np.asarray(diag(B, 0))
        except AssertionError as e:
            return False, f"refuses: AssertionError {e}"
        want = np.diag(np.asarray(B.to_dense()))
        return not (d.shape == want.shape and np.array_equal(d, want)), f"{d.tolist()}, expected {want.tolist()}"
    probe("blockdiag_diag_nonsquare_blocks", "diag(BlockDiag) concatenates the blocks' own diagonals, which is not the diagonal when the "
          "blocks are not square: blocks 2x3 and 3x2 (5x5 overall) give 4 entries", bd_nonsq,
          "diag(BlockDiag(Dense(2x3), Dense(3x2), multiplicities=[1,1]))")

    def bs_ignored():
        widths = []

        class Rec(cola.ops.LinearOperator):
            def __init__(self, M):
                self.M = M
                super().__init__(dtype=M.dtype, shape=M.shape)

            def _matmat(self, X):
                widths.append(int(X.shape[-1]))
                return self.M @ X
        M = np.arange(25.).reshape(5, 5)
        d = np.asarray(diag(Rec(M), 0, Exact(bs=2)))
        return (widths == [5]) and np.array_equal(d, np.diag(M)), f"block widths used with Exact(bs=2) on a 5x5 operator: {widths}"
    probe("exact_bs_ignored", "informational: the bs argument of Exact is overwritten by min(100, n) (all columns of a 5x5 operator are "
          "sent in one block although bs=2 was requested)", bs_ignored, "diag(A5x5, 0, Exact(bs=2))")
    for f in out:   # not a violation of the property (values are right): reported as an observation, never as a finding
        if f["flag"] == "exact_bs_ignored":
            f["got"] = f"observed={f['present']}; " + str(f["got"])
            f["present"] = False
    return out


# ---------------------------------------------------------------------------------------------- generation
def offsets_small(n):
    return list(range(-n - 1, n + 2))


def offsets_sample(rnd, n, extra=6):
    r = n % L.BS
    ks = {0, 1, -1, 2, -2, 3, -3, n - 1, 1 - n, n - 2, 2 - n, n, -n, 99, -99, 100, -100, 101, -101, 50, -50,
          L.BS - r - 1, L.BS - r, L.BS - r + 1}
    ks |= {rnd.randint(-n + 1, n - 1) for _ in range(extra)}
    return sorted(k for k in ks if abs(k) <= n)


def spoiled(t, n, k, o, present, what):
    """flag that explains a failure of the property on this query (or None)"""
    parts = L.nonsq_parts(t)
    for f in ("kron_diag_nonsquare_factors", "blockdiag_diag_nonsquare_blocks"):
        if f in present and f in parts:
            return f
    if "exact_diag_ragged_chunk" in present and what == "diag" and o.get("err") == "DValue":
        if any(L.ragged(L.BS, s, k) for s in L.generic_sizes(t)):
            return "exact_diag_ragged_chunk"
    return None


def run(ctx):
    rnd = ctx.rng
    fnd = findings()
    present = {f["flag"] for f in fnd if f["present"]}
    df = dict(ragged_fixed="exact_diag_ragged_chunk" not in present, kron_refuse="kron_diag_nonsquare_factors" not in present,
              bd_refuse="blockdiag_diag_nonsquare_blocks" not in present)

    def rag(n, k):   # offsets on which the implementation is expected to raise (they are cheap for the Coq side)
        return (not df["ragged_fixed"]) and L.ragged(L.BS, n, k)
    nonsq_p = 0.06 if ({"kron_diag_nonsquare_factors", "blockdiag_diag_nonsquare_blocks"} & present) else 0.25
    mism, attributed = [], {}
    tcases, gcases = [], []
    EX, AU, AX = ("exact",), ("auto",), ("autoexp",)
    # ---- T1: sizes 1..6, every offset in [-n-1, n+1], Exact and the default Auto, trace with both
    for n in range(1, 7):
        for _ in range(ctx.budget(14, 140)):
            dt = rnd.choice(T.DTS)
            g = L.SqGen(rnd, dt, nonsq=nonsq_p)
            t = g.tree(n, rnd.randint(0, ctx.budget(3, 4)))
            if T.absbound(t) * 5 * n > 2 ** 20:
                continue
            dqs = [(k, a) for k in offsets_small(n) for a in (EX, AU)]
            if rnd.random() < 0.2:
                dqs += [(k, ("tol", 1, 2)) for k in (0, 1)]          # Auto(tol=0.5): Hutchinson for the generic parts
            lo, hi = L.straddle(n)      # explicit tolerances just below / not below Auto's switch for this size
            dqs += [(0, lo), (rnd.choice([1, -1]), lo), (0, hi), (0, AX)]
            tcases.append(dict(tree=t, n=n, dqs=dqs, tqs=[EX, AU, AX, lo, hi], allk=[], cls="small"))
    # ---- T1b: ANNOTATED operators reaching the generic rule: Hermitian by construction (mostly complex: complex off-diagonals),
    #      SelfAdjoint / PSD declared on the root or inferred by cola (W^H W), Unitary declared on permutation products;
    #      every offset, Exact / Auto / trace.  The model ignores annotations: they must not change any value.
    for n in range(1, 7):
        for _ in range(ctx.budget(4, 40)):
            dt = rnd.choice(T.CPLX + T.CPLX + T.REAL)
            g = L.SqGen(rnd, dt)
            if rnd.random() < 0.12:
                p1, p2 = list(range(n)), list(range(n))
                rnd.shuffle(p1)
                rnd.shuffle(p2)
                t, ann = dict(k="Prod", ms=[dict(k="Perm", dt=dt, p=p1), dict(k="Perm", dt=dt, p=p2)]), "Unitary"
            else:
                t, ann = L.herm_generic(g, n)
            if T.absbound(t) * 5 * n > 2 ** 20:
                continue
            dqs = [(k, a) for k in offsets_small(n) for a in (EX, AU)]
            tcases.append(dict(tree=t, n=n, dqs=dqs, tqs=[EX, AU], allk=[], cls="small", ann=ann))
    for n in (rnd.choice([101, 150, 199, 230]),) if ctx.tier != "thorough" else (99, 101, 150, 199, 200, 230):
        dt = rnd.choice(T.CPLX)
        g = L.SqGen(rnd, dt, vmax=2)
        off = [g.val() for _ in range(n - 1)]
        t = dict(k="Tridiag", dt=dt, al=[[x[0], -x[1]] for x in off], be=[[g.val()[0], 0] for _ in range(n)], ga=off)
        ks = [k for k in offsets_sample(rnd, n, 2) if abs(k) <= 3 or rnd.random() < 0.25][:12]
        tcases.append(dict(tree=t, n=n, dqs=[(k, EX) for k in ks] + [(1, AU), (-1, AU)], tqs=[EX], allk=list(range(-n + 1, n)),
                           cls="big_generic", ann="SelfAdjoint"))
    # ---- T2: large compact trees, full model: structural kinds / cheap generic products
    for n in L.BIG:
        for j in range(ctx.budget(2, 10)):
            dt = rnd.choice(T.DTS)
            g = L.SqGen(rnd, dt, vmax=2)
            t = g.big_struct(n) if j % 2 == 0 else g.big_cheap_generic(n)
            ks = offsets_sample(rnd, n, 4)
            if j % 2 == 1:   # the Coq cost is in the offsets that do not raise
                good = [k for k in ks if not rag(n, k)]
                ks = [k for k in ks if rag(n, k)][:8] + rnd.sample(good, min(len(good), ctx.budget(5, 10)))
            tcases.append(dict(tree=t, n=n, dqs=[(k, EX) for k in ks] + [(0, AU)], tqs=[EX] if j % 2 == 0 else [],
                               allk=list(range(-n + 1, n)), cls="big_struct" if j % 2 == 0 else "big_generic"))
    # ---- T3: large generic operators with dense payloads: index-level exact_diag on the oracle's dense matrix
    for n in L.BIG:
        for j in range(ctx.budget(1, 3)):
            dt = rnd.choice(T.DTS)
            g = L.SqGen(rnd, dt, vmax=2)
            t = g.big_dense_generic(n)
            ks = offsets_sample(rnd, n, 2)
            good = [k for k in ks if not rag(n, k)]
            vq = [k for k in ks if rag(n, k)][:6] + rnd.sample(good, min(len(good), ctx.budget(5, 9)))
            # dense payloads are the slow ones on the implementation side: every offset only in the thorough tier
            allk = list(range(-n + 1, n)) if ctx.tier == "thorough" else sorted(set(offsets_sample(rnd, n, 30)) - {n, -n})
            gcases.append(dict(tree=t, n=n, vq=vq, allk=allk))
    # ---- T4: Auto's exact-vs-stochastic decision on generic operators of size 900..1100 in every dtype (the default tolerance
    #      must select the exact algorithm: m*n < 10^11), offsets and trace, default omitted / written out / straddling tolerances
    acases = []
    asizes = [900, 916, 917, 1000, 1100]
    for j, n in enumerate(asizes if ctx.tier != "thorough" else asizes * 3):
        # single-precision operators on both sides of every size; the sizes >= 917 always see float32 and complex64
        dt = ["float32", "complex64", "float32", "complex64", rnd.choice(T.DTS)][(j + ctx.seed) % 5] if j < 5 else rnd.choice(T.DTS)
        if j < 5 and rnd.random() < 0.3 and n < 917:
            dt = rnd.choice(["float64", "complex128"])
        g = L.SqGen(rnd, dt, vmax=2)
        for _ in range(50):
            t = g.big_cheap_generic(n) if rnd.random() < 0.7 else g.big_dense_generic(n)
            if t["k"] not in L.STRUCT and t["k"] not in ("Sliced", "Transp", "Adj"):
                break
        lo, hi = L.straddle(n)
        ks = [0, 1, -1, n - 1, -(n - 1), rnd.randint(2, n - 2), -rnd.randint(2, n - 2)]
        qs = [(k, a) for k in ks for a in (AU, AX)] + [(0, EX), (rnd.choice(ks), EX), (0, lo), (1, lo), (0, hi), (-1, hi)]
        acases.append(dict(tree=t, n=n, dt=dt, qs=qs, tqs=[AU, AX, EX, lo, hi]))
    # ---- implementation + oracle
    import cola
    nq_oracle = 0

    def judge(t, n, D, k, o, what):
        """(fails, why) by the independent oracle"""
        if o["cls"] == "other":
            return True, "unexpected: " + o.get("err", "")
        if o["cls"] == "err":
            if o["err"] == "DAssert":
                return False, ""                        # refusal
            if o["err"] == "DStoch":
                return False, ""                        # the caller asked for a loose tolerance
            if what == "diag" and abs(k) > n:
                return False, ""                        # offset outside the statement's range -len < k < len
            return True, "raised ValueError"
        if what == "trace":
            ok = o["cls"] == "val" and complex(*o["val"]) == complex(np.trace(D))
            return (not ok), "trace differs"
        want = np.diag(D, k)
        ok = o["cls"] == "vec" and len(o["val"]) == len(want) and all(complex(*a) == complex(b) for a, b in zip(o["val"], want))
        return (not ok), "diagonal differs (length %d vs %d)" % (len(o.get("val", [])), len(want))
    for c in tcases + gcases:
        t, n = c["tree"], c["n"]
        D = T.dense(t)
        dqs = c.get("dqs") or [(k, EX) for k in c["vq"]]
        tqs = c.get("tqs", [])
        c["dobs"], c["tobs"] = L.run_tree(t, dqs, tqs, c.get("ann"))
        # every offset: implementation against the oracle (and the outcome class for the dense cases)
        allobs = L.run_tree(t, [(k, EX) for k in c["allk"]], [], c.get("ann"))[0] if c["allk"] else []
        c["allobs"] = allobs
        for what, qs, obs in (("diag", dqs, c["dobs"]), ("trace", [(0, a) for a in tqs], c["tobs"]), ("diag", [(k, EX) for k in c["allk"]], allobs)):
            for (k, a), o in zip(qs, obs):
                nq_oracle += 1
                fails, why = judge(t, n, D, k, o, what)
                if a[0] == "tol" and o["cls"] in ("vec", "val"):
                    fails = False                       # exact despite the loose tolerance: fine
                if a[0] != "tol" and o.get("err") == "DStoch":
                    fails, why = True, "a stochastic estimate although the exact algorithm / the default tolerance was asked for"
                if fails:
                    fl = spoiled(t, n, k, o, present, what)
                    if fl:
                        attributed[fl] = attributed.get(fl, 0) + 1
                    else:
                        mism.append(dict(oracle_fail=True, case=dict(tree=t, declared=c.get("ann"), k=k, alg=a, what=what), got=o, oracle_says=why))
    # T4: outcome classes (the exact value is compared here with the oracle's diagonal: by C08_generic_diag_cases that is the model's value)
    aterms = []
    for c in acases:
        t, n = c["tree"], c["n"]
        D = T.dense(t)
        dobs, tobs = L.run_tree(t, c["qs"], c["tqs"])
        c["dobs"], c["tobs"], c["allobs"] = dobs, tobs, []
        cls = []
        for (k, a), o in zip(c["qs"], dobs):
            nq_oracle += 1
            cl = L.outcome_class(o, np.diag(D, k))
            cls.append((k, a, cl))
            bad = cl != 0 if a[0] != "tol" else cl == 9
            if bad:
                fl = "exact_diag_ragged_chunk" if (cl == 1 and "exact_diag_ragged_chunk" in present and L.ragged(L.BS, n, k)) else None
                if fl:
                    attributed[fl] = attributed.get(fl, 0) + 1
                else:
                    mism.append(dict(oracle_fail=True, case=dict(tree=dict(k=t["k"], n=n, dt=c["dt"], parts=[x["k"] for x in L.subs(t)]), k=k, alg=a, what="diag"),
                                     got=dict(cls=o["cls"], err=o.get("err"), head=str(o.get("val"))[:80]), oracle_says="outcome class %d (0 = the exact diagonal)" % cl))
        for a, o in zip(c["tqs"], tobs):
            nq_oracle += 1
            cl = L.outcome_class(o, np.trace(D))
            if (cl != 0 if a[0] != "tol" else cl == 9):
                mism.append(dict(oracle_fail=True, case=dict(tree=dict(k=t["k"], n=n, dt=c["dt"]), alg=a, what="trace"),
                                 got=dict(cls=o["cls"], err=o.get("err"), val=o.get("val")), oracle_says="outcome class %d (0 = the exact trace)" % cl))
            cls.append((0, a, cl))          # trace(A, alg) = diag(A, 0, alg).sum(): same decision
        c["cls"] = cls
        aterms.append(L.coq_acase(n, df["ragged_fixed"], cls))
    # ---- model vs implementation inside Coq
    tterms = [L.coq_tcase(c["tree"], c["n"], c["dqs"], c["dobs"], c["tqs"], c["tobs"], df) for c in tcases]
    order = sorted(range(len(tcases)), key=lambda i: (tcases[i]["cls"] != "small", i))
    small_idx = [i for i in order if tcases[i]["cls"] == "small"]
    big_idx = [i for i in order if tcases[i]["cls"] != "small"]
    nq_coq = 0
    for name, idx, shard in (("c08_small", small_idx, 12), ("c08_big", big_idx, 1)):
        bad, nq, err = L.eval_coq(name, [tterms[i] for i in idx], "tcase", "tmism", "tcount", shard)
        nq_coq += nq
        if err:
            mism.append(dict(oracle_fail=False, harness_error=err))
            continue
        for ci, lst in bad.items():
            c = tcases[idx[ci]]
            for kind, qi in lst[:6]:
                q = c["dqs"][qi] if kind == 1 else (c["tqs"][qi] if kind == 2 else None)
                o = c["dobs"][qi] if kind == 1 else (c["tobs"][qi] if kind == 2 else None)
                mism.append(dict(oracle_fail=False, case=dict(tree=c["tree"], query=q, kind={0: "shape", 1: "diag", 2: "trace"}[kind]),
                                 got=o, model_disagrees=True))
    gterms = []
    for c in gcases:
        cls = [(k, o["cls"] == "err") for k, o in zip(c["allk"], c["allobs"])]
        gterms.append(L.coq_gcase(c["n"], T.dense(c["tree"]), c["vq"], c["dobs"], cls, df))
    bad, nq, err = L.eval_coq("c08_dense", gterms, "gcase", "gmism", "gcount", 1)
    nq_coq += nq
    if err:
        mism.append(dict(oracle_fail=False, harness_error=err))
    else:
        for ci, lst in bad.items():
            c = gcases[ci]
            for kind, qi in lst[:6]:
                k = c["vq"][qi] if kind == 3 else c["allk"][qi]
                mism.append(dict(oracle_fail=False, case=dict(tree=c["tree"] if c["n"] < 20 else dict(k=c["tree"]["k"], n=c["n"]), k=k,
                                                              kind="values" if kind == 3 else "raises?"),
                                 got=(c["dobs"][qi] if kind == 3 else c["allobs"][qi]), model_disagrees=True))
    bad, nq, err = L.eval_coq("c08_auto", aterms, "acase", "amism", "acount", 8)
    nq_coq += nq
    if err:
        mism.append(dict(oracle_fail=False, harness_error=err))
    else:
        for ci, lst in bad.items():
            c = acases[ci]
            for kind, qi in lst[:6]:
                k, a, cl = c["cls"][qi]
                mism.append(dict(oracle_fail=False, case=dict(n=c["n"], dt=c["dt"], kind=c["tree"]["k"], k=k, alg=a), got=dict(outcome_class=cl),
                                 model_disagrees=True, note="Auto's exact-vs-stochastic decision / raise class differs from generic_outcome"))
    allc = tcases + gcases + acases
    hist = {}
    for c in allc:
        for k in set(T.kinds_of(c["tree"])):
            hist[k] = hist.get(k, 0) + 1
    outcome = {}
    for c in allc:
        for o in c["dobs"] + c["tobs"] + c["allobs"]:
            key = o["cls"] + (":" + o["err"] if o["cls"] == "err" else "")
            outcome[key] = outcome.get(key, 0) + 1
    distinct = len({(core.digest(c["tree"]), k) for c in allc for (k, _a) in (c.get("dqs") or c.get("qs") or [(k, 0) for k in c["vq"]])
                    if T.depth(c["tree"]) >= 2 or c["n"] > 6})
    return dict(
        evaluations=nq_oracle, distinct_nontrivial=distinct,
        rule="square operator trees over Dense, Identity, Diagonal, ScalarMul, Sum, BlockDiag (multiplicities), Kronecker/KronSum (2-3 factors), "
             "products and other generic operators, nested; sizes 1..6 with every offset in [-n-1, n+1] and Exact/Auto/trace, sizes "
             "{99,100,101,150,199,200,201,230} with every offset against the oracle and a sample (incl. +-1, +-(n-1), block boundaries) in Coq; "
             "distinct = distinct (tree, offset) with tree depth >= 2 or n > 6",
        samples=[dict(tree=c["tree"], offsets=[q[0] for q in c["dqs"]][:8]) for c in tcases[:2]],
        mismatches=mism, findings=fnd,
        extra=dict(annotated_cases=sum(1 for c in tcases if c.get("ann")), inferred_psd_cases=sum(1 for c in tcases if "ann" in c and c["ann"] is None),
                   tree_cases=len(tcases), dense_cases=len(gcases), auto_switch_cases=[(c["n"], c["dt"], c["tree"]["k"]) for c in acases], queries_compared_in_coq=nq_coq, kind_histogram=hist,
                   sizes=sorted({c["n"] for c in allc}), outcome_classes=outcome, attributed_to_present_flags=attributed, model_flags=df,
                   complex_cases=sum(1 for c in allc if any(d in T.CPLX for d in O.leaf_dts(c["tree"])))))
