"""C07 - slogdet / logdet equal the determinant's phase and log-magnitude (DESIGN.md section 5, C07)."""
import math, re
import numpy as np
import c07_lib as C
import trees as T
import core

TRUSTED_BASE = [
    "Coq 8.16.1 kernel + vm_compute; mathcomp 1.x (C07_MxBridge.v: mathcomp's \\det satisfies the DetLaws interface); theorems closed under the global context",
    "hand-written model coq/C07_Slogdet.v (per-rule slogdet on decorated trees; flags = recorded defects) - tied to /repo by this correspondence check on every run",
    "harness: c07_lib.py (recipe -> cola object, cola object -> decorated model tree by class/attribute inspection, Coq printing of floats as exact rationals), trees.py, shim.py",
    "LAPACK through scipy.linalg.lu / numpy.linalg.cholesky and cola's trace(log(A, Lanczos|Arnoldi)) are ORACLES: their answers decorate the model tree; their specifications (P L U = A, L L^H = A, exp(trace log A) = det A) are hypotheses of the theorems and are checked numerically on every decoration used",
    "numpy exp/log (the comparison is made on exp(logabs), exact rational arithmetic inside Coq), numpy.linalg.slogdet as the independent oracle",
]
ASSUMPTIONS = [
    "operators are non-singular with condition number < 200 per dense node (generator), sizes <= 12",
    "logabs is compared with the logarithm of the exact magnitude computed by the model: absolute tolerance 1e-9*max(1,|logabs|) for float64/complex128 trees, 2e-4 for trees containing float32/complex64 leaves; the sign of real operators is compared exactly",
    "Lanczos/Arnoldi path: max_iters >= size of every base node and the trace algorithm is deterministic (Exact(), or Auto() which selects the exact trace for these sizes); tolerance 1e-6",
    "graded-spectrum Krylov stream (cond 1e3..1e10, tol in {default 1e-6, 1e-4, 1e-8, 1e-10}): trace(log(A, alg)) is compared (1e-9 float64 / 2e-4 float32) with the Coq model of "
    "LanczosUnary/ArnoldiUnary._matmat (coq/C07_Unary.v: Ritz values dropped only below 10*eps*max|ritz|) on the oracle data of the same run (cola's lanczos/arnoldi factorisation, "
    "LAPACK eigh/eig/solve, numpy log); the end-to-end comparison with log det is made only where the factorisation is expected to have converged (Lanczos: cond*tol <= 1e-3, "
    "tolerance 1e-6 + 1e3*eps*cond*n; Arnoldi: cond*tol <= 1e-10), because both algorithms legitimately stop once the remaining spectrum is below tol*|lambda|_max",
    "lazy Transpose / Adjoint wrappers (constructor and .T / .H) around base nodes and around structured operators in every stream; for the Krylov rule the model follows "
    "apply_unary's Transpose / Adjoint rules: the oracle data are those of the innermost operator and the trace of an Adjoint is conjugated",
    "wide regime of the structural stream (payload scales 1e-8..1e8, dense nodes with cond 1e3..1e8, PSD nodes at tiny overall scale: eigenvalues near or below the dtype's unit roundoff, float32 1e-4..1e-10, float64 1e-9..1e-18): oracle tolerances are widened by 100*eps*cond*N (the determinant of an ill-conditioned node is only "
    "defined to eps*cond); the model-vs-implementation comparison keeps its tolerance",
    "whether a node is annotated PSD is read from the implementation (A.isa(PSD)); a node annotated PSD whose matrix is not Hermitian positive definite is outside the quantifier (that is property C05)",
]

HEADER = ("From Coq Require Import ZArith QArith Qcanon List Bool Arith.\n"
          "From Core Require Import Base Kron Op FieldBase C07_DetLaws C07_Slogdet C07_Exec.\nImport ListNotations.\n")


def _algs():
    from cola.linalg import Auto, Cholesky, LU, Lanczos, Arnoldi
    from cola.linalg.trace.diagonal_estimation import Exact
    return Auto, Cholesky, LU, Lanczos, Arnoldi, Exact


def findings():
    import cola
    from cola import ops
    from cola.linalg import slogdet
    Auto, Cholesky, LU, Lanczos, Arnoldi, Exact = _algs()
    out = []

    def probe(flag, what, fn, witness, expected):
        try:
            present, got = fn()
        except Exception as e:
            present, got = True, f"raised {type(e).__name__}: {e}"
        out.append(dict(flag=flag, present=bool(present), what=what, witness=witness, got=str(got), expected=expected))

    def scal():
        s, l = slogdet(ops.ScalarMul(2., (3, 3), np.float64))
        return not (float(s) == 1.0 and abs(float(l) - 3 * math.log(2)) < 1e-12), (float(s), float(l))
    probe("scalar_slogdet_ignores_n", "slogdet(ScalarMul(c, n x n)) returns (c/|c|, log|c|) for every n: det(2*I_3) = 8 is reported as 2", scal,
          "slogdet(ScalarMul(2.,(3,3)))", "(1, 3 log 2 = 2.0794)")

    def perm():
        s, l = slogdet(ops.Permutation(np.array([1, 0, 2]), np.float64))
        return not (float(s) == -1.0 and float(l) == 0.0), (float(s), float(l))
    probe("perm_slogdet_ignores_parity", "slogdet(Permutation) always returns sign +1: odd permutations, and through P@L@U every dense operator whose LU pivoting is an odd permutation, get the wrong sign", perm,
          "slogdet(Permutation([1,0,2]))", "(-1, 0)")

    def kry():
        s, l = slogdet(cola.PSD(ops.Dense(np.diag([.5, .25]))), Lanczos(max_iters=2), Exact())
        return not (abs(complex(s) - 1) < 1e-9 and abs(float(np.real(l)) - math.log(.125)) < 1e-9), (complex(s), float(np.real(l)))
    probe("krylov_slogdet_abs_of_trace", "the Lanczos/Arnoldi rule returns (t/|t|, |t|) for t = trace(log A): wrong whenever |det A| < 1 or log det is not real", kry,
          "slogdet(PSD(Dense(diag(.5,.25))), Lanczos(max_iters=2), Exact())", "(1, log(1/8) = -2.0794)")

    def lanczos_nan():
        s, l = slogdet(cola.PSD(ops.Dense(np.array([[2., 0, 0], [0, 2, 1], [0, 1, 2]]))), Lanczos(max_iters=3), Exact())
        return not (abs(complex(s) - 1) < 1e-9 and abs(float(np.real(l)) - math.log(6)) < 1e-9), (complex(s), complex(l))
    probe("lanczos_exact_trace_uneven_breakdown_nan", "slogdet(A, Lanczos, Exact) is NaN when the unit vectors span Krylov spaces of different dimensions (e.g. a block-diagonal PSD Dense): "
          "the exact trace runs Lanczos on all columns of the identity in one batch and a column that has converged divides 0/0", lanczos_nan,
          "slogdet(PSD(Dense([[2,0,0],[0,2,1],[0,1,2]])), Lanczos(max_iters=3), Exact())", "(1, log 6 = 1.7918)")

    def branch_mix():
        import cola.linalg as cl
        M = np.array([[-0.5, 1 + 1j], [0.5 - 0.5j, -1.5]], dtype=np.complex64)   # eigenvalues 0.118, -2.118; det = -1/4
        t = complex(cl.trace(cl.log(ops.Dense(M), Arnoldi(max_iters=2)), Exact()))
        return not abs(np.exp(t) - (-0.25)) < 1e-3, t
    probe("arnoldi_log_branch_cut_mixed", "trace(log(A, Arnoldi), Exact) of a complex operator with a negative real eigenvalue is not log det A: every column of the identity runs its own "
          "Arnoldi factorisation, rounding puts the eigenvalue on either side of the branch cut of log, and the diagonal entries are summed with +i*pi and -i*pi mixed "
          "(slogdet then returns a phase that is not the determinant's)", branch_mix,
          "trace(log(Dense(complex64 [[-0.5,1+1j],[0.5-0.5j,-1.5]]), Arnoldi(max_iters=2)), Exact())", "log(1/4) +- i*pi")

    def scal_ann():
        A = ops.Adjoint(ops.BlockDiag((3 + 0.25j) * ops.Identity((1, 1), np.complex128), multiplicities=[1]))
        s_, l_ = slogdet(A)
        want = (3 - 0.25j) / abs(3 - 0.25j)
        return not abs(complex(s_) - want) < 1e-9, complex(s_)
    probe("scalar_keeps_annotations", "a complex (or negative) scalar times a PSD / self-adjoint operator keeps the annotation (recorded under C05/C06): behind a lazy Adjoint / Transpose "
          "wrapper the self-adjoint shortcut of the backward product is taken and the wrapper represents the un-conjugated matrix, so slogdet returns the phase of det(B) instead of conj", scal_ann,
          "slogdet(Adjoint(BlockDiag((3+0.25j)*Identity(1x1))))", "phase (3-0.25j)/|3-0.25j|")

    def kronpow():
        s, l = slogdet(ops.Kronecker(ops.Diagonal(np.array([-1.])), ops.Identity((3, 3), np.float64)))
        s2, l2 = slogdet(ops.Kronecker(ops.Diagonal(np.array([1j, 1.])), ops.Diagonal(np.array([2., 1j, 1.]))))
        ok = float(s) == -1.0 and abs(complex(s2) - 1j) < 1e-12
        return not ok, (float(s), complex(s2))
    probe("kronecker_sign_float_power", "Kronecker rule raises signs to the float power prod/size: loses the sign", kronpow,
          "slogdet(Kronecker(Diagonal([-1.]), Identity(3))), slogdet(Kronecker(Diagonal([1j,1]), Diagonal([2,1j,1])))", "(-1, ...), (1j, ...)")
    return out


def outside_quantifier():
    """Kronecker with non-square factors is singular whenever it is square (rank <= prod min(m_i,n_i) < N): outside the
    property's quantifier (non-singular trees). Recorded as coverage information, not as a finding."""
    from cola import ops
    from cola.linalg import slogdet
    try:
        slogdet(ops.Kronecker(ops.Dense(np.ones((2, 3))), ops.Dense(np.ones((3, 2)))))
        return "returned"
    except RecursionError:
        return "RecursionError"
    except Exception as e:
        return type(e).__name__


ALG_NAMES = ["auto", "lu", "chol", "lanczos", "arnoldi"]


def mk_alg(name, trace_name, n, tol=None):
    Auto, Cholesky, LU, Lanczos, Arnoldi, Exact = _algs()
    kw = dict(max_iters=max(n, 1), **({} if tol is None else dict(tol=tol)))
    obj = dict(auto=Auto, lu=LU, chol=Cholesky)[name]() if name in ("auto", "lu", "chol") else \
        (Lanczos(**kw) if name == "lanczos" else Arnoldi(**kw))
    tr = Exact() if trace_name == "exact" else Auto()
    return dict(name=name, trace=trace_name, obj=obj, trace_obj=tr)


def need_fn(name):
    def need(psd, n):
        if name == "auto":
            return ("chol" if psd else "lu") if n * n <= 10 ** 6 else "kry"
        return dict(lu="lu", chol="chol", lanczos="kry", arnoldi="kry")[name]
    return need


def gen_graded(ctx, present=()):
    """Krylov stream on widely graded spectra: condition numbers 1e3..1e10 (float64; up to 3e3 in float32), determinants far below
    and above 1, default and explicit stopping tolerances, dense and lazy (Sum, G^H G + jitter I) operators, max_iters = size"""
    r = ctx.rng
    name = r.choice(["lanczos", "lanczos", "arnoldi"])
    cplx = r.random() < (0.6 if name == "arnoldi" else 0.35)   # Arnoldi: mostly complex operators (determinants with a non-real phase)
    f32 = r.random() < 0.15
    cond = 10.0 ** (r.uniform(1, 3.4) if f32 else r.uniform(3, 10))
    psd = True if name == "lanczos" else (r.random() < 0.5 or "krylov_slogdet_abs_of_trace" in present)
    g = C.RGen(r, krylov=dict(cond=cond, psd=psd, lazy=not f32, f32=f32))
    g.wrap_p = 0.35 if name == "arnoldi" else 0.17
    depth = r.choice([0, 0, 0, 1, 1, 2])
    t = g.tree(depth, r.randint(2, 6) if depth == 0 else None, cplx, maxn=4)
    return dict(recipe=t, alg=name, trace=r.choice(["exact", "exact", "auto"]), tol=r.choice([None, None, 1e-4, 1e-8, 1e-10]), graded=cond)


def gen_case(ctx, krylov, present=()):
    r = ctx.rng
    if krylov == "graded":
        return gen_graded(ctx, present)
    cplx = r.random() < 0.35
    kname = r.choice(["lanczos", "lanczos", "arnoldi"]) if krylov else None
    if kname == "arnoldi":
        cplx = r.random() < 0.6
    # Arnoldi accepts any square operator: general (indefinite, negative-determinant, complex) base nodes are generated as soon as
    # the Krylov rule no longer returns (t/|t|, |t|) (flag krylov_slogdet_abs_of_trace absent); Lanczos needs self-adjoint ones
    g = C.RGen(r, krylov=("general" if (kname == "arnoldi" and "krylov_slogdet_abs_of_trace" not in present) else krylov))
    g.wrap_p = 0.35 if kname == "arnoldi" else 0.17
    g.extreme = extreme = (not krylov) and r.random() < 0.08   # determinants outside the dtype's range, logabs perfectly representable
    g.wide = wide = extreme or ((not krylov) and r.random() < 0.3)   # Cholesky / LU / structural rules on badly scaled and ill-conditioned data
    t = g.tree(r.choice([0, 1, 1, 2, 2, 2, 3] if ctx.tier != "thorough" else [0, 1, 2, 2, 3, 3, 4]), None, cplx, maxn=4)
    if (not krylov) and r.random() < 0.12:
        # a lazy .H / Adjoint over a structured complex operator (Kronecker, BlockDiag, Product, Diagonal, Sum ...), at top level or as a factor
        gw = C.RGen(r)
        inner = gw.tree(r.choice([1, 1, 2]), None, True, maxn=4)
        w = dict(k="Wrap", w="H", via=r.choice(["ctor", "attr"]), a=inner, psd=False)
        t = w if r.random() < 0.5 else dict(k="Prod", via=r.choice(["ctor", "matmul"]), ms=[w, gw.tree(1, C.rsize(inner), True)][::r.choice([1, -1])])
        wide = extreme = False
    if krylov:
        name = kname
    else:
        name = r.choice(["auto", "auto", "auto", "lu", "lu", "chol"])
        if any("+tiny" in k for k in C.rkinds(t)):   # PSD nodes at tiny scale: mostly through the Cholesky base case (explicitly or chosen by Auto)
            name = r.choice(["auto", "auto", "chol", "chol", "lu"])
    trace = r.choice(["exact", "auto"])
    return dict(recipe=t, alg=name, trace=trace, tol=(r.choice([None, None, None, 1e-8, 1e-10]) if krylov else None), wide=wide, extreme=bool(extreme))


def false_selfadjoint_behind_wrapper(A, inside=False):
    """is there, behind a lazy Transpose / Adjoint, an operator annotated self-adjoint whose matrix is not Hermitian?"""
    from cola import ops
    from cola.annotations import SelfAdjoint
    wrapper = isinstance(A, (ops.Transpose, ops.Adjoint))
    if inside and A.isa(SelfAdjoint) and not wrapper:
        D = np.asarray(A.to_dense())
        if np.abs(D - D.conj().T).max() > 1e-6 * (1e-300 + np.abs(D).max()):
            return True
    kids = ([A.A] if wrapper else []) + list(getattr(A, "Ms", []) or [])
    return any(false_selfadjoint_behind_wrapper(k, inside or wrapper) for k in kids if isinstance(k, ops.LinearOperator))


def false_selfadjoint_under_wrap(t):
    """recipe level: a Transpose / Adjoint (constructor or .T / .H, which may short-cut on the annotation) over something falsely annotated"""
    if t["k"] == "Wrap" and false_selfadjoint_behind_wrapper(C.build(t["a"]), inside=True):
        return True
    return any(false_selfadjoint_under_wrap(x) for x in C.subs(t))


def tol_of(recipe, logabs, case=None):
    f32 = any(d in ("float32", "complex64") for d in C.rdts(recipe))
    base = 2e-4 if f32 else 1e-9
    # wide regime: the determinant of an ill-conditioned node is itself only defined to ~ eps * cond (the oracle works on an independently rounded matrix)
    extra = 100 * (1.2e-7 if f32 else 2.3e-16) * case["condN"] * case["N"] if (case and case.get("wide")) else 0.0
    return base * max(1.0, abs(logabs)) + extra, (1e-3 if f32 else 1e-8) + extra, f32


def run_impl(case):
    """public API only; returns observation + decorated model tree"""
    from cola.linalg import slogdet, logdet
    obs = {}
    A = C.build(case["recipe"])
    n = A.shape[0]
    alg = mk_alg(case["alg"], case["trace"], max(C.rsize(case["recipe"]), 1), case.get("tol"))
    obs["n"] = n
    try:
        model = C.model_tree(A, alg, need_fn(case["alg"]))
    except np.linalg.LinAlgError as e:
        return dict(skip="oracle raised " + str(e)[:80])
    obs["model"] = model
    try:
        s, l = slogdet(A, alg["obj"], alg["trace_obj"])
        l2 = logdet(A, alg["obj"], alg["trace_obj"])
        obs.update(ok=True, sign=complex(s), logabs=complex(l), logdet=complex(l2),
                   sign_dtype=str(np.asarray(s).dtype), logabs_dtype=str(np.asarray(l).dtype))
    except AssertionError as e:
        obs.update(ok=False, err="AssertionError", msg=str(e)[:100])
    except Exception as e:
        obs.update(ok=False, err=type(e).__name__, msg=str(e)[:200])
    return obs


def coq_obs(raised, real, sign, logabs, tolm, tols):
    if raised:
        return "(mkobs true true qi0 0%Qc 0%Z 0%Z 0%Qc 0%Qc)"
    if not np.isfinite(logabs):   # nan / +-inf: no magnitude at all; a sentinel that no positive rational matches
        return (f"(mkobs false {'true' if real else 'false'} {C.qi_lit(sign if np.isfinite(sign) else 0)} 0%Qc 0%Z 0%Z {C.qc_lit(tolm)} {C.qc_lit(tols)})")
    k = int(round(float(logabs) / math.log(2)))
    el = float(np.exp(np.float64(logabs) - k * np.float64(math.log(2))))
    lsgn = 1 if logabs > 0 else (-1 if logabs < 0 else 0)
    return (f"(mkobs false {'true' if real else 'false'} {C.qi_lit(sign)} {C.qc_lit(el)} ({k})%Z ({lsgn})%Z {C.qc_lit(tolm)} {C.qc_lit(tols)})")


def coq_flags(present):
    b = lambda f: "true" if f in present else "false"
    return f"(mkflags {b('scalar_slogdet_ignores_n')} {b('perm_slogdet_ignores_parity')} {b('krylov_slogdet_abs_of_trace')})"


COQ_ALG = dict(auto="AAuto", lu="ALU", chol="AChol", lanczos="AKry", arnoldi="AKry")


HEADER_U = HEADER.replace("C07_Exec.", "C07_Exec C07_Unary.")


def eval_coq(name, defs, shard=150, header=None):
    """defs: list of (listname, typ, checker, [terms]); returns dict listname -> failing indices, or error"""
    res = {ln: [] for ln, _, _, _ in defs}
    jobs = []
    for ln, typ, chk, terms in defs:
        for s in range(0, len(terms), shard):
            body = (header or HEADER) + f"Definition cases : list {typ} := [\n" + ";\n".join(terms[s:s + shard]) + "].\n"
            body += f"Eval vm_compute in (length cases, failing {chk} 0 cases).\n"
            jobs.append((ln, s, f"c07_{name}_{ln}_{s // shard}", body))
    outs = core.coqc_many([(j[2], j[3]) for j in jobs], 900)
    for (ln, s, nm, _), (rc, out) in zip(jobs, outs):
        m = re.search(r"=\s*\((\d+)(?:%nat)?,\s*\[(.*?)\]\)", out, flags=re.S)
        if rc != 0 or not m:
            return None, f"{nm}: rc={rc}\n{out[-1500:]}"
        if m.group(2).strip():
            res[ln] += [s + int(x.replace("%nat", "")) for x in m.group(2).replace("\n", " ").split(";") if x.strip()]
    return res, None


def run(ctx):
    fnd = findings()
    present = {f["flag"] for f in fnd if f["present"]}
    n_struct = ctx.budget(420, 5000)
    n_kry = ctx.budget(80, 800)
    n_grad = ctx.budget(70, 600)
    stats = dict(skipped_oracle_hyp=0, skipped_false_selfadjoint_behind_wrapper=0, expected_assert=0, flag_attributed=0,
                 oracle_verified=0, krylov_cases=0, arnoldi_branch_cut_skipped=0, krylov_complex_trace_skipped=0, krylov_complex_trace_oracle_verified=0, krylov_hyp_failed=0,
                 graded_cases=0, krylov_e2e_checked=0, krylov_e2e_unconverged_regime=0, unary_nodes_checked=0, unary_near_tie=0, unary_nonfinite=0,
                 unary_oracle_error=0, unary_ritz_values_masked=0, unary_ritz_values_between_cutoff_and_tol=0)
    mism = []
    cases, obs = [], []
    tries = 0
    n_all = n_struct + n_kry + n_grad
    while len(cases) < n_all and tries < 20 * n_all:
        tries += 1
        kry = False if len(cases) < n_struct else (True if len(cases) < n_struct + n_kry else "graded")
        c = gen_case(ctx, kry, present)
        N = C.rsize(c["recipe"])
        if N == 0 or N > 12:
            continue
        D = C.dense(c["recipe"])
        if not np.all(np.isfinite(D)):
            continue
        try:
            with np.errstate(all="ignore"):
                c["condD"] = float(np.linalg.cond(D))
        except np.linalg.LinAlgError:
            if not c.get("wide"):
                continue
            c["condD"] = float("inf")
        if not (c.get("wide") or c["condD"] <= (1e13 if kry == "graded" else 1e5)) or not abs(np.linalg.slogdet(D)[1]) < 2e4:
            continue
        if "scalar_keeps_annotations" in present and false_selfadjoint_under_wrap(c["recipe"]):
            stats["skipped_false_selfadjoint_behind_wrapper"] += 1   # region spoiled by a recorded flag
            continue
        o = run_impl(c)
        if "skip" in o:
            stats["skipped_oracle_hyp"] += 1
            continue
        # oracle hypotheses of every decoration that is read
        bad_dec = False
        for d in C.decs(o["model"]):
            if d["which"] in ("lu", "chol") and d["resid"] > 1e-4 * (1 + np.abs(D).max()):
                bad_dec = True
        if bad_dec:
            stats["skipped_oracle_hyp"] += 1
            continue
        c["N"] = N
        nodes = C.decs(o["model"])
        c["condN"] = max([d.get("cond", 1.0) for d in nodes] + [1.0]) * max(len(nodes), 1)
        if c.get("wide") and not c["condN"] <= 1e10:
            continue
        cases.append(c)
        obs.append(o)

    # ---- independent oracle and Coq terms
    impl_terms, orc_terms, kterms, uterms = [], [], [], []
    idx_impl, idx_k, idx_u = [], [], []
    info = []
    for i, (c, o) in enumerate(zip(cases, obs)):
        D = C.dense(c["recipe"])
        osign, ologabs = np.linalg.slogdet(D)
        if c.get("wide"):   # badly scaled products: a float LU of the assembled matrix is itself unreliable; exact rational determinant instead
            osign, ologabs = C.exact_slogdet(c["recipe"])
        real = not any(d in T.CPLX for d in C.rdts(c["recipe"]))
        kry = c["alg"] in ("lanczos", "arnoldi")
        rec = dict(oracle=(complex(osign), float(ologabs)), real=real, kry=kry)
        info.append(rec)
        if not o["ok"]:
            rec["impl_ok"] = False
            if kry or o["err"] != "AssertionError":
                mism.append(dict(oracle_fail=True, case=c, got=dict(err=o["err"], msg=o.get("msg")), what="implementation raised on a non-singular tree"))
                continue
            stats["expected_assert"] += 1
            impl_terms.append(f"(mkcase {coq_flags(present)} {COQ_ALG[c['alg']]} {C.coq_sop(o['model'])} {coq_obs(True, real, 0, 0, 0, 0)})")
            idx_impl.append(i)
            continue
        rec["impl_ok"] = True
        s, l = o["sign"], o["logabs"]
        if not (np.isfinite(s) and np.isfinite(l)):
            rec["kskip"] = True
            if not (kry and "lanczos_exact_trace_uneven_breakdown_nan" in present and c["alg"] == "lanczos"
                    and any(d.get("uneven") for d in C.decs(o["model"]) if d["which"] == "kry")):
                mism.append(dict(oracle_fail=True, case=c, got=dict(sign=str(s), logabs=str(l)), expected=rec["oracle"],
                                 what="sign / logabs is not finite on a non-singular operator whose log-determinant is representable"))
            continue
        tol_l, tol_s, f32 = tol_of(c["recipe"], l.real, c)
        if kry:
            tol_l, tol_s = max(tol_l, 1e-6 * max(1, abs(l.real))), max(tol_s, 1e-6)
        # python-level oracle comparison
        def oracle_cmp(tol_l, tol_s):
            ofail = []
            if abs(l.imag) > 0:
                ofail.append("logabs has an imaginary part")
            if not abs(l.real - ologabs) <= tol_l:
                ofail.append(f"logabs {l.real} != {ologabs}")
            if real and not kry and (s.imag != 0 or s.real not in (1.0, -1.0)):
                ofail.append(f"sign {s} is not +-1")
            if not abs(s - osign) <= tol_s:
                ofail.append(f"sign {s} != {osign}")
            if o["logdet"] != o["logabs"] and not (np.isnan(o["logdet"]) and np.isnan(o["logabs"])):
                ofail.append(f"logdet {o['logdet']} != slogdet[1] {o['logabs']}")
            return ofail
        ofail = oracle_cmp(tol_l, tol_s)
        rec["ofail"] = ofail
        if kry:
            stats["krylov_cases"] += 1
            kd = [d for d in C.decs(o["model"]) if d["which"] == "kry"]
            # the matrix-function rule itself (unary.py): model of the Ritz-value cut-off and of the contraction, on the oracle data of this node
            for d in kd:
                u = d.get("unary")
                if u is None or "error" in u:
                    stats["unary_oracle_error"] += 1
                elif "lanczos_exact_trace_uneven_breakdown_nan" in present and c["alg"] == "lanczos" and d["uneven"]:
                    pass
                elif u["nonfinite"]:
                    stats["unary_nonfinite"] += 1
                elif u["near_tie"]:
                    stats["unary_near_tie"] += 1
                elif not np.isfinite(d["kt"]):
                    mism.append(dict(oracle_fail=True, case=c, got=dict(trace_log=str(d["kt"])), what="trace(log(A, alg)) is not finite although every Ritz value above the cut-off has a finite logarithm"))
                else:
                    uterms.append(C.coq_ucase(u, d["kt"], 2e-4 if f32 else 1e-9))
                    idx_u.append((i, len(idx_u)))
                    stats["unary_nodes_checked"] += 1
                    stats["unary_ritz_values_masked"] += u["masked"]
                    stats["unary_ritz_values_between_cutoff_and_tol"] += u["below_tol"]
            if "arnoldi_log_branch_cut_mixed" in present and c["alg"] == "arnoldi" and any(d["branch_cut"] for d in kd):
                stats["arnoldi_branch_cut_skipped"] += 1   # region spoiled by a recorded flag: not generated while it is present
                rec["kskip"] = True
                continue
            # end-to-end comparison (is trace(log(A, alg)) the log-determinant of the node?) only where the Krylov factorisation with
            # stopping tolerance tau is expected to have converged: Lanczos stops as soon as beta_k < tau * beta_1, which on a graded
            # spectrum happens when the remaining eigenvalues are below tau * |lambda|_max (measured on the unchanged tree: error <= 1e-9
            # for cond * tau <= 1e-3, growing to O(1) for cond * tau >= 10; Arnoldi: error ~ 10 * cond * tau)
            tau = c.get("tol") or 1e-6
            epsd = 1.2e-7 if f32 else 2.3e-16

            def e2e_tol(d):
                cn = float(np.linalg.cond(d["dense"].astype(np.complex128)))
                d["cond"] = cn
                if not c.get("graded"):
                    return 1e-6 * (1e3 if f32 else 1)
                if cn * tau > (1e-3 if c["alg"] == "lanczos" else 1e-10):
                    return None
                return 1e-6 * (1e3 if f32 else 1) + 1e3 * epsd * cn * d["n"]

            def hyp_err(d):
                if not np.isfinite(d["kt"]):
                    return float("inf"), float("inf")
                ls, ll = np.linalg.slogdet(d["dense"].astype(np.complex128))
                return abs(d["kt"].real - ll), abs(np.exp(1j * d["kt"].imag) - ls)
            tols = [e2e_tol(d) for d in kd]
            rec["kry_nodes"] = kd
            if c.get("graded"):
                stats["graded_cases"] += 1
            if any(t_ is None for t_ in tols):
                stats["krylov_e2e_unconverged_regime"] += 1
                rec["e2e_skip"] = True
                hyp_bad = []
            else:
                stats["krylov_e2e_checked"] += 1
                hyp_bad = [d for d, t_ in zip(kd, tols) if not (hyp_err(d)[0] <= t_ and hyp_err(d)[1] <= t_)]
                if c.get("graded"):   # the tree's logabs inherits the nodes' conditioning (Kronecker / BlockDiag exponents <= 12)
                    ofail = oracle_cmp(max(tol_l, 12 * sum(tols)), max(tol_s, 12 * sum(tols)))
            if rec.get("e2e_skip"):
                ofail = [x for x in ofail if x.startswith("logdet ")]
            rec["ofail"] = ofail
            if hyp_bad:
                # cola's own trace(log(A, Lanczos|Arnoldi)) is not the log-determinant of the node: the property fails here unless a recorded flag explains it
                stats["krylov_hyp_failed"] += 1
                rec["kskip"] = True
                if not ("lanczos_exact_trace_uneven_breakdown_nan" in present and c["alg"] == "lanczos" and all(d["uneven"] for d in hyp_bad)):
                    mism.append(dict(oracle_fail=True, case=c, got=dict(sign=str(s), logabs=str(l), trace_log=[str(d["kt"]) for d in hyp_bad]), expected=rec["oracle"],
                                     what="trace(log(A, alg), trace_alg) of a base node is not log det of that node (exact-trace hypothesis of the Krylov rule fails)"))
                continue
            ts = [d["kt"] for d in kd]
            if any(abs(t.imag) > 1e-10 for t in ts) or any(t.real == 0 for t in ts):
                stats["krylov_complex_trace_skipped"] += 1
                rec["kskip"] = True
                if not ofail:
                    stats["krylov_complex_trace_oracle_verified"] += 1
                if ofail and "krylov_slogdet_abs_of_trace" not in present:
                    mism.append(dict(oracle_fail=True, case=c, got=dict(sign=str(s), logabs=str(l)), expected=rec["oracle"], failed_clauses=ofail))
                continue
            kterms.append(f"(mkkcase {coq_flags(present)} {C.coq_sop(o['model'], 'qc')} (mkkobs {C.qi_lit(s)} {C.qc_lit(l.real)} {C.qc_lit(2e-4 if f32 else 1e-9)}))")
            idx_k.append(i)
            continue
        impl_terms.append(f"(mkcase {coq_flags(present)} {COQ_ALG[c['alg']]} {C.coq_sop(o['model'])} "
                          f"{coq_obs(False, real, s, l.real, 2 * tol_l + 1e-13, tol_s)})")
        idx_impl.append(i)
    # the repaired model against the independent oracle, on the same decorated trees (sanity of model + theorem on data)
    idx_orc = []
    for i in idx_impl:
        c, o, rec = cases[i], obs[i], info[i]
        if not rec.get("impl_ok"):
            continue
        os_, ol = rec["oracle"]
        tol_l, tol_s, f32 = tol_of(c["recipe"], ol, c)
        tol_l = max(tol_l, 1e-7 * max(1, abs(ol)))   # the oracle itself is a float LU
        orc_terms.append(f"(mkcase all_fixed {COQ_ALG[c['alg']]} {C.coq_sop(o['model'])} "
                         f"{coq_obs(False, rec['real'], os_, ol, 2 * tol_l + 1e-13, max(tol_s, 1e-7))})")
        idx_orc.append(i)
    res, err = eval_coq(f"s{ctx.seed}", [("impl", "case", "check", impl_terms), ("orc", "case", "check", orc_terms), ("kry", "kcase", "kcheck", kterms)])
    if not err:
        resu, err = eval_coq(f"s{ctx.seed}u", [("una", "ucase", "ucheck", uterms)], shard=12, header=HEADER_U)
        if not err:
            res["una"] = resu["una"]
    if err:
        mism.append(dict(oracle_fail=False, harness_error=err))
        res = dict(impl=[], orc=[], kry=[], una=[])
    for j in sorted(set(res.get("una", []))):
        i = idx_u[j][0]
        c, o, rec = cases[i], obs[i], info[i]
        errs = []
        for d in rec.get("kry_nodes", []):
            ll = np.linalg.slogdet(d["dense"].astype(np.complex128))[1]
            errs.append(float(abs(d["kt"].real - ll)) if np.isfinite(d["kt"]) else float("inf"))
        mism.append(dict(oracle_fail=bool(errs and max(errs) > 1.0), case=c, got=dict(sign=str(o.get("sign")), logabs=str(o.get("logabs"))), expected=rec["oracle"],
                         node_logabs_error_vs_numpy=errs,
                         what="trace(log(A, Lanczos|Arnoldi), Exact) differs from the model of LanczosUnary/ArnoldiUnary._matmat on the same Krylov factorisation and "
                              "eigen-decomposition (Ritz values are dropped only below 10*eps*max|ritz|)"))
    fail_impl = {idx_impl[j] for j in res["impl"]}
    fail_orc = {idx_orc[j] for j in res["orc"]}
    fail_k = {idx_k[j] for j in res["kry"]}
    for i, (c, o, rec) in enumerate(zip(cases, obs, info)):
        if not rec.get("impl_ok"):
            if i in fail_impl:
                mism.append(dict(oracle_fail=False, case=c, got=dict(err=o.get("err")), what="model pre-check and implementation disagree on the Cholesky assertion"))
            continue
        if rec.get("kskip"):
            continue
        ofail = rec.get("ofail", [])
        model_disagrees = (i in fail_impl) or (i in fail_k)
        fixed_disagrees = i in fail_orc
        if fixed_disagrees:
            mism.append(dict(oracle_fail=False, case=c, what="the repaired model (all flags off) disagrees with numpy.linalg.slogdet of the represented matrix",
                             expected=rec["oracle"], model_tree_kinds=C.mkinds(o["model"])))
            continue
        if model_disagrees:
            mism.append(dict(oracle_fail=bool(ofail), case=c, got=dict(sign=str(o["sign"]), logabs=str(o["logabs"])), expected=rec["oracle"],
                             failed_clauses=ofail, what="model at the probed flags and implementation disagree"))
            continue
        if ofail:
            if present:
                stats["flag_attributed"] += 1   # agrees with the model at the probed flag vector, the repaired model agrees with the oracle
            else:
                mism.append(dict(oracle_fail=True, case=c, got=dict(sign=str(o["sign"]), logabs=str(o["logabs"])), expected=rec["oracle"], failed_clauses=ofail))
        else:
            stats["oracle_verified"] += 1
    hist = {}
    for c in cases:
        for k in set(C.rkinds(c["recipe"])):
            hist[k] = hist.get(k, 0) + 1
    algh = {}
    for c in cases:
        key = c["alg"] + "/" + c["trace"]
        algh[key] = algh.get(key, 0) + 1
    perm_par, scal_sizes = dict(even=0, odd=0), {}

    def walk(t):
        if t["k"] == "Perm":
            perm_par["odd" if np.linalg.det(C.dense(t)).real < 0 else "even"] += 1
        if t["k"] == "Scal":
            scal_sizes[str(t["n"])] = scal_sizes.get(str(t["n"]), 0) + 1
        for x in t.get("ms", []):
            walk(x)
    for c in cases:
        walk(c["recipe"])
    lu_odd = sum(1 for o in obs for d in (C.decs(o["model"]) if "model" in o else []) if d["which"] == "lu" and np.linalg.det(np.eye(len(d["p"]))[d["p"]]) < 0)
    lu_all = sum(1 for o in obs for d in (C.decs(o["model"]) if "model" in o else []) if d["which"] == "lu")
    wide_cases = [c for c in cases if c.get("wide")]
    grad_cases = [c for c in cases if c.get("graded")]
    lneg = sum(1 for r_ in info if r_["oracle"][1] < 0)
    sneg = sum(1 for r_ in info if r_["real"] and r_["oracle"][0].real < 0)
    distinct = len({core.digest(c["recipe"]) for c in cases if C.rdepth(c["recipe"]) >= 2 or c["recipe"]["k"] in ("Generic", "Perm", "Tri", "Scal")})
    return dict(
        evaluations=len(cases), distinct_nontrivial=distinct,
        rule="random non-singular operator trees (Product of square factors via constructor/@/scalar*, Kronecker with unequal factor sizes, BlockDiag with multiplicities, "
             "Diagonal, ScalarMul, Identity, Triangular, Permutation, dense general, dense PSD, generic kinds Sum/Transpose/Adjoint/Sliced/Tridiagonal/Householder/Sparse/KronSum/non-square Product; "
             "real and complex, float32..complex128, dyadic-rational payloads; 20% in a wide regime: scales 1e-8..1e8, graded dense nodes cond 1e3..1e8) x (Auto, LU, Cholesky, Lanczos, Arnoldi; "
             "Krylov tolerances default/1e-4/1e-8/1e-10) x (Exact, Auto trace); plus a Krylov stream on graded spectra (cond 1e3..1e10, dense / Sum / G^H G + jitter I); non-trivial = depth>=2 or a structured leaf; distinct by recipe hash",
        samples=[dict(recipe=c["recipe"], alg=c["alg"], trace=c["trace"]) for c in cases[:2]],
        mismatches=mism, findings=fnd,
        extra=dict(kind_histogram=hist, alg_histogram=algh, compared_in_coq=len(idx_impl) + len(idx_k), repaired_model_vs_oracle=len(idx_orc),
                   complex_cases=sum(1 for r_ in info if not r_["real"]), logabs_negative=lneg, real_sign_negative=sneg,
                   permutation_leaves=perm_par, scalar_leaf_sizes=scal_sizes, lu_decorations=lu_all, lu_odd_pivot_permutations=lu_odd,
                   max_size=max(c["N"] for c in cases),
                   wrapped_nodes={w: sum(1 for c in cases for k in C.rkinds(c["recipe"]) if k.startswith("Wrap:" + w)) for w in ("H", "T")},
                   wrapped_inner_kinds=sorted({k.split(":")[2].split("+")[0] for c in cases for k in C.rkinds(c["recipe"]) if k.startswith("Wrap:")}),
                   wrapped_krylov_cases=sum(1 for c in cases if c["alg"] in ("lanczos", "arnoldi") and any(k.startswith("Wrap:") for k in C.rkinds(c["recipe"]))),
                   tiny_scale_psd_nodes=sum(1 for c in cases for k in C.rkinds(c["recipe"]) if "+tiny" in k),
                   tiny_scale_cases_by_alg={a: sum(1 for c in cases if c["alg"] == a and any("+tiny" in k for k in C.rkinds(c["recipe"]))) for a in ("auto", "chol", "lu")},
                   extreme_scale_cases=sum(1 for c in cases if c.get("extreme")),
                   determinant_outside_dtype_range=sum(1 for c, r_ in zip(cases, info) if abs(r_["oracle"][1]) > (87 if any(d in ("float32", "complex64") for d in C.rdts(c["recipe"])) else 708)),
                   wide_regime_cases=len(wide_cases), wide_regime_max_node_cond=max([c["condN"] for c in wide_cases] + [0]),
                   max_abs_logabs=max(abs(r_["oracle"][1]) for r_ in info), min_logabs=min(r_["oracle"][1] for r_ in info),
                   graded_cond_log10_histogram={str(k): sum(1 for c in grad_cases if int(math.log10(c["graded"])) == k) for k in range(1, 11)},
                   krylov_tol_histogram={str(t_): sum(1 for c in cases if c["alg"] in ("lanczos", "arnoldi") and c.get("tol") == t_) for t_ in (None, 1e-4, 1e-8, 1e-10)}, depth_histogram={str(d): sum(1 for c in cases if C.rdepth(c["recipe"]) == d) for d in range(1, 6)},
                   kronecker_nonsquare_factors=outside_quantifier(), **stats))


def replay(ctx, payload):
    """./check C07 --replay f : re-run the recorded witness (a flag probe or a recipe) on the implementation against the oracle"""
    if payload.get("flag"):
        f = [x for x in findings() if x["flag"] == payload["flag"]]
        for x in f:
            print(f"flag={x['flag']} present={x['present']} witness={x['witness']} got={x['got']} expected={x.get('expected')}")
        return 1 if any(x["present"] for x in f) else 0
    bad = 0
    for c in ([payload["case"]] if payload.get("case") else [m.get("case") for m in payload.get("cases", [])]):
        if not c or "recipe" not in c:
            continue
        o = run_impl(c)
        os_, ol = np.linalg.slogdet(C.dense(c["recipe"]))
        print(f"alg={c['alg']}/{c['trace']} implementation: sign={o.get('sign')} logabs={o.get('logabs')} err={o.get('err')}   numpy oracle: sign={os_} logabs={ol}")
        if not o.get("ok") or abs(o["sign"] - os_) > 1e-3 or abs(o["logabs"] - ol) > 1e-3 * max(1, abs(ol)):
            bad = 1
    return bad
