"""C09 - matrix functions exp/log/sqrt/isqrt/pow/apply_unary equal f of the matrix (DESIGN.md section 5, C09)."""
import numpy as np
import scipy.linalg as sl
import shim  # noqa: F401
import core
import c10_lib as L

TRUSTED_BASE = [
    "Coq 8.16.1 kernel + vm_compute; theorems of coq/PropsC09.v closed under the global context (no axioms)",
    "hand-written model coq/C09_Model.v (apply_unary / exp / pow rules on annotated operator trees, Auto table, integer shortcuts) and the plumbing of "
    "LanczosUnary / ArnoldiUnary (coq/C09_Krylov.v, check_kcase) as a reading of cola/linalg/unary/unary.py - tied to /repo by this correspondence check; "
    "the action of the resulting operator tree on the operand is computed with the C01 model (Op.v matmat)",
    "oracles passed as data and checked numerically here: LAPACK eigh / eig outputs for every node a dense rule is applied to (A V = V diag w; V^H V = V V^H = I resp. "
    "W V = V W = I with W from cola's inv), the scalar function f on the finitely many points where a rule evaluates it (numpy's values), "
    "Lanczos / Arnoldi factorisations with the eigendecomposition of the projected matrix (C14/C15)",
    "exact rational arithmetic on Gaussian rationals (FieldBase.v QI) inside Coq; the implementation's floats are compared with tolerance 1e-9 (float64) relative to the result's scale",
    "harness: this file, c10_lib.py, shim.py; independent oracle: scipy.linalg expm/logm/sqrtm/fractional_matrix_power and a numpy eigendecomposition of the dense matrix",
]
ASSUMPTIONS = [
    "operators are diagonalisable with well-conditioned eigenvectors (condition <= 4 per dense leaf) and spectrum inside the function's domain: positive reals or the open right "
    "half plane for log/sqrt/isqrt/non-integer pow, anything bounded for exp, non-zero for negative powers",
    "Krylov rules: only runs whose basis spans the whole space (max_iters >= n) are compared with f(A); shorter runs are checked for correspondence with the model only",
    "integer powers 1<=k<10 on Gaussian-integer payloads are compared exactly (entries bounded by 2^50)",
    "regions spoiled by a present recorded defect are not generated (zero eigenvalues under a Krylov rule, Kronecker factors with non-positive spectra under non-integer pow, "
    "pow(.,-1) with Lanczos/Arnoldi, integer powers of Identity while `I @ I` is ambiguous)",
]
HEADER = ("From Coq Require Import ZArith QArith Qcanon List Bool Arith.\nFrom Core Require Import Base Kron Op FieldBase Algebra C09_Model C09_Check C10_Check.\n"
          "Import ListNotations.\nOpen Scope Z_scope.\n")
ALPHAS = [-2, -1, -0.5, 0, 0.5, 1, 2, 3, 9, 10, 2.5]


# ------------------------------------------------------------------------------------------------ probes
def findings():
    import cola
    from cola import ops
    from cola.linalg import exp, sqrt, pow, Lanczos, Arnoldi, Auto
    out = []

    def probe(flag, what, fn, witness):
        try:
            present, got = fn()
        except Exception as e:
            present, got = True, f"raised {type(e).__name__}: {str(e)[:160]}"
        out.append(dict(flag=flag, present=bool(present), what=what, witness=witness, got=str(got)))

    def p_mask():
        y = np.asarray(exp(cola.PSD(ops.Dense(np.diag([0., 1., 2.]))), Lanczos(max_iters=3)) @ np.ones(3))
        return abs(y[0] - 1) > 1e-6, y.tolist()
    probe("krylov_mask_kills_f0", "LanczosUnary/ArnoldiUnary replace f(theta) by 0 for eigenvalues below 10*eps*max|theta| (meant for padding): a genuine zero eigenvalue "
          "gets f(0) := 0, wrong for exp (Coq witness C09_krylov_mask_refuted)", p_mask, "exp(PSD(Dense(diag(0,1,2))),Lanczos(max_iters=3)) @ ones(3)")

    def p_kron():
        K = ops.Kronecker(ops.Dense(np.array([[-1 + 0j]])), ops.Dense(np.array([[-1 + 0j]])))
        y = np.asarray(sqrt(K).to_dense())
        return abs(y[0, 0] - 1) > 1e-6, y.tolist()
    probe("pow_kron_branch", "pow(Kronecker, alpha) is applied factor-wise: the principal branch of x**alpha is not multiplicative (sqrt(-1)*sqrt(-1) = -1 but the matrix is [[1]]) "
          "(Coq witness C09_pow_kron_branch_refuted)", p_kron, "sqrt(Kronecker(Dense([[-1+0j]]),Dense([[-1+0j]]))).to_dense()")

    def p_m1():
        A = cola.PSD(ops.Dense(np.diag([1., 2.])))
        y = np.asarray(pow(A, -1, Lanczos()) @ np.ones(2))
        return not np.allclose(y, [1, .5]), y.tolist()
    probe("pow_minus1_krylov_kwargs", "pow(A, -1, Lanczos()|Arnoldi()) builds CG(**alg.__dict__) / GMRES(**alg.__dict__): TypeError (unexpected keyword 'start_vector')", p_m1,
          "pow(PSD(Dense(diag(1,2))),-1,Lanczos()) @ ones(2)")

    def p_m1e():
        from cola.linalg import Eigh
        A = cola.SelfAdjoint(ops.Dense(np.diag([1., -2.])))
        y = np.asarray(pow(A, -1, Eigh()) @ np.ones(2))
        return not np.allclose(y, [1, -.5]), y.tolist()
    probe("pow_minus1_requires_psd", "pow(A, -1, Eigh()|Lanczos()) translates the algorithm into Cholesky / CG: AssertionError for a SelfAdjoint operator that is not declared PSD "
          "(Eigh and Lanczos themselves only need SelfAdjoint)", p_m1e, "pow(SelfAdjoint(Dense(diag(1,-2))),-1,Eigh()) @ ones(2)")

    def p_lbr():
        A = cola.PSD(ops.Dense(np.diag([.5, 1., 2., 3.])))
        X = np.stack([np.eye(4)[:, 0], np.ones(4)], 1)
        Y = np.asarray(exp(A, Lanczos()) @ X)
        ref = np.diag(np.exp([.5, 1., 2., 3.])) @ X
        return not (np.abs(Y - ref).max() <= 1e-8), Y.tolist()
    probe("lanczos_batch_breakdown_nan", "a Krylov-Lanczos matrix function applied to several columns at once fails when one column's Krylov space is exhausted EXACTLY while "
          "another continues: lanczos keeps normalising the exhausted element (0/0), T fills with NaN and eigh raises LinAlgError "
          "(C14 lanczos_batch_shared_stop seen through LanczosUnary)", p_lbr, "exp(PSD(Dense(diag(.5,1,2,3))),Lanczos()) @ [e0, ones]")

    def p_lz():
        A = cola.PSD(ops.Dense(np.diag([.5, 1., 2., 3.])))
        Y = np.asarray(exp(A, Lanczos()) @ np.zeros((4, 1)))
        return not (np.abs(Y).max() <= 1e-12), Y.tolist()
    probe("lanczos_zero_operand_nan", "a Lanczos matrix function applied to a zero vector (or an operand with a zero column) returns NaN instead of 0: lanczos divides the "
          "start vector by its norm", p_lz, "exp(PSD(Dense(diag(.5,1,2,3))),Lanczos()) @ zeros((4,1))")

    def p_adjf():
        from cola.linalg import apply_unary
        F = apply_unary(lambda x: np.exp(0.5j * x), ops.Adjoint(ops.Dense(np.array([[1.0]]))))
        y = complex(np.asarray(F.to_dense())[0, 0])
        return abs(y - np.exp(0.5j)) > 1e-8, y
    probe("apply_unary_adjoint_nonreal_f", "apply_unary(f, Adjoint(A)) returns Adjoint(apply_unary(f, A)) = conj(f)(A^H): wrong for a user function with f(conj x) != conj f(x) "
          "(e.g. x -> exp(0.5j x)); exp/log/pow satisfy the symmetry off their branch cuts (hypothesis ConjOK of C09_unary_rule_sound)", p_adjf,
          "apply_unary(lambda x: exp(0.5j*x), Adjoint(Dense([[1.]]))).to_dense()")

    def p_ident():
        y = np.asarray(pow(ops.Identity((2, 2), np.float64), 2).to_dense())
        return not np.allclose(y, np.eye(2)), y.tolist()
    probe("pow_identity_ambiguous", "pow(Identity, k) for 2<=k<10 multiplies Identity @ Identity: AmbiguousLookupError (same root as C03 dot_identity_ambiguous)", p_ident,
          "pow(Identity((2,2),float64),2)")
    return out


# ------------------------------------------------------------------------------------------------ annotated trees
class FN:
    def __init__(self, name, alpha=None):
        self.name, self.alpha = name, alpha

    def np(self, x):
        """numpy's values of the scalar function, called as the code calls it"""
        x = np.asarray(x)
        if self.name == "exp":
            return np.exp(x)
        if self.name == "log":
            return np.log(x)
        if self.name == "user":
            return x * x + 1
        if self.name == "cuser":
            return np.exp(0.5j * x)
        return x ** self.alpha

    def cola(self, A, alg):
        import cola
        from cola.linalg import exp, log, sqrt, isqrt, pow, apply_unary
        args = () if alg is None else (alg,)
        if self.name == "exp":
            return exp(A, *args)
        if self.name == "log":
            return log(A, *args)
        if self.name == "sqrt":
            return sqrt(A, *args)
        if self.name == "isqrt":
            return isqrt(A, *args)
        if self.name == "user":
            return apply_unary(lambda x: x * x + 1, A, *args)
        if self.name == "cuser":
            return apply_unary(lambda x: np.exp(0.5j * x), A, *args)      # a complex-valued function of a (possibly real) operator
        return pow(A, self.alpha, *args)

    def ref(self, D):
        """independent oracle: f of the dense matrix"""
        if self.name == "exp":
            return sl.expm(D)
        if self.name == "log":
            return sl.logm(D)
        if self.name == "user":
            return D @ D + np.eye(D.shape[0])
        if self.name == "cuser":
            return sl.expm(0.5j * D)
        a = self.alpha
        if a == 0.5:
            return sl.sqrtm(D)
        if a == int(a) and a >= 0:
            return np.linalg.matrix_power(D, int(a))
        if a == int(a):
            return np.linalg.matrix_power(np.linalg.inv(D), int(-a))
        return sl.fractional_matrix_power(D, a)

    @property
    def domain(self):
        if self.name in ("exp", "user", "cuser"):
            return "any"
        if self.name == "pow" and self.alpha == int(self.alpha):
            return "any" if self.alpha >= 0 else "nonzero"
        return "rhp"

    def mode(self):
        return "MExp" if self.name == "exp" else ("MPow" if self.name in ("pow", "sqrt", "isqrt") else "MGeneric")

    def js(self):
        return dict(fn=self.name, alpha=self.alpha)


def spectrum(rnd, n, domain, cplx, allow_zero=False):
    """n eigenvalues inside the domain, moderately separated"""
    out = []
    for _ in range(n):
        if domain == "rhp":
            r = rnd.uniform(0.4, 3.0)
            out.append(r * np.exp(1j * rnd.uniform(-1.2, 1.2)) if cplx else r)
        else:
            r = rnd.uniform(0.4, 2.5) * rnd.choice([-1, 1])
            out.append(r * np.exp(1j * rnd.uniform(-3, 3)) if cplx else r)
    if allow_zero and rnd.random() < 0.3:
        out[0] = 0.0
    return np.array(out)


def gen_leaf(rnd, g, fn, cplx, psd, nmax=3, allow_zero=False):
    """a dense node with a prescribed spectrum; psd -> Hermitian positive (semi)definite, annotated PSD"""
    n = rnd.randint(1, nmax)
    if psd:
        lam = np.abs(spectrum(rnd, n, "rhp" if fn.domain == "rhp" else "any", False, allow_zero)) if fn.domain != "rhp" else spectrum(rnd, n, "rhp", False)
        if allow_zero and fn.domain == "any" and rnd.random() < 0.3:
            lam[0] = 0.0
        if n >= 2 and rnd.random() < 0.3:
            lam[1] = lam[0]          # repeated eigenvalue, eigenspace in general position
        Q = L.rand_unitary(g, n, cplx)
        M = (Q * lam) @ Q.conj().T
        M = (M + M.conj().T) / 2
    else:
        lam = spectrum(rnd, n, fn.domain, cplx)
        if n >= 2 and rnd.random() < 0.3:
            lam[1] = lam[0]
        S = L.well_cond(g, n, cplx, 3.0)
        M = S @ np.diag(lam) @ np.linalg.inv(S)
    if not cplx:
        M = M.real
    return dict(k="Leaf", M=M, psd=psd)


def gen_u(rnd, g, fn, depth, cplx, mode, psd_all, present, top=True):
    """annotated tree; mode decides whether Kron / KronSum nodes may appear (they need the explicit alg argument)"""
    r = rnd.random()
    dom = fn.domain
    def val():
        s = spectrum(rnd, 1, dom, cplx and not psd_all)[0]
        return abs(s) if psd_all else s
    if depth <= 0 or r < 0.25:
        k = rnd.choice(["Leaf", "Leaf", "Diag", "Diag", "Ident", "Scal"])
        if k == "Leaf":
            return gen_leaf(rnd, g, fn, cplx, psd_all or rnd.random() < 0.4)
        if k == "Diag":
            n = rnd.randint(1, 3)
            return dict(k="Diag", d=[val() for _ in range(n)])
        if k == "Ident":
            return dict(k="Ident", n=rnd.randint(1, 3))
        return dict(k="Scal", c=val(), n=rnd.randint(1, 3))
    opts = ["Transp", "Adj", "BDiag", "BDiag"]
    if mode == "MExp":
        opts += ["KronSum", "KronSum"]
    if mode == "MPow":
        opts += ["Kron", "Kron"]
    k = rnd.choice(opts)
    if k in ("Transp", "Adj"):
        return dict(k=k, a=gen_u(rnd, g, fn, depth - 1, cplx, "MGeneric", psd_all, present, False))
    if k == "BDiag":
        nb = rnd.randint(1, 3)
        return dict(k="BDiag", ms=[gen_u(rnd, g, fn, depth - 1, cplx, "MGeneric", psd_all, present, False) for _ in range(nb)], mu=[rnd.randint(1, 2) for _ in range(nb)])
    # Kron / KronSum: children are handled by the same entry point
    kids = [gen_u(rnd, g, fn, depth - 1, cplx, mode, psd_all, present, False) for _ in range(rnd.randint(2, 3))]
    return dict(k=k, ms=kids)


def kids(u):
    return u.get("ms") or ([u["a"]] if "a" in u else [])


def udim(u):
    k = u["k"]
    if k == "Leaf":
        return u["M"].shape[0]
    if k == "Diag":
        return len(u["d"])
    if k in ("Ident", "Scal"):
        return u["n"]
    if k in ("Transp", "Adj"):
        return udim(u["a"])
    if k == "BDiag":
        return sum(udim(x) * m for x, m in zip(u["ms"], u["mu"]))
    n = 1
    for x in u["ms"]:
        n *= udim(x)
    return n


def ukinds(u, acc=None):
    acc = acc if acc is not None else []
    acc.append(u["k"])
    for x in kids(u):
        ukinds(x, acc)
    return acc


def udense(u):
    k = u["k"]
    C = np.complex128
    if k == "Leaf":
        return u["M"].astype(C)
    if k == "Diag":
        return np.diag(np.array(u["d"], dtype=C))
    if k == "Ident":
        return np.eye(u["n"], dtype=C)
    if k == "Scal":
        return u["c"] * np.eye(u["n"], dtype=C)
    if k == "Transp":
        return udense(u["a"]).T
    if k == "Adj":
        return udense(u["a"]).conj().T
    if k == "BDiag":
        return sl.block_diag(*[udense(x) for x, m in zip(u["ms"], u["mu"]) for _ in range(m)]).astype(C)
    out = udense(u["ms"][0])
    for x in u["ms"][1:]:
        b = udense(x)
        out = np.kron(out, b) if k == "Kron" else np.kron(out, np.eye(b.shape[0])) + np.kron(np.eye(out.shape[0]), b)
    return out


def ubuild(u, dt, psd_all):
    """annotated tree -> cola operator"""
    import cola
    from cola import ops
    k = u["k"]
    cp = dt in ("complex64", "complex128")
    ndt = getattr(np, dt)

    def cast(a):
        a = np.asarray(a)
        return a.astype(ndt) if cp else a.real.astype(ndt)
    if k == "Leaf":
        A = ops.Dense(cast(u["M"]))
        return cola.PSD(A) if u["psd"] else A
    if k == "Diag":
        return ops.Diagonal(cast(u["d"]))
    if k == "Ident":
        return ops.Identity((u["n"], u["n"]), ndt)
    if k == "Scal":
        c = complex(u["c"])
        return ops.ScalarMul(c if cp else c.real, (u["n"], u["n"]), ndt)
    if k == "Transp":
        return ops.Transpose(ubuild(u["a"], dt, psd_all))
    if k == "Adj":
        return ops.Adjoint(ubuild(u["a"], dt, psd_all))
    if k == "BDiag":
        return ops.BlockDiag(*[ubuild(x, dt, psd_all) for x in u["ms"]], multiplicities=list(u["mu"]))
    cls = ops.Kronecker if k == "Kron" else ops.KronSum
    return cls(*[ubuild(x, dt, psd_all) for x in u["ms"]])


class Oracles:
    """collects, while the Coq term is printed, the eigen-oracle data of the dense nodes and the points where f is evaluated"""

    def __init__(self, fn, dt, rule, present):
        self.fn, self.dt, self.rule = fn, dt, rule     # rule: 'Eigh' | 'Eig' | 'Auto'
        self.points = {}
        self.hyp_fail = []
        self.cond = 1.0
        self.auto_obs = []

    def f_at(self, arr):
        arr = np.asarray(arr)
        vals = self.fn.np(arr)
        for x, y in zip(arr.reshape(-1), np.asarray(vals).reshape(-1)):
            if np.isfinite(complex(y)):
                self.points[L.qic(complex(x))] = L.qic(complex(y))

    def leaf(self, A, psd):
        """the call the dense rule makes on this node: returns (w, V, W)"""
        import cola
        xnp = A.xnp
        Ad = A.to_dense()
        rule = self.rule
        if rule == "Auto":
            rule = "Eigh" if psd else "Eig"
            self.auto_obs.append(f"mkaucase {'true' if psd else 'false'} true U{rule}")
        if rule == "Eigh":
            w, V = xnp.eigh(Ad)
            W = V.conj().T
        else:
            w, V = xnp.eig(Ad)
            W = np.asarray(cola.linalg.inv(cola.fns.lazify(V)).to_dense())
        n = Ad.shape[0]
        tol = 1e-4 if self.dt in ("float32", "complex64") else 1e-9
        sc = max(1.0, float(np.abs(Ad).max()))
        r1 = float(np.abs(Ad @ V - V * w[None, :]).max())
        r2 = float(np.abs(W @ V - np.eye(n)).max())
        r3 = float(np.abs(V @ W - np.eye(n)).max())
        self.cond = max(self.cond, float(np.linalg.cond(V)))
        if not (max(r1 / sc, r2, r3) <= tol * max(1.0, float(np.linalg.cond(V)))):
            self.hyp_fail.append(f"{rule} oracle: |AV-VD|={r1:.2g} |WV-I|={r2:.2g} |VW-I|={r3:.2g}")
        self.cond = max(self.cond, float(np.linalg.cond(V)))
        self.f_at(w)
        return np.asarray(w), np.asarray(V), np.asarray(W)


def ucoq(u, dt, orc, psd_all):
    """annotated tree -> Coq term of type quop; evaluates the oracles on the way"""
    k = u["k"]
    cp = dt in ("complex64", "complex128")
    ndt = getattr(np, dt)

    def cast(a):
        a = np.asarray(a)
        return a.astype(ndt) if cp else a.real.astype(ndt)
    if k == "Leaf":
        A = ubuild(u, dt, psd_all)
        w, V, W = orc.leaf(A, u["psd"])
        n = V.shape[0]
        return f"(ULeaf (Dense (qarr {n} {n} {L.qmat(cast(u['M']))})) (vecl {L.qvec(w)}) (qarr {n} {n} {L.qmat(V)}) (qarr {n} {n} {L.qmat(W)}))"
    if k == "Diag":
        d = cast(u["d"])
        orc.f_at(d)
        return f"(UDiag {len(d)} (vecl {L.qvec(d)}))"
    if k == "Ident":
        orc.f_at(np.array([1], dtype=ndt))
        return f"(UIdent {u['n']})"
    if k == "Scal":
        c = cast([u["c"]])
        orc.f_at(c)
        return f"(UScal {L.qic(complex(c[0]))} {u['n']})"
    if k in ("Transp", "Adj"):
        return f"(U{k} {ucoq(u['a'], dt, orc, psd_all)})"
    if k == "BDiag":
        return "(UBDiag [" + ";".join(f"({ucoq(x, dt, orc, psd_all)}, {m}%nat)" for x, m in zip(u["ms"], u["mu"])) + "])"
    return f"(U{k} [" + ";".join(ucoq(x, dt, orc, psd_all) for x in u["ms"]) + "])"


def ujs(u):
    k = u["k"]
    if k == "Leaf":
        return dict(k=k, M=np.asarray(u["M"]).tolist() if not np.iscomplexobj(u["M"]) else [[str(x) for x in r] for r in u["M"]], psd=u["psd"])
    d = {kk: v for kk, v in u.items() if kk not in ("ms", "a", "d", "c")}
    if "d" in u:
        d["d"] = [str(x) for x in u["d"]]
    if "c" in u:
        d["c"] = str(u["c"])
    if "ms" in u:
        d["ms"] = [ujs(x) for x in u["ms"]]
    if "a" in u:
        d["a"] = ujs(u["a"])
    return d


def make_alg(spec):
    from cola.linalg import Eig, Eigh, Lanczos, Arnoldi, Auto
    if spec is None:
        return None
    cls = dict(Auto=Auto, Eig=Eig, Eigh=Eigh, Lanczos=Lanczos, Arnoldi=Arnoldi)[spec["cls"]]
    return cls(**spec.get("kwargs", {}))


def pick_fn(rnd):
    r = rnd.choice(["exp", "exp", "log", "sqrt", "isqrt", "pow", "pow", "pow", "user", "cuser"])
    if r == "pow":
        return FN("pow", rnd.choice(ALPHAS))
    if r == "sqrt":
        return FN("sqrt", 0.5)
    if r == "isqrt":
        return FN("isqrt", -0.5)
    return FN(r)


def arnoldi_gap_probe():
    """steering only (the defect is C15's arnoldi_stop_threshold_gap): does arnoldi return a unit basis column with an uncomputed (zero)
    Hessenberg column on a graded spectrum?"""
    from cola import ops
    from cola.linalg.decompositions.arnoldi import arnoldi
    lam = np.array([1.30761796e-07, 5.07618185e-07, 2.61726974e-05, 3.91128569e-01])
    g_ = np.random.default_rng(5)
    for _ in range(20):
        Q, _r = np.linalg.qr(g_.standard_normal((4, 4)))
        S = (Q * lam) @ Q.T
        x = g_.standard_normal((4, 1))
        try:
            Qa, H, _i = arnoldi(A=ops.Dense((S + S.T) / 2), start_vector=x, max_iters=1000, tol=1e-6)
            Qd, Hd = np.asarray(Qa.to_dense())[0][:, :-1], np.asarray(H.to_dense())[0][:-1]
            for j in range(Hd.shape[1]):
                if np.abs(Hd[:, j]).max() == 0 and np.linalg.norm(Qd[:, j]) > 0.5:
                    return True
        except Exception:
            return True
    return False


def c05_region(u, under=False):
    """complex scalar multiples of the identity keep the SelfAdjoint annotation (recorded under C05): a BlockDiag made only of such blocks
    takes the self-adjoint shortcut in its left product, so its transpose / adjoint acts wrongly; the results of the Identity / ScalarMul
    rules are exactly such blocks"""
    k = u["k"]

    def scalar_like(x):
        if x["k"] in ("Scal", "Ident"):
            return True
        if x["k"] in ("Transp", "Adj"):
            return scalar_like(x["a"])
        return x["k"] == "BDiag" and all(scalar_like(y) for y in x["ms"])
    if k in ("Transp", "Adj"):
        return c05_region(u["a"], True)
    if k == "BDiag":
        if under and all(scalar_like(x) for x in u["ms"]):
            return True
        return any(c05_region(x, under) for x in u["ms"])
    return any(c05_region(x, False) for x in kids(u))


def composite(rnd, g, cls, cplx):
    """structural operators whose factors mix Identity / ScalarMul / Diagonal with dense ones (3-4 factors, at least one Identity and at
    least two non-identity factors): Kronecker, KronSum (Hermitian positive definite) and Product (general, positive spectrum).
    Returns (builder(dt) -> cola operator, dense matrix, None, n)."""
    import cola
    from cola import ops

    def dense_f(q):
        lam = np.array(L.separated(rnd, q, lo=0.5, gap=0.3, grow=1.3))
        Q = L.rand_unitary(g, q, cplx)
        S = (Q * lam) @ Q.conj().T
        return ("dense", (S + S.conj().T) / 2)

    def diag_f(q):
        return ("diag", np.array([rnd.uniform(0.5, 2.5) for _ in range(q)]))

    def scal_f(q):
        return ("scal", (rnd.uniform(0.5, 2.5), q))
    if cls == "prod3":
        q = rnd.randint(2, 4)
        facs = [dense_f(q), rnd.choice([diag_f, scal_f])(q), ("ident", q)]
        if rnd.random() < 0.5:
            facs.append(rnd.choice([diag_f, scal_f, dense_f])(q))
        rnd.shuffle(facs)
    else:
        for _ in range(100):
            sizes = [rnd.randint(1, 3) for _ in range(rnd.choice([3, 3, 4]))]
            if 4 <= int(np.prod(sizes)) <= 16:
                break
        kinds = ["ident", "dense", rnd.choice(["dense", "diag", "scal"])] + [rnd.choice(["ident", "dense", "diag", "scal"]) for _ in sizes[3:]]
        rnd.shuffle(kinds)
        facs = [dict(ident=lambda q: ("ident", q), dense=dense_f, diag=diag_f, scal=scal_f)[kd](q) for kd, q in zip(kinds, sizes)]

    def fdense(f):
        kd, v = f
        if kd == "ident":
            return np.eye(v)
        if kd == "diag":
            return np.diag(v)
        if kd == "scal":
            return v[0] * np.eye(v[1])
        return v
    Ds = [fdense(f).astype(np.complex128) for f in facs]
    if cls == "prod3":
        M = Ds[0]
        for d in Ds[1:]:
            M = M @ d
    else:
        M = Ds[0]
        for d in Ds[1:]:
            M = np.kron(M, d) if cls == "kron3" else np.kron(M, np.eye(d.shape[0])) + np.kron(np.eye(M.shape[0]), d)

    def build(dt):
        ndt = getattr(np, dt)
        cp = dt in ("complex64", "complex128")

        def cast(a):
            a = np.asarray(a)
            return a.astype(ndt) if cp else a.real.astype(ndt)

        def fop(f):
            kd, v = f
            if kd == "ident":
                return ops.Identity((v, v), ndt)
            if kd == "diag":
                return ops.Diagonal(cast(v))
            if kd == "scal":
                return ops.ScalarMul(float(v[0]), (v[1], v[1]), ndt)
            return cola.PSD(ops.Dense(cast(v)))
        fs = [fop(f) for f in facs]
        if cls == "prod3":
            return ops.Product(*fs)
        return cola.PSD((ops.Kronecker if cls == "kron3" else ops.KronSum)(*fs))
    return build, M, None, M.shape[0]


def int_case(alpha):
    """the shortcut pow takes (harness side, only to route the case; the decision itself is modelled by pow_case)"""
    k = int(np.round(alpha))
    isint = bool(np.isclose(alpha, k))
    return isint, k


# ------------------------------------------------------------------------------------------------ run
def run(ctx):
    import cola
    from cola import ops
    fnd = findings()
    present = {f["flag"] for f in fnd if f["present"]}
    steer_arnoldi_gap = arnoldi_gap_probe()
    try:      # steering only (C05 scalar_keeps_annotations): does a complex multiple of a SelfAdjoint operator still report SelfAdjoint?
        steer_scalar_keeps_sa = bool((1j * cola.SelfAdjoint(ops.Dense(np.eye(2, dtype=np.complex128)))).isa(cola.SelfAdjoint))
    except Exception:
        steer_scalar_keeps_sa = True
    rnd = ctx.rng
    g = L.nprng(rnd)
    mism, samples = [], []
    hist, skipped = {}, {}
    evals, distinct = 0, set()
    uterms, umeta = [], []
    kterms, kmeta = [], []
    auterms = []
    unreachable = {}

    def bump(d, k):
        d[k] = d.get(k, 0) + 1

    # ---------------- A. structural + dense rules on annotated trees (rational model with oracle data)
    nA = ctx.budget(260, 2200)
    tries = 0
    while evals < nA and tries < 20 * nA:
        tries += 1
        fn = pick_fn(rnd)
        cplx = rnd.random() < 0.35
        f32 = rnd.random() < 0.1
        dt = ("complex64" if f32 else "complex128") if cplx else ("float32" if f32 else "float64")
        algspec = rnd.choice([None, dict(cls="Auto"), dict(cls="Auto"), dict(cls="Eig"), dict(cls="Eigh")])
        rule = "Auto" if algspec is None else algspec["cls"]
        psd_all = (rule == "Eigh")          # Eigh asserts SelfAdjoint on every node it reaches
        mode = fn.mode() if algspec is not None else "MGeneric"    # the KronSum / Kronecker rules need the alg argument
        isint, kk = (False, 0)
        if fn.name in ("pow", "sqrt", "isqrt"):
            isint, kk = int_case(fn.alpha)
        shortcut = fn.name == "pow" and isint and (kk == 0 or 0 < kk < 10 or kk == -1)
        u = gen_u(rnd, g, fn, rnd.randint(0, ctx.budget(2, 3)), cplx, mode, psd_all, present)
        n = udim(u)
        if n > ctx.budget(12, 18):
            continue
        kinds_ = ukinds(u)
        # ---- regions spoiled by recorded defects
        if fn.name == "cuser" and "Adj" in kinds_ and "apply_unary_adjoint_nonreal_f" in present:
            bump(skipped, "apply_unary_adjoint_nonreal_f")
            continue
        if "pow_kron_branch" in present and "Kron" in kinds_ and fn.domain == "rhp" and cplx:
            bump(skipped, "pow_kron_branch")
            continue
        if (cplx or fn.name == "cuser") and c05_region(u):
            bump(skipped, "c05_scalar_keeps_annotations")
            continue
        if shortcut and kk == -1:
            continue       # the inverse is C06's observable; covered by stream C below
        if shortcut and 0 < kk < 10 and kk != 1 and "pow_identity_ambiguous" in present and "Ident" in kinds_:
            bump(skipped, "pow_identity_ambiguous")
            continue
        if shortcut and u["k"] == "Kron":
            continue       # factor-wise shortcuts: exercised in stream B (exact tier)
        D = udense(u)
        if fn.domain in ("rhp", "nonzero") and np.abs(np.linalg.eigvals(D)).min() < 0.05:
            continue
        try:
            A = ubuild(u, dt, psd_all)
            if rule == "Eigh" and not A.isa(cola.SelfAdjoint):
                A = cola.PSD(A) if u["k"] == "Leaf" else A
        except Exception as e:
            mism.append(dict(oracle_fail=False, harness_error=f"building: {type(e).__name__}: {e}"))
            continue
        k = rnd.choice([1, 2, 3])
        X = g.standard_normal((n, k)) + (1j * g.standard_normal((n, k)) if cplx else 0)
        X = X.astype(getattr(np, dt))
        xkind = "same"
        if rnd.random() < 0.3:
            # the operand's dtype is independent of the operator's: complex on real, double on single precision
            if not cplx and rnd.random() < 0.7:
                X = (X + 1j * g.standard_normal((n, k))).astype(np.complex128) if rnd.random() < 0.7 else (1j * X).astype(np.complex128)
                xkind = "complex_on_real"
            elif f32:
                X = X.astype(np.complex128 if cplx else np.float64) + 1e-3 * g.standard_normal((n, k))
                xkind = "double_on_single"
        case_js = dict(stream="A", tree=ujs(u), dt=dt, operand=xkind, alg=algspec, **fn.js())
        evals += 1
        bump(hist, f"{fn.name}{'' if fn.alpha is None else fn.alpha}:{rule}")
        for kd in set(kinds_):
            bump(hist, "node:" + kd)
        distinct.add(core.digest(case_js))
        if len(samples) < 3:
            samples.append(case_js)
        try:
            F = fn.cola(A, make_alg(algspec))
            Y = np.asarray(F @ X)
            y1 = np.asarray(F @ X[:, 0])
        except Exception as e:
            mism.append(dict(oracle_fail=True, case=case_js, got=f"{type(e).__name__}: {str(e)[:200]}", failed_clauses=["raised on an input the model accepts"]))
            continue
        tol = 2e-3 if f32 else 1e-8
        # independent oracle
        bad = []
        try:
            ref = fn.ref(D) @ X.astype(np.complex128)
            sc = max(1.0, float(np.abs(ref).max()))
            err = float(np.abs(Y - ref).max())
            if not err <= tol * sc * 10:
                bad.append(f"|F@X - f(A)@X| = {err:.3g} (scale {sc:.3g})")
            if not np.allclose(y1, Y[:, 0], rtol=1e-6, atol=1e-6 * sc):
                bad.append("F @ x differs from the first column of F @ X")
        except Exception as e:
            mism.append(dict(oracle_fail=False, case=case_js, harness_error=f"scipy reference failed: {e}"))
            continue
        # model
        orc = Oracles(fn, dt, rule, present)
        try:
            term = ucoq(u, dt, orc, psd_all)
        except Exception as e:
            mism.append(dict(oracle_fail=False, case=case_js, harness_error=f"oracle evaluation failed: {type(e).__name__}: {e}"))
            continue
        if orc.cond > 1e4:
            # LAPACK's general eig may return an almost dependent basis inside the eigenspace of a repeated eigenvalue: f(A) is then
            # only accurate to eps*cond(V); such cases are counted, not compared
            bump(skipped, "ill_conditioned_eigenbasis")
            continue
        if orc.hyp_fail:
            mism.append(dict(oracle_fail=False, case=case_js, failed_clauses=["an eigen-oracle violates its specification: " + "; ".join(orc.hyp_fail)]))
            continue
        if shortcut:
            call = f"(CPowInt true ({kk}))"
        else:
            call = f"(CUnary {mode})"
        if bad and orc.cond > 10:
            bad = [b for b in bad if not b.startswith("|F@X")] + ([f"|F@X - f(A)@X| = {err:.3g} (scale {sc:.3g}, cond(V) {orc.cond:.3g})"] if not err <= tol * sc * 10 * orc.cond else [])
        tab = "[" + ";".join(f"({a},{b})" for a, b in orc.points.items()) + "]"
        sc = max(1.0, float(np.abs(Y).max()))
        mtol = (1e-3 if f32 else 1e-9) * sc * min(orc.cond, 1e4) * max(1, n)
        uterms.append(f"mkucase {n} {term} {call} {tab} {k} {L.qmat(X)} {L.qc_lit(mtol ** 2)} {L.qmat(Y)}")
        auterms.extend(orc.auto_obs)
        umeta.append(dict(case=case_js, bad=bad, got=dict(FX=np.round(Y, 8).tolist() if not cplx else "complex")))

    # ---------------- B. integer powers, exact tier (Gaussian integers): k = 0, 1..9 as repeated products, also through Kronecker
    nB = ctx.budget(80, 700)
    for _ in range(nB):
        cplx = rnd.random() < 0.4
        dt = "complex128" if cplx else "float64"
        kk = rnd.choice([0, 1, 2, 2, 3, 3, 9])
        fn = FN("pow", float(kk) if rnd.random() < 0.5 else kk)

        def ival():
            return complex(rnd.randint(-2, 2), rnd.randint(-1, 1) if cplx else 0)

        def gi(depth):
            r = rnd.random()
            if depth <= 0 or r < 0.3:
                k_ = rnd.choice(["Leaf", "Leaf", "Diag", "Scal", "Ident"])
                n_ = rnd.randint(1, 3)
                if k_ == "Leaf":
                    return dict(k="Leaf", M=np.array([[ival() for _ in range(n_)] for _ in range(n_)]), psd=False)
                if k_ == "Diag":
                    return dict(k="Diag", d=[ival() for _ in range(n_)])
                if k_ == "Scal":
                    return dict(k="Scal", c=ival(), n=n_)
                return dict(k="Ident", n=n_)
            k_ = rnd.choice(["Transp", "Adj", "BDiag"])
            if k_ == "BDiag":
                nb = rnd.randint(1, 2)
                return dict(k="BDiag", ms=[gi(depth - 1) for _ in range(nb)], mu=[rnd.randint(1, 2) for _ in range(nb)])
            return dict(k=k_, a=gi(depth - 1))
        u = gi(rnd.randint(0, 2))
        n = udim(u)
        if n > 8:
            continue
        kinds_ = ukinds(u)
        if kk >= 2 and "pow_identity_ambiguous" in present and u["k"] == "Ident":
            bump(skipped, "pow_identity_ambiguous")
            continue
        D = udense(u)
        bound = (np.abs(D).sum(axis=1).max() + 1) ** max(kk, 1) * 4
        if bound > 2 ** 50:
            continue
        algspec = rnd.choice([None, dict(cls="Auto"), dict(cls="Eig")])
        k = rnd.choice([1, 2])
        X = np.array([[ival() for _ in range(k)] for _ in range(n)])
        X = X.astype(np.complex128) if cplx else X.real.astype(np.float64)
        case_js = dict(stream="B", tree=ujs(u), dt=dt, alg=algspec, **fn.js())
        evals += 1
        bump(hist, f"intpow{kk}")
        distinct.add(core.digest(case_js))
        try:
            A = ubuild(u, dt, False)
            F = fn.cola(A, make_alg(algspec))
            Y = np.asarray(F @ X)
        except Exception as e:
            mism.append(dict(oracle_fail=True, case=case_js, got=f"{type(e).__name__}: {str(e)[:200]}", failed_clauses=["raised on an input the model accepts"]))
            continue
        ref = np.linalg.matrix_power(D, kk) @ X
        bad = [] if np.array_equal(Y.astype(np.complex128), ref) else [f"A^{kk} X differs (exact integers)"]

        class NoOrc:
            points = {}

            def f_at(self, a):
                pass

            def leaf(self, A_, psd):
                n_ = A_.shape[0]
                return np.zeros(n_), np.eye(n_), np.eye(n_)
        term = ucoq(u, dt, NoOrc(), False)
        uterms.append(f"mkucase {n} {term} (CPowInt true ({kk})) [] {k} {L.qmat(X)} {L.qc_lit(0)} {L.qmat(Y)}")
        umeta.append(dict(case=case_js, bad=bad, got=dict(FX=str(Y.tolist())[:300])))

    # ---------------- C. whole-operator dense and Krylov rules (every admissible algorithm), float tier; pow -1 = inverse; sqrt twice
    nC = ctx.budget(220, 1600)
    from cola.linalg.decompositions.lanczos import lanczos
    from cola.linalg.decompositions.arnoldi import arnoldi
    for _ in range(nC):
        fn = pick_fn(rnd)
        cplx = rnd.random() < 0.3
        dt = "complex128" if cplx else "float64"
        n = rnd.randint(2, ctx.budget(5, 7))
        # spectrum classes: Hermitian declared PSD / declared SelfAdjoint only (Auto then takes the general Eig rule) / general
        # diagonalisable; "_rep" = REPEATED eigenvalues (multiplicity 2-3) with eigenspaces in general position; "kronsq" = S (x) S
        cls = rnd.choice(["psd", "psd", "gen", "psd0", "psd_rep", "sa", "sa_rep", "sa_rep", "gen_rep", "kronsq",
                          "kron3", "kron3", "ksum3", "prod3", "psd_blocks", "shift_sing", "shift_sing", "psd_graded", "psd_graded", "psd_graded", "csa", "csa"])
        if cls == "psd_graded" and fn.domain != "any":
            fn = rnd.choice([FN("exp"), FN("user"), FN("cuser")])      # functions regular at 0 (log, sqrt, negative powers amplify the Krylov tolerance)
        if cls == "prod3" and fn.domain != "any":
            cls = "kron3"
        if cls == "psd0" and fn.domain != "any":
            cls = "psd"
        if cls == "kronsq" and fn.name in ("pow", "sqrt", "isqrt"):
            cls = "psd_rep"       # with an algorithm argument pow(Kronecker) is the factor-wise rule: covered by stream A
        alg = rnd.choice(["Auto", "none", "Eig", "Eig", "Eigh", "Lanczos", "Lanczos", "Arnoldi", "Arnoldi"])
        if alg in ("Eigh", "Lanczos") and cls.startswith("gen"):
            cls = "sa_rep" if cls.endswith("rep") else "psd"
        if alg in ("Eigh", "Lanczos") and cls == "prod3":
            cls = "kron3"
        if alg in ("Lanczos", "Arnoldi") and ((cls == "kron3" and fn.name in ("pow", "sqrt", "isqrt")) or (cls == "ksum3" and fn.name == "exp")):
            alg = "Auto"      # with an algorithm argument these take the factor-wise rule: the Krylov routine would run per factor (stream A covers the rule)
        if cls == "psd0" and alg in ("Lanczos", "Arnoldi") and "krylov_mask_kills_f0" in present and complex(fn.np(np.array([0.0]))[0]) != 0:
            bump(skipped, "krylov_mask_kills_f0")
            cls = "psd"
        if cls == "csa":
            # c * SelfAdjoint(H) with a COMPLEX scalar c: a normal, non-Hermitian operator. The product keeps H's SelfAdjoint annotation
            # (recorded under C05, scalar_keeps_annotations); only rules that consume isa(SelfAdjoint) are misled by it - the explicit
            # Eigh / Lanczos algorithms - while Auto keys on PSD and must take the general rule
            cplx, dt = True, "complex128"
            if alg in ("Eigh", "Lanczos") and steer_scalar_keeps_sa:
                bump(skipped, "c05_scalar_keeps_annotations")
                alg = rnd.choice(["Auto", "Auto", "none", "Eig", "Arnoldi"])
        if cls == "psd_graded" and rnd.random() < 0.6:
            alg = "Lanczos"
        if cls == "psd_graded" and alg == "Arnoldi" and steer_arnoldi_gap:
            # recorded under C15 (arnoldi_stop_threshold_gap): on a graded spectrum arnoldi stops with a unit basis column whose Hessenberg
            # column was never computed; the zero-eigenvalue mask then drops that component
            bump(skipped, "c15_arnoldi_stop_threshold_gap")
            alg = "Lanczos"
        herm = not (cls.startswith("gen") or cls == "csa")
        comp_build = None
        if cls in ("kron3", "ksum3", "prod3"):
            comp_build, M, lam, n = composite(rnd, g, cls, cplx)
        elif cls == "csa":
            n = rnd.randint(2, 5)
            lamH = np.array(L.separated(rnd, n, lo=0.4, gap=0.3, grow=1.3)) * (np.array([rnd.choice([-1, 1]) for _ in range(n)]) if fn.domain == "any" else 1)
            Qh = L.rand_unitary(g, n, True)
            Hm = (Qh * lamH) @ Qh.conj().T
            Hm = (Hm + Hm.conj().T) / 2
            cval = rnd.uniform(0.5, 2.0) * np.exp(1j * (rnd.uniform(-3.1, 3.1) if fn.domain == "any" else rnd.choice([-1, 1]) * rnd.uniform(0.3, 1.2)))
            M = cval * Hm
            lam = None

            def comp_build(dt_, Hm=Hm, cval=cval):
                Hop = cola.SelfAdjoint(ops.Dense(Hm.astype(np.complex128)))
                return (complex(cval) * Hop) if rnd.random() < 0.5 else (Hop * complex(cval))
        elif cls == "shift_sing":
            # lazily assembled positive definite operator B + c I whose part B is SINGULAR (low-rank Gram matrix, path-graph Laplacian,
            # block diagonal with a zero block): the sum has no zero eigenvalue although B has
            n = rnd.randint(3, 6)
            kindB = rnd.choice(["gram", "laplacian", "zero_block"])
            if kindB == "gram":
                G_ = g.standard_normal((n, rnd.randint(1, n - 1))) + (1j * g.standard_normal((n, 1)) if cplx else 0)
                Bm = G_ @ G_.conj().T
            elif kindB == "laplacian":
                Bm = 2 * np.eye(n) - np.eye(n, k=1) - np.eye(n, k=-1)
                Bm[0, 0] = Bm[-1, -1] = 1.0
                Bm = Bm * rnd.uniform(0.5, 2.0)
            else:
                q_ = rnd.randint(1, n - 1)
                Qb = L.rand_unitary(g, q_, cplx)
                Bb = (Qb * np.array(L.separated(rnd, q_, lo=0.5))) @ Qb.conj().T
                Bm = sl.block_diag((Bb + Bb.conj().T) / 2, np.zeros((n - q_, n - q_)))
            cshift = rnd.uniform(0.4, 2.0)
            Bm = Bm.astype(np.complex128) if cplx else np.real(Bm)
            M = Bm + cshift * np.eye(n)
            lam = None
            sform = rnd.choice(["scalarmul", "c_times_I", "I_times_c_first"])

            def comp_build(dt_, Bm=Bm, cshift=cshift, sform=sform, n=n):
                ndt = getattr(np, dt_)
                Bop = ops.Dense(Bm.astype(ndt))
                Iop = ops.ScalarMul(cshift, (n, n), ndt) if sform == "scalarmul" else cshift * ops.Identity((n, n), ndt)
                return cola.PSD((Iop + Bop) if sform == "I_times_c_first" else (Bop + Iop))
        elif cls == "psd_blocks":
            # two decoupled Hermitian blocks: basis vectors and block-supported operand columns have a small Krylov grade
            n1, n2 = rnd.randint(1, 3), rnd.randint(2, 3)
            n = n1 + n2
            lam = np.array(sorted(L.separated(rnd, n, lo=0.3, gap=0.25, grow=1.3)))
            rnd.shuffle(lam)
            Q1, Q2 = L.rand_unitary(g, n1, cplx), L.rand_unitary(g, n2, cplx)
            B1, B2 = (Q1 * lam[:n1]) @ Q1.conj().T, (Q2 * lam[n1:]) @ Q2.conj().T
            M = sl.block_diag((B1 + B1.conj().T) / 2, (B2 + B2.conj().T) / 2)
        elif cls == "kronsq":
            q = rnd.choice([2, 2, 3])
            n = q * q
            lam_s = np.array(sorted(L.separated(rnd, q, lo=0.5, gap=0.3, grow=1.3)))
            Qs = L.rand_unitary(g, q, cplx)
            Sq = (Qs * lam_s) @ Qs.conj().T
            Sq = (Sq + Sq.conj().T) / 2
            M = np.kron(Sq, Sq)
            lam = np.kron(lam_s, lam_s)
        else:
            if cls.endswith("rep"):
                n = max(n, 3)
                nd = max(1, n - rnd.randint(1, 2))            # number of distinct eigenvalues
                if herm:
                    vals = np.array(L.separated(rnd, nd, lo=0.4, gap=0.3, grow=1.3))
                    if cls == "sa_rep" and fn.domain == "any":
                        vals = vals * np.array([rnd.choice([-1, 1]) for _ in range(nd)])
                else:
                    vals = spectrum(rnd, nd, fn.domain, cplx)
                    for _ in range(50):
                        if nd == 1 or min(abs(a - b) for i, a in enumerate(vals) for b in vals[i + 1:]) > 0.3:
                            break
                        vals = spectrum(rnd, nd, fn.domain, cplx)
                lam = np.array(list(vals) + [vals[rnd.randrange(nd)] for _ in range(n - nd)])
                rnd.shuffle(lam)
            elif cls == "psd_graded":
                # graded spectrum: smallest / largest eigenvalue between 1e-3 and 1e-12 (genuine eigenvalues far below tol * |lambda|_max)
                n = max(n, 3)
                ratio = 10.0 ** (-rnd.uniform(3, 12))
                lam = np.array(sorted([ratio ** rnd.random() for _ in range(n - 2)] + [ratio, 1.0])) * 10.0 ** rnd.uniform(-1, 1)
            elif herm:
                lam = np.array(sorted(L.separated(rnd, n, lo=0.3, gap=0.25, grow=1.3)))
                if cls == "psd0":
                    lam[0] = 0.0
                if cls == "sa" and fn.domain == "any":
                    lam = lam * np.array([rnd.choice([-1, 1]) for _ in range(n)])
            else:
                lam = spectrum(rnd, n, fn.domain, cplx)
            if herm:
                Q = L.rand_unitary(g, n, cplx)
                M = (Q * lam) @ Q.conj().T
                M = (M + M.conj().T) / 2
            else:
                S = L.well_cond(g, n, cplx, 3.0)
                M = S @ np.diag(lam) @ np.linalg.inv(S)
        if not cplx:
            M = M.real
        M = M.astype(getattr(np, dt))
        kw = {}
        cap = None
        if alg in ("Lanczos", "Arnoldi"):
            cap = rnd.choice(["at", "above", "default", "below"])
            if alg == "Arnoldi" and cap == "default" and rnd.random() < 0.8:
                cap = "above"     # the default pads to 1000 columns: slow, sampled rarely
            if cls == "psd_graded" and cap == "below":
                cap = "at"
            mi = dict(at=n, above=n + rnd.randint(1, 3), default=None, below=max(1, n - 1))[cap]
            if mi is not None:
                kw["max_iters"] = mi
            if cls == "psd_graded":
                tk = rnd.choice([None, None, 1e-3, 1e-9])      # default and explicit tolerances
                if tk is not None:
                    kw["tol"] = tk
        algspec = None if alg == "none" else dict(cls=alg, kwargs=kw)
        isint, kk = (False, 0)
        if fn.name in ("pow", "sqrt", "isqrt"):
            isint, kk = int_case(fn.alpha)
        if fn.name == "pow" and isint and kk == -1 and alg in ("Lanczos", "Arnoldi") and "pow_minus1_krylov_kwargs" in present:
            bump(skipped, "pow_minus1_krylov_kwargs")
            continue
        if fn.name == "pow" and isint and kk == -1 and alg in ("Eigh", "Lanczos") and cls.startswith("sa") and "pow_minus1_requires_psd" in present:
            bump(skipped, "pow_minus1_requires_psd")
            continue
        if comp_build is not None:
            A = comp_build(dt)
        elif cls == "kronsq":
            Sd = Sq.astype(getattr(np, dt)) if cplx else Sq.real.astype(getattr(np, dt))
            A = cola.PSD(ops.Kronecker(cola.PSD(ops.Dense(Sd)), cola.PSD(ops.Dense(Sd))))
        else:
            A = ops.Dense(M)
            if cls.startswith("psd"):
                A = cola.PSD(A)
            elif cls.startswith("sa"):
                A = cola.SelfAdjoint(A)
        # operand: random columns / columns of mixed Krylov grade (basis vectors, eigenvectors, zero, duplicates next to generic ones) / the identity
        okind = rnd.choice(["random", "random", "mixed", "mixed", "identity"])
        randcol = lambda: g.standard_normal(n) + (1j * g.standard_normal(n) if cplx else 0)
        if okind == "random":
            k = rnd.choice([1, 2])
            cols = [randcol() for _ in range(k)]
        elif okind == "identity":
            cols = list(np.eye(n))
        else:
            evecs = (np.linalg.eigh(M.astype(np.complex128)) if herm else np.linalg.eig(M.astype(np.complex128)))[1]
            structured_zeros = cls in ("psd_blocks", "kron3", "ksum3", "prod3")
            pool = ["basis", "eigvec", "eigvec2", "zero", "dup", "random"]
            cols = [randcol()]
            for _ in range(rnd.randint(1, 3)):
                kd = rnd.choice(pool)
                if kd == "basis":
                    cols.append(np.eye(n)[:, rnd.randrange(n)] + 0 * cols[0])
                elif kd == "eigvec":
                    cols.append(evecs[:, rnd.randrange(n)] * (1 if cplx else 1))
                elif kd == "eigvec2":
                    cols.append(evecs[:, rnd.randrange(n)] + 0.5 * evecs[:, rnd.randrange(n)])
                elif kd == "zero":
                    cols.append(np.zeros(n) + 0 * cols[0])
                elif kd == "dup":
                    cols.append(cols[rnd.randrange(len(cols))].copy())
                else:
                    cols.append(randcol())
            if not cplx:
                cols = [np.real(c_) if np.abs(np.imag(c_)).max() < 1e-12 else None for c_ in cols]
                cols = [c_ for c_ in cols if c_ is not None]      # complex eigenvectors of a real operator are not real operands
            rnd.shuffle(cols)
        if alg == "Lanczos" and "lanczos_zero_operand_nan" in present:
            nz = [c_ for c_ in cols if np.abs(c_).max() > 0]
            if len(nz) < len(cols):
                bump(skipped, "lanczos_zero_operand_nan")
            cols = nz or [randcol()]
        if alg == "Lanczos" and "lanczos_batch_breakdown_nan" in present and len(cols) > 1:
            # exact exhaustion of one element: operand columns supported on an exactly decoupled part of the operator
            exact = lambda c_: (cls in ("psd_blocks", "kron3", "ksum3") and np.count_nonzero(c_) < n) or np.count_nonzero(M @ c_.astype(M.dtype) - (c_.conj() @ (M @ c_.astype(M.dtype))) / (c_.conj() @ c_) * c_) == 0
            keep = [c_ for c_ in cols if not exact(c_)]
            if len(keep) < len(cols):
                bump(skipped, "lanczos_batch_breakdown_nan")
            cols = keep or [randcol()]
        X = np.stack(cols, 1).astype(getattr(np, dt))
        if not cplx and rnd.random() < 0.3 and not (okind == "identity"):
            X = (X + 1j * g.standard_normal(X.shape)).astype(np.complex128) if rnd.random() < 0.7 else (1j * X).astype(np.complex128)
            okind = okind + "+complex_on_real"
        k = X.shape[1]
        case_js = dict(stream="C", M=M.tolist() if not cplx else [[str(x) for x in r] for r in M], cls=cls, dt=dt, alg=algspec, cap=cap, operand=okind,
                       X=X.tolist() if not cplx else [[str(x) for x in r] for r in X], **fn.js())
        evals += 1
        bump(hist, f"C:{fn.name}{'' if fn.alpha is None else fn.alpha}:{alg}" + (f":{cap}" if cap else ""))
        bump(hist, "C:class:" + cls + ":" + alg)
        bump(hist, "C:operand:" + okind + ":" + alg)
        distinct.add(core.digest(case_js))
        try:
            F = fn.cola(A, make_alg(algspec))
            Y = np.asarray(F @ X)
        except Exception as e:
            if "NumpyNotImplemented" in type(e).__name__:
                bump(unreachable, f"{fn.name}:{alg}")
                continue
            mism.append(dict(oracle_fail=True, case=case_js, got=f"{type(e).__name__}: {str(e)[:200]}", failed_clauses=["raised on an input the model accepts"]))
            continue
        D = M.astype(np.complex128)
        bad = []
        if okind == "identity" and X.shape == (n, n) and np.array_equal(X, np.eye(n)):
            try:
                Fd = np.asarray(F.to_dense())
                if not (Fd.shape == Y.shape and np.abs(Fd - Y).max() <= 1e-9 * max(1.0, float(np.abs(Y).max()))):
                    bad.append("f(A).to_dense() differs from f(A) @ I")
            except Exception as e:
                bad.append(f"f(A).to_dense() raised {type(e).__name__}: {str(e)[:120]}")
        shortcut = fn.name == "pow" and isint and (kk == 0 or 0 < kk < 10 or kk == -1)
        krylov = alg in ("Lanczos", "Arnoldi") and not shortcut
        complete = not (krylov and cap == "below")
        inv_krylov = shortcut and kk == -1 and alg in ("Lanczos", "Arnoldi")     # inv(A, CG | GMRES) with the algorithm's tol / max_iters
        if inv_krylov and cap == "below":
            complete = False      # a truncated iterative solve: its accuracy is C06 / C12 / C13's subject
        if complete:
            ref = fn.ref(D) @ X.astype(np.complex128)
            sc = max(1.0, float(np.abs(ref).max()))
            err = float(np.abs(Y - ref).max())
            tolC = 1e-4 if inv_krylov else (1e-8 if not krylov else 1e-7)
            if krylov and cls == "psd_graded":
                tolC = max(1e-7, 10 * kw.get("tol", 1e-6))      # the Krylov run may stop at its tolerance: accuracy of that order
            if not err <= tolC * sc * max(1.0, float(np.linalg.cond(D)) if (fn.domain != "any") else 1.0):
                bad.append(f"|F@X - f(A)@X| = {err:.3g} (scale {sc:.3g})")
            if fn.name == "sqrt" and not krylov:
                YY = np.asarray(F @ np.asarray(F @ X))
                e2 = float(np.abs(YY - D @ X).max())
                if not (e2 <= 1e-8 * max(1.0, float(np.abs(D @ X).max()))):
                    bad.append(f"sqrt(A) applied twice differs from A by {e2:.3g}")
        if krylov and not (alg == "Arnoldi" and cap == "default"):
            # model of the plumbing, with the factorisation and the projected eigendecomposition as oracle data
            try:
                xnp = A.xnp
                akw = make_alg(algspec).__dict__.copy()
                akw.pop("start_vector", None)
                eps = float(np.finfo(np.float64).eps)
                if alg == "Lanczos":
                    Qb, Tb, _ = lanczos(A, X, **akw)
                    th, P = xnp.eigh(xnp.vmap(Tb.__class__.to_dense)(Tb))
                    Qd = xnp.vmap(Qb.__class__.to_dense)(Qb)
                    pi0 = np.conj(P)[:, 0, :]
                else:
                    Qa, Ha, _ = arnoldi(A=A, start_vector=X, **akw)
                    Qd, Hd = Qa.to_dense()[:, :, :-1], Ha.to_dense()[:, :-1]
                    th, P = xnp.eig(Hd)
                    e0 = xnp.canonical(0, (P.shape[1], X.shape[-1]), dtype=P.dtype, device=None)
                    pi0 = xnp.solve(P, e0.T[..., None]).squeeze(-1)
                for b in range(k):
                    thr = 10 * eps * float(np.abs(th[b]).max())
                    fv = fn.np(th[b])
                    tab = "[" + ";".join(f"({L.qic(complex(x))},{L.qic(complex(y))})" for x, y in zip(th[b], fv) if np.isfinite(complex(y))) + "]"
                    nrm = float(np.linalg.norm(X[:, b]))
                    sc = max(1.0, float(np.abs(Y[:, b]).max()))
                    m_ = Qd[b].shape[1]
                    cnd = min(float(np.linalg.cond(P[b])), 1e4)
                    kterms.append(f"mkkcase {n} {m_} {L.qmat(Qd[b])} {L.qmat(P[b])} {L.qvec(th[b])} {L.qvec(pi0[b])} {L.qic(complex(nrm))} "
                                  f"{L.qc_lit(thr ** 2)} {tab} {L.qc_lit((1e-9 * sc * cnd * n) ** 2)} {L.qvec(Y[:, b])}")
                    kmeta.append(dict(case=dict(case_js, column=b), bad=[], got={}))
            except Exception as e:
                mism.append(dict(oracle_fail=False, case=case_js, harness_error=f"Krylov oracle data: {type(e).__name__}: {e}"))
        condV = 1.0
        if not krylov and not shortcut and not (alg == "Eigh" or (alg in ("Auto", "none") and (cls.startswith("psd") or cls in ("kronsq", "kron3", "ksum3", "shift_sing")))):
            condV = float(np.linalg.cond(np.linalg.eig(np.asarray(A.to_dense()))[1]))      # the general eig rule: conditioning of LAPACK's eigenbasis
            if condV > 1e4:
                bump(skipped, "ill_conditioned_eigenbasis")
                continue
            if bad and condV > 10 and complete:
                bad = [b for b in bad if not b.startswith("|F@X")] + ([f"|F@X - f(A)@X| = {err:.3g} (cond(V) {condV:.3g})"] if not err <= tolC * sc * condV * 10 else [])
        if bad:
            mism.append(dict(oracle_fail=True, case=case_js, failed_clauses=bad, got=dict(FX=str(Y.tolist())[:300])))
        elif not krylov and not shortcut:
            # dense rule at the root = a ULeaf: reuse the rational model
            rule = "Auto" if alg in ("Auto", "none") else alg
            orc = Oracles(fn, dt, rule, present)
            u = dict(k="Leaf", M=M, psd=cls.startswith("psd") or cls in ("kronsq", "kron3", "ksum3", "shift_sing"))
            try:
                term = ucoq(u, dt, orc, False)
            except Exception as e:
                mism.append(dict(oracle_fail=False, case=case_js, harness_error=f"oracle evaluation failed: {type(e).__name__}: {e}"))
                continue
            if orc.hyp_fail:
                mism.append(dict(oracle_fail=False, case=case_js, failed_clauses=["an eigen-oracle violates its specification: " + "; ".join(orc.hyp_fail)]))
                continue
            tab = "[" + ";".join(f"({a},{b})" for a, b in orc.points.items()) + "]"
            sc = max(1.0, float(np.abs(Y).max()))
            if orc.cond > 1e4:
                bump(skipped, "ill_conditioned_eigenbasis")
                continue
            uterms.append(f"mkucase {n} {term} (CUnary MGeneric) {tab} {k} {L.qmat(X)} {L.qc_lit((1e-9 * sc * min(orc.cond, 1e4) * n) ** 2)} {L.qmat(Y)}")
            auterms.extend(orc.auto_obs)
            umeta.append(dict(case=case_js, bad=[], got={}))

    # ---------------- D. large PSD operators under the Krylov rules: sizes / iteration counts beyond 100, 128, 256 (windows, periods, block sizes)
    for n in ([rnd.randint(101, 112), rnd.randint(126, 140), rnd.randint(200, 262)] + ([rnd.randint(101, 300) for _ in range(7)] if ctx.tier == "thorough" else [])):
        fn = rnd.choice([FN("exp"), FN("sqrt", 0.5), FN("user"), FN("log"), FN("pow", 2.5)])
        lam = np.sort(g.uniform(0.5, 3.0, n))
        Q = L.rand_unitary(g, n, False)
        M = (Q * lam) @ Q.T
        M = (M + M.T) / 2
        A = cola.PSD(ops.Dense(M))
        X = np.stack([g.standard_normal(n), g.standard_normal(n), Q[:, 0] + Q[:, 1], np.eye(n)[:, 3]], 1)
        ref = fn.ref(M.astype(np.complex128)) @ X
        for algspec in (dict(cls="Lanczos", kwargs={}), dict(cls="Lanczos", kwargs=dict(max_iters=n)), dict(cls="Arnoldi", kwargs=dict(max_iters=n + 5))):
            case_js = dict(stream="D", n=n, alg=algspec, spectrum="uniform in [0.5, 3], random orthogonal eigenbasis", **fn.js())
            evals += 1
            bump(hist, f"D:large:{algspec['cls']}:n>{100 if n <= 128 else (128 if n <= 256 else 256)}")
            distinct.add(core.digest(dict(case_js, m00=float(M[0, 0]))))
            try:
                Y = np.asarray(fn.cola(A, make_alg(algspec)) @ X)
            except Exception as e:
                mism.append(dict(oracle_fail=True, case=case_js, got=f"{type(e).__name__}: {str(e)[:200]}", failed_clauses=["raised on an input the model accepts"]))
                continue
            err = float(np.abs(Y - ref).max() / np.abs(ref).max())
            if not err <= 1e-7:
                mism.append(dict(oracle_fail=True, case=case_js, failed_clauses=[f"|F@X - f(A)@X| = {err:.3g} (relative)"], got=dict(FX=str(Y[:3].tolist())[:200])))

    # ---------------- in-Coq comparison
    fails = set()
    outs, shard = L.run_shards("c09_u", HEADER, "ucase", uterms, "Eval vm_compute in (failing_from check_ucase 0 cases).", shard=40)
    for si, (rc, out) in enumerate(outs):
        lst = L.parse_natlist(out) if rc == 0 else None
        if lst is None:
            mism.append(dict(oracle_fail=False, harness_error=f"Coq shard c09_u_{si}: rc={rc}\n{out[-1500:]}"))
            continue
        fails |= {si * shard + i for i in lst}
    for i, m in enumerate(umeta):
        if i in fails or m["bad"]:
            mism.append(dict(oracle_fail=bool(m["bad"]), case=m["case"], got=m["got"], failed_clauses=m["bad"], model_disagrees=(i in fails)))
    if auterms:
        outs, shard = L.run_shards("c09_a", HEADER, "aucase", auterms, "Eval vm_compute in (failing_from check_aucase 0 cases).", shard=400)
        for si, (rc, out) in enumerate(outs):
            lst = L.parse_natlist(out) if rc == 0 else None
            if lst is None or lst:
                mism.append(dict(oracle_fail=False, harness_error=f"Auto table: shard {si} rc={rc} failing={lst}\n{out[-800:]}"))
    kfails = set()
    if kterms:
        outs, shard = L.run_shards("c09_k", HEADER, "kcase", kterms, "Eval vm_compute in (failing_from check_kcase 0 cases).", shard=40)
        for si, (rc, out) in enumerate(outs):
            lst = L.parse_natlist(out) if rc == 0 else None
            if lst is None:
                mism.append(dict(oracle_fail=False, harness_error=f"Coq shard c09_k_{si}: rc={rc}\n{out[-1500:]}"))
                continue
            kfails |= {si * shard + i for i in lst}
    for i, m in enumerate(kmeta):
        if i in kfails:
            mism.append(dict(oracle_fail=False, case=m["case"], failed_clauses=[], model_disagrees=True))
    return dict(
        evaluations=evals, distinct_nontrivial=len(distinct),
        rule="A: annotated trees (Leaf/Diag/Ident/Scal under Transp/Adj/BlockDiag with multiplicities/Kronecker (pow)/KronSum (exp), depth<=3) x 9 functions x 11 exponents x "
             "{no alg, Auto, Eig, Eigh}: rational model with eigen-oracle data, action on 1-3 columns compared at 1e-9; B: integer powers on Gaussian-integer trees, exact; "
             "C: whole operators (PSD, singular PSD for exp, general right-half-plane, complex) x {Auto, Eig, Eigh, Lanczos, Arnoldi; caps below/at/above n, default}: scipy oracle at 1e-8 "
             "and the Krylov plumbing model with the factorisation as oracle data; distinct by case hash",
        samples=samples, mismatches=mism, findings=fnd,
        extra=dict(histogram=hist, skipped_spoiled_region=skipped, unary_cases_in_coq=len(uterms), krylov_columns_in_coq=len(kterms), auto_rule_observations=len(auterms),
                   unreachable_on_numpy_backend=unreachable, steering=dict(c15_arnoldi_stop_threshold_gap=steer_arnoldi_gap, c05_scalar_keeps_selfadjoint=steer_scalar_keeps_sa),
                   notes=["exp(KronSum) / pow(Kronecker) structural rules are only selected with an explicit alg argument (without it the dense rule runs): values agree, "
                          "recorded as a cost observation, not a finding", "LanczosUnary pops 'start_vector' from its stored kwargs at the first product: no effect on values"]))
