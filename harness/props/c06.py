"""C06 - inv / solve return the solution of the linear system on every dispatch path (DESIGN.md section 5, C06)."""
import re
import numpy as np
import shim  # noqa: F401
import trees as T
import core
import c06_lib as L

TRUSTED_BASE = [
    "Coq 8.16.1 kernel + vm_compute; theorems of coq/PropsC06.v closed under the global context, over any field with involution",
    "hand-written model coq/C06_Inv.v of cola/linalg/inverse/inv.py (rule selection incl. the Auto switch, structural rules, dense LU/Cholesky paths), tied to /repo by this correspondence check (result class structure, error class, dense inverse, inv@b, solve, b@inv)",
    "LAPACK (scipy.linalg.lu, numpy.linalg.cholesky, solve_triangular) and the CG/GMRES solvers are oracles: Section variables whose specifications are hypotheses of the theorems; "
    "their recorded results are checked numerically on every run; CG/GMRES correctness is properties C12/C13",
    "harness: c06_lib.py (generator, builder, reflection of cola objects into trees, LAPACK call recorder, Coq printers), trees.py, shim.py",
]
ASSUMPTIONS = [
    "Tier Q: payloads are Gaussian integers, the model is evaluated on exact Gaussian rationals, the implementation's float64/complex128 results must lie within 1e-8 (relative to the largest entry) of it; generator keeps cond_2 <= 1e3, n <= 12",
    "iterative paths (CG, GMRES, the large branch of Auto): the theorems cover them under the hypothesis that the solver is exact on the operator it is applied to (C12/C13); "
    "the check compares the returned operator structurally in Coq and its products by residual (<= 1e-4 relative) against numpy in Python; GMRES gets max_iters=n "
    "(the default max_iters=1000 costs ~10 s per right-hand side on a 4x4 operator and sits in the region of flag inv_gmres_padding_singular)",
    "annotation facts (isa PSD / Unitary / SelfAdjoint) of every node are read off the implementation's objects; their truth is property C05",
]
HEADER = ("From Coq Require Import ZArith QArith Qcanon List Bool Arith.\nFrom Core Require Import Base Kron Op Algebra FieldBase C06_Inv C06_Exec.\n"
          "Import ListNotations.\nOpen Scope nat_scope.\n")
ALGS = ["AAuto", "ALU", "AChol", "ACG", "AGMRES", "AOther"]
ERRCODE = dict(AmbiguousLookupError=1, AssertionError=2, NotFoundLookupError=3)
TOL = 1e-8
# (relative, absolute-per-unit-of-scale) tolerances of the in-Coq comparison against the exact rational value, and of the independent float oracle
TOLS = {False: dict(rel=1e-8, abs=1e-9, ora=1e-6, kappa=1e3), True: dict(rel=2e-4, abs=2e-4, ora=1e-3, kappa=30.0)}


def qsq(x):
    """Coq literal for the square of a tolerance (a rational)"""
    from fractions import Fraction
    f = Fraction(x).limit_denominator(10 ** 30) ** 2
    return f"Q2Qc ({f.numerator} # {f.denominator})" if f else "Q2Qc 0"


def mkalg(name, iters=50):
    """algorithm objects; GMRES gets an explicit max_iters: with the default max_iters=1000 every product with the lazy inverse builds a
    1000-step Arnoldi factorisation (about 10 s per right-hand side on a 4x4 operator)"""
    import cola
    from cola.linalg.algorithm_base import Algorithm
    if name == "AGMRES":
        return cola.linalg.GMRES(max_iters=iters)
    return dict(AAuto=cola.linalg.Auto, ALU=cola.linalg.LU, AChol=cola.linalg.Cholesky, ACG=cola.linalg.CG, AOther=Algorithm)[name]()


def findings():
    import cola
    from cola import ops
    from cola.linalg import inv
    out = []

    def probe(flag, what, fn, witness):
        try:
            present, got = fn()
        except Exception as e:
            present, got = True, f"raised {type(e).__name__}: {str(e)[:160]}"
        out.append(dict(flag=flag, present=bool(present), what=what, witness=witness, got=str(got)))
    S = np.array([[2., 1.], [1., 3.]])
    D = ops.Dense(S)

    def gmres_amb():
        B = inv(ops.Diagonal(np.array([2., 4.])), cola.linalg.GMRES())
        return not np.allclose(np.asarray(B.to_dense()), np.diag([.5, .25])), L.type_str(B)
    probe("inv_gmres_ambiguous", "inv(A, GMRES()) raises AmbiguousLookupError for every structured kind (Diagonal, Identity, ScalarMul, Permutation, Triangular, Kronecker, BlockDiag): "
          "the GMRES base rule has precedence 0 like the rules typed (<kind>, Algorithm)", gmres_amb, "inv(Diagonal([2.,4.]), GMRES())")

    def scal_device():
        B = inv(2. * D)
        return not np.allclose(np.asarray(B.to_dense()), np.linalg.inv(2 * S)), L.type_str(B)
    probe("scalarmul_device_cpu", "inv(c*A) raises 'device mismatch in Product': inv(ScalarMul) passes device=A.c.device ('cpu' under numpy>=2) while every other operator has device None",
          scal_device, "inv(2. * Dense([[2,1],[1,3]]))")

    def scal_annot():
        Q = np.array([[0., 1.], [1., 0.]])
        U2 = 2. * cola.Unitary(ops.Dense(Q))
        wrong = []
        for name in ALGS:
            try:
                B = inv(U2, mkalg(name))
                if not np.allclose(np.asarray(B.to_dense()), Q / 2):
                    wrong.append(name)
            except Exception:
                pass
        # a Sum of two negative multiples of a PSD operator is still annotated PSD: Auto picks Cholesky for a negative definite matrix
        N = (-2.) * cola.PSD(D) + (-2.) * cola.PSD(D)
        try:
            got = np.asarray(inv(N).to_dense())
            bad = not np.allclose(got, np.linalg.inv(-4 * S))
            got = got.tolist()
        except Exception as e:
            bad, got = True, f"raised {type(e).__name__}: {str(e)[:80]}"
        return bool(wrong) or bad, f"(-2*PSD(D) + -2*PSD(D)).isa(PSD)={N.isa(cola.PSD)}; inv -> {got}; 2*Unitary(Q): wrong inverse with {wrong}"
    probe("scalar_keeps_annotations", "a scalar multiple keeps the PSD/Unitary annotation whatever the scalar (C05): inv(-2*PSD(D) + -2*PSD(D)) takes the Cholesky path of Auto "
          "for a negative definite matrix and fails (LinAlgError / wrong inverse)", scal_annot,
          "inv((-2.)*PSD(D) + (-2.)*PSD(D)), D=Dense([[2,1],[1,3]])")

    def forwarded():
        K = cola.PSD(ops.Kronecker(cola.PSD(D), D))
        bad = []
        for name in ("AChol", "ACG"):
            try:
                B = inv(K, mkalg(name))
                if not np.allclose(np.asarray(B.to_dense()), np.linalg.inv(np.kron(S, S)), atol=1e-4):
                    bad.append(name + ": wrong")
            except AssertionError as e:
                bad.append(name + ": AssertionError " + str(e)[:60])
        return bool(bad), bad
    probe("inv_psd_alg_forwarded_to_factors", "inv(A, Cholesky()) / inv(A, CG()) on a PSD-declared Product/Kronecker/BlockDiag forwards the algorithm to the factors "
          "and raises AssertionError when a factor is not itself declared PSD", forwarded, "inv(PSD(Kronecker(PSD(D), D)), Cholesky()) with D=Dense([[2,1],[1,3]])")

    def gmres_padding():
        X = inv(ops.Transpose(ops.Identity((3, 3), np.float64)), cola.linalg.GMRES(max_iters=4))
        B = np.array([[1., 2.], [0., 1.], [3., 0.]])
        Y = np.asarray(X @ B)
        return not np.allclose(Y, B), Y.tolist()
    probe("inv_gmres_padding_singular", "inv(A, GMRES(max_iters > n)) @ b (in particular the default max_iters=1000) raises LinAlgError 'Singular matrix' once the Krylov space is exhausted "
          "(C13 flag arnoldi_padding seen through inv/solve)", gmres_padding, "inv(Transpose(Identity(3)), GMRES(max_iters=4)) @ [[1,2],[0,1],[3,0]]")

    def gmres_padding_c():
        b = np.array([2 - 1j, -1 - 2j, -3 - 1j, -2j, -1 + 2j])
        y = np.asarray(inv(ops.Dense(4 * np.eye(5, dtype=complex)), cola.linalg.GMRES(max_iters=50)) @ b)
        return not np.allclose(y, b / 4), y.tolist()
    probe("inv_gmres_padding_singular_complex", "inv(A, GMRES(max_iters >> n)) @ b still raises LinAlgError 'Singular matrix' for a complex operator whose Krylov space is exhausted "
          "after one step (the padding mask of gmres misses this case)", gmres_padding_c, "inv(Dense(4*eye(5,dtype=complex)), GMRES(max_iters=50)) @ [2-1j,-1-2j,-3-1j,-2j,-1+2j]")

    def gmres_breakdown():
        T3 = np.array([[2., 1., 0.], [1., 3., 1.], [0., 1., 4.]])
        b = np.array([1., 1 + np.sqrt(3), 2 + np.sqrt(3)])
        x = np.asarray(inv(ops.Dense(T3), cola.linalg.GMRES(max_iters=3, tol=1e-10)) @ b)
        res = float(np.linalg.norm(T3 @ x - b) / np.linalg.norm(b))
        return not res <= 1e-8, f"relative residual {res:.2e}"
    probe("inv_gmres_breakdown_continues", "inv(A, GMRES(max_iters <= n)) @ b misses the requested tolerance (or raises LinAlgError) when the Krylov space is exhausted before max_iters, "
          "e.g. an eigenvector right-hand side (C13 flag arnoldi_breakdown_continues seen through inv/solve)", gmres_breakdown,
          "inv(Dense([[2,1,0],[1,3,1],[0,1,4]]), GMRES(max_iters=3, tol=1e-10)) @ [1, 1+sqrt(3), 2+sqrt(3)]")

    def gmres_zero_rhs():
        X = inv(ops.Dense(np.diag([1., 2., 3.])), cola.linalg.GMRES(max_iters=3))
        Y = np.asarray(X @ np.array([[1., 0.], [1., 0.], [1., 0.]]))
        return not np.allclose(Y, np.array([[1., 0.], [.5, 0.], [1 / 3, 0.]])), Y.tolist()
    probe("inv_gmres_zero_rhs_nan", "inv(A, GMRES()) @ B returns NaN in every column of B that is zero (the residual is normalised by its norm; the solution of A x = 0 is 0)",
          gmres_zero_rhs, "inv(Dense(diag(1,2,3)), GMRES(max_iters=3)) @ [[1,0],[1,0],[1,0]]")

    def gmres_complex_rhs():
        T3 = np.array([[2., 1., 0.], [1., 3., 1.], [0., 1., 4.]])
        b = np.array([1 + 2j, 2 - 1j, 3j])
        x = np.asarray(cola.linalg.solve(ops.Dense(T3), b, cola.linalg.GMRES(max_iters=3)))
        res = float(np.linalg.norm(T3 @ x - b) / np.linalg.norm(b))
        return not res <= 1e-6, f"relative residual {res:.2e} (dtype {x.dtype})"
    probe("inv_gmres_complex_rhs_real_operator", "solve(A, b, GMRES()) with a real operator and a complex right-hand side silently discards the imaginary part of b "
          "(the Arnoldi basis is allocated in the operator's dtype; numpy emits a ComplexWarning) and returns a wrong complex solution; CG handles the same input correctly",
          gmres_complex_rhs, "solve(Dense([[2,1,0],[1,3,1],[0,1,4]]), [1+2j, 2-1j, 3j], GMRES(max_iters=3))")

    def cg_c64_zero():
        A = cola.PSD(ops.Dense(np.array([[4]], dtype=np.complex64)))
        x = np.asarray(cola.linalg.solve(A, np.array([[2, 0]], dtype=np.complex64), cola.linalg.CG()))
        return not np.allclose(x, [[0.5, 0.0]]), x.tolist()
    probe("inv_cg_complex64_zero_rhs_nan", "solve(A, B, CG()) in complex64 returns NaN in every column of B that is zero (float32, float64 and complex128 return 0); "
          "through Kronecker / BlockDiag factors and b @ inv(A) such columns arise by themselves", cg_c64_zero,
          "solve(PSD(Dense([[4]], complex64)), [[2, 0]], CG())")

    def x0_vector():
        T3 = np.array([[2., 1., 0.], [1., 3., 1.], [0., 1., 4.]])
        b = np.array([1., 2., 3.])
        out = []
        for name, alg in (("GMRES", cola.linalg.GMRES(x0=np.ones(3), max_iters=3)), ("CG", cola.linalg.CG(x0=np.ones(3)))):
            try:
                x = np.asarray(cola.linalg.solve(cola.PSD(ops.Dense(T3)), b, alg))
                if not (x.shape == (3,) and np.allclose(T3 @ x, b, atol=1e-4)):
                    out.append(name + ": wrong")
            except Exception as e:
                out.append(f"{name}: {type(e).__name__}")
        return bool(out), out
    probe("inv_iterative_x0_vector", "solve(A, b, CG(x0=v)) / inv(A, GMRES(x0=v)) @ b with a vector b and the documented vector-shaped initial guess raise "
          "(AssertionError / ValueError): the lazy inverse always hands an (n,1) right-hand side to the solver, which then broadcasts it against the (n,) guess",
          x0_vector, "solve(PSD(Dense([[2,1,0],[1,3,1],[0,1,4]])), [1,2,3], CG(x0=ones(3)))  and the same with GMRES(x0=ones(3), max_iters=3)")

    def unitary_dead():
        Q = np.array([[0., 1.], [1., 0.]])
        ts = [L.type_str(inv(cola.Unitary(ops.Dense(Q)), mkalg(n))) for n in ("AAuto", "ALU", "AGMRES")]
        return False, "rule (LinearOperator[Unitary], Algorithm) never selected for Auto/LU/GMRES (more general than every algorithm rule): " + str(ts)
    probe("inv_unitary_rule_unreachable_info", "informational: the Unitary -> adjoint rule is shadowed by the algorithm rules (no effect on correctness)", unitary_dead,
          "inv(Unitary(Dense(Q)), Auto())")
    return out


def c01_present():
    """flags of C01 / C03 that restrict how trees may be built (Concatenated, Sparse, A @ Identity)"""
    from props import c01, c03
    return {f["flag"] for f in c01.findings() + c03.findings() if f["present"]}


def gen_trees(ctx, n_trees, present):
    r = ctx.rng
    g = L.GenInv(r, present)
    out = []
    tries = 0
    dmax = ctx.budget(3, 4)
    while len(out) < n_trees and tries < 40 * n_trees:
        tries += 1
        cplx = r.random() < 0.4
        single = r.random() < 0.25
        g.single, g.kappa = single, TOLS[single]["kappa"]
        n = r.choice([1, 2, 2, 3, 3, 4, 4, 5, 6])
        fam = r.choice(["inv", "inv", "inv", "psd", "psd", "psd_undecl", "uni", "graded"])
        dep = r.randint(1, dmax) if r.random() < 0.8 else 0
        if fam == "graded":   # data over many orders of magnitude (entry-wise exact kinds only)
            t = g.graded_tree(n, min(dep, 2), cplx)
        elif fam == "inv":
            t = g.tree(n, dep, cplx)
        elif fam == "psd":
            t = g.psd_tree(n, max(dep - 1, 0), cplx, decl=True)
            if r.random() < 0.4 and t["k"] not in ("Ident",):
                t["decl"] = "PSD"
        elif fam == "psd_undecl":
            t = g.psd_tree(n, max(dep - 1, 0), cplx, decl=False)
        else:
            t = g.uni_tree(n, min(dep, 2), cplx)
        if "scalarmul_device_cpu" in present and L.has_scal_below_prod(t):
            continue
        D = T.dense(t)
        if fam == "graded":
            if L.gperm_inv(D) is None:
                continue
        elif D.shape[0] != D.shape[1] or not np.all(np.isfinite(D)) or np.linalg.matrix_rank(D) < D.shape[0] or np.linalg.cond(D) > g.kappa:
            continue
        if "concat_assert_wrong_axis" in present:
            pass  # GenInv.tree builds equal-height parts only
        out.append(dict(tree=t, fam=fam, cplx=cplx, single=single, present=present))
    return out


def facts_true(t):
    """are the annotations the implementation reports on every node true? (independent numpy check; their truth is property C05)"""
    f = t.get("facts", {})
    if f.get("psd") or f.get("uni"):
        D = T.dense(t)
        if D.shape[0] != D.shape[1]:
            return False
        if f.get("psd") and not (np.allclose(D, D.conj().T) and np.linalg.eigvalsh((D + D.conj().T) / 2).min() > -1e-9):
            return False
        if f.get("uni") and not np.allclose(D @ D.conj().T, np.eye(D.shape[0])):
            return False
    return all(facts_true(x) for x in L.subs(t))


def admissible(alg, facts):
    if alg in ("AAuto", "ALU", "AGMRES"):
        return True
    if alg in ("AChol", "ACG"):
        return bool(facts.get("psd"))
    return False


def run_impl(case, rnd):
    """all observables of one tree: returns (reflected tree, per-alg observations)"""
    import cola
    from cola.linalg import inv, solve
    A = L.build(case["tree"])
    t = L.reflect(A)
    n = A.shape[0]
    Dn = T.dense(t)
    Ad = np.asarray(A.to_dense())
    if Ad.shape != Dn.shape or not np.array_equal(Ad.astype(complex), Dn):
        raise RuntimeError("reflection self-test failed: to_dense of the built operator differs from the dense oracle of its reflected tree")
    cplx = case["cplx"]
    k = rnd.choice([1, 2, 3])
    Bg = [[[rnd.randint(-3, 3), rnd.randint(-2, 2) if cplx else 0] for _ in range(k)] for _ in range(n)]
    BLg = [[[rnd.randint(-3, 3), rnd.randint(-2, 2) if cplx else 0] for _ in range(n)] for _ in range(k)]
    if "inv_gmres_zero_rhs_nan" in case.get("present", ()):   # keep every right-hand-side column / left-hand-side row non-zero
        for j in range(k):
            if all(Bg[i][j] == [0, 0] for i in range(n)):
                Bg[rnd.randrange(n)][j] = [1, 0]
            if all(v == [0, 0] for v in BLg[j]):
                BLg[j][rnd.randrange(n)] = [1, 0]
    single = case.get("single", False)
    dt = (L.C64 if cplx else L.F32) if single else (L.C128 if cplx else L.F64)
    rhs_cplx = (not cplx) and rnd.random() < 0.15    # a complex right-hand side for a real operator
    if rhs_cplx:
        Bg = [[[v[0], rnd.randint(-2, 2)] for v in row] for row in Bg]
        BLg = [[[v[0], rnd.randint(-2, 2)] for v in row] for row in BLg]
        dt = L.C64 if single else L.C128
    B = T.arr(Bg, dt)
    BL = T.arr(BLg, dt)
    obs = {}
    # how Auto is passed: an Auto() object, the default argument (alg omitted), or Auto(**kwargs) (the kwargs only matter on the large branch)
    auto_variant = rnd.choice(["object", "omitted", "kwargs"])

    def call_inv(alg):
        if alg == "AAuto" and auto_variant == "omitted":
            return inv(A)
        if alg == "AAuto" and auto_variant == "kwargs":
            return inv(A, cola.linalg.Auto(tol=1e-3, max_iters=7, pbar=False))
        return inv(A, mkalg(alg, it))

    def call_solve(alg, rhs):
        if alg == "AAuto" and auto_variant == "omitted":
            return solve(A, rhs)
        if alg == "AAuto" and auto_variant == "kwargs":
            return solve(A, rhs, cola.linalg.Auto(tol=1e-3, max_iters=7, pbar=False))
        return solve(A, rhs, mkalg(alg, it))
    it = n if {"inv_gmres_padding_singular", "inv_gmres_padding_singular_complex"} & set(case.get("present", ())) else 50
    for alg in ALGS:
        o = dict(alg=alg, perr={})
        with L.Recorder() as rec:
            try:
                X = call_inv(alg)
                o["type"] = L.type_str(X)
                o["rty"] = L.rty(X)
                o["ok"] = True
            except Exception as e:
                o["ok"] = False
                o["err"] = type(e).__name__
                o["msg"] = str(e)[:160]
            if o["ok"]:
                for name, fn in (("dense", lambda: X.to_dense()), ("res", lambda: X @ B), ("res1", lambda: X @ B[:, 0]),
                                 ("solve", lambda: call_solve(alg, B)), ("solve1", lambda: call_solve(alg, B[:, 0])),
                                 ("resl", lambda: BL @ X), ("resl1", lambda: BL[0] @ X)):
                    try:
                        with np.errstate(all="ignore"):
                            o[name] = np.asarray(fn())
                    except Exception as e:
                        o["perr"][name] = f"{type(e).__name__}: {str(e)[:100]}"
                if o["perr"] and "TIter" not in o["rty"]:
                    o["ok"] = False
                    o["err"] = "product:" + sorted(o["perr"].values())[0].split(":")[0]
                    o["msg"] = str(o["perr"])[:200]
        # LAPACK calls of the first inv(...) only are needed by the model; duplicates are harmless (table lookup by input matrix)
        o["lu"], o["chol"] = rec.lu, rec.chol
        obs[alg] = o
    return t, dict(k=k, B=Bg, BL=BLg, Bnp=B, BLnp=BL, dense=Dn, single=single, graded=(case.get("fam") == "graded"), auto_variant=auto_variant,
                   rhs_cplx=rhs_cplx, op_dtype=np.dtype(A.dtype)), obs


def coq_case(t, io, o, flag_amb, flag_fwd=True):
    n = T.shape(t)[0]
    k = io["k"]
    direct = o.get("ok") and "TIter" not in o["rty"]
    # oracle tables handed to the model: the exact rational factors for the pivot order LAPACK chose (the float factors are
    # checked to lie within 1e-10 of them); Cholesky factors only when they are exact (perfect squares)
    num = True
    lus, chs = [], []
    tl = TOLS[bool(io.get("single"))]
    gate = 1e-10 if not io.get("single") else 1e-4
    for a, (p, Lm, U) in o["lu"]:
        ex = L.lu_rational(a, p) if a.shape[0] == a.shape[1] and a.shape[0] <= 16 else None
        if ex is None or not (np.abs(L.cq_to_np(ex[0]) - Lm).max() <= gate * max(1, np.abs(Lm).max()) and np.abs(L.cq_to_np(ex[1]) - U).max() <= gate * max(1, np.abs(U).max())):
            num = False
            continue
        lus.append(f"({L.qmat(a)}, ({L.nlist(p)}, {L.qmat(ex[0])}, {L.qmat(ex[1])}))")
    for a, Lm in o["chol"]:
        if a.shape[0] <= 16 and L.chol_exact(a, Lm):
            chs.append(f"({L.qmat(a)}, {L.qmat(Lm)})")
        else:
            num = False
    lu = "[" + ";".join(lus) + "]"
    ch = "[" + ";".join(chs) + "]"
    o["num_in_coq"] = bool(direct and num)
    empty = "[]"
    return ("{| ce := " + L.coq_tree(t) + "; ca := " + L.coq_atree(t) + f"; calg := {o['alg']}; cn := {n}; ck := {k}; clu := {lu}; cchol := {ch}; "
            f"cnum := {'true' if num else 'false'}; cfwd := {'true' if flag_fwd else 'false'}; cflag := {'true' if flag_amb else 'false'}; cerr := {0 if o.get('ok') else ERRCODE.get(o.get('err'), 9)}; crty := {o['rty'] if o.get('ok') else 'TOp 0'}; "
            f"cB := {L.qmat_g(io['B'])}; cBL := {L.qmat_g(io['BL'])}; "
            f"cdense := {L.qmat(o['dense']) if direct else empty}; cres := {L.qmat(o['res']) if direct else empty}; cresl := {L.qmat(o['resl']) if direct else empty}; "
            f"ctol2 := {qsq(tl['rel'])}; cabs2 := {'Q2Qc 0' if io.get('graded') else qsq(tl['abs'])} |}}")


def oracle(t, io, o, present):
    """independent check of the property on the implementation's output (plain numpy); returns (failed clauses, attributed flag)"""
    alg = o["alg"]
    facts = t.get("facts", {})
    if not admissible(alg, facts):
        return [], None
    D = io["dense"]
    n = D.shape[0]
    if not o.get("ok"):
        if alg == "AGMRES" and o["err"] == "AmbiguousLookupError" and "inv_gmres_ambiguous" in present:
            return ["raised " + o["err"]], "inv_gmres_ambiguous"
        if alg in ("AChol", "ACG") and o["err"] == "AssertionError" and "PSD" in o.get("msg", "") and "inv_psd_alg_forwarded_to_factors" in present and t["k"] in ("Prod", "Kron", "BDiag"):
            return ["raised " + o["err"]], "inv_psd_alg_forwarded_to_factors"
        return ["raised " + o["err"] + ": " + o.get("msg", "")], None
    single = bool(io.get("single"))
    tl = TOLS[single]
    B, BL = io["Bnp"].astype(complex), io["BLnp"].astype(complex)
    iterative = "TIter" in o["rty"]
    bad = []
    if io.get("graded") and not iterative:
        # widely graded data: exact reference (the matrix is a generalised permutation matrix), entry-wise relative comparison
        ref = L.gperm_inv(D)
        rel = 1e-4 if single else 1e-12
        for name, X, want in (("inv(A).to_dense()", o["dense"], ref), ("inv@b", o["res"], ref @ B), ("solve", o["solve"], ref @ B), ("b@inv", o["resl"], BL @ ref),
                              ("inv@b 1-D", o["res1"], (ref @ B)[:, 0]), ("solve 1-D", o["solve1"], (ref @ B)[:, 0]), ("b@inv 1-D", o["resl1"], (BL @ ref)[0])):
            if X.shape != want.shape or not np.all(np.abs(X - want) <= rel * np.abs(want)):
                bad.append(name + " (entry-wise)")
        return bad, None
    ref = np.linalg.inv(D)
    sc = max(1.0, np.abs(ref).max())
    if iterative:
        # the requested tolerance: relative residual (CG/GMRES default tol 1e-6), margin 100x
        for name, e in sorted(o["perr"].items()):
            bad.append(f"{name} raised {e}")
        for name, rhs in (("res", B), ("solve", B)):
            if name in o:
                res = np.linalg.norm(D @ o[name] - rhs) / max(np.linalg.norm(rhs), 1e-300)
                if not res <= 1e-4:
                    bad.append(f"{name}: relative residual {res:.2e}")
        if "resl" in o:
            res = np.linalg.norm(o["resl"] @ D - BL) / max(np.linalg.norm(BL), 1e-300)
            if not res <= 1e-4:
                bad.append(f"b@inv: relative residual {res:.2e}")
        if "dense" in o and not np.abs(o["dense"] - ref).max() <= 1e-3 * sc * n:
            bad.append("to_dense of the iterative inverse")
        for a, b_ in (("res1", "res"), ("solve1", "solve")):
            if a in o and b_ in o and not np.abs(o[a] - o[b_][:, 0]).max() <= 1e-3 * max(1.0, np.abs(o[b_]).max()):
                bad.append(a)
        if bad and "TIterCG" in o["rty"] and single and any("nan" in b_ for b_ in bad) and "inv_cg_complex64_zero_rhs_nan" in present:
            return bad, "inv_cg_complex64_zero_rhs_nan"
        if bad and "TIterGMRES" in o["rty"] and io.get("rhs_cplx") and "inv_gmres_complex_rhs_real_operator" in present:
            return bad, "inv_gmres_complex_rhs_real_operator"
        if bad and "TIterGMRES" in o["rty"]:
            nan = any("nan" in b_ for b_ in bad)
            for fl in (("inv_gmres_zero_rhs_nan",) if nan else ()) + ("inv_gmres_padding_singular", "inv_gmres_padding_singular_complex", "inv_gmres_breakdown_continues"):
                if fl in present:
                    return bad, fl
        return bad, None
    tol = tl["ora"]   # the Coq comparison is tighter (against the exact value); this independent float oracle is itself rounded
    if o["dense"].shape != ref.shape or not np.abs(o["dense"] - ref).max() <= tol * sc:
        bad.append("inv(A).to_dense()")
    for name, X, want in (("inv@b", o["res"], ref @ B), ("solve", o["solve"], ref @ B), ("b@inv", o["resl"], BL @ ref)):
        if X.shape != want.shape or not np.abs(X - want).max() <= tol * max(1.0, np.abs(want).max()):
            bad.append(name)
    # 1-D right-hand sides and solve == inv @ b
    for name, v, M in (("inv@b 1-D", o["res1"], o["res"][:, 0]), ("solve 1-D", o["solve1"], o["solve"][:, 0]), ("b@inv 1-D", o["resl1"], o["resl"][0])):
        if v.shape != M.shape or not np.abs(v - M).max() <= (1e-4 if single else 1e-10) * max(1.0, np.abs(M).max()):
            bad.append(name)
    if not np.array_equal(o["res"], o["solve"]):
        bad.append("solve(A,b) differs from inv(A)@b")
    want_dt = np.result_type(io["Bnp"].dtype)
    if o["dense"].dtype != io["op_dtype"]:
        bad.append(f"dtype of dense: {o['dense'].dtype} instead of {io['op_dtype']}")
    for name in ("res", "solve", "resl"):
        if o[name].dtype != want_dt:
            bad.append(f"dtype of {name}: {o[name].dtype} instead of {want_dt}")
    return bad, None


def kwargs_stream(ctx, n_cases, present):
    """the optional arguments of the iterative algorithm objects through inv / solve: initial guess x0 (none, zero, rough, accurate, exact; real and
    complex; vector and several columns), tolerance, iteration cap, preconditioner.  Checked by the residual the property promises (independent numpy oracle);
    the Coq model has nothing to add here (it returns the lazy operator whatever the keyword arguments are)."""
    import cola
    from cola import ops
    from cola.linalg import inv, solve, CG, GMRES
    r = ctx.rng
    g = L.GenInv(r, present)
    pad = bool({"inv_gmres_padding_singular", "inv_gmres_padding_singular_complex"} & set(present))
    rows, bad_rows = [], []
    hist = {}
    for ci in range(n_cases):
        cplx = r.random() < 0.4
        n = r.choice([2, 3, 4, 5, 6, 8])
        algn = r.choice(["GMRES", "GMRES", "CG"])
        dt = L.C128 if cplx else L.F64
        if algn == "CG":
            Lo = g.lower(n, cplx, posdiag=True)
            M = Lo @ Lo.conj().T
        else:
            M = g.unimod(n, cplx) @ np.diag([complex(r.choice([1, 2, -2, 3])) for _ in range(n)])
        if np.linalg.cond(M) > 1e3:
            continue
        t = dict(k="Dense", dt=dt, a=g.gmat(M))
        wrap = r.choice(["plain", "plain", "sum", "transp"])
        if wrap == "sum":
            t = dict(k="Sum", ms=[t, dict(k="Dense", dt=dt, a=[[[0, 0]] * n for _ in range(n)])])
        elif wrap == "transp":
            t = dict(k="Transp", a=dict(k="Dense", dt=dt, a=g.gmat(M.T)))
        A = L.build(t)
        if algn == "CG":
            A = cola.PSD(A)
        D = T.dense(t)
        k = r.choice([0, 1, 2, 3])    # 0: 1-D right-hand side
        shape = (n,) if k == 0 else (n, k)
        b = np.array([r.randint(-3, 3) + (1j * r.randint(-2, 2) if cplx else 0) for _ in range(n * max(k, 1))]).reshape(shape)
        for j in range(max(k, 1)):   # no zero column
            col = b if k == 0 else b[:, j]
            if not np.any(col):
                col[r.randrange(n)] = 1
        b = b.astype(T.npdt(dt))
        xs = np.linalg.solve(D, b.astype(complex))
        x0kind = r.choice(["none", "zero", "rough", "rough", "near", "exact", "scaled"])
        if k == 0 and "inv_iterative_x0_vector" in present:
            x0kind = "none"   # region of the recorded defect: a vector-shaped guess with a vector right-hand side
        if x0kind == "none":
            x0 = None
        elif x0kind == "zero":
            x0 = np.zeros(shape)
        elif x0kind == "rough":
            x0 = np.array([r.randint(-3, 3) + (1j * r.randint(-2, 2) if cplx else 0) for _ in range(n * max(k, 1))]).reshape(shape)
        elif x0kind == "near":
            x0 = xs * (1 + 1e-3 * np.array([r.uniform(-1, 1) for _ in range(xs.size)]).reshape(shape))
        elif x0kind == "exact":
            x0 = xs.copy()
        else:
            x0 = 100.0 * xs
        if x0 is not None:
            x0 = (x0 if cplx else np.real(x0)).astype(T.npdt(dt))
        tol = r.choice([1e-6, 1e-6, 1e-9, 1e-3])
        mi = n if pad else r.choice([n, n + 2, 50, 1000 if n <= 3 and k <= 1 and algn == "CG" else 50])
        pk = r.choice(["none", "none", "identity", "jacobi"])
        P = None
        if pk == "identity":
            P = ops.Identity((n, n), T.npdt(dt))
        elif pk == "jacobi" and algn == "CG":
            P = cola.PSD(ops.Diagonal((1.0 / np.real(np.diag(D))).astype(T.npdt(dt))))
        kw = dict(tol=tol, max_iters=mi, pbar=False)
        if x0 is not None:
            kw["x0"] = x0
        if P is not None:
            kw["P"] = P
        entry = r.choice(["inv@b", "solve"])
        row = dict(alg=algn, n=n, k=k, cplx=cplx, wrap=wrap, x0=x0kind, tol=tol, max_iters=mi, P=pk, entry=entry)
        hist[(algn, x0kind)] = hist.get((algn, x0kind), 0) + 1
        bad = []
        try:
            with np.errstate(all="ignore"):
                alg = (CG if algn == "CG" else GMRES)(**kw)
                x = np.asarray(inv(A, alg) @ b if entry == "inv@b" else solve(A, b, alg))
            r0 = np.linalg.norm(b - D @ (x0 if x0 is not None else np.zeros(shape)))
            res = float(np.linalg.norm(D @ x - b) / np.linalg.norm(b))
            bound = max(20 * tol * (1 + r0 / np.linalg.norm(b)), 1e-8)
            row.update(residual=res, bound=bound)
            if x.shape != shape:
                bad.append(f"shape {x.shape}")
            elif not res <= bound:
                bad.append(f"relative residual {res:.2e} > {bound:.1e}")
            if x.dtype != np.result_type(T.npdt(dt)):
                bad.append(f"dtype {x.dtype}")
        except Exception as e:
            bad.append(f"raised {type(e).__name__}: {str(e)[:120]}")
        rows.append(row)
        if bad:
            bad_rows.append(dict(oracle_fail=True, case=dict(tree=t, b=[[complex(v).real, complex(v).imag] for v in np.ravel(b)],
                                                             x0_values=None if x0 is None else [[complex(v).real, complex(v).imag] for v in np.ravel(x0)], **row), failed_clauses=bad))
    return rows, bad_rows, {f"{a}/{x}": c for (a, x), c in sorted(hist.items())}


def reuse_stream(ctx, n_cases, present):
    """hidden state: ONE inverse operator used for a sequence of products (right-hand sides whose scale shrinks / grows by 1e-3..1e-12, equal and different
    shapes, left products, the first right-hand side again), ONE algorithm object used for several operators, and operators rebuilt through
    flatten()/unflatten() with changed leaves after a first solve.  Every product is checked against the contract of a fresh call (plain numpy oracle):
    relative residual <= 10*tol for CG / GMRES, <= 1e-10 for the direct algorithms."""
    import cola
    from cola.linalg import inv, solve, CG, GMRES, LU, Cholesky, Auto
    from props.c11 import scale_leaves
    r = ctx.rng
    g = L.GenInv(r, present)
    pad = bool({"inv_gmres_padding_singular", "inv_gmres_padding_singular_complex"} & set(present))
    rows, bad_rows = [], []

    def rhs(n, k, cplx, scale):
        b = np.array([r.randint(1, 3) * r.choice([-1, 1]) + (1j * r.randint(-2, 2) if cplx else 0) for _ in range(n * max(k, 1))], dtype=complex if cplx else float)
        return (b.reshape((n,) if k == 0 else (n, k))) * scale

    for ci in range(n_cases):
        cplx = r.random() < 0.3
        n = r.choice([2, 3, 4, 5, 6, 8])
        algn = r.choice(["CG", "CG", "GMRES", "GMRES", "LU", "Cholesky", "Auto"])
        psd = algn in ("CG", "Cholesky") or (algn == "Auto" and r.random() < 0.5)
        if psd:
            Lo = g.lower(n, cplx, posdiag=True)
            M = Lo @ Lo.conj().T
        else:
            M = g.unimod(n, cplx)
        if np.linalg.cond(M) > 300:
            continue
        dt = L.C128 if cplx else L.F64
        t = dict(k="Dense", dt=dt, a=g.gmat(M))
        tol = r.choice([1e-8, 1e-8, 1e-10, 1e-6])

        def mk():
            if algn == "CG":
                return CG(tol=tol)
            if algn == "GMRES":
                return GMRES(tol=tol, max_iters=(n if pad else r.choice([n, 50])))
            return dict(LU=LU, Cholesky=Cholesky, Auto=Auto)[algn]()
        bound = 10 * tol if algn in ("CG", "GMRES") else 1e-10
        mode = r.choice(["one_inverse", "one_inverse", "one_inverse", "one_algorithm", "rebuild"])
        row = dict(alg=algn, n=n, cplx=cplx, tol=tol, mode=mode)
        bad = []
        worst = 0.0

        def check(tag, D, x, b, left=False):
            nonlocal worst
            x = np.asarray(x)
            if x.shape != b.shape:
                bad.append(f"{tag}: shape {x.shape}")
                return
            res = float(np.linalg.norm((x @ D if left else D @ x) - b) / np.linalg.norm(b))
            worst = max(worst, res / bound)
            if not res <= bound:
                bad.append(f"{tag}: relative residual {res:.2e} > {bound:.0e}")
        try:
            with np.errstate(all="ignore"):
                A = L.build(t)
                if psd:
                    A = cola.PSD(A)
                D = T.dense(t)
                if mode == "one_inverse":
                    X = inv(A, mk())
                    k = r.choice([0, 1, 2])
                    scale = 1.0
                    direction = r.choice([1e-3, 1e-6, 1e-9, 1e-12, 1e3, 1e6])
                    b_first = None
                    steps = r.randint(3, 5)
                    seq = []
                    for si in range(steps):
                        kind = r.choice(["right", "right", "right", "left", "othershape"]) if si else "right"
                        kk = k if kind != "othershape" else (k + 1) % 3
                        if kind == "left":
                            b = rhs(n, max(kk, 1), cplx, scale).T
                            check(f"step {si} b@inv scale {scale:.0e}", D, b @ X, b, left=True)
                        else:
                            b = rhs(n, kk, cplx, scale)
                            check(f"step {si} inv@b scale {scale:.0e}", D, X @ b, b)
                            if b_first is None:
                                b_first, x_first = b, np.asarray(X @ b)
                        seq.append((kind, scale))
                        if r.random() < 0.8 and 1e-24 <= scale * direction <= 1e24:
                            scale *= direction   # (observed on the pinned tree: CG returns 0 for |b| ~ 1e-48 - absolute thresholds; outside this sweep)
                    x_again = np.asarray(X @ b_first)     # the first right-hand side again: same answer as the first time
                    check("first right-hand side again", D, x_again, b_first)
                    if algn in ("LU", "Cholesky", "Auto") and not np.array_equal(x_again, np.asarray(inv(A, mk()) @ b_first)):
                        bad.append("a used inverse and a fresh one differ on the same right-hand side")
                    row["sequence"] = [f"{k_}:{s_:.0e}" for k_, s_ in seq]
                elif mode == "one_algorithm":
                    alg = mk()
                    Lo2 = g.lower(n, cplx, posdiag=True)
                    M2 = Lo2 @ Lo2.conj().T if psd else g.unimod(n, cplx)
                    A2 = L.build(dict(k="Dense", dt=dt, a=g.gmat(M2)))
                    A2 = cola.PSD(A2) if psd else A2
                    b1, b2, b3 = rhs(n, 1, cplx, 1.0), rhs(n, 1, cplx, 1e-6), rhs(n, 0, cplx, 1e3)
                    check("A1 first", D, solve(A, b1, alg), b1)
                    check("A2 with the same algorithm object", M2, solve(A2, b2, alg), b2)
                    check("A1 again", D, inv(A, alg) @ b3, b3)
                else:   # rebuild through the pytree interface after a first solve
                    b1 = rhs(n, 1, cplx, 1.0)
                    check("before rebuild", D, inv(A, mk()) @ b1, b1)
                    c = r.choice([2.0, 4.0, 3.0])
                    A2 = scale_leaves(A, c)
                    if r.random() < 0.5:
                        A2 = A2.to(None)
                    D2 = T.dense(L.reflect(A2))
                    check("after rebuild (inv)", D2, inv(A2, mk()) @ b1, b1)
                    check("after rebuild (solve)", D2, solve(A2, b1, mk()), b1)
        except Exception as e:
            bad.append(f"raised {type(e).__name__}: {str(e)[:160]}")
        row["worst_over_bound"] = worst
        rows.append(row)
        if bad:
            bad_rows.append(dict(oracle_fail=True, case=dict(tree=t, **row), failed_clauses=bad))
    return rows, bad_rows


def tiny_stream(ctx, n_cases, present):
    """tiny and mixed tiny/huge scales (powers of 4 down to 4^-60 in double, 4^-25 in single - exact reciprocals) for Diagonal / ScalarMul / c*Identity leaves,
    stand-alone and inside Product / Kronecker / BlockDiag next to small-integer dense, triangular and permutation factors, every algorithm class,
    inv@b / solve / b@inv / to_dense.  Exact reference: the inverse is composed from the factors' exact inverses (reciprocals of powers of two, integer
    inverses of unimodular matrices), so every reference entry is a small integer times a power of two."""
    import cola
    from cola import ops
    from cola.linalg import inv, solve
    r = ctx.rng
    g = L.GenInv(r, present)
    rows, bad_rows = [], []

    def tinyvals(n, single, positive):
        lo, hi = (12, 25) if single else (30, 60)
        mode = r.choice(["tiny", "tiny", "mixed", "one_tiny"])
        out = []
        for i in range(n):
            if mode == "tiny" or (mode == "one_tiny" and i == 0):
                e = -r.randint(lo, hi)
            elif mode == "mixed":
                e = r.choice([-r.randint(lo, hi), r.randint(0, 11 if single else 30), 0])
            else:
                e = r.randint(0, 2)
            out.append((1.0 if positive else r.choice([1.0, -1.0])) * 4.0 ** e)
        r.shuffle(out)
        return out

    def leaf(n, npdt, single, positive):
        """(operator, dense, exact inverse)"""
        k = r.choice(["Diag", "Diag", "Scal", "cI", "Dense", "Perm", "Tri"] if not positive else ["Diag", "Diag", "Scal", "cI"])
        if k == "Diag":
            d = np.array(tinyvals(n, single, positive), dtype=npdt)
            return ops.Diagonal(d), np.diag(d).astype(complex), np.diag(1 / d.astype(complex))
        if k in ("Scal", "cI"):
            c = tinyvals(1, single, positive)[0]
            A = ops.ScalarMul(c, (n, n), npdt) if k == "Scal" else c * ops.Identity((n, n), npdt)
            return A, c * np.eye(n, dtype=complex), np.eye(n, dtype=complex) / c
        if k == "Perm":
            p = list(range(n))
            r.shuffle(p)
            P = np.zeros((n, n))
            P[np.arange(n), p] = 1
            return ops.Permutation(np.array(p), npdt), P.astype(complex), P.T.astype(complex)
        if k == "Tri":
            M = np.real(g.lower(n, False))
            M = M / np.abs(np.diag(M))[:, None] * 1.0    # unit-modulus diagonal keeps the inverse integral
            M = np.tril(np.rint(M))
            np.fill_diagonal(M, [r.choice([1, -1]) for _ in range(n)])
            return ops.Triangular(M.astype(npdt), lower=True), M.astype(complex), np.rint(np.linalg.inv(M)).astype(complex)
        M = np.real(g.unimod(n, False))
        return ops.Dense(M.astype(npdt)), M.astype(complex), np.rint(np.linalg.inv(M)).astype(complex)

    def tree(n, depth, npdt, single, positive):
        if depth <= 0 or r.random() < 0.35:
            return leaf(n, npdt, single, positive)
        k = r.choice(["Kron", "BDiag", "Prod", "scaled"] if not positive else ["Kron", "BDiag"]) if n >= 2 else r.choice(["BDiag", "scaled"] if not positive else ["BDiag"])
        if k == "Kron":
            a = r.choice([x for x in range(1, n + 1) if n % x == 0])
            (A1, D1, R1), (A2, D2, R2) = tree(a, depth - 1, npdt, single, positive), tree(n // a, depth - 1, npdt, single, positive)
            return ops.Kronecker(A1, A2), np.kron(D1, D2), np.kron(R1, R2)
        if k == "BDiag":
            import scipy.linalg as sl
            parts, left = [], n
            while left > 0:
                s_ = r.randint(1, min(left, 3))
                parts.append(s_)
                left -= s_
            subs = [tree(s_, depth - 1, npdt, single, positive) for s_ in parts]
            return ops.BlockDiag(*[x[0] for x in subs]), sl.block_diag(*[x[1] for x in subs]).astype(complex), sl.block_diag(*[x[2] for x in subs]).astype(complex)
        if k == "scaled":   # c * B  /  B * c
            c = tinyvals(1, single, False)[0]
            B, DB, RB = leaf(n, npdt, single, False)
            return (c * B if r.random() < 0.5 else B * c), c * DB, RB / c
        # product of a diagonal-like factor and one general factor (either order): reference entries stay exact
        d = np.array(tinyvals(n, single, False), dtype=npdt)
        Dg = (ops.Diagonal(d), np.diag(d).astype(complex), np.diag(1 / d.astype(complex)))
        G = leaf(n, npdt, single, False)
        F1, F2 = (Dg, G) if r.random() < 0.5 else (G, Dg)
        A = ops.Product(F1[0], F2[0]) if r.random() < 0.5 else F1[0] @ F2[0]
        return A, F1[1] @ F2[1], F2[2] @ F1[2]

    for ci in range(n_cases):
        single = r.random() < 0.4
        npdt = np.float32 if single else np.float64
        positive = r.random() < 0.3     # positive diagonal-like trees, declared PSD: Cholesky / CG are admissible
        n = r.choice([1, 2, 3, 4, 6])
        try:
            A, D, ref = tree(n, r.randint(0, 2), npdt, single, positive)
        except Exception as e:
            bad_rows.append(dict(oracle_fail=False, harness_error=f"tiny_stream generator: {type(e).__name__}: {str(e)[:200]}"))
            continue
        if not (np.all(np.isfinite(D)) and np.all(np.isfinite(ref)) and np.abs(ref).max() < (1e30 if single else 1e200) and np.abs(D).max() < (1e30 if single else 1e200)):
            continue
        if positive:
            A = cola.PSD(A)
        k = r.choice([0, 1, 2])
        b = np.array([float(r.randint(1, 3) * r.choice([-1, 1])) for _ in range(n * max(k, 1))], dtype=npdt).reshape((n,) if k == 0 else (n, k))
        bl = np.array([float(r.randint(1, 3) * r.choice([-1, 1])) for _ in range(n)], dtype=npdt)
        rel = 1e-4 if single else 1e-10
        for algn in (["AAuto", "ALU", "AGMRES", "AChol", "ACG"] if positive else ["AAuto", "ALU", "AGMRES"]):
            row = dict(alg=algn, n=n, single=single, psd=positive, type=L.type_str(A)[:80])
            bad = []
            try:
                with np.errstate(all="ignore"):
                    X = inv(A, mkalg(algn, 50))
                    obs = dict(dense=(np.asarray(X.to_dense()), ref), inv_b=(np.asarray(X @ b), ref @ b), solve=(np.asarray(solve(A, b, mkalg(algn, 50))), ref @ b),
                               b_inv=(np.asarray(bl @ X), bl @ ref))
                tol_ = max(rel, 1e-5) if "TIter" in L.rty(X) else rel   # a lazy CG / GMRES factor inside: its own tolerance (1e-6) applies
                for name, (got, want) in obs.items():
                    if got.shape != want.shape or not np.all(np.abs(got - want) <= tol_ * np.abs(want).max()):
                        bad.append(f"{name}: max error {np.abs(got - want).max():.2e} against max |reference| {np.abs(want).max():.2e}")
                res = np.linalg.norm(D @ obs["inv_b"][0].astype(complex) - b) / np.linalg.norm(b)
                if "TIter" in L.rty(X):
                    pass   # a lazy iterative factor inside: judged by the regular streams (badly scaled systems are outside the iterative contract)
                row["residual"] = float(res)
            except Exception as e:
                bad.append(f"raised {type(e).__name__}: {str(e)[:140]}")
            rows.append(row)
            if bad:
                bad_rows.append(dict(oracle_fail=True, case=dict(matrix=[[str(v) for v in rw] for rw in D.tolist()], **row), failed_clauses=bad))
    return rows, bad_rows


def large_cases(ctx, present):
    """both sides of the 10^6-entry switch of Auto with a matrix-free operator"""
    import cola
    from cola import ops
    from cola.linalg import inv, Auto
    rnd = ctx.rng
    rows, coq = [], []
    for n in (1000, 1001):
        for psd in (True, False):
            vals = [1.0, 2.0, 4.0, 5.0] if psd else [1.0, -2.0, 4.0, 5.0]
            d = np.array([vals[rnd.randrange(4)] for _ in range(n)])
            A = ops.LinearOperator(np.float64, (n, n), matmat=lambda X, d=d: d[:, None] * X)
            if psd:
                A = cola.PSD(A)
            b = np.array([float(rnd.randint(-3, 3)) for _ in range(n)])
            x0 = np.array([float(rnd.randint(-3, 3)) for _ in range(n)])   # a rough non-zero initial guess, forwarded by Auto to CG / GMRES
            if "inv_iterative_x0_vector" in present:   # recorded defect: vector guess with vector right-hand side -> use one column
                b, x0 = b[:, None], x0[:, None]
            row = dict(n=n, psd=psd, rhs_shape=list(b.shape))
            try:
                X = inv(A, Auto(max_iters=40, tol=1e-9, x0=x0)) if n == 1001 else inv(A, Auto(x0=x0))
                row["type"] = L.type_str(X)
                x = X @ b
                row["residual"] = float(np.linalg.norm((d * x.T).T - b) / np.linalg.norm(b))
                if n == 1001:
                    row["kwargs_forwarded"] = (X.alg.max_iters == 40 and X.alg.tol == 1e-9 and X.alg.x0 is x0)
                row["ok"] = True
            except Exception as e:
                row.update(ok=False, err=type(e).__name__ + ": " + str(e)[:120])
            want = ("AChol" if psd else "ALU") if n == 1000 else ("ACG" if psd else "AGMRES")
            row["want"] = want
            got = None
            if row.get("ok"):
                ty = row["type"]
                got = ("ACG" if "CG" in ty else "AGMRES") if ty.startswith("IterativeOperatorWInfo") else ("ALU" if "Permutation" in ty else "AChol")
            row["got"] = got
            rows.append(row)
            code = dict(AChol=1, ACG=2, ALU=3, AGMRES=4)
            coq.append(f"({'true' if psd else 'false'}, {n}, {code.get(got, 0)})")
    return rows, coq


def run(ctx):
    fnd = findings()
    present = {f["flag"] for f in fnd if f["present"]} | c01_present()
    flag_amb = "inv_gmres_ambiguous" in present
    ntrees = ctx.budget(170, 2200)
    cases = gen_trees(ctx, ntrees, present)
    terms, meta, mism = [], [], []
    err_hist, type_hist, alg_hist = {}, {}, {}
    n_exact_lu = n_lu = n_exact_ch = n_ch = 0
    oracle_resid = 0.0
    wrong_ann = 0
    attributed = {}
    for ci, case in enumerate(cases):
        try:
            t, io, obs = run_impl(case, ctx.rng)
        except Exception as e:
            mism.append(dict(oracle_fail=False, case=case, harness_error=f"{type(e).__name__}: {str(e)[:300]}"))
            continue
        if "scalar_keeps_annotations" in present and not facts_true(t):
            wrong_ann += 1   # region of the recorded C05 defect: a false PSD/Unitary annotation misleads the rule selection
            continue
        case["reflected"] = t
        for alg in ALGS:
            o = obs[alg]
            # oracle hypotheses of the theorems, checked on the recorded LAPACK results
            for a, (p, Lm, U) in o["lu"]:
                n_lu += 1
                n_exact_lu += bool(L.lu_exact(a, p, Lm, U))
                oracle_resid = max(oracle_resid, float(np.abs((Lm @ U)[p] - a).max()), float(np.abs(np.triu(Lm, 1)).max(initial=0)), float(np.abs(np.tril(U, -1)).max(initial=0)))
            for a, Lm in o["chol"]:
                n_ch += 1
                n_exact_ch += bool(L.chol_exact(a, Lm))
                oracle_resid = max(oracle_resid, float(np.abs(Lm @ Lm.conj().T - a).max()))
            bad, flag = oracle(t, io, o, present)
            if flag:
                attributed[flag] = attributed.get(flag, 0) + 1
            key = o.get("err", "ok")
            err_hist[key] = err_hist.get(key, 0) + 1
            alg_hist[alg] = alg_hist.get(alg, 0) + 1
            if o.get("ok"):
                head = o["type"].split("[")[0]
                type_hist[head] = type_hist.get(head, 0) + 1
            skip_model = (not flag_amb and False)
            terms.append(coq_case(t, io, o, flag_amb, "inv_psd_alg_forwarded_to_factors" in present))
            meta.append((ci, alg, bad if not flag else [], o))
    # large-operator branch of Auto
    big_rows, big_coq = large_cases(ctx, present)
    # optional arguments of the iterative algorithm objects
    kw_rows, kw_bad, kw_hist = kwargs_stream(ctx, ctx.budget(150, 1200), present)
    mism += kw_bad
    # tiny / mixed scales
    ty_rows, ty_bad = tiny_stream(ctx, ctx.budget(120, 900), present)
    mism += ty_bad
    # hidden state on inverse operators / algorithm objects / rebuilt operators
    ru_rows, ru_bad = reuse_stream(ctx, ctx.budget(160, 1200), present)
    mism += ru_bad
    # ---- model vs implementation inside Coq
    shard = ctx.budget(60, 120)
    jobs = []
    for s in range(0, len(terms), shard):
        body = HEADER + "Definition cases : list case := [\n" + ";\n".join(terms[s:s + shard]) + "].\nEval vm_compute in (length cases, failing check 0 cases).\n"
        jobs.append((f"c06_{s // shard}", body))
    body = HEADER + "Definition big : list (bool * nat * nat) := [" + ";".join(big_coq) + "].\n" \
        "Definition chk (x : bool * nat * nat) : bool := let '(psd, n, code) := x in\n" \
        "  Nat.eqb code (match base_alg (R:=qi) AAuto (Gen (mkarr n n (fun _ _ => qi0))) (AN psd false psd None []) with AChol => 1 | ACG => 2 | ALU => 3 | AGMRES => 4 | _ => 0 end).\n" \
        "Eval vm_compute in (length big, failing chk 0 big).\n"
    jobs.append(("c06_big", body))
    failing = set()
    big_fail = []
    for si, (rc, out) in enumerate(core.coqc_many(jobs, 900)):
        m = re.search(r"=\s*\((\d+),\s*\[(.*?)\]\)", out, flags=re.S)
        if rc != 0 or not m:
            mism.append(dict(oracle_fail=False, harness_error=f"shard {jobs[si][0]}: rc={rc}\n{out[-1500:]}"))
            continue
        idx = [int(x) for x in m.group(2).replace("\n", " ").split(";") if x.strip()]
        if jobs[si][0] == "c06_big":
            big_fail = idx
        else:
            failing |= {si * shard + i for i in idx}
    for i, (ci, alg, bad, o) in enumerate(meta):
        if bad or i in failing:
            oo = {k: (v.tolist() if isinstance(v, np.ndarray) else v) for k, v in o.items() if k in ("alg", "ok", "err", "msg", "type", "dense")}
            mism.append(dict(oracle_fail=bool(bad), case=dict(tree=cases[ci]["reflected"], alg=alg), got=oo, failed_clauses=bad, model_disagrees=(i in failing)))
    for j, row in enumerate(big_rows):
        bad = []
        if not row.get("ok"):
            bad.append("raised " + row.get("err", ""))
        else:
            if row["got"] != row["want"]:
                bad.append(f"Auto chose {row['got']}, the documented table says {row['want']}")
            if not row["residual"] <= 1e-5:
                bad.append(f"residual {row['residual']:.2e}")
            if row["n"] == 1001 and not row.get("kwargs_forwarded"):
                bad.append("Auto's keyword arguments are not forwarded to the iterative algorithm")
        if bad or j in big_fail:
            mism.append(dict(oracle_fail=bool(bad), case=dict(large=row), failed_clauses=bad, model_disagrees=(j in big_fail)))
    distinct = len({core.digest(c["reflected"]) for c in cases if "reflected" in c and T.depth(c["reflected"]) >= 2})
    kh = {}
    for c in cases:
        if "reflected" in c:
            for k in set(T.kinds_of(c["reflected"])):
                kh[k] = kh.get(k, 0) + 1
    return dict(
        evaluations=len(terms) + len(big_rows) + len(kw_rows) + len(ru_rows) + len(ty_rows), distinct_nontrivial=distinct,
        rule="random invertible operator trees (unimodular/triangular/diagonal/permutation/tridiagonal/sparse/Householder leaves, Product incl. non-square factors, Kronecker, "
             "BlockDiag with multiplicities, Sum, Transpose/Adjoint, Sliced, Concatenated; PSD-declared, PSD-undeclared and Unitary-declared families; real and complex; "
             "constructors and public combinators) x 6 algorithm classes; non-trivial = depth>=2, distinct by reflected tree hash; plus 4 matrix-free operators of 1000 and 1001 rows",
        samples=[dict(tree=c.get("reflected"), fam=c["fam"]) for c in cases[:2]],
        mismatches=mism, findings=[f for f in fnd if not f["flag"].endswith("_info")],
        extra=dict(trees=len(cases), kind_histogram=kh, algorithm_histogram=alg_hist, outcome_histogram=err_hist, result_head_types=type_hist,
                   families={f: sum(1 for c in cases if c["fam"] == f) for f in ("inv", "psd", "psd_undecl", "uni")},
                   complex_trees=sum(1 for c in cases if c["cplx"]),
                   tiny_scale_cases=len(ty_rows), tiny_scale_types={t_: sum(1 for r_ in ty_rows if r_['type'].split('[')[0] == t_) for t_ in sorted({r_['type'].split('[')[0] for r_ in ty_rows})},
                   reuse_cases=len(ru_rows), reuse_modes={m_: sum(1 for r_ in ru_rows if r_['mode'] == m_) for m_ in ('one_inverse', 'one_algorithm', 'rebuild')},
                   reuse_worst_residual_over_bound=max((r_['worst_over_bound'] for r_ in ru_rows), default=0.0),
                   skipped_false_annotations=wrong_ann, iterative_kwargs_cases=len(kw_rows), iterative_kwargs_histogram=kw_hist,
                   iterative_kwargs_max_residual_over_bound=max((r_['residual'] / r_['bound'] for r_ in kw_rows if 'residual' in r_), default=0.0),
                   precision_histogram={('single' if c.get('single') else 'double'): sum(1 for c2 in cases if bool(c2.get('single')) == bool(c.get('single'))) for c in cases},
                   values_compared_in_coq=sum(1 for (_, _, _, o) in meta if o.get("num_in_coq")),
                   structure_only_in_coq=sum(1 for (_, _, _, o) in meta if o.get("ok") and not o.get("num_in_coq")),
                   lapack_lu_calls=n_lu, lapack_lu_exact=n_exact_lu, lapack_cholesky_calls=n_ch, lapack_cholesky_exact=n_exact_ch,
                   oracle_hypotheses_max_residual=oracle_resid, attributed_to_flags=attributed,
                   large_operator_branch=big_rows, informational=[f for f in fnd if f["flag"].endswith("_info")]))
