"""C16 - svd and pinv return a valid singular value decomposition and the pseudo-inverse (DESIGN.md section 5, C16)."""
import numpy as np
import shim  # noqa: F401
import core
import c10_lib as L

TRUSTED_BASE = [
    "Coq 8.16.1 kernel + vm_compute; theorems of coq/PropsC16.v closed under the global context (no axioms)",
    "hand-written model coq/C16_Model.v (DenseSVD re-sort, Lanczos/LOBPCG back-substitution U = A V Sigma^-1 resp. V = (Sigma^-1 U^H A)^H, Identity/Diagonal rules, "
    "pinv Auto / reciprocal rules / CG composition (Op + eps I) A^H) as a reading of cola/linalg/svd/svd.py and cola/linalg/inverse/pinv.py - tied to /repo by this correspondence check",
    "oracles passed as data and checked numerically here: LAPACK svd (U^H U = I, V^H V = I, s >= 0, A = U_r diag(s) V_r^H), lanczos_eigs / lobpcg on A^H A or A A^H "
    "(orthonormal eigenpairs), xnp.sqrt on the selected eigenvalues, numpy lstsq (normal equations, solution in the range of A^H), the CG solve of (A^H A) Y = A^H B (C12)",
    "exact rational arithmetic on Gaussian rationals inside Coq; floats compared with tolerance 1e-9 (float64) relative to the scale and the smallest singular value",
    "harness: this file, c10_lib.py, shim.py; independent oracle: numpy.linalg.svd / pinv / lstsq on the dense matrix",
]
ASSUMPTIONS = [
    "operators have full rank with singular values separated by a factor >= 1.25 and sigma_min >= 0.3 (sigma_max <= 30)",
    "best rank-k optimality (Eckart-Young) is not proved; the check and the theorems use the 'k largest / smallest singular triplets' form",
    "Krylov runs with fewer iterations than min(m,n) return fewer / approximate triplets: correspondence only",
    "the CG rule adds eps*A^H b with eps = precision*max(m,n) (1e-15*max for float64): compared at 1e-8",
    "regions spoiled by a present recorded defect are not generated: negative Diagonal entries under svd, k < min(m,n) under DenseSVD, complex operators under pinv(., CG), "
    "and (recorded under C04/C10) explicit algorithms on Identity/Diagonal/ScalarMul/Permutation, LOBPCG outside its top block",
]
HEADER = ("From Coq Require Import ZArith QArith Qcanon List Bool Arith.\nFrom Core Require Import Base FieldBase C10_Model C10_Check C09_Check C16_Model C16_Check.\n"
          "Import ListNotations.\nOpen Scope Z_scope.\n")


def findings():
    from cola import ops
    from cola.linalg import pinv, CG, Lanczos
    from cola.linalg.svd.svd import svd
    out = []

    def probe(flag, what, fn, witness):
        try:
            present, got = fn()
        except Exception as e:
            present, got = True, f"raised {type(e).__name__}: {str(e)[:160]}"
        out.append(dict(flag=flag, present=bool(present), what=what, witness=witness, got=str(got)))

    def p_neg():
        U, S, V = svd(ops.Diagonal(np.array([-1., 2.])), 2)
        s = np.diag(np.asarray(S.to_dense()))
        return bool((s < 0).any()), s.tolist()
    probe("svd_diag_negative_sigma", "svd(Diagonal) returns (I, A, I): Sigma has the negative (or complex) entries of A (Coq witness C16_svd_diag_negative_refuted)", p_neg,
          "svd(Diagonal([-1,2]),2)")

    def p_k():
        U, S, V = svd(ops.Dense(np.diag([3., 2., 1.])), 1)
        return S.shape[0] != 1, f"Sigma is {S.shape[0]}x{S.shape[0]}"
    probe("svd_dense_k_ignored", "the dense rule (and the Identity/Diagonal rules) ignore k and `which`: all min(m,n) triplets are returned (Coq witness C16_svd_dense_k_ignored_refuted)", p_k,
          "svd(Dense(diag(3,2,1)),1)")

    def p_which():
        D = np.diag([3., 2., 1.])
        _, S1, _ = svd(ops.Dense(D), 1, 'LM', Lanczos(max_iters=3))
        _, S2, _ = svd(ops.Dense(D), 1, 'SM', Lanczos(max_iters=3))
        a, b = float(np.asarray(S1.to_dense())[0, 0]), float(np.asarray(S2.to_dense())[0, 0])
        return not (abs(a - 3) < 1e-6 and abs(b - 1) < 1e-6), (a, b)
    probe("lanczos_svd_which", "svd with Lanczos: 'LM' must return the largest, 'SM' the smallest singular triplets", p_which, "svd(Dense(diag(3,2,1)),1,'LM'|'SM',Lanczos(max_iters=3))")

    def p_cgc():
        D = np.array([[1 + 1j, 0], [0, 2], [1, 1j]])
        x = np.asarray(pinv(ops.Dense(D), CG()) @ np.array([1 + 0j, 2, 3]))
        return not np.allclose(x, np.linalg.pinv(D) @ np.array([1, 2, 3]), atol=1e-6), x.tolist()
    probe("pinv_cg_complex_typeerror", "pinv(A, CG()) for a complex operator raises TypeError (get_precision knows float32/float64 only)", p_cgc,
          "pinv(Dense([[1+1j,0],[0,2],[1,1j]]),CG()) @ [1,2,3]")
    def p_jit():
        A = (1e3 * np.array([[1., 0.], [0., 2.], [1., 1.]])).astype(np.float32)
        b = np.array([1., 2., 3.], dtype=np.float32)
        x = np.asarray(pinv(ops.Dense(A), CG()) @ b).astype(np.float64)
        ref = np.linalg.pinv(A.astype(np.float64)) @ b
        rel = float(np.abs(x - ref).max() / np.abs(ref).max())
        return not (rel <= 1e-2), f"relative error {rel:.3g}"
    probe("pinv_cg_jitter_not_scale_covariant", "pinv(A, CG()) adds cons*I (cons = precision*max(shape)) to the INVERSE of A^H A: the result carries the extra term cons * A^H b, "
          "relative size cons*sigma^2 - pinv(c*A) != pinv(A)/c; float32 data of scale 1e3 is off by a factor ~1e2, float64 of scale 1e8 likewise", p_jit,
          "pinv(Dense(1e3*[[1,0],[0,2],[1,1]] as float32),CG()) @ [1,2,3]")
    return out


def steering_probes():
    """defects recorded under other properties that only steer this generator"""
    from cola import ops
    from cola.linalg import pinv
    from cola.linalg.inverse.pinv import LSTSQ
    from cola.linalg.svd.svd import svd, DenseSVD
    st = {}
    try:
        pinv(ops.Diagonal(np.array([1., 2.])), LSTSQ())
        st["pinv_structural_ambiguous"] = False
    except Exception:
        st["pinv_structural_ambiguous"] = True
    try:
        svd(ops.Diagonal(np.array([1., 2.])), 2, 'LM', DenseSVD())
        st["svd_structural_ambiguous"] = False
    except Exception:
        st["svd_structural_ambiguous"] = True
    return st


def hermitian_variant(rnd, g, nmax, cplx):
    """square Hermitian matrix with prescribed |eigenvalues|: indefinite, negative definite or positive definite"""
    n = rnd.randint(2, nmax)
    kind = rnd.choice(["indef", "indef", "negdef", "PSD"])
    mags = np.array(sorted(L.separated(rnd, n, lo=0.35, gap=0.25, grow=1.3), reverse=True))
    sg = dict(indef=np.array([rnd.choice([-1, 1]) for _ in range(n)]), negdef=-np.ones(n), PSD=np.ones(n))[kind]
    if kind == "indef" and abs(sg.sum()) == n:
        sg[0] = -sg[0]
    Q = L.rand_unitary(g, n, cplx)
    D = (Q * (mags * sg)) @ Q.conj().T
    D = (D + D.conj().T) / 2
    return n, n, mags, (D if cplx else D.real), ("PSD" if kind == "PSD" else "SelfAdjoint")


def scale_zone(rnd, f32):
    """overall scale of the data, biased to the ends (where absolute thresholds such as eps or sqrt(eps) become visible)"""
    z = rnd.choice(["low", "mid", "high"])
    if f32:
        return 10.0 ** dict(low=rnd.uniform(-8, -4), mid=rnd.uniform(-3, 3), high=rnd.uniform(4, 8))[z]
    return 10.0 ** dict(low=rnd.uniform(-14, -8), mid=rnd.uniform(-6, 6), high=rnd.uniform(8, 14))[z]


def gen_matrix(rnd, g, nmax, flat=False):
    shape_cls = rnd.choice(["wide", "square", "tall"])
    a, b = rnd.randint(1, nmax - 1), rnd.randint(2, nmax)
    lo, hi = min(a, b), max(a, b)
    if lo == hi:
        lo = max(1, hi - 1)
    m, n = dict(wide=(lo, hi), square=(hi, hi), tall=(hi, lo))[shape_cls]
    cplx = rnd.random() < 0.35
    r = min(m, n)
    sv = sorted(L.separated(rnd, r, lo=0.35, gap=0.25, grow=1.3), reverse=True)
    if flat:     # larger sizes: singular values in [0.5, 3] (condition <= 6), no separation needed for pinv
        sv = sorted([rnd.uniform(0.5, 3.0) for _ in range(r)], reverse=True)
    U = L.rand_unitary(g, m, cplx)
    V = L.rand_unitary(g, n, cplx)
    D = (U[:, :r] * np.array(sv)) @ V[:, :r].conj().T
    if not cplx:
        D = D.real
    return m, n, cplx, np.array(sv), D


def wrap(rnd, g, D, dt, plain=False, herm=None):
    import cola
    from cola import ops
    w = "Dense" if (plain or herm) else rnd.choice(["Dense", "Dense", "Dense", "Prod2", "Sum2", "Transp"])
    D = D.astype(getattr(np, dt))
    m, n = D.shape
    if herm:       # Hermitian matrix declared SelfAdjoint (indefinite / negative definite) or PSD
        return "Dense:" + herm, (cola.PSD if herm == "PSD" else cola.SelfAdjoint)(ops.Dense(D))
    if w == "Dense":
        return w, ops.Dense(D)
    if w == "Prod2":
        P = np.eye(n, dtype=D.dtype)[g.permutation(n)]
        return w, ops.Dense(D @ P.T) @ ops.Dense(P)
    if w == "Sum2":
        N = g.integers(-2, 3, size=(m, n)).astype(D.dtype)
        return w, ops.Dense(D / 2 + N) + ops.Dense(D / 2 - N)
    return w, ops.Transpose(ops.Dense(D.T.copy()))


def svd_oracle_check(D, U, S, V, k_expected, sv_true, which, tol, full):
    """independent oracle on the implementation's output; returns failed clauses"""
    bad = []
    m, n = D.shape
    k = S.shape[0]
    if k != k_expected or U.shape != (m, k) or V.shape != (n, k):
        return [f"{k} triplets with shapes U{U.shape} V{V.shape}; {k_expected} requested"]
    s = np.diag(S)
    if not (np.abs(S - np.diag(s)).max() <= 0):
        bad.append("Sigma is not diagonal")
    if not (np.abs(np.imag(s)).max() <= 0) or not (np.real(s) >= 0).all():
        bad.append(f"Sigma has negative or complex entries {s.tolist()}")
    if not (np.abs(U.conj().T @ U - np.eye(k)).max() <= tol):
        bad.append("columns of U not orthonormal")
    if not (np.abs(V.conj().T @ V - np.eye(k)).max() <= tol):
        bad.append("columns of V not orthonormal")
    sc = float(sv_true.max()) or 1.0
    want = np.sort(sv_true)[::-1][:k] if which == "LM" else np.sort(sv_true)[:k]
    if not (np.abs(np.sort(np.abs(s)) - np.sort(want)).max() <= tol * sc):
        bad.append(f"singular values {np.sort(np.abs(s)).tolist()} are not the {k} {'largest' if which == 'LM' else 'smallest'} of {np.sort(sv_true).tolist()}")
    if not (np.abs(D @ V - U @ S).max() <= tol * sc):
        bad.append("A V differs from U Sigma")
    if full and not (np.abs(U @ S @ V.conj().T - D).max() <= tol * sc):
        bad.append("U Sigma V^H differs from A")
    return bad


def run(ctx):
    import cola
    from cola import ops
    from cola.linalg import pinv, CG, Lanczos, Auto
    from cola.linalg.inverse.pinv import LSTSQ
    from cola.linalg.svd.svd import svd, DenseSVD
    from cola.linalg.eig.lobpcg import LOBPCG, lobpcg
    from cola.linalg.decompositions.lanczos import lanczos_eigs
    from cola.linalg.algorithm_base import IterativeOperatorWInfo
    from cola.utils.utils_linalg import get_precision
    fnd = findings()
    present = {f["flag"] for f in fnd if f["present"]}
    steer = steering_probes()
    rnd = ctx.rng
    g = L.nprng(rnd)
    mism, samples = [], []
    hist, skipped = {}, {}
    evals, distinct = 0, set()
    sterms, smeta = [], []
    pterms, pmeta = [], []
    below = 0

    def bump(d, k):
        d[k] = d.get(k, 0) + 1

    def dense3(U, S, V):
        return [np.asarray(x.to_dense()) for x in (U, S, V)]

    # ---------------- svd, dense and Krylov rules
    nS = ctx.budget(220, 2000)
    nmax = ctx.budget(6, 8)
    for _ in range(nS):
        m, n, cplx, sv, D = gen_matrix(rnd, g, nmax)
        r = min(m, n)
        f32 = rnd.random() < 0.1
        dt = ("complex64" if f32 else "complex128") if cplx else ("float32" if f32 else "float64")
        alg = rnd.choice(["none", "Auto", "DenseSVD", "Lanczos", "Lanczos", "Lanczos", "LOBPCG"])
        k = rnd.randint(1, r)
        which = rnd.choice(["LM", "SM"])
        kw, cap = {}, None
        if alg in ("none", "Auto", "DenseSVD") and "svd_dense_k_ignored" in present:
            k = r
        if alg == "Lanczos":
            cap = rnd.choice(["at", "above", "default", "below"])
            mi = dict(at=r, above=r + rnd.randint(1, 3), default=None, below=max(1, r - 1))[cap]
            if mi is not None:
                kw["max_iters"] = mi
            if cap == "below":
                k = rnd.randint(1, max(1, r - 1))
        herm = None
        if rnd.random() < 0.2:
            m, n, sv, D, herm = hermitian_variant(rnd, g, nmax, cplx)
            r = n
            k = min(k, r)
            if alg == "Lanczos":
                mi = dict(at=r, above=r + rnd.randint(1, 3), default=None, below=max(1, r - 1))[cap]
                kw = {} if mi is None else dict(max_iters=mi)
                if cap == "below":
                    k = rnd.randint(1, max(1, r - 1))
            if alg in ("none", "Auto", "DenseSVD") and "svd_dense_k_ignored" in present:
                k = r
            bump(hist, "svd:annotated:" + herm)
        if herm is None and r >= 2 and alg != "LOBPCG" and rnd.random() < 0.2:
            # rank deficient by one: an exactly zero singular value (the factors must still have orthonormal columns)
            Uf, _, Vhf = np.linalg.svd(D, full_matrices=False)
            sv = np.array(list(sv[:-1]) + [0.0])
            D = (Uf * sv) @ Vhf
            if not cplx:
                D = D.real
            if alg == "Lanczos":
                which = "LM"      # U = A V Sigma^-1 cannot produce the triplet of a zero singular value: only the non-zero ones are requested
                k = min(k, r - 1)
                if cap == "below":
                    k = min(k, max(1, r - 2))
            bump(hist, "svd:rank_deficient")
        if alg == "LOBPCG":
            # recorded under C10 (lobpcg_top_block_only): only the n-1 largest eigenpairs of A^H A, in float32, real part only
            if which != "LM" or k > n - 1 or cplx or n < 2 or k > m:
                bump(skipped, "lobpcg_top_block_only")
                continue
        scl = 1.0
        if alg != "LOBPCG" and rnd.random() < 0.4:
            scl = scale_zone(rnd, f32)
            D, sv = D * scl, sv * scl
            bump(hist, "svd:scale:1e%+03d" % (2 * int(np.floor(np.log10(scl) / 2))))
        wname, A = wrap(rnd, g, D, dt, plain=(scl != 1.0), herm=herm)
        Dd = np.asarray(A.to_dense()).astype(np.complex128)
        case_js = dict(fn="svd", m=m, n=n, dt=dt, wrap=wname, scale=scl, M=D.tolist() if not cplx else [[str(x) for x in rr] for rr in D], k=k, which=which, alg=alg, kwargs=kw, cap=cap)
        evals += 1
        bump(hist, f"svd:{alg}" + (f":{cap}" if cap else "") + f":{'wide' if m < n else 'square' if m == n else 'tall'}")
        distinct.add(core.digest(case_js))
        if len(samples) < 2:
            samples.append({kk: v for kk, v in case_js.items() if kk != "M"})
        algo = dict(none=None, Auto=Auto(), DenseSVD=DenseSVD(), Lanczos=Lanczos(**kw), LOBPCG=LOBPCG())[alg]
        try:
            if alg == "LOBPCG":
                np.random.seed(777)
            U, S, V = svd(A, k, which) if algo is None else svd(A, k, which, algo)
            Ud, Sd, Vd = dense3(U, S, V)
        except Exception as e:
            mism.append(dict(oracle_fail=True, case=case_js, got=f"{type(e).__name__}: {str(e)[:200]}", failed_clauses=["raised on an input the model accepts"]))
            continue
        tol = 2e-3 if (f32 or alg == "LOBPCG") else 1e-8
        xnp = A.xnp
        bad = []
        if alg in ("none", "Auto", "DenseSVD"):
            oU, oS, oV = xnp.svd(A.to_dense(), full_matrices=True)
            hyp = (np.abs(oU.conj().T @ oU - np.eye(m)).max() < tol and np.abs(oV.conj().T @ oV - np.eye(n)).max() < tol and (oS >= 0).all()
                   and np.abs((oU[:, :r] * oS) @ oV[:, :r].conj().T - Dd).max() < tol * max(1, sv.max()))
            if not hyp:
                mism.append(dict(oracle_fail=False, case=case_js, failed_clauses=["the LAPACK svd oracle violates its specification"]))
                continue
            bad = svd_oracle_check(Dd, Ud, Sd, Vd, k, sv, which, tol, k == r)
            ksl = "None" if "svd_dense_k_ignored" in present else f"(Some (({k}), {which}))"
            sterms.append(f"mkscase {m} {n} (SRDense {ksl} {r} {L.qmat(oU)} {L.qvec(oS)} {L.qmat(oV)}) {L.qc_lit(0)} {Sd.shape[0]} {L.qmat(Ud)} {L.qvec(np.diag(Sd))} {L.qmat(Vd)}")
            smeta.append(dict(case=case_js, bad=bad, got=dict(sigma=np.diag(Sd).tolist())))
        else:
            tall = (n <= m) or alg == "LOBPCG"
            G = (A.H @ A) if tall else (A @ A.H)
            try:
                if alg == "LOBPCG":
                    np.random.seed(777)
                    lam, W = lobpcg(G, **algo.__dict__)
                else:
                    lam, W, _ = lanczos_eigs(G, **algo.__dict__)
                lam, W = np.asarray(lam), np.asarray(W.to_dense())
            except Exception as e:
                mism.append(dict(oracle_fail=False, case=case_js, harness_error=f"eigen-oracle call failed: {type(e).__name__}: {e}"))
                continue
            q = lam.shape[0]
            complete = (cap != "below") and alg == "Lanczos"
            if alg == "LOBPCG" or complete:
                Gd = np.asarray(G.to_dense())
                hyp = np.abs(Gd @ W - W * lam[None, :]).max() < tol * max(1.0, float(np.abs(Gd).max())) and np.abs(W.conj().T @ W - np.eye(q)).max() < tol
                if not hyp:
                    mism.append(dict(oracle_fail=False, case=case_js, failed_clauses=["the eigen-oracle (lanczos_eigs / lobpcg) violates its specification"]))
                    continue
                bad = svd_oracle_check(Dd, Ud, Sd, Vd, k, sv, which, tol * 10, k == r and alg == "Lanczos")
            else:
                below += 1
            sl = slice(q - k, None) if which == "LM" else slice(0, k)
            pts = lam[sl]
            rt = xnp.sqrt(pts)
            tab = "[" + ";".join(f"({L.qic(complex(x))},{L.qic(complex(y))})" for x, y in zip(pts, rt) if np.isfinite(complex(y))) + "]"
            sc = max(1.0, float(np.abs(Ud).max()), float(np.abs(Vd).max()), float(sv.max()))
            ctol = ((1e-3 if (f32 or alg == "LOBPCG") else 1e-9) * sc * max(1.0, sv.max() / max(float(np.abs(rt).min()), 1e-6)) * max(m, n)) ** 2
            sterms.append(f"mkscase {m} {n} (SRLanczos {'true' if tall else 'false'} {q} {L.qmat(np.asarray(A.to_dense()))} {L.qvec(lam)} {L.qmat(W)} {tab} ({k}) {which}) "
                          f"{L.qc_lit(ctol)} {Sd.shape[0]} {L.qmat(Ud)} {L.qvec(np.diag(Sd))} {L.qmat(Vd)}")
            smeta.append(dict(case=case_js, bad=bad, got=dict(sigma=np.diag(Sd).tolist())))

    # ---------------- svd with Lanczos on large operators: min(m,n) and the iteration count beyond 100, 128, 256
    for r_ in ([rnd.randint(101, 112), rnd.randint(126, 140), rnd.randint(200, 262)] + ([rnd.randint(101, 300) for _ in range(7)] if ctx.tier == "thorough" else [])):
        shape_cls = rnd.choice(["wide", "square", "tall"])
        m, n = dict(wide=(r_, r_ + rnd.randint(5, 40)), square=(r_, r_), tall=(r_ + rnd.randint(5, 40), r_))[shape_cls]
        sv = np.sort(g.uniform(1.0, 3.0, r_))[::-1].copy()
        sv[0] *= 1.2
        Ub, Vb = L.rand_unitary(g, m, False), L.rand_unitary(g, n, False)
        D = (Ub[:, :r_] * sv) @ Vb[:, :r_].T
        A = ops.Dense(D)
        for k, which, kw in ((3, "LM", {}), (r_, "LM", {}), (rnd.randint(2, 5), "SM", dict(max_iters=r_ + 9))):
            case_js = dict(fn="svd", kind="large", m=m, n=n, k=k, which=which, alg="Lanczos", kwargs=kw, sv_range="[1, 3.6]")
            evals += 1
            bump(hist, f"svd:large:Lanczos:{shape_cls}:n>{100 if r_ <= 128 else (128 if r_ <= 256 else 256)}")
            distinct.add(core.digest(dict(case_js, d00=float(D[0, 0]))))
            try:
                U, S, V = svd(A, k, which, Lanczos(**kw))
                Ud, Sd, Vd = dense3(U, S, V)
            except Exception as e:
                mism.append(dict(oracle_fail=True, case=case_js, got=f"{type(e).__name__}: {str(e)[:200]}", failed_clauses=["raised on an input the model accepts"]))
                continue
            bad = svd_oracle_check(D.astype(np.complex128), Ud, Sd, Vd, k, sv, which, 1e-7, k == r_)
            if bad:
                mism.append(dict(oracle_fail=True, case=case_js, failed_clauses=bad, got=dict(sigma=np.diag(Sd)[:6].tolist())))

    # ---------------- svd, structural rules
    for _ in range(ctx.budget(40, 300)):
        n = rnd.randint(1, 5)
        kind = rnd.choice(["ident", "diag", "diag"])
        cplx = rnd.random() < 0.3
        dt = "complex128" if cplx else "float64"
        k = n if "svd_dense_k_ignored" in present else rnd.randint(1, n)
        which = rnd.choice(["LM", "SM"])
        algn = rnd.choice(["none", "Auto"] + ([] if steer["svd_structural_ambiguous"] else ["DenseSVD", "Lanczos"]))
        ksl = "None" if "svd_dense_k_ignored" in present else f"(Some (({k}), {which}))"
        if kind == "ident":
            A, D = ops.Identity((n, n), getattr(np, dt)), np.eye(n)
            rule = f"(SRIdent {ksl})"
        else:
            neg_ok = "svd_diag_negative_sigma" not in present
            d = np.array([complex((rnd.randint(1, 9) * (rnd.choice([-1, 1]) if neg_ok else 1)) / rnd.choice([1, 2, 4]),
                                  (rnd.randint(-4, 4) / 2) if (neg_ok and cplx) else 0) for _ in range(n)])
            if rnd.random() < 0.35:
                d[rnd.randrange(n)] = 0.0            # an exactly zero singular value among the triplets
            if n >= 2 and rnd.random() < 0.2:
                d[rnd.randrange(n)] = d[rnd.randrange(n)]   # repeated
            if rnd.random() < 0.15:
                d[rnd.randrange(n)] *= 2.0 ** -900       # tiny
            d = d.astype(getattr(np, dt)) if cplx else d.real.astype(getattr(np, dt))
            A, D = ops.Diagonal(d), np.diag(d)
            if neg_ok:
                # oracle data of the repaired rule: |d|, d/|d| (numpy's values) and the positions it keeps
                ab = np.abs(d)
                ph = np.where(ab > 0, d / np.where(ab > 0, ab, np.ones_like(ab)), np.ones_like(d))
                if np.abs(ph * ab - d).max() > 1e-12 * max(1.0, ab.max()) or np.abs(np.abs(ph) - 1).max() > 1e-12:
                    mism.append(dict(oracle_fail=False, harness_error="abs / phase oracle violates d = ph*|d|, |ph| = 1"))
                    continue
                if "svd_dense_k_ignored" in present:
                    idx = list(range(n))
                else:
                    order = np.argsort(ab)
                    idx = list(order[n - k:] if which == "LM" else order[:k])
                rule = f"(SRDiagSigned [{';'.join(str(int(x)) + '%nat' for x in idx)}] {L.qvec(ab)} {L.qvec(ph)})"
            else:
                rule = f"(SRDiag {L.qvec(d)})"
        case_js = dict(fn="svd", kind=kind, n=n, dt=dt, k=k, which=which, alg=algn, d=[str(x) for x in np.diag(D)])
        evals += 1
        bump(hist, f"svd:{kind}:{algn}")
        distinct.add(core.digest(case_js))
        algo = dict(none=None, Auto=Auto(), DenseSVD=DenseSVD(), Lanczos=Lanczos())[algn]
        try:
            U, S, V = svd(A, k, which) if algo is None else svd(A, k, which, algo)
            Ud, Sd, Vd = dense3(U, S, V)
        except Exception as e:
            mism.append(dict(oracle_fail=True, case=case_js, got=f"{type(e).__name__}: {str(e)[:200]}", failed_clauses=["raised on an input the model accepts"]))
            continue
        bad = svd_oracle_check(D.astype(np.complex128), Ud, Sd, Vd, k, np.abs(np.diag(D)), which, 1e-12, k == n)
        sterms.append(f"mkscase {n} {n} {rule} {L.qc_lit(1e-30)} {Sd.shape[0]} {L.qmat(Ud)} {L.qvec(np.diag(Sd))} {L.qmat(Vd)}")
        smeta.append(dict(case=case_js, bad=bad, got=dict(sigma=np.diag(Sd).tolist())))

    # ---------------- pinv, structural rules (exact reciprocals)
    for _ in range(ctx.budget(60, 500)):
        n = rnd.randint(1, 5)
        kind = rnd.choice(["ident", "scal", "diag", "diag", "perm"])
        cplx = rnd.random() < 0.35 and kind != "perm"
        dt = "complex128" if cplx else "float64"
        ndt = getattr(np, dt)
        algn = rnd.choice(["none", "Auto"] + ([] if steer["pinv_structural_ambiguous"] else ["LSTSQ", "CG"]))

        def val():
            v = complex(rnd.choice([-1, 1]) * rnd.randint(1, 9) / rnd.choice([1, 2, 4, 8]), (rnd.randint(-4, 4) / rnd.choice([1, 2])) if cplx else 0)
            return v if abs(v) > 0 else 1.0
        if kind == "ident":
            A, rule = ops.Identity((n, n), ndt), "PRIdent"
        elif kind == "scal":
            c = val()
            A, rule = ops.ScalarMul(c if cplx else c.real, (n, n), ndt), f"(PRScal {L.qic(c)})"
        elif kind == "diag":
            d = np.array([val() for _ in range(n)]).astype(ndt) if cplx else np.array([val().real for _ in range(n)])
            A, rule = ops.Diagonal(d), f"(PRDiag {L.qvec(d)})"
        else:
            p = list(range(n))
            rnd.shuffle(p)
            A, rule = ops.Permutation(np.array(p, dtype=np.int64), ndt), "(PRPerm [" + ";".join(f"{x}%nat" for x in p) + "])"
        D = np.asarray(A.to_dense()).astype(np.complex128)
        case_js = dict(fn="pinv", kind=kind, n=n, dt=dt, alg=algn, dense=[[str(x) for x in rr] for rr in D])
        evals += 1
        bump(hist, f"pinv:{kind}:{algn}")
        distinct.add(core.digest(case_js))
        algo = dict(none=None, Auto=Auto(), LSTSQ=LSTSQ(), CG=CG())[algn]
        try:
            Pn = pinv(A) if algo is None else pinv(A, algo)
            Pd = np.asarray(Pn.to_dense())
            b = g.standard_normal(n).astype(ndt)
            xb = np.asarray(Pn @ b)
        except Exception as e:
            mism.append(dict(oracle_fail=True, case=case_js, got=f"{type(e).__name__}: {str(e)[:200]}", failed_clauses=["raised on an input the model accepts"]))
            continue
        ref = np.linalg.pinv(D)
        bad = []
        if not (np.abs(Pd - ref).max() <= 1e-10 * max(1.0, float(np.abs(ref).max()))):
            bad.append("dense pinv differs from numpy.linalg.pinv")
        if not (np.abs(xb - ref @ b).max() <= 1e-10 * max(1.0, float(np.abs(ref).max()))):
            bad.append("pinv(A) @ b differs")
        pterms.append(f"mkpcase16 {n} {n} {rule} {L.qc_lit((1e-13 * max(1.0, float(np.abs(Pd).max()))) ** 2)} {L.qmat(Pd)}")
        pmeta.append(dict(case=case_js, bad=bad, got=dict(pinv=str(Pd.tolist())[:300])))

    # ---------------- pinv, dense operators: LSTSQ oracle and the CG composition; data scaled from 1e-8 to 1e8, some larger sizes
    for _ in range(ctx.budget(170, 1400)):
        big = rnd.random() < 0.12
        m, n, cplx, sv, D = gen_matrix(rnd, g, rnd.randint(15, 40) if big else nmax, flat=big)
        f32 = rnd.random() < 0.15
        algn = rnd.choice(["none", "Auto", "LSTSQ", "CG", "CG", "CGtight"])
        if algn == "CGtight" and f32:
            algn = "CG"      # a tolerance below single precision is never met: CG's behaviour then is C12's subject
        if algn.startswith("CG") and cplx and "pinv_cg_complex_typeerror" in present:
            bump(skipped, "pinv_cg_complex_typeerror")
            cplx, D = False, D.real + D.imag
            sv = np.linalg.svd(D, compute_uv=False)
            if sv.min() < 0.2 or sv.max() / sv.min() > 60:
                continue
        herm, chain = None, None
        if not big and rnd.random() < 0.12:
            m, n, sv, D, herm = hermitian_variant(rnd, g, nmax, cplx)       # declared SelfAdjoint / PSD, indefinite included
            bump(hist, "pinv:annotated:" + herm)
        elif not big and rnd.random() < 0.15:
            # a Product whose factors change the inner dimension (wide @ tall, tall @ tall, wide @ wide, three factors): pinv of the
            # product is NOT the reversed product of the factors' pseudo-inverses; inner dimensions >= min(m, n) keep the product of full rank
            for _ in range(50):
                nf = rnd.choice([2, 2, 3])
                m, n = rnd.randint(1, nmax), rnd.randint(1, nmax)
                inner = [rnd.randint(min(m, n), nmax + 1) for _ in range(nf - 1)]
                dims = [m] + inner + [n]
                chain = [g.standard_normal((dims[i], dims[i + 1])) + (1j * g.standard_normal((dims[i], dims[i + 1])) if cplx else 0) for i in range(nf)]
                D = chain[0]
                for Fm in chain[1:]:
                    D = D @ Fm
                sv = np.linalg.svd(D, compute_uv=False)
                if sv.min() > 0 and sv.max() / sv.min() < 60 and any(d != m for d in inner):
                    break
            else:
                chain = None
            if chain is not None:
                bump(hist, "pinv:product_chain:" + "x".join(str(d) for d in dims))
        scl = 1.0
        if chain is None and rnd.random() < 0.6:
            scl = 10.0 ** (rnd.uniform(-3, 3) if f32 else rnd.uniform(-8, 8))
            D, sv = D * scl, sv * scl
        colspread = 0
        if chain is None and herm is None and not algn.startswith("CG") and not f32 and rnd.random() < (0.6 if m < n else 0.25):
            # badly scaled columns (norms spread over up to 10 decades): the minimum-norm clause is about the ORIGINAL variables
            colspread = rnd.choice([1, 1, 2, 3, 5])
            D = D * (10.0 ** np.array([rnd.uniform(-colspread, colspread) for _ in range(n)]))[None, :]
            sv = np.linalg.svd(D, compute_uv=False)
        dt = ("complex64" if f32 else "complex128") if cplx else ("float32" if f32 else "float64")
        if chain is not None:
            from cola import ops as _o
            wname = "ProductChain"
            A = _o.Dense(chain[0].astype(getattr(np, dt)))
            for Fm in chain[1:]:
                A = A @ _o.Dense(Fm.astype(getattr(np, dt)))
        else:
            wname, A = wrap(rnd, g, D, dt, plain=(scl != 1.0 or big or colspread > 0), herm=herm)
        Dd = np.asarray(A.to_dense()).astype(np.complex128)
        k = rnd.choice([1, 2, 3])
        B = (g.standard_normal((m, k)) + (1j * g.standard_normal((m, k)) if cplx else 0)).astype(getattr(np, dt))
        cond = float(sv.max() / sv.min())
        base = 1e-3 if f32 else (1e-5 if algn == "CG" else 1e-8)
        tol = base * max(1.0, cond ** 2 if algn.startswith("CG") else cond)
        if colspread:
            tol = max(1e-9, 1e-14 * cond * max(m, n))      # LAPACK's accuracy for the minimum-norm solution: eps * cond
        ref = np.linalg.pinv(Dd) @ B.astype(np.complex128)
        sc = float(np.abs(ref).max())
        precision = 1e-6 if f32 else 1e-15
        eps_pinned = precision * max(m, n)
        if algn.startswith("CG") and "pinv_cg_jitter_not_scale_covariant" in present:
            dev = eps_pinned * float(np.abs(Dd.conj().T @ B.astype(np.complex128)).max()) / sc      # relative size of the extra term cons * A^H b
            if dev > tol / 30:
                bump(skipped, "pinv_cg_jitter_not_scale_covariant")
                continue
        case_js = dict(fn="pinv", m=m, n=n, dt=dt, wrap=wname, alg=algn, scale=scl, M=D.tolist() if not cplx else [[str(x) for x in rr] for rr in D], B=B.tolist() if not cplx else "complex")
        evals += 1
        bump(hist, f"pinv:{algn}:{'wide' if m < n else 'square' if m == n else 'tall'}" + (":big" if big else ""))
        if scl != 1.0:
            bump(hist, "pinv:scale:1e%+03d" % (2 * int(np.floor(np.log10(scl) / 2))))
        if colspread:
            bump(hist, f"pinv:column_spread_1e{colspread}:{'wide' if m < n else 'square' if m == n else 'tall'}")
        distinct.add(core.digest(case_js))
        if len(samples) < 4:
            samples.append({kk: v for kk, v in case_js.items() if kk not in ("M", "B")})
        algo = dict(none=None, Auto=Auto(), LSTSQ=LSTSQ(), CG=CG(), CGtight=CG(tol=1e-10, max_iters=2000))[algn]
        try:
            Pn = pinv(A) if algo is None else pinv(A, algo)
            X = np.asarray(Pn @ B)
            x1 = np.asarray(Pn @ B[:, 0])
        except Exception as e:
            mism.append(dict(oracle_fail=True, case=case_js, got=f"{type(e).__name__}: {str(e)[:200]}", failed_clauses=["raised on an input the model accepts"]))
            continue
        # the independent oracle decides on cola's output: minimum-norm least-squares solution from numpy (relative to its own size)
        bad = []
        if not (np.abs(X - ref).max() <= tol * sc):
            bad.append(f"pinv(A) @ B differs from the minimum-norm least-squares solution by {np.abs(X - ref).max() / sc:.3g} (relative; tolerance {tol:.3g})")
        if not (np.abs(x1 - X[:, 0]).max() <= tol * sc):
            bad.append("pinv(A) @ b differs from the first column of pinv(A) @ B")
        if algn.startswith("CG"):
            try:
                Mop = A.H @ A
                Op = IterativeOperatorWInfo(Mop, algo)
                Z = A.H @ B
                Y = np.asarray(Op @ Z)
                eps = eps_pinned if "pinv_cg_jitter_not_scale_covariant" in present else 0.0
                res = float(np.abs(np.asarray(Mop.to_dense()) @ Y - np.asarray(Z)).max())
                if not (res <= (1e-2 if f32 else 1e-4) * float(np.abs(np.asarray(Z)).max())):
                    mism.append(dict(oracle_fail=bool(bad), case=case_js, failed_clauses=bad + [f"the CG solve oracle leaves residual {res:.3g}"]))
                    continue
                if big:
                    # too large for the rational model: compare with the composition in floating point
                    comp = Y + eps * np.asarray(Z)
                    dis = not (np.abs(comp - X).max() <= 1e-9 * float(np.abs(X).max()))
                    if bad or dis:
                        mism.append(dict(oracle_fail=bool(bad), case=case_js, failed_clauses=bad, model_disagrees=dis, got=dict(X=str(X.tolist())[:300])))
                    continue
                stol = ((1e-5 if f32 else 1e-12) * float(np.abs(X).max())) ** 2
                pterms.append(f"mkpcase16 {m} {n} (PRCg {L.qmat(np.asarray(A.to_dense()))} {L.qmat(Y)} {L.qic(complex(eps))} {k} {L.qmat(B)}) {L.qc_lit(stol)} {L.qmat(X)}")
                pmeta.append(dict(case=case_js, bad=bad, got=dict(X=str(X.tolist())[:300])))
            except Exception as e:
                mism.append(dict(oracle_fail=bool(bad), case=case_js, failed_clauses=bad, harness_error=f"CG oracle data: {type(e).__name__}: {e}"))
        else:
            # LSTSQ rule: the operator applies the lstsq oracle; check the oracle's specification on its answer
            xnp = A.xnp
            Xo = np.asarray(xnp.lstsq(A.to_dense(), B))
            if not np.array_equal(Xo, X):
                bad2 = ["pinv(A, LSTSQ) @ B differs from xnp.lstsq(A.to_dense(), B)"]
                mism.append(dict(oracle_fail=bool(bad), case=case_js, failed_clauses=bad + bad2, model_disagrees=True))
                continue
            amax, xmax, bmax = float(np.abs(Dd).max()), float(np.abs(Xo).max()), float(np.abs(B).max())
            ne = float(np.abs(Dd.conj().T @ (Dd @ Xo - B)).max())
            y, *_ = np.linalg.lstsq(Dd.conj().T, Xo.astype(np.complex128), rcond=None)
            rng_res = float(np.abs(Dd.conj().T @ y - Xo).max())
            ht = (1e-3 if f32 else (1e-13 if colspread else 1e-9)) * cond * max(m, n)
            if not (ne <= ht * amax * (amax * xmax + bmax) and rng_res <= ht * xmax):
                mism.append(dict(oracle_fail=bool(bad), case=case_js, failed_clauses=bad + [f"the lstsq oracle violates its specification (normal equations {ne:.3g}, range of A^H {rng_res:.3g})"]))
                continue
            if bad:
                mism.append(dict(oracle_fail=True, case=case_js, failed_clauses=bad, got=dict(X=str(X.tolist())[:300])))

    # ---------------- Auto rules: the observed algorithm for these (small) operators is the dense one
    auto_svd_dense = [i for i, mm in enumerate(smeta) if mm["case"].get("alg") in ("none", "Auto") and mm["case"].get("kind") is None]
    rc, out = core.coqc_text("c16_auto", HEADER + "Eval vm_compute in (check_auto16 true true true, check_auto16 false false false).\n")
    if rc != 0 or "(true, true)" not in out.replace("\n", " "):
        mism.append(dict(oracle_fail=False, harness_error=f"Auto table of svd/pinv: rc={rc} {out[-500:]}"))
    # ---------------- in-Coq comparison
    for name, decl, terms, meta, chk in (("c16_s", "scase", sterms, smeta, "check_scase"), ("c16_p", "pcase16", pterms, pmeta, "check_pcase16")):
        fails = set()
        outs, shard = L.run_shards(name, HEADER, decl, terms, f"Eval vm_compute in (failing_from {chk} 0 cases).", shard=60)
        for si, (rc, out) in enumerate(outs):
            lst = L.parse_natlist(out) if rc == 0 else None
            if lst is None:
                mism.append(dict(oracle_fail=False, harness_error=f"Coq shard {name}_{si}: rc={rc}\n{out[-1500:]}"))
                continue
            fails |= {si * shard + i for i in lst}
        for i, mm in enumerate(meta):
            if i in fails or mm["bad"]:
                mism.append(dict(oracle_fail=bool(mm["bad"]), case=mm["case"], got=mm["got"], failed_clauses=mm["bad"], model_disagrees=(i in fails)))
    return dict(
        evaluations=evals, distinct_nontrivial=len(distinct),
        rule="svd: operators m<n, m=n, m>n (real/complex, 4 wrappers) with prescribed separated singular values x {no alg, Auto, DenseSVD, Lanczos caps below/at/above/default, LOBPCG} x k x which; "
             "oracle outputs as exact rationals, model compared exactly (dense) / at 1e-9 (back-substitution); Identity/Diagonal rules exact; pinv: reciprocal rules exact to 1e-13, "
             "LSTSQ = lstsq oracle (spec checked), CG composition with the solve as oracle data; distinct by case hash",
        samples=samples, mismatches=mism, findings=fnd,
        extra=dict(histogram=hist, skipped_spoiled_region=skipped, steering_probes=steer, svd_cases_in_coq=len(sterms), pinv_cases_in_coq=len(pterms), ritz_only_cases_below=below,
                   auto_rule_observations=len(auto_svd_dense)))
