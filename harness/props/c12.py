"""C12 - conjugate gradients: Krylov-optimal iterate and stopping contract (DESIGN.md section 5, C12)."""
import numpy as np
import shim  # noqa: F401
import cola
from cola.ops import Dense
from cola.linalg.inverse.cg import cg
import core
import c12_lib as L

TRUSTED_BASE = [
    "Coq 8.16.1 kernel + vm_compute with primitive floats (PrimFloat, binary64) for the execution instances; the theorems of PropsC12.v are closed under the global context (abstract scalars/vectors, no axioms)",
    "hand-written Gallina transcription coq/C12_Model.v of cola/linalg/inverse/cg.py + cola/utils/torch_tqdm.py (while_loop_winfo), tied to /repo by this correspondence check (model evaluated inside Coq by coq/C12_Check.v)",
    "harness: c12_lib.py (generators, runner, Coq emitter, dense numpy Krylov-optimum oracle, stability filter), shim.py",
    "numpy primitives (@, linalg.norm, sum, where, broadcasting) are modelled as exact-order-free float operations, not verified; comparison tolerance 1e-9 relative absorbs summation order",
]
ASSUMPTIONS = [
    "Tier F: iterates, counts and residual histories are compared only on inputs on which the CG recurrence is numerically stable (binary64 vs extended precision of a reference recurrence agree to 1e-12 on iterates and 1e-10 on residuals, same step count, stopping margins > 1e-5); the others are counted as skipped_unstable and go through the contract oracle only",
    "the exact-arithmetic optimality theorem (cg_optimal) is about the recurrence without breakdown (gamma_k, <p_k, A p_k> non-zero), i.e. with the 1e-40 guards inactive; the guards themselves are covered by the contract theorems and the correspondence",
    "preconditioners enter the model as dense matrices (the operator P is applied through cola, its matrix is P @ I)",
]

OPT_TOL = 1e-6


def findings():
    from cola.linalg.inverse.cg import cg
    out = []
    A = np.diag([1.0, 2.0])
    b = np.array([3.0, 4.0])
    x0 = np.array([1.0, 0.0])
    witness = "cg(PSD(Dense(diag(1,2))), b=[3,4], x0=[1,0], max_iters=1, tol=1e-12)"
    try:
        x, _ = cg(cola.PSD(Dense(A)), b, x0=x0.copy(), max_iters=1, tol=1e-12)
        xo = L.krylov_optimum(A, np.eye(2), b, x0, 1)
        x_k0, _ = cg(cola.PSD(Dense(A)), b, x0=x0.copy(), max_iters=0, tol=1e-12)
        present = bool(np.linalg.norm(np.asarray(x) - xo) > 1e-6 or np.linalg.norm(np.asarray(x_k0) - x0) > 1e-6)
        got = "x1=%s (Krylov optimum of x0+K_1 is %s); with max_iters=0 it returns %s instead of x0" % (np.asarray(x).tolist(), xo.tolist(), np.asarray(x_k0).tolist())
    except Exception as e:  # noqa
        present, got = True, "raised %s: %s" % (type(e).__name__, e)
    out.append(dict(flag="cg_x0_unscaled", present=present, witness=witness, got=got, expected="[2.111..., 2.222...] and [1, 0]",
                    what="x0 is not divided by the column norm ||b|| while b is: for x0 != 0 and ||b|| != 1 the k-step iterate is the Krylov optimum started from ||b||*x0, not from x0 (max_iters=0 returns ||b||*x0)"))
    # the documented 1-D x0 next to a right-hand side that arrives as (n, 1): inv(A, CG(x0=...)) @ b, solve(A, b, CG(x0=...))
    A3 = np.array([[2.0, 1.0, 0.0], [1.0, 3.0, 1.0], [0.0, 1.0, 4.0]])
    b3 = np.array([1.0, 2.0, 3.0])
    try:
        x = np.asarray(cola.linalg.solve(cola.PSD(Dense(A3)), b3, cola.linalg.CG(x0=np.ones(3))))
        present = bool(x.shape != (3,) or np.linalg.norm(A3 @ x - b3) > 1e-4)
        got = "x=%s" % x.tolist()
    except Exception as e:  # noqa
        present, got = True, "raised %s: %s" % (type(e).__name__, str(e)[:80])
    out.append(dict(flag="iterative_x0_vector", present=present, witness="solve(PSD(Dense([[2,1,0],[1,3,1],[0,1,4]])), [1,2,3], CG(x0=ones(3)))", got=got,
                    expected="[0.3333, 0.3333, 0.6667]",
                    what="inv(A, CG(x0=v)) @ b / solve(A, b, CG(x0=v)) with the documented 1-D guess v fails: the lazy inverse hands cg an (n,1) right-hand side and cg reshapes x0 only for a 1-D one (AssertionError)"))
    # do_safe_div substitutes 1e-40, a float32 subnormal, for a vanishing denominator
    try:
        with np.errstate(all="ignore"):
            xc, _ = cg(cola.PSD(Dense(np.array([[4]], dtype=np.complex64))), np.array([[2, 0]], dtype=np.complex64))
            xf, _ = cg(cola.PSD(Dense(np.array([[4, 1], [1, 3]], dtype=np.float32))), np.array([[2, 0], [1, 0]], dtype=np.float32), x0=np.ones((2, 2), dtype=np.float32))
        xc, xf = np.asarray(xc), np.asarray(xf)
        present = bool(not np.all(np.isfinite(xc)) or not np.all(np.isfinite(xf)) or xc[0, 1] != 0 or np.any(xf[:, 1] != 0))
        got = "complex64 zero column: %s; float32 zero column with x0=1: %s" % (xc[:, 1].tolist(), xf[:, 1].tolist())
    except Exception as e:  # noqa
        present, got = True, "raised %s: %s" % (type(e).__name__, str(e)[:80])
    out.append(dict(flag="cg_safe_div_subnormal", present=present, witness="cg(PSD(Dense([[4]], complex64)), [[2,0]]) and cg(PSD(Dense([[4,1],[1,3]], float32)), [[2,0],[1,0]], x0=ones((2,2)))", got=got,
                    expected="the zero right-hand-side column is returned as exactly 0 in every dtype",
                    what="do_safe_div replaces a vanishing denominator by 1e-40, a float32 subnormal: a zero right-hand-side column is returned as NaN in complex64 (0/1e-40 overflows in the complex division) and, with x0 != 0, in float32 (x0/1e-40 overflows)"))
    # the zero test of do_safe_div is the absolute 1e-40, applied to p^H A p and gamma, which scale with the operator and preconditioner
    try:
        Aw = np.diag([1.0, 2.0, 3.0])
        bw = np.array([1.0, 1.0, 1.0])
        x, _ = cg(cola.PSD(Dense(Aw)), bw, P=Dense(1e-21 * np.eye(3)), max_iters=2, tol=1e-12)
        xo = L.krylov_optimum(Aw, np.eye(3), bw, np.zeros(3), 2)
        d = float(np.linalg.norm(np.asarray(x) - xo) / np.linalg.norm(xo))
        present = bool(not np.isfinite(d) or d > 1e-6)
        got = "relative distance %.3g between the 2-step iterate and the Krylov optimum" % d
    except Exception as e:  # noqa
        present, got = True, "raised %s: %s" % (type(e).__name__, str(e)[:80])
    out.append(dict(flag="cg_absolute_small_guard", present=present, witness="cg(PSD(Dense(diag(1,2,3))), [1,1,1], P=Dense(1e-21*I), max_iters=2, tol=1e-12)", got=got,
                    expected="the same iterate as with P = I (CG is invariant under a positive scaling of the preconditioner)",
                    what="do_safe_div calls a denominator zero when it is below the absolute 1e-40; p^H A p scales like scale(P)^2 * scale(A) and gamma like scale(P), so for a valid "
                         "SPD preconditioner or operator of small scale (scale(P)^2*scale(A) < 1e-40) the step length is gamma/1e-40-or-1 and the iterates are not Krylov-optimal"))
    return out


# ------------------------------------------------------------------------------------------------ case generation
def gen_system(rs, ctx, sid, nmax, kmax_exp, flag_present, region=False):
    n = int(rs.integers(1, nmax + 1))
    cplx = bool(rs.random() < 0.4)
    kappa = float(10 ** rs.uniform(0, kmax_exp))
    kind = L.SPECTRA[int(rs.integers(0, len(L.SPECTRA)))]
    A = L.make_spd(rs, n, cplx, kappa, kind)
    pk = L.PRECONDS[int(rs.integers(0, len(L.PRECONDS)))]
    Pop, Pd = L.make_precond(rs, pk, A, cplx)
    # overall scales of the operator and of the preconditioner, jointly and separately, from 1e-25 to 1e25: CG is invariant
    # under both (apart from the scale of x), only an absolute or mis-scaled threshold can notice
    sA = sP = 1.0
    u = rs.random()
    if u < 0.45:
        sA = float(10 ** rs.uniform(-25, 25)) if rs.random() < 0.7 else 1.0
        sP = float(10 ** rs.uniform(-25, 25)) if (rs.random() < 0.7 or sA == 1.0) else 1.0
        if rs.random() < 0.2:
            sP = sA
        A = A * sA
        if sP != 1.0:
            Pd = Pd * sP
            Pop = Dense(Pd)
    nc = int(rs.choice([1, 1, 2, 3]))
    B = rs.normal(size=(n, nc)) + (1j * rs.normal(size=(n, nc)) if cplx else 0)
    x0kind = str(rs.choice(["none", "none", "zeros", "random", "warm"]))
    if region:
        x0kind = str(rs.choice(["random", "warm"]))
    spread = "unit"
    if x0kind in ("random", "warm") and flag_present and not region:
        B = B / np.linalg.norm(B, axis=0, keepdims=True)        # the defect's region is x0 != 0 with ||b|| != 1
    else:
        # column norms spread over 12 orders of magnitude, the whole batch placed anywhere between 1e-14 and 1e8 in
        # absolute terms (the code normalises every column: only an absolute threshold could notice)
        spread = "12 orders, absolute 1e-14..1e8"
        B = B * 10.0 ** (rs.uniform(-6, 6, size=(1, nc)) + rs.uniform(-8, 2))
        if nc > 1 and rs.random() < 0.3 and (x0kind not in ("random", "warm") or not flag_present):
            B[:, int(rs.integers(0, nc))] = 0
            spread = "zero column"
        elif nc == 1 and rs.random() < 0.06:
            B[:, 0] = 0
            spread = "zero column"
    rnd = (rs.normal(size=(n, nc)) + (1j * rs.normal(size=(n, nc)) if cplx else 0)).astype(B.dtype)
    if x0kind == "warm":        # a warm start accurate to 1e-10 .. 1e-4 relative
        Xs = np.linalg.solve(A, B)
        X0 = (Xs + float(rs.choice([1e-10, 1e-8, 1e-6, 1e-4])) * np.linalg.norm(Xs, axis=0, keepdims=True) / np.sqrt(n) * rnd).astype(B.dtype)
    else:
        X0 = None if x0kind == "none" else (np.zeros_like(B) if x0kind == "zeros" else rnd)
    return dict(A=A, Pop=Pop, Pd=Pd, B=B, X0=X0, cplx=cplx, sys_id=sid, kappa=kappa, kind=kind, pk=pk, x0kind=x0kind, sA=sA, sP=sP,
                spread=spread, n=n, nc=nc, vector_api=bool(nc == 1 and rs.random() < 0.5))


def mixture(rs, s):
    """3..10 right-hand-side columns of very different convergence speed in one call, default x0: columns already solved
    (zero), columns solved in one step (b = A v, v an eigenvector of P A), and slow (random) ones; norms spread as usual"""
    n, cplx, A = s["n"], s["cplx"], s["A"]
    nc = int(rs.integers(3, 11)) if rs.random() < 0.85 else int(rs.choice([16, 17, 32, 33, 64, 65]))    # also past round column counts
    w, Vv = np.linalg.eig(s["Pd"] @ A)
    kinds = [str(rs.choice(["zero", "fast", "fast", "slow"])) for _ in range(nc)]
    kinds[int(rs.integers(0, nc))] = "slow"
    B = np.zeros((n, nc), dtype=A.dtype)
    for j, k in enumerate(kinds):
        if k == "fast":
            v = Vv[:, int(rs.integers(0, n))]
            v = v if cplx else np.real(v)
            B[:, j] = A @ v
        elif k == "slow":
            B[:, j] = rs.normal(size=n) + (1j * rs.normal(size=n) if cplx else 0)
    B = B * 10.0 ** (rs.uniform(-6, 6, size=(1, nc)) + rs.uniform(-8, 2))
    s.update(B=B, X0=None if rs.random() < 0.7 else np.zeros_like(B), nc=nc, x0kind="none", vector_api=False,
             spread="mixture zero/fast/slow x%d" % nc)


def describe(c, o=None):
    d = dict(n=c["n"], nc=c["nc"], complex=c["cplx"], kappa=c["kappa"], spectrum=c["kind"], precond=c["pk"], x0=c["x0kind"],
             rhs=c["spread"], tol=c["tol"], max_iters=c["max_iters"], vector_api=c["vector_api"], stream=c.get("stream"))
    if c["n"] <= 6:
        d.update(A=c["A"].tolist(), P=c["Pd"].tolist(), B=c["B"].tolist(), X0=None if c["X0"] is None else c["X0"].tolist())
    if o is not None:
        d["observed"] = dict(ok=o.get("ok"), err=o.get("err"), steps=o.get("steps"), iterations=o.get("iterations"),
                             n_errors=len(o.get("errors", [])), x=(o["x"].tolist() if o.get("ok") and c["n"] <= 6 else None))
    return core_json(d)


def dump_case(c, o):
    """debugging aid: VERIF_DUMP=<dir> stores the full arrays of every failing case"""
    import os, pickle
    d = os.environ.get("VERIF_DUMP")
    if d:
        os.makedirs(d, exist_ok=True)
        k = len(os.listdir(d))
        with open(os.path.join(d, "case_%d.pkl" % k), "wb") as f:
            pickle.dump((dict((a, b) for a, b in c.items() if a != "Pop"), o), f)


def core_json(x):
    if isinstance(x, dict):
        return {k: core_json(v) for k, v in x.items()}
    if isinstance(x, (list, tuple)):
        return [core_json(v) for v in x]
    if isinstance(x, complex):
        return [x.real, x.imag]
    if isinstance(x, (np.floating, np.integer, np.bool_)):
        return x.item()
    return x


def run(ctx):
    fnd = findings()
    flag = any(f["flag"] == "cg_x0_unscaled" and f["present"] for f in fnd)
    x0vec_ok = not any(f["flag"] == "iterative_x0_vector" and f["present"] for f in fnd)
    div_small = any(f["flag"] == "cg_safe_div_subnormal" and f["present"] for f in fnd)
    abs_guard = any(f["flag"] == "cg_absolute_small_guard" and f["present"] for f in fnd)
    rs = L.np_rng(ctx)
    n_sys = ctx.budget(140, 500)
    n_stop = ctx.budget(240, 900)
    n_large = ctx.budget(60, 250)
    n_region = ctx.budget(25, 150)
    nmax = ctx.budget(14, 24)
    cases = []
    sid = 0
    # stream 1: iterates after k steps (max_iters = k), tight tolerance
    for _ in range(n_sys):
        s = gen_system(rs, ctx, sid, nmax, 3, flag)
        sid += 1
        ks = sorted(set([0, 1] + [int(x) for x in rs.integers(0, 2 * s["n"] + 1, size=5)]))
        for k in ks:
            cases.append(dict(s, tol=1e-12, max_iters=k, stream="iterates"))
    # stream 2: stopping by tolerance
    for _ in range(n_stop):
        s = gen_system(rs, ctx, sid, nmax, 3, flag)
        sid += 1
        tol = float(10 ** rs.uniform(-12, -1))
        if rs.random() < 0.4 and s["n"] >= 3:
            mixture(rs, s)
            tol = float(10 ** rs.uniform(-10, -2))
        K = int(rs.choice([2 * s["n"], s["n"], int(rs.integers(0, 2 * s["n"] + 1))]))
        if rs.random() < 0.35:      # caps far beyond the steps actually taken, past the usual round numbers (the default is 1000 / 5000)
            K = int(rs.choice([99, 100, 101, 128, 199, 200, 201, 256, 257, 500, 999, 1000, 1001, 1024, 2500, 5000]))
        cases.append(dict(s, tol=tol, max_iters=K, stream="stopping"))
    # stream 5: LONG runs (more than 50, 64, 100, 128 steps): large systems with an evenly spread spectrum, on which the recurrence
    # stays numerically stable for that long, so that both the in-Coq model and the Krylov-optimum oracle apply to the k-step iterate
    for li in range(ctx.budget(4, 14)):
        big = ctx.tier == "thorough" and li % 3 == 2
        n = int(rs.integers(230, 271)) if big else int(rs.integers(100, 146))
        cplx = bool(li % 3 == 1)
        kappa = float(rs.choice([3e3, 1e4])) if big else float(10 ** rs.uniform(2.5, 3.5))
        A = L.make_spd(rs, n, cplx, kappa, "uniform")
        pk = str(rs.choice(["none", "jacobi", "jacobi", "spd"]))
        Pop, Pd = L.make_precond(rs, pk, A, cplx)
        nc = int(rs.choice([1, 1, 2]))
        B = (rs.normal(size=(n, nc)) + (1j * rs.normal(size=(n, nc)) if cplx else 0)) * 10.0 ** rs.uniform(-3, 3, size=(1, nc))
        x0kind = "random" if (not flag and rs.random() < 0.6) else "none"
        X0 = (rs.normal(size=(n, nc)) + (1j * rs.normal(size=(n, nc)) if cplx else 0)).astype(B.dtype) if x0kind == "random" else None
        base = dict(A=A, Pop=Pop, Pd=Pd, B=B, X0=X0, cplx=cplx, sys_id=sid, kappa=kappa, kind="uniform", pk=pk, x0kind=x0kind,
                    spread="long run", n=n, nc=nc, vector_api=False)
        sid += 1
        ks = [51, 65, int(rs.integers(52, 64)), int(rs.integers(66, 100))] + ([101, 129, int(rs.integers(102, 128))] if big else [])
        for k in sorted(set(ks)):
            cases.append(dict(base, tol=1e-13, max_iters=k, stream="long_iterates"))
    # stream 4: the region of the recorded defect (x0 != 0, ||b|| != 1): model at the probed flag value vs implementation
    for _ in range(n_region):
        s = gen_system(rs, ctx, sid, min(nmax, 10), 2, flag, region=True)
        sid += 1
        cases.append(dict(s, tol=float(10 ** rs.uniform(-12, -1)), max_iters=int(rs.integers(0, 2 * s["n"] + 1)), stream="x0_region"))
    for c in cases:
        c["div_small"] = div_small
        c["abs_guard"] = abs_guard
    obs = [L.run_impl(c) for c in cases]
    for c, o in zip(cases, obs):        # the state one step before the exit, for the "did not stop too late" clause
        if c["stream"] == "stopping" and o.get("ok") and o["steps"] >= 1:
            c["prev_obs"] = L.run_impl(dict(c, max_iters=o["steps"] - 1))
    # ---- model vs implementation inside Coq, on the numerically stable cases
    stab = [L.stability(c, x0_unscaled=flag) for c in cases]
    stable = [i for i, (c, o, st) in enumerate(zip(cases, obs, stab))
              if o.get("ok") and st["same_steps"] and st["dev_x"] <= 3e-13 and st["dev_r"] <= 3e-11 and st["min_margin"] >= 1e-5]
    margin_ties = sum(1 for o, st in zip(obs, stab) if o.get("ok") and st["same_steps"] and st["dev_x"] <= 3e-13 and st["dev_r"] <= 3e-11 and st["min_margin"] < 1e-5)
    items = [(cases[i], obs[i]) for i in stable]
    mism = []
    short = [j for j, i in enumerate(stable) if cases[i]["stream"] != "long_iterates"]
    longs = [j for j, i in enumerate(stable) if cases[i]["stream"] == "long_iterates"]
    failing, near = [], []
    for name, sel, shard in (("c12", short, 120), ("c12L", longs, 4)):      # long runs carry 100..270-dimensional matrices: few cases per file
        f_, n_, err = L.eval_in_coq(name, [items[j] for j in sel], flag, shard=shard, div_small=div_small, abs_guard=abs_guard)
        if err:
            mism.append(dict(oracle_fail=False, harness_error=err))
        else:
            failing += [sel[j] for j in f_]
            near += [sel[j] for j in n_]
    failset = {stable[i] for i in failing}
    nearset = {stable[i] for i in near}
    # ---- independent oracle on every case
    opt_checked, opt_worst = 0, 0.0
    opt_rel_checked, opt_rel_worst = 0, 0.0
    guard_cases = 0
    for i, (c, o, st) in enumerate(zip(cases, obs, stab)):
        c["check_opt"] = bool(st["same_steps"] and st["sens_A"] <= 1e-9)
        c["guard_region"] = bool(abs_guard and st.get("guard_hit", True))      # region of the recorded defect cg_absolute_small_guard
        guard_cases += int(c["guard_region"])
        c["sens_rel"] = st.get("sens_rel", np.inf) if st["same_steps"] else np.inf
        bad, info = L.oracle(c, o, flag, OPT_TOL)
        opt_rel_checked += int("opt_dist_rel" in info)
        opt_rel_worst = max(opt_rel_worst, info.get("opt_dist_rel", 0.0))
        if "opt_dist" in info:
            opt_checked += 1
            opt_worst = max(opt_worst, info["opt_dist"])
        if bad or i in failset:
            mism.append(dict(oracle_fail=bool(bad), case=describe(c, o), failed_clauses=bad, model_disagrees=(i in failset)))
            dump_case(c, o)
    # ---- stream 3: large / ill-conditioned systems, oracle only (contract clauses; optimality where stable)
    large, large_opt = 0, 0
    for _ in range(n_large):
        n = int(rs.integers(30, ctx.budget(140, 300) + 1))       # sizes past 64, 100, 128 (and 256 in the thorough tier)
        s = gen_system(rs, ctx, sid, 1, 6, flag)
        sid += 1
        cplx = s["cplx"]
        kappa = float(10 ** rs.uniform(0, 6))
        kind = L.SPECTRA[int(rs.integers(0, len(L.SPECTRA)))]
        A = L.make_spd(rs, n, cplx, kappa, kind)
        pk = str(rs.choice(["none", "jacobi", "spd"]))
        Pop, Pd = L.make_precond(rs, pk, A, cplx)
        nc = int(rs.choice([1, 1, 2, 4]))
        B = (rs.normal(size=(n, nc)) + (1j * rs.normal(size=(n, nc)) if cplx else 0)) * 10.0 ** (rs.uniform(-6, 6, size=(1, nc)) + rs.uniform(-8, 2))
        c = dict(A=A, Pop=Pop, Pd=Pd, B=B, X0=None, cplx=cplx, sys_id=sid, kappa=kappa, kind=kind, pk=pk, x0kind="none",
                 spread="12 orders, absolute 1e-14..1e8", n=n, nc=nc, vector_api=bool(nc == 1), tol=float(10 ** rs.uniform(-12, -1)),
                 max_iters=int(rs.integers(0, 2 * n + 1)), stream="large", div_small=div_small, abs_guard=abs_guard)
        o = L.run_impl(c)
        st = L.stability(c, x0_unscaled=flag) if n <= 80 else dict(same_steps=False, dev_x=np.inf, sens_A=np.inf)
        c["check_opt"] = bool(st["same_steps"] and st["sens_A"] <= 1e-9)
        bad, info = L.oracle(c, o, flag, OPT_TOL)
        large += 1
        large_opt += int("opt_dist" in info)
        cases.append(c)
        obs.append(o)
        if bad:
            mism.append(dict(oracle_fail=True, case=describe(c, o), failed_clauses=bad, model_disagrees=False))
    # ---- homogeneity in b (x0 = 0) and the inv(A, CG(...)) @ b entry point
    homog, invpath = 0, 0
    base = [c for c in cases if c["stream"] == "iterates" and c["x0kind"] not in ("random", "warm")]
    for c in base[:ctx.budget(150, 1000)]:
        o1 = L.run_impl(c)
        if not o1.get("ok"):
            continue
        alpha = [2.0 ** int(rs.integers(-20, 21)), -1.0, float(rs.uniform(0.1, 10)), -float(rs.uniform(0.1, 10))][int(rs.integers(0, 4))]
        if c["cplx"] and rs.random() < 0.5:
            alpha = complex(np.exp(1j * rs.uniform(0, 6.28)) * rs.uniform(0.1, 10))
        c2 = dict(c, B=c["B"] * alpha)
        o2 = L.run_impl(c2)
        homog += 1
        exact = (abs(alpha) in (1.0,) or (isinstance(alpha, float) and np.log2(abs(alpha)) == int(np.log2(abs(alpha)))))
        st = L.stability(c2, x0_unscaled=flag)
        okc = o2.get("ok") and o2["steps"] == o1["steps"]
        if okc:
            d = np.max(np.abs(o2["x"] - alpha * o1["x"]), axis=0)
            scl = np.max(np.abs(alpha * o1["x"]), axis=0)
            okc = bool(np.all(d == 0)) if exact else bool(np.all(d <= 1e-9 * scl))
        stable_h = st["same_steps"] and st["dev_x"] <= 3e-13 and st["dev_r"] <= 3e-11 and st["min_margin"] >= 1e-5
        if not okc and (exact or stable_h):
            mism.append(dict(oracle_fail=True, case=describe(c2, o2), failed_clauses=["cg(alpha*b) != alpha*cg(b) for alpha=%r (x0=0)" % (alpha,)], model_disagrees=False))
        # same call through inv(A, CG(...)) @ b
        if c["X0"] is None or not c["vector_api"] or x0vec_ok:
            o3 = L.run_impl(c, via_inv=True)
            invpath += 1
            if not (o3.get("ok") and np.array_equal(o3["x"], o1["x"]) and o3["iterations"] == o1["iterations"] and o3["steps"] == o1["steps"]):
                mism.append(dict(oracle_fail=True, case=describe(c, o3), failed_clauses=["inv(A, CG(...)) @ b differs from cg(A, b, ...)"], model_disagrees=False))
    # the documented 1-D guess through the lazy inverse (only once that path works), non-zero guesses included
    x0vec = 0
    if x0vec_ok:
        for c, o in [(c, o) for c, o in zip(cases, obs) if c["vector_api"] and c["X0"] is not None and c["x0kind"] in ("random", "warm") and o.get("ok")][:ctx.budget(60, 400)]:
            o3 = L.run_impl(c, via_inv=True)
            x0vec += 1
            if not (o3.get("ok") and np.array_equal(o3["x"], o["x"]) and o3["iterations"] == o["iterations"] and o3["steps"] == o["steps"]):
                mism.append(dict(oracle_fail=True, case=describe(c, o3), failed_clauses=["inv(A, CG(x0=1-D guess)) @ b differs from cg(A, b, x0=...)"], model_disagrees=False))
    # float32 / complex64: zero columns come back as exact zeros, everything finite, the others solved to single precision
    # (zero columns only once do_safe_div no longer divides by a float32 subnormal)
    lowprec = 0
    for _ in range(ctx.budget(40, 300)):
        n = int(rs.integers(1, 9))
        dt = [np.float32, np.complex64][int(rs.integers(0, 2))]
        cplx = dt is np.complex64
        scale32 = 10.0 ** rs.uniform(-12, 12) if rs.random() < 0.5 else 1.0
        A = (L.make_spd(rs, n, cplx, float(10 ** rs.uniform(0, 1.5)), "uniform") * scale32).astype(dt)
        nc = int(rs.integers(1, 4))
        B = (rs.normal(size=(n, nc)) + (1j * rs.normal(size=(n, nc)) if cplx else 0)).astype(dt)
        # a guess of ordinary size next to an operator of scale 1e12 makes ||r0||^2 * ||A|| leave the single-precision range
        X0 = None if (rs.random() < 0.5 or not 1e-3 <= scale32 <= 1e3) else (rs.normal(size=(n, nc)) + (1j * rs.normal(size=(n, nc)) if cplx else 0)).astype(dt)
        zc = -1
        if not div_small and rs.random() < 0.5:
            zc = int(rs.integers(0, nc))
            B[:, zc] = 0
        lowprec += 1
        try:
            x_in = None if X0 is None else X0.copy()
            with np.errstate(all="ignore"):
                x, _ = cg(cola.PSD(Dense(A)), B, x0=x_in, tol=1e-5, max_iters=4 * n + 4)
            x = np.asarray(x)
            badl = []
            if x_in is not None and not (x_in.dtype == X0.dtype and np.array_equal(x_in, X0)):
                badl.append("the caller's x0 array was modified by cg")
            if not np.all(np.isfinite(x)):
                badl.append("non-finite solution in %s" % np.dtype(dt).name)
            elif zc >= 0 and np.any(x[:, zc] != 0):
                badl.append("zero right-hand-side column not returned as zero in %s" % np.dtype(dt).name)
            else:
                Bn = np.linalg.norm(B, axis=0)
                rr = np.linalg.norm(A.astype(complex) @ x - B, axis=0) / np.where(Bn == 0, 1, Bn)
                # attainable in single precision: eps32 * ||A|| (||x|| + ||x0||) / ||b||, times 1e3
                xn = np.linalg.norm(x, axis=0) + (0 if X0 is None else np.linalg.norm(X0, axis=0))
                att32 = 1e3 * 1.2e-7 * float(np.linalg.norm(A.astype(complex), 2)) * xn / np.where(Bn == 0, 1, Bn)
                if np.any(rr > 1e-3 + att32):
                    badl.append("relative residual %s in %s" % (rr.tolist(), np.dtype(dt).name))
        except Exception as e:  # noqa
            badl = ["raised %s: %s" % (type(e).__name__, str(e)[:100])]
        if badl:
            mism.append(dict(oracle_fail=True, case=dict(A=core_json(A.tolist()), B=core_json(B.tolist()), X0=None if X0 is None else core_json(X0.tolist()), dtype=np.dtype(dt).name),
                             failed_clauses=badl, model_disagrees=False))
    # one CG(x0=...) object (and the lazy inverse built from it) used for two right-hand sides: the stored guess must survive
    reuse = 0
    if x0vec_ok:
        for _ in range(ctx.budget(30, 200)):
            n = int(rs.integers(2, 10))
            cplx = bool(rs.random() < 0.4)
            A = L.make_spd(rs, n, cplx, float(10 ** rs.uniform(0, 1.5)), "uniform")
            mk = lambda: (rs.normal(size=n) + (1j * rs.normal(size=n) if cplx else 0)).astype(A.dtype)
            x0, b1, b2 = mk(), mk(), mk()
            keep = x0.copy()
            alg = cola.linalg.CG(x0=x0, tol=1e-10, max_iters=4 * n)
            reuse += 1
            try:
                if rs.random() < 0.5:
                    y1, y2 = np.asarray(cola.linalg.solve(cola.PSD(Dense(A)), b1, alg)), np.asarray(cola.linalg.solve(cola.PSD(Dense(A)), b2, alg))
                else:
                    Iop = cola.linalg.inv(cola.PSD(Dense(A)), alg)
                    y1, y2 = np.asarray(Iop @ b1), np.asarray(Iop @ b2)
                badl = []
                if not np.array_equal(x0, keep):
                    badl.append("the x0 stored in the CG object was overwritten by a solve")
                for nm, yy, bb in (("first", y1, b1), ("second", y2, b2)):
                    rr = float(np.linalg.norm(A @ yy - bb) / np.linalg.norm(bb))
                    if not rr <= 1e-6:
                        badl.append("%s solve with the reused CG object: relative residual %.3e" % (nm, rr))
            except Exception as e:  # noqa
                badl = ["raised %s: %s" % (type(e).__name__, str(e)[:100])]
            if badl:
                mism.append(dict(oracle_fail=True, case=dict(n=n, complex=cplx, stream="reused_algorithm", A=core_json(A.tolist()) if n <= 4 else None), failed_clauses=badl, model_disagrees=False))
    # ---- statistics
    def hist(key, sel=None):
        h = {}
        for c in cases:
            v = c[key] if sel is None else sel(c)
            h[str(v)] = h.get(str(v), 0) + 1
        return h
    ok_obs = [o for o in obs if o.get("ok")]
    nontriv = {core.digest((c["sys_id"], c["tol"], c["max_iters"])) for c, o in zip(cases, obs)
               if o.get("ok") and c["n"] >= 2 and o["steps"] >= 1}
    samples = [describe(c, o) for c, o in list(zip(cases, obs))[:3]]
    return dict(
        evaluations=len(cases) + homog + invpath, distinct_nontrivial=len(nontriv),
        rule="Hermitian positive-definite systems Q diag(lambda) Q^H (real/complex, 5 spectrum shapes, kappa 1..1e3 for the in-Coq comparison and 1..1e6 for "
             "the contract oracle, n 1..%d in Coq, 30..%d oracle-only), 1-3 columns with norms spread over 12 orders (absolute 1e-14..1e8) and zero columns, x0 none/zero/random/warm start, "
             "5 preconditioner kinds, tol 1e-12..1e-1, max_iters 0..2n; non-trivial = n>=2 and at least one step; distinct by (system, tol, max_iters)" % (nmax, ctx.budget(120, 200)),
        samples=samples, mismatches=mism, findings=fnd,
        extra=dict(compared_in_coq=len(items), long_runs_compared_in_coq=len(longs), absolute_guard_region_cases=guard_cases,
                   operator_scale_decades=hist(None, lambda c: int(np.floor(np.log10(c.get("sA", 1.0))))), precond_scale_decades=hist(None, lambda c: int(np.floor(np.log10(c.get("sP", 1.0))))), long_runs=sum(1 for c in cases if c["stream"] == "long_iterates"),
                   max_steps_taken=max([o["steps"] for o in obs if o.get("ok")] + [0]), max_iters_histogram=hist(None, lambda c: ("<=50" if c["max_iters"] <= 50 else "51..128" if c["max_iters"] <= 128 else "129..1000" if c["max_iters"] <= 1000 else ">1000")), near_tie=len(nearset) + margin_ties, skipped_unstable=len(cases) - large - len(items) - margin_ties,
                   krylov_optimum_checked=opt_checked + large_opt, krylov_optimum_relative_to_remaining_error_checked=opt_rel_checked,
                   krylov_optimum_relative_worst=opt_rel_worst, krylov_optimum_worst_distance=opt_worst,
                   large_oracle_only=large, homogeneity_pairs=homog, inv_entry_point=invpath, inv_with_1d_guess=x0vec, reused_algorithm_cases=reuse, float32_complex64_cases=lowprec,
                   impl_exceptions=len(obs) - len(ok_obs),
                   stopped_by_tolerance=sum(1 for c, o in zip(cases, obs) if o.get("ok") and o["steps"] < c["max_iters"]),
                   stopped_by_max_iters=sum(1 for c, o in zip(cases, obs) if o.get("ok") and o["steps"] == c["max_iters"]),
                   spectrum_histogram=hist("kind"), precond_histogram=hist("pk"), x0_histogram=hist("x0kind"),
                   rhs_histogram=hist("spread"), complex_cases=sum(1 for c in cases if c["cplx"]),
                   kappa_decades=hist(None, lambda c: int(np.floor(np.log10(c["kappa"])))),
                   columns_histogram=hist("nc"), stream_histogram=hist("stream"), flag_value_used_by_model=flag))
