"""C02 - transpose, adjoint and left-multiplication agree with the represented matrix (DESIGN.md section 5, C02)."""
import numpy as np
import opcases as O
import trees as T
import core
from props import c01

TRUSTED_BASE = [
    "Coq 8.16.1 kernel + vm_compute; all C02 theorems closed under the global context (no axioms)",
    "hand-written model: coq/Op.v (mm: forward/backward products), coq/Algebra.v (transpose/adjoint rewriting rules of cola/fns.py) - tied to /repo by this correspondence check",
    "harness: trees.py, opcases.py, shim.py (its linear_transpose is the reference for the default _rmatmat); the values of A.isa(SelfAdjoint) at each step of a .T/.H tower are read off the implementation (annotation inference itself is property C05)",
]
ASSUMPTIONS = [
    "exact tier: Gaussian-integer payloads, float arithmetic exact (entry bound enforced by the generator)",
    "the self-adjoint transpose shortcut is sound only for symmetric matrices (hypothesis `symmetric` of C02_transpose_sound); complex Hermitian operators declared self-adjoint are the recorded finding sa_transpose_id",
]
HEADER = ("From Coq Require Import ZArith List Bool Arith.\nFrom Core Require Import Base Kron Op ZIInst CheckZI Algebra AlgebraProofs CheckAlg.\n"
          "Import ListNotations.\n")


def findings():
    import cola
    from cola import ops
    out = []
    try:
        H = np.array([[2, 1 + 1j], [1 - 1j, 3]])
        K = cola.SelfAdjoint(ops.Kronecker(ops.Dense(H), ops.Dense(np.eye(1, dtype=complex))))
        D = np.asarray(K.T.to_dense())
        present = not np.array_equal(D, H.T)
        got = D.tolist()
    except Exception as e:
        present, got = True, f"raised {type(e).__name__}: {e}"
    out.append(dict(flag="sa_transpose_id", present=present, got=str(got),
                    what="A.T of a complex Hermitian operator declared SelfAdjoint returns A itself (its transpose is conj(A)); Coq witness C02_sa_transpose_refuted",
                    witness="SelfAdjoint(Kronecker(Dense([[2,1+1j],[1-1j,3]]),Dense([[1]]))).T.to_dense()"))
    try:
        B = ops.BlockDiag(ops.Product(ops.ScalarMul(1 - 1j, (1, 1), dtype=np.complex64), ops.Identity((1, 1), np.complex64)))
        x = np.array([[2 + 1j]])
        Y = np.asarray(x @ B)
        present2, got2 = not np.allclose(Y, x * (1 - 1j)), Y.tolist()
    except Exception as e:
        present2, got2 = False, f"not reachable: {type(e).__name__}: {e}"
    out.append(dict(flag="scalar_keeps_annotations", present=present2, got=str(got2),
                    what="x @ BlockDiag((1-1j) * Identity): the scalar multiple keeps Identity's PSD annotation (C05 finding), so the default left product of the "
                         "BlockDiag takes the self-adjoint conjugation shortcut and returns x times the CONJUGATE matrix",
                    witness="[[2+1j]] @ BlockDiag(Product(ScalarMul(1-1j,(1,1)),Identity((1,1),complex64)))"))
    return out


def herm_tree(gen, rnd, cplx):
    """a tree whose matrix is Hermitian by construction (true SelfAdjoint declaration)"""
    n = rnd.randint(1, 3)
    B = gen.tree(rnd.randint(0, 1), (n, n), cplx)
    form = rnd.choice(["sum", "prod", "kron"])
    if form == "sum":
        return dict(k="Sum", ms=[B, dict(k="Adj", a=B)])
    if form == "prod":
        return dict(k="Prod", ms=[dict(k="Adj", a=B), B])
    S = dict(k="Sum", ms=[B, dict(k="Adj", a=B)])
    return dict(k="Kron", ms=[S, dict(k="Ident", dt=O.leaf_dts(B)[0], n=rnd.randint(1, 2))])


def scalar_annot_unsafe(t):
    """recorded finding scalar_keeps_annotations seen through PLAIN constructors: a Product with exactly one non-scalar
    factor inherits that factor's annotations whatever the scalar is; Identity / Permutation carry annotations by
    construction (and composites of them by intersection), so a NON-REAL scalar times such a factor still reports
    SelfAdjoint and misleads the conjugation shortcut of the default left product of its ancestors"""
    def leaves_annotated(x):
        if x["k"] in ("Ident", "Perm"):
            return True
        kids = x.get("ms") or ([x["a"]] if isinstance(x.get("a"), dict) else [])
        return bool(kids) and x["k"] in ("Kron", "BDiag", "Sum", "Transp", "Adj", "Sliced", "Prod", "KronSum") and all(leaves_annotated(y) for y in kids)
    if t["k"] == "Prod":
        sc = [m for m in t["ms"] if m["k"] == "Scal"]
        rest = [m for m in t["ms"] if m["k"] != "Scal"]
        if sc and len(rest) == 1 and leaves_annotated(rest[0]):
            c = complex(1, 0)
            for m in sc:
                c *= complex(*m["c"])
            if c.imag != 0:
                return True
    return any(scalar_annot_unsafe(y) for y in (t.get("ms") or ([t["a"]] if isinstance(t.get("a"), dict) else [])))


def scal_in_prod(t):
    """some Product node of the tree has a ScalarMul factor"""
    if t["k"] == "Prod" and any(m["k"] == "Scal" for m in t["ms"]):
        return True
    return any(scal_in_prod(y) for y in (t.get("ms") or ([t["a"]] if isinstance(t.get("a"), dict) else [])))


def run(ctx):
    import cola
    fnd = findings()
    present = {f["flag"] for f in fnd if f["present"]}
    c01_present = {f["flag"] for f in c01.findings() if f["present"]}
    rnd = ctx.rng
    gen = T.Gen(rnd)
    from props import c05
    c05_present = {f["flag"] for f in c05.findings() if f["present"]}
    ag = c05.AGen(rnd, T.Gen(rnd, kinds=("Dense", "Diag", "Tri", "Tridiag", "Sum", "Prod", "Kron", "Transp", "Adj")))
    ag.index_arrays = "sliced_index_array_cpu" not in c01_present
    gen.concat_equal = "concat_assert_wrong_axis" in c01_present
    gen.sparse_sorted = "sparse_unsorted_cols" in c01_present
    gen.mix_excl = ({"Sliced"} if ("sliced_drops_imag" in c01_present or "sliced_casts_operand" in c01_present) else set()) | \
                   ({"KronSum"} if "kronsum_inplace_dtype" in c01_present else set())

    def region_ok(t, dx):
        tree_cplx = any(d in T.CPLX for d in O.leaf_dts(t))
        if "scalar_keeps_annotations" in c05_present and scalar_annot_unsafe(t):
            return False
        if "sliced_drops_imag" in c01_present and O.sliced_unsafe(t, dx):
            return False
        if O.has_kind(t, ("Gen",)) and not set(O.leaf_dts(t) + [dx]) <= {"float64", "complex128"}:
            return False
        if "kronsum_inplace_dtype" in c01_present and O.has_kind(t, ("KronSum",)) and tree_cplx and dx not in T.CPLX:
            return False
        if "sliced_index_array_cpu" in c01_present:
            bad = []

            def walk(x):
                if x["k"] == "Sliced" and (x.get("ia") or T.range_slice(x["rs"]) is None or T.range_slice(x["cs"]) is None):
                    bad.append(1)
                for y in (x.get("ms") or ([x["a"]] if isinstance(x.get("a"), dict) else [])):
                    walk(y)
            walk(t)
            if bad:
                return False
        return True

    # ---- part 1: left products on plain trees
    n1 = ctx.budget(300, 3000)
    cases = O.gen_cases(ctx, n1, gen, ctx.budget(3, 4), accept=lambda c: region_ok(c["tree"], c["dx"]))
    obsl = [O.run_impl_left(c) for c in cases]
    terms = [O.coq_case(c, None, o) for c, o in zip(cases, obsl)]
    failing, err = O.eval_in_coq("c02l", terms, "check_bwd")
    mism = []
    if err:
        mism.append(dict(oracle_fail=False, harness_error=err))
        failing = []
    fs = set(failing)
    for i, (c, o) in enumerate(zip(cases, obsl)):
        bad = O.oracle_left(c, o)
        if bad or i in fs:
            mism.append(dict(oracle_fail=bool(bad), case=c, got=o, failed_clauses=bad, model_disagrees=(i in fs), part="left-product"))

    # ---- part 2: towers of .T / .H (depth <= 3 quick, <= 5 thorough), with and without true SelfAdjoint declarations
    n2 = ctx.budget(500, 4000)
    tw_cases, tw_terms = [], []
    skipped_flag = 0
    tries = 0
    while len(tw_cases) < n2 and tries < 20 * n2:
        tries += 1
        cplx = rnd.random() < 0.45
        declared = rnd.random() < 0.4
        an = None
        if rnd.random() < 0.3:
            # annotated trees of property C05's generator: TRUE declarations (SelfAdjoint / PSD / Unitary / Stiefel) at any
            # node, so that the self-adjoint shortcuts of transpose / adjoint / the default left product fire on inner
            # and outer nodes of every kind (Kronecker, BlockDiag, Sliced, products, ...)
            an, t = ag.node(rnd.randint(1, 3), rnd.random() < 0.6)
            if an["x"] not in ("sliced", "kron", "bdiag") and rnd.random() < 0.5:
                continue      # half of the stream has a root whose left product is the default one / a Sliced root
            if "scalar_keeps_annotations" in c05_present and scal_in_prod(t):
                continue      # recorded C05 finding: c*A keeps A's annotations whatever c is, which misleads the shortcuts
            if "SelfAdjoint" in c05.truth(T.dense(t)) and rnd.random() < 0.7 and T.shape(t)[0] > 0:
                an = dict(an, decl=sorted(set(an.get("decl", [])) | {"SelfAdjoint"}))
            declared = False
        elif rnd.random() < 0.12:
            # a slice (python slices or integer index arrays; equal, reordered or one-axis-reversed selections) of a
            # Hermitian parent declared SelfAdjoint: the annotation rule of Sliced decides whether .T/.H may shortcut
            pt = herm_tree(gen, rnd, cplx)
            pm = T.shape(pt)[0]
            if pm < 2:
                continue
            k_ = rnd.randint(2, pm)
            ia = ag.index_arrays and rnd.random() < 0.6
            rs = rnd.sample(range(pm), k_) if ia else list(range(rnd.randint(0, pm - k_), pm))[:k_]
            u_ = rnd.random()
            cs = list(rs) if u_ < 0.35 else (rnd.sample(rs, k_) if ia else list(reversed(rs)))
            an = dict(x="sliced", a=dict(x="leaf", tree=pt, decl=["SelfAdjoint"]), rs=rs, cs=cs, ia=ia, same=c05.same_sel(rs, cs, ia), decl=[])
            t = dict(k="Sliced", a=pt, rs=rs, cs=cs, ia=ia)
            declared = False
        elif rnd.random() < 0.10:
            # almost-real complex payloads / almost-symmetric matrices: tolerance-based Hermitian or symmetry tests must not fire
            t = T.near_real_tree(gen, rnd) if rnd.random() < 0.5 else T.near_sym_tree(gen, rnd)
            declared = False
        elif declared:
            t = herm_tree(gen, rnd, cplx)
        elif rnd.random() < 0.15:
            # operators whose declared dtype is real although they hold complex data (first term real): the region where
            # dtype-driven shortcuts and the recorded Sum/Concatenated dtype findings interact
            n_ = rnd.randint(1, 3)
            mk = lambda c_: gen.tree(rnd.randint(0, 1), (n_, n_), c_)
            t = dict(k="Sum", ms=[mk(False), mk(True)] + ([mk("mix")] if rnd.random() < 0.3 else []))
            w_ = rnd.random()
            if w_ < 0.25:
                t = dict(k="Prod", ms=[t, mk(False)] if rnd.random() < 0.5 else [mk(False), t])
            elif w_ < 0.45:
                t = dict(k="Kron", ms=[mk(False), t])
            elif w_ < 0.6:
                t = dict(k="BDiag", ms=[t], mu=[rnd.randint(1, 2)])
        elif rnd.random() < 0.3:
            kinds_ = [k for k in T.LEAF + T.COMP]
            t = T.rooted(gen, kinds_[tries % len(kinds_)], None, None, cplx=rnd.choice([False, True, "mix"]), depth=rnd.randint(1, 2))
            if t is None or (t["k"] in gen.mix_excl and len({d in T.CPLX for d in O.leaf_dts(t)}) > 1):
                continue
        else:
            t = gen.tree(rnd.randint(0, 3), None, rnd.choice([cplx, cplx, "mix"]))
        m, n = T.shape(t)
        wide64 = set(O.leaf_dts(t)) <= {"float64", "complex128", "int64"}
        if m * n > 400 or T.absbound(t) * 5 * max(m, n) > (2 ** 45 if wide64 else 2 ** 20):
            continue
        w = [rnd.choice("TH") for _ in range(rnd.randint(1, ctx.budget(3, 5)))]
        k = rnd.choice([1, 2])
        xc = rnd.random() < 0.5
        dx = rnd.choice(T.CPLX if xc else T.REAL)
        if wide64 and T.absbound(t) > 2 ** 18:
            dx = "complex128" if xc else "float64"
        if not region_ok(t, dx):
            continue
        try:
            A = c05.build(an) if an is not None else T.build(t)
            if declared:
                A = cola.SelfAdjoint(A)
            sas, cur = [], A
            for ch in w:
                # value of the shortcut condition of the transpose / adjoint rule at this step (the repaired transpose rule
                # also requires a real dtype)
                sa_ = bool(cur.isa(cola.SelfAdjoint))
                if ch == "T" and "sa_transpose_id" not in present and "complex" in str(cur.dtype):
                    sa_ = False
                sas.append(sa_)
                cur = cur.T if ch == "T" else cur.H
            # recorded finding: complex operand + self-adjoint shortcut on a transpose step
            tree_cplx = any(d in T.CPLX for d in O.leaf_dts(t))
            if "sa_transpose_id" in present and tree_cplx and any(s and ch == "T" for s, ch in zip(sas, w)):
                skipped_flag += 1
                continue
            rm, rn = cur.shape
            X = O.rand_mat(rnd, rn, k, xc)
            XL = O.rand_mat(rnd, k, rm, xc)
            case = dict(tree=t, declared=declared, annotated=(c05.coq(an) if an is not None else None), word="".join(w), sas=sas, m=rm, n=rn, k=k, dx=dx, X=X, XL=XL)
            Xn, XLn = O.np_of(X, rn, k, dx), O.np_of(XL, k, rm, dx)
            D = cur.to_dense()
            Y = cur @ Xn
            YL = XLn @ cur
            obs = dict(ok=True, shape=list(cur.shape), dense=T.to_gauss(D), res=T.to_gauss(Y), resl=T.to_gauss(YL),
                       vec=T.to_gauss(cur @ Xn[:, 0]), vecl=T.to_gauss(XLn[0, :] @ cur))
        except Exception as e:
            case = dict(tree=t, declared=declared, word="".join(w), m=m, n=n, k=k, dx=dx, X=[], XL=[])
            obs = dict(ok=False, err=type(e).__name__ + ": " + str(e)[:200])
        tw_cases.append((case, obs))
        if obs["ok"]:
            wl = "[" + ";".join("TT" if ch == "T" else "TH" for ch in w) + "]"
            sl = "[" + ";".join("true" if s else "false" for s in case["sas"]) + "]"
            z = T.zmat
            tw_terms.append("{| ce := run_tw " + sl + " " + wl + " (" + T.coq(t) + f"); cm := {case['m']}; cn := {case['n']}; ck := {k}; "
                            f"cx := {z(case['X'])}; cxl := {z(case['XL'])}; cdense := {z(obs['dense'])}; cres := {z(obs['res'])}; "
                            f"cresl := {z(obs['resl'])}; cvec := {T.zrow(obs['vec'])} |}}")
        else:
            tw_terms.append(None)
    idx = [i for i, t in enumerate(tw_terms) if t is not None]
    jobs_terms = [tw_terms[i] for i in idx]
    failing2, err2 = eval_tw(jobs_terms)
    if err2:
        mism.append(dict(oracle_fail=False, harness_error=err2))
        failing2 = []
    fs2 = {idx[i] for i in failing2}
    for i, (case, obs) in enumerate(tw_cases):
        bad = []
        if not obs["ok"]:
            bad.append("raised " + obs["err"])
        else:
            D = T.dense(case["tree"])
            for ch in case["word"]:
                D = D.T if ch == "T" else D.conj().T
            def safe(rows, m_, n_):
                try:
                    return O.np_of(rows, m_, n_, "complex128")
                except Exception:
                    return None          # wrong number of entries: a shape violation, reported below
            got = safe(obs["dense"], *D.shape) if list(D.shape) == obs["shape"] else None
            if got is None or not np.array_equal(got, D):
                bad.append("tower dense")
            else:
                X = O.np_of(case["X"], case["n"], case["k"], "complex128")
                XL = O.np_of(case["XL"], case["k"], case["m"], "complex128")
                r_, rl_ = safe(obs["res"], case["m"], case["k"]), safe(obs["resl"], case["k"], case["n"])
                if r_ is None or not np.array_equal(r_, D @ X):
                    bad.append("tower @ X")
                if rl_ is None or not np.array_equal(rl_, XL @ D):
                    bad.append("X @ tower")
                if "vecl" in obs and not (len(obs["vecl"]) == D.shape[1] and np.array_equal(np.array([complex(*v) for v in obs["vecl"]]), XL[0, :] @ D)):
                    bad.append("x @ tower (1-D left operand)")
        if bad or i in fs2:
            mism.append(dict(oracle_fail=bool(bad), case=case, got=obs, failed_clauses=bad, model_disagrees=(i in fs2), part="tower"))
    distinct = len({core.digest(c["tree"]) for c in cases if O.nontrivial(c)}) + len({core.digest([c["tree"], c["word"], c["declared"]]) for c, _ in tw_cases})
    return dict(
        evaluations=len(cases) + len(tw_cases), distinct_nontrivial=distinct,
        rule="(1) random operator trees with 1-D/2-D left operands; (2) towers of .T/.H (depth<=%d) over random trees, 40%% of them Hermitian by construction and declared SelfAdjoint; distinct by tree(+word) hash" % ctx.budget(3, 5),
        samples=[dict(tree=cases[0]["tree"], XL=cases[0]["XL"])] + [dict(tree=tw_cases[0][0]["tree"], word=tw_cases[0][0]["word"], declared=tw_cases[0][0]["declared"])],
        mismatches=mism, findings=fnd,
        extra=dict(left_product_cases=len(cases), tower_cases=len(tw_cases), towers_declared_selfadjoint=sum(1 for c, _ in tw_cases if c["declared"]),
                   towers_skipped_for_recorded_flag=skipped_flag, kind_histogram=O.histogram(cases),
                   word_histogram={w: sum(1 for c, _ in tw_cases if c["word"] == w) for w in sorted({c["word"] for c, _ in tw_cases})}))


def eval_tw(terms, shard=200):
    import re
    jobs = []
    for s in range(0, len(terms), shard):
        body = HEADER + "Definition cases : list case := [\n" + ";\n".join(terms[s:s + shard]) + "].\n"
        body += "Eval vm_compute in (length cases, failing check_both 0 cases).\n"
        jobs.append((f"c02t_{s // shard}", body))
    outs = core.coqc_many(jobs, 900)
    failing = []
    for si, (rc, out) in enumerate(outs):
        m = re.search(r"=\s*\((\d+),\s*\[(.*?)\]\)", out, flags=re.S)
        if rc != 0 or not m:
            return None, f"shard {si}: rc={rc}\n{out[-1500:]}"
        if m.group(2).strip():
            failing += [si * shard + int(x) for x in m.group(2).replace("\n", " ").split(";") if x.strip()]
    return failing, None
