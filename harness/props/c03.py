"""C03 - operator algebra builds the operator of the corresponding matrix expression (DESIGN.md section 5, C03)."""
import re
import numpy as np
import opcases as O
import trees as T
import core
from props import c01

TRUSTED_BASE = [
    "Coq 8.16.1 kernel + vm_compute; all C03 theorems closed under the global context (no axioms)",
    "hand-written model coq/Algebra.v of the overloads in cola/ops/operator_base.py and the dispatch rules of cola/fns.py (dot/add/mul/kron/kronsum/block_diag), tied to /repo by this correspondence check; which rule plum selects is property C04",
    "harness: trees.py, opcases.py, shim.py; expression generator and Python evaluator in this file",
]
ASSUMPTIONS = [
    "exact tier: Gaussian-integer payloads and scalars; division only by units (1,-1,1j,-1j) so that results stay integral",
    "`c / A` is read as c*A^-1 (DESIGN.md C03 'Reading of the statement'); the code returns A*(1/c): recorded finding rtruediv_is_div",
]
HEADER = ("From Coq Require Import ZArith List Bool Arith.\nFrom Core Require Import Base Kron Op ZIInst CheckZI Algebra AlgebraProofs CheckAlg.\n"
          "Import ListNotations.\n")


def findings():
    import cola
    from cola import ops
    out = []

    def probe(flag, what, fn, witness):
        try:
            present, got = fn()
        except Exception as e:
            present, got = True, f"raised {type(e).__name__}: {str(e)[:120]}"
        out.append(dict(flag=flag, present=bool(present), what=what, witness=witness, got=str(got)))
    A = ops.Dense(np.array([[1., 2.], [3., 4.]]))

    def dot_ident():
        B = A @ ops.Identity((2, 2), np.float64)
        return not np.array_equal(np.asarray(B.to_dense()), np.asarray(A.to_dense())), type(B).__name__
    probe("dot_identity_ambiguous", "A @ Identity (and Identity @ A) raises AmbiguousLookupError instead of returning A", dot_ident,
          "Dense([[1,2],[3,4]]) @ Identity((2,2),float64)")

    def kron_kron():
        K = ops.Kronecker(A, A)
        KK = cola.kron(K, K)
        return not np.array_equal(np.asarray(KK.to_dense()), np.kron(np.kron(A.A, A.A), np.kron(A.A, A.A))), type(KK).__name__
    probe("kron_kronecker_ambiguous", "cola.kron(Kronecker, Kronecker) raises AmbiguousLookupError", kron_kron, "kron(Kronecker(A,A),Kronecker(A,A))")

    def ksum_ksum():
        K = ops.KronSum(A, A)
        KK = cola.kronsum(K, K)
        return KK.shape != (16, 16), type(KK).__name__
    probe("kronsum_kronsum_ambiguous", "cola.kronsum(KronSum, KronSum) raises AmbiguousLookupError", ksum_ksum, "kronsum(KronSum(A,A),KronSum(A,A))")

    def rdiv():
        Q = 1.0 / ops.Dense(np.array([[2.]]))
        return not np.allclose(np.asarray(Q.to_dense()), [[0.5]]), np.asarray(Q.to_dense()).tolist()
    probe("rtruediv_is_div", "c / A returns A*(1/c) instead of c*A^-1 (Coq witness C03_rtruediv_refuted)", rdiv, "1.0 / Dense([[2.]])")

    def rsub():
        Xa = np.ones((2, 2))
        B = Xa - A
        return not np.array_equal(np.asarray(B.to_dense()), Xa - A.A), type(B).__name__
    probe("rsub_missing", "array - operator raises TypeError (LinearOperator defines __radd__ but no __rsub__)", rsub, "ones((2,2)) - Dense([[1,2],[3,4]])")

    def cplx_scalar():
        B = (1 + 2j) * A
        return not np.array_equal(np.asarray(B.to_dense()), (1 + 2j) * A.A), np.asarray(B.to_dense()).tolist()
    probe("mul_complex_scalar_real_op", "a complex scalar times a real operator raises TypeError (the scalar is cast to the operator's dtype)", cplx_scalar,
          "(1+2j) * Dense([[1,2],[3,4]])")

    def scal_cplx():
        S = ops.ScalarMul(3., (2, 2), dtype=np.float32)
        bad = []
        for nm, B in (("c*S", (-2 + 2j) * S), ("S*c", S * (-2 + 2j)), ("S*S'", S * ops.ScalarMul(1j, (2, 2), dtype=np.complex128))):
            want = {"c*S": (-6 + 6j), "S*c": (-6 + 6j), "S*S'": 3j}[nm] * np.eye(2)
            if not np.array_equal(np.asarray(B.to_dense()).astype(complex), want):
                bad.append((nm, str(B.dtype)))
        return bool(bad), bad
    def dot_ident_dtype():
        A32 = ops.Dense(np.ones((2, 3), dtype=np.float32))
        bad = []
        for nm, B, want in (("A32 @ I64", A32 @ ops.Identity((3, 3), np.float64), np.float64), ("Ic64 @ A32", ops.Identity((2, 2), np.complex64) @ A32, np.complex64),
                            ("I32 @ I64", ops.Identity((2, 2), np.float32) @ ops.Identity((2, 2), np.float64), np.float64)):
            if np.dtype(B.dtype) != np.dtype(want):
                bad.append((nm, str(np.dtype(B.dtype))))
        return bool(bad), bad
    probe("dot_identity_drops_dtype", "A @ Identity / Identity @ A return the other operand unchanged, so the Identity's dtype does not enter the promoted dtype of the product",
          dot_ident_dtype, "(Dense(ones((2,3),float32)) @ Identity((3,3),float64)).dtype")

    probe("scalarmul_scalar_keeps_real_dtype", "a complex scalar (or complex ScalarMul) times a real ScalarMul keeps the real dtype: the imaginary part is dropped", scal_cplx,
          "(-2+2j) * ScalarMul(3., (2,2), dtype=float32)")
    return out


class EGen:
    def __init__(self, rnd, gen, present):
        self.rnd, self.gen, self.present = rnd, gen, present

    def scalar(self, cplx):
        r = self.rnd
        # complex scalars on real operators only once the recorded TypeError is gone
        cplx = bool(cplx) or (not ({"mul_complex_scalar_real_op", "scalarmul_scalar_keeps_real_dtype"} & set(self.present)) and r.random() < 0.3)
        c = [r.choice([-3, -2, -1, 0, 1, 2, 3]), r.choice([-2, -1, 0, 0, 1, 2]) if cplx else 0]
        kinds = ["int", "float", "npscalar", "arr0"] + (["complex"] * 2 if cplx else [])
        sk = r.choice(kinds)
        if sk in ("int", "float") or not cplx:
            c[1] = 0
        return c, sk

    def expr(self, depth, shape, cplx):
        """returns (node, result kind)"""
        r = self.rnd
        m, n = shape if shape else (self.gen.dim(), self.gen.dim())
        free = shape is None
        if depth <= 0 or r.random() < 0.2:
            t = self.gen.tree(r.randint(0, 1), (m, n), cplx)
            return dict(op="leaf", tree=t, arr=(t["k"] == "Dense" and r.random() < 0.3)), t["k"]
        opts = ["add", "sub", "neg", "mul", "mul", "div", "dot", "dot", "sum"]
        if free:
            opts += ["kron", "kron", "block"] + (["kronsum"] if True else [])
        o = r.choice(opts)
        d = depth - 1
        if o in ("add", "sub"):
            x, _ = self.expr(d, (m, n), cplx)
            bad = r.random() < 0.06
            y, _ = self.expr(d, (m + 1, n) if bad else (m, n), cplx)
            return dict(op=o, x=x, y=y), "Sum"
        if o == "sum":
            return dict(op="sum", l=[self.expr(d, (m, n), cplx)[0] for _ in range(r.randint(2, 3))]), "Sum"
        if o == "neg":
            x, k = self.expr(d, (m, n), cplx)
            return dict(op="neg", x=x), ("Scal" if k == "Scal" else "Prod")
        if o == "mul":
            x, k = self.expr(d, (m, n), cplx)
            c, sk = self.scalar(cplx)
            return dict(op="mul", x=x, c=c, sk=sk, side=r.choice("lr")), ("Scal" if k == "Scal" else "Prod")
        if o == "div":
            x, k = self.expr(d, (m, n), cplx)
            c = r.choice([[1, 0], [-1, 0]] + ([[0, 1], [0, -1]] if cplx else []))
            return dict(op="div", x=x, c=c, sk=("complex" if c[1] else r.choice(["int", "float"]))), ("Scal" if k == "Scal" else "Prod")
        if o == "dot":
            bad = r.random() < 0.06
            kdim = self.gen.dim()
            for _ in range(20):
                x, kx = self.expr(d, (m, kdim), cplx)
                y, ky = self.expr(d, (kdim + (1 if bad else 0), n), cplx)
                if "dot_identity_ambiguous" in self.present and ("Ident" in (kx, ky)):
                    continue
                break
            else:
                return self.expr(0, (m, n), cplx)
            rk = kx if ky == "Ident" else (ky if kx == "Ident" else "Prod")
            return dict(op="dot", x=x, y=y), rk
        if o == "kron" and r.random() < 0.3:   # Diagonal (x) Diagonal fusion rule
            dt = self.gen.dt(cplx)
            mk = lambda: dict(op="leaf", tree=dict(k="Diag", dt=dt, d=[self.gen.val(dt) for _ in range(r.randint(1, 3))]), arr=False)
            return dict(op="kron", x=mk(), y=mk()), "Diag"
        if o == "kron":
            for _ in range(20):
                x, kx = self.expr(d, (r.randint(1, 2), r.randint(1, 2)), cplx)
                y, ky = self.expr(d, (r.randint(1, 2), r.randint(1, 2)), cplx)
                if "kron_kronecker_ambiguous" in self.present and kx == "Kron" and ky == "Kron":
                    continue
                break
            else:
                return self.expr(0, None, cplx)
            return dict(op="kron", x=x, y=y), ("Diag" if (kx == "Diag" and ky == "Diag") else "Kron")
        if o == "kronsum":
            for _ in range(20):
                a, b = r.randint(1, 2), r.randint(1, 2)
                x, kx = self.expr(d, (a, a), cplx)
                y, ky = self.expr(d, (b, b), cplx)
                if "kronsum_kronsum_ambiguous" in self.present and kx == "KronSum" and ky == "KronSum":
                    continue
                break
            else:
                return self.expr(0, None, cplx)
            return dict(op="kronsum", x=x, y=y), "KronSum"
        if o == "block":
            return dict(op="block", l=[self.expr(d, (r.randint(1, 2), r.randint(1, 2)), cplx)[0] for _ in range(r.randint(1, 3))]), "BDiag"
        raise AssertionError(o)


def pyscalar(c, sk):
    v = complex(c[0], c[1])
    if sk == "int":
        return int(c[0])
    if sk == "float":
        return float(c[0])
    if sk == "complex":
        return v
    if sk == "npscalar":
        return np.complex64(v) if c[1] else np.float32(c[0])
    if sk == "arr0":
        return np.array(v if c[1] else float(c[0]))
    raise AssertionError(sk)


_SHARED = {}


def ev(node):
    """evaluate with the public API (operator overloads + cola.kron/kronsum/block_diag)"""
    import cola
    o = node["op"]
    if o == "leaf":
        if node.get("arr") and node["tree"]["k"] == "Dense":
            return T.arr(node["tree"]["a"], node["tree"]["dt"])    # a plain array mixed into the expression
        if id(node) in _SHARED:
            return _SHARED[id(node)]                               # the same leaf dict at several positions: the same object
        A = T.build(node["tree"])
        _SHARED[id(node)] = A
        return A
    if o == "znum":
        z = dict(int=0, float=0.0, npf32=np.float32(0), npi64=np.int64(0))[node["zk"]]
        x = ev(node["x"])
        return {"0+x": lambda: z + x, "x+0": lambda: x + z, "x-0": lambda: x - z, "0-x": lambda: z - x}[node["form"]]()
    if o == "add":
        return ev(node["x"]) + ev(node["y"])
    if o == "sub":
        return ev(node["x"]) - ev(node["y"])
    if o == "sum":
        return sum(ev(x) for x in node["l"])
    if o == "neg":
        return -ev(node["x"])
    if o == "mul":
        c = pyscalar(node["c"], node["sk"])
        return (c * ev(node["x"])) if node["side"] == "l" else (ev(node["x"]) * c)
    if o == "div":
        return ev(node["x"]) / pyscalar(node["c"], node["sk"])
    if o == "dot":
        return ev(node["x"]) @ ev(node["y"])
    if o == "kron":
        return cola.kron(ev(node["x"]), ev(node["y"]))
    if o == "kronsum":
        return cola.kronsum(ev(node["x"]), ev(node["y"]))
    if o == "block":
        return cola.block_diag(*[ev(x) for x in node["l"]])
    raise AssertionError(o)


ALLK = T.LEAF + T.COMP


def pair_case(eg, i, cplx):
    """systematic stream: a combinator applied directly to operands whose ROOT kinds rotate through all kinds
    (the dispatch rules are keyed on kinds), incl. BlockDiag with multiplicities and right/left-nested Kronecker products"""
    r, gen = eg.rnd, eg.gen
    ops_ = ["mul", "mul", "neg", "div", "add", "sub", "dot", "kron", "kronsum", "kron3r", "kron3l", "block"]
    combos = eg.combos
    o, k1 = combos[i % len(combos)]
    k2 = ALLK[(i * 7 + 3) % len(ALLK)]
    k3 = ALLK[(i * 11 + 5) % len(ALLK)]
    if "kron" in o and r.random() < 0.5:   # diagonal factors exercise the fusion rules
        k1, k2 = r.choice([("Diag", "Diag"), ("Diag", k2), (k1, "Diag")])
    leaf = lambda t: dict(op="leaf", tree=t, arr=False)
    if o.startswith("sl_"):
        # every ordered pair of scalar-like kinds (Diagonal, Identity, ScalarMul) under kron / kronsum / @ / +: the fusion and
        # elimination rules are keyed on these kinds and the ORDER of the factors matters for kron and kronsum
        _, o2, ka, kb = o.split("_")
        na, nb = r.randint(2, 3), r.randint(2, 3)
        if ka == "Perm" and kb == "Perm":
            na = nb = 3       # two permutations of size 3 rarely commute: the order of composition is visible
        if o2 in ("dot", "add"):
            nb = na
        if (o2 == "dot" and "dot_identity_ambiguous" in eg.present and "Ident" in (ka, kb)):
            return None
        a = T.rooted(gen, ka, na, na, cplx=cplx, depth=0)
        b = T.rooted(gen, kb, nb, nb, cplx=cplx, depth=0)
        if a is None or b is None:
            return None
        return dict(op=o2, x=leaf(a), y=leaf(b)), None
    if o.startswith("share_"):
        # the SAME operator object at several positions of one combinator (block_diag(A, B, A), A + B + A, A @ B @ A,
        # kron(A, B, A)): identity-based caching or grouping must not reorder or merge the operands
        o2 = o[6:]
        kA, kB = r.choice(["Dense", "Diag", "Tri", "Sum", "Prod"]), r.choice(["Dense", "Diag", "Scal", "Kron"])
        n_ = r.randint(1, 2) if o2 in ("kron",) else r.randint(2, 3)
        a = T.rooted(gen, kA, n_, n_, cplx=cplx, depth=1)
        b = T.rooted(gen, kB, n_ if o2 in ("sum", "dot") else r.randint(1, 2), n_ if o2 in ("sum", "dot") else None, cplx=cplx, depth=1)
        if a is None or b is None or (o2 in ("sum", "dot") and T.shape(b) != (n_, n_)):
            return None
        A_, B_ = leaf(a), leaf(b)            # the same dict object = the same Python operator object (see ev)
        pat = r.choice([[A_, B_, A_], [A_, B_, A_], [A_, A_, B_], [B_, A_, A_], [A_, B_, B_, A_], [B_, A_, B_, A_]])
        if o2 == "block":
            return dict(op="block", l=pat), None
        if o2 == "sum":
            return dict(op="sum", l=pat), None
        e = pat[0]
        for x_ in pat[1:]:
            e = dict(op=o2, x=e, y=x_)
        return e, None
    if o == "longsum":
        # long sums (more than 8 / 16 terms, odd and even counts): sum([...]), +/- chains, and two shorter sums added together -
        # pairwise / blocked accumulation schemes only show past their block size
        nt = r.choice([9, 10, 11, 12, 13, 15, 17, 18, 33])
        m_, n_ = r.randint(1, 3), r.randint(1, 3)
        terms = []
        for q in range(nt):
            kq = ["Dense", "Diag", "Scal", "Dense", "Tri", "Sparse", "Ident", "Dense"][q % 8]
            tq = T.rooted(gen, kq, m_, n_ if kq in ("Dense", "Sparse") else m_, cplx=cplx, depth=0)
            if tq is None or T.shape(tq) != (m_, n_):
                tq = T.rooted(gen, "Dense", m_, n_, cplx=cplx, depth=0)
            terms.append(leaf(tq))
        form = r.choice(["sum", "chain", "two"])
        if form == "sum":
            return dict(op="sum", l=terms, long=True), None
        if form == "chain":
            e = terms[0]
            for x_ in terms[1:]:
                e = dict(op=r.choice(["add", "add", "sub"]), x=e, y=x_)
            return dict(e, long=True), None
        h = nt // 2
        return dict(op="add", x=dict(op="sum", l=terms[:h]), y=dict(op="sum", l=terms[h:]), long=True), None
    if o == "znum":
        # the NUMBER zero as an operand of + / - on either side: 0 + A, A + 0, A - 0 are A, and 0 - A is -A
        a = T.rooted(gen, k1, None, None, cplx=cplx, depth=1)
        if a is None:
            return None
        return dict(op="znum", x=leaf(a), form=r.choice(["0+x", "x+0", "x-0", "0-x", "0-x"]), zk=r.choice(["int", "float", "npf32", "npi64"])), None
    if o.startswith("flat_"):
        # both operands already have the kind the combinator flattens (Sum+Sum, Product@Product, Kronecker (x) Kronecker,
        # KronSum (+) KronSum): the order of the spliced factor lists matters for all but the sum
        o2 = o[5:]
        fk = dict(add="Sum", dot="Prod", kron="Kron", kronsum="KronSum")[o2]
        if (o2 == "kron" and "kron_kronecker_ambiguous" in eg.present) or (o2 == "kronsum" and "kronsum_kronsum_ambiguous" in eg.present):
            return None
        for _ in range(30):
            a = T.rooted(gen, fk, None, None, cplx=cplx, depth=1)
            if a is None:
                continue
            m, n = T.shape(a)
            b = T.rooted(gen, fk, m if o2 == "add" else (n if o2 == "dot" else None), n if o2 == "add" else None, cplx=cplx, depth=1)
            if b is None:
                continue
            if o2 == "kronsum" and (m != n or T.shape(b)[0] != T.shape(b)[1]):
                continue
            if o2 in ("kron", "kronsum") and T.shape(a)[0] * T.shape(b)[0] * T.shape(a)[1] * T.shape(b)[1] > 400:
                continue
            return dict(op=o2, x=leaf(a), y=leaf(b)), None
        return None
    a = T.rooted(gen, k1, None, None, cplx=cplx, depth=1)
    if a is None:
        return None
    m, n = T.shape(a)
    if o in ("mul", "neg", "div"):
        if o == "neg":
            return dict(op="neg", x=leaf(a)), None
        if o == "div":
            c = r.choice([[1, 0], [-1, 0]] + ([[0, 1], [0, -1]] if cplx else []))
            return dict(op="div", x=leaf(a), c=c, sk=("complex" if c[1] else r.choice(["int", "float"]))), None
        # scalar-like roots (ScalarMul / Identity / Diagonal) have their own mul rules: meet them with complex scalars on real payloads too
        force = k1 in ("Scal", "Ident", "Diag") and r.random() < 0.5 and not ({"mul_complex_scalar_real_op", "scalarmul_scalar_keeps_real_dtype"} & set(eg.present))
        c, sk = eg.scalar(cplx or force)
        if force and not c[1]:
            c, sk = [c[0], r.choice([-2, -1, 1, 2])], "complex"
        return dict(op="mul", x=leaf(a), c=c, sk=sk, side=r.choice("lr")), None
    if o in ("add", "sub"):
        b = T.rooted(gen, k2, m, n, cplx=cplx, depth=1)
        return (dict(op=o, x=leaf(a), y=leaf(b)), ("Sum",)) if b else None
    if o in ("add_zarr", "add_zarr_bad"):
        # a plain ARRAY operand that is entirely zero (of a wider dtype, or of a mismatching shape): no "adding zero is a
        # no-op" shortcut may swallow it - the sum has the promoted dtype, and a mismatching shape is rejected
        zm, zn = (m, n) if o == "add_zarr" else r.choice([(m + 1, n), (m, n + 1), (1, n) if m > 1 else (m + 2, n)])
        zdt = r.choice(["float64", "complex128"]) if o == "add_zarr" else gen.dt(cplx)
        z = dict(op="leaf", tree=dict(k="Dense", dt=zdt, a=[[[0, 0] for _ in range(zn)] for _ in range(zm)]), arr=True)
        x_, y_ = (leaf(a), z) if (r.random() < 0.6 or "rsub_missing" in eg.present) else (z, leaf(a))
        return dict(op=r.choice(["add", "sub"]), x=x_, y=y_), None
    if o in ("add_bad", "dot_bad"):
        # operands of incompatible shape, the root kinds rotating through ALL kinds (Identity / ScalarMul / Diagonal operands
        # are consumed by simplification rules that never build a Sum / Product): must be rejected
        if o == "add_bad":
            b = T.rooted(gen, k2, m + 1, n, cplx=cplx, depth=1) or T.rooted(gen, k2, m + 1, m + 1, cplx=cplx, depth=1)
            if b is None or T.shape(b) == (m, n):
                return None
            x_, y_ = (leaf(a), leaf(b)) if r.random() < 0.5 else (leaf(b), leaf(a))
            return dict(op=r.choice(["add", "sub"]), x=x_, y=y_), None
        if "dot_identity_ambiguous" in eg.present and "Ident" in (k1, k2):
            return None
        if r.random() < 0.5:
            b = T.rooted(gen, k2, n + 1, None, cplx=cplx, depth=1)
            if b is None or T.shape(b)[0] == n:
                return None
            return dict(op="dot", x=leaf(a), y=leaf(b)), None
        b = T.rooted(gen, k2, None, m + 1, cplx=cplx, depth=1)
        if b is None or T.shape(b)[1] == m:
            return None
        return dict(op="dot", x=leaf(b), y=leaf(a)), None
    if o == "dot":
        b = T.rooted(gen, k2, n, None, cplx=cplx, depth=1)
        if b is None or ("dot_identity_ambiguous" in eg.present and "Ident" in (k1, k2)):
            return None
        return dict(op="dot", x=leaf(a), y=leaf(b)), None
    if o == "block":
        b = T.rooted(gen, k2, None, None, cplx=cplx, depth=1)
        return (dict(op="block", l=[leaf(a), leaf(b)]), None) if b else None
    small = lambda k: T.rooted(gen, k, r.randint(1, 2) if k not in T.SQUARE_ONLY else None, r.randint(1, 2) if k not in T.SQUARE_ONLY else None, cplx=cplx, depth=1)
    if o == "kronsum":
        a2, b2 = T.rooted(gen, k1, None, None, cplx=cplx, depth=1), T.rooted(gen, k2, None, None, cplx=cplx, depth=1)
        if a2 is None or b2 is None or T.shape(a2)[0] != T.shape(a2)[1] or T.shape(b2)[0] != T.shape(b2)[1] or T.shape(a2)[0] * T.shape(b2)[0] > 40:
            return None
        if "kronsum_kronsum_ambiguous" in eg.present and k1 == "KronSum" and k2 == "KronSum":
            return None
        return dict(op="kronsum", x=leaf(a2), y=leaf(b2)), None
    a2, b2, c2 = small(k1), small(k2), small(k3)
    if a2 is None or b2 is None or c2 is None:
        return None
    amb = "kron_kronecker_ambiguous" in eg.present
    if o == "kron":
        if amb and k1 == "Kron" and k2 == "Kron":
            return None
        return dict(op="kron", x=leaf(a2), y=leaf(b2)), None
    if amb and ("Kron" in (k1,) and o == "kron3r" or "Kron" in (k3,) and o == "kron3l"):
        return None
    if o == "kron3r":
        return dict(op="kron", x=leaf(a2), y=dict(op="kron", x=leaf(b2), y=leaf(c2))), None
    return dict(op="kron", x=dict(op="kron", x=leaf(a2), y=leaf(b2)), y=leaf(c2)), None


class ShapeErr(Exception):
    pass


def dense_ev(node):
    """independent oracle: plain numpy"""
    import scipy.linalg as sl
    o = node["op"]
    if o == "leaf":
        return T.dense(node["tree"])
    if o in ("add", "sub"):
        x, y = dense_ev(node["x"]), dense_ev(node["y"])
        if x.shape != y.shape:
            raise ShapeErr()
        return x + y if o == "add" else x - y
    if o == "sum":
        xs = [dense_ev(x) for x in node["l"]]
        if any(x.shape != xs[0].shape for x in xs):
            raise ShapeErr()
        return sum(xs)
    if o == "neg":
        return -dense_ev(node["x"])
    if o == "znum":
        return -dense_ev(node["x"]) if node["form"] == "0-x" else dense_ev(node["x"])
    if o == "mul":
        return complex(*node["c"]) * dense_ev(node["x"])
    if o == "div":
        return dense_ev(node["x"]) / complex(*node["c"])
    if o == "dot":
        x, y = dense_ev(node["x"]), dense_ev(node["y"])
        if x.shape[1] != y.shape[0]:
            raise ShapeErr()
        return x @ y
    if o == "kron":
        return np.kron(dense_ev(node["x"]), dense_ev(node["y"]))
    if o == "kronsum":
        x, y = dense_ev(node["x"]), dense_ev(node["y"])
        return np.kron(x, np.eye(y.shape[0])) + np.kron(np.eye(x.shape[0]), y)
    if o == "block":
        return sl.block_diag(*[dense_ev(x) for x in node["l"]]).astype(np.complex128)
    raise AssertionError(o)


def coq_expr(node):
    o = node["op"]
    if o == "leaf":
        return f"ALeaf ({T.coq(node['tree'])})"
    if o in ("add", "sub", "dot", "kron", "kronsum"):
        c = dict(add="AAdd", sub="ASub", dot="ADot", kron="AKron", kronsum="AKronSum")[o]
        return f"{c} ({coq_expr(node['x'])}) ({coq_expr(node['y'])})"
    if o == "sum":
        e = coq_expr(node["l"][0])
        for x in node["l"][1:]:
            e = f"AAdd ({e}) ({coq_expr(x)})"
        return e
    if o == "neg":
        return f"ANeg ({coq_expr(node['x'])})"
    if o == "znum":
        return f"ANeg ({coq_expr(node['x'])})" if node["form"] == "0-x" else coq_expr(node["x"])
    if o == "mul":
        return f"AMul ({coq_expr(node['x'])}) {T.zc(node['c'])}"
    if o == "div":
        c = complex(*node["c"])
        inv = 1 / c
        return f"AMul ({coq_expr(node['x'])}) {T.zc([int(inv.real), int(inv.imag)])}"
    if o == "block":
        return "ABlock [" + ";".join(coq_expr(x) for x in node["l"]) + "]"
    raise AssertionError(o)


def scal_cplx(node):
    """the scalar of a mul / div node is complex-typed (Python complex, np.complex64, complex 0-d array)"""
    return node["sk"] == "complex" or bool(node["c"][1])


def leaf_dtype_np(t):
    import functools
    return functools.reduce(np.promote_types, [np.dtype(d) for d in O.leaf_dts(t)])


def dtype_ref(node):
    """independent reference for the dtype clause: numpy promotion over all operands, scalars weak"""
    o = node["op"]
    if o == "leaf":
        return leaf_dtype_np(node["tree"])
    if o in ("add", "sub", "dot", "kron", "kronsum"):
        return np.promote_types(dtype_ref(node["x"]), dtype_ref(node["y"]))
    if o in ("sum", "block"):
        import functools
        return functools.reduce(np.promote_types, [dtype_ref(x) for x in node["l"]])
    if o in ("neg", "znum"):
        return dtype_ref(node["x"])
    if o in ("mul", "div"):
        a = dtype_ref(node["x"])
        return np.promote_types(a, np.complex64) if scal_cplx(node) else a
    raise AssertionError(o)


def coq_dexp(node):
    """dtype skeleton of the expression for coq/AlgDtype.v (leaves: the C01 dtype model of the operator tree)"""
    o = node["op"]
    if o == "leaf":
        if O.has_kind(node["tree"], ("Gen",)):
            return "DXLeaf " + T.DTC[str(leaf_dtype_np(node["tree"]))]
        return "DXLeaf (ddtype (" + T.dsk(node["tree"]) + "))"
    if o in ("add", "sub", "dot", "kron", "kronsum"):
        return f"DXBin ({coq_dexp(node['x'])}) ({coq_dexp(node['y'])})"
    if o in ("sum", "block"):
        return f"DXList ({coq_dexp(node['l'][0])}) [" + ";".join("(" + coq_dexp(x) + ")" for x in node["l"][1:]) + "]"
    if o in ("neg", "znum"):
        return f"DXNeg ({coq_dexp(node['x'])})"
    if o in ("mul", "div"):
        return f"DXScal {'true' if scal_cplx(node) else 'false'} ({coq_dexp(node['x'])})"
    raise AssertionError(o)


def fix_arrays(node, present, top=True):
    """plain-array leaves only where the algebra accepts them: at most one array operand per binary combinator,
    none directly under scalar multiples / products, not on the left of `-` while __rsub__ is missing"""
    o = node["op"]
    def off(x):
        if x["op"] == "leaf":
            x["arr"] = False
    kids = [node[k] for k in ("x", "y") if k in node] + list(node.get("l", []))
    for k in kids:
        fix_arrays(k, present, False)
    if o in ("mul", "neg", "div", "dot"):
        for k in kids:
            off(k)
    elif o in ("add", "sub", "kron", "kronsum", "block", "sum"):
        arrs = [k for k in kids if k["op"] == "leaf" and k.get("arr")]
        for k in arrs[1:]:
            off(k)
        if o == "sub" and "rsub_missing" in present:
            off(node["x"])
        if o == "sum" and kids and kids[0]["op"] == "leaf":
            pass
    return node


def size(node):
    return 1 + sum(size(node[k]) for k in ("x", "y") if k in node) + sum(size(x) for x in node.get("l", []))


def all_trees(node, acc):
    if node["op"] == "leaf":
        acc.append(node["tree"])
    for k in ("x", "y"):
        if k in node:
            all_trees(node[k], acc)
    for x in node.get("l", []):
        all_trees(x, acc)
    return acc


def run(ctx):
    fnd = findings()
    present = {f["flag"] for f in fnd if f["present"]}
    c01_present = {f["flag"] for f in c01.findings() if f["present"]}
    rnd = ctx.rng
    gen = T.Gen(rnd, maxdim=3)
    gen.concat_equal = "concat_assert_wrong_axis" in c01_present
    gen.sparse_sorted = "sparse_unsorted_cols" in c01_present
    eg = EGen(rnd, gen, present)
    n = ctx.budget(900, 5000)
    cases, obs = [], []
    tries = 0
    ops_u = ["mul", "neg", "div", "add", "sub", "dot", "kron", "kronsum", "kron3r", "kron3l", "block", "add_bad", "dot_bad", "add_zarr", "add_zarr_bad"]
    eg.combos = [(o_, k_) for o_ in ops_u for k_ in ALLK] + [("flat_" + o_, None) for o_ in ("add", "dot", "kron", "kronsum") for _ in range(4)] + \
                [(f"sl_{o_}_{ka}_{kb}", None) for o_ in ("kron", "kronsum", "dot", "add") for ka in ("Diag", "Ident", "Scal", "Perm") for kb in ("Diag", "Ident", "Scal", "Perm")] + \
                [("share_" + o_, None) for o_ in ("block", "block", "sum", "dot", "kron") for _ in range(3)] + [("znum", k_) for k_ in ("Dense", "Sum", "Prod", "Kron", "Diag", "Ident") for _ in range(3)] + [("sl_dot_Perm_Perm", None)] * 3 + [("longsum", None)] * 6
    rnd.shuffle(eg.combos)
    pc_i = 0   # position in the (combinator x root kind) sweep: 198 combinations, all visited in every run
    while len(cases) < n and tries < 30 * n:
        tries += 1
        cplx = rnd.random() < 0.45
        if "mul_complex_scalar_real_op" in present:
            pass  # complex scalars are only drawn for all-complex expressions (EGen.scalar), real ones for real
        if tries % 2 == 0:
            pc_i += 1
            pc = pair_case(eg, pc_i, cplx)
            if pc is None:
                continue
            node = pc[0]
        else:
            node, _ = eg.expr(rnd.randint(1, ctx.budget(3, 4)), None, cplx)
        if size(node) > ctx.budget(12, 30) and not node.get("long"):
            continue
        fix_arrays(node, present)
        trees_ = all_trees(node, [])
        bad_region = False
        for t in trees_:
            if "sliced_index_array_cpu" in c01_present:
                def walk(x):
                    nonlocal bad_region
                    if x["k"] == "Sliced" and (x.get("ia") or T.range_slice(x["rs"]) is None or T.range_slice(x["cs"]) is None):
                        bad_region = True
                    for y in (x.get("ms") or ([x["a"]] if isinstance(x.get("a"), dict) else [])):
                        walk(y)
                walk(t)
            if "kronsum_inplace_dtype" in c01_present and O.has_kind(t, ("KronSum",)) and len(set(O.leaf_dts(t))) > 1:
                bad_region = True
        if "kronsum_inplace_dtype" in c01_present and "kronsum" in str(node) and len({d for t in trees_ for d in O.leaf_dts(t)}) > 1:
            bad_region = True
        if bad_region:
            continue
        try:
            D = dense_ev(node)
            experr = False
            if D.size == 0 or D.shape[0] * D.shape[1] > 400 or np.abs(D).max() > 2 ** 18:
                continue
        except ShapeErr:
            D, experr = None, True
        k = rnd.choice([1, 2])
        o = dict()
        try:
            _SHARED.clear()
            A = ev(node)
            was_array = isinstance(A, np.ndarray)
            if was_array:       # the whole expression is a plain array: lazify it
                import cola as _cola
                A = _cola.lazify(A)
            m_, n_ = A.shape
            dts = {d for t in trees_ for d in O.leaf_dts(t)}
            xc = cplx and rnd.random() < 0.5
            ks_region = "kronsum_inplace_dtype" in c01_present and ("kronsum" in str(node) or any(O.has_kind(t, ("KronSum",)) for t in trees_))
            anyc = any(d in T.CPLX for d in dts)
            dx = rnd.choice(T.CPLX) if (ks_region and anyc) else rnd.choice(T.CPLX if xc else T.REAL)
            X = O.rand_mat(rnd, n_, k, dx in T.CPLX)
            Dd = A.to_dense()
            Y = A @ O.np_of(X, n_, k, dx)
            o = dict(ok=True, shape=[m_, n_], dense=T.to_gauss(Dd), res=T.to_gauss(Y), X=X, dx=dx, type=type(A).__name__, dtype=str(np.dtype(A.dtype)), was_array=was_array)
        except (ValueError, AssertionError) as e:
            o = dict(ok=False, shape_err=True, err=type(e).__name__ + ": " + str(e)[:160])
        except Exception as e:
            o = dict(ok=False, shape_err=False, err=type(e).__name__ + ": " + str(e)[:160])
        cases.append(dict(expr=node, k=k, expect_error=experr))
        obs.append(o)
    # in-Coq comparison
    terms = []
    for c, o in zip(cases, obs):
        z = T.zmat
        if o.get("ok"):
            terms.append("{| aexpr := " + coq_expr(c["expr"]) + f"; aerr := false; am := {o['shape'][0]}; an := {o['shape'][1]}; ak := {c['k']}; "
                         f"aX := {z(o['X'])}; adense := {z(o['dense'])}; ares := {z(o['res'])} |}}")
        else:
            terms.append("{| aexpr := " + coq_expr(c["expr"]) + f"; aerr := {'true' if o.get('shape_err') else 'false'}; am := 0; an := 0; ak := 0; aX := []; adense := []; ares := [] |}}")
    jobs = []
    shard = 250
    for s in range(0, len(terms), shard):
        body = HEADER + "Definition cases : list acase := [\n" + ";\n".join(terms[s:s + shard]) + "].\nEval vm_compute in (length cases, failing check_alg 0 cases).\n"
        jobs.append((f"c03_{s // shard}", body))
    failing, mism = [], []
    for si, (rc, out) in enumerate(core.coqc_many(jobs, 900)):
        m = re.search(r"=\s*\((\d+),\s*\[(.*?)\]\)", out, flags=re.S)
        if rc != 0 or not m:
            mism.append(dict(oracle_fail=False, harness_error=f"shard {si}: rc={rc}\n{out[-1500:]}"))
            continue
        if m.group(2).strip():
            failing += [si * shard + int(x) for x in m.group(2).replace("\n", " ").split(";") if x.strip()]
    fs = set(failing)
    # dtype clause: in-Coq comparison with the promotion model (coq/AlgDtype.v) + independent numpy reference
    dt_skip_all = bool({"sum_dtype_first", "concat_dtype_first"} & c01_present)       # operand dtypes themselves are off (C01 findings)
    def dt_region_ok(c):
        if dt_skip_all:
            return False
        if "dot_identity_drops_dtype" in present and "'dot'" in str(c["expr"]) and any(O.has_kind(t, ("Ident",)) for t in all_trees(c["expr"], [])):
            return False
        if "scalarmul_scalar_keeps_real_dtype" in present and any(O.has_kind(t, ("Scal",)) for t in all_trees(c["expr"], [])):
            return False
        return True
    dt_idx = [i for i, (c, o) in enumerate(zip(cases, obs)) if o.get("ok") and o.get("dtype") in T.DTC and not o.get("was_array") and dt_region_ok(c)]
    dt_fail = set()
    for s0 in range(0, len(dt_idx), 400):
        part = dt_idx[s0:s0 + 400]
        body = ("From Coq Require Import List.\nFrom Core Require Import DtypeTable Dtype AlgDtype.\nImport ListNotations.\nDefinition cases : list (dexp * dt) := [\n" +
                ";\n".join("((" + coq_dexp(cases[i]["expr"]) + "), " + T.DTC[obs[i]["dtype"]] + ")" for i in part) + "].\nEval vm_compute in (length cases, dfailing 0 cases).\n")
        rc, out = core.coqc_text(f"c03dt_{s0 // 400}", body, 600)
        m = re.search(r"=\s*\((\d+),\s*\[(.*?)\]\)", out, flags=re.S)
        if rc != 0 or not m or int(m.group(1)) != len(part):
            mism.append(dict(oracle_fail=False, harness_error=f"dtype shard {s0 // 400}: rc={rc}\n{out[-1500:]}"))
            continue
        if m.group(2).strip():
            dt_fail |= {part[int(x)] for x in m.group(2).replace("\n", " ").split(";") if x.strip()}
    dt_set = set(dt_idx)
    for i, (c, o) in enumerate(zip(cases, obs)):
        bad = []
        if i in dt_set and np.dtype(o["dtype"]) != dtype_ref(c["expr"]):
            bad.append(f"result dtype {o['dtype']} is not the promoted dtype {dtype_ref(c['expr'])} of the operands")
        if i in dt_fail:
            fs.add(i)
        if c["expect_error"]:
            if o.get("ok") or not o.get("shape_err"):
                bad.append("incompatible shapes not rejected with a shape error: " + str(o.get("err", "returned an operator")))
        else:
            if not o.get("ok"):
                bad.append("raised " + o.get("err", ""))
            else:
                D = dense_ev(c["expr"])
                if list(D.shape) != o["shape"] or not np.array_equal(O.np_of(o["dense"], *D.shape, "complex128"), D):
                    bad.append("dense of the result")
                elif not np.array_equal(O.np_of(o["res"], D.shape[0], c["k"], "complex128"), D @ O.np_of(o["X"], D.shape[1], c["k"], "complex128")):
                    bad.append("result @ X")
        if bad or i in fs:
            mism.append(dict(oracle_fail=bool(bad), case=c, got={k: v for k, v in o.items() if k not in ("dense", "res")}, failed_clauses=bad, model_disagrees=(i in fs)))
    ops_hist = {}
    for c in cases:
        for w in re.findall(r"'op': '(\w+)'", str(c["expr"])):
            ops_hist[w] = ops_hist.get(w, 0) + 1
    distinct = len({core.digest(c["expr"]) for c in cases if size(c["expr"]) >= 3})
    return dict(
        evaluations=len(cases), distinct_nontrivial=distinct,
        rule="random algebraic expressions (size<=%d) over {+,-,neg,scalar*,*scalar,/unit,@,kron,kronsum,block_diag,sum()} with operator-tree leaves of every kind, "
             "scalars of 5 Python/numpy types, ~6%% shape-mismatched + and @ ; non-trivial = at least 3 nodes; distinct by expression hash" % ctx.budget(12, 30),
        samples=[cases[0]["expr"], cases[1]["expr"]],
        mismatches=mism, findings=fnd,
        extra=dict(operator_histogram=ops_hist, expected_shape_errors=sum(1 for c in cases if c["expect_error"]), dtype_clause_cases=len(dt_idx),
                   impl_exceptions=sum(1 for o in obs if not o.get("ok")), result_types={t: sum(1 for o in obs if o.get("type") == t) for t in sorted({o.get("type") for o in obs if o.get("type")})}))
