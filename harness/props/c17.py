"""C17 - randomised routines: deterministic in their key, leave the process-wide NumPy generator untouched,
Hutchinson exact / unbiased / bounded by max_iters (DESIGN.md section 5, C17)."""
import logging
import numpy as np
import shim  # noqa: F401
import cola
from cola import ops
import trees as T
import core
import c17_hutch as H
import c17_rng as R

TRUSTED_BASE = [
    "Coq 8.16.1 kernel + vm_compute (PrimFloat binary64 for the stopping rule and the tolerance tier); all theorems closed under the global context (no axioms)",
    "hand-written models coq/C17_Rng.v (generator state machine, randn = save/seed/draw/restore, one program per call site) and "
    "coq/C17_Hutch.v (estimator loop) - tied to /repo by this correspondence check",
    "the generator itself (MT19937, Box-Muller cache) and sha256 are external: Section variables in the theorems, observed tables "
    "(state digests, block digests) in the correspondence",
    "harness: c17_rng.py (histories, reference run without cola, digests = first 60 bits of sha1), c17_hutch.py (recording operator, "
    "independent numpy oracle, re-implementation of the key chain), trees.py, shim.py",
]
ASSUMPTIONS = [
    "'neither reads nor advances the global state' is read observationally (DESIGN.md C17): randn saves, reseeds and restores np.random; "
    "the state digest after every call equals the one before and results do not depend on it",
    "unbiasedness is a theorem for a fixed number of probe blocks and any linear functional with second moments c*delta (Rademacher instance proved); "
    "Gaussian moments, concentration and the effect of the adaptive stopping rule are out of reach - checked statistically only (z-test, 8 standard errors)",
    "iteration counts are compared only when the model's stopping margin exceeds 2^-10 relative (near ties counted, not compared)",
    "max_iters=0 still draws one probe block (the loop body runs once before the cap is looked at): read as 'no later than max(max_iters,1)'",
]


def findings():
    out = []
    logging.disable(logging.WARNING)
    # ---- lobpcg_global_rng
    e = dict(e="cola", site="lobpcg", n=5, mseed=11, key=None, k=0, max_iters=2, tol=0.1, rank=1)
    got = {}
    try:
        changed, differ = [], []
        for site in ("lobpcg", "eig_lobpcg"):
            e["site"] = site
            np.random.seed(5)
            b = R.state_digest()
            p1, _ = R.call_site(e)
            a = R.state_digest()
            changed.append(a != b)
            np.random.seed(6)
            p2, _ = R.call_site(e)
            differ.append(p1 != p2)
        present = any(changed)
        got = dict(state_changed=changed, results_differ_between_global_states=differ)
    except Exception as ex:
        present, got = True, f"raised {type(ex).__name__}: {ex}"
    out.append(dict(flag="lobpcg_global_rng", present=bool(present),
                    what="lobpcg (and eig(..., LOBPCG())) draws its start block with np.random.normal on the process-wide generator: "
                         "the global state is advanced and the routine has no key",
                    witness="np.random.seed(5); s=np.random.get_state(); cola.linalg.eig(PSD(Dense(M M^T+5I)),2,'LM',LOBPCG(max_iters=2)); np.random.get_state() != s",
                    expected="np.random.get_state() unchanged", got=str(got)))
    # ---- unkeyed_randn_sites: informational unless an unkeyed site touches the global state or is not repeatable
    obs = {}
    bad = False
    for site in R.UNKEYED + ("slq",):
        e = dict(e="cola", site=site, n=5, mseed=12, key=None, k=0, max_iters=2, tol=0.1, rank=2)
        try:
            np.random.seed(7)
            b = R.state_digest()
            p1, _ = R.call_site(e)
            a = R.state_digest()
            np.random.seed(8)
            p2, _ = R.call_site(e)
            obs[site] = dict(state_same=(a == b), repeat_same=(p1 == p2))
            bad = bad or a != b or p1 != p2
        except Exception as ex:
            obs[site] = f"raised {type(ex).__name__}: {ex}"
            bad = True
    out.append(dict(flag="unkeyed_randn_sites", present=bool(bad),
                    what="a routine that calls randn without a key (AdaNysPrecond, select_rank_adaptively, randomized_svd, SLQ with key=None) "
                         "changes the global generator or is not repeatable",
                    witness="AdaNysPrecond / select_rank_adaptively / randomized_svd / stochastic_lanczos_quad(key=None) under two global seeds",
                    expected="state unchanged, identical results", got=str(obs)))
    logging.disable(logging.NOTSET)
    return out


def run(ctx):
    fnd = findings()
    present = {f["flag"] for f in fnd if f["present"]}
    lob = "lobpcg_global_rng" in present
    logging.disable(logging.WARNING)
    mism, samples, extra = [], [], {}
    evaluations = 0
    distinct = set()

    # ---------------- part B: Hutchinson values / iteration counts against the Coq model ----------------
    gen = T.Gen(ctx.rng, kinds=[k for k in T.LEAF + T.COMP if k not in ("KronSum", "Concat", "Sliced")], dts=("float64",))
    gen.sparse_sorted = True      # C01's recorded finding sparse_unsorted_cols is not this property's subject
    nZ, nF = ctx.budget(300, 2000), ctx.budget(250, 1500)
    it_hist, k_hist, ties_total = {}, {}, 0
    by_tol = 0
    by_tol1 = 0
    nC, nB = ctx.budget(120, 800), ctx.budget(6, 30)
    dt_hutch = {}
    for tier, cnt in (("Z", nZ), ("F", nF), ("C", nC), ("B", nB)):
        cases = [H.gen_case(ctx, gen, tier) for _ in range(cnt)]
        if tier == "Z":      # long non-converging runs: caps around 64 / 100 / 128 / 200 / 256
            cases += [H.gen_long_case(ctx) for _ in range(ctx.budget(16, 60))]
        obs = [H.run_impl(c) for c in cases]
        ok_idx = [i for i, o in enumerate(obs) if o.get("ok")]
        for c in cases:
            dt_hutch[f"{c['dt']}/{c['rand']}"] = dt_hutch.get(f"{c['dt']}/{c['rand']}", 0) + 1
        if tier in ("Z", "F"):     # complex operators and n > 100 (bs = 100 != n): independent oracle only
            failing, ties, err = H.eval_in_coq(f"s{ctx.seed}", [(cases[i], obs[i]) for i in ok_idx], tier)
        else:
            failing, ties, err = [], [], None
        if err:
            mism.append(dict(oracle_fail=False, harness_error=err))
        failset = {ok_idx[i] for i in failing}
        ties_total += len(ties)
        for i, (c, o) in enumerate(zip(cases, obs)):
            evaluations += 1
            bad = H.oracle(c, o)
            chain = H.key_chain_ok(c, o)
            if o.get("ok"):
                it_hist[o["iters"]] = it_hist.get(o["iters"], 0) + 1
                by_tol += int(1 < o["iters"] < c["max_iters"])
                by_tol1 += int(o["iters"] < c["max_iters"])
                k_hist[c["k"]] = k_hist.get(c["k"], 0) + 1
                if o["iters"] > 1 or c["k"] != 0:
                    distinct.add(core.digest([c["D"], c["k"], c["key"], c["max_iters"], c["tol"], c["rand"]]))
            if bad or i in failset or not chain:
                mism.append(dict(oracle_fail=bool(bad), part="hutch", key_chain_as_modelled=chain,
                                 case={k: (v if k != "D" or c["n"] <= 8 else "(omitted: n > 8; regenerate from the seed)") for k, v in c.items()},
                                 got=dict(out=np.asarray(o.get("out")).tolist() if o.get("ok") else None, iters=o.get("iters"), err=o.get("err")),
                                 failed_clauses=bad, model_disagrees=(i in failset)))
        if tier == "Z":
            samples.append(dict(part="hutch", n=cases[0]["n"], k=cases[0]["k"], key=cases[0]["key"], max_iters=cases[0]["max_iters"],
                                tol=cases[0]["tol"], rand=cases[0]["rand"], D=cases[0]["D"], iters=obs[0].get("iters")))
    extra.update(hutch_cases=nZ + nF + nC + nB, hutch_cases_compared_in_coq=nZ + nF, hutch_dtype_probe_histogram=dt_hutch, hutch_iteration_histogram=it_hist, hutch_offset_histogram=k_hist, near_tie=ties_total,
                 hutch_stopped_by_tolerance_after_more_than_one_block=by_tol, hutch_stopped_by_tolerance=by_tol1)

    # statistical unbiasedness (never a theorem)
    tests, fails = H.unbiased_ztest(ctx, ctx.budget(6, 30), ctx.budget(1500, 4000))
    evaluations += tests
    extra.update(unbiased_ztests=tests, unbiased_ztest_failures=len(fails))
    for f in fails:
        mism.append(dict(oracle_fail=True, part="hutch_unbiased_ztest", case=f, failed_clauses=["mean over keys is more than 8 standard errors from the true entry"]))

    tests, fails = H.variance_test(ctx, ctx.budget(4, 16), ctx.budget(500, 1200))
    evaluations += tests
    extra.update(variance_tests=tests, variance_test_failures=len(fails))
    for f in fails:
        mism.append(dict(oracle_fail=True, part="hutch_variance_test", case=f,
                         failed_clauses=["the variance of the estimate over keys is not the analytic variance of independent probes divided by their number"]))

    # ---------------- parts A/C: histories against the generator machine ----------------
    nh = ctx.budget(120, 700)
    terms, hists, site_hist, not_reachable, dt_hist = [], [], {}, {}, {}
    reused = 0
    for hno in range(nh):
        h = R.gen_history(ctx.rng, ctx.rng.randint(4, 14), R.SITES)
        seed0 = ctx.rng.randint(0, 2 ** 31)
        tabs = R.Tables()
        g0, states, _ = R.reference_run(h, seed0, lob, tabs)
        impl = R.impl_run(h, seed0)
        clean = {}
        for i, e in enumerate(h):
            if e["e"] == "cola":
                site_hist[e["site"]] = site_hist.get(e["site"], 0) + 1
                clean[i] = R.clean_result(e)
                reused += int(bool(e.get("reuse")))
                dt_hist[e["dt"]] = dt_hist.get(e["dt"], 0) + 1
                if clean[i][2] is not None:
                    kx = f"{e['site']}:{e['dt']}:{clean[i][2]}"
                    not_reachable[kx] = not_reachable.get(kx, 0) + 1
                distinct.add(core.digest([e[k] for k in ("site", "n", "mseed", "key", "k", "max_iters", "tol", "rank", "dt", "reuse")]))
        evaluations += len(h)
        bad = R.oracle_history(h, impl, clean, lob)
        terms.append(R.coq_history(h, g0, states, impl, tabs, lob, clean))
        hists.append((h, seed0, impl, bad))
    calls, rbad = R.reuse_sweep(ctx.rng, lob, reps=ctx.budget(1, 4))
    evaluations += calls
    extra.update(algorithm_object_reuse_calls=calls)
    for b in rbad:
        mism.append(dict(oracle_fail=True, part="algorithm-object-reuse", **b))
    failing, err = R.eval_in_coq(f"s{ctx.seed}", terms)
    if err:
        mism.append(dict(oracle_fail=False, harness_error=err))
    for i, (h, seed0, impl, bad) in enumerate(hists):
        if bad or i in failing:
            mism.append(dict(oracle_fail=bool(bad), part="history", case=dict(seed0=seed0, history=h),
                             got=[dict(state=o["state"], before=o["before"], err=o["err"]) for o in impl],
                             failed_clauses=bad, model_disagrees=(i in failing)))
    samples.append(dict(part="history", seed0=hists[0][1], history=hists[0][0]))
    logging.disable(logging.NOTSET)
    extra.update(histories=nh, events=sum(len(h[0]) for h in hists), site_histogram=site_hist,
                 lobpcg_modelled_as="np.random draw on the global state" if lob else "keyed",
                 sites_not_reachable_by_dtype=not_reachable, history_dtype_histogram=dt_hist, history_events_with_reused_algorithm_object=reused,
                 unkeyed_randn_sites_observed=[f["got"] for f in fnd if f["flag"] == "unkeyed_randn_sites"][0])
    return dict(
        evaluations=evaluations, distinct_nontrivial=len(distinct),
        rule="Hutchinson cases: distinct (matrix, k, key, max_iters, tol, rand) with more than one probe block or an off-diagonal; "
             "history events: distinct cola calls (site, operator, key, parameters)",
        samples=samples, mismatches=mism, findings=fnd, extra=extra)
