"""C18 - operators are persistent values: inputs never mutated, repeated calls agree, flatten/unflatten round-trips with
leaves = exactly the array parameters, independent of construction history (DESIGN.md section 5, C18)."""
import itertools, logging, collections
import numpy as np
import shim  # noqa: F401
import cola
from cola import ops
import trees as T
import core
import c18_pool as P
import c18_seq as S
import c18_registry as G

TRUSTED_BASE = [
    "Coq 8.16.1 kernel + vm_compute; all theorems closed under the global context (no axioms)",
    "hand-written models coq/C18_Registry.v (per-class attribute registry, tree_flatten/unflatten, WrapMeta, .to), coq/C18_Store.v "
    "(heap of buffers with ownership, write sets, taint analysis), coq/C18_Sigs.v (aliasing signatures of the public operations, read off the code) "
    "- tied to /repo by this correspondence check",
    "harness: c18_registry.py (fresh-interpreter scripts; Python objects abstracted to array / operator / tuple / None / other by type), "
    "c18_seq.py (operation alphabet, byte snapshots, np.shares_memory), c18_pool.py (recording builder, per-kind parameter table), trees.py, shim.py",
    "numpy's view-vs-copy behaviour of reshape / moveaxis / diagonal is modelled by rule (May/Must/No), not derived",
]
ASSUMPTIONS = [
    "the device attribute is ignored (always None on the numpy backend); dtype moves through .to are documented as unsupported and not exercised",
    "info dictionaries (timings) are excluded from 'repeating a call returns the same result'; everything else is compared bit for bit",
    "operators whose baseline to_dense() already disagrees with the independent dense oracle (recorded findings of C01) are kept out of the pool",
    "exceptions raised by routines that do not support an operand (dispatch ambiguity, singular matrices, unsupported kinds) are recorded, not counted: "
    "the property is about what a call leaves behind, and the snapshots are still compared after a raising call",
    "no_caller_write is a theorem about the store model under the per-operation signatures of C18_Sigs.v; the signatures are validated by observation, not proved from source",
]


# the core of the alphabet: every length-3 sequence over it is run in the thorough tier (every length <= 2 sequence over
# the full alphabet is run in both tiers)
CORE = ("matmat", "rmatmat", "to_dense", "transpose", "adjoint", "add", "scale", "matmul", "annotate", "to_none", "flatten",
        "roundtrip", "getitem", "diag", "trace", "solve", "eig_alg", "inv_alg", "cg", "gmres", "lanczos", "arnoldi", "hutch")


def O_dt(t):
    """dtype of the first leaf of a tree"""
    while "dt" not in t:
        t = (t.get("ms") or [t.get("a")])[0]
    return t["dt"]


def findings(c01):
    out = []
    # ---- registry_first_instance_decides: the witness of coq/C18_Registry.v (history_dependent_refuted), replayed in fresh interpreters
    D2 = ["Dense", 2]
    scripts = [[["BDiag", [D2, D2], "list"]], [["BDiag", [D2, D2], "array"], ["BDiag", [D2, D2], "list"]],
               [["Sliced", D2, "slice"]], [["Sliced", D2, "array"], ["Sliced", D2, "slice"]]]
    res = G.run_many(scripts, core.REPO)
    got, present = {}, False
    try:
        a = [[x[0] for x in l] for l in res[0]["end"]][-1]
        b = [[x[0] for x in l] for l in res[1]["end"]][-1]
        got["BlockDiag(A,B,multiplicities=[1,2]) leaves, fresh process"] = a
        got["same operator after BlockDiag(A,B,multiplicities=np.array([1,2])) was built first"] = b
        present = a != b
        if len(res) > 2:
            a2 = [[x[0] for x in l] for l in res[2]["end"]][-1]
            b2 = [[x[0] for x in l] for l in res[3]["end"]][-1]
            got["Sliced(A,(slice(0,1),slice(None))) leaves fresh / after Sliced(A,(np.array([0]),slice(None))) was attempted"] = [a2, b2]
            got["the index-array constructor"] = [m for _, m in res[3]["errors"]] or "succeeded"
            present = present or a2 != b2
    except Exception as e:
        got["error"] = f"{type(e).__name__}: {e}; {[r['errors'] for r in res]}"
        present = True
    out.append(dict(flag="registry_first_instance_decides", present=bool(present),
                    what="which attributes are array parameters is decided per class by the first instance ever created: after "
                         "BlockDiag(A,B,multiplicities=np.array([1,2])) the operator BlockDiag(A,B,multiplicities=[1,2]) flattens to 4 leaves, two of them Python ints; "
                         "after Sliced(A,(index array, slice)) - even when that constructor raises - A[0:1,:] flattens to the array plus two slice objects",
                    witness="fresh interpreter: BlockDiag(Dense,Dense,multiplicities=np.array([1,2])); then BlockDiag(Dense,Dense,multiplicities=[1,2]).flatten()[0]",
                    expected="the two array parameters, as in a fresh interpreter", got=str(got)))

    # ---- sparse_stale_csr_after_unflatten
    def sparse():
        Sp = ops.Sparse(np.array([1., 2.]), np.array([0, 1]), np.array([1, 0]), (2, 2))
        v, u = Sp.flatten()
        S2 = u([2 * x if x.dtype == np.float64 else x for x in v])
        return np.asarray(S2.to_dense()), np.asarray(S2.data)
    try:
        d2, dat = sparse()
        present = not np.array_equal(d2, np.array([[0., 2.], [4., 0.]]))
        got = dict(dense=d2.tolist(), data=dat.tolist())
    except Exception as e:
        present, got = True, f"raised {type(e).__name__}: {e}"
    out.append(dict(flag="sparse_stale_csr_after_unflatten", present=bool(present),
                    what="Sparse keeps the CSR matrix built at construction as static data while `data` is a leaf: after substituting the "
                         "data leaf the operator's attribute changes but the represented matrix does not",
                    witness="Sp=Sparse([1,2],[0,1],[1,0],(2,2)); v,u=Sp.flatten(); u([2*data, ...]).to_dense()",
                    expected="[[0,2],[4,0]]", got=str(got)))

    # ---- lanczos_alias_identity: are caller-owned arrays ever modified?
    from cola.linalg.decompositions.lanczos import lanczos
    from cola.linalg.decompositions.arnoldi import arnoldi
    changed, detail = False, {}
    try:
        I3 = ops.Identity((3, 3), np.float64)
        for name, A in (("Identity", I3), ("Product(I,I)", ops.Product(I3, I3)), ("Kronecker(I3,I1)", ops.Kronecker(I3, ops.Identity((1, 1), np.float64))),
                        ("Transpose(Transpose(I))", ops.Transpose(ops.Transpose(I3)))):
            for fn in (lanczos, arnoldi):
                v = np.array([1., 2., 3.])
                v0 = v.copy()
                Q, H, _ = fn(A, start_vector=v, max_iters=3)
                Qd = np.asarray(Q.to_dense())
                ch = not np.array_equal(v, v0)
                detail[f"{fn.__name__}({name})"] = dict(start_vector_changed=ch, basis_orthogonality_error=float(np.abs(Qd.T @ Qd - np.eye(Qd.shape[1])).max()))
                changed = changed or ch
    except Exception as e:
        detail["error"] = f"{type(e).__name__}: {e}"
    out.append(dict(flag="lanczos_alias_identity", present=bool(changed),
                    what="Lanczos/Arnoldi update in place the array returned by A @ q; for operators whose product returns its argument this "
                         "writes into a caller-owned array (only the library's own basis is hit on the pinned tree - that part belongs to C14)",
                    witness="lanczos(Identity((3,3)), start_vector=v, max_iters=3); v unchanged?",
                    expected="start vector bit-identical", got=str(detail)))

    # ---- identity_to_mutates_self
    try:
        I2 = ops.Identity((2, 2), np.float64)
        A = ops.Dense(np.eye(2))
        before = ops.Product(I2, A).to_dense()
        J = I2.to("cpu")
        try:
            after = ops.Product(I2, A).to_dense()
            same = np.array_equal(before, after)
            err = None
        except Exception as e:
            same, err = False, f"{type(e).__name__}: {e}"
        present = (J is I2) and (I2.device is not None)
        got = dict(returns_self=J is I2, device_after=str(I2.device), repeat_Product_I_A=("same" if same else err))
    except Exception as e:
        present, got = True, f"raised {type(e).__name__}: {e}"
    out.append(dict(flag="identity_to_mutates_self", present=bool(present),
                    what="Identity.to(device) assigns self.device and returns self instead of a new operator: the caller's operator is modified and an "
                         "earlier call (Product(I, A)) no longer repeats (device mismatch assertion)",
                    witness="I=Identity((2,2),float64); Product(I,Dense(eye(2))); I.to('cpu'); Product(I,Dense(eye(2)))",
                    expected="I unchanged; a new operator returned", got=str(got)))
    return out


def flatten_checks(pool, stale_sparse):
    """leaves = the per-kind array parameters (by identity); round-trip; leaf substitution changes exactly that parameter and
    the represented matrix. Returns (number of checks, list of violations)."""
    n, viol = 0, []
    for e in pool:
        A, t = e["op"], e["tree"]
        try:
            leaves, un = A.flatten()
            exp = P.expected_leaves(t, A)
            n += 1
            if len(leaves) != len(exp) or any(l is not x[0] for l, x in zip(leaves, exp)):
                viol.append(dict(clause="leaves are not exactly the array parameters", tree=t,
                                 got=[type(l).__name__ for l in leaves], expected=[f"{x[1]['k']}.{x[2]}" for x in exp]))
                continue
            if any(not isinstance(l, np.ndarray) for l in leaves):
                viol.append(dict(clause="a leaf is not an array", tree=t, got=[type(l).__name__ for l in leaves]))
            B = un(leaves)
            n += 1
            if (type(B) is not type(A) or tuple(B.shape) != tuple(A.shape) or B.dtype != A.dtype or P.ann_names(B) != e["ann"]
                    or not np.array_equal(np.asarray(B.to_dense()), e["base"]) or any(l2 is not l for l2, l in zip(B.flatten()[0], leaves))):
                viol.append(dict(clause="unflatten(flatten(A)) differs from A (kind/shape/dtype/annotations/matrix/leaves)", tree=t))
            # annotated copy: annotations survive the round trip, the original keeps its own
            if A.shape[0] == A.shape[1]:
                W = cola.PSD(A)
                n += 1
                W2 = W.flatten()[1](W.flatten()[0])
                if P.ann_names(W2) != P.ann_names(W) or "PSD" not in P.ann_names(W2) or P.ann_names(A) != e["ann"]:
                    viol.append(dict(clause="annotations lost in the round trip, or annotating changed the original", tree=t))
            for i, (leaf, owner, attr) in enumerate(exp):
                if owner["k"] == "Sparse" and (stale_sparse or attr != "data"):
                    continue
                sub = P.substituted(t, owner, attr, leaf)
                if sub is None:
                    continue
                new_leaf, t2 = sub
                new_leaf = np.asarray(new_leaf).astype(leaf.dtype).reshape(leaf.shape)
                B = un([new_leaf if j == i else l for j, l in enumerate(leaves)])
                n += 1
                lb = B.flatten()[0]
                want = T.dense(t2)
                gotd = np.asarray(B.to_dense()).astype(np.complex128)
                if lb[i] is not new_leaf or any(lb[j] is not leaves[j] for j in range(len(leaves)) if j != i):
                    viol.append(dict(clause="substituting leaf %d changed other parameters or not that one" % i, tree=t, attr=attr))
                elif gotd.shape != want.shape or not np.array_equal(gotd, want):
                    viol.append(dict(clause="after substituting leaf %d (%s.%s) the represented matrix is not the one with that parameter replaced" % (i, owner["k"], attr),
                                     tree=t, got=gotd.tolist(), expected=want.tolist()))
                if not np.array_equal(np.asarray(A.to_dense()), e["base"]):
                    viol.append(dict(clause="substituting a leaf changed the original operator", tree=t))
        except Exception as ex:
            viol.append(dict(clause=f"flatten/unflatten raised {type(ex).__name__}: {ex}", tree=t))
    return n, viol


def special_entries():
    """operators whose product returns (a view of) its operand, and annotated ones"""
    I3 = dict(k="Ident", dt="float64", n=3)
    I1 = dict(k="Ident", dt="float64", n=1)
    trees = [dict(k="Prod", ms=[I3, I3]), dict(k="Kron", ms=[I3, I1]), dict(k="Kron", ms=[I1, I3]), dict(k="Transp", a=dict(k="Transp", a=I3)),
             dict(k="Kron", ms=[dict(k="Dense", dt="float64", a=[[[2, 0], [1, 0]], [[1, 0], [3, 0]]])]),
             dict(k="Kron", ms=[dict(k="Diag", dt="float64", d=[[2, 0], [3, 0]])]),
             dict(k="Dense", dt="float64", a=[[[4, 0], [1, 0], [0, 0]], [[1, 0], [3, 0], [1, 0]], [[0, 0], [1, 0], [5, 0]]]),
             dict(k="Diag", dt="float64", d=[[2, 0], [3, 0], [4, 0]]),
             dict(k="Tri", dt="float64", a=[[[2, 0], [0, 0]], [[1, 0], [3, 0]]], lower=True)]
    out = []
    for t in trees:
        arrays = []
        A = P.build_rec(t, arrays)
        out.append(dict(tree=t, op=A, arrays=arrays, base=np.asarray(A.to_dense()).copy(), ann=P.ann_names(A), shape=tuple(A.shape), dtype=str(np.dtype(A.dtype))))
    # PSD-annotated dense (for CG / Lanczos): same tree, annotation recorded
    t = trees[6]
    arrays = []
    A = cola.PSD(P.build_rec(t, arrays))
    out.append(dict(tree=t, op=A, arrays=arrays, base=np.asarray(A.to_dense()).copy(), ann=P.ann_names(A), shape=tuple(A.shape), dtype=str(np.dtype(A.dtype))))
    return out


def run(ctx):
    logging.disable(logging.WARNING)
    c01 = G.c01_flags(core.REPO)
    fnd = findings(c01)
    present = {f["flag"] for f in fnd if f["present"]}
    rnd = ctx.rng
    mism, samples, extra = [], [], {}
    evaluations = 0

    import time
    tm = {}
    t0 = time.time()
    # ---------------- pool ----------------
    pool, rejected = P.make_pool(rnd, ctx.budget(28, 60), present_c01=tuple(set(c01) | ({"sliced_index_array_cpu"} if "registry_first_instance_decides" in present else set())))
    pool += special_entries()
    for e in pool:
        e.setdefault("snaps", P.pre_snaps(e["arrays"]))
    kinds = collections.Counter(k for e in pool for k in set(T.kinds_of(e["tree"])))
    extra.update(pool_size=len(pool), pool_kind_histogram=dict(kinds), pool_rejected_c01=rejected, c01_flags_avoided=sorted(c01))

    # ---------------- flatten: leaves = parameters, round trip, substitution ----------------
    nfl, vfl = flatten_checks(pool, "sparse_stale_csr_after_unflatten" in present)
    evaluations += nfl
    for v in vfl:
        mism.append(dict(oracle_fail=True, part="flatten", **v))
    extra.update(flatten_checks=nfl)

    tm['pool+flatten'] = round(time.time() - t0, 1)
    t0 = time.time()
    # ---------------- sequences ----------------
    names = [x for x in S.NAMES if x != "to_device" or "identity_to_mutates_self" not in present]
    seqs = [[a] for a in names] + [list(p) for p in itertools.product(names, repeat=2)]
    core_names = [x for x in names if x in CORE]
    if ctx.tier == "thorough":
        seqs += [list(p) for p in itertools.product(core_names, repeat=3)]
    seqs += [[rnd.choice(names) for _ in range(3)] for _ in range(ctx.budget(1500, 6000))]
    seqs += [[rnd.choice(names) for _ in range(rnd.randint(4, 40))] for _ in range(ctx.budget(80, 400))]
    err_hist, inapp, alias_obs, calls = collections.Counter(), 0, [], 0
    distinct = set()
    for i, sq in enumerate(seqs):
        r = S.run_sequence(sq, pool, rnd, check_all_pool=(i % 200 == 0))
        calls += len(sq)
        inapp += r["inapplicable"]
        for st, cls in r["errors"].items():
            err_hist[f"{sq[st]}:{cls}"] += 1
        alias_obs += r["alias_obs"]
        if len(sq) >= 2:
            distinct.add(tuple(sq))
        for v in r["violations"]:
            mism.append(dict(oracle_fail=True, part="sequence", sequence=sq, **v))
        if len(mism) > 50:
            break
    evaluations += calls
    extra.update(sequences=len(seqs), sequence_calls=calls, sequences_exhaustive_up_to=("2 over the full alphabet, 3 over the core alphabet" if ctx.tier == "thorough" else "2 over the full alphabet"),
                 core_alphabet=core_names,
                 alphabet=names, inapplicable_steps=inapp, exceptions_by_op=dict(err_hist.most_common(40)))
    samples.append(dict(part="sequence", sequence=seqs[len(names) + 7], pool_tree=pool[0]["tree"]))

    tm['sequences'] = round(time.time() - t0, 1)
    t0 = time.time()
    # ---------------- alias sweep: composites with an argument-returning child in first / middle / last position ----------------
    sweep, sweep_rej = [], 0
    reordered = P.reordered_slice_trees(rnd)
    if ctx.tier != "thorough":      # quick tier: every float64 one, a third of the float32 / complex128 ones
        reordered = [t for t in reordered if T.kinds_of(t) and (O_dt(t) == "float64" or rnd.random() < 0.33)]
    for t in P.alias_prone_trees(rnd) + reordered:
        try:
            e = P.entry_of(t)
            if not np.array_equal(e["base"].astype(np.complex128), T.dense(t)):
                sweep_rej += 1
                continue
            e.setdefault("snaps", P.pre_snaps(e["arrays"]))
            sweep.append(e)
        except Exception:
            sweep_rej += 1
    sweep_runs = 0
    for e in sweep:
        for layout in ("C", "F", "strided"):
            for name in ("matmat", "matvec", "rmatmat", "to_dense", "diag", "roundtrip", "to_none", "annotate"):
                if name in ("to_dense", "diag", "roundtrip", "to_none", "annotate") and layout != "C":
                    continue
                if e["tree"]["k"] == "Sliced" and name in ("to_dense", "diag", "annotate"):
                    continue
                r = S.run_sequence([name], pool, rnd, force=e, layout=layout)
                sweep_runs += 1
                alias_obs += r["alias_obs"]
                for st, cls in r["errors"].items():
                    err_hist[f"sweep:{name}:{cls}"] += 1
                for v in r["violations"]:
                    mism.append(dict(oracle_fail=True, part="alias-sweep", operand_layout=layout, sweep_op=name, **v))
    evaluations += sweep_runs
    extra.update(alias_sweep_operators=len(sweep), alias_sweep_runs=sweep_runs, alias_sweep_rejected=sweep_rej,
                 alias_sweep_kinds=dict(collections.Counter(e["tree"]["k"] for e in sweep)),
                 exceptions_by_op=dict(err_hist.most_common(40)))
    tm['alias_sweep'] = round(time.time() - t0, 1)
    t0 = time.time()
    # ---------------- aliasing signatures against the Coq functions ----------------
    failing, uniq, err = G.eval_alias_in_coq(f"s{ctx.seed}", alias_obs)
    if err:
        mism.append(dict(oracle_fail=False, harness_error=err))
    for i in failing:
        q, kt, o = uniq[i]
        mism.append(dict(oracle_fail=False, part="alias-signature", query=q, structure=kt, observed_shares_memory=o,
                         note="np.shares_memory disagrees with the aliasing signature of coq/C18_Sigs.v"))
    evaluations += len(alias_obs)
    extra.update(alias_observations=len(alias_obs), alias_distinct=len(uniq),
                 alias_true=sum(1 for _, _, o in uniq if o))

    tm['alias'] = round(time.time() - t0, 1)
    t0 = time.time()
    # ---------------- registry: fresh interpreters, Coq machine replays the events ----------------
    arrays_ok = True     # a constructor that raises is modelled too (XPartial): its assignments reach the registry
    specs = [G.gen_spec(rnd, arrays_ok) for _ in range(ctx.budget(40, 200))]
    perms = G.permutation_specs(rnd, arrays_ok)
    specs += perms[:ctx.budget(60, 1200)]
    results = G.run_many(specs, core.REPO)
    failing, err = G.eval_in_coq(f"s{ctx.seed}", results)
    if err:
        mism.append(dict(oracle_fail=False, harness_error=err))
    n_obj, script_errs = 0, collections.Counter()
    for i, (sp, rs) in enumerate(zip(specs, results)):
        n_obj += len(rs["end"])
        for st, msg in rs["errors"]:
            script_errs[msg.split(":")[0]] += 1
            if st == "subprocess":
                mism.append(dict(oracle_fail=False, part="registry", harness_error=msg))
        if i in failing:
            mism.append(dict(oracle_fail=False, part="registry", script=sp,
                             note="leaves observed in a fresh interpreter differ from the registry machine's prediction",
                             observed_end=rs["end"]))
        distinct.add(core.digest(sp))
    evaluations += n_obj
    extra.update(registry_scripts=len(specs), registry_order_permutations=min(len(perms), ctx.budget(60, 1200)), registry_objects=n_obj,
                 registry_script_construction_errors=dict(script_errs))
    samples.append(dict(part="registry", script=specs[0]))
    tm['registry'] = round(time.time() - t0, 1)
    extra['timing_s'] = tm
    logging.disable(logging.NOTSET)
    return dict(
        evaluations=evaluations, distinct_nontrivial=len(distinct),
        rule="distinct operation sequences of length >= 2 (exhaustive up to the stated length, random beyond) plus distinct fresh-interpreter scripts",
        samples=samples, mismatches=mism, findings=fnd, extra=extra)
